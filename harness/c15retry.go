package main

// C15, family "retry": the wrappers that first try a fixed-size scratch and
// retry once with the size the first attempt reported:
//   Options.Queries()  4 result slots, retry with n slots   (Opt/Model.v queries)
//   Options.Clone()    64-byte value buffer, retry with the total (Opt/Model.v clone)
// (Path()/LocationPath() with their 32-byte buffer are in the directed family.)
// The retry branch is only reached with MORE than 4 Uri-Query options / more
// than 64 bytes of values, so the lists are built across those boundaries:
// 1..9 queries (Queries() is observed after every step, so every count on the
// way is seen), value totals 63..66, 127..129 and 300 for Clone, as one long
// value and spread over several options, and an edit that crosses 64 between
// two clones. Nothing here is random or timing dependent.

import "fmt"

func c15RetryFamily(e *Emitter, thorough bool) {
	type mc struct{ mode, cp int }
	targets := []mc{{0, 0}, {0, 16}, {1, 16}}
	if thorough {
		targets = []mc{{0, 0}, {0, 1}, {0, 16}, {1, 16}}
	}
	qv := func(i int) c15Val { return lv(fmt.Sprintf("k%d=%s", i, "vvvvvvvvv"[:i%9])) }
	probes := []int{11, 15, 60}
	for _, t := range targets {
		// (a) typed AddBytes/AddQuery, queries between Uri-Path and a later option
		ops := []c15Op{{K: "add", ID: 11, V: lv("p")}, {K: "addu", ID: 60, U: 300, B: 8}}
		for i := 1; i <= 9; i++ {
			v := qv(i)
			ops = append(ops, c15Op{K: "addb", ID: 15, V: v, B: len(v.bytes())})
		}
		// collapse to one, grow again past four, remove
		ops = append(ops, c15Op{K: "set", ID: 15, V: lv("only")})
		for i := 1; i <= 5; i++ {
			ops = append(ops, c15Op{K: "add", ID: 15, V: qv(i + 10)})
		}
		ops = append(ops, c15Op{K: "rm", ID: 15})
		c15Emit(e, c15Case{Mode: t.mode, Cap: t.cp, Probes: probes, Ops: ops}, "retry")
		// (b) queries at the END of the list, raw Add, with empty and repeated values
		ops = []c15Op{{K: "add", ID: 11, V: lv("p")}}
		for i := 1; i <= 7; i++ {
			v := qv(i)
			if i == 3 {
				v = lv("")
			}
			if i == 6 {
				v = qv(2)
			}
			ops = append(ops, c15Op{K: "add", ID: 15, V: v})
		}
		c15Emit(e, c15Case{Mode: t.mode, Cap: t.cp, Probes: probes, Ops: ops}, "retry")
		// (c) n queries at once through ResetOptionsTo, n = 4, 5, 6, 8 (interleaved with other numbers)
		for _, n := range []int{4, 5, 6, 8} {
			var ins []c15In
			tot := 0
			for i := 1; i <= n; i++ {
				v := qv(i)
				tot += len(v.bytes())
				ins = append(ins, c15In{ID: 15, V: v})
				if i == 2 {
					ins = append(ins, c15In{ID: 11, V: lv("seg")})
					tot += 3
				}
			}
			c15Emit(e, c15Case{Mode: t.mode, Cap: t.cp, Probes: probes, Ops: []c15Op{
				{K: "reset", Ins: ins, B: tot}, {K: "clone"}, {K: "add", ID: 15, V: lv("last")}}}, "retry")
		}
	}
	// Clone() of message.Options around the 64-byte scratch buffer
	totals := []int{63, 64, 65, 66, 128, 129, 300}
	if thorough {
		totals = []int{33, 62, 63, 64, 65, 66, 67, 100, 127, 128, 129, 130, 255, 256, 300, 1000}
	}
	cprobes := []int{4, 11, 15}
	for ti, tot := range totals {
		cps := []int{[]int{0, 1, 16}[ti%3]}
		if thorough {
			cps = []int{0, 1, 16}
		}
		for _, cp := range cps {
			// one long value
			c15Emit(e, c15Case{Mode: 0, Cap: cp, Probes: cprobes, Ops: []c15Op{
				{K: "add", ID: 4, V: gv(20+ti, tot)}, {K: "clone"}, {K: "add", ID: 11, V: lv("x")}, {K: "clone"}}}, "retry")
			// spread over three options (copied into a caller's buffer by ResetOptionsTo);
			// then one more byte, clone, drop the long one, clone
			c15Emit(e, c15Case{Mode: 0, Cap: cp, Probes: cprobes, Ops: []c15Op{
				{K: "reset", B: tot, Ins: []c15In{{15, gv(40+ti, 13)}, {4, gv(41+ti, tot-33)}, {11, gv(42+ti, 20)}}},
				{K: "clone"}, {K: "addb", ID: 15, V: lv("z"), B: 1}, {K: "clone"}, {K: "rm", ID: 4}, {K: "clone"}}}, "retry")
		}
	}
	// the same totals through pool.Message.Clone (fresh target message)
	for ti, tot := range []int{64, 65, 300} {
		c15Emit(e, c15Case{Mode: 1, Cap: 16, Probes: cprobes, Ops: []c15Op{
			{K: "add", ID: 4, V: gv(60+ti, tot-20)}, {K: "addb", ID: 11, V: gv(61+ti, 20)}, {K: "clone"}, {K: "addb", ID: 15, V: lv("z")}, {K: "clone"}}}, "retry")
	}
}
