package main

// C14: sync.Map / cache.Cache under forced schedules (cooperative scheduler,
// sched.go) and under the hook-free lock-holding-callback barrier.
// Case syntax: coq/theories/Map/Run.v.

import (
	"encoding/json"
	"fmt"
	"runtime"
	"sort"
	"strings"
	"sync"
	"sync/atomic"
	"time"

	"github.com/plgd-dev/go-coap/v3/pkg/cache"
)

func init() { props["C14"] = runC14 }

type c14Elem struct {
	ID int   `json:"i"`
	VU int64 `json:"u,omitempty"` // validUntil in ns relative to the start of the run; 0 = zero time
}

type c14Op struct {
	Kind string  `json:"o"`
	K    int     `json:"k,omitempty"`
	V    c14Elem `json:"v,omitempty"`
	F    c14Elem `json:"f,omitempty"` // callback's answer; ID 0 = nil callback
	Del  bool    `json:"d,omitempty"`
	Now  int64   `json:"n,omitempty"`
	Stop int     `json:"s,omitempty"` // Range: callback returns false at its Stop-th call
}

type c14Init struct {
	K int     `json:"k"`
	E c14Elem `json:"e"`
}

type c14Case struct {
	Free  bool      `json:"free,omitempty"`
	Init  []c14Init `json:"init"`
	Progs [][]c14Op `json:"progs"`
	Sched []int     `json:"sched,omitempty"`
}

const c14T = int64(36000) * 1000000000 // ten hours

type c14E = cache.Element[int]

type c14Run struct {
	base   time.Time
	c      *cache.Cache[int, int]
	elems  map[int]*c14E
	spec   map[int]c14Elem
	ids    map[*c14E]int
	ekey   map[int]int
	mu     sync.Mutex
	events []string
	cur    *c14Thread
	hung   bool
	// free-running (barrier) mode: how many callbacks that the API runs inside its write-locked section
	// are executing at this moment, and the highest value seen
	free  bool
	cbIn  atomic.Int32
	cbMax atomic.Int32
}

// excl marks a callback that the map promises to run inside its write-locked section (everything but
// LoadWithFunc's): in free-running mode it lingers a little so that an overlap with another such
// callback is seen
func (r *c14Run) excl() {
	if !r.free {
		return
	}
	n := r.cbIn.Add(1)
	for {
		m := r.cbMax.Load()
		if n <= m || r.cbMax.CompareAndSwap(m, n) {
			break
		}
	}
	for i := 0; i < 50; i++ {
		runtime.Gosched()
	}
	time.Sleep(30 * time.Microsecond)
	r.cbIn.Add(-1)
}

type c14Thread struct {
	r       *c14Run
	id      int
	ops     []string
	open    int
	expired []int
}

func coqVal(e c14Elem) string { return fmt.Sprintf("(%d, %s)", e.ID, coqZ(e.VU)) }

func coqRes(r []int64) string {
	p := make([]string, len(r))
	for i, x := range r {
		p[i] = coqZ(x)
	}
	return "[" + strings.Join(p, "; ") + "]"
}

func b2i(b bool) int64 {
	if b {
		return 1
	}
	return 0
}

func newC14Run(cs *c14Case) *c14Run {
	r := &c14Run{base: time.Now(), c: cache.NewCache[int, int](), elems: map[int]*c14E{}, spec: map[int]c14Elem{}, ids: map[*c14E]int{}, ekey: map[int]int{}}
	reg := func(e c14Elem, k int) {
		if e.ID == 0 {
			return
		}
		if _, ok := r.elems[e.ID]; ok {
			return
		}
		var vu time.Time
		if e.VU != 0 {
			vu = r.base.Add(time.Duration(e.VU))
		}
		p := cache.NewElement(e.ID, vu, func(d int) {
			if t := r.cur; t != nil {
				t.expired = append(t.expired, d)
			}
		})
		r.elems[e.ID] = p
		r.spec[e.ID] = e
		r.ids[p] = e.ID
		r.ekey[e.ID] = k
	}
	for _, in := range cs.Init {
		reg(in.E, in.K)
	}
	for _, p := range cs.Progs {
		for _, o := range p {
			reg(o.V, o.K)
			reg(o.F, o.K)
		}
	}
	for _, in := range cs.Init {
		r.c.Store(in.K, r.elems[in.E.ID])
	}
	return r
}

func (r *c14Run) el(e c14Elem) *c14E {
	if e.ID == 0 {
		return nil
	}
	return r.elems[e.ID]
}

func (r *c14Run) id(p *c14E) int64 {
	if p == nil {
		return 0
	}
	if i, ok := r.ids[p]; ok {
		return int64(i)
	}
	return -9
}

func (r *c14Run) log(s string) {
	r.mu.Lock()
	r.events = append(r.events, s)
	r.mu.Unlock()
}

func (t *c14Thread) begin() {
	t.open = len(t.ops)
	t.ops = append(t.ops, "")
	t.r.log(fmt.Sprintf("OI %d %d", t.id, t.open))
}

func (t *c14Thread) end(op string, res []int64) {
	t.ops[t.open] = op
	t.r.log(fmt.Sprintf("OR %d %d %s", t.id, t.open, coqRes(res)))
	t.open = -1
}

func (r *c14Run) flatten(m map[int]*c14E) []int64 {
	keys := make([]int, 0, len(m))
	for k := range m {
		keys = append(keys, k)
	}
	sort.Ints(keys)
	out := []int64{}
	for _, k := range keys {
		out = append(out, int64(k), r.id(m[k]))
	}
	return out
}

// exec runs one method call of the real implementation on thread t and logs
// its call/return events together with the model operation(s) it amounts to.
func (t *c14Thread) exec(o c14Op, co *coThread) {
	// a panic of the library is an observable: the open call "returns" [-99]
	defer func() {
		if p := recover(); p != nil {
			if t.open >= 0 {
				if t.ops[t.open] == "" {
					t.ops[t.open] = "Length"
				}
				t.r.log(fmt.Sprintf("OR %d %d [(-99)]", t.id, t.open))
				t.open = -1
			}
			if co != nil {
				co.beforePark = nil
				co.afterResume = nil
			}
		}
	}()
	t.execOp(o, co)
}

func (t *c14Thread) execOp(o c14Op, co *coThread) {
	r := t.r
	m := r.c.Map
	r.cur = t
	k := o.K
	switch o.Kind {
	case "Store":
		t.begin()
		m.Store(k, r.el(o.V))
		t.end(fmt.Sprintf("Store %d %s", k, coqVal(o.V)), nil)
	case "Load":
		t.begin()
		v, ok := m.Load(k)
		t.end(fmt.Sprintf("Load %d", k), []int64{r.id(v), b2i(ok)})
	case "LoadOrStore":
		two := false
		if co != nil {
			co.beforePark = func(p string) {
				if p == "Map.LoadOrStore.between" {
					two = true
				}
			}
		}
		t.begin()
		v, ok := m.LoadOrStore(k, r.el(o.V))
		name := "LoadOrStore"
		if two {
			name = "LoadOrStore2" // the code still has two critical sections
		}
		t.end(fmt.Sprintf("%s %d %s", name, k, coqVal(o.V)), []int64{r.id(v), b2i(ok)})
	case "Replace":
		t.begin()
		v, ok := m.Replace(k, r.el(o.V))
		t.end(fmt.Sprintf("Replace %d %s", k, coqVal(o.V)), []int64{r.id(v), b2i(ok)})
	case "Delete":
		t.begin()
		m.Delete(k)
		t.end(fmt.Sprintf("Delete %d", k), nil)
	case "LoadAndDelete":
		t.begin()
		v, ok := m.LoadAndDelete(k)
		t.end(fmt.Sprintf("LoadAndDelete %d", k), []int64{r.id(v), b2i(ok)})
	case "LoadAndDeleteAll":
		t.begin()
		d := m.LoadAndDeleteAll()
		t.end("LoadAndDeleteAll", r.flatten(d))
	case "CopyData":
		t.begin()
		d := m.CopyData()
		t.end("CopyData", r.flatten(d))
	case "Length":
		t.begin()
		n := m.Length()
		t.end("Length", []int64{int64(n)})
	case "Range2":
		t.begin()
		d := map[int]*c14E{}
		m.Range2(func(key int, v *c14E) bool { d[key] = v; return true })
		t.end("Range2All", r.flatten(d))
	case "StoreWF":
		t.begin()
		m.StoreWithFunc(k, func() *c14E { r.excl(); return r.el(o.V) })
		t.end(fmt.Sprintf("StoreWF %d %s", k, coqVal(o.V)), nil)
	case "LoadWF":
		seen := int64(-1)
		var f func(*c14E) *c14E
		fs := "None"
		if o.F.ID != 0 {
			f = func(v *c14E) *c14E { seen = r.id(v); return r.el(o.F) }
			fs = "(Some " + coqVal(o.F) + ")"
		}
		t.begin()
		v, ok := m.LoadWithFunc(k, f)
		t.end(fmt.Sprintf("LoadWF %d %s", k, fs), []int64{r.id(v), b2i(ok), seen})
	case "LoadOrStoreWF":
		seen := int64(-1)
		created := int64(0)
		var f func(*c14E) *c14E
		fs := "None"
		if o.F.ID != 0 {
			f = func(v *c14E) *c14E { r.excl(); seen = r.id(v); return r.el(o.F) }
			fs = "(Some " + coqVal(o.F) + ")"
		}
		t.begin()
		v, ok := m.LoadOrStoreWithFunc(k, f, func() *c14E { r.excl(); created++; return r.el(o.V) })
		t.end(fmt.Sprintf("LoadOrStoreWF %d %s %s", k, fs, coqVal(o.V)), []int64{r.id(v), b2i(ok), seen, created})
	case "ReplaceWF":
		cbOld, cbOk := int64(-1), int64(-1)
		t.begin()
		v, ok := m.ReplaceWithFunc(k, func(old *c14E, loaded bool) (*c14E, bool) {
			r.excl()
			cbOld, cbOk = r.id(old), b2i(loaded)
			return r.el(o.V), o.Del
		})
		t.end(fmt.Sprintf("ReplaceWF %d %s %s", k, coqVal(o.V), coqBool(o.Del)), []int64{r.id(v), b2i(ok), cbOld, cbOk})
	case "DeleteWF":
		seen := int64(-1)
		t.begin()
		m.DeleteWithFunc(k, func(v *c14E) { r.excl(); seen = r.id(v) })
		t.end(fmt.Sprintf("DeleteWF %d", k), []int64{seen})
	case "LoadAndDeleteWF":
		seen := int64(-1)
		t.begin()
		v, ok := m.LoadAndDeleteWithFunc(k, func(v *c14E) *c14E { r.excl(); seen = r.id(v); return r.el(o.F) })
		t.end(fmt.Sprintf("LoadAndDeleteWF %d %s", k, coqVal(o.F)), []int64{r.id(v), b2i(ok), seen})
	case "CLoad":
		t.begin()
		v := r.c.Load(k)
		t.end(fmt.Sprintf("CLoad %d", k), []int64{r.id(v)})
	case "CLoadOrStore":
		t.begin()
		v, ok := r.c.LoadOrStore(k, r.el(o.V))
		t.end(fmt.Sprintf("CLoadOrStore %d %s", k, coqVal(o.V)), []int64{r.id(v), b2i(ok)})
	case "Range":
		cnt := 0
		stopped := false
		curOp := ""
		var curRes []int64
		co.beforePark = func(p string) {
			if p == "Map.Range.relock" && !stopped {
				t.end(curOp, curRes)
			}
		}
		co.afterResume = func(p string) {
			if p == "Map.Range.relock" && !stopped {
				t.begin()
			}
		}
		t.begin()
		m.Range(func(key int, v *c14E) bool {
			cnt++
			curRes = []int64{r.id(v)}
			if cnt == o.Stop {
				stopped = true
				curOp = fmt.Sprintf("RangeLast %d", key)
				return false
			}
			curOp = fmt.Sprintf("RangeNext %d", key)
			return true
		})
		if stopped {
			t.end(curOp, curRes)
		} else {
			t.end("RangeEnd", nil)
		}
	case "Extend":
		// the element's owner stores a new deadline into the shared element (blockwise does so on
		// every block of a transfer); one atomic store
		t.begin()
		var vu time.Time
		if o.V.VU != 0 {
			vu = r.base.Add(time.Duration(o.V.VU))
		}
		r.elems[o.V.ID].ValidUntil.Store(vu)
		r.mu.Lock()
		r.spec[o.V.ID] = o.V
		r.mu.Unlock()
		t.end(fmt.Sprintf("Extend %d %d %s", k, o.V.ID, coqZ(o.V.VU)), nil)
	case "Sweep":
		state := "next"
		lastNext := -1
		now := coqZ(o.Now)
		t.expired = nil
		co.beforePark = func(p string) {
			switch p {
			case "Cache.CheckExpirations.expired":
				lastNext = t.open
				t.end(fmt.Sprintf("SweepNext None %s true", now), []int64{1})
			case "Map.Range.relock":
				if state == "next" {
					t.end(fmt.Sprintf("SweepNext None %s false", now), []int64{0})
				} else {
					if len(t.expired) > 0 {
						d := t.expired[0]
						if lastNext >= 0 {
							t.ops[lastNext] = fmt.Sprintf("SweepNext (Some %d) %s true", r.ekey[d], now)
						}
						r.mu.Lock()
						cur := r.spec[d]
						r.mu.Unlock()
						t.end(fmt.Sprintf("SweepDel %d %s %s", r.ekey[d], coqVal(cur), now), []int64{1})
					} else {
						t.end("SweepDelFail", []int64{0})
					}
					t.expired = nil
				}
			}
		}
		co.afterResume = func(p string) {
			switch p {
			case "Cache.CheckExpirations.expired":
				t.begin()
				state = "del"
			case "Map.Range.relock":
				t.begin()
				state = "next"
			}
		}
		t.begin()
		r.c.CheckExpirations(r.base.Add(time.Duration(o.Now)))
		t.end("SweepEnd", nil)
	default:
		panic("c14: unknown op " + o.Kind)
	}
	if co != nil {
		co.beforePark = nil
		co.afterResume = nil
	}
}

func c14CoqInit(in []c14Init) string {
	p := make([]string, len(in))
	for i, x := range in {
		p[i] = fmt.Sprintf("(%d, %s)", x.K, coqVal(x.E))
	}
	return "[" + strings.Join(p, "; ") + "]"
}

func c14CoqProgs(ts []*c14Thread) string {
	p := make([]string, len(ts))
	for i, t := range ts {
		p[i] = "[" + strings.Join(t.ops, "; ") + "]"
	}
	return "[" + strings.Join(p, "; ") + "]"
}

func c14Ints(xs []int) string {
	p := make([]string, len(xs))
	for i, x := range xs {
		p[i] = fmt.Sprint(x)
	}
	return "[" + strings.Join(p, "; ") + "]%nat"
}

// runSched forces a schedule: steps follow prefix as long as it lasts, then
// the lowest live thread. Returns the schedule taken, the live set at every
// step, and the Coq text of the case. An observer thread reads the contents
// after everything finished.
func c14RunSched(cs *c14Case, prefix []int) (sched []int, lives [][]int, coq string, hung bool) {
	return c14RunSchedF(cs, func(step int, live []int) int {
		if step < len(prefix) {
			return prefix[step]
		}
		return live[0]
	})
}

func c14RunSchedF(cs *c14Case, choose func(step int, live []int) int) (sched []int, lives [][]int, coq string, hung bool) {
	r := newC14Run(cs)
	co := newCoSched()
	defer co.stop()
	n := len(cs.Progs)
	ths := make([]*c14Thread, n+1)
	cts := make([]*coThread, n+1)
	spawn := func(i int, prog []c14Op) {
		t := &c14Thread{r: r, id: i, open: -1}
		ths[i] = t
		fs := make([]func(*coThread), len(prog))
		for j := range prog {
			o := prog[j]
			fs[j] = func(ct *coThread) { t.exec(o, ct) }
		}
		if len(fs) > 0 {
			cts[i] = co.spawn(fs)
			cts[i].onRun = func() { r.cur = t }
		} else {
			co.threads = append(co.threads, nil)
		}
	}
	live := []int{}
	for i, p := range cs.Progs {
		spawn(i, p)
		if len(p) > 0 {
			live = append(live, i)
		}
	}
	step := 0
	for len(live) > 0 && !hung {
		pick := choose(step, live)
		isLive := false
		for _, x := range live {
			isLive = isLive || x == pick
		}
		if !isLive {
			// Go's map iteration order is random, so a Range may take a different number of
			// steps than in the run this prefix came from; the schedule actually taken is recorded
			pick = live[0]
		}
		lives = append(lives, append([]int(nil), live...))
		sched = append(sched, pick)
		msg := co.step(cts[pick])
		if msg.hung {
			hung = true
			break
		}
		if msg.done {
			nl := live[:0:0]
			for _, x := range live {
				if x != pick {
					nl = append(nl, x)
				}
			}
			live = nl
		}
		step++
	}
	full := append([]int(nil), sched...)
	if !hung {
		spawn(n, []c14Op{{Kind: "CopyData"}})
		co.step(cts[n])
		full = append(full, n)
	} else {
		ths[n] = &c14Thread{r: r, id: n}
	}
	coq = fmt.Sprintf("Sched %s %s %s [%s]", c14CoqInit(cs.Init), c14CoqProgs(ths), c14Ints(full), strings.Join(r.events, "; "))
	return
}

// blockedInMap counts goroutines waiting on a sync primitive inside a Map method.
func c14BlockedInMap() int {
	buf := make([]byte, 1<<16)
	n := runtime.Stack(buf, true)
	cnt := 0
	for _, g := range strings.Split(string(buf[:n]), "\n\n") {
		nl := strings.IndexByte(g, '\n')
		if nl < 0 {
			continue
		}
		h := g[:nl]
		if (strings.Contains(h, "[sync.") || strings.Contains(h, "[semacquire")) && strings.Contains(g, "c14FreeCall") {
			cnt++
		}
	}
	return cnt
}

//go:noinline
func c14FreeCall(t *c14Thread, o c14Op) { t.exec(o, nil) }

// runBarrier: hook-free amplification. A goroutine blocks inside
// Map.ReplaceWithFunc(otherKey, f) holding the write lock while the threads
// under test pile up on the mutex; releasing f lets them through together.
func c14RunBarrier(cs *c14Case) (coq string, piled bool) {
	coq, piled, _ = c14RunBarrierO(cs)
	return
}

// c14RunBarrierO also reports the highest number of write-section callbacks seen running at once
func c14RunBarrierO(cs *c14Case) (coq string, piled bool, overlap int) {
	r := newC14Run(cs)
	r.free = true
	coCur.Store(nil)
	n := len(cs.Progs)
	ths := make([]*c14Thread, n+1)
	entered := make(chan struct{})
	release := make(chan struct{})
	blockerDone := make(chan struct{})
	go func() {
		r.c.Map.ReplaceWithFunc(-77, func(old *c14E, ok bool) (*c14E, bool) {
			close(entered)
			<-release
			return nil, true
		})
		close(blockerDone)
	}()
	<-entered
	var wg sync.WaitGroup
	for i := range cs.Progs {
		t := &c14Thread{r: r, id: i, open: -1}
		ths[i] = t
		wg.Add(1)
		go func(t *c14Thread, prog []c14Op) {
			defer wg.Done()
			for _, o := range prog {
				c14FreeCall(t, o)
			}
		}(t, cs.Progs[i])
	}
	deadline := time.Now().Add(2 * time.Second)
	for time.Now().Before(deadline) {
		if c14BlockedInMap() >= n {
			piled = true
			break
		}
		runtime.Gosched()
	}
	close(release)
	wg.Wait()
	<-blockerDone
	obs := &c14Thread{r: r, id: n, open: -1}
	ths[n] = obs
	obs.exec(c14Op{Kind: "CopyData"}, nil)
	coq = fmt.Sprintf("Free %s %s [%s]", c14CoqInit(cs.Init), c14CoqProgs(ths), strings.Join(r.events, "; "))
	overlap = int(r.cbMax.Load())
	return
}

// ---- generators ----

type c14Gen struct {
	next  int
	inits map[int]int // key -> id of the element the initial contents hold under it
}

// extend: the owner of the element initially under k stores a new deadline into it; where the initial
// contents have nothing under k the call is a plain Load
func (g *c14Gen) extend(k int, vu int64) c14Op {
	if id, ok := g.inits[k]; ok {
		return c14Op{Kind: "Extend", K: k, V: c14Elem{ID: id, VU: vu}}
	}
	return c14Op{Kind: "Load", K: k}
}

func (g *c14Gen) id() int             { g.next++; return g.next }
func (g *c14Gen) el(vu int64) c14Elem { return c14Elem{ID: g.id(), VU: vu} }

// every method of the API in the variants whose behaviour differs
var c14Makers = []struct {
	name string
	mk   func(g *c14Gen, k int) c14Op
}{
	{"Store", func(g *c14Gen, k int) c14Op { return c14Op{Kind: "Store", K: k, V: g.el(0)} }},
	{"Load", func(g *c14Gen, k int) c14Op { return c14Op{Kind: "Load", K: k} }},
	{"LoadOrStore", func(g *c14Gen, k int) c14Op { return c14Op{Kind: "LoadOrStore", K: k, V: g.el(0)} }},
	{"Replace", func(g *c14Gen, k int) c14Op { return c14Op{Kind: "Replace", K: k, V: g.el(c14T)} }},
	{"Delete", func(g *c14Gen, k int) c14Op { return c14Op{Kind: "Delete", K: k} }},
	{"LoadAndDelete", func(g *c14Gen, k int) c14Op { return c14Op{Kind: "LoadAndDelete", K: k} }},
	{"LoadAndDeleteAll", func(g *c14Gen, k int) c14Op { return c14Op{Kind: "LoadAndDeleteAll"} }},
	{"CopyData", func(g *c14Gen, k int) c14Op { return c14Op{Kind: "CopyData"} }},
	{"Length", func(g *c14Gen, k int) c14Op { return c14Op{Kind: "Length"} }},
	{"Range2", func(g *c14Gen, k int) c14Op { return c14Op{Kind: "Range2"} }},
	{"StoreWF", func(g *c14Gen, k int) c14Op { return c14Op{Kind: "StoreWF", K: k, V: g.el(-c14T)} }},
	{"LoadWF-nil", func(g *c14Gen, k int) c14Op { return c14Op{Kind: "LoadWF", K: k} }},
	{"LoadWF", func(g *c14Gen, k int) c14Op { return c14Op{Kind: "LoadWF", K: k, F: g.el(0)} }},
	{"LoadOrStoreWF-nil", func(g *c14Gen, k int) c14Op { return c14Op{Kind: "LoadOrStoreWF", K: k, V: g.el(0)} }},
	{"LoadOrStoreWF", func(g *c14Gen, k int) c14Op { return c14Op{Kind: "LoadOrStoreWF", K: k, V: g.el(0), F: g.el(0)} }},
	{"ReplaceWF-store", func(g *c14Gen, k int) c14Op { return c14Op{Kind: "ReplaceWF", K: k, V: g.el(0)} }},
	{"ReplaceWF-delete", func(g *c14Gen, k int) c14Op { return c14Op{Kind: "ReplaceWF", K: k, V: g.el(0), Del: true} }},
	{"DeleteWF", func(g *c14Gen, k int) c14Op { return c14Op{Kind: "DeleteWF", K: k} }},
	{"LoadAndDeleteWF", func(g *c14Gen, k int) c14Op { return c14Op{Kind: "LoadAndDeleteWF", K: k, F: g.el(0)} }},
	{"Range", func(g *c14Gen, k int) c14Op { return c14Op{Kind: "Range"} }},
	{"Range-stop1", func(g *c14Gen, k int) c14Op { return c14Op{Kind: "Range", Stop: 1} }},
	{"CLoad", func(g *c14Gen, k int) c14Op { return c14Op{Kind: "CLoad", K: k} }},
	{"CLoadOrStore", func(g *c14Gen, k int) c14Op { return c14Op{Kind: "CLoadOrStore", K: k, V: g.el(c14T + 1)} }},
	{"CLoadOrStore-expired", func(g *c14Gen, k int) c14Op { return c14Op{Kind: "CLoadOrStore", K: k, V: g.el(-c14T)} }},
	{"Sweep-T", func(g *c14Gen, k int) c14Op { return c14Op{Kind: "Sweep", Now: c14T} }},
	{"Sweep-T+1", func(g *c14Gen, k int) c14Op { return c14Op{Kind: "Sweep", Now: c14T + 1} }},
	{"Sweep-late", func(g *c14Gen, k int) c14Op { return c14Op{Kind: "Sweep", Now: 2 * c14T} }},
	{"Extend-later", func(g *c14Gen, k int) c14Op { return g.extend(k, 3*c14T) }},
	{"Extend-never", func(g *c14Gen, k int) c14Op { return g.extend(k, 0) }},
	{"Extend-past", func(g *c14Gen, k int) c14Op { return g.extend(k, -2*c14T) }},
}

func c14Inits(g *c14Gen, which int) []c14Init {
	in := c14InitsRaw(g, which)
	g.inits = map[int]int{}
	for _, x := range in {
		g.inits[x.K] = x.E.ID
	}
	return in
}

func c14InitsRaw(g *c14Gen, which int) []c14Init {
	switch which {
	case 0:
		return nil
	case 1:
		return []c14Init{{1, g.el(0)}}
	case 2:
		return []c14Init{{1, g.el(c14T)}, {2, g.el(-c14T)}}
	case 3:
		return []c14Init{{1, g.el(-c14T)}}
	default:
		return []c14Init{{1, g.el(c14T)}, {2, g.el(c14T + 1)}}
	}
}

func c14Mutates(kind string) bool {
	switch kind {
	case "Load", "CopyData", "Length", "Range2", "LoadWF", "Range", "CLoad":
		return false
	case "Extend":
		// not a method of the map: it is not amplified behind the barrier on its own
		return false
	}
	return true
}

func c14Global(kind string) bool {
	switch kind {
	case "LoadAndDeleteAll", "CopyData", "Length", "Range2", "Range", "Sweep":
		return true
	}
	return false
}

// non-trivial: two different threads touch a common key (whole-map methods
// touch every key) and at least one of the two calls can change the map
func c14Nontrivial(cs *c14Case) bool {
	for i := range cs.Progs {
		for j := i + 1; j < len(cs.Progs); j++ {
			for _, a := range cs.Progs[i] {
				for _, b := range cs.Progs[j] {
					if (c14Global(a.Kind) || c14Global(b.Kind) || a.K == b.K) && (c14Mutates(a.Kind) || c14Mutates(b.Kind)) {
						return true
					}
				}
			}
		}
	}
	return false
}

func c14Desc(cs *c14Case) string {
	b, _ := json.Marshal(cs)
	return string(b)
}

// explore runs every schedule of the case (stateless depth-first search over
// the scheduler's choices) up to maxSched schedules.
func c14Explore(e *Emitter, cs *c14Case, maxSched int, buckets ...string) int {
	nt := c14Nontrivial(cs)
	var prefix []int
	count := 0
	for {
		sched, lives, coq, hung := c14RunSched(cs, prefix)
		one := *cs
		one.Sched = sched
		bs := append([]string{fmt.Sprintf("steps=%02d", len(sched))}, buckets...)
		if hung {
			bs = append(bs, "HUNG")
		}
		e.Add(coq, c14Desc(&one), nt, bs...)
		count++
		if count >= maxSched {
			e.Hist["schedule-cap-hit"]++
			return count
		}
		// next schedule: last position with an untried alternative
		i := len(sched) - 1
		for ; i >= 0; i-- {
			alt := -1
			for _, x := range lives[i] {
				if x > sched[i] {
					alt = x
					break
				}
			}
			if alt >= 0 {
				prefix = append(append([]int(nil), sched[:i]...), alt)
				break
			}
		}
		if i < 0 {
			return count
		}
	}
}

func runC14(a runArgs) error {
	e := NewEmitter("C14", "Map.Run")
	e.ShardSize = 400
	e.MaxBytes = 400000
	e.Rule = "Sched cases: one forced schedule (cooperative scheduler at verifYield points and call boundaries) of a configuration (initial contents, one program per thread) on the real sync.Map/cache.Cache; all schedules of each configuration are enumerated. Free cases: hook-free runs behind the lock-holding callback barrier. Distinct = distinct (configuration, schedule); non-trivial = two threads touch a common key (whole-map methods touch all) and at least one of the two calls can modify the map."
	if a.only != "" {
		var cs c14Case
		if err := json.Unmarshal([]byte(a.only), &cs); err != nil {
			return fmt.Errorf("bad descriptor: %v", err)
		}
		if cs.Free {
			for i := 0; i < 20; i++ {
				coq, _, ov := c14RunBarrierO(&cs)
				e.Add(coq, a.only, true, "free")
				e.Add(fmt.Sprintf("Overlap %d", ov), a.only, true, "overlap")
			}
		} else {
			_, _, coq, _ := c14RunSched(&cs, cs.Sched)
			e.Add(coq, a.only, c14Nontrivial(&cs), "replay")
		}
		return e.Flush(a.out)
	}
	rng := NewRng(a.seed)
	thorough := a.tier == "thorough"
	schedules := 0

	// (1) two threads, one call each: every pair of API variants, same key and different keys, three initial contents
	nm := len(c14Makers)
	for i := 0; i < nm; i++ {
		for j := i; j < nm; j++ {
			for kr := 0; kr < 2; kr++ {
				for _, in := range []int{0, 2, 1 + 2*((i+j)%2)} {
					if !thorough && kr == 1 && in != 2 {
						continue
					}
					g := &c14Gen{}
					cs := &c14Case{Init: c14Inits(g, in)}
					cs.Progs = [][]c14Op{{c14Makers[i].mk(g, 1)}, {c14Makers[j].mk(g, 1+kr)}}
					schedules += c14Explore(e, cs, 400, "cfg=1x1", "op="+c14Makers[i].name, "op="+c14Makers[j].name)
				}
			}
		}
	}
	// (2) two threads, two calls each, random programs
	n22 := 150
	if thorough {
		n22 = 1500
	}
	for c := 0; c < n22; c++ {
		g := &c14Gen{}
		cs := &c14Case{Init: c14Inits(g, rng.Intn(5))}
		for t := 0; t < 2; t++ {
			var p []c14Op
			for q := 0; q < 2; q++ {
				mk := c14Makers[rng.Intn(nm)]
				p = append(p, mk.mk(g, 1+rng.Intn(2)))
			}
			cs.Progs = append(cs.Progs, p)
		}
		schedules += c14Explore(e, cs, 120, "cfg=2x2")
	}
	// (3) thorough: three threads, three calls each (sampled configurations, capped schedule count)
	if thorough {
		for c := 0; c < 60; c++ {
			g := &c14Gen{}
			cs := &c14Case{Init: c14Inits(g, rng.Intn(5))}
			for t := 0; t < 3; t++ {
				var p []c14Op
				for q := 0; q < 3; q++ {
					mk := c14Makers[rng.Intn(nm)]
					p = append(p, mk.mk(g, 1+rng.Intn(2)))
				}
				cs.Progs = append(cs.Progs, p)
			}
			schedules += c14Explore(e, cs, 300, "cfg=3x3")
		}
		// many goroutines under the scheduler with random picks; the observed order is the schedule given to the model
		for c := 0; c < 40; c++ {
			g := &c14Gen{}
			cs := &c14Case{Init: c14Inits(g, rng.Intn(5))}
			nth := 8 + rng.Intn(57)
			for t := 0; t < nth; t++ {
				var p []c14Op
				for q := 0; q < 1+rng.Intn(3); q++ {
					mk := c14Makers[rng.Intn(nm)]
					p = append(p, mk.mk(g, 1+rng.Intn(3)))
				}
				cs.Progs = append(cs.Progs, p)
			}
			c14RandomRun(e, cs, rng)
		}
	}
	// (4) hook-free barrier amplification: store-if-absent calls released together
	nb := 40
	if thorough {
		nb = 300
	}
	piledCnt := 0
	for c := 0; c < nb; c++ {
		g := &c14Gen{}
		cs := &c14Case{Free: true}
		kind := "LoadOrStore"
		vu := int64(0)
		switch c % 4 {
		case 1:
			kind = "CLoadOrStore"
			vu = c14T
			cs.Init = []c14Init{{1, g.el(-c14T)}} // expired entry: replaceable
		case 3:
			kind = "LoadOrStoreWF"
		}
		nth := 2 + c%3
		for t := 0; t < nth; t++ {
			cs.Progs = append(cs.Progs, []c14Op{{Kind: kind, K: 1, V: g.el(vu)}})
		}
		coq, piled := c14RunBarrier(cs)
		if piled {
			piledCnt++
		}
		e.Add(coq, c14Desc(cs), true, "free", "free="+kind)
	}
	// (5) the same amplification for EVERY mutating method: several calls of one method (and of pairs of
	// methods) on one key, over an absent, a present and an expired entry, released together. A compound
	// operation that is split into a read-locked check and a later write-locked act brings no yield point
	// with it; only this finds it.
	for mi, mk := range c14Makers {
		if !c14Mutates(mk.mk(&c14Gen{}, 1).Kind) {
			continue
		}
		for _, which := range []int{0, 1, 3} {
			reps := 1
			if thorough {
				reps = 4
			}
			for rep := 0; rep < reps; rep++ {
				g := &c14Gen{}
				cs := &c14Case{Free: true, Init: c14Inits(g, which)}
				nth := 2 + (mi+which+rep)%2
				for t := 0; t < nth; t++ {
					cs.Progs = append(cs.Progs, []c14Op{mk.mk(g, 1)})
				}
				if rep%2 == 1 {
					// mix with another mutating method on the same key
					other := c14Makers[(mi+7+rep)%len(c14Makers)]
					if c14Mutates(other.mk(&c14Gen{}, 1).Kind) {
						cs.Progs = append(cs.Progs, []c14Op{other.mk(g, 1)})
					}
				}
				coq, piled := c14RunBarrier(cs)
				if piled {
					piledCnt++
				}
				nb++
				e.Add(coq, c14Desc(cs), true, "free", "free="+mk.name)
			}
		}
	}
	// (6) callbacks that the API runs inside its write-locked section never overlap: several calls of one
	// *WithFunc method on one key (absent, present, expired) released together, each callback lingering
	exclMakers := []string{"StoreWF", "LoadOrStoreWF", "LoadOrStoreWF-nil", "ReplaceWF-store", "ReplaceWF-delete", "DeleteWF", "LoadAndDeleteWF"}
	maxOverlap, overlapRuns := 0, 0
	for _, mk := range c14Makers {
		isExcl := false
		for _, n := range exclMakers {
			isExcl = isExcl || n == mk.name
		}
		if !isExcl {
			continue
		}
		reps := 3
		if thorough {
			reps = 12
		}
		for _, which := range []int{0, 1, 3} {
			for rep := 0; rep < reps; rep++ {
				g := &c14Gen{}
				cs := &c14Case{Free: true, Init: c14Inits(g, which)}
				for t := 0; t < 4+rep%3; t++ {
					cs.Progs = append(cs.Progs, []c14Op{mk.mk(g, 1)})
				}
				_, _, ov := c14RunBarrierO(cs)
				if ov > maxOverlap {
					maxOverlap = ov
				}
				overlapRuns++
				e.Add(fmt.Sprintf("Overlap %d", ov), c14Desc(cs), true, "overlap", "overlap="+mk.name)
			}
		}
	}
	e.Extra["write_section_callback_runs"] = overlapRuns
	e.Extra["write_section_callbacks_max_at_once"] = maxOverlap
	e.Extra["schedules_forced"] = schedules
	e.Extra["barrier_runs"] = nb
	e.Extra["barrier_runs_all_threads_piled_up"] = piledCnt
	return e.Flush(a.out)
}

// c14RandomRun: many goroutines under the cooperative scheduler, random picks.
func c14RandomRun(e *Emitter, cs *c14Case, rng *Rng) {
	// choose the schedule on the fly: prefix is extended one random live pick at a time by replaying
	// (the scheduler is deterministic, so a single run with an online random choice is equivalent)
	r := rng.Fork()
	sched, _, coq, hung := c14RunSchedF(cs, func(_ int, live []int) int { return live[r.Intn(len(live))] })
	one := *cs
	one.Sched = sched
	bs := []string{"cfg=random-many", fmt.Sprintf("threads=%02d", len(cs.Progs)/8*8)}
	if hung {
		bs = append(bs, "HUNG")
	}
	e.AddW(coq, c14Desc(&one), true, 40, bs...)
}
