package main

// C11 layer (a), mutex granularity (case ForcedM, model Reader/Mutex.v).
//
// The forced schedules of c11.go treat the two sections of ReceivedMessageReader.private.mutex as one step each: no
// goroutine is ever parked while it holds the mutex, so nothing ever meets the mutex held. Here the goroutines are
// parked INSIDE the sections too (verifYield points "spawned": TryToReplaceLoop has started the new loop, the deferred
// Unlock is still to come; "relock-held": a loop has stored readingMessages=true and has not unlocked yet). While a
// goroutine H is parked there, another goroutine T may be released into a step that takes the mutex (TryToReplaceLoop
// called by a handler or by the external caller, the re-lock of a loop): in the code as it is T blocks in
// sync.Mutex.Lock. The witness for "T is blocked on the mutex" is T's entry in a dump of all goroutine stacks (wait
// reason sync.Mutex.Lock, sync.(*Mutex).Lock below a ReceivedMessageReader frame); the only alternative is that T shows
// up at its next scheduling point (then it did NOT wait for the mutex: a deviation from the model, recorded as the
// step it is). No sleeps, no timeouts other than the watchdog of c11.go. When H is scheduled again it unlocks and T's
// step completes in the same breath (recorded after H's unlock). At most one goroutine is let into a held mutex at a
// time, so that the order of acquisition is determined by the schedule.
//
// Trace items: (FA <action of Reader/Model.v>, point code, loops) and (FUnlock <owner>, point code, loops); point code 10
// = parked inside a section. A call of TryToReplaceLoop that finds the loop idle has no scheduling point inside its
// (three-instruction) section: its FA and FUnlock are recorded together.
//
// Descriptor: "M:<configuration as for F>|<thread names in the order chosen>".

import (
	"fmt"
	"runtime"
	"sort"
	"strings"
	"time"

	netclient "github.com/plgd-dev/go-coap/v3/net/client"
)

func c11Held(p string) bool       { return p == "spawned" || p == "relock-held" }
func c11NeedsMutex(p string) bool { return p == "replace" || p == "relock" }

func c11PointCodeM(p string) int {
	if c11Held(p) {
		return 10
	}
	return c11PointCode[p]
}

// c11InMutexLock: goroutine gid is blocked in sync.Mutex.Lock called from the reader (complete dump or nothing)
func c11InMutexLock(gid uint64) bool {
	buf := make([]byte, 1<<18)
	n := runtime.Stack(buf, true)
	for n == len(buf) && len(buf) < 1<<26 {
		buf = make([]byte, 2*len(buf))
		n = runtime.Stack(buf, true)
	}
	if n == len(buf) {
		return false
	}
	prefix := fmt.Sprintf("goroutine %d [", gid)
	for _, g := range strings.Split(string(buf[:n]), "\n\n") {
		if !strings.HasPrefix(g, prefix) {
			continue
		}
		hdr, _, _ := strings.Cut(g, "\n")
		return (strings.Contains(hdr, "[sync.Mutex.Lock") || strings.Contains(hdr, "[semacquire")) &&
			strings.Contains(g, "sync.(*Mutex).Lock") && strings.Contains(g, "ReceivedMessageReader[")
	}
	return false
}

var c11MAttempts, c11MBlocked, c11MThrough int // steps into a held mutex: all, seen blocked in Lock, came out without waiting

// waitBlockedOrArrived: t was released into a step that takes the mutex while another goroutine is parked holding it.
// Returns (blocked, ok): blocked = t was seen blocked in Lock; !blocked = t reached a scheduling point; !ok = watchdog.
func (s *c11Sched) waitBlockedOrArrived(t *c11Thread) (bool, bool) {
	deadline := time.Now().Add(c11WD())
	for {
		if t.point != "running" {
			return false, true
		}
		select {
		case ev := <-s.events:
			s.file(ev)
		case <-time.After(100 * time.Microsecond):
			// a goroutine parked at a scheduling point is blocked in a channel operation, never in Mutex.Lock:
			// "blocked in Lock" excludes "has arrived"
			if c11InMutexLock(t.gid) {
				return true, true
			}
			if time.Now().After(deadline) {
				c11Hangs.Add(1)
				return false, false
			}
		}
	}
}

// runC11ForcedM executes one forced run at mutex granularity.
func runC11ForcedM(cfg c11Cfg, choose func(step int, enabled []string) string) c11Run {
	s := &c11Sched{byGid: map[uint64]*c11Thread{}, events: make(chan c11Event, 256), abort: make(chan struct{}), readyCh: make(chan struct{}), mutex: true}
	netclient.VerifSetYield(s.yield)
	fc := newC11Client(cfg)
	fc.wait = func(r int) { s.park("wait", r) }
	var res c11Run
	hang := false
	r := netclient.NewReceivedMessageReader[*c11Client](fc, cfg.n)
	fc.r = r
	s.mu.Lock()
	s.reader = r
	s.mu.Unlock()
	close(s.readyCh)
	close(fc.ready)
	defer func() {
		s.mu.Lock()
		s.dead = true
		s.mu.Unlock()
		close(s.abort)
		close(fc.abort)
		select {
		case <-fc.done:
		default:
			close(fc.done)
		}
		netclient.VerifSetYield(nil)
	}()
	go func() {
		for m := 1; m <= cfg.msgs; m++ {
			s.park("p-idle", 0)
			select {
			case r.C() <- c11Msg(m):
			case <-s.abort:
				return
			}
		}
		s.park("p-exit", 0)
	}()
	if cfg.k > 0 {
		go func() {
			for i := 0; i < cfg.k; i++ {
				r.TryToReplaceLoop()
			}
			s.park("x-exit", 0)
		}()
	}
	head := fmt.Sprintf("ForcedM %d%%nat %s %s %d%%nat", cfg.n, cfg.coqProgs(), cfg.coqMsgs(), cfg.k)
	ok := s.waitUntil(func() bool {
		return len(s.loops) >= 1 && s.prod != nil && (cfg.k == 0 || s.extT != nil)
	})
	if !ok {
		res.hang = true
		res.coq = head + " [] [] [] true"
		return res
	}
	qlen, pushed := 0, 0
	inflight, closed := false, false
	cur := 0
	done := map[int]bool{}
	var items []string
	var holder, mwait *c11Thread
	deliveredNow := func(rr int) bool {
		fc.mu.Lock()
		defer fc.mu.Unlock()
		return fc.delivered[rr]
	}
	owner := func(t *c11Thread) string {
		if t.kind == 'L' {
			return fmt.Sprintf("OLoop %d%%nat", t.idx)
		}
		return "OExt"
	}
	action := func(t *c11Thread, alt string) string {
		if t.kind == 'L' {
			return fmt.Sprintf("ALoop %d%%nat %s", t.idx, alt)
		}
		return "AExt"
	}
	emit := func(fa string, code int) {
		items = append(items, fmt.Sprintf("(%s, %d, %d%%nat)", fa, code, len(s.loops)))
	}
	rep0, nl0 := 0, 0
	// a replacement happened during this step: wait for the new loop's first scheduling point
	newLoops := func() bool {
		s.mu.Lock()
		rep1 := s.replaced
		s.mu.Unlock()
		if rep1 > rep0 {
			want := nl0 + (rep1 - rep0)
			if !s.waitUntil(func() bool { return len(s.loops) >= want }) {
				return false
			}
			done[cur] = true
			cur = len(s.loops) - 1
			rep0, nl0 = rep1, len(s.loops)
		}
		return true
	}
	// t has come out of a step that takes the mutex and stands at t.point
	afterMutexStep := func(t *c11Thread) bool {
		if !newLoops() {
			return false
		}
		emit("FA ("+action(t, "AltQueue")+")", 10)
		if c11Held(t.point) {
			holder = t
		} else {
			// TryToReplaceLoop found the loop idle: Lock, Load, Unlock without a scheduling point in between
			emit("FUnlock ("+owner(t)+")", c11PointCodeM(t.point))
		}
		return true
	}
	for step := 0; ; step++ {
		var en []string
		mutexOK := func(t *c11Thread) bool { return holder == nil || mwait == nil }
		for _, t := range s.loops {
			if t.exited || t == mwait {
				continue
			}
			switch t.point {
			case "select":
				if qlen > 0 || closed || done[t.idx] {
					en = append(en, t.name())
				}
			case "wait":
				if deliveredNow(t.waitR) {
					en = append(en, t.name())
				}
			case "replace", "relock":
				// with the mutex held: the attempt (it has to block); one goroutine at a time
				if mutexOK(t) {
					en = append(en, t.name())
				}
			default:
				en = append(en, t.name())
			}
		}
		if !inflight && pushed < cfg.msgs && qlen <= cfg.n && !s.prod.exited {
			en = append(en, "P")
		}
		if x := s.extT; x != nil && !x.exited && x != mwait && (c11Held(x.point) || mutexOK(x)) {
			en = append(en, "X")
		}
		progress := len(en) > 0
		if cfg.close && !closed {
			en = append(en, "C")
		}
		if !progress || step > 4000 {
			break
		}
		sort.Strings(en)
		pick := choose(step, en)
		found := false
		for _, e := range en {
			if e == pick {
				found = true
			}
		}
		if !found {
			break
		}
		res.steps = append(res.steps, c11Step{chosen: pick, enabled: en})
		res.sched = append(res.sched, pick)
		nl0 = len(s.loops)
		s.mu.Lock()
		rep0 = s.replaced
		s.mu.Unlock()
		switch {
		case pick == "C":
			close(fc.done)
			closed = true
			emit("FA AClose", 0)
		case pick == "P":
			t := s.prod
			pushed++
			if qlen < cfg.n {
				qlen++
				t.point = "running"
				t.resume <- struct{}{}
				if !s.waitUntil(func() bool { return t.point != "running" }) {
					hang = true
				}
			} else {
				qlen++
				inflight = true
				t.point = "running"
				t.resume <- struct{}{}
			}
			emit("FA APush", 0)
		default:
			var t *c11Thread
			if pick == "X" {
				t = s.extT
			} else {
				for _, l := range s.loops {
					if l.name() == pick {
						t = l
					}
				}
			}
			pre := t.point
			t.point = "running"
			t.resume <- struct{}{}
			switch {
			case c11Held(pre): // Unlock, on to the next point
				if !s.waitUntil(func() bool { return t.point != "running" }) {
					hang = true
					break
				}
				// an unlock starts no loop: the goroutine that was waiting for the mutex may already have replaced the
				// loop while this one was on its way to its next point, its new loop belongs to ITS step
				items = append(items, fmt.Sprintf("(FUnlock (%s), %d, %d%%nat)", owner(t), c11PointCodeM(t.point), nl0))
				holder = nil
				if w := mwait; w != nil {
					// the goroutine that was blocked in Lock gets the mutex
					if !s.waitUntil(func() bool { return w.point != "running" }) {
						hang = true
						break
					}
					mwait = nil
					if !afterMutexStep(w) {
						hang = true
					}
				}
			case c11NeedsMutex(pre) && holder != nil:
				c11MAttempts++
				blocked, ok := s.waitBlockedOrArrived(t)
				switch {
				case !ok:
					hang = true
				case blocked:
					c11MBlocked++
					mwait = t
				default:
					// it did not wait for the mutex: recorded as the action it is (not enabled in the model)
					c11MThrough++
					if !newLoops() {
						hang = true
						break
					}
					emit("FA ("+action(t, "AltQueue")+")", c11PointCodeM(t.point))
				}
			case c11NeedsMutex(pre):
				if !s.waitUntil(func() bool { return t.point != "running" }) {
					hang = true
					break
				}
				if !afterMutexStep(t) {
					hang = true
				}
			default:
				if !s.waitUntil(func() bool { return t.point != "running" }) {
					hang = true
					break
				}
				alt := "AltQueue"
				if pre == "select" {
					if t.point == "dequeued" {
						qlen--
						if inflight {
							if !s.waitUntil(func() bool { return s.prod.point != "running" }) {
								hang = true
							}
							inflight = false
						}
					} else if done[t.idx] {
						alt = "AltDone"
					} else {
						alt = "AltConn"
					}
				}
				emit("FA ("+action(t, alt)+")", c11PointCodeM(t.point))
			}
		}
		if hang {
			break
		}
	}
	res.hang = hang
	fc.mu.Lock()
	var le []string
	for _, e := range fc.log {
		idx := -1
		s.mu.Lock()
		if t := s.byGid[e.gid]; t != nil && t.kind == 'L' {
			idx = t.idx
		}
		s.mu.Unlock()
		if idx < 0 {
			idx = 999
		}
		le = append(le, fmt.Sprintf("(%d, %d%%nat)", e.m, idx))
	}
	fc.mu.Unlock()
	res.coq = fmt.Sprintf("%s [%s] [%s] %s %s", head, strings.Join(items, "; "), strings.Join(le, "; "), fc.coqNest(), coqBool(hang))
	return res
}

// plans that drive a handler's TryToReplaceLoop into a held mutex
var c11MPlans = []struct {
	cfg  c11Cfg
	plan string
}{
	// the goroutine that has just started the new loop still holds the mutex when the new loop's handler asks for a
	// replacement: handler of 1 (loop 0) nests and replaces, loop 1 takes 2, whose handler nests too
	{c11Cfg{n: 1, msgs: 3, progs: map[int][]c11Op{1: {{nested: true, r: 3}}, 2: {{nested: true, r: 3}}}}, "P L0 L0 L0 L0 P L1 L1 L1 L1 L0 L1 P"},
	{c11Cfg{n: 0, msgs: 3, progs: map[int][]c11Op{1: {{nested: true, r: 3}}, 2: {{nested: true, r: 3}}}}, "P L0 L0 L0 L0 P L1 L1 L1 L1 L0 L1 P"},
	// ... an external caller has replaced the busy loop and still holds the mutex
	{c11Cfg{n: 1, k: 1, msgs: 3, progs: map[int][]c11Op{2: {{nested: true, r: 3}}}}, "P L0 L0 X P L1 L1 L1 L1 X L1 P"},
	// a replaced loop whose handler has returned holds the mutex for its readingMessages.Store(true) while the
	// current loop's handler asks for a replacement
	{c11Cfg{n: 1, msgs: 3, progs: map[int][]c11Op{1: {{}}, 2: {{nested: true, r: 3}}}}, "P L0 L0 L0 L0 L0 L0 P L1 L1 L1 L1 L0 L1 P"},
	// the re-lock of a loop meets the mutex held by an external caller that found the loop busy
	{c11Cfg{n: 1, k: 1, msgs: 2, progs: map[int][]c11Op{}}, "P L0 L0 X L0 L0 L0 X P"},
	// two handlers in a row replace and return; the third nests
	{c11Cfg{n: 2, msgs: 4, progs: map[int][]c11Op{1: {{}}, 2: {{}}, 3: {{nested: true, r: 4}}}}, "P P P L0 L0 L0 L0 L1 L1 L1 L1 L0 L1 L2 L2 L2 L2 L1 L2 P"},
}

func c11MSmallConfigs(thorough bool) []c11Cfg {
	R := c11Op{}
	N := func(r int) c11Op { return c11Op{nested: true, r: r} }
	cs := []c11Cfg{
		{n: 1, msgs: 2, progs: map[int][]c11Op{1: {N(2)}}},
		{n: 0, msgs: 2, progs: map[int][]c11Op{1: {R}}},
		{n: 0, msgs: 2, progs: map[int][]c11Op{1: {N(2)}}},
		{n: 1, msgs: 2, k: 1, progs: map[int][]c11Op{}},
	}
	if thorough {
		cs = append(cs,
			c11Cfg{n: 1, msgs: 3, progs: map[int][]c11Op{1: {N(3)}, 2: {N(3)}}},
			c11Cfg{n: 1, msgs: 3, progs: map[int][]c11Op{1: {R}, 2: {N(3)}}},
			c11Cfg{n: 0, msgs: 2, k: 1, progs: map[int][]c11Op{1: {N(2)}}},
		)
	}
	return cs
}

func c11MutexCases(e *Emitter, rng *Rng, thorough bool, nontrivial func(c11Cfg) bool) {
	t0 := time.Now()
	emitM := func(c c11Cfg, res c11Run, tag string) {
		e.Add(res.coq, "M:"+c.desc()+"|"+strings.Join(res.sched, " "), nontrivial(c), "forcedm-"+tag, fmt.Sprintf("queue%d", c.n), fmt.Sprintf("msgs%02d", c.msgs))
	}
	for _, p := range c11MPlans {
		for i := 0; i < 3; i++ {
			emitM(p.cfg, runC11ForcedM(p.cfg, c11PlanChooser(strings.Fields(p.plan))), "plan")
		}
	}
	perCfg := 800
	if thorough {
		perCfg = 4000
	}
	exhausted := 0
	smalls := c11MSmallConfigs(thorough)
	for _, c := range smalls {
		work := [][]string{{}}
		count := 0
		for len(work) > 0 && count < perCfg {
			prefix := work[len(work)-1]
			work = work[:len(work)-1]
			res := runC11ForcedM(c, c11PlanChooser(prefix))
			count++
			emitM(c, res, "dfs")
			for i := len(res.steps) - 1; i >= len(prefix); i-- {
				for _, alt := range res.steps[i].enabled {
					if alt == res.steps[i].chosen {
						continue
					}
					work = append(work, append(append([]string{}, res.sched[:i]...), alt))
				}
			}
		}
		if len(work) == 0 {
			exhausted++
		}
		e.Extra["dfs-mutex "+c.desc()] = fmt.Sprintf("%d schedules, exhausted=%v", count, len(work) == 0)
	}
	nrand := 200
	if thorough {
		nrand = 4000
	}
	for i := 0; i < nrand; i++ {
		c := c11RandomCfg(rng, thorough && i%3 == 0)
		emitM(c, runC11ForcedM(c, c11RandChooser(rng.Fork(), 25)), "rand")
	}
	e.Extra["mutex_granularity"] = fmt.Sprintf("%d plans x3, %d small configurations (%d exhausted), %d random; steps into a held mutex %d (seen blocked in sync.Mutex.Lock %d, came out without waiting %d), %.2fs",
		len(c11MPlans), len(smalls), exhausted, nrand, c11MAttempts, c11MBlocked, c11MThrough, time.Since(t0).Seconds())
}

func c11MutexOnly(e *Emitter, only string) {
	parts := strings.SplitN(only, "|", 2)
	c := parseC11Cfg(parts[0][2:])
	plan := []string{}
	if len(parts) > 1 {
		plan = strings.Fields(parts[1])
	}
	for i := 0; i < 12; i++ {
		res := runC11ForcedM(c, c11PlanChooser(plan))
		e.Add(res.coq, only, true, "forcedm-replay")
	}
}
