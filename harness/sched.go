package main

// Cooperative deterministic scheduler behind the `verif` yields (DESIGN.md 3.2).
// Every thread under test is a goroutine that parks at operation boundaries and
// wherever the library calls verifYield (points where no lock is held). The
// scheduler releases exactly one parked thread at a time and waits until it
// parks again or finishes; a thread that does neither within the watchdog time
// is reported as hung (the models of C14 say no step ever blocks).

import (
	"runtime"
	"sync"
	"sync/atomic"
	"time"

	"github.com/plgd-dev/go-coap/v3/pkg/cache"
	gosync "github.com/plgd-dev/go-coap/v3/pkg/sync"
)

type parkMsg struct {
	point string
	done  bool
	hung  bool
}

type coThread struct {
	id     int
	resume chan struct{}
	parked chan parkMsg
	// called on the thread's own goroutine right before it parks at a yield / right after it is released from it
	beforePark  func(point string)
	afterResume func(point string)
	onRun       func() // called on the thread's goroutine every time it is released
}

type coSched struct {
	mu      sync.Mutex
	byGid   map[uint64]*coThread
	threads []*coThread
}

var coCur atomic.Pointer[coSched]

func goid() uint64 {
	var buf [64]byte
	n := runtime.Stack(buf[:], false)
	// "goroutine 123 [running]:"
	var id uint64
	for _, c := range buf[10:n] {
		if c < '0' || c > '9' {
			break
		}
		id = id*10 + uint64(c-'0')
	}
	return id
}

func coYield(point string) {
	c := coCur.Load()
	if c == nil {
		return
	}
	c.mu.Lock()
	t := c.byGid[goid()]
	c.mu.Unlock()
	if t == nil {
		return
	}
	if t.beforePark != nil {
		t.beforePark(point)
	}
	t.parked <- parkMsg{point: point}
	<-t.resume
	if t.onRun != nil {
		t.onRun()
	}
	if t.afterResume != nil {
		t.afterResume(point)
	}
}

func init() {
	gosync.VerifYieldHook = coYield
	cache.VerifYieldHook = coYield
}

func newCoSched() *coSched {
	c := &coSched{byGid: map[uint64]*coThread{}}
	coCur.Store(c)
	return c
}

func (c *coSched) stop() { coCur.Store(nil) }

// spawn starts a thread that runs the given operations, parking before each of
// them. It returns once the thread is parked before its first operation.
func (c *coSched) spawn(ops []func(t *coThread)) *coThread {
	t := &coThread{id: len(c.threads), resume: make(chan struct{}), parked: make(chan parkMsg, 1)}
	c.threads = append(c.threads, t)
	ready := make(chan struct{})
	go func() {
		c.mu.Lock()
		c.byGid[goid()] = t
		c.mu.Unlock()
		close(ready)
		for i, op := range ops {
			if i > 0 {
				t.parked <- parkMsg{point: "boundary"}
			}
			<-t.resume
			if t.onRun != nil {
				t.onRun()
			}
			op(t)
		}
		t.parked <- parkMsg{done: true}
	}()
	<-ready
	return t
}

// step releases thread t and waits until it parks again or finishes.
func (c *coSched) step(t *coThread) parkMsg {
	t.resume <- struct{}{}
	select {
	case m := <-t.parked:
		return m
	case <-time.After(3 * time.Second):
		return parkMsg{hung: true}
	}
}
