package main

import (
	"bytes"
	"context"
	"fmt"
	"io"
	"os"
	"runtime"
	"strings"
	"time"

	"github.com/plgd-dev/go-coap/v3/message"
	"github.com/plgd-dev/go-coap/v3/message/codes"
	"github.com/plgd-dev/go-coap/v3/message/pool"
	coapSync "github.com/plgd-dev/go-coap/v3/pkg/sync"
)

func init() { props["C06"] = runC06 }

type c06Ev struct {
	Kind string // send ack rst piggy sep cancel age tick
	ID   int
	Tok  []byte
	DL   int // ms, 0 = none
	Code int
	PMID int
	Ms   int
	PLen int // send: payload length (> 0: POST with a patterned body)
	Mid  int // sendm: name of the message ID chosen by the application (the ID of request Mid, or a fresh one)
}

func (e c06Ev) desc() string {
	switch e.Kind {
	case "send":
		return fmt.Sprintf("send:%d:%x:%d:%d", e.ID, e.Tok, e.DL, e.PLen)
	case "sendm":
		return fmt.Sprintf("sendm:%d:%x:%d:%d:%d", e.ID, e.Tok, e.DL, e.PLen, e.Mid)
	case "age":
		return fmt.Sprintf("age:%d", e.Ms)
	case "wait":
		return fmt.Sprintf("wait:%d", e.Ms)
	case "tick":
		return "tick"
	case "stale":
		return fmt.Sprintf("stale:%d", e.Ms)
	case "tickx":
		return fmt.Sprintf("tickx:%d", e.ID)
	case "tickack":
		return fmt.Sprintf("tickack:%d", e.ID)
	case "piggy":
		return fmt.Sprintf("piggy:%d:%d", e.ID, e.Code)
	case "sep":
		return fmt.Sprintf("sep:%d:%d:%d", e.ID, e.Code, e.PMID)
	}
	return fmt.Sprintf("%s:%d", e.Kind, e.ID)
}

func parseC06Ev(s string) c06Ev {
	f := strings.Split(s, ":")
	atoi := func(x string) int { var v int; fmt.Sscanf(x, "%d", &v); return v }
	e := c06Ev{Kind: f[0]}
	switch f[0] {
	case "send", "sendm":
		e.ID = atoi(f[1])
		for i := 0; i+1 < len(f[2]); i += 2 {
			var b int
			fmt.Sscanf(f[2][i:i+2], "%x", &b)
			e.Tok = append(e.Tok, byte(b))
		}
		e.DL = atoi(f[3])
		if len(f) > 4 {
			e.PLen = atoi(f[4])
		}
		if len(f) > 5 {
			e.Mid = atoi(f[5])
		}
	case "age", "wait", "stale":
		e.Ms = atoi(f[1])
	case "tick":
	case "piggy":
		e.ID, e.Code = atoi(f[1]), atoi(f[2])
	case "sep":
		e.ID, e.Code, e.PMID = atoi(f[1]), atoi(f[2]), atoi(f[3])
	default:
		e.ID = atoi(f[1])
	}
	return e
}

// item renders one observed event of a history (Retx.Run.hev)
func (e c06Ev) item(ems, rs []string) string {
	if e.Kind == "sendm" {
		dl := "None"
		if e.DL > 0 {
			dl = fmt.Sprintf("(Some %d)", e.DL)
		}
		return fmt.Sprintf("HM %d %s %s %d [%s] [%s]", e.ID, coqBytes(e.Tok), dl, e.Mid, strings.Join(ems, "; "), strings.Join(rs, "; "))
	}
	if e.Kind == "stale" {
		return fmt.Sprintf("HS %d [%s] [%s]", e.Ms, strings.Join(ems, "; "), strings.Join(rs, "; "))
	}
	return fmt.Sprintf("HE %s [%s] [%s]", e.coq(), strings.Join(ems, "; "), strings.Join(rs, "; "))
}

func (e c06Ev) coq() string {
	switch e.Kind {
	case "send":
		dl := "None"
		if e.DL > 0 {
			dl = fmt.Sprintf("(Some %d)", e.DL)
		}
		return fmt.Sprintf("(Send %d %s %s)", e.ID, coqBytes(e.Tok), dl)
	case "age", "wait":
		return fmt.Sprintf("(Age %d)", e.Ms)
	case "tick":
		return "Tick"
	case "ack":
		return fmt.Sprintf("(Ack %d)", e.ID)
	case "rst":
		return fmt.Sprintf("(Rst %d)", e.ID)
	case "piggy":
		return fmt.Sprintf("(Piggy %d %d)", e.ID, e.Code)
	case "sep":
		return fmt.Sprintf("(Sep %d %d %d)", e.ID, e.Code, e.PMID)
	case "cancel":
		return fmt.Sprintf("(Cancel %d)", e.ID)
	}
	return "Tick"
}

type c06Req struct {
	code   int
	name   int // name of the request's message ID
	id     int
	tok    []byte
	mid    int
	first  []byte
	cancel context.CancelFunc
	// harness-side bookkeeping used only to know which witness to wait for
	state string // run | done
}

type c06Result struct {
	id   int
	res  int
	code int
}

// c06Owner says which request a confirmable datagram written by the connection is a copy of (0 = none):
// the request with its token (tokens are distinct within a history); failing that, a transmitted request
// with its message ID, one whose call has not returned first (message IDs may be reused by later requests).
func c06Owner(reqs map[int]*c06Req, order []int, w wireMsg) int {
	if w.Bad || w.Typ != 0 {
		return 0
	}
	for _, id := range order {
		if r := reqs[id]; w.Code == r.code && bytes.Equal(w.Tok, r.tok) {
			return id
		}
	}
	for _, wantRunning := range []bool{true, false} {
		for _, id := range order {
			r := reqs[id]
			if r.first != nil && w.MID == r.mid && w.Code == r.code && (!wantRunning || r.state != "done") {
				return id
			}
		}
	}
	return 0
}

// c06Quiescent reports, from a snapshot of all goroutine stacks, that every goroutine started by
// runC06History (the callers of Conn.Do) and every goroutine inside the connection is blocked (select,
// semaphore, channel, mutex, sleep): none is running or runnable. A goroutine woken by the event just
// processed is runnable from the moment it is woken until it blocks again or ends.
func c06Quiescent() bool {
	buf := make([]byte, 1<<16)
	for {
		n := runtime.Stack(buf, true)
		if n < len(buf) {
			buf = buf[:n]
			break
		}
		buf = make([]byte, 2*len(buf))
	}
	for i, g := range strings.Split(string(buf), "\n\n") {
		if i == 0 {
			continue // the calling goroutine comes first
		}
		if !strings.Contains(g, "created by main.runC06History") && !strings.Contains(g, "go-coap/v3/udp/client.") {
			continue
		}
		a, b := strings.Index(g, "["), strings.Index(g, "]")
		if a < 0 || b < a {
			continue
		}
		st := g[a+1 : b]
		if strings.HasPrefix(st, "running") || strings.HasPrefix(st, "runnable") || strings.HasPrefix(st, "syscall") {
			return false
		}
	}
	return true
}

// runC06History executes one history; returns Coq text.
// perEventC06, when set (C12), is called after every event of a history has been fully processed.
var perEventC06 func(e c06Ev)

func runC06History(evs []c06Ev, ackMs, maxRt, nstart int) string {
	var after func(r *pool.Message)
	if activeTracker != nil {
		// C12: a response handed to a waiting caller is released by that caller BEFORE the receive path runs
		// its own clean-up (the order in which a lost hijack flag would show as a double release)
		after = func(r *pool.Message) {
			if r.IsHijacked() {
				activeTracker.waitReleased(r, 150*time.Millisecond)
			}
		}
	}
	mc := newMemConn(memConnOpts{getMID: 0x2000, queueSize: 16, maxRetransmit: uint32(maxRt), ackTimeout: time.Duration(ackMs) * time.Millisecond, nstart: uint32(nstart), limitTotal: 64, limitEndpoint: 64, afterHandler: after})
	defer mc.close()
	reqs := map[int]*c06Req{}
	var order []int
	// message IDs by name (Retx/ModelMid.v): the name of the ID of a request issued with plain "send" is the
	// request's own number (bound to the real ID when the first copy shows it); "sendm" names the ID the
	// application chose: that of an earlier request, or a fresh one outside the range of the connection's counter
	midName := map[int]int{}
	results := make(chan c06Result, 64)
	dbg := os.Getenv("HXDBG") != ""
	window := 6 * time.Millisecond
	if os.Getenv("HX_CONFIRM") != "" {
		window = 60 * time.Millisecond
	}
	var sb strings.Builder
	fmt.Fprintf(&sb, "Hist %d %d %d [", ackMs, maxRt, nstart)
	var items []string
	for _, e := range evs {
		if activeTracker != nil && activeTracker.bad() {
			break // C12: the lifecycle trace already contains a violation; the rest would only wait for watchdogs
		}
		expectRet := 0
		if e.Kind == "ack" || e.Kind == "rst" || e.Kind == "piggy" {
			// the peer can only answer a request it has seen: skip events that refer to a request
			// that has not been transmitted yet (it has no message ID)
			if r := reqs[e.ID]; r == nil || r.first == nil {
				continue
			}
		}
		if e.Kind == "sep" || e.Kind == "cancel" || e.Kind == "tickx" || e.Kind == "tickack" {
			if r := reqs[e.ID]; r == nil {
				continue
			}
		}
		if e.Kind == "tickack" {
			if r := reqs[e.ID]; r.first == nil {
				continue
			}
		}
		if e.Kind == "send" || e.Kind == "sendm" {
			if reqs[e.ID] != nil {
				continue // request numbers are used once
			}
		}
		if e.Kind == "sendm" {
			if _, bound := midName[e.Mid]; !bound {
				if reqs[e.Mid] != nil {
					// the ID of a request that has not been transmitted (yet, or ever): nothing to reuse
					continue
				}
				midName[e.Mid] = 0x7000 + (e.Mid & 0xfff)
			}
		}
		if e.Kind == "tickx" || e.Kind == "tickack" {
			// A housekeeping tick that has already fetched a pending entry when the caller of request e.ID
			// cancels and returns: forced with the yield between Range's fetch and its callback. The
			// execution must be equivalent to "Cancel id; Tick", which is how it is reported.
			r := reqs[e.ID]
			var cancelRets []c06Result
			fired := false
			coapSync.VerifYieldHook = func(point string) {
				if point != "Map.Range.unlocked" || fired || r.state == "done" {
					return
				}
				fired = true
				if e.Kind == "tickack" {
					// the acknowledgement is processed between Range's fetch and its callback
					mc.inject(encodeWire(2, 0, r.mid, nil, nil, nil))
					return
				}
				r.cancel()
				select {
				case x := <-results:
					cancelRets = append(cancelRets, x)
					if rq := reqs[x.id]; rq != nil {
						rq.state = "done"
					}
				case <-time.After(2 * time.Second):
				}
			}
			mc.cc.CheckExpirations(time.Now())
			coapSync.VerifYieldHook = nil
			mc.sync()
			time.Sleep(0)
			out := mc.takeOut()
			mc.takeLog()
			var ems []string
			for _, w := range out {
				if id := c06Owner(reqs, order, w); !w.Bad && id != 0 && reqs[id].first != nil {
					ems = append(ems, fmt.Sprintf("OCopy %d %s", id, coqBool(bytes.Equal(w.Raw, reqs[id].first))))
				} else {
					ems = append(ems, "OOther")
				}
			}
			if fired {
				var rs []string
				for _, x := range cancelRets {
					rs = append(rs, fmt.Sprintf("(%d, %d, %d)", x.id, x.res, x.code))
				}
				if e.Kind == "tickack" {
					items = append(items, fmt.Sprintf("HE (Ack %d) [] [%s]", e.ID, strings.Join(rs, "; ")))
				} else {
					items = append(items, fmt.Sprintf("HE (Cancel %d) [] [%s]", e.ID, strings.Join(rs, "; ")))
				}
			}
			items = append(items, fmt.Sprintf("HE Tick [%s] []", strings.Join(ems, "; ")))
			if perEventC06 != nil {
				perEventC06(e)
			}
			continue
		}
		switch e.Kind {
		case "send", "sendm":
			ctx, cancel := context.WithCancel(context.Background())
			if e.DL > 0 {
				ctx, cancel = context.WithTimeout(context.Background(), time.Duration(e.DL)*time.Millisecond)
			}
			r := &c06Req{id: e.ID, tok: e.Tok, cancel: cancel, state: "run"}
			reqs[e.ID] = r
			order = append(order, e.ID)
			req := mc.cc.AcquireMessage(ctx)
			req.SetCode(codes.GET)
			r.code = int(codes.GET)
			req.SetToken(e.Tok)
			req.SetType(message.Confirmable)
			_ = req.SetPath("/r")
			name := e.ID
			if e.Kind == "sendm" {
				name = e.Mid
			}
			r.name = name
			if m, bound := midName[name]; bound {
				// a message ID chosen by the application: the connection keeps a valid ID (UpsertMessageID)
				req.SetMessageID(int32(m))
			}
			if e.PLen > 0 {
				req.SetCode(codes.POST)
				r.code = int(codes.POST)
				req.SetContentFormat(message.AppOctets)
				body := bytes.NewReader(genBody(e.ID, e.PLen))
				// the application may have read (part of) the body before issuing the request: every copy
				// on the wire still carries the whole payload
				switch (e.ID + e.PLen) % 3 {
				case 1:
					_, _ = body.Seek(int64(e.PLen/2), io.SeekStart)
				case 2:
					_, _ = body.Seek(0, io.SeekEnd)
				}
				req.SetBody(body)
			}
			go func(id int) {
				defer func() {
					if rec := recover(); rec != nil {
						results <- c06Result{id, 9, 0} // the library panicked inside the call
					}
				}()
				resp, err := mc.cc.Do(req)
				respCode := 0
				if err == nil {
					respCode = int(resp.Code())
				}
				if activeTracker != nil {
					// the application owns the request again and the response (if any): check and release both
					if err == nil {
						activeTracker.Hold(resp)
						activeTracker.Unhold(resp)
						activeTracker.AppRel(resp)
						mc.cc.ReleaseMessage(resp)
					}
					activeTracker.AppRel(req)
					mc.cc.ReleaseMessage(req)
				}
				if err != nil {
					cls := 3
					if strings.Contains(err.Error(), "context canceled") || strings.Contains(err.Error(), "deadline exceeded") {
						cls = 1
					} else if strings.Contains(err.Error(), "connection was closed") {
						cls = 2
					}
					results <- c06Result{id, cls, 0}
					return
				}
				results <- c06Result{id, 0, respCode}
			}(e.ID)
		case "age":
			mc.cc.VerifShiftPending(time.Duration(e.Ms) * time.Millisecond)
		case "wait":
			// real time passes (for every pending entry alike); not a synchronisation device
			time.Sleep(time.Duration(e.Ms) * time.Millisecond)
		case "tick":
			mc.cc.CheckExpirations(time.Now())
		case "stale":
			// a housekeeping tick that carries the time at which it started, Ms before the present
			mc.cc.CheckExpirations(time.Now().Add(-time.Duration(e.Ms) * time.Millisecond))
		case "ack", "rst", "piggy":
			r := reqs[e.ID]
			if r != nil && r.first != nil {
				typ, code := 2, 0
				var tok []byte
				if e.Kind == "rst" {
					typ = 3
				}
				if e.Kind == "piggy" {
					code = e.Code
					tok = r.tok
				}
				mc.inject(encodeWire(typ, code, r.mid, tok, nil, nil))
			}
		case "sep":
			r := reqs[e.ID]
			if r != nil {
				mc.inject(encodeWire(0, e.Code, e.PMID, r.tok, nil, nil))
			}
		case "cancel":
			r := reqs[e.ID]
			if r != nil && r.state != "done" {
				r.cancel()
				expectRet = 1
			}
		}
		var rets []c06Result
		collect := func() {
			for {
				select {
				case x := <-results:
					rets = append(rets, x)
					if rq := reqs[x.id]; rq != nil {
						rq.state = "done"
					}
				default:
					return
				}
			}
		}
		if e.Kind != "age" && e.Kind != "wait" {
			// barrier: everything injected has been dispatched by the reader loop
			mc.sync()
			// then wait until the goroutines woken by this event have had their effect: the output and
			// the set of returned calls must be stable for a whole window (and an expected return seen)
			hard := time.Now().Add(2 * time.Second)
			lastChange := time.Now()
			lastOut, lastRet := -1, -1
			for {
				collect()
				mc.s.mu.Lock()
				nout := len(mc.s.out)
				mc.s.mu.Unlock()
				if nout != lastOut || len(rets) != lastRet {
					lastOut, lastRet = nout, len(rets)
					lastChange = time.Now()
				}
				if len(rets) >= expectRet && time.Since(lastChange) > window {
					// witness besides the window: no caller (and no goroutine of the connection) is running or
					// waiting for a processor - under load a woken goroutine may not get to run within the window
					if c06Quiescent() {
						collect()
						mc.s.mu.Lock()
						nout = len(mc.s.out)
						mc.s.mu.Unlock()
						if nout == lastOut && len(rets) == lastRet {
							break
						}
						continue
					}
				}
				if time.Now().After(hard) {
					break
				}
				time.Sleep(250 * time.Microsecond)
			}
		}
		out := mc.takeOut()
		mc.takeLog()
		// interpret the output
		var ems []string
		for _, w := range out {
			matched := false
			if !w.Bad {
				if id := c06Owner(reqs, order, w); id != 0 {
					r := reqs[id]
					if r.first == nil {
						r.first = w.Raw
						r.mid = w.MID
						mc.avoidMID[w.MID] = true
						if _, bound := midName[r.name]; !bound {
							midName[r.name] = w.MID
						}
						ems = append(ems, fmt.Sprintf("OCopy %d true", id))
					} else {
						ems = append(ems, fmt.Sprintf("OCopy %d %s", id, coqBool(bytes.Equal(w.Raw, r.first))))
					}
					matched = true
				}
				if !matched && w.Typ == 2 && w.Code == 0 && len(w.Tok) == 0 {
					ems = append(ems, fmt.Sprintf("OBareAck %d", w.MID))
					matched = true
				}
			}
			if !matched {
				ems = append(ems, "OOther")
			}
		}
		var rs []string
		for _, x := range rets {
			rs = append(rs, fmt.Sprintf("(%d, %d, %d)", x.id, x.res, x.code))
		}
		if dbg {
			fmt.Fprintf(os.Stderr, "%s -> em=%v ret=%v sizes=%v\n", e.desc(), ems, rs, mc.cc.VerifSizes())
		}
		items = append(items, e.item(ems, rs))
		if perEventC06 != nil {
			perEventC06(e)
		}
	}
	sb.WriteString(strings.Join(items, "; "))
	sb.WriteString("]")
	// release every caller still blocked and wait until all of them have returned, so that nothing of this
	// history is still running when the next one starts
	pendingCalls := 0
	for _, r := range reqs {
		if r.state != "done" {
			pendingCalls++
		}
		r.cancel()
	}
	waitAll := time.After(3 * time.Second)
	for pendingCalls > 0 {
		select {
		case <-results:
			pendingCalls--
		case <-waitAll:
			pendingCalls = 0
		}
	}
	return sb.String()
}

// canonC06 returns the canonical histories that are always run (shared with C12).
func canonC06() []c06Canon {
	var out []c06Canon
	add := func(evs []c06Ev, ack, maxrt, nst int) { out = append(out, c06Canon{evs, ack, maxrt, nst}) }
	// canonical: full retransmission schedule with defaults, then exhaustion
	full := []c06Ev{{Kind: "send", ID: 1, Tok: []byte{1, 2, 3, 4}}}
	for i := 0; i < 6; i++ {
		full = append(full, c06Ev{Kind: "age", Ms: 1600}, c06Ev{Kind: "tick"}, c06Ev{Kind: "age", Ms: 500}, c06Ev{Kind: "tick"})
	}
	full = append(full, c06Ev{Kind: "ack", ID: 1}, c06Ev{Kind: "cancel", ID: 1})
	add(full, 2000, 4, 1)
	add([]c06Ev{{Kind: "send", ID: 1, Tok: []byte{9}}, {Kind: "age", Ms: 2500}, {Kind: "tick"}, {Kind: "piggy", ID: 1, Code: 69}, {Kind: "age", Ms: 2500}, {Kind: "tick"}}, 2000, 4, 1)
	add([]c06Ev{{Kind: "send", ID: 1, Tok: []byte{9}}, {Kind: "send", ID: 2, Tok: []byte{8}}, {Kind: "ack", ID: 1}, {Kind: "sep", ID: 1, Code: 69, PMID: 500}, {Kind: "rst", ID: 2}, {Kind: "age", Ms: 2500}, {Kind: "tick"}, {Kind: "cancel", ID: 2}}, 2000, 4, 1)
	// two requests (one with a payload) due for retransmission in the same tick; the visiting order of
	// the tick is Go's map order, so the scenario is repeated
	for i := 0; i < 10; i++ {
		first, second := c06Ev{Kind: "send", ID: 1, Tok: []byte{0x50, byte(i)}, PLen: 33}, c06Ev{Kind: "send", ID: 2, Tok: []byte{0x51, byte(i)}}
		if i%2 == 1 {
			first, second = c06Ev{Kind: "send", ID: 1, Tok: []byte{0x51, byte(i)}}, c06Ev{Kind: "send", ID: 2, Tok: []byte{0x50, byte(i)}, PLen: 33}
		}
		add([]c06Ev{first, second, {Kind: "age", Ms: 1500}, {Kind: "tick"}, {Kind: "age", Ms: 1000}, {Kind: "tick"}, {Kind: "ack", ID: 1}, {Kind: "cancel", ID: 2}, {Kind: "cancel", ID: 1}}, 1000, 2, 2)
	}
	// a tick that has already fetched the pending entry when the caller cancels and returns
	for i := 0; i < 3; i++ {
		add([]c06Ev{{Kind: "send", ID: 1, Tok: []byte{0x70, byte(i)}}, {Kind: "age", Ms: 2500}, {Kind: "tickx", ID: 1}, {Kind: "age", Ms: 2500}, {Kind: "tick"}}, 2000, 4, 1)
	}
	add([]c06Ev{{Kind: "send", ID: 1, Tok: []byte{0x71}}, {Kind: "send", ID: 2, Tok: []byte{0x72}}, {Kind: "age", Ms: 1500}, {Kind: "tick"}, {Kind: "age", Ms: 1000}, {Kind: "tickx", ID: 2}, {Kind: "cancel", ID: 1}}, 1000, 4, 2)
	// an acknowledgement processed while a tick holds the (exhausted or still live) entry it has just fetched
	add([]c06Ev{{Kind: "send", ID: 1, Tok: []byte{0x73}}, {Kind: "tickack", ID: 1}, {Kind: "tick"}, {Kind: "cancel", ID: 1}}, 2000, 0, 1)
	add([]c06Ev{{Kind: "send", ID: 1, Tok: []byte{0x74}}, {Kind: "age", Ms: 2500}, {Kind: "tickack", ID: 1}, {Kind: "age", Ms: 2500}, {Kind: "tick"}, {Kind: "piggy", ID: 1, Code: 69}}, 2000, 4, 1)
	// a request that had to queue for its NSTART slot while real time passed: its retransmission timer
	// starts at its own first transmission, not when it was issued
	for i := 0; i < 2; i++ {
		add([]c06Ev{{Kind: "send", ID: 1, Tok: []byte{0x60, byte(i)}}, {Kind: "send", ID: 2, Tok: []byte{0x61, byte(i)}}, {Kind: "wait", Ms: 700},
			{Kind: "ack", ID: 1}, {Kind: "age", Ms: 1500}, {Kind: "tick"}, {Kind: "age", Ms: 900}, {Kind: "tick"}, {Kind: "cancel", ID: 2}, {Kind: "cancel", ID: 1}}, 2000, 2, 1)
	}
	return out
}

type c06Canon struct {
	evs             []c06Ev
	ack, maxrt, nst int
}

// genC06History draws one history (shared with C12).
func genC06History(rng *Rng) ([]c06Ev, int, int, int) {
	ack := []int{1000, 2000}[rng.Intn(2)]
	maxrt := []int{0, 1, 2, 4, 4}[rng.Intn(5)]
	nst := 1 + rng.Intn(2)
	nreq := 1 + rng.Intn(3)
	k := 4 + rng.Intn(10)
	var evs []c06Ev
	started := 0
	pmid := 100
	// virtual clock per request is unknown to the generator; keep a global clock and only use ages
	// that keep every (now - sendTime) away from k*ack and from the deadlines by > 400 ms
	now := 0
	var sendTimes []int
	var dls []int
	okTime := func(t int) bool {
		for i, st := range sendTimes {
			el := t - st
			for kk := 1; kk <= 6; kk++ {
				d := el - kk*ack
				if d > -400 && d < 400 {
					return false
				}
			}
			if dls[i] > 0 {
				d := el - dls[i]
				if d > -400 && d < 400 {
					return false
				}
			}
		}
		return true
	}
	for len(evs) < k {
		r := rng.Intn(100)
		switch {
		case started < nreq && (started == 0 || r < 15):
			if !okTime(now) {
				// admission may happen at this time: it must not sit on a boundary of another request... fine
			}
			tok := []byte{byte(0xC0 + started), byte(rng.U64()), byte(rng.U64())}
			dl := 0
			if rng.Chance(25) {
				dl = []int{3000, 5000, 9000}[rng.Intn(3)]
			}
			evs = append(evs, c06Ev{Kind: "send", ID: started + 1, Tok: tok, DL: dl})
			sendTimes = append(sendTimes, now)
			dls = append(dls, dl)
			started++
		case r < 45:
			ms := []int{500, ack + 500, ack - 500, 2*ack + 100, 700, 1500, 3000}[rng.Intn(7)]
			// admissions of waiters start their clock later than the send; track conservatively by
			// also registering the current time as a possible start whenever a slot may free up
			if okTime(now + ms) {
				now += ms
				evs = append(evs, c06Ev{Kind: "age", Ms: ms})
			}
		case r < 70:
			evs = append(evs, c06Ev{Kind: "tick"})
		default:
			if started == 0 {
				continue
			}
			id := 1 + rng.Intn(started)
			switch rng.Intn(6) {
			case 0:
				evs = append(evs, c06Ev{Kind: "ack", ID: id})
			case 1:
				evs = append(evs, c06Ev{Kind: "rst", ID: id})
			case 2:
				evs = append(evs, c06Ev{Kind: "piggy", ID: id, Code: []int{69, 68, 132}[rng.Intn(3)]})
			case 3:
				pmid++
				evs = append(evs, c06Ev{Kind: "sep", ID: id, Code: []int{69, 65, 160}[rng.Intn(3)], PMID: pmid})
			case 4:
				evs = append(evs, c06Ev{Kind: "cancel", ID: id})
			default:
				evs = append(evs, c06Ev{Kind: "ack", ID: id})
			}
			// a slot may have been freed now: a waiter's clock may start here
			sendTimes = append(sendTimes, now)
			dls = append(dls, 0)
		}
	}
	return evs, ack, maxrt, nst
}

// canonC06Mid: histories in which the application chooses message IDs itself (Retx/ModelMid.v): a second
// request with the message ID of a request that is still unacknowledged is refused and must leave the
// first exchange alone (it is still retransmitted, its ACK / response still ends it); an ID may be used
// again once the earlier exchange is over. Not shared with C12.
func canonC06Mid() []c06Canon {
	var out []c06Canon
	add := func(evs []c06Ev, ack, maxrt, nst int) { out = append(out, c06Canon{evs, ack, maxrt, nst}) }
	s := func(id int, tok ...byte) c06Ev { return c06Ev{Kind: "send", ID: id, Tok: tok} }
	m := func(id, mid int, tok ...byte) c06Ev { return c06Ev{Kind: "sendm", ID: id, Tok: tok, Mid: mid} }
	age := func(ms int) c06Ev { return c06Ev{Kind: "age", Ms: ms} }
	tick := c06Ev{Kind: "tick"}
	k := func(kind string, id int) c06Ev { return c06Ev{Kind: kind, ID: id} }
	piggy := func(id int) c06Ev { return c06Ev{Kind: "piggy", ID: id, Code: 69} }
	sep := func(id, pmid int) c06Ev { return c06Ev{Kind: "sep", ID: id, Code: 69, PMID: pmid} }
	// collision with a pending request: refused; the pending one is re-sent and then answered (piggybacked)
	add([]c06Ev{s(1, 0xa1), m(2, 1, 0xb1), age(2500), tick, piggy(1), age(2500), tick}, 2000, 4, 2)
	// ... answered by an empty ACK followed by a separate response
	add([]c06Ev{s(1, 0xa2), m(2, 1, 0xb2), k("ack", 1), sep(1, 300), age(2500), tick}, 2000, 4, 2)
	// ... two refused calls, full retransmission schedule of the pending one, answered at the last moment
	add([]c06Ev{s(1, 0xa3), m(2, 1, 0xb3), age(1500), tick, m(3, 1, 0xc3), age(1000), tick, age(1000), tick, piggy(1), k("cancel", 1)}, 1000, 2, 3)
	// both message IDs chosen by the application (a fresh one), POST with a payload
	add([]c06Ev{{Kind: "sendm", ID: 1, Tok: []byte{0xa4}, Mid: 100, PLen: 40}, m(2, 100, 0xb4), age(2500), tick, k("rst", 1), sep(1, 301), k("cancel", 1)}, 2000, 4, 2)
	// the colliding request has to queue for its NSTART slot first and is refused when it gets it
	add([]c06Ev{s(1, 0xa5), s(2, 0xb5), m(3, 1, 0xc5), age(2500), tick, k("ack", 2), age(2500), tick, piggy(1), k("cancel", 2)}, 2000, 4, 2)
	add([]c06Ev{s(1, 0xa6), s(2, 0xb6), m(3, 1, 0xc6), k("cancel", 2), age(2500), tick, k("ack", 1), sep(1, 302)}, 2000, 4, 2)
	// the refused caller cancels afterwards, the pending caller cancels: nothing more is sent
	add([]c06Ev{s(1, 0xa7), m(2, 1, 0xb7), k("cancel", 2), age(2500), tick, k("cancel", 1), age(2500), tick}, 2000, 4, 2)
	// an ID is free again once the earlier exchange is over: acknowledged, answered, cancelled, exhausted
	add([]c06Ev{s(1, 0xa8), piggy(1), m(2, 1, 0xb8), age(2500), tick, piggy(2), age(2500), tick}, 2000, 4, 1)
	add([]c06Ev{s(1, 0xa9), k("ack", 1), m(2, 1, 0xb9), age(2500), tick, k("ack", 1), sep(2, 303), sep(1, 304)}, 2000, 4, 2)
	add([]c06Ev{s(1, 0xaa), k("cancel", 1), m(2, 1, 0xba), age(2500), tick, k("rst", 2), k("cancel", 2)}, 2000, 4, 1)
	add([]c06Ev{s(1, 0xab), age(2500), tick, age(2500), tick, age(2500), tick, m(2, 1, 0xbb), age(2500), tick, piggy(2), k("cancel", 1)}, 2000, 1, 2)
	// queued behind the request whose ID it reuses (NSTART 1): admitted when that one is acknowledged
	add([]c06Ev{s(1, 0xac), m(2, 1, 0xbc), k("ack", 1), age(2500), tick, k("ack", 1), sep(1, 305), sep(2, 306)}, 2000, 4, 1)
	// after a refused call: a tick that has fetched the pending entry when the pending caller cancels (F19 window)
	add([]c06Ev{s(1, 0xad), m(2, 1, 0xbd), age(2500), {Kind: "tickx", ID: 1}, age(2500), tick}, 2000, 4, 2)
	return out
}

// genC06MidHistory draws one history with application-chosen message IDs (not shared with C12).
func genC06MidHistory(rng *Rng) ([]c06Ev, int, int, int) {
	ack := []int{1000, 2000}[rng.Intn(2)]
	maxrt := []int{0, 1, 2, 4, 4}[rng.Intn(5)]
	nst := []int{1, 2, 2, 3}[rng.Intn(4)]
	nreq := 2 + rng.Intn(3)
	k := 5 + rng.Intn(10)
	var evs []c06Ev
	started := 0
	pmid := 400
	now := 0
	var sendTimes, dls []int
	okTime := func(t int) bool {
		for i, st := range sendTimes {
			el := t - st
			for kk := 1; kk <= 6; kk++ {
				if d := el - kk*ack; d > -400 && d < 400 {
					return false
				}
			}
			if dls[i] > 0 {
				if d := el - dls[i]; d > -400 && d < 400 {
					return false
				}
			}
		}
		return true
	}
	for len(evs) < k {
		r := rng.Intn(100)
		switch {
		case started < nreq && (started == 0 || r < 25):
			tok := []byte{byte(0xD0 + started), byte(rng.U64()), byte(rng.U64())}
			dl := 0
			if rng.Chance(15) {
				dl = []int{3000, 5000, 9000}[rng.Intn(3)]
			}
			ev := c06Ev{Kind: "send", ID: started + 1, Tok: tok, DL: dl}
			if started == 0 && rng.Chance(30) {
				ev.Kind, ev.Mid = "sendm", 100
			} else if started > 0 && rng.Chance(75) {
				ev.Kind = "sendm"
				ev.Mid = 1 + rng.Intn(started) // the ID of an earlier request
				if rng.Chance(15) {
					ev.Mid = 100 + rng.Intn(2)
				}
			}
			if rng.Chance(20) {
				ev.PLen = 1 + rng.Intn(60)
			}
			evs = append(evs, ev)
			sendTimes = append(sendTimes, now)
			dls = append(dls, dl)
			started++
		case r < 50:
			ms := []int{500, ack + 500, ack - 500, 2*ack + 100, 700, 1500, 3000}[rng.Intn(7)]
			if okTime(now + ms) {
				now += ms
				evs = append(evs, c06Ev{Kind: "age", Ms: ms})
			}
		case r < 70:
			evs = append(evs, c06Ev{Kind: "tick"})
		default:
			if started == 0 {
				continue
			}
			id := 1 + rng.Intn(started)
			switch rng.Intn(6) {
			case 0, 5:
				evs = append(evs, c06Ev{Kind: "ack", ID: id})
			case 1:
				evs = append(evs, c06Ev{Kind: "rst", ID: id})
			case 2:
				evs = append(evs, c06Ev{Kind: "piggy", ID: id, Code: []int{69, 68, 132}[rng.Intn(3)]})
			case 3:
				pmid++
				evs = append(evs, c06Ev{Kind: "sep", ID: id, Code: []int{69, 65, 160}[rng.Intn(3)], PMID: pmid})
			case 4:
				evs = append(evs, c06Ev{Kind: "cancel", ID: id})
			}
			// a slot may have been freed now: a waiter's clock may start here
			sendTimes = append(sendTimes, now)
			dls = append(dls, 0)
		}
	}
	return evs, ack, maxrt, nst
}

// canonC06Stale: housekeeping ticks whose timestamp lies before the present ("stale:ms" = CheckExpirations
// with now = present - ms; Retx/ModelStale.v): the tick carries the time at which it STARTED, and a slow
// tick (other connections served first, a blocking write, a late ticker) reaches a connection when that
// time is old - older, possibly, than the first transmission of a request issued meanwhile. Such a tick
// must not send a copy earlier than k x ACK_TIMEOUT after the first. Not shared with C12.
func canonC06Stale() []c06Canon {
	var out []c06Canon
	add := func(evs []c06Ev, ack, maxrt, nst int) { out = append(out, c06Canon{evs, ack, maxrt, nst}) }
	s := func(id int, tok ...byte) c06Ev { return c06Ev{Kind: "send", ID: id, Tok: tok} }
	age := func(ms int) c06Ev { return c06Ev{Kind: "age", Ms: ms} }
	stale := func(ms int) c06Ev { return c06Ev{Kind: "stale", Ms: ms} }
	tick := c06Ev{Kind: "tick"}
	k := func(kind string, id int) c06Ev { return c06Ev{Kind: kind, ID: id} }
	piggy := func(id int) c06Ev { return c06Ev{Kind: "piggy", ID: id, Code: 69} }
	// stamped before the first transmission (by less / by more than ACK_TIMEOUT), between the copies, and
	// late but past a boundary (the copy is due also by the stale stamp)
	add([]c06Ev{s(1, 0xe1), stale(500), stale(6000), age(2500), tick, stale(5000), age(2500), stale(2000), stale(500), piggy(1)}, 2000, 4, 1)
	// two requests of different age under the same stale tick
	add([]c06Ev{s(1, 0xe2), age(2500), s(2, 0xf2), stale(2500), stale(5000), tick, stale(7000), k("cancel", 1), stale(7000), k("cancel", 2)}, 2000, 4, 2)
	// small ACK_TIMEOUT, every stale tick older than the request by several timeouts; exhaustion
	add([]c06Ev{s(1, 0xe3), stale(3500), stale(1500), age(1500), stale(3000), tick, age(1000), stale(4000), tick, stale(9500), age(1000), tick, k("cancel", 1)}, 1000, 2, 1)
	// the request was admitted (NSTART) while the tick was on its way
	add([]c06Ev{s(1, 0xe4), s(2, 0xf4), age(2500), k("ack", 1), stale(2500), stale(4500), age(2500), tick, piggy(2), k("cancel", 1)}, 2000, 4, 1)
	// MAX_RETRANSMIT 0 and 1
	add([]c06Ev{s(1, 0xe5), stale(4500), k("cancel", 1)}, 2000, 0, 1)
	add([]c06Ev{s(1, 0xe6), stale(4500), stale(2500), age(2500), stale(5000), tick, stale(8500), k("ack", 1), k("cancel", 1)}, 2000, 1, 1)
	return out
}

// genC06StaleHistory draws one history with punctual and stale ticks (not shared with C12). No tick sees
// a pending request within 400 ms of a k x ACK_TIMEOUT boundary (k = -6..6, by the stamp it carries).
func genC06StaleHistory(rng *Rng) ([]c06Ev, int, int, int) {
	ack := []int{1000, 2000}[rng.Intn(2)]
	maxrt := []int{0, 1, 2, 4, 4}[rng.Intn(5)]
	nst := []int{1, 1, 2}[rng.Intn(3)]
	nreq := 1 + rng.Intn(2)
	k := 5 + rng.Intn(9)
	var evs []c06Ev
	started := 0
	now := 0
	var sendTimes []int
	okTime := func(t int) bool {
		for _, st := range sendTimes {
			el := t - st
			for kk := -6; kk <= 6; kk++ {
				if d := el - kk*ack; kk != 0 && d > -400 && d < 400 {
					return false
				}
			}
		}
		return true
	}
	for len(evs) < k {
		r := rng.Intn(100)
		switch {
		case started < nreq && (started == 0 || r < 15):
			evs = append(evs, c06Ev{Kind: "send", ID: started + 1, Tok: []byte{byte(0xE0 + started), byte(rng.U64())}})
			sendTimes = append(sendTimes, now)
			started++
		case r < 40:
			ms := []int{500, ack + 500, ack - 500, 2*ack + 100, 700, 1500}[rng.Intn(6)]
			if okTime(now + ms) {
				now += ms
				evs = append(evs, c06Ev{Kind: "age", Ms: ms})
			}
		case r < 50:
			if okTime(now) {
				evs = append(evs, c06Ev{Kind: "tick"})
			}
		case r < 85:
			ms := []int{ack + 500, 3 * ack, 500, 2*ack + 700, 5*ack + 500, now + ack + 500}[rng.Intn(6)]
			if okTime(now - ms) {
				evs = append(evs, c06Ev{Kind: "stale", Ms: ms})
			}
		default:
			id := 1 + rng.Intn(started)
			switch rng.Intn(4) {
			case 0:
				evs = append(evs, c06Ev{Kind: "ack", ID: id})
			case 1:
				evs = append(evs, c06Ev{Kind: "piggy", ID: id, Code: 69})
			case 2:
				evs = append(evs, c06Ev{Kind: "rst", ID: id})
			case 3:
				evs = append(evs, c06Ev{Kind: "cancel", ID: id})
			}
			// a slot may have been freed now: a waiter's clock may start here
			sendTimes = append(sendTimes, now)
		}
	}
	return evs, ack, maxrt, nst
}

func runC06(a runArgs) error {
	e := NewEmitter("C06", "Retx.Run")
	e.Preamble = "From GoCoap Require Import Retx.Model Retx.Spec."
	e.ShardSize = 100
	e.Rule = "event histories on a real udp/client.Conn (in-memory session, virtual time by shifting the pending entries' stamps): 1-3 confirmable requests via Conn.Do (NSTART 1-2, ACK_TIMEOUT 1-2 s, MAX_RETRANSMIT 0-4, optional context deadline), housekeeping ticks at virtual times around every k x ACK_TIMEOUT boundary (never within 300 ms of one), and ACK / RST / piggybacked / separate responses / cancellation at every position; a second family with message IDs chosen by the application (the ID of an earlier request of the history, or a fresh one): collisions with a still unacknowledged request (the call is refused, the pending exchange goes on), re-use of an ID after the earlier exchange is over, NSTART 1-3; a third family with housekeeping ticks that carry a stale timestamp (CheckExpirations(now - d), d from 0.5 s to beyond the age of every pending request, i.e. stamped before its first transmission). Distinct = distinct history; non-trivial = at least one re-send or one response/ack/reset/cancel event."
	rng := NewRng(a.seed)
	emit := func(evs []c06Ev, ack, maxrt, nst int) {
		txt := runC06History(evs, ack, maxrt, nst)
		parts := make([]string, len(evs))
		nt := false
		midB := "mid-counter"
		for i, ev := range evs {
			parts[i] = ev.desc()
			if ev.Kind != "send" && ev.Kind != "sendm" && ev.Kind != "age" {
				nt = true
			}
			if ev.Kind == "sendm" {
				midB = "mid-chosen"
			}
			if ev.Kind == "stale" {
				midB = "stale-tick"
			}
		}
		e.Add(txt, fmt.Sprintf("%d,%d,%d|%s", ack, maxrt, nst, strings.Join(parts, " ")), nt, fmt.Sprintf("len%02d", len(evs)), fmt.Sprintf("nstart%d", nst), fmt.Sprintf("maxrt%d", maxrt), midB)
	}
	if a.only != "" {
		parts := strings.SplitN(a.only, "|", 2)
		var ack, maxrt, nst int
		fmt.Sscanf(parts[0], "%d,%d,%d", &ack, &maxrt, &nst)
		var evs []c06Ev
		for _, s := range strings.Fields(parts[1]) {
			evs = append(evs, parseC06Ev(s))
		}
		emit(evs, ack, maxrt, nst)
		return e.Flush(a.out)
	}
	n := 140
	if a.tier == "thorough" {
		n = 1500
	}
	for c := 0; c < n; c++ {
		evs, ack, maxrt, nst := genC06History(rng)
		emit(evs, ack, maxrt, nst)
	}
	for _, c := range canonC06() {
		emit(c.evs, c.ack, c.maxrt, c.nst)
	}
	// application-chosen message IDs: collisions with pending requests, reuse after completion
	nm := 70
	if a.tier == "thorough" {
		nm = 800
	}
	mrng := NewRng(a.seed ^ 0x6d6964)
	for c := 0; c < nm; c++ {
		evs, ack, maxrt, nst := genC06MidHistory(mrng)
		emit(evs, ack, maxrt, nst)
	}
	for _, c := range canonC06Mid() {
		emit(c.evs, c.ack, c.maxrt, c.nst)
	}
	// housekeeping ticks with a stale timestamp (older than the present, also older than the first transmission)
	ns := 30
	if a.tier == "thorough" {
		ns = 300
	}
	srng := NewRng(a.seed ^ 0x7374616c65)
	for c := 0; c < ns; c++ {
		evs, ack, maxrt, nst := genC06StaleHistory(srng)
		emit(evs, ack, maxrt, nst)
	}
	for _, c := range canonC06Stale() {
		emit(c.evs, c.ack, c.maxrt, c.nst)
	}
	return e.Flush(a.out)
}
