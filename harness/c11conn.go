package main

func c11ConnCases(e *Emitter, rng *Rng, thorough bool) {}
func c11ConnOnly(e *Emitter, only string)             {}
