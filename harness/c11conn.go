package main

// C11 layer (b): a real udp/client.Conn over the in-memory session (udpmem.go).
//
// A scenario is a script of datagrams that are injected ONE AT A TIME; message numbers are the
// injection order 1..k. An item is
//   q / Q      a NON / CON GET request; its application handler (running on the reader-loop
//              goroutine that dispatched it) executes the program of the message: for every N<r> a
//              real blocking nested request (Conn.Do, NON GET, own token) on the same connection whose
//              response is injected as message number r (Nx: the response is never injected);
//   r          the response (NON 2.05, token of the nested request, fresh message ID) of the nested
//              request that names this position;
//   s          a stray response (NON 2.05 with a token nobody waits for): reaches the application handler.
// Every dispatch (requests and responses) is logged through Config.ProcessReceivedMessage, which then
// runs the connection's default ProcessReceivedMessageWithHandler.
// After every injection the harness waits for state-change witnesses that the effects have settled
// (dispatch logged; nested request datagram written / nested call returned / handler finished) before it
// injects the next datagram; every wait is under a watchdog (hang = it expired).
//
// Descriptor: "U:n=<queue size>|<item> <item> ..." with item = <position><kind>[:N<r>N<r>...],
// e.g. "U:n=1|1q:N3 2Q:N4 3r 4r". The position prefix is for the reader only (ignored when parsing).

import (
	"bytes"
	"context"
	"fmt"
	"os"
	"runtime"
	"strconv"
	"strings"
	"sync"
	"time"

	"github.com/plgd-dev/go-coap/v3/message"
	"github.com/plgd-dev/go-coap/v3/message/codes"
	"github.com/plgd-dev/go-coap/v3/message/pool"
	"github.com/plgd-dev/go-coap/v3/net/responsewriter"
	"github.com/plgd-dev/go-coap/v3/options/config"
	"github.com/plgd-dev/go-coap/v3/udp/client"
)

// see c11WD in c11.go (30 s; short after repeated hangs in one invocation)

// c11Item is one datagram of a script. ops[j].r == 0 means "response never injected".
type c11Item struct {
	kind byte // 'q' NON request, 'Q' CON request, 'r' response of a nested request, 's' stray response
	ops  []c11Op
}

func c11ItemsDesc(items []c11Item) string {
	var parts []string
	for i, it := range items {
		var sb strings.Builder
		fmt.Fprintf(&sb, "%d%c", i+1, it.kind)
		if len(it.ops) > 0 {
			sb.WriteByte(':')
			for _, op := range it.ops {
				if op.r == 0 {
					sb.WriteString("Nx")
				} else {
					fmt.Fprintf(&sb, "N%d", op.r)
				}
			}
		}
		parts = append(parts, sb.String())
	}
	return strings.Join(parts, " ")
}

func c11ConnDesc(n int, items []c11Item) string {
	return fmt.Sprintf("U:n=%d|%s", n, c11ItemsDesc(items))
}

func parseC11Items(s string) ([]c11Item, error) {
	var items []c11Item
	for _, f := range strings.Fields(s) {
		i := 0
		for i < len(f) && f[i] >= '0' && f[i] <= '9' {
			i++
		}
		if i >= len(f) {
			return nil, fmt.Errorf("bad item %q", f)
		}
		it := c11Item{kind: f[i]}
		if !strings.ContainsRune("qQrs", rune(it.kind)) {
			return nil, fmt.Errorf("bad item kind %q", f)
		}
		rest := f[i+1:]
		if rest != "" {
			if rest[0] != ':' {
				return nil, fmt.Errorf("bad item %q", f)
			}
			t := rest[1:]
			for p := 0; p < len(t); {
				if t[p] != 'N' {
					return nil, fmt.Errorf("bad program in %q", f)
				}
				p++
				if p < len(t) && t[p] == 'x' {
					it.ops = append(it.ops, c11Op{nested: true})
					p++
					continue
				}
				q := p
				for q < len(t) && t[q] >= '0' && t[q] <= '9' {
					q++
				}
				v, err := strconv.Atoi(t[p:q])
				if err != nil || v <= 0 {
					return nil, fmt.Errorf("bad program in %q", f)
				}
				it.ops = append(it.ops, c11Op{nested: true, r: v})
				p = q
			}
		}
		items = append(items, it)
	}
	return items, nil
}

func parseC11ConnDesc(only string) (int, []c11Item, error) {
	s := strings.TrimPrefix(only, "U:")
	parts := strings.SplitN(s, "|", 2)
	if len(parts) != 2 {
		return 0, nil, fmt.Errorf("no '|' in %q", only)
	}
	n := -1
	for _, kv := range strings.Split(parts[0], ",") {
		f := strings.SplitN(kv, "=", 2)
		if len(f) == 2 && f[0] == "n" {
			n, _ = strconv.Atoi(f[1])
		}
	}
	if n < 0 {
		return 0, nil, fmt.Errorf("no queue size in %q", only)
	}
	items, err := parseC11Items(parts[1])
	return n, items, err
}

// c11ConnPlan checks a script and computes which nested request (message m, index j) every 'r' item answers.
// A response may only stand after the point where its nested request has certainly been issued: after the
// request message (first nested request of the handler) resp. after the response of the previous one.
func c11ConnPlan(items []c11Item) (map[int][2]int, error) {
	respOf := map[int][2]int{}
	k := len(items)
	for i, it := range items {
		m := i + 1
		if (it.kind == 'r' || it.kind == 's') && len(it.ops) > 0 {
			return nil, fmt.Errorf("message %d: a response has no program", m)
		}
		prev := m
		for j, op := range it.ops {
			if op.r == 0 {
				if j != len(it.ops)-1 {
					return nil, fmt.Errorf("message %d: Nx must be the last operation", m)
				}
				continue
			}
			if op.r <= prev || op.r > k || items[op.r-1].kind != 'r' {
				return nil, fmt.Errorf("message %d: N%d is not a later response item", m, op.r)
			}
			if _, dup := respOf[op.r]; dup {
				return nil, fmt.Errorf("message %d: response %d used twice", m, op.r)
			}
			respOf[op.r] = [2]int{m, j}
			prev = op.r
		}
	}
	for i, it := range items {
		if it.kind == 'r' {
			if _, ok := respOf[i+1]; !ok {
				return nil, fmt.Errorf("message %d: response of no nested request (use 's')", i+1)
			}
		}
	}
	return respOf, nil
}

// c11ConnShape: number of nested requests and the maximal number of simultaneously blocked handlers.
func c11ConnShape(items []c11Item, respOf map[int][2]int) (nested, maxDepth int) {
	blocked := 0
	for i, it := range items {
		nested += len(it.ops)
		if len(it.ops) > 0 {
			blocked++
		}
		if it.kind == 'r' {
			mj := respOf[i+1]
			if mj[1] == len(items[mj[0]-1].ops)-1 {
				blocked--
			}
		}
		if blocked > maxDepth {
			maxDepth = blocked
		}
	}
	return
}

func c11ConnCfg(n int, items []c11Item) c11Cfg {
	k := len(items)
	cfg := c11Cfg{n: n, msgs: k, progs: map[int][]c11Op{}}
	for i, it := range items {
		if len(it.ops) == 0 {
			continue
		}
		var ops []c11Op
		for _, op := range it.ops {
			r := op.r
			if r == 0 {
				r = k + 5 // never injected
			}
			ops = append(ops, c11Op{nested: true, r: r})
		}
		cfg.progs[i+1] = ops
	}
	return cfg
}

// ---------- execution ----------

type c11ConnState struct {
	mu      sync.Mutex
	note    chan struct{}
	log     []int
	nest    []*c11Nest
	started map[[2]int]*c11Nest
	done    map[int]bool
	active  int
	errs    []string
}

func (st *c11ConnState) signal() {
	select {
	case st.note <- struct{}{}:
	default:
	}
}

func (st *c11ConnState) errf(f string, a ...any) {
	st.mu.Lock()
	st.errs = append(st.errs, fmt.Sprintf(f, a...))
	st.mu.Unlock()
}

func c11ReqToken(m int) []byte { return []byte{0xA0, 0x11, byte(m >> 8), byte(m)} }
func c11NestToken(m, j int) []byte {
	return []byte{0xC1, 0x1C, byte(m >> 8), byte(m), byte(j), 0x5A, 0x00, 0x01}
}

// runC11Conn executes one script; returns the Coq case text and whether a watchdog expired.
func runC11Conn(n int, items []c11Item) (string, bool) {
	respOf, err := c11ConnPlan(items)
	if err != nil {
		panic("c11conn: invalid script: " + err.Error())
	}
	dbg := os.Getenv("HXDBG") != ""
	k := len(items)
	cfg := c11ConnCfg(n, items)
	st := &c11ConnState{note: make(chan struct{}, 1), started: map[[2]int]*c11Nest{}, done: map[int]bool{}}
	num := map[int]int{} // injected message ID -> message number (complete before the first injection)
	ctx, cancel := context.WithCancel(context.Background())

	hook := config.ProcessReceivedMessageFunc[*client.Conn](func(req *pool.Message, cc *client.Conn, handler config.HandlerFunc[*client.Conn]) {
		m := num[int(req.MessageID())] // 0 = a message the harness did not inject
		st.mu.Lock()
		st.log = append(st.log, m)
		st.mu.Unlock()
		st.signal()
		cc.ProcessReceivedMessageWithHandler(req, handler)
	})
	mc := newMemConn(memConnOpts{getMID: 0x2000, queueSize: n, nstart: 64, limitTotal: 64, limitEndpoint: 64, maxRetransmit: 4, processReceived: hook})

	// injected message IDs: distinct, at least 0x3fff above the connection's own counter (checkMyMessageID)
	// for the whole run (the own counter advances by one per nested request / acknowledgement)
	own := int(uint16(mc.cc.VerifMsgID()))
	mids := make([]int, k+1)
	for i := 1; i <= k; i++ {
		mids[i] = (own + 0x5000 + i) & 0xffff
		num[mids[i]] = i
		mc.avoidMID[mids[i]] = true
	}

	mc.behave = func(_ *responsewriter.ResponseWriter[*client.Conn], r *pool.Message) {
		m := num[int(r.MessageID())]
		st.mu.Lock()
		st.active++
		st.mu.Unlock()
		finished := false
		defer func() {
			st.mu.Lock()
			st.active--
			if finished {
				st.done[m] = true
			}
			st.mu.Unlock()
			st.signal()
		}()
		for j, op := range cfg.progs[m] {
			ne := &c11Nest{m: m, r: op.r}
			st.mu.Lock()
			st.nest = append(st.nest, ne)
			st.started[[2]int{m, j}] = ne
			st.mu.Unlock()
			st.signal()
			tok := c11NestToken(m, j)
			req := mc.cc.AcquireMessage(ctx)
			req.SetCode(codes.GET)
			req.SetType(message.NonConfirmable)
			req.SetToken(tok)
			_ = req.SetPath("/nested")
			resp, err := mc.cc.Do(req)
			mc.cc.ReleaseMessage(req)
			if err != nil {
				// expected only at tear-down (context cancelled / connection closed)
				st.errf("nested %d.%d: %v", m, j, err)
				return
			}
			okResp := resp.Code() == codes.Content && bytes.Equal(resp.Token(), tok)
			mc.cc.ReleaseMessage(resp)
			if !okResp {
				st.errf("nested %d.%d: wrong response", m, j)
				return
			}
			st.mu.Lock()
			ne.ret = true
			st.mu.Unlock()
			st.signal()
		}
		finished = true
	}

	// output scanner: the session output only grows during a run (nothing takes it)
	scanned := 0
	outTok := map[string]wireMsg{}
	outHas := func(tok []byte) bool {
		mc.s.mu.Lock()
		raw := mc.s.out[scanned:]
		scanned = len(mc.s.out)
		mc.s.mu.Unlock()
		for _, b := range raw {
			w := decodeWire(b)
			if !w.Bad && w.Typ == int(message.NonConfirmable) && w.Code == int(codes.GET) {
				outTok[string(w.Tok)] = w
				mc.avoidMID[w.MID] = true
			}
		}
		_, ok := outTok[string(tok)]
		return ok
	}

	// wait: cond is evaluated under st.mu; woken by state changes of st, and polls (the session output has no notifier)
	wait := func(what string, cond func() bool) bool {
		deadline := time.Now().Add(c11WD())
		for {
			st.mu.Lock()
			ok := cond()
			st.mu.Unlock()
			if ok {
				return true
			}
			if time.Now().After(deadline) {
				c11Hangs.Add(1)
				if dbg {
					fmt.Fprintf(os.Stderr, "c11conn: watchdog: %s (%s)\n", what, c11ConnDesc(n, items))
				}
				return false
			}
			select {
			case <-st.note:
			case <-time.After(300 * time.Microsecond):
			}
		}
	}
	logged := func(i int) func() bool {
		return func() bool {
			for _, m := range st.log {
				if m == i {
					return true
				}
			}
			return false
		}
	}
	// settleHandler: the handler of message m is about to execute operation j of its program (or to finish)
	settleHandler := func(m, j int) bool {
		if j < len(cfg.progs[m]) {
			tok := c11NestToken(m, j)
			return wait(fmt.Sprintf("nested request %d.%d written", m, j), func() bool {
				return st.started[[2]int{m, j}] != nil && outHas(tok)
			})
		}
		return wait(fmt.Sprintf("handler of %d finished", m), func() bool { return st.done[m] })
	}

	hang := false
	for i := 1; i <= k && !hang; i++ {
		it := items[i-1]
		var d []byte
		switch it.kind {
		case 'q':
			d = encodeWire(int(message.NonConfirmable), int(codes.GET), mids[i], c11ReqToken(i), nil, nil)
		case 'Q':
			d = encodeWire(int(message.Confirmable), int(codes.GET), mids[i], c11ReqToken(i), nil, nil)
		case 'r':
			mj := respOf[i]
			d = encodeWire(int(message.NonConfirmable), int(codes.Content), mids[i], c11NestToken(mj[0], mj[1]), nil, []byte("ok"))
		case 's':
			d = encodeWire(int(message.NonConfirmable), int(codes.Content), mids[i], []byte{0x57, 0x7A, byte(i)}, nil, []byte("stray"))
		}
		// Process blocks while the queue is full: keep it under the watchdog as well
		inj := make(chan int, 1)
		go func() { inj <- mc.inject(d) }()
		select {
		case res := <-inj:
			if res != 0 {
				st.errf("inject %d: result %d", i, res)
			}
		case <-time.After(c11WD()):
			c11Hangs.Add(1)
			if dbg {
				fmt.Fprintf(os.Stderr, "c11conn: watchdog: Process of %d (%s)\n", i, c11ConnDesc(n, items))
			}
			hang = true
		}
		if hang {
			break
		}
		if !wait(fmt.Sprintf("dispatch of %d", i), logged(i)) {
			hang = true
			break
		}
		switch it.kind {
		case 'q', 'Q', 's':
			if !settleHandler(i, 0) {
				hang = true
			}
		case 'r':
			mj := respOf[i]
			ok := wait(fmt.Sprintf("nested call %d.%d returned", mj[0], mj[1]), func() bool {
				ne := st.started[mj]
				return ne != nil && ne.ret
			})
			if !ok || !settleHandler(mj[0], mj[1]+1) {
				hang = true
			}
		}
	}

	// observation (before the tear-down releases the blocked calls)
	st.mu.Lock()
	var ol, on []string
	for _, m := range st.log {
		ol = append(ol, strconv.Itoa(m))
	}
	for _, ne := range st.nest {
		on = append(on, fmt.Sprintf("(%d, %d, %s)", ne.m, ne.r, coqBool(ne.ret)))
	}
	st.mu.Unlock()

	// tear-down: release blocked nested calls, close, wait until no handler is left
	cancel()
	mc.close()
	if !wait("handlers released", func() bool { return st.active == 0 }) {
		fmt.Fprintf(os.Stderr, "c11conn: handlers still running after close (%s)\n", c11ConnDesc(n, items))
	}
	if dbg && hang {
		st.mu.Lock()
		fmt.Fprintf(os.Stderr, "c11conn: %s: log=%v errs=%v\n", c11ConnDesc(n, items), st.log, st.errs)
		st.mu.Unlock()
	}
	txt := fmt.Sprintf("ConnC %d%%nat %s %s [%s] [%s] %s", n, cfg.coqProgs(), cfg.coqMsgs(),
		strings.Join(ol, "; "), strings.Join(on, "; "), coqBool(hang))
	return txt, hang
}

// ---------- scripts ----------

var c11ConnFixed = []string{
	// no nesting
	"q Q q",
	"q s Q",
	// depth 1
	"q:N2 r",
	"Q:N2 r",
	"q:N3 q r q",
	"Q:N3 Q r Q",
	"q:N4 q Q r q",
	// depth 2: LIFO and FIFO release
	"q:N4 q:N3 r r",
	"q:N3 q:N4 r r",
	"Q:N5 q:N4 q r r Q",
	"q:N4 Q:N6 q r q r",
	// depth 3: LIFO, FIFO, interleaved with plain requests
	"q:N6 Q:N5 q:N4 r r r",
	"q:N4 Q:N5 q:N6 r r r",
	"q:N6 q:N7 q:N5 Q r r r q",
	"q:N9 q q:N6 s q:N7 r r q r",
	// two (three) sequential nested requests in one handler
	"q:N2N3 r r",
	"q:N2N4 r q r q",
	"Q:N2N3N4 r r r q",
	"q:N3N6 q:N4N5 r r r r",
	"q:N3N5 q:N4N6 r r r r",
	// a nested request whose response never comes
	"q:Nx q q",
	"q:N4 q:Nx q r q",
	"q:Nx Q:Nx q:N4 r q",
	"q:N2Nx r q Q",
}

func c11ConnRandom(rng *Rng, maxLen, maxDepth int) []c11Item {
	type pend struct{ m, j int }
	var items []c11Item
	var out []pend // outstanding nested requests in the order they were issued
	blocked := 0
	target := 3 + rng.Intn(maxLen-2)
	policy := rng.Intn(3) // release order: 0 LIFO, 1 FIFO, 2 random
	reqKind := func() byte {
		if rng.Chance(35) {
			return 'Q'
		}
		return 'q'
	}
	respond := func() {
		var idx int
		switch policy {
		case 0:
			idx = len(out) - 1
		case 1:
			idx = 0
		default:
			idx = rng.Intn(len(out))
		}
		p := out[idx]
		out = append(out[:idx], out[idx+1:]...)
		items = append(items, c11Item{kind: 'r'})
		pos := len(items)
		items[p.m-1].ops[p.j].r = pos
		if p.j+1 < len(items[p.m-1].ops) {
			out = append(out, pend{p.m, p.j + 1}) // the handler issues its next nested request now
		} else {
			blocked--
		}
	}
	for len(items) < target {
		if len(out) > 0 && rng.Chance(35) {
			respond()
			continue
		}
		if blocked < maxDepth && rng.Chance(65) {
			nops := 1
			if rng.Chance(30) {
				nops = 2
				if rng.Chance(20) {
					nops = 3
				}
			}
			it := c11Item{kind: reqKind()}
			for j := 0; j < nops; j++ {
				it.ops = append(it.ops, c11Op{nested: true}) // r filled in when the response is placed
			}
			items = append(items, it)
			out = append(out, pend{len(items), 0})
			blocked++
			continue
		}
		if rng.Chance(8) {
			items = append(items, c11Item{kind: 's'})
		} else {
			items = append(items, c11Item{kind: reqKind()})
		}
	}
	// drain: answer what is outstanding (sometimes never), plain requests in between
	for len(out) > 0 {
		if rng.Chance(12) {
			idx := rng.Intn(len(out))
			p := out[idx]
			out = append(out[:idx], out[idx+1:]...)
			items[p.m-1].ops = items[p.m-1].ops[:p.j+1] // stays blocked in this call for ever
			continue
		}
		if rng.Chance(15) {
			items = append(items, c11Item{kind: reqKind()})
			continue
		}
		respond()
	}
	if rng.Chance(50) {
		items = append(items, c11Item{kind: reqKind()})
	}
	return items
}

func c11ConnEmit(e *Emitter, n int, items []c11Item, tags ...string) bool {
	respOf, err := c11ConnPlan(items)
	if err != nil {
		panic("c11conn: invalid script: " + err.Error())
	}
	nested, depth := c11ConnShape(items, respOf)
	txt, hang := runC11Conn(n, items)
	hist := append([]string{"conn", fmt.Sprintf("depth%d", depth), fmt.Sprintf("queue%d", n)}, tags...)
	e.Add(txt, c11ConnDesc(n, items), nested > 0, hist...)
	return hang
}

func c11ConnCases(e *Emitter, rng *Rng, thorough bool) {
	t0 := time.Now()
	queues := []int{0, 1, 16}
	count, hangs := 0, 0
	run := func(n int, items []c11Item, tag string) {
		if c11ConnEmit(e, n, items, tag) {
			hangs++
		}
		count++
	}
	for _, s := range c11ConnFixed {
		items, err := parseC11Items(s)
		if err != nil {
			panic(err)
		}
		for _, n := range queues {
			run(n, items, "conn-fixed")
		}
	}
	nrand := 24
	if thorough {
		nrand = 530
	}
	for i := 0; i < nrand; i++ {
		maxLen, maxDepth := 9, []int{1, 2, 3, 3}[i%4]
		if thorough && i%5 == 0 {
			maxLen = 16
			if i%10 == 0 {
				maxDepth = 2 + rng.Intn(4) // up to 5 handlers blocked at once
			}
		}
		items := c11ConnRandom(rng, maxLen, maxDepth)
		run(queues[i%3], items, "conn-rand")
	}
	if os.Getenv("HXDBG") != "" {
		fmt.Fprintf(os.Stderr, "c11conn: %d scripts, %d goroutines alive afterwards\n", count, runtime.NumGoroutine())
	}
	e.Extra["conn_scripts"] = fmt.Sprintf("%d scripts (%d fixed x 3 queue sizes, %d random), watchdog expiries %d, %.2fs", count, len(c11ConnFixed), nrand, hangs, time.Since(t0).Seconds())
}

func c11ConnOnly(e *Emitter, only string) {
	n, items, err := parseC11ConnDesc(only)
	if err == nil {
		_, err = c11ConnPlan(items)
	}
	if err != nil {
		fmt.Fprintf(os.Stderr, "C11: cannot replay %q: %v\n", only, err)
		return
	}
	for i := 0; i < 8; i++ {
		txt, _ := runC11Conn(n, items)
		e.Add(txt, only, true, "conn-replay")
	}
}
