package main

// C09, round 3 -- two more families of watchdog runs:
//
//   srace  Server.Stop of a datagram server races with the exit path of Serve for the peer table: the
//          goroutine that took the table (closeSessions) is still shutting peers down while the other one
//          finishes (Serve cancels the server's done context, the PARENT of every peer's done context).
//          Whoever took the table, when every Stop call and Serve have returned every on-close callback of
//          every peer connection handed to OnNewConn has run exactly once and every Done() is completed.
//          The interleaving is forced with channels (the Serve goroutine is kept inside the application's
//          OnNewConn of a late peer while Stop starts; one on-close callback waits until Serve has
//          returned): no sleeps.  A wait that gives up too early can only hide a deviation.
//
//   tick   the housekeeping (Conn.CheckExpirations, driven by the harness with a virtual `now`) works on
//          the table of pending message IDs while a confirmable request / ping is waiting: it
//          retransmits, gives the message up when the retransmissions are exhausted or the deadline of
//          its context has passed -- and the waiting call still has to return when its context ends or
//          the connection is closed, and a call made afterwards has to return too.  The housekeeping
//          call itself runs under a watchdog (o_tick).

import (
	"context"
	"errors"
	"fmt"
	"net"
	"sync"
	"sync/atomic"
	"time"

	"github.com/plgd-dev/go-coap/v3/mux"
	coapNet "github.com/plgd-dev/go-coap/v3/net"
	"github.com/plgd-dev/go-coap/v3/options"
	"github.com/plgd-dev/go-coap/v3/udp"
	udpClient "github.com/plgd-dev/go-coap/v3/udp/client"
)

// ---------- Stop against the exit path of Serve ----------
// who: 0 a Stop call takes the peer table (the Serve goroutine is inside OnNewConn of a late peer while Stop
// starts) and Serve returns while that Stop call is still working through the table; 1 Stop is called while
// Serve sits in its read loop: either of them takes the table, the other one finishes first.
type c09SraceCase struct{ who, nstop, npeers, ncb int }

func (k c09SraceCase) desc() string {
	return fmt.Sprintf("srace %d %d %d %d", k.who, k.nstop, k.npeers, k.ncb)
}

type c09SraceObs struct {
	nconn                        int // connections handed to OnNewConn (a datagram that arrives while the server stops may add one)
	cb                           []int64
	done, closers, panic_, serve bool
}

func runC09Srace(k c09SraceCase) (c09SraceObs, error) {
	var o c09SraceObs
	ld, err := coapNet.NewListenUDP("udp4", "127.0.0.1:0")
	if err != nil {
		return o, err
	}
	defer func() { _ = ld.Close() }()

	var mu sync.Mutex
	var counts []*atomic.Int64
	var dones []<-chan struct{}
	newConn := make(chan struct{}, 64)
	serveReturned := make(chan struct{})
	stopsReturned := make(chan struct{})
	admitting := make(chan struct{})    // the Serve goroutine is inside OnNewConn of the late peer
	firstOnClose := make(chan struct{}) // somebody has taken the peer table and runs the first callback
	var firstOnce sync.Once
	total := k.npeers
	if k.who == 0 {
		total++ // the late peer
	}
	nconn := 0
	hold := c09Watchdog / 2
	s := udp.NewServer(
		options.WithErrors(func(error) {}),
		options.WithMux(mux.NewRouter()),
		options.WithPeriodicRunner(func(func(now time.Time) bool) {}),
		options.WithTransmission(4, 1000*time.Hour, 4),
		options.WithOnNewConn(func(cc *udpClient.Conn) {
			mu.Lock()
			nconn++
			n := nconn
			for i := 0; i < k.ncb; i++ {
				cnt := &atomic.Int64{}
				counts = append(counts, cnt)
				cc.AddOnClose(func() {
					// the first callback that runs at all takes a while: the goroutine that did NOT take the
					// table has finished before it returns
					first := false
					firstOnce.Do(func() { first = true; close(firstOnClose) })
					if first {
						select {
						case <-serveReturned:
						case <-stopsReturned:
						case <-time.After(hold):
						}
					}
					cnt.Add(1)
				})
			}
			dones = append(dones, cc.Done())
			mu.Unlock()
			newConn <- struct{}{}
			if k.who == 0 && n == k.npeers+1 {
				// the late peer: the application is slow to admit it; Stop arrives meanwhile
				close(admitting)
				select {
				case <-firstOnClose:
				case <-time.After(hold):
				}
			}
		}),
	)
	serveErr := make(chan error, 1)
	go func() {
		errS := s.Serve(ld)
		close(serveReturned)
		serveErr <- errS
	}()
	var socks []*net.UDPConn
	defer func() {
		for _, p := range socks {
			_ = p.Close()
		}
	}()
	raddr, ok := ld.LocalAddr().(*net.UDPAddr)
	if !ok {
		return o, errors.New("setup: listener address")
	}
	hello := func(i int) error {
		p, errD := net.DialUDP("udp4", nil, raddr)
		if errD != nil {
			return errD
		}
		socks = append(socks, p)
		_, errW := p.Write(encodeWire(1, 1, 0x200+i, []byte{byte(i), 0x56}, nil, nil)) // NON GET, no such resource
		return errW
	}
	waitConn := func() error {
		select {
		case <-newConn:
			return nil
		case errS := <-serveErr:
			return fmt.Errorf("setup: serve ended: %v", errS)
		case <-time.After(10 * time.Second):
			return errors.New("setup: server did not see the peers")
		}
	}
	cleanupStop := func() {
		s.Stop()
		select {
		case <-serveReturned:
		case <-time.After(10 * time.Second):
		}
	}
	for i := 0; i < k.npeers; i++ {
		if err := hello(i); err != nil {
			cleanupStop()
			return o, err
		}
	}
	for i := 0; i < k.npeers; i++ {
		if err := waitConn(); err != nil {
			cleanupStop()
			return o, err
		}
	}
	if k.who == 0 {
		if err := hello(k.npeers); err != nil {
			cleanupStop()
			return o, err
		}
		select {
		case <-admitting:
		case <-time.After(10 * time.Second):
			cleanupStop()
			return o, errors.New("setup: the late peer was not admitted")
		}
	}
	start := make(chan struct{})
	var panics atomic.Int64
	var wg sync.WaitGroup
	for i := 0; i < k.nstop; i++ {
		wg.Add(1)
		go func() {
			defer wg.Done()
			defer func() {
				if recover() != nil {
					panics.Add(1)
				}
			}()
			<-start
			s.Stop()
		}()
	}
	close(start)
	go func() { wg.Wait(); close(stopsReturned) }()
	wd := c09After(2 * c09Watchdog)
	o.closers = c09Within(stopsReturned, wd)
	o.serve = c09Within(serveReturned, wd)
	mu.Lock()
	ds := append([]<-chan struct{}(nil), dones...)
	mu.Unlock()
	o.done = true
	for _, d := range ds {
		if !c09Within(d, wd) {
			o.done = false
		}
	}
	func() { // Stop after everything is down
		defer func() {
			if recover() != nil {
				panics.Add(1)
			}
		}()
		s.Stop()
	}()
	o.panic_ = panics.Load() != 0
	mu.Lock()
	for _, c := range counts {
		o.cb = append(o.cb, c.Load())
	}
	o.nconn = len(dones)
	mu.Unlock()
	if o.nconn < total || len(o.cb) != o.nconn*k.ncb {
		return o, fmt.Errorf("setup: %d connections / %d callbacks registered, expected at least %d connections", o.nconn, len(o.cb), total)
	}
	return o, nil
}

// ---------- housekeeping on the table of pending message IDs ----------
// tr: 0 in-memory udp Conn, 2 udp Conn + real dtls/server.Session over the scripted conn (CheckExpirations
// called directly), 3 udp.Dial over loopback (the function the connection registered with its periodic
// runner is called).
// op: 0 request, 1 observe, 2 observation cancel, 3 ping, 4 confirmable one-way write.
// mode: 0 one tick that retransmits the message; 1 the retransmissions are used up and the next tick gives
// the message up; 2 one tick after the deadline of the request's context (the caller has not noticed yet);
// 3 as 1, the give-up tick is made by two goroutines at once while the trigger fires.
// trig: 0 cancel, 1 deadline, 2 local Close, 4 none: the peer answers (mode 0 only).
type c09TickCase struct{ tr, op, mode, trig int }

func (k c09TickCase) desc() string {
	return fmt.Sprintf("tick %d %d %d %d", k.tr, k.op, k.mode, k.trig)
}

type c09TickObs struct {
	tick, ret bool
	err       int
	late      bool
}

func c09TickApplicable(k c09TickCase) bool {
	if k.op == 3 && k.mode == 2 {
		return false // a ping carries no deadline in the table
	}
	if k.trig == 4 && k.mode != 0 {
		return false
	}
	return true
}

// a context fired by the driver, with a Deadline() of the driver's choice (virtual time)
type c09TickCtx struct {
	done chan struct{}
	once sync.Once
	err  atomic.Value
	dl   time.Time
}

func (c *c09TickCtx) Deadline() (time.Time, bool) { return c.dl, !c.dl.IsZero() }
func (c *c09TickCtx) Done() <-chan struct{}       { return c.done }
func (c *c09TickCtx) Err() error {
	if v := c.err.Load(); v != nil {
		return v.(error)
	}
	return nil
}
func (c *c09TickCtx) Value(interface{}) interface{} { return nil }
func (c *c09TickCtx) fire(err error) {
	c.once.Do(func() { c.err.Store(err); close(c.done) })
}

const c09TickRetransmit = 4 // TransmissionMaxRetransmit of every C09 connection

func runC09Tick(k c09TickCase) (c09TickObs, error) {
	var o c09TickObs
	cfg := c09Cfg{closeSocket: true, limitTotal: 8, limitEndpoint: 8, nstart: 4}
	c, err := newC09Conn(k.tr, cfg)
	if err != nil {
		return o, err
	}
	defer c.cleanup()
	if c.tick == nil {
		return o, errors.New("setup: the transport has no housekeeping entry")
	}
	setup := 10 * time.Second
	nsent := 0
	bg, bgCancel := context.WithCancel(context.Background())
	defer bgCancel()
	var obs c09Obs
	if k.op == 2 {
		type ores struct {
			o   c09Obs
			err error
		}
		ch := make(chan ores, 1)
		go func() { ob, errO := c.observe(bg, "/a"); ch <- ores{ob, errO} }()
		if !c.waitSent(nsent+1, setup) {
			return o, errors.New("setup: observe request not written")
		}
		c.deliver(c.reply(c.sent()[nsent], false))
		nsent++
		select {
		case r := <-ch:
			if r.err != nil {
				return o, fmt.Errorf("setup: observe: %w", r.err)
			}
			obs = r.o
		case <-time.After(setup):
			return o, errors.New("setup: observe did not return")
		}
	}
	// virtual time: the acknowledge timeout of every C09 connection is 1000 h
	base := time.Now()
	ctx := &c09TickCtx{done: make(chan struct{})}
	switch {
	case k.mode == 2:
		ctx.dl = base.Add(500 * time.Hour)
	case k.trig == 1:
		ctx.dl = base.Add(2000000 * time.Hour)
	}
	fire := func() {
		switch k.trig {
		case 0:
			ctx.fire(context.Canceled)
		case 1:
			ctx.fire(context.DeadlineExceeded)
		case 2:
			_ = c.closeFn()
		}
	}
	res := make(chan error, 1)
	go func() {
		defer func() {
			if r := recover(); r != nil {
				res <- fmt.Errorf("panic: %v", r)
			}
		}()
		switch k.op {
		case 0:
			res <- c.get(ctx, "/a")
		case 1:
			_, errO := c.observe(ctx, "/a")
			res <- errO
		case 2:
			res <- obs.Cancel(ctx)
		case 3:
			res <- c.ping(ctx)
		case 4:
			res <- c.write(ctx, true, "/a")
		}
	}()
	if !c.waitSent(nsent+1, setup) {
		return o, errors.New("setup: request not written")
	}
	opFirst := nsent
	nsent++
	// one housekeeping call under the watchdog
	runTick := func(now time.Time) bool {
		ch := make(chan struct{})
		go func() {
			defer close(ch)
			defer func() { _ = recover() }()
			c.tick(now)
		}()
		return c09Within(ch, c09After(c09Watchdog))
	}
	o.tick = true
	early := func() bool {
		select {
		case errE := <-res:
			res <- errE
			return true
		default:
			return false
		}
	}
	far := base.Add(100000 * time.Hour)
	retransmitAll := func() error {
		for i := 0; i < c09TickRetransmit && o.tick; i++ {
			if !runTick(far) {
				o.tick = false
				break
			}
			if !c.waitSent(nsent+1, setup) {
				if early() {
					return errors.New("setup: the operation ended before the housekeeping ran")
				}
				return errors.New("setup: retransmission not written")
			}
			nsent++
		}
		return nil
	}
	switch k.mode {
	case 0:
		if !runTick(base.Add(1001 * time.Hour)) {
			o.tick = false
		} else if !c.waitSent(nsent+1, setup) {
			return o, errors.New("setup: retransmission not written")
		} else {
			nsent++
		}
		fire()
	case 1:
		if errR := retransmitAll(); errR != nil {
			return o, errR
		}
		if o.tick && !runTick(far) { // gives the message up
			o.tick = false
		}
		fire()
	case 2:
		if !runTick(base.Add(600 * time.Hour)) {
			o.tick = false
		}
		fire()
	case 3:
		if errR := retransmitAll(); errR != nil {
			return o, errR
		}
		start := make(chan struct{})
		var wg sync.WaitGroup
		var hung atomic.Int64
		for i := 0; i < 2; i++ {
			wg.Add(1)
			go func() {
				defer wg.Done()
				<-start
				if !runTick(far) {
					hung.Add(1)
				}
			}()
		}
		wg.Add(1)
		go func() { defer wg.Done(); <-start; fire() }()
		close(start)
		wg.Wait()
		if hung.Load() != 0 {
			o.tick = false
		}
	}
	// a call made after the trigger (its own context is already over): it has to come back as well.  It shares the
	// watchdog of the operation under test.
	lctx := &c09TickCtx{done: make(chan struct{})}
	lctx.fire(context.Canceled)
	late := make(chan error, 1)
	go func() {
		defer func() {
			if r := recover(); r != nil {
				late <- fmt.Errorf("panic: %v", r)
			}
		}()
		late <- c.ping(lctx)
	}()
	wd := c09After(c09Watchdog)
	tk := time.NewTicker(500 * time.Microsecond)
	defer tk.Stop()
	answered := opFirst
wait:
	for {
		select {
		case errR := <-res:
			o.ret, o.err = true, c09ErrClass(errR)
			break wait
		case <-wd:
			select {
			case errR := <-res:
				o.ret, o.err = true, c09ErrClass(errR)
			default:
			}
			break wait
		case <-tk.C:
			if k.trig == 4 { // control: a well-behaved peer answers everything outstanding (both copies)
				s := c.sent()
				for answered < len(s) {
					if r := c.reply(s[answered], false); r != nil {
						c.deliver(r)
					}
					answered++
				}
			}
		}
	}
	_, o.late = c09ErrWithin(late, wd)
	return o, nil
}
