package main

// Pool lifecycle tracker (C12): installed through the verif hook in message/pool.
// Records, in one global order, every release / recycle / re-acquire of a pooled
// message together with the application-level hand-over events the harness adds.

import (
	"context"
	"fmt"
	"hash/fnv"
	"runtime"
	"strconv"
	"strings"
	"sync"
	"sync/atomic"
	"time"

	"github.com/plgd-dev/go-coap/v3/message/pool"
)

// activeTracker is non-nil while a C12 run is in progress.
var activeTracker *poolTracker

type lcEvent struct {
	Kind string // Rel Rec Reacq Hold Unhold AppRel Use
	Obj  int
	OK   bool // Reacq: poison intact; Unhold: content unchanged
}

type poolTracker struct {
	relCh map[*pool.Message]chan struct{}
	mu    sync.Mutex
	ids   map[*pool.Message]int
	log   []lcEvent
	holds map[*pool.Message]uint64
	// accept, when non-nil, restricts the pool events that are recorded to the pools of the running
	// scenario (late events of goroutines that an earlier scenario left behind are not part of its trace)
	accept map[*pool.Pool]bool
	// online copy of the ownership automaton, used ONLY to cut a scenario short once the trace already contains
	// a violation (a corrupted pool makes the remaining operations hang until their watchdogs fire); the verdict
	// on every trace is Coq's
	state    map[int]byte // 0 live, 1 held, 2 releasing, 3 freed, 4 pooled
	broken   bool
	nBroken  int
	badCtx   context.Context
	badAbort context.CancelFunc
	panics   []string
	// tagG: record, for every event, the goroutine it was reported from (gids is parallel to log); used by the
	// scenarios that cut the trace into the windows of one goroutine (family E)
	tagG bool
	gids []int64
	nUse int // Use events recorded by Used in the current scenario
	gate atomic.Pointer[useGate]
	// family H: accesses of the library to a message it has handed to a waiting caller (c12_handover.go)
	hgate atomic.Pointer[handoverGate]
}

func (t *poolTracker) setGate(g *useGate) { t.gate.Store(g) }

// curGID returns the id of the calling goroutine (from the header line of its stack trace).
func curGID() int64 {
	var buf [64]byte
	n := runtime.Stack(buf[:], false)
	f := strings.Fields(string(buf[:n]))
	if len(f) >= 2 {
		if v, err := strconv.ParseInt(f[1], 10, 64); err == nil {
			return v
		}
	}
	return -1
}

// note feeds one event to the online automaton (caller holds t.mu).
func (t *poolTracker) note(e lcEvent) {
	st := t.state[e.Obj]
	bad := false
	switch e.Kind {
	case "Rel":
		bad = st == 1 || st == 3 || st == 4
		st = 3
	case "Rec":
		bad = st != 3
		st = 4
	case "Reacq":
		bad = st != 4 || !e.OK
		st = 0
	case "Hold":
		bad = st != 0
		st = 1
	case "Unhold":
		bad = st != 1 || !e.OK
		st = 0
	case "AppRel":
		bad = st >= 2
		st = 2
	case "Use":
		bad = st == 3 || st == 4
	}
	t.state[e.Obj] = st
	if bad && !t.broken {
		t.broken = true
		t.nBroken++
		if t.badAbort != nil {
			t.badAbort()
		}
	}
}

// notePanic records a panic of library code on a receive path of the current scenario (recovered by the
// ProcessReceivedMessage wrapper the harness installs); the scenario is cut short like after a violation.
func (t *poolTracker) notePanic(r interface{}) {
	t.mu.Lock()
	t.panics = append(t.panics, fmt.Sprint(r))
	if !t.broken {
		t.broken = true
		t.nBroken++
		if t.badAbort != nil {
			t.badAbort()
		}
	}
	t.mu.Unlock()
}

func (t *poolTracker) takePanics() []string {
	t.mu.Lock()
	defer t.mu.Unlock()
	p := t.panics
	t.panics = nil
	return p
}

// bad reports whether the current scenario's trace already contains a violation.
func (t *poolTracker) bad() bool {
	t.mu.Lock()
	defer t.mu.Unlock()
	return t.broken
}

// ctx is cancelled as soon as the current scenario's trace contains a violation.
func (t *poolTracker) ctx() context.Context {
	t.mu.Lock()
	defer t.mu.Unlock()
	if t.badCtx == nil {
		return context.Background()
	}
	return t.badCtx
}

func (t *poolTracker) add(e lcEvent) {
	if t.tagG {
		t.gids = append(t.gids, curGID())
	}
	t.log = append(t.log, e)
	t.note(e)
}

// scenario starts a new trace: the log and the numbering are reset; only events of the given pools are
// recorded from now on (no pools = all).
func (t *poolTracker) scenario(pools ...*pool.Pool) {
	t.mu.Lock()
	t.log = nil
	t.gids = nil
	t.tagG = false
	t.ids = map[*pool.Message]int{}
	t.holds = map[*pool.Message]uint64{}
	t.state = map[int]byte{}
	t.broken = false
	t.nUse = 0
	if t.badAbort != nil {
		t.badAbort()
	}
	t.badCtx, t.badAbort = context.WithCancel(context.Background())
	t.accept = nil
	if len(pools) > 0 {
		t.accept = map[*pool.Pool]bool{}
		for _, p := range pools {
			t.accept[p] = true
		}
	}
	t.mu.Unlock()
}

func (t *poolTracker) addPool(p *pool.Pool) {
	t.mu.Lock()
	if t.accept == nil {
		t.accept = map[*pool.Pool]bool{}
	}
	t.accept[p] = true
	t.mu.Unlock()
}

func (t *poolTracker) skip(p *pool.Pool) bool { return t.accept != nil && !t.accept[p] }

// helpers for the history runners shared with other properties: no-ops unless a C12 run is in progress
func trkHold(m *pool.Message) {
	if activeTracker != nil && m != nil {
		activeTracker.Hold(m)
	}
}

func trkUnhold(m *pool.Message) {
	if activeTracker != nil && m != nil {
		activeTracker.Unhold(m)
	}
}

func trkAppRel(m *pool.Message) {
	if activeTracker != nil && m != nil {
		activeTracker.AppRel(m)
	}
}

func newPoolTracker() *poolTracker {
	return &poolTracker{ids: map[*pool.Message]int{}, holds: map[*pool.Message]uint64{}, relCh: map[*pool.Message]chan struct{}{}, state: map[int]byte{}}
}

func (t *poolTracker) id(m *pool.Message) int {
	if v, ok := t.ids[m]; ok {
		return v
	}
	v := len(t.ids) + 1
	t.ids[m] = v
	return v
}

func (t *poolTracker) Released(p *pool.Pool, m *pool.Message) {
	t.mu.Lock()
	if t.skip(p) {
		t.mu.Unlock()
		return
	}
	t.add(lcEvent{"Rel", t.id(m), true})
	if ch, ok := t.relCh[m]; ok {
		close(ch)
		delete(t.relCh, m)
	}
	t.mu.Unlock()
}

// waitReleased blocks until m has been released by somebody (or the timeout passes): used on the
// receive path to let the caller that was handed a hijacked message release it first.
func (t *poolTracker) waitReleased(m *pool.Message, d time.Duration) {
	t.mu.Lock()
	ch, ok := t.relCh[m]
	if !ok {
		ch = make(chan struct{})
		t.relCh[m] = ch
	}
	t.mu.Unlock()
	select {
	case <-ch:
	case <-time.After(d):
		t.mu.Lock()
		delete(t.relCh, m)
		t.mu.Unlock()
	}
}

func (t *poolTracker) Recycled(p *pool.Pool, m *pool.Message) {
	m.VerifPoison()
	t.mu.Lock()
	if t.skip(p) {
		t.mu.Unlock()
		return
	}
	t.add(lcEvent{"Rec", t.id(m), true})
	t.mu.Unlock()
}

func (t *poolTracker) Reacquired(p *pool.Pool, m *pool.Message) {
	ok := m.VerifPoisoned()
	m.VerifUnpoison()
	if h := t.hgate.Load(); h != nil {
		h.reacquired(m)
	}
	t.mu.Lock()
	if t.skip(p) {
		t.mu.Unlock()
		return
	}
	t.add(lcEvent{"Reacq", t.id(m), ok})
	t.mu.Unlock()
}

func msgDigest(m *pool.Message) uint64 {
	h := fnv.New64a()
	fmt.Fprintf(h, "%d|%d|%d|%x|", m.Code(), m.Type(), m.MessageID(), []byte(m.Token()))
	for _, o := range m.Options() {
		fmt.Fprintf(h, "%d=%x;", o.ID, o.Value)
	}
	if m.Body() != nil {
		if b, err := m.ReadBody(); err == nil {
			h.Write(b)
		}
	}
	return h.Sum64()
}

// Hold: the application legitimately holds m from now on (handler entry, response returned, notification callback).
func (t *poolTracker) Hold(m *pool.Message) {
	d := msgDigest(m)
	t.mu.Lock()
	t.holds[m] = d
	t.add(lcEvent{"Hold", t.id(m), true})
	t.mu.Unlock()
}

// Unhold: the application's hold ends (handler returns / just before the application releases it).
func (t *poolTracker) Unhold(m *pool.Message) {
	d := msgDigest(m)
	t.mu.Lock()
	h, held := t.holds[m]
	if !held {
		// no Hold in THIS scenario: the end of a hold that began in an earlier scenario (a handler goroutine
		// that scenario left behind, e.g. one parked by a `hang` operation until its connection went away).
		// It is not part of this trace.
		t.mu.Unlock()
		return
	}
	same := h == d
	delete(t.holds, m)
	t.add(lcEvent{"Unhold", t.id(m), same})
	t.mu.Unlock()
}

// AppRel: the application is about to release m itself.
func (t *poolTracker) AppRel(m *pool.Message) {
	t.mu.Lock()
	t.add(lcEvent{"AppRel", t.id(m), true})
	t.mu.Unlock()
}

// Used (pool.VerifUseTracker): an accessor of m was called. Accesses to a message that is in nobody's hands (between
// ReleaseMessage and the next hand-out by AcquireMessage) are recorded as `Use`; all other accesses are
// not events of the trace (the ownership automaton ignores a Use of a message that is not released: Pool/Proofs.v
// use_not_released_irrelevant), so leaving them out cannot turn a rejected trace into an accepted one or vice versa.
// A message this scenario has not seen released or held is not looked at.
func (t *poolTracker) Used(m *pool.Message) {
	if g := t.gate.Load(); g != nil && g.m == m {
		g.arrive() // family G: the n-th access of a foreign goroutine to this message waits here for the script
	}
	if h := t.hgate.Load(); h != nil {
		h.arrive(m) // family H: an access of the library to a message it has handed over waits for the caller's release
	}
	t.mu.Lock()
	if id, ok := t.ids[m]; ok {
		if st := t.state[id]; st == 3 || st == 4 {
			t.nUse++
			if t.nUse <= c12MaxUse { // a panicking or looping reader must not flood the trace
				t.add(lcEvent{"Use", id, true})
				if dbgC12() && t.nUse <= 3 {
					buf := make([]byte, 4096)
					fmt.Printf("use after release of object %d:\n%s\n", id, buf[:runtime.Stack(buf, false)])
				}
			}
		}
	}
	t.mu.Unlock()
}

// Use: the library reached m through something the harness controls (the body of the application's request was
// read or positioned); recorded whatever the state of m is.
func (t *poolTracker) Use(m *pool.Message) {
	t.mu.Lock()
	t.add(lcEvent{"Use", t.id(m), true})
	t.mu.Unlock()
}

const c12MaxUse = 40

// peek returns the events recorded so far (the slice is only appended to).
func (t *poolTracker) peek() []lcEvent {
	t.mu.Lock()
	defer t.mu.Unlock()
	return t.log
}

func (t *poolTracker) take() []lcEvent {
	t.mu.Lock()
	defer t.mu.Unlock()
	l := t.log
	t.log = nil
	t.gids = nil
	return l
}

// tagGoroutines switches the per-event goroutine tags on (until the next scenario starts).
func (t *poolTracker) tagGoroutines() {
	t.mu.Lock()
	t.tagG = true
	t.gids = make([]int64, len(t.log))
	t.mu.Unlock()
}

// eventsOf returns the events log[from:to) that were reported from goroutine gid.
func (t *poolTracker) eventsOf(gid int64, from, to int) []lcEvent {
	t.mu.Lock()
	defer t.mu.Unlock()
	var r []lcEvent
	for i := from; i < to && i < len(t.log) && i < len(t.gids); i++ {
		if t.gids[i] == gid {
			r = append(r, t.log[i])
		}
	}
	return r
}

func coqLc(evs []lcEvent) string {
	parts := make([]string, len(evs))
	for i, e := range evs {
		switch e.Kind {
		case "Reacq", "Unhold":
			parts[i] = fmt.Sprintf("%s %d %s", e.Kind, e.Obj, coqBool(e.OK))
		default:
			parts[i] = fmt.Sprintf("%s %d", e.Kind, e.Obj)
		}
	}
	return "[" + strings.Join(parts, "; ") + "]"
}
