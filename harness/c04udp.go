package main

// C04 on a datagram transport (hx C04U): block-wise exchanges on the real udp/client.Conn (in-memory session,
// harness/udpmem.go) with the real net/blockwise layer between the connection and the application handler,
// in which datagrams arrive MORE THAN ONCE - the retransmission of a confirmable request whose answer was
// lost, or a datagram duplicated by the network (seeded regression C04-10, notes/C04.md):
//
//   - a small request (GET / POST / PUT / DELETE, CON / NON) whose response is block-wise arrives again
//     (same type, message ID, token): at once, after some of the following blocks were fetched, or after all
//     of them; once or twice;
//   - the requests for the following blocks arrive twice;
//   - the blocks of a Block1 upload (incl. the last one, answered with a small or a block-wise response)
//     arrive twice.
//
// The property (Blockwise/UdpSpec.v, from the property text + RFC 7252 4.5): the copy of a datagram of a
// block-wise exchange is not handed to the application again ("exactly once"). Every datagram's handler call
// and reply are compared with the model of the request path (NoResp/BwModel.v, Properties/C04.v
// C04_udp_copy_absorbed).
//
// The runner is the one of C20's block-wise part (runC20BHistory: one barrier request per datagram - a
// state-change witness, not a sleep; a barrier that does not arrive within 5 s is waited for again with 120 s).

import (
	"fmt"
	"sort"
	"strings"
	"time"

	"github.com/plgd-dev/go-coap/v3/message"
)

func init() { props["C04U"] = runC04U }

type c04uGen struct {
	mid int
}

func (g *c04uGen) nextMID() int {
	g.mid = (g.mid + 7) & 0xffff
	return g.mid
}

// first request of an exchange whose response has respLen bytes
func (g *c04uGen) first(typ, code int, tok []byte, cszx int, block2 bool, reqLen, respLen, salt int) c20bEv {
	o := message.Options{{ID: message.URIPath, Value: []byte("r")}}
	if block2 {
		o = append(o, c20bBlockOpt(message.Block2, cszx, 0, false))
	}
	rc := 69
	if code == 2 {
		rc = 68 // 2.04 Changed with a large body (a POST that returns a representation)
	}
	return c20bEv{Typ: typ, MID: g.nextMID(), Tok: tok, Code: code, Opts: c20bSort(o), PSalt: salt + 1, PLen: reqLen,
		Beh: "resp", RCode: rc, RSalt: salt, RLen: respLen}
}

// request for block k of the response to f
func (g *c04uGen) next(f c20bEv, szx, k int) c20bEv {
	o := message.Options{{ID: message.URIPath, Value: []byte("r")}, c20bBlockOpt(message.Block2, szx, k, false)}
	e := f
	e.MID = g.nextMID()
	e.Opts = c20bSort(o)
	e.PLen = 0
	return e
}

func runC04U(a runArgs) error {
	e := NewEmitter("C04U", "Blockwise.UdpRun")
	e.Preamble = "From GoCoap Require Import Base.Bytes Dedup.Model Dedup.Spec NoResp.BwModel."
	e.ShardSize = 150
	e.Rule = "histories of request datagrams on a fresh udp/client.Conn (in-memory session) with the real net/blockwise layer (configured SZX 16..64, thorough up to 1024) in which datagrams of block-wise exchanges arrive more than once: the first request (GET/POST/PUT/DELETE, CON/NON, with and without a Block2 option) of an exchange with a block-wise response copied at once / after k following blocks / after the last block, once or twice; copies of the following block requests; copies of the blocks of Block1 uploads with a small or block-wise response. Distinct = distinct history; non-trivial = the history contains a copy of a datagram whose first copy was answered with a Block1/Block2 reply (by construction of the families)."
	thorough := a.tier == "thorough"
	firstPatience := 5 * time.Second

	emit := func(szx int, getMID int32, evs []c20bEv, nontriv bool, buckets ...string) {
		txt, ok := runC20BHistory(szx, getMID, evs, firstPatience)
		if !ok {
			e.Hist["slow_rerun"]++
			txt, ok = runC20BHistory(szx, getMID, evs, 120*time.Second)
		}
		if !ok {
			e.Hist["barrier_timeout"]++ // the connection stopped dispatching: reported as observed
		}
		txt = "UHist" + strings.TrimPrefix(txt, "BHist")
		buckets = append(buckets, fmt.Sprintf("szx=%d", szx), fmt.Sprintf("len%02d", len(evs)))
		sort.Strings(buckets)
		e.Add(txt, c20bDesc(szx, getMID, evs), nontriv, buckets...)
	}

	if a.only != "" {
		parts := strings.SplitN(a.only, "|", 2)
		var szx int
		var getMID int32
		fmt.Sscanf(parts[0], "%d,%d", &szx, &getMID)
		var evs []c20bEv
		if len(parts) > 1 {
			for _, s := range strings.Fields(parts[1]) {
				evs = append(evs, parseC20bEv(s))
			}
		}
		emit(szx, getMID, evs, false, "replay")
		return e.Flush(a.out)
	}

	g := &c04uGen{mid: 4000}
	szxs := []int{0, 1, 2}
	if thorough {
		szxs = []int{0, 1, 2, 3, 4, 6}
	}
	typName := []string{"con", "non"}
	tokens := [][]byte{{7}, {1, 2, 3, 4}, {9, 8, 7, 6, 5, 4, 3, 2}}
	nt := 0
	tok := func() []byte { nt++; return tokens[nt%len(tokens)] }

	// (A) the first request of an exchange with a block-wise response arrives again
	for _, szx := range szxs {
		bs := 16 << uint(szx)
		lens := []int{bs, bs + 1, 2*bs + 5, 3 * bs}
		if !thorough && szx > 0 {
			lens = []int{bs, 2*bs + 5}
		}
		for _, typ := range []int{0, 1} {
			for _, code := range []int{1, 2, 3, 4} {
				for li, rl := range lens {
					for _, block2 := range []bool{false, true} {
						if block2 && (code == 2 || code == 3) {
							continue
						}
						if block2 && !thorough && li%2 == 1 {
							continue
						}
						reqLen := 0
						if code == 2 || code == 3 {
							reqLen = 9
						}
						nblocks := (rl + bs - 1) / bs
						// where the copy arrives: after `at` following block requests (0 = at once)
						for at := 0; at <= nblocks-1; at++ {
							if !thorough && at > 0 && at < nblocks-1 && (li+typ+code)%2 == 1 {
								continue
							}
							for _, copies := range []int{1, 2} {
								if copies == 2 && (!thorough && (at != 0 || li != 0)) {
									continue
								}
								f := g.first(typ, code, tok(), szx, block2, reqLen, rl, 10+li)
								evs := []c20bEv{f}
								for k := 1; k <= at; k++ {
									evs = append(evs, g.next(f, szx, k))
								}
								for c := 0; c < copies; c++ {
									evs = append(evs, f)
								}
								// the rest of the transfer, and the copy once more at the very end
								for k := at + 1; k <= nblocks-1; k++ {
									evs = append(evs, g.next(f, szx, k))
								}
								if copies == 1 && at < nblocks-1 {
									evs = append(evs, f)
								}
								emit(szx, 0x1000, evs, true, "family=copy-of-first-request", typName[typ], fmt.Sprintf("code=%d", code),
									fmt.Sprintf("copy-after-%d-blocks", at))
							}
						}
					}
				}
			}
		}
	}

	// (B) every datagram of a download arrives twice (the copy right after the original)
	for _, szx := range szxs {
		bs := 16 << uint(szx)
		for _, typ := range []int{0, 1} {
			for _, code := range []int{1, 2} {
				rl := 2*bs + 3
				reqLen := 0
				if code == 2 {
					reqLen = 5
				}
				f := g.first(typ, code, tok(), szx, false, reqLen, rl, 30)
				evs := []c20bEv{f, f}
				for k := 1; k <= 2; k++ {
					n := g.next(f, szx, k)
					evs = append(evs, n, n)
				}
				emit(szx, 0x7fff, evs, true, "family=every-datagram-twice", typName[typ], fmt.Sprintf("code=%d", code))
			}
		}
	}

	// (C) Block1 uploads whose blocks arrive twice; the response is small or block-wise
	for _, szx := range szxs {
		bs := 16 << uint(szx)
		for _, typ := range []int{0, 1} {
			for _, code := range []int{2, 3} {
				for _, respLen := range []int{4, 2*bs + 1} {
					for _, which := range []int{-1, 0, 1, 2} { // -1: every block twice; k: only block k twice
						if !thorough && which >= 0 && (szx+typ+code+which)%2 == 1 {
							continue
						}
						t := tok()
						var evs []c20bEv
						n := 3
						for i := 0; i < n; i++ {
							last := i == n-1
							o := message.Options{{ID: message.URIPath, Value: []byte("u")}, c20bBlockOpt(message.Block1, szx, i, !last)}
							pl := bs
							if last {
								pl = bs/2 + 1
							}
							rc := 68
							ev := c20bEv{Typ: typ, MID: g.nextMID(), Tok: t, Code: code, Opts: c20bSort(o), PSalt: 40 + i, PLen: pl,
								Beh: "resp", RCode: rc, RSalt: 50, RLen: respLen}
							evs = append(evs, ev)
							if which == -1 || which == i {
								evs = append(evs, ev)
							}
						}
						if respLen > bs {
							// fetch the rest of the block-wise response, then the last upload block once more
							lastUp := evs[len(evs)-1]
							for k := 1; k <= 2; k++ {
								nx := lastUp
								nx.MID = g.nextMID()
								nx.Opts = c20bSort(message.Options{{ID: message.URIPath, Value: []byte("u")}, c20bBlockOpt(message.Block2, szx, k, false)})
								nx.PLen = 0
								evs = append(evs, nx)
							}
							evs = append(evs, lastUp)
						}
						emit(szx, 0, evs, true, "family=upload-blocks-twice", typName[typ], fmt.Sprintf("code=%d", code), fmt.Sprintf("resp-len-%d", respLen/bs))
					}
				}
			}
		}
	}
	return e.Flush(a.out)
}
