package main

// C03, round 5: the library's token source (message.GetToken, the default of every client / server configuration).
//
// Family "source" (TkCase, Token/SourceModel.v): crypto/rand.Reader is replaced, for the duration of the case, by a
// reader that serves the bytes of Token/SourceSpec.v ent_gen (piece k = x_k big-endian, x_(k+1) = a x_k + c mod 2^64:
// all pieces differ) to reads made on a goroutine that is inside message.GetToken (runtime.Callers; any other read
// is passed on to the system's source and not recorded). GetToken is called n times, one call after the other;
// per call the token and the number of bytes it read are recorded.
//
// Family "fresh" (ordinary scripts, event N<k>): a request with a library-chosen token is given up (or stays
// outstanding), k further tokens are taken from the source (requests made elsewhere in the process), a later request
// with a library-chosen token is made and the peer's late response to the FIRST request arrives before the later
// request's own response. k+1 runs over the powers of two (block sizes a pooled source would use) and, when the
// source family saw a token come back after p calls, over p-1 and 2p-1.

import (
	crand "crypto/rand"
	"fmt"
	"io"
	"runtime"
	"strconv"
	"strings"
	"sync"

	"github.com/plgd-dev/go-coap/v3/message"
)

// c3Burn asks the library's token source n times (what n requests made on other connections of the process do)
func c3Burn(n int) {
	for i := 0; i < n; i++ {
		_, _ = message.GetToken()
	}
}

const c3LcgA, c3LcgC = 6364136223846793005, 1442695040888963407

// c3Entropy mirrors Token/SourceSpec.v ent_gen
type c3Entropy struct {
	mu     sync.Mutex
	x      uint64
	buf    []byte
	served int
	cur    int
	orig   io.Reader
}

func c3InGetToken() bool {
	pcs := make([]uintptr, 32)
	n := runtime.Callers(2, pcs)
	frames := runtime.CallersFrames(pcs[:n])
	for {
		f, more := frames.Next()
		if strings.HasSuffix(f.Function, "/message.GetToken") {
			return true
		}
		if !more {
			return false
		}
	}
}

func (e *c3Entropy) Read(p []byte) (int, error) {
	if !c3InGetToken() {
		return e.orig.Read(p)
	}
	e.mu.Lock()
	defer e.mu.Unlock()
	for i := range p {
		if len(e.buf) == 0 {
			x := e.x
			e.buf = []byte{byte(x >> 56), byte(x >> 48), byte(x >> 40), byte(x >> 32), byte(x >> 24), byte(x >> 16), byte(x >> 8), byte(x)}
			e.x = x*c3LcgA + c3LcgC
		}
		p[i] = e.buf[0]
		e.buf = e.buf[1:]
	}
	e.served += len(p)
	e.cur += len(p)
	return len(p), nil
}

func c3TkDesc(salt uint64, n int) string { return fmt.Sprintf("tk|%d:%d", salt, n) }

func parseC3Tk(txt string) (salt uint64, n int, err error) {
	q := strings.Split(strings.TrimPrefix(txt, "tk|"), ":")
	if len(q) != 2 {
		return 0, 0, fmt.Errorf("bad token-source case %q", txt)
	}
	salt, err = strconv.ParseUint(q[0], 10, 64)
	if err != nil {
		return 0, 0, err
	}
	n, err = strconv.Atoi(q[1])
	return salt, n, err
}

// runC3Tk: n calls of message.GetToken on the random bytes ent_gen salt; returns the case and, if a token came
// back, after how many calls (0: all tokens differ)
func runC3Tk(salt uint64, n int) (txt string, period int) {
	e := &c3Entropy{x: salt, orig: crand.Reader}
	crand.Reader = e
	defer func() { crand.Reader = e.orig }()
	items := make([]string, 0, n)
	seen := make(map[string]int, n)
	for i := 0; i < n; i++ {
		e.mu.Lock()
		e.cur = 0
		e.mu.Unlock()
		var tok message.Token
		var err error
		func() {
			defer func() {
				if x := recover(); x != nil {
					err = fmt.Errorf("panic: %v", x)
				}
			}()
			tok, err = message.GetToken()
		}()
		e.mu.Lock()
		cur := e.cur
		e.mu.Unlock()
		if err != nil {
			// the model's source never fails while the supply lasts: recorded as an empty token
			items = append(items, fmt.Sprintf("([], %d%%nat) (* %v *)", cur, err))
			break
		}
		if j, ok := seen[string(tok)]; ok && period == 0 {
			period = i - j
		}
		seen[string(tok)] = i
		items = append(items, fmt.Sprintf("(%s, %d%%nat)", coqBytes(tok), cur))
	}
	e.mu.Lock()
	pieces := (e.served + 7) / 8
	e.mu.Unlock()
	if pieces < n {
		pieces = n
	}
	return fmt.Sprintf("TkCase %d %d%%nat [%s]", salt, pieces, strings.Join(items, "; ")), period
}

// c3GenFresh: requests with library-chosen tokens only; the late response to a request that was given up arrives
// while a request made k+1 tokens later waits
func c3GenFresh(rng *Rng, tr string, variant int, k int) c3Script {
	b := newC3B(rng, tr)
	how := []byte{'g', 'p'}[variant/4%2]
	start := func() int {
		s := b.start(nil, how, true)
		b.add(c3Op{kind: 'S', st: []c3Start{s}})
		return s.cid
	}
	late := func(cid int) {
		kind := byte('c')
		if b.udp() {
			kind = []byte{'n', 'c'}[b.rng.Intn(2)]
		}
		b.resp(cid, kind, b.newSlot())
	}
	giveUp := func(cid int) {
		if b.udp() && b.rng.Chance(50) {
			b.add(c3Op{kind: 'A', cid: cid})
			b.ackd[cid] = true
		}
		b.add(c3Op{kind: 'C', cid: cid})
		delete(b.live, cid)
	}
	switch variant % 4 {
	case 0:
		// given up; k tokens later a request: the late response, then its own
		c0 := start()
		giveUp(c0)
		b.add(c3Op{kind: 'N', num: k})
		c1 := start()
		late(c0)
		b.answer(c1)
	case 1:
		// the same with real requests among the k
		c0 := start()
		giveUp(c0)
		m := 2
		if k < m {
			m = k
		}
		b.add(c3Op{kind: 'N', num: k - m})
		for i := 0; i < m; i++ {
			b.answer(start())
		}
		c1 := start()
		late(c0)
		b.answer(c1)
	case 2:
		// the first request is still outstanding when the later one is made; both are answered
		c0 := start()
		b.add(c3Op{kind: 'N', num: k})
		c1 := start()
		b.answer(c1)
		b.answer(c0)
	default:
		// two requests given up; the late response to the second, then to the first
		c0 := start()
		giveUp(c0)
		c1 := start()
		giveUp(c1)
		b.add(c3Op{kind: 'N', num: k})
		c2 := start()
		late(c1)
		late(c0)
		b.answer(c2)
	}
	return b.sc
}
