package main

// C04, "concurrent transfers with different tokens never mix": tokens that are similar but
// distinct, a wire that queues message objects, and the families built on them.
//
// Token names.  The Coq side names tokens by integers and compares them as whole values.  A name
// below 256 is the one-byte token with that value; the names 300+i are the byte strings of
// c04TokTable: tokens that differ from a one-byte token, or from each other, only in their length,
// by trailing or leading zero bytes, or that are a prefix of one another.  The naming is injective
// (checked by c04CheckTokTable, together with the fact that no two of them have the same CRC-64:
// whatever confusion of two of these tokens is observed, it is not a checksum collision).
// Any other token (the private 8-byte tokens drawn for block-wise notifications) is named
// 1000+k in the order of drawing.

import (
	"bytes"
	"fmt"
	"hash/crc64"
	"runtime"

	"github.com/plgd-dev/go-coap/v3/message"
)

const c04TokBase = 300

var c04TokTable = [][]byte{
	{0x00, 0x00},             // 300
	{0x00, 0x00, 0x00, 0x00}, // 301
	{0x00, 0x00, 0x00, 0x00, 0x00, 0x00, 0x00, 0x00}, // 302
	{0x01, 0x00},       // 303
	{0x01, 0x00, 0x00}, // 304
	{0x01, 0x00, 0x00, 0x00, 0x00, 0x00, 0x00, 0x00}, // 305
	{0x00, 0x01}, // 306
	{0x00, 0x00, 0x00, 0x00, 0x00, 0x00, 0x00, 0x01}, // 307
	{0x01, 0x01},       // 308
	{0x01, 0x00, 0x01}, // 309
	{0x07, 0x00},       // 310
	{0x00, 0x07},       // 311
	{0x00, 0x00, 0x01}, // 312
	{0x01, 0x02, 0x03, 0x04, 0x05, 0x06, 0x07, 0x08}, // 313
	{0x01, 0x02, 0x03, 0x04, 0x05, 0x06, 0x07},       // 314
	{0x01, 0x02, 0x03, 0x04, 0x05, 0x06, 0x07, 0x00}, // 315
}

func c04TokBytes(tok int) message.Token {
	if tok >= c04TokBase && tok < c04TokBase+len(c04TokTable) {
		return append(message.Token(nil), c04TokTable[tok-c04TokBase]...)
	}
	return message.Token{byte(tok)}
}

// c04TokName: the name of a token that a configuration can use (one byte, or in the table)
func c04TokName(t message.Token) (int, bool) {
	if len(t) == 1 {
		return int(t[0]), true
	}
	for i, b := range c04TokTable {
		if bytes.Equal(b, t) {
			return c04TokBase + i, true
		}
	}
	return 0, false
}

func c04TokHex(tok int) string { return fmt.Sprintf("%x", []byte(c04TokBytes(tok))) }

// c04CheckTokTable: the names are injective and no two nameable tokens share their CRC-64 (ISO), computed
// here with hash/crc64 directly, not through message.Token.Hash
func c04CheckTokTable() error {
	tab := crc64.MakeTable(crc64.ISO)
	seen := map[string]int{}
	sums := map[uint64]int{}
	var names []int
	for i := 0; i < 256; i++ {
		names = append(names, i)
	}
	for i := range c04TokTable {
		names = append(names, c04TokBase+i)
	}
	for _, n := range names {
		b := c04TokBytes(n)
		if len(b) == 0 || len(b) > 8 {
			return fmt.Errorf("c04 token table: token %d has length %d", n, len(b))
		}
		if o, dup := seen[string(b)]; dup {
			return fmt.Errorf("c04 token table: names %d and %d denote the same token %x", o, n, []byte(b))
		}
		seen[string(b)] = n
		if back, ok := c04TokName(b); !ok || back != n {
			return fmt.Errorf("c04 token table: name %d does not map back", n)
		}
		h := crc64.Checksum(b, tab)
		if o, dup := sums[h]; dup {
			return fmt.Errorf("c04 token table: tokens %d and %d have the same CRC-64", o, n)
		}
		sums[h] = n
	}
	return nil
}

// pairs of similar-but-distinct tokens (names); the last one is the control (unrelated tokens)
var c04SimilarPairs = [][2]int{
	{1, 303},   // 01 / 01 00: trailing zero byte
	{0, 301},   // 00 / 00 00 00 00
	{1, 304},   // 01 / 01 00 00
	{1, 305},   // 01 / 01 00 x7
	{303, 304}, // 01 00 / 01 00 00
	{0, 300},   // 00 / 00 00
	{0, 302},   // 00 / 00 x8
	{300, 302}, // 00 00 / 00 x8
	{1, 306},   // 01 / 00 01: leading zero byte
	{1, 307},   // 01 / 00 x7 01
	{306, 312}, // 00 01 / 00 00 01
	{1, 308},   // 01 / 01 01: prefix
	{308, 309}, // 01 01 / 01 00 01
	{7, 310},   // 07 / 07 00
	{7, 311},   // 07 / 00 07
	{313, 314}, // 8 bytes / its first 7 bytes
	{313, 315}, // 8 bytes differing in the last byte (00)
	{314, 315}, // 7 bytes / the same followed by 00
	{21, 22},   // control
}

// ---- configurations with several concurrent exchanges ----

var c04ShapeNames = []string{"up", "down", "put", "write", "post-big-response", "notify"}

// c04AddExch appends exchange number j of the given shape (0 Do POST upload of n bytes, 1 Do GET download of n
// bytes, 2 Do PUT n bytes both ways, 3 one-way POST of n bytes, 4 Do POST with a small body and a response of n
// bytes, 5 notification (Observe) of n bytes by B for a token A has an observation registered for)
func c04AddExch(c *c04Cfg, shape, tok, n int) {
	j := len(c.exch)
	etag := j%2 == 0
	switch shape {
	case 0:
		c.exch = append(c.exch, c04Exch{0, 2, tok, j, 40 + 7*j, n, -1, 0})
		c.res = append(c.res, c04Res{100 + 30*j, 5 + j, false, 40 + j})
	case 1:
		c.exch = append(c.exch, c04Exch{0, 1, tok, j, 0, 0, -1, 0})
		c.res = append(c.res, c04Res{100 + 30*j, n, etag, 40 + j})
	case 2:
		c.exch = append(c.exch, c04Exch{0, 3, tok, j, 40 + 7*j, n, -1, 0})
		c.res = append(c.res, c04Res{100 + 30*j, n, etag, 40 + j})
	case 3:
		c.exch = append(c.exch, c04Exch{1, 2, tok, j, 40 + 7*j, n, -1, 0})
		c.res = append(c.res, c04Res{100 + 30*j, 3 + j, false, 40 + j})
	case 4:
		c.exch = append(c.exch, c04Exch{0, 2, tok, j, 40 + 7*j, 5 + j, -1, 0})
		c.res = append(c.res, c04Res{100 + 30*j, n, etag, 40 + j})
	default:
		c.exch = append(c.exch, c04Exch{2, 69, tok, j, 0, 0, 3 + j, 0})
		c.res = append(c.res, c04Res{100 + 30*j, n, true, 40 + j})
		c.outside = append(c.outside, [2]int{tok, j})
	}
}

// c04Staged: exchange i is started, then pre[i] messages are delivered in FIFO order; when all are started
// everything in flight is delivered (oldest first, or newest first if lifo; with rng: any) until the wire is
// empty; the epilogue times out every pending Do and sweeps both sides.
func c04Staged(cfg *c04Cfg, pre []int, lifo bool, rng *Rng) c04Policy {
	i, k, n, epi := 0, -1, 0, 0
	var epilogue []c04Ev
	return func(w *c04World, _ int) (c04Ev, bool) {
		for i < len(cfg.exch) {
			if k < 0 {
				k = 0
				return c04Ev{'S', i}, true
			}
			if i < len(pre) && k < pre[i] && len(w.flight) > 0 {
				k++
				return c04Ev{'D', 0}, true
			}
			i, k = i+1, -1
		}
		if len(w.flight) > 0 && n < 150 {
			n++
			switch {
			case rng != nil:
				return c04Ev{'D', rng.Intn(len(w.flight))}, true
			case lifo:
				return c04Ev{'D', len(w.flight) - 1}, true
			}
			return c04Ev{'D', 0}, true
		}
		if epilogue == nil {
			for j, x := range cfg.exch {
				if x.kind == 0 {
					epilogue = append(epilogue, c04Ev{'T', j})
				}
			}
			epilogue = append(epilogue, c04Ev{'E', 0}, c04Ev{'E', 1})
		}
		if epi < len(epilogue) {
			epi++
			return epilogue[epi-1], true
		}
		return c04Ev{}, false
	}
}

// c04Dead: exchange 0 runs for p deliveries and dies (everything in flight is lost, its Do gives up); then the
// remaining exchanges run to completion in FIFO order. What the endpoints still hold for the dead exchange
// must not leak into the others.
func c04Dead(cfg *c04Cfg, p int) c04Policy {
	stage, k := 0, 0
	var rest c04Policy
	return func(w *c04World, step int) (c04Ev, bool) {
		switch stage {
		case 0:
			stage = 1
			return c04Ev{'S', 0}, true
		case 1:
			if k < p && len(w.flight) > 0 {
				k++
				return c04Ev{'D', 0}, true
			}
			stage = 2
			fallthrough
		case 2:
			if len(w.flight) > 0 {
				return c04Ev{'X', 0}, true
			}
			stage = 3
			if cfg.exch[0].kind == 0 {
				return c04Ev{'T', 0}, true
			}
			fallthrough
		case 3:
			stage = 4
			i, n, epi := 1, 0, 0
			var epilogue []c04Ev
			rest = func(w *c04World, _ int) (c04Ev, bool) {
				if i < len(cfg.exch) {
					i++
					return c04Ev{'S', i - 1}, true
				}
				if len(w.flight) > 0 && n < 150 {
					n++
					return c04Ev{'D', 0}, true
				}
				if epilogue == nil {
					for j, x := range cfg.exch {
						if x.kind == 0 && j > 0 {
							epilogue = append(epilogue, c04Ev{'T', j})
						}
					}
					epilogue = append(epilogue, c04Ev{'E', 0}, c04Ev{'E', 1})
				}
				if epi < len(epilogue) {
					epi++
					return epilogue[epi-1], true
				}
				return c04Ev{}, false
			}
		}
		return rest(w, step)
	}
}

type c04Interleaving struct {
	name string
	pre  []int
	lifo bool
}

// fifo: all started, blocks alternate; lifo: all started, the newest message first; nested: the first block of
// the first transfer, then the whole of the others, then the rest of the first; staggered: the first is two
// messages ahead
var c04Interleavings = []c04Interleaving{
	{"fifo", nil, false},
	{"nested", []int{1}, true},
	{"lifo", nil, true},
	{"staggered", []int{2}, false},
}

// c04SimilarTokensFamily: two (three) transfers whose tokens are similar but distinct run at the same time
// between A and B (one connection). Every transfer must deliver exactly its own body under its own token.
// A runs each token in a BlockWise of its own (cfg.split) - a peer may use such tokens side by side, and the
// go-coap sender is only one possible peer - or, as a go-coap connection does, all of them in one.
func c04SimilarTokensFamily(e *Emitter, thorough bool) {
	emit := func(cfg *c04Cfg, pol c04Policy, pair [2]int, buckets ...string) {
		r := c04Run(cfg, pol)
		b := append([]string{"similar-tokens", fmt.Sprintf("tokens-%s-%s", c04TokHex(pair[0]), c04TokHex(pair[1]))}, buckets...)
		if cfg.split {
			b = append(b, "peer-one-blockwise-per-token")
		}
		c04Emit(e, cfg, r, b...)
	}
	mk := func(split bool, shapes [2]int, pair [2]int, n0, n1 int) *c04Cfg {
		cfg := &c04Cfg{szxA: 0, maxA: 1152, szxB: 0, maxB: 1152, split: split}
		c04AddExch(cfg, shapes[0], pair[0], n0)
		c04AddExch(cfg, shapes[1], pair[1], n1)
		return cfg
	}
	for pi, pair := range c04SimilarPairs {
		for _, sh := range [][2]int{{0, 0}, {1, 1}, {2, 2}, {3, 3}, {0, 1}, {4, 4}} {
			if !thorough && pi >= 8 && sh[0] >= 2 && pi != len(c04SimilarPairs)-1 {
				continue
			}
			name := c04ShapeNames[sh[0]] + "+" + c04ShapeNames[sh[1]]
			for ii, il := range c04Interleavings {
				lens := [][2]int{{40, 40}}
				if ii < 2 && (thorough || pi < 4) {
					lens = append(lens, [2]int{40, 33}, [2]int{33, 48})
				}
				for _, l := range lens {
					cfg := mk(true, sh, pair, l[0], l[1])
					emit(cfg, c04Staged(cfg, il.pre, il.lifo, nil), pair, name, "interleaving-"+il.name)
					if ii < 2 && l[0] == l[1] {
						// the same with both transfers in ONE BlockWise at A
						cfg1 := mk(false, sh, pair, l[0], l[1])
						emit(cfg1, c04Staged(cfg1, il.pre, il.lifo, nil), pair, name, "interleaving-"+il.name)
					}
				}
			}
			// a dead transfer under one token, then a transfer under the similar token (either order)
			if sh[0] == sh[1] && sh[0] != 3 {
				for p := 1; p <= 3; p++ {
					for _, split := range []bool{false, true} {
						if split && !thorough && pi >= 4 {
							continue
						}
						for _, swap := range []bool{false, true} {
							pr := pair
							if swap {
								if !thorough && (p != 1 || split) {
									continue
								}
								pr = [2]int{pair[1], pair[0]}
							}
							cfg := mk(split, sh, pr, 40, 40)
							emit(cfg, c04Dead(cfg, p), pair, name, "dead-then-similar-token")
						}
					}
				}
			}
		}
	}
	// three tokens of one family at a time
	for _, tr := range [][3]int{{1, 303, 304}, {0, 300, 301}, {1, 306, 303}, {313, 314, 315}} {
		for _, sh := range []int{0, 1, 2} {
			for _, il := range c04Interleavings[:2] {
				cfg := &c04Cfg{szxA: 0, maxA: 1152, szxB: 0, maxB: 1152, split: true}
				for _, t := range tr {
					c04AddExch(cfg, sh, t, 40)
				}
				pre := il.pre
				if pre != nil {
					pre = []int{1, 1}
				}
				emit(cfg, c04Staged(cfg, pre, il.lifo, nil), [2]int{tr[0], tr[1]}, "three-"+c04ShapeNames[sh], "interleaving-"+il.name)
			}
		}
	}
}

// c04QueuedWireFamily: the wire queues message OBJECTS (cfg.lazy): what Handle leaves in the response writer
// and what Do hands to its callback is serialised only when the network first touches it, so the block
// messages of two or three transfers (different tokens, one connection) exist side by side before the body of
// any of them is read - as they do when a connection's goroutines have returned from Handle and not yet
// written. Every transfer must still deliver exactly the body supplied under its own token.
func c04QueuedWireFamily(e *Emitter, rng *Rng, thorough bool) {
	emit := func(cfg *c04Cfg, pol c04Policy, buckets ...string) {
		r := c04Run(cfg, pol)
		b := append([]string{"queued-wire"}, buckets...)
		if cfg.split {
			b = append(b, "peer-one-blockwise-per-token")
		}
		c04Emit(e, cfg, r, b...)
	}
	type szxPair struct{ a, b int }
	szxs := []szxPair{{0, 0}, {1, 0}, {0, 2}, {2, 2}}
	if thorough {
		szxs = append(szxs, szxPair{3, 3}, szxPair{6, 6}, szxPair{7, 7})
	}
	shapes := [][]int{{1, 1}, {0, 0}, {2, 2}, {3, 3}, {4, 4}, {5, 5}, {0, 1}, {1, 3}, {1, 1, 1}, {0, 0, 0}, {2, 1, 0}}
	tokSets := [][]int{{21, 22, 23}, {1, 303, 304}}
	for si, sp := range szxs {
		s := c04SzxSize(min2(sp.a, sp.b))
		lens := [][]int{{2*s + s/2, 2*s + s/2, 2*s + s/2}, {2*s + s/2, 2*s + 1, 3 * s}}
		for _, sh := range shapes {
			name := ""
			for i, x := range sh {
				if i > 0 {
					name += "+"
				}
				name += c04ShapeNames[x]
			}
			for ti, toks := range tokSets {
				if ti > 0 && (si > 0 || len(sh) > 2) && !thorough {
					continue
				}
				for li, ls := range lens {
					for ii, il := range c04Interleavings {
						if si > 0 && ii >= 2 && !thorough {
							continue
						}
						if li > 0 && ii >= 2 {
							continue
						}
						for _, split := range []bool{false, true} {
							if split && (ii >= 2 || si > 1) && !thorough {
								continue
							}
							if split && sh[0] == 5 {
								// the private re-fetch of a block-wise notification belongs to the BlockWise that drew its token
								continue
							}
							cfg := &c04Cfg{szxA: sp.a, maxA: 1152, szxB: sp.b, maxB: 1152, lazy: true, split: split}
							for j, x := range sh {
								c04AddExch(cfg, x, toks[j], ls[j])
							}
							pre := il.pre
							if pre != nil && len(sh) > 2 {
								pre = append([]int{pre[0]}, pre[0])
							}
							emit(cfg, c04Staged(cfg, pre, il.lifo, nil), name, "interleaving-"+il.name, fmt.Sprintf("szx-%d-%d", sp.a, sp.b))
						}
					}
				}
			}
		}
	}
	// random orders of delivery, without and with faults
	nrand := 90
	if thorough {
		nrand = 600
	}
	for i := 0; i < nrand; i++ {
		g := rng.Fork()
		szx := []int{0, 0, 0, 1, 2}
		cfg := &c04Cfg{szxA: szx[g.Intn(len(szx))], maxA: 1152, szxB: szx[g.Intn(len(szx))], maxB: 1152, lazy: true, split: g.Chance(30)}
		s := c04SzxSize(min2(cfg.szxA, cfg.szxB))
		toks := tokSets[g.Intn(2)]
		nx := 2 + g.Intn(2)
		for j := 0; j < nx; j++ {
			sh := g.Intn(6)
			if cfg.split && sh == 5 {
				sh = 1
			}
			n := []int{2*s + s/2, 2*s + 1, 3 * s, s + 1, 3*s + 5}[g.Intn(5)]
			c04AddExch(cfg, sh, toks[j], n)
		}
		if g.Chance(50) {
			emit(cfg, c04Staged(cfg, []int{g.Intn(3), g.Intn(3)}, false, g), "random-order", fmt.Sprintf("tokens-%d", nx))
		} else {
			fp := []int{10, 25}[g.Intn(2)]
			emit(cfg, c04Random(cfg, g, fp, false), "random-order-faults", fmt.Sprintf("tokens-%d", nx))
		}
	}
}

// c04WithOneP runs f with a single scheduler context: the goroutines of the harness (one per Handle call, one
// per Do) then run one after the other on the same P, so that the order of events of a queued-wire scenario is
// also the order in which the implementation's per-P resources (sync.Pool caches ...) are used - the outcome
// does not depend on which P a goroutine happens to be scheduled on.
func c04WithOneP(f func()) {
	old := runtime.GOMAXPROCS(1)
	defer runtime.GOMAXPROCS(old)
	f()
}
