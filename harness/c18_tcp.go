package main

// C18 driver "tcp": tcp client Conn (stream session) over a pipe, monitor wired
// by the TCP side of options.WithInactivityMonitor / WithKeepAlive. Received
// messages go through Session.Run/processBuffer; ticks through
// Conn.CheckExpirations -> Session.CheckExpirations.

import (
	"errors"
	"fmt"
	"net"
	"sync"
	"sync/atomic"
	"time"

	"github.com/plgd-dev/go-coap/v3/message"
	"github.com/plgd-dev/go-coap/v3/message/codes"
	"github.com/plgd-dev/go-coap/v3/message/pool"
	coapNet "github.com/plgd-dev/go-coap/v3/net"
	"github.com/plgd-dev/go-coap/v3/net/monitor/inactivity"
	"github.com/plgd-dev/go-coap/v3/net/responsewriter"
	"github.com/plgd-dev/go-coap/v3/options"
	tcpClient "github.com/plgd-dev/go-coap/v3/tcp/client"
)

func init() {
	c18ExtraDrivers["tcp"] = c18NewTCPDriver
	c18ExtraPlanList = append(c18ExtraPlanList, c18Plan{"tcp", true, 200, 14}, c18Plan{"tcp", false, 60, 10})
}

// the connection's end of the pipe: reads come from the pipe, writes are
// recorded synchronously
type c18TCPNetConn struct {
	net.Conn
	mu     sync.Mutex
	frames [][]byte
	pongs  chan struct{}
	port   int // != 0: distinct remote address (several connections in one pkg/connections table)
}

func (c *c18TCPNetConn) RemoteAddr() net.Addr {
	if c.port == 0 {
		return c.Conn.RemoteAddr()
	}
	return &net.TCPAddr{IP: net.IPv4(127, 0, 0, 1), Port: c.port}
}

func (c *c18TCPNetConn) Write(b []byte) (int, error) {
	f := append([]byte(nil), b...)
	c.mu.Lock()
	c.frames = append(c.frames, f)
	c.mu.Unlock()
	if c18TCPCode(f) == 0xE3 {
		c.pongs <- struct{}{}
	}
	return len(b), nil
}

// code byte of a frame without options/payload and length nibble 0
func c18TCPCode(f []byte) byte {
	if len(f) >= 2 && f[0]>>4 == 0 {
		return f[1]
	}
	return 0
}

type c18TCPDriver struct {
	nc       *c18TCPNetConn
	feed     net.Conn
	cc       *tcpClient.Conn
	real     *inactivity.Monitor[*tcpClient.Conn]
	clk      c18Clock
	closeLog atomic.Int64
	tokens   [][]byte // token of ping generation i+1
	runDone  chan struct{}
	peerTok  byte
	sendTok  byte
	before   int64
}

func c18NewTCPDriver(h c18Hist) (c18Driver, error) { return c18NewTCPDriverSh(h, nil) }

// sh != nil: monitor from a factory shared by several connections (c18_multi.go)
func c18NewTCPDriverSh(h c18Hist, sh *c18Shared) (*c18TCPDriver, error) {
	a, b := net.Pipe()
	d := &c18TCPDriver{nc: &c18TCPNetConn{Conn: a, pongs: make(chan struct{}, 64)}, feed: b, runDone: make(chan struct{})}
	cfg := tcpClient.DefaultConfig
	cfg.Errors = func(error) {}
	cfg.DisableTCPSignalMessageCSM = true
	cfg.DisablePeerTCPSignalMessageCSMs = true
	cfg.Handler = func(w *responsewriter.ResponseWriter[*tcpClient.Conn], r *pool.Message) {}
	onInactive := func(cc *tcpClient.Conn) {
		d.closeLog.Add(1)
		inactivity.CloseConn(cc)
	}
	var inner tcpClient.InactivityMonitor
	switch {
	case sh != nil:
		inner = sh.tcpFactory()
	case h.ka:
		options.WithKeepAlive(h.max, time.Duration(h.period*int64(h.max+1)+h.rem), onInactive).TCPClientApply(&cfg)
		inner = cfg.CreateInactivityMonitor()
	default:
		options.WithInactivityMonitor(time.Duration(h.period), onInactive).TCPClientApply(&cfg)
		inner = cfg.CreateInactivityMonitor()
	}
	real, ok := inner.(*inactivity.Monitor[*tcpClient.Conn])
	if !ok {
		return nil, fmt.Errorf("unexpected monitor type %T", inner)
	}
	d.real = real
	d.cc = tcpClient.NewConnWithOpts(coapNet.NewConn(d.nc), &cfg, tcpClient.WithInactivityMonitor(inner))
	if sh != nil {
		sh.closes.Store(d.cc, &d.closeLog)
	}
	go func() { _ = d.cc.Run(); close(d.runDone) }()
	d.clk = c18Clock{0, real.LastActivity()}
	return d, nil
}

func (d *c18TCPDriver) period() int64 { return c18Duration(d.real) }
func (d *c18TCPDriver) cancels() bool { return false }
func (d *c18TCPDriver) close() {
	_ = d.cc.Close()
	_ = d.feed.Close()
	select {
	case <-d.runDone:
	case <-time.After(10 * time.Second):
	}
}

// peerPing feeds a 7.02 Ping of the peer and waits for the Pong the connection
// writes in reply: everything fed before it has been processed by then
func (d *c18TCPDriver) peerPing() error {
	d.peerTok++
	_ = d.feed.SetWriteDeadline(time.Now().Add(10 * time.Second))
	if _, err := d.feed.Write([]byte{0x01, 0xE2, d.peerTok}); err != nil {
		return fmt.Errorf("feed: %w", err)
	}
	select {
	case <-d.nc.pongs:
		return nil
	case <-time.After(10 * time.Second):
		return errors.New("hang: no pong for the peer's ping within 10 s")
	}
}

func (d *c18TCPDriver) pre() {
	d.before = d.closeLog.Load()
	d.nc.mu.Lock()
	d.nc.frames = nil
	d.nc.mu.Unlock()
}

func (d *c18TCPDriver) post() []c18Obs {
	var out []c18Obs
	d.nc.mu.Lock()
	for _, f := range d.nc.frames {
		if c18TCPCode(f) == 0xE2 {
			tkl := int(f[0] & 0x0f)
			d.tokens = append(d.tokens, append([]byte(nil), f[2:2+tkl]...))
			out = append(out, c18Obs{'P', len(d.tokens)})
		}
	}
	d.nc.frames = nil
	d.nc.mu.Unlock()
	for i := d.before; i < d.closeLog.Load(); i++ {
		out = append(out, c18Obs{kind: 'X'})
	}
	return out
}

// send: the local side writes a request (the socket write is synchronous); nobody answers
func (d *c18TCPDriver) send() error {
	d.sendTok++
	m := d.cc.AcquireMessage(d.cc.Context())
	defer d.cc.ReleaseMessage(m)
	m.SetCode(codes.GET)
	m.SetToken(message.Token{0x53, d.sendTok})
	_ = m.SetPath("/s")
	if err := d.cc.WriteMessage(m); err != nil {
		return fmt.Errorf("send: %w", err)
	}
	return nil
}

func (d *c18TCPDriver) apply(e c18Ev) ([]c18Obs, error) {
	closed := d.cc.Context().Err() != nil
	if closed {
		return nil, nil
	}
	d.pre()
	switch e.kind {
	case 'S':
		if err := d.send(); err != nil {
			return nil, err
		}
	case 'R', 'P':
		t0 := time.Now()
		if e.kind == 'P' && e.g >= 1 && e.g <= len(d.tokens) {
			tok := d.tokens[e.g-1]
			f := append([]byte{byte(len(tok)), 0xE3}, tok...)
			_ = d.feed.SetWriteDeadline(time.Now().Add(10 * time.Second))
			if _, err := d.feed.Write(f); err != nil {
				return nil, fmt.Errorf("feed: %w", err)
			}
		}
		if err := d.peerPing(); err != nil {
			return nil, err
		}
		d.clk = d.clk.rebase(e.t, d.real.LastActivity(), t0)
	case 'T':
		d.cc.CheckExpirations(d.clk.at(e.t))
	default:
		return nil, fmt.Errorf("event %s not supported by driver tcp", e.desc())
	}
	return d.post(), nil
}
