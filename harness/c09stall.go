package main

// C09 -- two more families of watchdog runs.
//
// stall: the write of an operation is stalled in the socket because the peer stopped reading (half-open
// stream, socket buffers full) when the trigger fires.  On the scripted net.Conn a stalled Write blocks, as in
// the kernel, until the conn is closed; the witness is the number of writers parked in it.  On a real loopback
// TCP connection whose peer accepts and never reads, a request with a body far beyond the socket buffers
// stalls; the witness is a goroutine in state "IO wait" inside net.Conn.WriteWithContext (these runs are
// sequential, nothing else is alive in the process).  Firing early (before the write is permanently stalled)
// can only hide a deviation, never create one: whenever Close is called it must return, release the writer,
// complete Done and run the callbacks.
//
// rend: the reader loop of a client connection ends because of the peer (input that does not decode, an
// oversized message, the peer closes) while operations are in flight and nobody calls Close -- with the socket
// owned by the session or by the caller (udp.Client(conn) without WithCloseSocket; CloseSocket=false).

import (
	"bytes"
	"context"
	"errors"
	"fmt"
	"net"
	"runtime"
	"strconv"
	"strings"
	"sync"
	"sync/atomic"
	"time"

	"github.com/plgd-dev/go-coap/v3/message"
	"github.com/plgd-dev/go-coap/v3/message/codes"
	"github.com/plgd-dev/go-coap/v3/message/pool"
	"github.com/plgd-dev/go-coap/v3/options"
	"github.com/plgd-dev/go-coap/v3/tcp"
)

// transport 6: tcp.Client over a real loopback TCP connection whose peer accepts and then never reads
func newC09RealTCP(cfg c09Cfg) (*c09Conn, error) {
	ln, err := net.Listen("tcp4", "127.0.0.1:0")
	if err != nil {
		return nil, err
	}
	accepted := make(chan net.Conn, 1)
	go func() {
		p, errA := ln.Accept()
		if errA == nil {
			accepted <- p
		}
	}()
	raw, err := net.Dial("tcp4", ln.Addr().String())
	if err != nil {
		_ = ln.Close()
		return nil, err
	}
	if t, ok := raw.(*net.TCPConn); ok {
		_ = t.SetWriteBuffer(8 * 1024)
	}
	var peer net.Conn
	select {
	case peer = <-accepted:
	case <-time.After(10 * time.Second):
		_ = raw.Close()
		_ = ln.Close()
		return nil, errors.New("setup: peer did not accept")
	}
	if t, ok := peer.(*net.TCPConn); ok {
		_ = t.SetReadBuffer(8 * 1024)
	}
	topts := []tcp.Option{
		options.WithErrors(func(error) {}),
		options.WithPeriodicRunner(func(func(now time.Time) bool) {}),
		options.WithDisableTCPSignalMessageCSM(),
		options.WithDisablePeerTCPSignalMessageCSMs(),
		options.WithLimitClientParallelRequest(cfg.limitTotal),
		options.WithLimitClientEndpointParallelRequest(cfg.limitEndpoint),
	}
	if cfg.closeSocket {
		topts = append(topts, options.WithCloseSocket())
	}
	cc, err := tcp.Client(raw, topts...)
	if err != nil {
		_ = raw.Close()
		_ = peer.Close()
		_ = ln.Close()
		return nil, err
	}
	c := &c09Conn{tr: 6, tcp: true}
	c.get = func(ctx context.Context, path string) error {
		resp, err := cc.Get(ctx, path)
		if err == nil {
			cc.ReleaseMessage(resp)
		}
		return err
	}
	c.observe = func(ctx context.Context, path string) (c09Obs, error) {
		o, err := cc.Observe(ctx, path, func(*pool.Message) {})
		if err != nil {
			return nil, err
		}
		return o, nil
	}
	c.ping = cc.Ping
	c.write = func(ctx context.Context, con bool, path string) error {
		req := cc.AcquireMessage(ctx)
		defer cc.ReleaseMessage(req)
		req.SetCode(codes.POST)
		req.SetToken([]byte{0x77, 0x01})
		_ = req.SetPath(path)
		return cc.WriteMessage(req)
	}
	body := bytes.Repeat([]byte{'x'}, 8<<20)
	c.bigPost = func(ctx context.Context) error {
		resp, err := cc.Post(ctx, "/big", message.AppOctets, bytes.NewReader(body))
		if err == nil {
			cc.ReleaseMessage(resp)
		}
		return err
	}
	c.closeFn = cc.Close
	c.addOn = func(f func()) { cc.AddOnClose(f) }
	c.done = cc.Done
	c.ctxDone = func() <-chan struct{} { return cc.Context().Done() }
	c.sent = func() [][]byte { return nil }
	c.deliver = func(b []byte) { _, _ = peer.Write(b) }
	c.peerClose = func() { _ = peer.Close() } // unread data in its receive queue: the kernel answers with a reset
	c.sockClose = func() { _ = raw.Close() }
	c.stalledW = func() int {
		buf := make([]byte, 1<<20)
		n := runtime.Stack(buf, true)
		cnt := 0
		for _, g := range strings.Split(string(buf[:n]), "\n\n") {
			nl := strings.IndexByte(g, '\n')
			if nl < 0 {
				continue
			}
			if strings.Contains(g[:nl], "[IO wait") && strings.Contains(g, "net.(*Conn).WriteWithContext(") {
				cnt++
			}
		}
		return cnt
	}
	c.cleanup = func() {
		// the socket first (that releases a stalled write whatever net.Conn.Close does), Close is not waited for
		_ = raw.Close()
		go func() { _ = cc.Close() }()
		select {
		case <-cc.Done():
		case <-time.After(10 * time.Second):
		}
		_ = peer.Close()
		_ = ln.Close()
	}
	return c, nil
}

// c09Within: ch is (or becomes) ready before the watchdog expires; an event that has already happened wins
// over an expired watchdog, so the observation does not depend on select's random choice.
func c09Within(ch <-chan struct{}, wd <-chan struct{}) bool {
	select {
	case <-ch:
		return true
	default:
	}
	select {
	case <-ch:
		return true
	case <-wd:
		select {
		case <-ch:
			return true
		default:
		}
		return false
	}
}

func c09ErrWithin(ch <-chan error, wd <-chan struct{}) (error, bool) {
	select {
	case err := <-ch:
		return err, true
	default:
	}
	select {
	case err := <-ch:
		return err, true
	case <-wd:
		select {
		case err := <-ch:
			return err, true
		default:
		}
		return nil, false
	}
}

// ---------- an operation whose write is stalled ----------
// tr: 1 tcp session over the scripted conn, 2 dtls session over the scripted conn, 6 real loopback tcp.
// op: 0 request, 1 observe, 2 observation cancel, 3 ping, 4 one-way write (confirmable on datagram transports),
// 5 non-confirmable one-way write, 6 request with a body far larger than the socket buffers (real tcp).
// trig: 0 cancel, 1 deadline, 2 nclose concurrent local Close calls, 3 the peer closes.
type c09StallCase struct{ tr, op, trig, nclose, ncb int }

func (k c09StallCase) desc() string {
	return fmt.Sprintf("stall %d %d %d %d %d", k.tr, k.op, k.trig, k.nclose, k.ncb)
}

type c09StallObs struct {
	cb                        []int64
	done, closers, panic_, op bool
	err                       int
}

func runC09Stall(k c09StallCase) (c09StallObs, error) {
	var o c09StallObs
	cfg := c09Cfg{closeSocket: true, limitTotal: 16, limitEndpoint: 16, nstart: 8, stall: k.op != 2 && k.tr != 6}
	c, err := newC09Conn(k.tr, cfg)
	if err != nil {
		return o, err
	}
	defer c.cleanup()
	setup := 10 * time.Second
	counts := make([]atomic.Int64, k.ncb)
	for i := 0; i < k.ncb; i++ {
		i := i
		c.addOn(func() { counts[i].Add(1) })
	}
	bg, bgCancel := context.WithCancel(context.Background())
	defer bgCancel()
	var obs c09Obs
	if k.op == 2 { // register the observation while the peer still reads, then the peer stops reading
		type ores struct {
			o   c09Obs
			err error
		}
		ch := make(chan ores, 1)
		go func() { ob, errO := c.observe(bg, "/a"); ch <- ores{ob, errO} }()
		if !c.waitSent(1, setup) {
			return o, errors.New("setup: observe request not written")
		}
		c.deliver(c.reply(c.sent()[0], false))
		select {
		case r := <-ch:
			if r.err != nil {
				return o, fmt.Errorf("setup: observe: %w", r.err)
			}
			obs = r.o
		case <-time.After(setup):
			return o, errors.New("setup: observe did not return")
		}
		c.setStall(true)
	}
	var ctx context.Context
	cancel := func() {}
	var dctx *c09DeadlineCtx
	switch k.trig {
	case 0:
		ctx, cancel = context.WithCancel(context.Background())
	case 1:
		dctx = newC09DeadlineCtx()
		ctx = dctx
	default:
		ctx = context.Background()
	}
	defer cancel()
	res := make(chan error, 1)
	go func() {
		defer func() {
			if r := recover(); r != nil {
				res <- fmt.Errorf("panic: %v", r)
			}
		}()
		switch k.op {
		case 0:
			res <- c.get(ctx, "/a")
		case 1:
			_, errO := c.observe(ctx, "/a")
			res <- errO
		case 2:
			res <- obs.Cancel(ctx)
		case 3:
			res <- c.ping(ctx)
		case 4:
			res <- c.write(ctx, true, "/a")
		case 5:
			res <- c.write(ctx, false, "/a")
		case 6:
			res <- c.bigPost(ctx)
		}
	}()
	// witness: the operation's write is parked in the socket
	deadline := time.Now().Add(setup)
	for c.stalledW() < 1 {
		select {
		case errE := <-res:
			return o, fmt.Errorf("setup: the operation ended (error class %d) before its write stalled", c09ErrClass(errE))
		default:
		}
		if time.Now().After(deadline) {
			return o, errors.New("setup: the write did not stall")
		}
		time.Sleep(300 * time.Microsecond) // polling a state-change witness, bounded by setup
	}
	// one watchdog for everything that has to happen after the trigger
	wd := c09After(c09Watchdog)
	var panics atomic.Int64
	closersDone := make(chan struct{})
	switch k.trig {
	case 0:
		cancel()
		close(closersDone)
	case 1:
		dctx.expire()
		close(closersDone)
	case 2:
		start := make(chan struct{})
		var wg sync.WaitGroup
		for i := 0; i < k.nclose; i++ {
			wg.Add(1)
			go func() {
				defer wg.Done()
				defer func() {
					if recover() != nil {
						panics.Add(1)
					}
				}()
				<-start
				_ = c.closeFn()
			}()
		}
		close(start)
		go func() { wg.Wait(); close(closersDone) }()
	case 3:
		c.peerClose()
		close(closersDone)
	}
	o.closers = c09Within(closersDone, wd)
	if errR, ok := c09ErrWithin(res, wd); ok {
		o.op = true
		o.err = c09ErrClass(errR)
	}
	if k.trig >= 2 {
		o.done = c09Within(c.done(), wd)
	} else {
		select {
		case <-c.done():
			o.done = true
		default:
		}
	}
	o.panic_ = panics.Load() != 0
	for i := range counts {
		o.cb = append(o.cb, counts[i].Load())
	}
	return o, nil
}

// ---------- the reader loop ends because of the peer, nobody calls Close ----------
// tr: 1 tcp session over the scripted conn, 2 dtls session over the scripted conn, 3 udp/server.Session over a
// loopback socket (sock: udp.Dial; !sock: udp.Client over a socket owned by the caller).
// cause: 0 input that does not decode, 1 a message larger than the maximal message size, 2 the peer closes.
type c09ReaderEndCase struct {
	tr    int
	sock  bool
	cause int
	ninfl int
	ncb   int
}

func (k c09ReaderEndCase) desc() string {
	return fmt.Sprintf("rend %d %s %d %d %d", k.tr, coqBool(k.sock), k.cause, k.ninfl, k.ncb)
}

type c09ReaderEndObs struct {
	cb                   []int64
	done, ctx, ops, late bool
}

const c09RendMaxMsg = 256

func runC09ReaderEnd(k c09ReaderEndCase) (c09ReaderEndObs, error) {
	var o c09ReaderEndObs
	cfg := c09Cfg{closeSocket: k.sock, limitTotal: 16, limitEndpoint: 16, nstart: 8, maxMsg: c09RendMaxMsg}
	c, err := newC09Conn(k.tr, cfg)
	if err != nil {
		return o, err
	}
	defer c.cleanup()
	counts := make([]atomic.Int64, k.ncb)
	for i := 0; i < k.ncb; i++ {
		i := i
		c.addOn(func() { counts[i].Add(1) })
	}
	opRes := make(chan error, k.ninfl)
	for i := 0; i < k.ninfl; i++ {
		i := i
		go func() {
			switch i % 3 {
			case 0:
				opRes <- c.get(context.Background(), "/p"+strconv.Itoa(i))
			case 1:
				opRes <- c.ping(context.Background())
			default:
				_, errO := c.observe(context.Background(), "/o"+strconv.Itoa(i))
				opRes <- errO
			}
		}()
	}
	if !c.waitSent(k.ninfl, 10*time.Second) {
		return o, errors.New("setup: in-flight operations not written")
	}
	// what the peer does
	var bad []byte
	switch k.cause {
	case 0:
		if c.tcp {
			bad = []byte{0x09, 0x01, 1, 2, 3, 4, 5, 6, 7, 8, 9} // reserved token length 9: format error
		} else {
			bad = []byte{0xff} // shorter than a header
		}
	case 1:
		m := message.Message{Code: codes.Content, Token: []byte{0x31}, Payload: genBody(3, c09RendMaxMsg+44)}
		if !c.tcp {
			m.Type = message.NonConfirmable
			m.MessageID = 0x7444
		}
		bad = c.encode(m)
	}
	wd := c09After(c09Watchdog)
	stopPeer := make(chan struct{})
	var peerWG sync.WaitGroup
	peerWG.Add(1)
	go func() { // the peer keeps misbehaving (a datagram may be lost) until the run is over
		defer peerWG.Done()
		for n := 0; ; n++ {
			if k.cause == 2 {
				c.peerClose()
			} else if n < 200 {
				c.deliver(bad)
			}
			select {
			case <-stopPeer:
				return
			case <-c.done():
				return
			case <-time.After(20 * time.Millisecond):
			}
		}
	}()
	defer func() { close(stopPeer); peerWG.Wait() }()
	o.done = c09Within(c.done(), wd)
	o.ops = true
	for i := 0; i < k.ninfl; i++ {
		if _, ok := c09ErrWithin(opRes, wd); !ok {
			o.ops = false
		}
	}
	o.ctx = c09Within(c.ctxDone(), wd)
	// a call made after the connection has ended (its own watchdog: the one above may be used up)
	late := make(chan error, 1)
	go func() { late <- c.get(context.Background(), "/late") }()
	_, o.late = c09ErrWithin(late, c09After(c09Watchdog))
	for i := range counts {
		o.cb = append(o.cb, counts[i].Load())
	}
	return o, nil
}
