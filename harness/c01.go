package main

// C01: wire codecs are exact inverses on every well-formed message.
// Generated messages (well-formed ones aimed at the 13/269/65805 boundaries and
// messages outside the preconditions) go through Size, Encode into buffers of
// length 0, 1, size-1, size, size+7 (sentinel behind len), Decode, DecodeHeader
// and the pooled MarshalWithEncoder / UnmarshalWithDecoder.

import (
	"fmt"
	"sort"
	"strconv"
	"strings"
	"time"

	"github.com/plgd-dev/go-coap/v3/message"
	"github.com/plgd-dev/go-coap/v3/message/codes"
)

func init() { props["C01"] = runC01 }

// gOpt: option number, value = z zero bytes followed by genBody(salt, n-z); n is the total length.
type gOpt struct{ id, salt, n, z int }

func (o gOpt) bytes() []byte {
	z := o.z
	if z > o.n {
		z = o.n
	}
	if z < 0 {
		z = 0
	}
	return append(make([]byte, z), genBody(o.salt, o.n-z)...)
}

type gMsg struct {
	coder    int
	tok      []byte
	code     int
	typ      int
	mid      int
	opts     []gOpt
	paySalt  int
	payN     int
	capExtra int // Decode gets capacity len(opts)+capExtra (may be negative)
}

func (g gMsg) desc() string {
	var os []string
	for _, o := range g.opts {
		if o.z > 0 {
			os = append(os, fmt.Sprintf("%d:%d:%d:%d", o.id, o.salt, o.n, o.z))
		} else {
			os = append(os, fmt.Sprintf("%d:%d:%d", o.id, o.salt, o.n))
		}
	}
	return fmt.Sprintf("msg c=%d tok=%x code=%d typ=%d mid=%d opts=%s pay=%d:%d cap=%d", g.coder, g.tok, g.code, g.typ, g.mid, strings.Join(os, ","), g.paySalt, g.payN, g.capExtra)
}

func parseGMsg(desc string) (gMsg, bool) {
	var g gMsg
	f := strings.Fields(desc)
	if len(f) == 0 || f[0] != "msg" {
		return g, false
	}
	for _, kv := range f[1:] {
		p := strings.SplitN(kv, "=", 2)
		if len(p) != 2 {
			continue
		}
		k, v := p[0], p[1]
		atoi := func(s string) int { x, _ := strconv.Atoi(s); return x }
		switch k {
		case "c":
			g.coder = atoi(v)
		case "tok":
			for i := 0; i+1 < len(v); i += 2 {
				b, _ := strconv.ParseUint(v[i:i+2], 16, 8)
				g.tok = append(g.tok, byte(b))
			}
		case "code":
			g.code = atoi(v)
		case "typ":
			g.typ = atoi(v)
		case "mid":
			g.mid = atoi(v)
		case "opts":
			if v != "" {
				for _, o := range strings.Split(v, ",") {
					q := strings.Split(o, ":")
					if len(q) == 3 {
						g.opts = append(g.opts, gOpt{atoi(q[0]), atoi(q[1]), atoi(q[2]), 0})
					} else if len(q) == 4 {
						z := atoi(q[3])
						if z < 0 {
							z = 0
						}
						if z > atoi(q[2]) {
							z = atoi(q[2])
						}
						g.opts = append(g.opts, gOpt{atoi(q[0]), atoi(q[1]), atoi(q[2]), z})
					}
				}
			}
		case "pay":
			q := strings.Split(v, ":")
			if len(q) == 2 {
				g.paySalt, g.payN = atoi(q[0]), atoi(q[1])
			}
		case "cap":
			g.capExtra = atoi(v)
		}
	}
	return g, true
}

func (g gMsg) build() message.Message {
	m := message.Message{Code: codes.Code(g.code), Type: message.Type(g.typ), MessageID: int32(g.mid)}
	if len(g.tok) > 0 {
		m.Token = append([]byte{}, g.tok...)
	}
	m.Options = make(message.Options, 0, len(g.opts))
	for _, o := range g.opts {
		m.Options = append(m.Options, message.Option{ID: message.OptionID(o.id), Value: o.bytes()})
	}
	if g.payN > 0 {
		m.Payload = genBody(g.paySalt, g.payN)
	}
	return m
}

func (g gMsg) coq() string {
	var os []string
	for _, o := range g.opts {
		if o.z > 0 {
			os = append(os, fmt.Sprintf("(%d, zgb %d %d %d)", o.id, o.z, o.salt, o.n))
		} else {
			os = append(os, fmt.Sprintf("(%d, gb %d %d)", o.id, o.salt, o.n))
		}
	}
	return fmt.Sprintf("(mk %s %s [%s] (gb %d %d) %s %s)", coqBytes(g.tok), coqZ(int64(g.code)), strings.Join(os, "; "), g.paySalt, g.payN, coqZ(int64(g.mid)), coqZ(int64(g.typ)))
}

func (g gMsg) totalBytes() int {
	t := g.payN + len(g.tok) + 8
	for _, o := range g.opts {
		t += o.n + 5
	}
	return t
}

// non-trivial by the rule: an extended delta or length, or a payload
func (g gMsg) nontrivial() bool {
	if g.payN > 0 {
		return true
	}
	prev := 0
	for _, o := range g.opts {
		if o.id-prev >= 13 || o.n >= 13 {
			return true
		}
		prev = o.id
	}
	return false
}

func lenClass(n int) string {
	switch {
	case n < 13:
		return "0-12"
	case n < 269:
		return "13-268"
	case n < 65805:
		return "269-65804"
	}
	return "65805+"
}

var c01Lens = []int{0, 1, 2, 7, 8, 11, 12, 13, 14, 15, 100, 255, 256, 267, 268, 269, 270, 300, 1034, 1035}
var c01BigLens = []int{65535, 65803, 65804}
var c01Deltas = []int{0, 0, 1, 1, 2, 3, 5, 12, 13, 14, 15, 20, 100, 255, 256, 268, 269, 270, 271, 1000, 30000}

type regEntry struct {
	id       int
	min, max int
	uint     bool // value format ValueUint
}

func regList(defs map[message.OptionID]message.OptionDef) []regEntry {
	var r []regEntry
	for k, d := range defs {
		r = append(r, regEntry{int(k), int(d.MinLen), int(d.MaxLen), d.ValueFormat == message.ValueUint})
	}
	sort.Slice(r, func(i, j int) bool { return r[i].id < r[j].id })
	return r
}

func signalDefs(code int) map[message.OptionID]message.OptionDef {
	switch codes.Code(code) {
	case codes.CSM:
		return message.TCPSignalCSMOptionDefs
	case codes.Ping, codes.Pong:
		return message.TCPSignalPingPongOptionDefs
	case codes.Release:
		return message.TCPSignalReleaseOptionDefs
	case codes.Abort:
		return message.TCPSignalAbortOptionDefs
	}
	return message.CoapOptionDefs
}

// genMessage draws one message; mostly inside the preconditions.
func genMessage(rng *Rng, coder int, allowBig bool) gMsg {
	g := gMsg{coder: coder}
	// the leading-zero choices come from a side stream (seeded from the state, not advancing it),
	// so the messages drawn from rng are the same as before that dimension existed
	zr := NewRng(rng.s ^ 0x5a5a5a5a)
	// token
	tl := rng.Intn(9)
	switch {
	case rng.Chance(4):
		tl = 9
	case rng.Chance(2):
		tl = rng.Pick([]int{10, 15, 16, 17, 255, 256})
	}
	for i := 0; i < tl; i++ {
		g.tok = append(g.tok, byte(rng.Intn(256)))
	}
	// code
	g.code = rng.Intn(256)
	if coder == 1 && rng.Chance(20) {
		g.code = 225 + rng.Intn(5)
	}
	if rng.Chance(2) {
		g.code = rng.Pick([]int{256, 300, 65535})
	}
	// type / mid
	g.typ = rng.Intn(4)
	g.mid = rng.Intn(65536)
	if rng.Chance(10) {
		g.mid = rng.Pick([]int{0, 1, 255, 256, 65534, 65535})
	}
	if coder == 0 {
		if rng.Chance(8) {
			g.typ = rng.Pick([]int{-1, -2, 4, 5, 7, 16, 64, 128, 255, 256, 257, 1000})
		}
		if rng.Chance(5) {
			g.mid = rng.Pick([]int{-1, -2, 65536, 65537, 1 << 20, -65536, 1<<31 - 1})
		}
	}
	// options
	reg := regList(signalDefs(g.code))
	if coder == 0 {
		reg = regList(message.CoapOptionDefs)
	}
	nopts := rng.Intn(6)
	if rng.Chance(25) {
		nopts = 0
	}
	if rng.Chance(6) {
		nopts = rng.Pick([]int{15, 16, 17, 18, 31, 32, 33, 40})
	}
	bigUsed := false
	cur := 0
	for i := 0; i < nopts; i++ {
		var o gOpt
		o.salt = rng.Intn(251)
		if rng.Chance(45) {
			// a registry number at or after cur, with a legal length
			var cands []regEntry
			for _, e := range reg {
				if e.id >= cur {
					cands = append(cands, e)
				}
			}
			if len(cands) > 0 {
				e := cands[rng.Intn(len(cands))]
				o.id = e.id
				switch rng.Intn(4) {
				case 0:
					o.n = e.min
				case 1:
					o.n = e.max
				default:
					o.n = e.min + rng.Intn(e.max-e.min+1)
				}
				if rng.Chance(6) { // illegal length: outside the preconditions
					if rng.Bool() || e.min == 0 {
						o.n = e.max + 1
					} else {
						o.n = e.min - 1
					}
				}
				// leading zero bytes (a non-minimal uint value is still a legal value): often for
				// uint-format options, now and then for the others
				if o.n > 0 && (e.uint && zr.Chance(40) || zr.Chance(5)) {
					o.z = 1 + zr.Intn(o.n)
					if zr.Chance(50) {
						o.z = 1
					}
				}
				g.opts = append(g.opts, o)
				cur = o.id
				continue
			}
		}
		// unknown (or accidental registry) number by delta
		d := rng.Pick(c01Deltas)
		if rng.Chance(5) {
			d = 65535 - cur
		}
		if cur+d > 65535 {
			d = 0
		}
		o.id = cur + d
		o.n = rng.Pick(c01Lens)
		if allowBig && !bigUsed && rng.Chance(15) {
			o.n = rng.Pick(c01BigLens)
			bigUsed = true
		}
		// keep registry numbers legal unless we asked for an illegal one
		for _, e := range reg {
			if e.id == o.id && (o.n < e.min || o.n > e.max) && !rng.Chance(10) {
				o.n = e.min + rng.Intn(e.max-e.min+1)
			}
		}
		if o.n > 0 && o.n <= 300 && zr.Chance(4) {
			o.z = 1 + zr.Intn(min(o.n, 3))
		}
		g.opts = append(g.opts, o)
		cur = o.id
	}
	if len(g.opts) >= 2 && rng.Chance(3) { // unsorted: outside the preconditions
		i := rng.Intn(len(g.opts) - 1)
		g.opts[i], g.opts[i+1] = g.opts[i+1], g.opts[i]
	}
	if len(g.opts) >= 1 && rng.Chance(2) { // number 0: outside the preconditions
		g.opts[0].id = 0
	}
	// payload
	g.paySalt = rng.Intn(251)
	switch {
	case rng.Chance(25):
		g.payN = 0
	case rng.Chance(50):
		g.payN = rng.Pick(c01Lens)
	default:
		// aim the body length (options + marker + payload) at a stream length-class boundary
		m := g.build()
		ol, _ := m.Options.Marshal(nil)
		targets := []int{2, 12, 13, 14, 268, 269, 270}
		if allowBig && !bigUsed {
			targets = append(targets, 65804, 65805, 65806, 70000)
		}
		t := rng.Pick(targets)
		g.payN = t - ol - 1
		if g.payN < 0 {
			g.payN = 0
		}
		if g.payN > 60000 {
			bigUsed = true
		}
	}
	g.capExtra = rng.Pick([]int{0, 0, 1, 16})
	if rng.Chance(4) && len(g.opts) > 0 {
		g.capExtra = -1
	}
	return g
}

func c01Run(e *Emitter, g gMsg) {
	m := g.build()
	cd := coderOf(g.coder)
	tcp := g.coder == 1
	// Size
	sr := guarded(func() (int, error) { return cd.Size(m) })
	sizeKind, sizeN := codecErr(sr.err), sr.n
	if sr.panicked {
		sizeKind, sizeN = 100, -1
	}
	// Encode into buffers
	var lens []int
	if sizeKind == 0 {
		for _, l := range []int{0, 1, sizeN - 1, sizeN, sizeN + 7} {
			dup := l < 0
			for _, x := range lens {
				if x == l {
					dup = true
				}
			}
			if !dup {
				lens = append(lens, l)
			}
		}
	} else {
		lens = []int{0, 1, 64}
	}
	var bufs []string
	var encoded []byte
	refused := true
	for _, l := range lens {
		arr := make([]byte, l+8)
		for i := range arr {
			arr[i] = sentinelByte
		}
		buf := arr[:l]
		r := guarded(func() (int, error) { return cd.Encode(m, buf) })
		kind, n := codecErr(r.err), r.n
		if r.panicked {
			kind, n = 100, -1
		}
		cs := csum(arr[:l])
		if r.panicked {
			cs = 0
		}
		intact := true
		for _, x := range arr[l:] {
			if x != sentinelByte {
				intact = false
			}
		}
		if kind == 0 || kind == 1 {
			refused = false
		}
		if kind == 0 && l == sizeN && n >= 0 && n <= l {
			encoded = append([]byte{}, arr[:n]...)
		}
		bufs = append(bufs, fmt.Sprintf("(%d, (%d, %s, %d), %s)", l, kind, coqZ(int64(n)), cs, coqBool(intact)))
	}
	// Decode / DecodeHeader of the produced bytes
	capD := len(g.opts) + g.capExtra
	if capD < 0 {
		capD = 0
	}
	dec, hdr := "None", "None"
	decClass := "none"
	if encoded != nil {
		in := append([]byte{}, encoded...)
		r, dm := decodeDirect(g.coder, in, capD)
		dec = "(Some " + dobsText(r, func() string { return projMessage(dm, tcp) }) + ")"
		decClass = dobsClass(r)
		if tcp {
			h, _ := headerObs(in)
			hdr = "(Some " + h + ")"
		}
	}
	// pooled path
	pm := pooledWith(m)
	var pbytes []byte
	pr := guarded(func() (int, error) {
		b, err := pm.MarshalWithEncoder(cd)
		pbytes = b
		return len(b), err
	})
	pmObs := ""
	switch {
	case pr.panicked:
		pmObs = "(100, (-1), 0)"
	case pr.err != nil:
		pmObs = fmt.Sprintf("(%d, (-1), 0)", codecErr(pr.err))
	default:
		pmObs = fmt.Sprintf("(0, %d, %d)", len(pbytes), csum(pbytes))
	}
	pu := "None"
	if !pr.panicked && pr.err == nil {
		fresh := newPooled()
		in := append([]byte{}, pbytes...)
		r := watched(func() (int, error) { return fresh.UnmarshalWithDecoder(cd, in) }, 10*time.Second)
		fc := -1
		if !r.hang && !r.panicked && r.err == nil {
			fc = cap(fresh.Options())
		}
		pu = fmt.Sprintf("(Some (%s, %s))", dobsText(r, func() string { return pooledProj(fresh, tcp) }), coqZ(int64(fc)))
	}
	coq := fmt.Sprintf("Enc %d %s (%d, %s) [%s] %d %s %s %s %s", g.coder, g.coq(), sizeKind, coqZ(int64(sizeN)), strings.Join(bufs, "; "), capD, dec, hdr, pmObs, pu)
	coderName := "udp"
	if tcp {
		coderName = "tcp"
	}
	outcome := "encoded"
	if refused {
		outcome = "refused"
	}
	maxOpt := 0
	for _, o := range g.opts {
		if o.n > maxOpt {
			maxOpt = o.n
		}
	}
	bodyLen := sizeN
	e.AddW(coq, g.desc(), g.nontrivial(), 1+g.totalBytes()/1200,
		coderName, coderName+"-"+outcome, "decode-"+decClass, fmt.Sprintf("tkl-%d", min(len(g.tok), 9)),
		"optlen-"+lenClass(maxOpt), "size-"+lenClass(bodyLen), fmt.Sprintf("nopts-%s", bucketN(len(g.opts))))
}

func bucketN(n int) string {
	switch {
	case n == 0:
		return "0"
	case n <= 5:
		return "1-5"
	case n <= 16:
		return "6-16"
	}
	return "17+"
}

func runC01(a runArgs) error {
	e := NewEmitter("C01", "Codec.RunC01")
	e.ShardSize = 120
	e.Rule = "one case = one generated message through Size, Encode into buffers of length 0/1/size-1/size/size+7 (sentinel behind len), Decode and (stream) DecodeHeader of the produced bytes, pooled MarshalWithEncoder + UnmarshalWithDecoder. Mostly inside the preconditions; option deltas/lengths and body lengths aimed at 12/13/14, 268/269/270, 65804/65805; a separate share outside (token 9+, type/MID out of range, illegal or unsorted options, code > 255). Distinct = distinct message; non-trivial = at least one extended delta or length, or a non-empty payload. Option values may start with zero bytes (uint-format registry options often do; every uint entry of every table with every legal length is covered by hand-picked cases). Second family (strm): the stream coder's frames for 1-8 messages back to back, optionally followed by the first 1-96 bytes of one more frame; Decode, DecodeHeader and pooled UnmarshalWithDecoder at each frame position on all remaining bytes, advancing by the count Decode returns; non-trivial = the buffer holds bytes after its first frame. Third family (ucode): a datagram message is encoded once, then the Code field of a copy of the bytes is overwritten with each code of a list (all 256 for a few shapes, the signalling codes 225-229 plus others for the rest) and the copy goes through Decode and pooled UnmarshalWithDecoder; shapes: options 2 and 4 (ETag) at the value lengths where the RFC 8323 signalling tables differ from the CoAP registry, every registry option at its minimal and maximal length, random messages; non-trivial = the list contains a signalling code and the message has options."
	if a.only != "" {
		if u, ok := parseGUCode(a.only); ok {
			// an aggregate over several code bytes is replayed as one case per code byte,
			// so that the reported failing input names the code
			if cl := u.codeList(); len(cl) > 1 {
				for _, c := range cl {
					c01UCode(e, gUCode{g: u.g, codes: []int{c}})
				}
			} else {
				c01UCode(e, u)
			}
		} else if st, ok := parseGStrm(a.only); ok {
			c01Strm(e, st)
		} else if g, ok := parseGMsg(a.only); ok {
			c01Run(e, g)
		}
		return e.Flush(a.out)
	}
	rng := NewRng(a.seed)
	n := 500
	nbig := 6
	if a.tier == "thorough" {
		n = 3000
		nbig = 40
	}
	// hand-picked corners first
	for coder := 0; coder <= 1; coder++ {
		for tl := 0; tl <= 9; tl++ {
			tok := make([]byte, tl)
			for i := range tok {
				tok[i] = byte(16*tl + i)
			}
			c01Run(e, gMsg{coder: coder, tok: tok, code: 1, typ: tl % 4, mid: 4660 + tl})
		}
		for _, typ := range []int{-1, 0, 1, 2, 3, 4, 5, 255, 256} {
			c01Run(e, gMsg{coder: coder, tok: []byte{1}, code: 69, typ: typ, mid: 7, payN: 3, paySalt: 1})
		}
		for _, mid := range []int{-1, 0, 65535, 65536} {
			c01Run(e, gMsg{coder: coder, code: 2, typ: 1, mid: mid})
		}
		for _, d := range []int{1, 12, 13, 14, 268, 269, 270, 65535} {
			for _, l := range []int{0, 12, 13, 14, 268, 269, 270} {
				c01Run(e, gMsg{coder: coder, code: 3, mid: 1, opts: []gOpt{{d, 5, l, 0}}, capExtra: 1})
			}
		}
		for _, body := range []int{1, 12, 13, 14, 268, 269, 270} {
			c01Run(e, gMsg{coder: coder, code: 69, typ: 2, mid: 99, payN: body - 1, paySalt: 9})
		}
		for code := 0; code < 256; code += 1 {
			if code%8 == coder || code >= 224 && code <= 230 {
				c01Run(e, gMsg{coder: coder, tok: []byte{byte(code)}, code: code, typ: code % 4, mid: code * 257})
			}
		}
	}
	for coder := 0; coder <= 1; coder++ {
		for i := 0; i < n; i++ {
			c01Run(e, genMessage(rng.Fork(), coder, false))
		}
		for i := 0; i < nbig; i++ {
			g := genMessage(rng.Fork(), coder, true)
			c01Run(e, g)
		}
		// the longest expressible option value and the 4-byte stream length class
		c01Run(e, gMsg{coder: coder, code: 2, mid: 5, opts: []gOpt{{65000, 3, 65804, 0}}, capExtra: 1})
		c01Run(e, gMsg{coder: coder, code: 2, mid: 5, opts: []gOpt{{65000, 3, 65805, 0}}, capExtra: 1})
		c01Run(e, gMsg{coder: coder, code: 69, mid: 6, payN: 65804, paySalt: 2})
		c01Run(e, gMsg{coder: coder, code: 69, mid: 6, payN: 65803, paySalt: 2})
		c01Run(e, gMsg{coder: coder, code: 69, mid: 6, payN: 65805, paySalt: 2})
	}
	// uint-format options in non-minimal form; stream buffers holding more than one frame (c01strm.go)
	c01ZeroCorners(e)
	c01StreamCorners(e)
	nstrm := 150
	if a.tier == "thorough" {
		nstrm = 1200
	}
	c01StreamRandom(e, rng.Fork(), nstrm)
	// datagram framing, every code byte (c01code.go)
	c01CodeCorners(e)
	ncode := 40
	if a.tier == "thorough" {
		ncode = 400
	}
	c01CodeRandom(e, rng.Fork(), ncode)
	return e.Flush(a.out)
}
