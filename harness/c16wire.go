package main

// C16 on a real connection: the limits are configured on a udp/client.Conn (in-memory session) and
// the number of requests in flight is counted on the WIRE: requests the connection emitted and the
// scripted peer has not answered yet. Get, Observe and Observation.Cancel (its deregistration
// request) all go out through the connection's own plumbing. Whatever is counted is really in
// flight, so an excess is never an artefact of timing (too short a settle can only hide one).

import (
	"context"
	"fmt"
	"strings"
	"sync"
	"time"

	"github.com/plgd-dev/go-coap/v3/message"
	"github.com/plgd-dev/go-coap/v3/message/pool"
	"github.com/plgd-dev/go-coap/v3/net/client"
)

type c16WireReq struct {
	w    wireMsg
	path int
}

func c16WirePath(w wireMsg) int {
	p, err := w.Opts.Path()
	if err != nil || len(p) < 3 {
		return 0
	}
	return int(p[2] - '0')
}

// settle: poll the output until nothing new was emitted for a few milliseconds
func c16WireSettle(mc *memConn, out *[]c16WireReq) {
	quiet := 0
	for i := 0; i < 400 && quiet < 4; i++ {
		time.Sleep(1500 * time.Microsecond)
		ms := mc.takeOut()
		if len(ms) == 0 {
			quiet++
			continue
		}
		quiet = 0
		for _, m := range ms {
			if m.Bad || m.Code < 1 || m.Code > 4 {
				continue // acknowledgements etc.
			}
			*out = append(*out, c16WireReq{w: m, path: c16WirePath(m)})
		}
	}
}

func c16Wire(e *Emitter, tot, epl int64, seed uint64, nops int) {
	rng := NewRng(seed)
	const nk = 2
	mc := newMemConn(memConnOpts{getMID: 1000, nstart: 64, ackTimeout: time.Hour, maxRetransmit: 2, limitTotal: tot, limitEndpoint: epl})
	defer mc.close()
	var wg sync.WaitGroup
	var mu sync.Mutex
	var observations []client.Observation
	var outstanding []c16WireReq
	var snaps []string
	ops := []string{}
	maxTot, waited := 0, false
	started := 0
	snapshot := func() {
		c16WireSettle(mc, &outstanding)
		cnt := make([]int, nk)
		for _, r := range outstanding {
			if r.path >= 0 && r.path < nk {
				cnt[r.path]++
			}
		}
		if len(outstanding) > maxTot {
			maxTot = len(outstanding)
		}
		if started > len(outstanding) {
			waited = true
		}
		snaps = append(snaps, fmt.Sprintf("[%d;%d]", cnt[0], cnt[1]))
	}
	respond := func(j int) {
		r := outstanding[j]
		outstanding = append(outstanding[:j], outstanding[j+1:]...)
		var opts message.Options
		if obs, err := r.w.Opts.Observe(); err == nil && obs == 0 {
			buf := make([]byte, 4)
			opts, _, _ = opts.SetObserve(buf, 5)
		}
		typ := 2 // piggybacked in the acknowledgement
		if r.w.Typ == 1 {
			typ = 1
		}
		mc.inject(encodeWire(typ, 69, r.w.MID, r.w.Tok, opts, []byte("x")))
		started--
	}
	for i := 0; i < nops; i++ {
		k := rng.Intn(nk)
		path := fmt.Sprintf("/p%d", k)
		switch c := rng.Intn(10); {
		case c < 3:
			ops = append(ops, fmt.Sprintf("G%d", k))
			started++
			wg.Add(1)
			go func() {
				defer wg.Done()
				ctx, cancel := context.WithTimeout(context.Background(), 20*time.Second)
				defer cancel()
				_, _ = mc.cc.Get(ctx, path)
			}()
		case c < 5:
			ops = append(ops, fmt.Sprintf("O%d", k))
			started++
			wg.Add(1)
			go func() {
				defer wg.Done()
				ctx, cancel := context.WithTimeout(context.Background(), 20*time.Second)
				defer cancel()
				o, err := mc.cc.Observe(ctx, path, func(*pool.Message) {})
				if err == nil {
					mu.Lock()
					observations = append(observations, o)
					mu.Unlock()
				}
			}()
		case c < 7:
			mu.Lock()
			var o client.Observation
			if len(observations) > 0 {
				j := rng.Intn(len(observations))
				o = observations[j]
				observations = append(observations[:j], observations[j+1:]...)
			}
			mu.Unlock()
			if o == nil {
				continue
			}
			ops = append(ops, "X")
			started++
			wg.Add(1)
			go func() {
				defer wg.Done()
				ctx, cancel := context.WithTimeout(context.Background(), 20*time.Second)
				defer cancel()
				_ = o.Cancel(ctx)
			}()
		default:
			if len(outstanding) == 0 {
				continue
			}
			ops = append(ops, "R")
			respond(rng.Intn(len(outstanding)))
		}
		snapshot()
	}
	// drain: answer everything until all calls have returned
	done := make(chan struct{})
	go func() { wg.Wait(); close(done) }()
	hung := false
	for deadline := time.Now().Add(25 * time.Second); ; {
		select {
		case <-done:
		default:
			if time.Now().After(deadline) {
				hung = true
				break
			}
			if len(outstanding) > 0 {
				respond(0)
			}
			snapshot()
			continue
		}
		break
	}
	hz := 0
	if hung {
		hz = 1
	}
	coq := fmt.Sprintf("Wire %s %s [%s] %d", coqZ(epl), coqZ(tot), strings.Join(snaps, ";"), hz)
	desc := fmt.Sprintf("wire %d %d %d %d", tot, epl, seed, nops)
	e.AddW(coq, desc, waited, 1+len(snaps)/40, "wire", fmt.Sprintf("wire-max-in-flight=%d", maxTot), fmt.Sprintf("wire-tot=%d", tot), fmt.Sprintf("wire-epl=%d", epl), "wire-ops="+fmt.Sprint(len(ops)/10*10))
}
