package main

// C12, family X: the expiry sweep of net/blockwise (BlockWise.CheckExpirations, the housekeeping of every
// connection) run WHILE the receive path of a block works on the partially received message of that very transfer.
//
// A block-wise transfer towards us is in progress on the family-E connection (a peer uploading with Block1, or the
// blocks of a response to a call of the application): at least one block has been stored, so receivingMessagesCache
// has an entry for the token. The script reads the identity of the entry's message (VerifReceivingMessages) and
// injects the next block with a gate on that message: the receive goroutine is held at its n-th access to it
// (n = 1: `mg.Context()` before the guard semaphore is taken; 2..: getPayloadFromCachedReceivedMessage,
// copyToPayloadFromOffset, the completion of the last block, and - for the last block of an upload - the accesses
// of the application handler the message is lent to). The accessor hook of message/pool is the scheduling point; no
// timing is involved. While the receive goroutine is parked there the script runs the sweep (on a goroutine of its
// own) with a time at which every block-wise entry has expired and waits until it has returned - or, for variants of
// the library whose onExpire callback waits for the entry's guard, until it is parked in the semaphore (stack
// snapshot) - records the lifecycle events the sweep itself produced (a window, by goroutine) and the size of
// receivingMessagesCache, lets the receive goroutine go on and waits for the receive function to return. When the receive path has fewer than n accesses the sweep runs after it has returned (an
// expired transfer nobody is working on).
//
// Emitted per scenario: the complete trace (monitor) and a `Sweep` case: the window must be what the model's sweep
// does (Pool/Model.v step_s SwKeep: nothing goes back to the pool), the cache must be empty after the sweep and stay so.
//
// Descriptor: X#<capacity>|<n>|<b|c>|<script of family E>; b: BlockWise.CheckExpirations alone (window compared),
// c: Conn.CheckExpirations (it also retransmits / expires pending messages: complete trace only).

import (
	"fmt"
	"strconv"
	"strings"
	"time"

	"github.com/plgd-dev/go-coap/v3/message"
	"github.com/plgd-dev/go-coap/v3/message/codes"
	"github.com/plgd-dev/go-coap/v3/message/pool"
)

func c12Sweep(e *c12Out, tr *poolTracker, desc, arg string) {
	f := strings.SplitN(arg, "|", 4)
	if len(f) != 4 {
		return
	}
	capacity, _ := strconv.Atoi(f[0])
	if capacity <= 0 {
		capacity = 256
	}
	n, _ := strconv.Atoi(f[1])
	connSweep := f[2] == "c"
	acts := strings.Fields(f[3])
	last := -1
	for i, a := range acts {
		if st := parseC12eStep(a); st.valid {
			last = i
		}
	}
	p := pool.New(uint32(capacity), 2048)
	tr.scenario(p)
	tr.tagGoroutines()
	c := newC12eConn(tr, p)
	me := curGID()
	reached, swept := false, false
	where := "-"
	total := 0
	entriesSwept, entriesEnd := -1, -1
	var window []lcEvent
	// The sweep runs on a goroutine of its own (its events are told apart by goroutine). With the code as it is it
	// returns at once. A variant whose onExpire callback waits for the guard of the entry would wait for the very
	// receive goroutine the script holds: the script therefore also accepts the witness "the sweeping goroutine is parked
	// in semaphore.(*Weighted).Acquire" (stack snapshot), lets the receive goroutine go on and collects the sweep later.
	var sweepGID int64
	sweepBegin := 0
	sweepDone := make(chan struct{})
	startSweep := func() {
		now := time.Now().Add(2 * time.Hour) // every block-wise entry of this connection is valid for one hour
		sweepBegin = len(tr.peek())
		gidCh := make(chan int64, 1)
		go func() {
			defer close(sweepDone)
			defer func() {
				if r := recover(); r != nil {
					tr.notePanic(r)
				}
			}()
			gidCh <- curGID()
			if connSweep {
				c.cc.CheckExpirations(now)
			} else {
				c.bw.CheckExpirations(now)
			}
		}()
		sweepGID = <-gidCh
		swept = true
	}
	// waitSweep: returned (false) or - when allowed - parked on the guard (true)
	waitSweep := func(allowParked bool) bool {
		deadline := time.Now().Add(c12eWait)
		for {
			select {
			case <-sweepDone:
				return false
			default:
			}
			if allowParked && parkedInFrame(sweepGID, "semaphore.(*Weighted).Acquire") {
				return true
			}
			if time.Now().After(deadline) {
				c.flag("sweep-does-not-return")
				return false
			}
			time.Sleep(200 * time.Microsecond) // polling for a witness, not a delay anything depends on
		}
	}
	sweepParked := false
	for i, a := range acts {
		fl := strings.Split(a, ":")
		tok := 0
		if len(fl) > 1 {
			tok, _ = strconv.Atoi(fl[1])
		}
		switch fl[0] {
		case "get":
			c.start(codes.GET, tok, 0)
		case "post":
			c.start(codes.POST, tok, 5)
		case "put":
			c.start(codes.PUT, tok, 5)
		default:
			st := parseC12eStep(a)
			if !st.valid {
				continue
			}
			var m *pool.Message
			if i == last && n > 0 {
				m = c.bw.VerifReceivingMessages()[message.Token(c12eToken(st.tok)).Hash()]
			}
			if m == nil {
				if _, ok := c.step(st, a); !ok {
					goto out
				}
				break
			}
			// ---- the gated datagram
			if call := c.call; call != nil && !call.acked && call.mid >= 0 && !(st.typ == 'a' && c.lastCon == call.mid) {
				call.acked = true
				if c.lastCon == call.mid {
					c.lastCon = -1
				}
				if _, ok := c.inject(encodeWire(2, 0, call.mid, nil, nil, nil), call.tok, false, "ack"); !ok {
					goto out
				}
			}
			d, _ := c.datagram(st)
			gate := &useGate{m: m, owner: me, n: n, entered: make(chan struct{}), release: make(chan struct{})}
			tr.setGate(gate)
			c.win = c12eWin{}
			func() {
				defer func() {
					if r := recover(); r != nil {
						tr.notePanic(r)
					}
				}()
				if err := c.cc.Process(nil, d); err != nil {
					c.flag("process-error")
				}
			}()
			processed := false
			select {
			case <-gate.entered:
				reached = true
			case <-c.processed:
				processed = true
			case <-time.After(c12eWait):
				c.flag("neither-gate-nor-return")
			}
			if reached {
				// the receive goroutine is at its n-th access to the partially received message: housekeeping comes now
				where = gate.where
				startSweep()
				sweepParked = waitSweep(true)
				_, entriesSwept = c.bw.VerifTableSizes()
				close(gate.release)
				select {
				case <-c.processed:
					processed = true
				case <-time.After(c12eWait):
					c.flag("receive-function-did-not-return")
				}
				if sweepParked {
					waitSweep(false)
				}
			}
			tr.setGate(nil)
			total = gate.total()
			_ = processed
			c.takeOut()
			if c.call != nil {
				select {
				case <-c.call.ret:
					c.finish() // the call is over: the application uses and releases what it got
				default:
				}
			}
		}
		if len(c.flags) > 0 {
			break
		}
	}
out:
	tr.setGate(nil)
	if !swept && len(c.flags) == 0 {
		startSweep() // the transfer has expired while nobody works on it
		waitSweep(false)
		_, entriesSwept = c.bw.VerifTableSizes()
	}
	if swept {
		window = tr.eventsOf(sweepGID, sweepBegin, len(tr.peek()))
	}
	_, entriesEnd = c.bw.VerifTableSizes()
	c.finish()
	c.close()
	evs := tr.take()
	if len(c.flags) > 0 {
		if dbgC12() {
			fmt.Println("X flags", desc, c.flags)
		}
		e.AddW(fmt.Sprintf("Hung %s", coqLc(c12Cut(evs))), desc, false, 1+len(evs)/60, "X:hang")
		return
	}
	outcome := "X:sweep-after-receive-path"
	if reached {
		outcome = "X:sweep-while-receive-path-held"
	}
	if sweepParked {
		outcome = "X:sweep-parked-on-the-guard"
	}
	c12Emit(e, desc, capacity, evs, "X", outcome)
	if connSweep {
		return
	}
	e.AddW(fmt.Sprintf("Sweep %d %s %d %d %s %s", n, coqBool(reached), entriesSwept, entriesEnd, coqLc(window), coqLc(c12Cut(evs))), desc, reached, 1+len(evs)/60,
		"X:sweep", "X:held-in:"+where, fmt.Sprintf("X:accesses-of-receive-path=%d", total))
}

var c12SweepFixed = []string{
	"u:3:0:1:0:16:c u:3:1:1:0:16:c u:3:2:0:0:4:c",        // the peer uploads: sweep during the LAST block (message lent to the handler)
	"get:1 r:1:0:1:0:16:a r:1:1:0:0:5:c",                 // a response in blocks: sweep during the last block (message handed to the caller of Do)
	"u:3:0:1:0:16:c u:3:1:1:0:16:n",                      // ... during a middle block (2.31 goes out)
	"get:1 r:1:0:1:0:16:a r:1:1:1:0:16:a",                // ... (the request for the next block goes out)
	"post:1 r:1:0:1:7:16:a r:1:1:0:7:3:a",                // POST answered in blocks, last block
	"u:3:0:1:1:16:c u:3:1:1:2:16:c",                      // the ETag changes in the gated block (the reassembled part is dropped)
	"get:1 r:1:0:1:0:16:a r:1:2:1:0:16:a",                // a block with the wrong number
	"put:1 r:1:0:1:4:16:a r:1:1:1:4:16:c r:1:2:0:4:2:n",  // three blocks
	"u:3:0:1:0:16:c u:3:1:1:0:16:c u:3:1:1:0:16:c",       // a repeated block
	"post:1 u:1:0:1:0:16:c r:1:0:1:0:16:a u:1:1:0:0:2:c", // upload of the peer with the token of our call
}

func c12SweepDescriptors(rng *Rng, thorough bool) []string {
	var ds []string
	for i, s := range c12SweepFixed {
		for n := 1; n <= 16; n++ {
			if !thorough && i >= 2 && n%4 != i%4 && n > 1 {
				continue // quick tier: every position for the first two scripts, every fourth (and the first) for the others
			}
			mode := "b"
			if n%5 == 0 {
				mode = "c"
			}
			ds = append(ds, fmt.Sprintf("X#%d|%d|%s|%s", []int{256, 4}[(i+n)%2], n, mode, s))
		}
	}
	nX := 8
	if thorough {
		nX = 120
	}
	for i := 0; i < nX; i++ {
		var acts []string
		blocks := 2 + rng.Intn(3)
		upto := 1 + rng.Intn(blocks-1) // the gated block
		typ := func() string { return []string{"a", "c", "n"}[rng.Intn(3)] }
		if rng.Bool() {
			for j := 0; j <= upto; j++ {
				more, plen := j < blocks-1, 16
				if !more {
					plen = 1 + rng.Intn(16)
				}
				acts = append(acts, fmt.Sprintf("u:3:%d:%d:0:%d:%s", j, c12b2i(more), plen, []string{"c", "n"}[rng.Intn(2)]))
			}
		} else {
			acts = append(acts, []string{"get:1", "post:1", "put:1"}[rng.Intn(3)])
			for j := 0; j <= upto; j++ {
				more, plen := j < blocks-1, 16
				if !more {
					plen = 1 + rng.Intn(16)
				}
				acts = append(acts, fmt.Sprintf("r:1:%d:%d:3:%d:%s", j, c12b2i(more), plen, typ()))
			}
		}
		ds = append(ds, fmt.Sprintf("X#%d|%d|%s|%s", rng.Pick([]int{256, 8, 2}), 1+rng.Intn(14), []string{"b", "b", "c"}[rng.Intn(3)], strings.Join(acts, " ")))
	}
	return ds
}
