package main

// C18 families "mudp", "mtcp", "msrv": SEVERAL connections whose inactivity
// monitors all come from ONE application of options.WithKeepAlive /
// WithInactivityMonitor, i.e. from one cfg.CreateInactivityMonitor factory:
//
//   mudp  n udp client Conns over in-memory sessions, monitors from one UDPClientApply
//   mtcp  n tcp client Conns over pipes, monitors from one TCPClientApply
//   msrv  the real udp server with n peers (getOrCreateConn calls the factory per peer)
//
// A housekeeping round ticks all of them with the same `now` (pkg/connections
// CheckExpirations for mudp/mtcp, the function the server gives to its
// PeriodicRunner for msrv). The property is a statement about each connection:
// the observed trace of connection i (its own events and what ITS monitor did)
// has to pass the single-connection judge; the model (Monitor.Model.mstep) keeps
// one independent state per connection, as options/commonOptions.go does.
//
// Virtual clock: one global virtual time for all connections. Activity stamps
// live at base + (virtual time): after every event at virtual time t each stamp
// that the event changed (the code read the real clock in Monitor.Notify) is
// rewritten to base + t (reflect+unsafe on the private atomic.Value, as in
// c18_srv.go); a tick at virtual tau is CheckExpirations(base + tau). Nothing
// depends on how much real time passes between or inside events. For msrv base
// lies 1000 h in the future of the real clock, so the real-clock look-ahead check
// of getConn (covered by the single-connection driver srv) never fires.

import (
	"context"
	"errors"
	"fmt"
	"net"
	"reflect"
	"strconv"
	"strings"
	"sync"
	"sync/atomic"
	"time"
	"unsafe"

	"github.com/plgd-dev/go-coap/v3/message"
	"github.com/plgd-dev/go-coap/v3/message/codes"
	"github.com/plgd-dev/go-coap/v3/message/pool"
	coapNet "github.com/plgd-dev/go-coap/v3/net"
	"github.com/plgd-dev/go-coap/v3/net/monitor/inactivity"
	"github.com/plgd-dev/go-coap/v3/net/responsewriter"
	"github.com/plgd-dev/go-coap/v3/options"
	"github.com/plgd-dev/go-coap/v3/options/config"
	"github.com/plgd-dev/go-coap/v3/pkg/connections"
	tcpClient "github.com/plgd-dev/go-coap/v3/tcp/client"
	"github.com/plgd-dev/go-coap/v3/udp"
	udpClient "github.com/plgd-dev/go-coap/v3/udp/client"
	udpCoder "github.com/plgd-dev/go-coap/v3/udp/coder"
	udpServer "github.com/plgd-dev/go-coap/v3/udp/server"
)

func init() {
	c18MRun = c18MRunAll
	c18MOnly = c18MOnlyCase
}

// ---- one option value, many connections -------------------------------------

type c18Shared struct {
	udpFactory func() udpClient.InactivityMonitor
	tcpFactory func() tcpClient.InactivityMonitor
	closes     sync.Map // connection -> *atomic.Int64: closes by the monitor callback
}

func (sh *c18Shared) note(cc interface{}) {
	if v, ok := sh.closes.Load(cc); ok {
		v.(*atomic.Int64).Add(1)
	}
}

func (sh *c18Shared) udpOnInactive(cc *udpClient.Conn) { sh.note(cc); inactivity.CloseConn(cc) }
func (sh *c18Shared) tcpOnInactive(cc *tcpClient.Conn) { sh.note(cc); inactivity.CloseConn(cc) }

func c18NewShared(h c18Hist) *c18Shared {
	sh := &c18Shared{}
	timeout := time.Duration(h.period*int64(h.max+1) + h.rem)
	ucfg := udpClient.DefaultConfig
	tcfg := tcpClient.DefaultConfig
	if h.ka {
		options.WithKeepAlive(h.max, timeout, sh.udpOnInactive).UDPClientApply(&ucfg)
		options.WithKeepAlive(h.max, timeout, sh.tcpOnInactive).TCPClientApply(&tcfg)
	} else {
		options.WithInactivityMonitor(time.Duration(h.period), sh.udpOnInactive).UDPClientApply(&ucfg)
		options.WithInactivityMonitor(time.Duration(h.period), sh.tcpOnInactive).TCPClientApply(&tcfg)
	}
	sh.udpFactory = ucfg.CreateInactivityMonitor
	sh.tcpFactory = tcfg.CreateInactivityMonitor
	return sh
}

// ---- stamps -------------------------------------------------------------------

type c18Stamped interface{ LastActivity() time.Time }

// c18SetStamp overwrites Monitor.lastActivity of a *inactivity.Monitor[C]
func c18SetStamp(mon interface{}, t time.Time) {
	f := reflect.ValueOf(mon).Elem().FieldByName("lastActivity")
	(*atomic.Value)(unsafe.Pointer(f.UnsafeAddr())).Store(t)
}

type c18Stamps struct {
	base time.Time
	mons []c18Stamped
	want []time.Time
}

func c18NewStamps(base time.Time, mons []c18Stamped) *c18Stamps {
	s := &c18Stamps{base: base, mons: mons, want: make([]time.Time, len(mons))}
	for i, m := range mons {
		c18SetStamp(m, base)
		s.want[i] = base
	}
	return s
}

func (s *c18Stamps) at(t int64) time.Time { return s.base.Add(time.Duration(t)) }

// fix: the event at virtual time t is over; every stamp it changed becomes base + t
func (s *c18Stamps) fix(t int64) {
	for i, m := range s.mons {
		if !m.LastActivity().Equal(s.want[i]) {
			w := s.at(t)
			c18SetStamp(m, w)
			s.want[i] = w
		}
	}
}

// ---- drivers --------------------------------------------------------------------

type c18MultiDriver interface {
	period() int64
	// one event of connection i (R, P, S, or T = a tick of that connection alone)
	applyConn(i int, e c18Ev) ([]c18Obs, error)
	// one housekeeping round over all connections at virtual time t; out[i] = what the monitor of connection i did
	round(t int64, ok bool) ([][]c18Obs, error)
	close()
}

// a single-connection driver usable as a member of a group
type c18Sub interface {
	apply(e c18Ev) ([]c18Obs, error)
	pre()
	post() []c18Obs
	setFail(fail bool)
	setClock(c c18Clock)
	stamped() c18Stamped
	connection() connections.Connection
	period() int64
	close()
}

func (d *c18UDPDriver) setClock(c c18Clock)                { d.clk = c }
func (d *c18UDPDriver) stamped() c18Stamped                { return d.real }
func (d *c18UDPDriver) connection() connections.Connection { return d.cc }

func (d *c18TCPDriver) setClock(c c18Clock)                { d.clk = c }
func (d *c18TCPDriver) stamped() c18Stamped                { return d.real }
func (d *c18TCPDriver) connection() connections.Connection { return d.cc }
func (d *c18TCPDriver) setFail(bool)                       {}

type c18MultiConns struct {
	subs   []c18Sub
	stamps *c18Stamps
	conns  *connections.Connections
}

func c18NewMultiConns(h c18MHist) (c18MultiDriver, error) {
	sh := c18NewShared(h.cfg())
	m := &c18MultiConns{conns: connections.New()}
	var mons []c18Stamped
	for i := 0; i < h.n; i++ {
		var sub c18Sub
		var err error
		if h.drv == "mtcp" {
			var d *c18TCPDriver
			d, err = c18NewTCPDriverSh(h.cfg(), sh)
			if err == nil {
				d.nc.port = 6000 + i
				sub = d
			}
		} else {
			var d *c18UDPDriver
			d, err = c18NewUDPDriverSh(h.cfg(), sh, 1+i)
			sub = d
		}
		if err != nil {
			m.close()
			return nil, err
		}
		m.subs = append(m.subs, sub)
		mons = append(mons, sub.stamped())
	}
	for _, s := range m.subs {
		m.conns.Store(s.connection())
	}
	m.stamps = c18NewStamps(time.Now(), mons)
	return m, nil
}

func (m *c18MultiConns) period() int64 { return m.subs[0].period() }
func (m *c18MultiConns) close() {
	for _, s := range m.subs {
		s.close()
	}
}

func (m *c18MultiConns) applyConn(i int, e c18Ev) ([]c18Obs, error) {
	s := m.subs[i]
	s.setClock(c18Clock{0, m.stamps.base})
	o, err := s.apply(e)
	m.stamps.fix(e.t)
	s.setClock(c18Clock{0, m.stamps.base})
	return o, err
}

func (m *c18MultiConns) round(t int64, ok bool) ([][]c18Obs, error) {
	for _, s := range m.subs {
		s.setFail(!ok)
		s.pre()
	}
	m.conns.CheckExpirations(m.stamps.at(t))
	out := make([][]c18Obs, len(m.subs))
	for i, s := range m.subs {
		out[i] = s.post()
	}
	m.stamps.fix(t)
	return out, nil
}

// the real udp server with n peers
type c18MSrv struct {
	srv      *udpServer.Server
	ld       *coapNet.UDPConn
	peers    []*net.UDPConn
	addrs    []*net.UDPAddr
	ccs      []*udpClient.Conn
	closeLog []*atomic.Int64
	mids     [][]int32 // per connection: message id of ping generation g (index g-1)
	tick     func(now time.Time) bool
	stamps   *c18Stamps
	serveErr chan error
	done     chan struct{}
	per      int64
	peerMid  int32
	sendTok  int
}

func c18NewMSrv(h c18MHist) (c18MultiDriver, error) {
	d := &c18MSrv{serveErr: make(chan error, 1), done: make(chan struct{}, 64), peerMid: 31000}
	sh := &c18Shared{}
	ld, err := coapNet.NewListenUDP("udp4", "127.0.0.1:0")
	if err != nil {
		return nil, err
	}
	d.ld = ld
	got := make(chan func(now time.Time) bool, 1)
	opts := []udpServer.Option{
		options.WithErrors(func(error) {}),
		options.WithPeriodicRunner(func(f func(now time.Time) bool) { got <- f }),
		options.WithTransmission(1, 100000*time.Hour, 4), // ticks run 1000 h ahead of the real clock: no retransmission
		options.WithBlockwise(false, 6, time.Second),
		options.WithHandlerFunc(func(w *responsewriter.ResponseWriter[*udpClient.Conn], r *pool.Message) {}),
		options.WithProcessReceivedMessageFunc[*udpClient.Conn](func(req *pool.Message, cc *udpClient.Conn, handler config.HandlerFunc[*udpClient.Conn]) {
			cc.ProcessReceivedMessageWithHandler(req, handler)
			d.done <- struct{}{}
		}),
	}
	if h.ka {
		opts = append(opts, options.WithKeepAlive(h.max, time.Duration(h.period*int64(h.max+1)+h.rem), sh.udpOnInactive))
	} else {
		opts = append(opts, options.WithInactivityMonitor(time.Duration(h.period), sh.udpOnInactive))
	}
	d.srv = udp.NewServer(opts...)
	go func() { d.serveErr <- d.srv.Serve(ld) }()
	select {
	case d.tick = <-got:
	case err := <-d.serveErr:
		_ = ld.Close()
		return nil, fmt.Errorf("serve: %w", err)
	case <-time.After(30 * time.Second):
		return nil, errors.New("hang: server did not start")
	}
	var mons []c18Stamped
	for i := 0; i < h.n; i++ {
		peer, err := net.ListenUDP("udp4", &net.UDPAddr{IP: net.IPv4(127, 0, 0, 1)})
		if err != nil {
			d.close()
			return nil, err
		}
		d.peers = append(d.peers, peer)
		addr := peer.LocalAddr().(*net.UDPAddr)
		d.addrs = append(d.addrs, addr)
		cc, err := d.srv.NewConn(addr)
		if err != nil {
			d.close()
			return nil, err
		}
		real, ok := cc.InactivityMonitor().(*inactivity.Monitor[*udpClient.Conn])
		if !ok {
			d.close()
			return nil, fmt.Errorf("unexpected monitor type %T", cc.InactivityMonitor())
		}
		cl := &atomic.Int64{}
		sh.closes.Store(cc, cl)
		d.ccs = append(d.ccs, cc)
		d.closeLog = append(d.closeLog, cl)
		d.mids = append(d.mids, nil)
		mons = append(mons, real)
		d.per = c18Duration(real)
	}
	d.stamps = c18NewStamps(time.Now().Add(1000*time.Hour), mons)
	return d, nil
}

func (d *c18MSrv) period() int64 { return d.per }
func (d *c18MSrv) close() {
	d.srv.Stop()
	select {
	case <-d.serveErr:
	case <-time.After(10 * time.Second):
	}
	for _, p := range d.peers {
		_ = p.Close()
	}
	_ = d.ld.Close()
}

// drain reads what the server wrote to peer i up to a sentinel written through the same socket afterwards
func (d *c18MSrv) drain(i int) ([]c18Obs, error) {
	d.peerMid++
	sent := []byte{0x70, 0xff, byte(d.peerMid >> 8), byte(d.peerMid)} // not a CoAP message the library would send
	if err := d.ld.WriteWithContext(context.Background(), d.addrs[i], sent); err != nil {
		return nil, err
	}
	var out []c18Obs
	buf := make([]byte, 2048)
	for {
		_ = d.peers[i].SetReadDeadline(time.Now().Add(60 * time.Second))
		n, _, err := d.peers[i].ReadFromUDP(buf)
		if err != nil {
			return nil, fmt.Errorf("hang: sentinel not received: %w", err)
		}
		if n == 4 && buf[0] == 0x70 && buf[1] == 0xff && buf[2] == sent[2] && buf[3] == sent[3] {
			return out, nil
		}
		var m message.Message
		if _, err := udpCoder.DefaultCoder.Decode(buf[:n], &m); err != nil {
			continue
		}
		if m.Type == message.Confirmable && m.Code == codes.Empty {
			d.mids[i] = append(d.mids[i], m.MessageID)
			out = append(out, c18Obs{'P', len(d.mids[i])})
		}
	}
}

func (d *c18MSrv) collect(i int, before int64) ([]c18Obs, error) {
	out, err := d.drain(i)
	if err != nil {
		return nil, err
	}
	for k := before; k < d.closeLog[i].Load(); k++ {
		out = append(out, c18Obs{kind: 'X'})
	}
	return out, nil
}

func (d *c18MSrv) applyConn(i int, e c18Ev) ([]c18Obs, error) {
	cc := d.ccs[i]
	if cc.Context().Err() != nil {
		return nil, nil
	}
	before := d.closeLog[i].Load()
	select {
	case <-d.done:
		return nil, errors.New("stray processing signal: a message was processed outside its event")
	default:
	}
	switch e.kind {
	case 'T':
		cc.CheckExpirations(d.stamps.at(e.t))
	case 'S':
		if err := c18SrvSend(cc, e.sub, &d.sendTok); err != nil {
			return nil, err
		}
	case 'R', 'P':
		// the two calls of the Serve loop for a datagram of a known peer
		cc2, err := d.srv.NewConn(d.addrs[i])
		if err != nil {
			return nil, err
		}
		if cc2 != cc {
			return nil, errors.New("the server replaced an open connection")
		}
		d.peerMid++
		m := message.Message{Type: message.Confirmable, Code: codes.Empty, MessageID: d.peerMid}
		queued := false
		if e.kind == 'P' && e.g >= 1 && e.g <= len(d.mids[i]) {
			m = message.Message{Type: message.Reset, Code: codes.Empty, MessageID: d.mids[i][e.g-1]}
			queued = true
		} else {
			switch e.sub % 4 {
			case 0: // CoAP ping of the peer: answered inside Process
			case 1: // empty ACK for an unknown message id: dropped inside Process
				m.Type = message.Acknowledgement
			case 2:
				m.Type, m.Code, m.Token = message.NonConfirmable, codes.GET, []byte{byte(d.peerMid), 9}
				queued = true
			default:
				m.Type = message.Reset
				queued = true
			}
		}
		b := make([]byte, 64)
		n, err := udpCoder.DefaultCoder.Encode(m, b)
		if err != nil {
			return nil, err
		}
		if err := cc.Process(nil, b[:n]); err != nil {
			return nil, err
		}
		if queued {
			select {
			case <-d.done:
			case <-time.After(60 * time.Second):
				return nil, errors.New("hang: queued message was not processed within 60 s")
			}
		}
	default:
		return nil, fmt.Errorf("event %s not supported by driver msrv", e.desc())
	}
	d.stamps.fix(e.t)
	return d.collect(i, before)
}

func (d *c18MSrv) round(t int64, ok bool) ([][]c18Obs, error) {
	n := len(d.ccs)
	open := make([]bool, n)
	before := make([]int64, n)
	for i, cc := range d.ccs {
		open[i] = cc.Context().Err() == nil
		before[i] = d.closeLog[i].Load()
	}
	d.tick(d.stamps.at(t))
	d.stamps.fix(t)
	out := make([][]c18Obs, n)
	for i := range d.ccs {
		if !open[i] {
			continue
		}
		o, err := d.collect(i, before[i])
		if err != nil {
			return nil, err
		}
		out[i] = o
	}
	return out, nil
}

// ---- histories --------------------------------------------------------------------

type c18MHist struct {
	drv    string // mudp | mtcp | msrv
	period int64
	rem    int64
	max    uint32
	ka     bool
	n      int
	evs    []c18Ev // c = connection, -1 = round
}

func (h c18MHist) cfg() c18Hist {
	return c18Hist{drv: h.drv, period: h.period, rem: h.rem, max: h.max, ka: h.ka}
}

func (h c18MHist) desc() string {
	parts := make([]string, len(h.evs))
	for i, e := range h.evs {
		if e.c < 0 {
			parts[i] = "*:" + e.desc()
		} else {
			parts[i] = fmt.Sprintf("%d:%s", e.c, e.desc())
		}
	}
	return fmt.Sprintf("mhist %s %d %d %d %s %d %s", h.drv, h.period, h.rem, h.max, coqBool(h.ka), h.n, strings.Join(parts, ","))
}

func c18ParseMHist(f []string) (c18MHist, error) {
	if len(f) < 7 {
		return c18MHist{}, fmt.Errorf("bad descriptor")
	}
	h := c18MHist{drv: f[1]}
	h.period, _ = strconv.ParseInt(f[2], 10, 64)
	h.rem, _ = strconv.ParseInt(f[3], 10, 64)
	m, _ := strconv.ParseUint(f[4], 10, 32)
	h.max = uint32(m)
	h.ka = f[5] == "true"
	h.n, _ = strconv.Atoi(f[6])
	if h.n < 1 || h.n > 16 {
		return h, fmt.Errorf("bad number of connections %q", f[6])
	}
	if len(f) > 7 && f[7] != "" {
		for _, s := range strings.Split(f[7], ",") {
			p := strings.SplitN(s, ":", 2)
			if len(p) != 2 {
				return h, fmt.Errorf("bad event %q", s)
			}
			e, err := c18ParseEv(p[1])
			if err != nil {
				return h, err
			}
			if p[0] == "*" {
				if e.kind != 'T' {
					return h, fmt.Errorf("bad event %q: only ticks come in rounds", s)
				}
				e.c = -1
			} else {
				e.c, err = strconv.Atoi(p[0])
				if err != nil || e.c < 0 || e.c >= h.n {
					return h, fmt.Errorf("bad connection in %q", s)
				}
			}
			h.evs = append(h.evs, e)
		}
	}
	return h, nil
}

type c18MItem struct {
	c   int
	ev  c18Ev
	obs []c18Obs
}

func c18RunMHist(h c18MHist) (items []c18MItem, period int64, err error) {
	defer func() {
		if r := recover(); r != nil {
			err = fmt.Errorf("panic in %s: %v", h.desc(), r)
		}
	}()
	var d c18MultiDriver
	switch h.drv {
	case "mudp", "mtcp":
		d, err = c18NewMultiConns(h)
	case "msrv":
		d, err = c18NewMSrv(h)
	default:
		err = fmt.Errorf("unknown driver %s", h.drv)
	}
	if err != nil {
		return nil, 0, err
	}
	defer d.close()
	period = d.period()
	for _, e := range h.evs {
		if e.c < 0 {
			outs, err := d.round(e.t, e.ok)
			if err != nil {
				return nil, 0, fmt.Errorf("%s: %w", h.desc(), err)
			}
			for i, o := range outs {
				items = append(items, c18MItem{i, e, o})
			}
			continue
		}
		o, err := d.applyConn(e.c, e)
		if err != nil {
			return nil, 0, fmt.Errorf("%s: %w", h.desc(), err)
		}
		items = append(items, c18MItem{e.c, e, o})
	}
	return items, period, nil
}

func c18MEmit(e *Emitter, h c18MHist) error {
	items, period, err := c18RunMHist(h)
	if err != nil {
		return err
	}
	var sb strings.Builder
	t0s := make([]string, h.n)
	for i := range t0s {
		t0s[i] = "0"
	}
	fmt.Fprintf(&sb, "MHist [%s] %s %d %s [", strings.Join(t0s, "; "), coqZ(period), h.max, coqBool(h.ka))
	acted := map[int]bool{}
	rx, closes, strikes := 0, 0, 0
	for k, it := range items {
		if k > 0 {
			sb.WriteString("; ")
		}
		parts := make([]string, len(it.obs))
		for j, o := range it.obs {
			parts[j] = o.coq()
			acted[it.c] = true
			if o.kind == 'X' {
				closes++
			} else {
				strikes++
			}
		}
		if it.ev.kind == 'R' || it.ev.kind == 'P' {
			rx++
		}
		fmt.Fprintf(&sb, "((%d%%nat, %s), [%s])", it.c, it.ev.coq(), strings.Join(parts, "; "))
	}
	sb.WriteString("]")
	buckets := []string{"drv:" + h.drv, fmt.Sprintf("max:%d", h.max), fmt.Sprintf("conns:%d", h.n), fmt.Sprintf("len:%d", (len(h.evs)+3)/4*4)}
	if h.ka {
		buckets = append(buckets, "keepalive")
	} else {
		buckets = append(buckets, "plain")
	}
	if closes > 0 {
		buckets = append(buckets, "closed")
	} else {
		buckets = append(buckets, "not-closed")
	}
	buckets = append(buckets, fmt.Sprintf("pings:%d", min(strikes, 6)), fmt.Sprintf("conns-acted:%d", len(acted)))
	e.Add(sb.String(), h.desc(), len(acted) >= 2 && rx > 0, buckets...)
	return nil
}

// c18MGen: n connections, some of them talkative, the others silent; rounds around the expiry of somebody's latest
// message, so that several connections become inactive in the same round while their neighbours keep talking
func c18MGen(r *Rng, drv string, ka bool) c18MHist {
	h := c18MHist{drv: drv, ka: ka, n: 2 + r.Intn(3)}
	h.period = int64(r.Pick([]int{1, 2, 3})) * c18Sec
	if r.Chance(10) {
		h.period = int64(r.Pick([]int{1500, 700})) * c18Ms
	}
	if ka {
		h.max = uint32(r.Intn(4))
		if r.Chance(10) {
			h.rem = int64(r.Intn(int(h.max) + 1))
		}
	}
	P := h.period
	talk := make([]bool, h.n)
	for i := range talk {
		talk[i] = r.Bool()
	}
	talk[r.Intn(h.n)] = false // at least one silent peer
	lastRx := make([]int64, h.n)
	gens := make([]int, h.n)
	now := int64(0)
	deltas := []int64{-200 * c18Ms, -1, 0, 1, 200 * c18Ms, c18Sec}
	pickTalker := func() int {
		for try := 0; try < 8; try++ {
			i := r.Intn(h.n)
			if talk[i] || r.Chance(15) {
				return i
			}
		}
		return r.Intn(h.n)
	}
	tickTime := func() int64 {
		var t int64
		switch r.Intn(5) {
		case 0, 1, 2:
			t = lastRx[r.Intn(h.n)] + P + deltas[r.Intn(len(deltas))]
		case 3:
			t = now + P/int64(2+r.Intn(3))
		default:
			t = now + P + deltas[r.Intn(len(deltas))]
		}
		if t < now {
			t = now
		}
		return t
	}
	n := 3 + r.Intn(12)
	for k := 0; k < n; k++ {
		x := r.Intn(100)
		switch {
		case x < 44 || (x < 52 && drv == "msrv"): // housekeeping round
			now = tickTime()
			ok := true
			if ka && drv == "mudp" && r.Chance(6) {
				ok = false
			}
			h.evs = append(h.evs, c18Ev{kind: 'T', t: now, ok: ok, c: -1})
			if ka {
				for i := range gens {
					gens[i]++
				}
			}
		case x < 52: // one connection ticked alone (Conn.CheckExpirations)
			i := r.Intn(h.n)
			now = tickTime()
			h.evs = append(h.evs, c18Ev{kind: 'T', t: now, ok: true, c: i})
			if ka {
				gens[i]++
			}
		case x < 76:
			i := pickTalker()
			now += c18Step(r, P)
			lastRx[i] = now
			h.evs = append(h.evs, c18Ev{kind: 'R', t: now, sub: r.Intn(4), c: i})
		case x < 90:
			i := pickTalker()
			now += c18Step(r, P)
			lastRx[i] = now
			if ka && gens[i] > 0 {
				g := gens[i] - r.Intn(2)
				if g < 1 {
					g = 1
				}
				h.evs = append(h.evs, c18Ev{kind: 'P', g: g, t: now, sub: 0, c: i})
			} else {
				h.evs = append(h.evs, c18Ev{kind: 'R', t: now, sub: r.Intn(4), c: i})
			}
		default:
			now += c18Step(r, P)
			h.evs = append(h.evs, c18Ev{kind: 'S', t: now, sub: r.Intn(2), c: r.Intn(h.n)})
		}
	}
	return h
}

func c18MOnlyCase(e *Emitter, f []string) error {
	if len(f) == 7 {
		f = append(f, "")
	}
	h, err := c18ParseMHist(f)
	if err != nil {
		return err
	}
	return c18MEmit(e, h)
}

// kept from development: the two scenarios of seed C18-6, on every family
var c18MCorpus = []string{
	// three live peers, retry limit 2, all inactive in the same round: everybody gets the FIRST ping, nobody is closed
	"mhist mudp 1000000000 0 2 true 3 *:T1000000001,0:P1@1200000000.0,1:P1@1200000000.0,2:P1@1200000000.0,*:T1700000000",
	"mhist msrv 1000000000 0 2 true 3 *:T1000000001,0:P1@1200000000.0,1:P1@1200000000.0,2:P1@1200000000.0,*:T1700000000",
	"mhist mtcp 1000000000 0 2 true 3 *:T1000000001,0:P1@1200000000.0,1:P1@1200000000.0,2:P1@1200000000.0,*:T1700000000",
	"mhist mudp 1000000000 0 0 true 2 *:T1000000001",
	// a dead peer next to a busy one: the dead one is closed at its failure max+1
	"mhist mudp 1000000000 0 1 true 2 *:T1000000001,1:R1500000000.2,*:T2000000002,1:R2500000000.0,*:T3000000003,1:R3100000000.2,*:T4000000004",
	"mhist msrv 1000000000 0 1 true 2 *:T1000000001,1:R1500000000.0,*:T2000000002,1:R2500000000.2,*:T3000000003,1:R3100000000.3,*:T4000000004",
	"mhist mtcp 1000000000 0 1 true 2 *:T1000000001,1:R1500000000.0,*:T2000000002,1:R2500000000.0,*:T3000000003",
	// plain monitors side by side, one peer talks
	"mhist mudp 1000000000 0 0 false 3 1:R600000000.2,*:T1000000001,1:R1600000000.0,*:T1600000001,*:T2600000001",
	"mhist msrv 1000000000 0 0 false 3 1:R600000000.2,*:T1000000001,1:R1600000000.0,*:T1600000001,*:T2600000001",
	// connections ticked one by one (Conn.CheckExpirations), a send in between
	"mhist mudp 1000000000 0 1 true 2 0:T1000000001,1:T1000000001,0:S1100000000.0,1:P1@1200000000.0,0:T2000000002,1:T2200000001",
}

func c18MRunAll(e *Emitter, rng *Rng, scale int) error {
	for _, s := range c18MCorpus {
		if err := c18MOnlyCase(e, strings.Fields(s)); err != nil {
			return fmt.Errorf("corpus %q: %w", s, err)
		}
	}
	plans := []struct {
		drv string
		ka  bool
		n   int
	}{
		{"mudp", true, 170}, {"mudp", false, 40}, {"mtcp", true, 60}, {"mtcp", false, 15}, {"msrv", true, 70}, {"msrv", false, 20},
	}
	for _, p := range plans {
		for i := 0; i < p.n*scale; i++ {
			if err := c18MEmit(e, c18MGen(rng.Fork(), p.drv, p.ka)); err != nil {
				return err
			}
		}
	}
	return nil
}
