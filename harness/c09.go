package main

// C09 -- watchdog runs: every blocking client operation x interruption point x
// peer behaviour x trigger on four transports, concurrent Close / Server.Stop
// while operations are in flight, and discovery.  No sleeps are used as
// synchronisation: an interruption point is reached by waiting for its witness
// (the request on the wire, the processed ACK, the next block request); the
// wake conditions are level-triggered (a closed Done channel stays closed), so
// the outcome does not depend on whether the goroutine has already parked.
// A hang is an observable (o_ret = false), never a crash of hx.

import (
	"context"
	"errors"
	"fmt"
	"io"
	"net"
	"os"
	"runtime"
	"strconv"
	"strings"
	"sync"
	"sync/atomic"
	"time"

	"github.com/plgd-dev/go-coap/v3/message"
	"github.com/plgd-dev/go-coap/v3/message/codes"
	"github.com/plgd-dev/go-coap/v3/message/pool"
	"github.com/plgd-dev/go-coap/v3/mux"
	coapNet "github.com/plgd-dev/go-coap/v3/net"
	"github.com/plgd-dev/go-coap/v3/net/blockwise"
	"github.com/plgd-dev/go-coap/v3/net/responsewriter"
	"github.com/plgd-dev/go-coap/v3/options"
	"github.com/plgd-dev/go-coap/v3/tcp"
	tcpClient "github.com/plgd-dev/go-coap/v3/tcp/client"
	tcpCoder "github.com/plgd-dev/go-coap/v3/tcp/coder"
	tcpServer "github.com/plgd-dev/go-coap/v3/tcp/server"
	"github.com/plgd-dev/go-coap/v3/udp"
	udpClient "github.com/plgd-dev/go-coap/v3/udp/client"
	udpCoder "github.com/plgd-dev/go-coap/v3/udp/coder"
	udpServer "github.com/plgd-dev/go-coap/v3/udp/server"

	dtlsServer "github.com/plgd-dev/go-coap/v3/dtls/server"
)

func init() { props["C09"] = runC09 }

var c09Watchdog = 4 * time.Second

// c09After returns a channel that is CLOSED after d (unlike time.After it stays readable, so one watchdog
// can bound a whole loop of waits).
func c09After(d time.Duration) <-chan struct{} {
	ch := make(chan struct{})
	time.AfterFunc(d, func() { close(ch) })
	return ch
}

// ---------- a scripted net.Conn: writes are recorded and never block (a half-open peer whose window is
// not full), reads block until the script delivers bytes, an error, or the conn is closed ----------
type c09Script struct {
	mu       sync.Mutex
	cond     *sync.Cond
	in       [][]byte
	rdErr    error
	closed   bool
	closes   int
	out      [][]byte
	datagram bool
	// stall: the peer has stopped reading and the socket buffers are full: Write blocks, as in the kernel, until
	// the conn is closed (or the peer reads again); blockedW = writers currently parked in Write
	stall    bool
	blockedW int
}

func newC09Script(datagram bool) *c09Script {
	s := &c09Script{datagram: datagram}
	s.cond = sync.NewCond(&s.mu)
	return s
}
func (s *c09Script) Read(b []byte) (int, error) {
	s.mu.Lock()
	defer s.mu.Unlock()
	for len(s.in) == 0 && s.rdErr == nil && !s.closed {
		s.cond.Wait()
	}
	if len(s.in) > 0 {
		n := copy(b, s.in[0])
		if s.datagram || n == len(s.in[0]) {
			s.in = s.in[1:]
		} else {
			s.in[0] = s.in[0][n:]
		}
		return n, nil
	}
	if s.closed {
		return 0, net.ErrClosed
	}
	return 0, s.rdErr
}
func (s *c09Script) Write(b []byte) (int, error) {
	s.mu.Lock()
	defer s.mu.Unlock()
	if s.stall && !s.closed {
		s.blockedW++
		for s.stall && !s.closed {
			s.cond.Wait()
		}
		s.blockedW--
	}
	if s.closed {
		return 0, net.ErrClosed
	}
	s.out = append(s.out, append([]byte(nil), b...))
	return len(b), nil
}
func (s *c09Script) Close() error {
	s.mu.Lock()
	defer s.mu.Unlock()
	s.closes++
	s.closed = true
	s.cond.Broadcast()
	return nil
}
func (s *c09Script) feed(b []byte) {
	s.mu.Lock()
	s.in = append(s.in, append([]byte(nil), b...))
	s.cond.Broadcast()
	s.mu.Unlock()
}
func (s *c09Script) setStall(on bool) {
	s.mu.Lock()
	s.stall = on
	s.cond.Broadcast()
	s.mu.Unlock()
}
func (s *c09Script) blocked() int {
	s.mu.Lock()
	defer s.mu.Unlock()
	return s.blockedW
}
func (s *c09Script) fail(err error) {
	s.mu.Lock()
	s.rdErr = err
	s.cond.Broadcast()
	s.mu.Unlock()
}
func (s *c09Script) written() [][]byte {
	s.mu.Lock()
	defer s.mu.Unlock()
	return append([][]byte(nil), s.out...)
}
func (s *c09Script) LocalAddr() net.Addr {
	return &net.TCPAddr{IP: net.IPv4(127, 0, 0, 1), Port: 40001}
}
func (s *c09Script) RemoteAddr() net.Addr {
	return &net.TCPAddr{IP: net.IPv4(127, 0, 0, 1), Port: 5683}
}
func (s *c09Script) SetDeadline(time.Time) error      { return nil }
func (s *c09Script) SetReadDeadline(time.Time) error  { return nil }
func (s *c09Script) SetWriteDeadline(time.Time) error { return nil }

// a context whose expiry the driver fires: Err() = DeadlineExceeded
type c09DeadlineCtx struct {
	done chan struct{}
	once sync.Once
	err  atomic.Value
}

func newC09DeadlineCtx() *c09DeadlineCtx { return &c09DeadlineCtx{done: make(chan struct{})} }
func (c *c09DeadlineCtx) Deadline() (time.Time, bool) {
	return time.Now().Add(1000 * time.Hour), true
}
func (c *c09DeadlineCtx) Done() <-chan struct{} { return c.done }
func (c *c09DeadlineCtx) Err() error {
	if v := c.err.Load(); v != nil {
		return v.(error)
	}
	return nil
}
func (c *c09DeadlineCtx) Value(interface{}) interface{} { return nil }
func (c *c09DeadlineCtx) expire() {
	c.once.Do(func() { c.err.Store(context.DeadlineExceeded); close(c.done) })
}

func c09ErrClass(err error) int {
	switch {
	case err == nil:
		return 0
	case errors.Is(err, context.DeadlineExceeded):
		return 2
	case errors.Is(err, context.Canceled):
		return 1
	}
	return 3
}

// ---------- one connection under test, whatever the transport ----------
type c09Obs interface {
	Cancel(ctx context.Context, opts ...message.Option) error
}

type c09Conn struct {
	tr      int
	tcp     bool
	get     func(ctx context.Context, path string) error
	observe func(ctx context.Context, path string) (c09Obs, error)
	ping    func(ctx context.Context) error
	write   func(ctx context.Context, con bool, path string) error
	closeFn func() error
	addOn   func(f func())
	done    func() <-chan struct{}
	// peer side
	sent      func() [][]byte // raw messages the client has written so far
	deliver   func(b []byte)  // peer -> client
	peerClose func()
	sockClose func() // what the owner of the socket does when the session does not own it
	cleanup   func()
	// connection context (cancelled by Close)
	ctxDone func() <-chan struct{}
	// stalled-write scenarios (nil where the transport cannot stall): switch the peer between reading and not
	// reading; number of writers parked in the socket's Write (witness)
	setStall func(on bool)
	stalledW func() int
	// a request whose body is far larger than the socket buffers (real stream sockets)
	bigPost func(ctx context.Context) error
	// one housekeeping call with the given (virtual) time: Conn.CheckExpirations, or the function the
	// connection registered with its periodic runner (datagram transports only)
	tick func(now time.Time)
}

type c09Cfg struct {
	limitTotal, limitEndpoint int64
	nstart                    uint32
	blockwise                 bool
	closeSocket               bool
	// stall: the peer does not read from the start (stream / scripted transports)
	stall bool
	// maxMsg, when non-zero: the connection's maximal message size
	maxMsg uint32
	// busy, when non-nil: the connection's handler blocks on it for every request of the peer and the receive
	// queue holds one message, so that the reader parks on a full queue (tcp transport)
	busy chan struct{}
}

func (c *c09Conn) decode(b []byte) (message.Message, bool) {
	var m message.Message
	m.Options = make(message.Options, 0, 16)
	var err error
	if c.tcp {
		_, err = tcpCoder.DefaultCoder.Decode(b, &m)
	} else {
		_, err = udpCoder.DefaultCoder.Decode(b, &m)
	}
	if err != nil {
		return m, false
	}
	m.Token = append([]byte(nil), m.Token...)
	return m, true
}

func (c *c09Conn) encode(m message.Message) []byte {
	if c.tcp {
		n, _ := tcpCoder.DefaultCoder.Size(m)
		buf := make([]byte, n)
		k, err := tcpCoder.DefaultCoder.Encode(m, buf)
		if err != nil {
			panic(err)
		}
		return buf[:k]
	}
	n, _ := udpCoder.DefaultCoder.Size(m)
	buf := make([]byte, n)
	k, err := udpCoder.DefaultCoder.Encode(m, buf)
	if err != nil {
		panic(err)
	}
	return buf[:k]
}

// waitSent waits until the client has written at least n messages.
func (c *c09Conn) waitSent(n int, d time.Duration) bool {
	deadline := time.Now().Add(d)
	for {
		if len(c.sent()) >= n {
			return true
		}
		if time.Now().After(deadline) {
			return false
		}
		time.Sleep(300 * time.Microsecond) // polling a state-change witness, bounded by d
	}
}

func c09OptU32(id message.OptionID, v uint32) message.Options {
	buf := make([]byte, 16)
	opts := make(message.Options, 0, 4)
	opts, n, err := opts.SetUint32(buf, id, v)
	if err != nil {
		buf = make([]byte, n+16)
		opts, _, _ = opts.SetUint32(buf, id, v)
	}
	return opts
}

// reply builds the proper answer of a well-behaved peer to request raw (nil: nothing to answer).
func (c *c09Conn) reply(raw []byte, blockMore bool) []byte {
	m, ok := c.decode(raw)
	if !ok {
		return nil
	}
	if c.tcp {
		switch {
		case m.Code == codes.Ping:
			return c.encode(message.Message{Code: codes.Pong, Token: m.Token})
		case m.Code >= codes.GET && m.Code <= codes.DELETE:
			var opts message.Options
			if m.Options.HasOption(message.Observe) {
				opts = c09OptU32(message.Observe, 2)
			}
			if blockMore {
				v, _ := blockwise.EncodeBlockOption(blockwise.SZX16, 0, true)
				opts = c09OptU32(message.Block2, v)
				return c.encode(message.Message{Code: codes.Content, Token: m.Token, Options: opts, Payload: genBody(1, 16)})
			}
			return c.encode(message.Message{Code: codes.Content, Token: m.Token, Options: opts, Payload: []byte("ok")})
		}
		return nil
	}
	switch {
	case m.Type == message.Confirmable && m.Code == codes.Empty:
		return c.encode(message.Message{Type: message.Reset, Code: codes.Empty, MessageID: m.MessageID})
	case m.Type == message.Confirmable && m.Code >= codes.GET && m.Code <= codes.DELETE:
		var opts message.Options
		if m.Options.HasOption(message.Observe) {
			opts = c09OptU32(message.Observe, 2)
		}
		if blockMore {
			v, _ := blockwise.EncodeBlockOption(blockwise.SZX16, 0, true)
			opts = c09OptU32(message.Block2, v)
			return c.encode(message.Message{Type: message.Acknowledgement, Code: codes.Content, MessageID: m.MessageID, Token: m.Token, Options: opts, Payload: genBody(1, 16)})
		}
		return c.encode(message.Message{Type: message.Acknowledgement, Code: codes.Content, MessageID: m.MessageID, Token: m.Token, Options: opts, Payload: []byte("ok")})
	case m.Type == message.Confirmable:
		return c.encode(message.Message{Type: message.Acknowledgement, Code: codes.Empty, MessageID: m.MessageID})
	}
	return nil
}

func (c *c09Conn) emptyAck(raw []byte) []byte {
	m, ok := c.decode(raw)
	if !ok {
		return nil
	}
	return c.encode(message.Message{Type: message.Acknowledgement, Code: codes.Empty, MessageID: m.MessageID})
}

// misbehave delivers what a peer of kind `peer` sends between the interruption point and the trigger.
func (c *c09Conn) misbehave(peer int, rng *Rng) {
	switch peer {
	case 1: // garbage
		for i := 0; i < 3; i++ {
			n := 1 + rng.Intn(12)
			b := make([]byte, n)
			for j := range b {
				b[j] = byte(rng.Intn(256))
			}
			if c.tcp {
				// keep the stream decodable as frames that carry nonsense: a length nibble that matches the garbage
				// would desynchronise everything after it, which is the "peer closes" trigger, not this one
				b = c.encode(message.Message{Code: codes.Code(0xE0 + rng.Intn(8)), Token: b[:n%8]})
			} else if i == 0 {
				b[0] = 0xC0 | b[0]&0x3f // wrong version
			}
			c.deliver(b)
		}
	case 2: // well-formed but unrelated
		tok := []byte{0xEE, byte(rng.Intn(256)), 0x01}
		if c.tcp {
			c.deliver(c.encode(message.Message{Code: codes.Content, Token: tok, Payload: []byte("x")}))
			c.deliver(c.encode(message.Message{Code: codes.Pong, Token: tok}))
		} else {
			c.deliver(c.encode(message.Message{Type: message.Acknowledgement, Code: codes.Empty, MessageID: int32(0x7000 + rng.Intn(256))}))
			c.deliver(c.encode(message.Message{Type: message.NonConfirmable, Code: codes.Content, MessageID: int32(0x7100 + rng.Intn(256)), Token: tok, Payload: []byte("x")}))
			c.deliver(c.encode(message.Message{Type: message.Reset, Code: codes.Empty, MessageID: int32(0x7200 + rng.Intn(256))}))
		}
	}
}

func c09UDPConfig(cfg c09Cfg) udpClient.Config {
	c := udpClient.DefaultConfig
	c.MessagePool = pool.New(64, 2048)
	c.Errors = func(error) {}
	c.TransmissionNStart = cfg.nstart
	c.TransmissionAcknowledgeTimeout = 1000 * time.Hour
	c.TransmissionMaxRetransmit = 4
	c.ReceivedMessageQueueSize = 16
	c.LimitClientParallelRequests = cfg.limitTotal
	c.LimitClientEndpointParallelRequests = cfg.limitEndpoint
	c.MaxMessageSize = 64 * 1024
	if cfg.maxMsg != 0 {
		c.MaxMessageSize = cfg.maxMsg
	}
	c.Handler = func(w *responsewriter.ResponseWriter[*udpClient.Conn], r *pool.Message) {}
	return c
}

func c09WrapUDP(tr int, cc *udpClient.Conn) *c09Conn {
	c := &c09Conn{tr: tr}
	c.get = func(ctx context.Context, path string) error {
		resp, err := cc.Get(ctx, path)
		if err == nil {
			cc.ReleaseMessage(resp)
		}
		return err
	}
	c.observe = func(ctx context.Context, path string) (c09Obs, error) {
		o, err := cc.Observe(ctx, path, func(*pool.Message) {})
		if err != nil {
			return nil, err
		}
		return o, nil
	}
	c.ping = cc.Ping
	c.write = func(ctx context.Context, con bool, path string) error {
		req := cc.AcquireMessage(ctx)
		defer cc.ReleaseMessage(req)
		req.SetCode(codes.POST)
		req.SetToken([]byte{0x77, 0x01})
		_ = req.SetPath(path)
		if con {
			req.SetType(message.Confirmable)
		} else {
			req.SetType(message.NonConfirmable)
		}
		return cc.WriteMessage(req)
	}
	c.closeFn = cc.Close
	c.addOn = func(f func()) { cc.AddOnClose(f) }
	c.done = cc.Done
	c.ctxDone = func() <-chan struct{} { return cc.Context().Done() }
	c.tick = cc.CheckExpirations
	return c
}

func c09UDPBlockwise(cc *udpClient.Conn) *blockwise.BlockWise[*udpClient.Conn] {
	return blockwise.New(cc, 1000*time.Hour, func(error) {}, func(token message.Token) (*pool.Message, bool) {
		return cc.GetObservationRequest(token)
	})
}

func newC09Conn(tr int, cfg c09Cfg) (*c09Conn, error) {
	if cfg.nstart == 0 {
		cfg.nstart = 1
	}
	if cfg.limitTotal == 0 {
		cfg.limitTotal = 8
	}
	if cfg.limitEndpoint == 0 {
		cfg.limitEndpoint = 8
	}
	switch tr {
	case 0: // in-memory session
		o := memConnOpts{getMID: 0x2000, queueSize: 16, nstart: cfg.nstart, ackTimeout: 1000 * time.Hour, maxRetransmit: 4, limitTotal: cfg.limitTotal, limitEndpoint: cfg.limitEndpoint}
		if cfg.blockwise {
			o.opts = append(o.opts, udpClient.WithBlockWise(c09UDPBlockwise))
		}
		mc := newMemConn(o)
		c := c09WrapUDP(0, mc.cc)
		c.sent = func() [][]byte {
			mc.s.mu.Lock()
			defer mc.s.mu.Unlock()
			return append([][]byte(nil), mc.s.out...)
		}
		c.deliver = func(b []byte) { mc.inject(b) }
		c.peerClose = func() {}
		c.sockClose = func() {}
		c.cleanup = func() { mc.close() }
		return c, nil
	case 1: // tcp Conn + real tcp/client.Session over the scripted conn
		sc := newC09Script(false)
		sc.stall = cfg.stall
		tc := tcpClient.DefaultConfig
		tc.Errors = func(error) {}
		tc.DisableTCPSignalMessageCSM = true
		tc.DisablePeerTCPSignalMessageCSMs = true
		tc.CloseSocket = cfg.closeSocket
		tc.LimitClientParallelRequests = cfg.limitTotal
		tc.LimitClientEndpointParallelRequests = cfg.limitEndpoint
		tc.ReceivedMessageQueueSize = 16
		tc.MessagePool = pool.New(64, 2048)
		if cfg.maxMsg != 0 {
			tc.MaxMessageSize = cfg.maxMsg
		}
		tc.Handler = func(w *responsewriter.ResponseWriter[*tcpClient.Conn], r *pool.Message) {}
		if cfg.busy != nil {
			tc.ReceivedMessageQueueSize = 1
			tc.Handler = func(w *responsewriter.ResponseWriter[*tcpClient.Conn], r *pool.Message) {
				if r.Code() >= codes.GET && r.Code() <= codes.DELETE {
					<-cfg.busy
				}
			}
		}
		var topts []tcpClient.Option
		if cfg.blockwise {
			topts = append(topts, tcpClient.WithBlockWise(func(cc *tcpClient.Conn) *blockwise.BlockWise[*tcpClient.Conn] {
				return blockwise.New(cc, 1000*time.Hour, func(error) {}, func(token message.Token) (*pool.Message, bool) {
					return cc.GetObservationRequest(token)
				})
			}))
		}
		cc := tcpClient.NewConnWithOpts(coapNet.NewConn(sc), &tc, topts...)
		runDone := make(chan struct{})
		go func() { _ = cc.Run(); close(runDone) }()
		c := &c09Conn{tr: 1, tcp: true}
		c.get = func(ctx context.Context, path string) error {
			resp, err := cc.Get(ctx, path)
			if err == nil {
				cc.ReleaseMessage(resp)
			}
			return err
		}
		c.observe = func(ctx context.Context, path string) (c09Obs, error) {
			o, err := cc.Observe(ctx, path, func(*pool.Message) {})
			if err != nil {
				return nil, err
			}
			return o, nil
		}
		c.ping = cc.Ping
		c.write = func(ctx context.Context, con bool, path string) error {
			req := cc.AcquireMessage(ctx)
			defer cc.ReleaseMessage(req)
			req.SetCode(codes.POST)
			req.SetToken([]byte{0x77, 0x01})
			_ = req.SetPath(path)
			return cc.WriteMessage(req)
		}
		c.closeFn = cc.Close
		c.addOn = func(f func()) { cc.AddOnClose(f) }
		c.done = cc.Done
		c.ctxDone = func() <-chan struct{} { return cc.Context().Done() }
		c.sent = sc.written
		c.deliver = sc.feed
		c.peerClose = func() { sc.fail(io.EOF) }
		c.sockClose = func() { _ = sc.Close() }
		c.setStall = sc.setStall
		c.stalledW = sc.blocked
		c.cleanup = func() {
			if cfg.stall {
				// the socket goes first (what releases a stalled write whatever net.Conn.Close does); Close may be
				// stuck behind that write on a defective tree, so it is not waited for
				_ = sc.Close()
				go func() { _ = cc.Close() }()
			} else {
				_ = cc.Close()
				_ = sc.Close()
			}
			select {
			case <-runDone:
			case <-time.After(10 * time.Second):
			}
		}
		return c, nil
	case 2: // udp Conn + real dtls/server.Session over the scripted conn (datagram reads)
		sc := newC09Script(true)
		sc.stall = cfg.stall
		uc := c09UDPConfig(cfg)
		session := dtlsServer.NewSession(context.Background(), coapNet.NewConn(sc), uc.MaxMessageSize, 1500, cfg.closeSocket)
		var uopts []udpClient.Option
		if cfg.blockwise {
			uopts = append(uopts, udpClient.WithBlockWise(c09UDPBlockwise))
		}
		cc := udpClient.NewConnWithOpts(session, &uc, uopts...)
		runDone := make(chan struct{})
		go func() { _ = cc.Run(); close(runDone) }()
		c := c09WrapUDP(2, cc)
		c.sent = sc.written
		c.deliver = sc.feed
		c.peerClose = func() { sc.fail(io.EOF) }
		c.sockClose = func() { _ = sc.Close() }
		c.setStall = sc.setStall
		c.stalledW = sc.blocked
		c.cleanup = func() {
			if cfg.stall {
				_ = sc.Close()
				go func() { _ = cc.Close() }()
			} else {
				_ = cc.Close()
				_ = sc.Close()
			}
			select {
			case <-runDone:
			case <-time.After(10 * time.Second):
			}
		}
		return c, nil
	case 3: // udp.Dial over loopback: real udp/server.Session, real socket
		peer, err := net.ListenUDP("udp4", &net.UDPAddr{IP: net.IPv4(127, 0, 0, 1)})
		if err != nil {
			return nil, err
		}
		var mu sync.Mutex
		var got [][]byte
		var from *net.UDPAddr
		go func() {
			buf := make([]byte, 2048)
			for {
				n, a, err := peer.ReadFromUDP(buf)
				if err != nil {
					return
				}
				mu.Lock()
				got = append(got, append([]byte(nil), buf[:n]...))
				from = a
				mu.Unlock()
			}
		}()
		var runner atomic.Value // the function the connection hands to its periodic runner; called by the tick family only
		dopts := []udp.Option{
			options.WithErrors(func(error) {}),
			options.WithPeriodicRunner(func(f func(now time.Time) bool) { runner.Store(f) }),
			options.WithTransmission(cfg.nstart, 1000*time.Hour, 4),
			options.WithLimitClientParallelRequest(cfg.limitTotal),
			options.WithLimitClientEndpointParallelRequest(cfg.limitEndpoint),
			options.WithBlockwise(cfg.blockwise, blockwise.SZX16, 1000*time.Hour),
		}
		if cfg.maxMsg != 0 {
			dopts = append(dopts, options.WithMaxMessageSize(cfg.maxMsg))
		}
		var cc *udpClient.Conn
		var ownSock *net.UDPConn
		if cfg.closeSocket {
			cc, err = udp.Dial(peer.LocalAddr().String(), dopts...)
			if err != nil {
				_ = peer.Close()
				return nil, err
			}
		} else {
			// udp.Client over a socket that stays owned by the caller (no WithCloseSocket)
			ownSock, err = net.DialUDP("udp4", nil, peer.LocalAddr().(*net.UDPAddr))
			if err != nil {
				_ = peer.Close()
				return nil, err
			}
			cc = udp.Client(ownSock, dopts...)
		}
		c := c09WrapUDP(3, cc)
		if f, ok := runner.Load().(func(now time.Time) bool); ok {
			c.tick = func(now time.Time) { f(now) }
		}
		c.sent = func() [][]byte {
			mu.Lock()
			defer mu.Unlock()
			return append([][]byte(nil), got...)
		}
		c.deliver = func(b []byte) {
			mu.Lock()
			a := from
			mu.Unlock()
			if a == nil {
				if la, ok := cc.LocalAddr().(*net.UDPAddr); ok {
					a = la
				}
			}
			if a != nil {
				_, _ = peer.WriteToUDP(b, a)
			}
		}
		c.peerClose = func() {}
		c.sockClose = func() {
			if ownSock != nil {
				_ = ownSock.Close()
			}
		}
		c.cleanup = func() {
			_ = cc.Close()
			if ownSock != nil {
				_ = ownSock.Close()
			}
			select {
			case <-cc.Done():
			case <-time.After(10 * time.Second):
			}
			_ = peer.Close()
		}
		return c, nil
	case 6:
		return newC09RealTCP(cfg)
	}
	return nil, fmt.Errorf("unknown transport %d", tr)
}

// ---------- operation x point x peer x trigger ----------
type c09OpCase struct{ tr, op, pt, peer, trig int }

func (k c09OpCase) desc() string {
	return fmt.Sprintf("op %d %d %d %d %d", k.tr, k.op, k.pt, k.peer, k.trig)
}

func c09OpApplicable(k c09OpCase) bool {
	udpLike := k.tr != 1
	if k.pt == 2 && (!udpLike || k.op == 3 || k.op == 4 || k.op == 5) {
		return false // an empty ACK exists only on datagram transports, and for ping / one-way write it IS the answer
	}
	if k.pt == 6 && (!udpLike || k.op > 2) {
		return false
	}
	if k.pt == 3 && (k.op != 0 || !udpLike) {
		return false // on tcp block-wise is negotiated by the peer's CSM, which the scripted peer does not send
	}
	if (k.pt == 4 || k.pt == 5) && k.op > 2 {
		return false
	}
	if k.trig == 3 && (k.tr == 0 || k.tr == 3) {
		return false // a datagram peer cannot close
	}
	if k.op == 2 && k.pt == 0 && k.trig != 0 && k.trig != 1 {
		return false // cancelling an observation needs a live connection to have registered it
	}
	if k.tr == 3 && k.peer == 1 && k.pt == 0 {
		return false
	}
	return true
}

// c09Parked: some goroutine is blocked inside the given library frame (for the total limit: a semaphore
// Acquire called from the limiter's Do/DoObserve, not the NSTART semaphore).
func c09Parked(stacks, frame string, pt int) bool {
	for _, g := range strings.Split(stacks, "\n\n") {
		if !strings.Contains(g, frame) {
			continue
		}
		if pt == 5 && !strings.Contains(g, "limitParallelRequests") {
			continue
		}
		if pt == 5 && strings.Contains(g, "acquireOutstandingInteraction") {
			continue
		}
		return true
	}
	return false
}

// runs one scenario; returns (returned within the watchdog, error class)
func runC09Op(k c09OpCase, seed uint64) (bool, int, error) {
	rng := NewRng(seed)
	cfg := c09Cfg{closeSocket: true}
	switch k.pt {
	case 4:
		cfg.limitEndpoint, cfg.limitTotal = 1, 8
	case 5:
		cfg.limitEndpoint, cfg.limitTotal = 8, 1
	case 6:
		// NSTART is the only thing in the way: the parallel-request limits must not be (their default is 1)
		cfg.nstart = 1
		cfg.limitEndpoint, cfg.limitTotal = 8, 8
	case 3:
		cfg.blockwise = true
	}
	c, err := newC09Conn(k.tr, cfg)
	if err != nil {
		return false, 0, err
	}
	defer c.cleanup()
	setup := 10 * time.Second
	nsent := 0
	bg, bgCancel := context.WithCancel(context.Background())
	defer bgCancel()

	// observation Cancel needs a registered observation first
	var obs c09Obs
	if k.op == 2 {
		type ores struct {
			o   c09Obs
			err error
		}
		ch := make(chan ores, 1)
		go func() { o, err := c.observe(bg, "/a"); ch <- ores{o, err} }()
		if !c.waitSent(nsent+1, setup) {
			return false, 0, errors.New("setup: observe request not written")
		}
		c.deliver(c.reply(c.sent()[nsent], false))
		nsent++
		select {
		case r := <-ch:
			if r.err != nil {
				return false, 0, fmt.Errorf("setup: observe: %w", r.err)
			}
			obs = r.o
		case <-time.After(setup):
			return false, 0, errors.New("setup: observe did not return")
		}
	}

	// the operation ahead in the queue
	var blockerDone chan error
	if k.pt >= 4 {
		path := "/a"
		if k.pt != 4 {
			path = "/blocker"
		}
		blockerDone = make(chan error, 1)
		go func() { blockerDone <- c.get(bg, path) }()
		if !c.waitSent(nsent+1, setup) {
			return false, 0, errors.New("setup: blocker request not written")
		}
		nsent++
	}

	// the context of the operation under test
	var ctx context.Context
	cancel := func() {}
	var dctx *c09DeadlineCtx
	switch k.trig {
	case 0:
		ctx, cancel = context.WithCancel(context.Background())
	case 1:
		dctx = newC09DeadlineCtx()
		ctx = dctx
	default:
		ctx = context.Background()
	}
	defer cancel()
	fire := func() {
		switch k.trig {
		case 0:
			cancel()
		case 1:
			dctx.expire()
		case 2:
			_ = c.closeFn()
		case 3:
			c.peerClose()
		}
	}
	if k.pt == 0 {
		fire()
	}
	res := make(chan error, 1)
	go func() {
		defer func() {
			if r := recover(); r != nil {
				res <- fmt.Errorf("panic: %v", r)
			}
		}()
		switch k.op {
		case 0:
			res <- c.get(ctx, "/a")
		case 1:
			_, err := c.observe(ctx, "/a")
			res <- err
		case 2:
			res <- obs.Cancel(ctx)
		case 3:
			res <- c.ping(ctx)
		case 4:
			res <- c.write(ctx, true, "/a")
		case 5:
			res <- c.write(ctx, false, "/a")
		}
	}()
	answered := nsent // messages below this index are not answered by the control responder
	if k.pt >= 4 {
		answered = nsent - 1
	}
	opFirst := nsent
	early := func() (bool, int, error) { // the operation ended before its interruption point was reached
		select {
		case err := <-res:
			return true, c09ErrClass(err), nil
		default:
			return false, 0, nil
		}
	}
	reached := true
	switch k.pt {
	case 1, 2, 3:
		if !c.waitSent(nsent+1, setup) {
			reached = false
			break
		}
		req := c.sent()[nsent]
		nsent++
		answered = opFirst
		if k.pt == 2 {
			c.deliver(c.emptyAck(req))
		}
		if k.pt == 3 {
			c.deliver(c.reply(req, true))
			if !c.waitSent(nsent+1, setup) {
				reached = false
				break
			}
			nsent++
			answered = nsent - 1
		}
	}
	if reached && k.pt >= 4 && k.trig != 4 {
		// the operation must really be parked behind the limit before the trigger fires: look for its frame
		frame := map[int]string{4: ").acquireEndpoint(", 5: "semaphore.(*Weighted).Acquire(", 6: ").acquireOutstandingInteraction("}[k.pt]
		deadline := time.Now().Add(setup)
		reached = false
		buf := make([]byte, 1<<20)
		for time.Now().Before(deadline) {
			n := runtime.Stack(buf, true)
			if c09Parked(string(buf[:n]), frame, k.pt) {
				reached = true
				break
			}
			if ret, _, _ := early(); ret {
				break
			}
			time.Sleep(200 * time.Microsecond)
		}
	}
	if !reached {
		if ret, cls, _ := early(); ret {
			return false, 0, fmt.Errorf("setup: the operation ended (error class %d) before its interruption point", cls)
		}
		return false, 0, errors.New("setup: interruption point not reached")
	}
	if k.pt != 0 {
		c.misbehave(k.peer, rng)
		fire()
	}
	wd := c09After(c09Watchdog)
	tick := time.NewTicker(500 * time.Microsecond)
	defer tick.Stop()
	for {
		select {
		case err := <-res:
			return true, c09ErrClass(err), nil
		case <-wd:
			return false, 0, nil
		case <-tick.C:
			if k.trig == 4 { // control: a well-behaved peer answers everything outstanding
				s := c.sent()
				for answered < len(s) {
					if r := c.reply(s[answered], false); r != nil {
						c.deliver(r)
					}
					answered++
				}
			}
		}
	}
}

// ---------- concurrent Close ----------
type c09CloseCase struct {
	tr       int
	sock     bool
	nclose   int
	ncb      int
	inflight int
}

func (k c09CloseCase) desc() string {
	return fmt.Sprintf("close %d %s %d %d %d", k.tr, coqBool(k.sock), k.nclose, k.ncb, k.inflight)
}

type c09CloseObs struct {
	cb                         []int64
	done, closers, panic_, ops bool
}

func runC09Close(k c09CloseCase) (c09CloseObs, error) {
	var o c09CloseObs
	if k.tr == 4 {
		return runC09SrvConnClose(k)
	}
	ccfg := c09Cfg{closeSocket: k.sock, limitTotal: 16, limitEndpoint: 16, nstart: 8}
	if k.tr == 1 && k.inflight%2 == 1 {
		// Close arrives while the application handler is busy and the reader is parked on a full receive queue
		ccfg.busy = make(chan struct{})
		defer close(ccfg.busy)
	}
	c, err := newC09Conn(k.tr, ccfg)
	if err != nil {
		return o, err
	}
	defer c.cleanup()
	counts := make([]atomic.Int64, k.ncb)
	for i := 0; i < k.ncb; i++ {
		i := i
		c.addOn(func() { counts[i].Add(1) })
	}
	opRes := make(chan error, k.inflight)
	for i := 0; i < k.inflight; i++ {
		i := i
		go func() {
			switch i % 3 {
			case 0:
				opRes <- c.get(context.Background(), "/p"+strconv.Itoa(i))
			case 1:
				opRes <- c.ping(context.Background())
			default:
				_, err := c.observe(context.Background(), "/o"+strconv.Itoa(i))
				opRes <- err
			}
		}()
	}
	if !c.waitSent(k.inflight, 10*time.Second) {
		return o, errors.New("setup: in-flight operations not written")
	}
	if ccfg.busy != nil {
		for i := 0; i < 5; i++ {
			c.deliver(c.encode(message.Message{Code: codes.GET, Token: []byte{0xB0, byte(i)}}))
		}
		deadline := time.Now().Add(3 * time.Second)
		buf := make([]byte, 1<<20)
		for time.Now().Before(deadline) {
			n := runtime.Stack(buf, true)
			if strings.Contains(string(buf[:n]), ").pushToReceivedMessageQueue(") {
				break
			}
			time.Sleep(200 * time.Microsecond)
		}
	}
	start := make(chan struct{})
	var panics atomic.Int64
	var wg sync.WaitGroup
	for i := 0; i < k.nclose; i++ {
		wg.Add(1)
		go func() {
			defer wg.Done()
			defer func() {
				if recover() != nil {
					panics.Add(1)
				}
			}()
			<-start
			_ = c.closeFn()
		}()
	}
	close(start)
	closersDone := make(chan struct{})
	go func() { wg.Wait(); close(closersDone) }()
	select {
	case <-closersDone:
		o.closers = true
	case <-time.After(c09Watchdog):
	}
	if !k.sock {
		c.sockClose() // the owner of the socket closes it after closing the connection
	}
	select {
	case <-c.done():
		o.done = true
	case <-time.After(c09Watchdog):
	}
	o.ops = true
	wd := c09After(c09Watchdog)
	for i := 0; i < k.inflight; i++ {
		select {
		case <-opRes:
		case <-wd:
			o.ops = false
		}
	}
	// a second round of Close calls after everything is down: still no effect
	for i := 0; i < 2; i++ {
		func() {
			defer func() {
				if recover() != nil {
					panics.Add(1)
				}
			}()
			_ = c.closeFn()
		}()
	}
	o.panic_ = panics.Load() != 0
	for i := range counts {
		o.cb = append(o.cb, counts[i].Load())
	}
	return o, nil
}

// a server-side connection of the udp server (session without Run: shutdown is called by the server's
// per-connection close function from the periodic tick, the datagram path and Stop): nclose goroutines
// concurrently call cc.Close() and/or the server's periodic tick, then one more tick, then Stop.
func runC09SrvConnClose(k c09CloseCase) (c09CloseObs, error) {
	var o c09CloseObs
	ld, err := coapNet.NewListenUDP("udp4", "127.0.0.1:0")
	if err != nil {
		return o, err
	}
	defer ld.Close()
	got := make(chan func(now time.Time) bool, 1)
	conns := make(chan *udpClient.Conn, 4)
	s := udp.NewServer(
		options.WithErrors(func(error) {}),
		options.WithMux(mux.NewRouter()),
		options.WithPeriodicRunner(func(f func(now time.Time) bool) { got <- f }),
		options.WithTransmission(8, 1000*time.Hour, 4),
		options.WithOnNewConn(func(cc *udpClient.Conn) { conns <- cc }),
	)
	serveErr := make(chan error, 1)
	go func() { serveErr <- s.Serve(ld) }()
	defer func() {
		s.Stop()
		select {
		case <-serveErr:
		case <-time.After(10 * time.Second):
		}
	}()
	var tick func(now time.Time) bool
	select {
	case tick = <-got:
	case <-time.After(10 * time.Second):
		return o, errors.New("setup: server did not start")
	}
	p, err := net.DialUDP("udp4", nil, ld.LocalAddr().(*net.UDPAddr))
	if err != nil {
		return o, err
	}
	defer p.Close()
	if _, err := p.Write(encodeWire(1, 1, 0x321, []byte{0x55}, nil, nil)); err != nil {
		return o, err
	}
	var cc *udpClient.Conn
	select {
	case cc = <-conns:
	case <-time.After(10 * time.Second):
		return o, errors.New("setup: server did not see the peer")
	}
	// the server keeps the per-connection close function (session.Close(); session.shutdown()) in the
	// connection's context under this key (udp/server/server.go closeKey)
	closeFn, _ := cc.Context().Value("gocoapCloseConnection").(func())
	if closeFn == nil {
		return o, errors.New("setup: the connection carries no close function")
	}
	counts := make([]atomic.Int64, k.ncb)
	for i := 0; i < k.ncb; i++ {
		i := i
		cc.AddOnClose(func() { counts[i].Add(1) })
	}
	opRes := make(chan error, k.inflight)
	for i := 0; i < k.inflight; i++ {
		i := i
		go func() {
			if i%2 == 0 {
				opRes <- cc.Ping(context.Background())
			} else {
				resp, err := cc.Get(context.Background(), "/s"+strconv.Itoa(i))
				if err == nil {
					cc.ReleaseMessage(resp)
				}
				opRes <- err
			}
		}()
	}
	start := make(chan struct{})
	var panics atomic.Int64
	var wg sync.WaitGroup
	for i := 0; i < k.nclose; i++ {
		i := i
		wg.Add(1)
		go func() {
			defer wg.Done()
			defer func() {
				if recover() != nil {
					panics.Add(1)
				}
			}()
			<-start
			switch i % 3 {
			case 0:
				_ = cc.Close()
				tick(time.Now())
			case 1:
				tick(time.Now())
			default:
				closeFn() // what Stop / the tick / the datagram path call for a closed peer
			}
		}()
	}
	close(start)
	closersDone := make(chan struct{})
	go func() { wg.Wait(); close(closersDone) }()
	select {
	case <-closersDone:
		o.closers = true
	case <-time.After(c09Watchdog):
	}
	func() {
		defer func() {
			if recover() != nil {
				panics.Add(1)
			}
		}()
		tick(time.Now()) // "removed on the next tick"
		closeFn()        // and a late caller of the close function, after everything is down
	}()
	select {
	case <-cc.Done():
		o.done = true
	case <-time.After(c09Watchdog):
	}
	o.ops = true
	wd := c09After(c09Watchdog)
	for i := 0; i < k.inflight; i++ {
		select {
		case <-opRes:
		case <-wd:
			o.ops = false
		}
	}
	func() {
		defer func() {
			if recover() != nil {
				panics.Add(1)
			}
		}()
		_ = cc.Close()
		tick(time.Now())
		s.Stop()
	}()
	o.panic_ = panics.Load() != 0
	for i := range counts {
		o.cb = append(o.cb, counts[i].Load())
	}
	return o, nil
}

// ---------- concurrent Server.Stop ----------
type c09StopCase struct{ srv, nstop, nconn, ncb int }

func (k c09StopCase) desc() string {
	return fmt.Sprintf("stop %d %d %d %d", k.srv, k.nstop, k.nconn, k.ncb)
}

type c09StopObs struct {
	cb                                []int64
	done, closers, panic_, ops, serve bool
}

func runC09Stop(k c09StopCase) (c09StopObs, error) {
	var o c09StopObs
	var mu sync.Mutex
	var counts []*atomic.Int64
	var dones []<-chan struct{}
	opRes := make(chan error, 64)
	nops := 0
	newConn := make(chan struct{}, 64)
	register := func(addOn func(func()), done <-chan struct{}, ping func(context.Context) error) {
		mu.Lock()
		for i := 0; i < k.ncb; i++ {
			cnt := &atomic.Int64{}
			counts = append(counts, cnt)
			addOn(func() { cnt.Add(1) })
		}
		dones = append(dones, done)
		nops++
		mu.Unlock()
		// a server-initiated operation in flight on this connection; the peer never answers
		go func() { opRes <- ping(context.Background()) }()
		newConn <- struct{}{}
	}
	serveErr := make(chan error, 1)
	var stop func()
	var cleanup []func()
	defer func() {
		for _, f := range cleanup {
			f()
		}
	}()
	handlerGate := make(chan struct{})
	defer close(handlerGate)
	if k.srv == 0 {
		ld, err := coapNet.NewListenUDP("udp4", "127.0.0.1:0")
		if err != nil {
			return o, err
		}
		cleanup = append(cleanup, func() { _ = ld.Close() })
		r := mux.NewRouter()
		s := udp.NewServer(
			options.WithErrors(func(error) {}),
			options.WithMux(r),
			options.WithPeriodicRunner(func(func(now time.Time) bool) {}),
			options.WithTransmission(4, 1000*time.Hour, 4),
			options.WithOnNewConn(func(cc *udpClient.Conn) { register(func(f func()) { cc.AddOnClose(f) }, cc.Done(), cc.Ping) }),
		)
		_ = s
		stop = s.Stop
		go func() { serveErr <- s.Serve(ld) }()
		for i := 0; i < k.nconn; i++ {
			p, err := net.DialUDP("udp4", nil, ld.LocalAddr().(*net.UDPAddr))
			if err != nil {
				return o, err
			}
			cleanup = append(cleanup, func() { _ = p.Close() })
			d := encodeWire(1, 1, 0x100+i, []byte{byte(i), 0x55}, nil, nil) // NON GET, no such resource
			if _, err := p.Write(d); err != nil {
				return o, err
			}
		}
	} else {
		ln, err := coapNet.NewTCPListener("tcp4", "127.0.0.1:0")
		if err != nil {
			return o, err
		}
		cleanup = append(cleanup, func() { _ = ln.Close() })
		s := tcp.NewServer(
			options.WithErrors(func(error) {}),
			options.WithMux(mux.NewRouter()),
			options.WithOnNewConn(func(cc *tcpClient.Conn) { register(func(f func()) { cc.AddOnClose(f) }, cc.Done(), cc.Ping) }),
		)
		stop = s.Stop
		go func() { serveErr <- s.Serve(ln) }()
		for i := 0; i < k.nconn; i++ {
			p, err := net.Dial("tcp4", ln.Addr().String())
			if err != nil {
				return o, err
			}
			cleanup = append(cleanup, func() { _ = p.Close() })
			go func() { _, _ = io.Copy(io.Discard, p) }() // a peer that reads and never answers
		}
	}
	for i := 0; i < k.nconn; i++ {
		select {
		case <-newConn:
		case err := <-serveErr:
			return o, fmt.Errorf("setup: serve ended: %v", err)
		case <-time.After(10 * time.Second):
			return o, errors.New("setup: server did not see the peers")
		}
	}
	start := make(chan struct{})
	var panics atomic.Int64
	var wg sync.WaitGroup
	for i := 0; i < k.nstop; i++ {
		wg.Add(1)
		go func() {
			defer wg.Done()
			defer func() {
				if recover() != nil {
					panics.Add(1)
				}
			}()
			<-start
			stop()
		}()
	}
	close(start)
	stopped := make(chan struct{})
	go func() { wg.Wait(); close(stopped) }()
	select {
	case <-stopped:
		o.closers = true
	case <-time.After(c09Watchdog):
	}
	select {
	case <-serveErr:
		o.serve = true
	case <-time.After(c09Watchdog):
	}
	o.done = true
	wd := c09After(c09Watchdog)
	mu.Lock()
	ds := append([]<-chan struct{}(nil), dones...)
	n := nops
	mu.Unlock()
	for _, d := range ds {
		select {
		case <-d:
		case <-wd:
			o.done = false
		}
	}
	o.ops = true
	for i := 0; i < n; i++ {
		select {
		case <-opRes:
		case <-wd:
			o.ops = false
		}
	}
	func() { // Stop after everything is down
		defer func() {
			if recover() != nil {
				panics.Add(1)
			}
		}()
		stop()
	}()
	o.panic_ = panics.Load() != 0
	mu.Lock()
	for _, c := range counts {
		o.cb = append(o.cb, c.Load())
	}
	mu.Unlock()
	return o, nil
}

// ---------- discovery ----------
type c09DiscCase struct {
	started    bool
	peer, trig int
}

func (k c09DiscCase) desc() string {
	return fmt.Sprintf("disc %s %d %d", coqBool(k.started), k.peer, k.trig)
}

func runC09Disc(k c09DiscCase, seed uint64) (bool, int, error) {
	rng := NewRng(seed)
	peer, err := net.ListenUDP("udp4", &net.UDPAddr{IP: net.IPv4(127, 0, 0, 1)})
	if err != nil {
		return false, 0, err
	}
	defer peer.Close()
	ld, err := coapNet.NewListenUDP("udp4", "127.0.0.1:0")
	if err != nil {
		return false, 0, err
	}
	defer ld.Close()
	s := udp.NewServer(options.WithErrors(func(error) {}), options.WithMux(mux.NewRouter()),
		options.WithPeriodicRunner(func(func(now time.Time) bool) {}))
	var _ *udpServer.Server = s
	serveErr := make(chan error, 1)
	if k.started {
		go func() { serveErr <- s.Serve(ld) }()
	}
	defer func() {
		s.Stop()
		if k.started {
			select {
			case <-serveErr:
			case <-time.After(10 * time.Second):
			}
		}
	}()
	got := make(chan *net.UDPAddr, 8)
	go func() {
		buf := make([]byte, 2048)
		for {
			_, a, err := peer.ReadFromUDP(buf)
			if err != nil {
				return
			}
			got <- a
		}
	}()
	var ctx context.Context
	cancel := func() {}
	var dctx *c09DeadlineCtx
	switch k.trig {
	case 0:
		ctx, cancel = context.WithCancel(context.Background())
	case 1:
		dctx = newC09DeadlineCtx()
		ctx = dctx
	default:
		ctx = context.Background()
	}
	defer cancel()
	res := make(chan error, 1)
	go func() {
		defer func() {
			if r := recover(); r != nil {
				res <- fmt.Errorf("panic: %v", r)
			}
		}()
		res <- s.Discover(ctx, peer.LocalAddr().String(), "/oic/res", func(*udpClient.Conn, *pool.Message) {})
	}()
	if k.started {
		select {
		case a := <-got: // the request is on the wire
			if k.peer == 1 {
				for i := 0; i < 3; i++ {
					b := make([]byte, 1+rng.Intn(10))
					for j := range b {
						b[j] = byte(rng.Intn(256))
					}
					_, _ = peer.WriteToUDP(b, a)
				}
			}
		case err := <-res:
			return true, c09ErrClass(err), nil
		case <-time.After(10 * time.Second):
			return false, 0, errors.New("setup: discovery request not written")
		}
	}
	switch k.trig {
	case 0:
		cancel()
	case 1:
		dctx.expire()
	case 2:
		s.Stop()
	}
	select {
	case err := <-res:
		return true, c09ErrClass(err), nil
	case <-time.After(c09Watchdog):
		return false, 0, nil
	}
}

// ---------- driver ----------
func coqZList(v []int64) string {
	parts := make([]string, len(v))
	for i, x := range v {
		parts[i] = coqZ(x)
	}
	return "[" + strings.Join(parts, "; ") + "]"
}

func runC09(a runArgs) error {
	e := NewEmitter("C09", "Liveness.Run")
	e.ShardSize = 400
	e.Rule = "watchdog runs of the real client/server code: (transport: in-memory udp, tcp + real tcp/client.Session over a scripted net.Conn, udp + real dtls/server.Session over a scripted net.Conn, udp.Dial over loopback) x operation (request, observe, observation cancel, ping, confirmable / non-confirmable one-way write) x interruption point (before the call, on the wire, after an empty ACK, mid block-wise, queued behind the endpoint limit / total limit / NSTART) x peer behaviour (silence, garbage, unrelated well-formed messages) x trigger (cancel, deadline, local Close, peer close, none = proper answer as control); discovery on a started / not yet started server; 2-8 concurrent Close calls with 0-3 operations in flight and 1-4 on-close callbacks on the three real session types; 2-8 concurrent Server.Stop calls with server-initiated operations in flight (udp and tcp server); an operation whose write is stalled in the socket because the peer stopped reading (tcp and dtls session over a scripted conn whose Write blocks until it is closed; real loopback tcp with a body beyond the socket buffers) x (1-8 concurrent Close, peer closes, context cancelled / expired); the reader loop ended by the peer (input that does not decode, oversized message, peer closes) with 0-3 operations in flight and nobody calling Close, socket owned by the session or by the caller (tcp, dtls, udp.Dial / udp.Client over an own socket); 1-3 concurrent Server.Stop calls of a datagram server with 1-8 peers racing with the exit path of Serve for the peer table (a Stop call takes the table while the Serve goroutine is kept inside OnNewConn of a late peer and Serve returns while that call still works through the table; or Stop while Serve reads); the housekeeping (Conn.CheckExpirations driven with a virtual time, directly or through the function registered with the periodic runner) retransmitting / giving up the pending confirmable request, observe, observation cancel, ping or one-way write (retransmissions used up, deadline of the request's context passed, two housekeeping goroutines at once) before the call's context is cancelled / expires / the connection is closed, plus a call made afterwards; on-close callbacks registered while the connection shuts down (by an on-close callback itself, or by another goroutine while an on-close callback runs) on the three real session types; 1-3 concurrent Server.Stop calls of a stream server (tcp, tls) while an accepted connection with a silent peer is still being set up (inside its OnNewConn hook while Serve closes its table; inside the TLS handshake) next to 0-3 fully registered connections. Distinct = distinct scenario; non-trivial = the operation is blocked in a wait when the trigger fires (every scenario except the non-confirmable write), or a close/stop run with at least one callback."
	if os.Getenv("HX_CONFIRM") != "" {
		c09Watchdog = 10 * time.Second
	}
	thorough := a.tier == "thorough"
	if thorough {
		c09Watchdog = 8 * time.Second
	}
	var setupErrs []string
	doOp := func(k c09OpCase) {
		var ret bool
		var cls int
		var err error
		for attempt := 0; attempt < 3; attempt++ { // a failed SETUP (not an observation) is retried
			ret, cls, err = runC09Op(k, a.seed*1000003+uint64(k.tr*10000+k.op*1000+k.pt*100+k.peer*10+k.trig))
			if err == nil {
				break
			}
		}
		if err != nil {
			setupErrs = append(setupErrs, k.desc()+": "+err.Error())
			return
		}
		e.Add(fmt.Sprintf("Op %d %d %d %d %d %s %d", k.tr, k.op, k.pt, k.peer, k.trig, coqBool(ret), cls), k.desc(), k.op != 5,
			fmt.Sprintf("tr%d", k.tr), fmt.Sprintf("op%d", k.op), fmt.Sprintf("pt%d", k.pt), fmt.Sprintf("peer%d", k.peer), fmt.Sprintf("trig%d", k.trig),
			fmt.Sprintf("ret-%s-err%d", coqBool(ret), cls))
	}
	doClose := func(k c09CloseCase) {
		var o c09CloseObs
		var err error
		for attempt := 0; attempt < 3; attempt++ {
			o, err = runC09Close(k)
			if err == nil {
				break
			}
		}
		if err != nil {
			setupErrs = append(setupErrs, k.desc()+": "+err.Error())
			return
		}
		e.Add(fmt.Sprintf("CloseRun %d %s %d %d %d %s %s %s %s %s", k.tr, coqBool(k.sock), k.nclose, k.ncb, k.inflight, coqZList(o.cb),
			coqBool(o.done), coqBool(o.closers), coqBool(o.panic_), coqBool(o.ops)), k.desc(), k.ncb > 0,
			fmt.Sprintf("close-tr%d", k.tr), fmt.Sprintf("nclose%d", k.nclose), fmt.Sprintf("inflight%d", k.inflight))
	}
	doStop := func(k c09StopCase) {
		var o c09StopObs
		var err error
		for attempt := 0; attempt < 3; attempt++ {
			o, err = runC09Stop(k)
			if err == nil {
				break
			}
		}
		if err != nil {
			setupErrs = append(setupErrs, k.desc()+": "+err.Error())
			return
		}
		e.Add(fmt.Sprintf("StopRun %d %d %d %d %s %s %s %s %s %s", k.srv, k.nstop, k.nconn, k.ncb, coqZList(o.cb),
			coqBool(o.done), coqBool(o.closers), coqBool(o.panic_), coqBool(o.ops), coqBool(o.serve)), k.desc(), k.ncb > 0,
			fmt.Sprintf("stop-srv%d", k.srv), fmt.Sprintf("nstop%d", k.nstop))
	}
	doDisc := func(k c09DiscCase) {
		ret, cls, err := runC09Disc(k, a.seed*7919+uint64(k.peer*10+k.trig))
		if err != nil {
			setupErrs = append(setupErrs, k.desc()+": "+err.Error())
			return
		}
		e.Add(fmt.Sprintf("Disc %s %d %d %s %d", coqBool(k.started), k.peer, k.trig, coqBool(ret), cls), k.desc(), true,
			"disc", fmt.Sprintf("disc-started-%s", coqBool(k.started)), fmt.Sprintf("disc-trig%d", k.trig))
	}

	doStall := func(k c09StallCase, o c09StallObs) {
		e.Add(fmt.Sprintf("Stall %d %d %d %d %d %s %s %s %s %s %d", k.tr, k.op, k.trig, k.nclose, k.ncb, coqZList(o.cb),
			coqBool(o.done), coqBool(o.closers), coqBool(o.panic_), coqBool(o.op), o.err), k.desc(), true,
			"stall", fmt.Sprintf("stall-tr%d", k.tr), fmt.Sprintf("stall-op%d", k.op), fmt.Sprintf("stall-trig%d", k.trig))
	}
	doRend := func(k c09ReaderEndCase, o c09ReaderEndObs) {
		e.Add(fmt.Sprintf("ReaderEnd %d %s %d %d %d %s %s %s %s %s", k.tr, coqBool(k.sock), k.cause, k.ninfl, k.ncb, coqZList(o.cb),
			coqBool(o.done), coqBool(o.ctx), coqBool(o.ops), coqBool(o.late)), k.desc(), true,
			"rend", fmt.Sprintf("rend-tr%d", k.tr), fmt.Sprintf("rend-sock-%s", coqBool(k.sock)), fmt.Sprintf("rend-cause%d", k.cause))
	}
	doSrace := func(k c09SraceCase, o c09SraceObs) {
		e.Add(fmt.Sprintf("StopRace %d %d %d %d %d %s %s %s %s %s", k.who, k.nstop, k.npeers, k.ncb, o.nconn, coqZList(o.cb),
			coqBool(o.done), coqBool(o.closers), coqBool(o.panic_), coqBool(o.serve)), k.desc(), true,
			"srace", fmt.Sprintf("srace-who%d", k.who), fmt.Sprintf("srace-nstop%d", k.nstop), fmt.Sprintf("srace-npeers%d", k.npeers))
	}
	doTick := func(k c09TickCase, o c09TickObs) {
		e.Add(fmt.Sprintf("Tick %d %d %d %d %s %s %d %s", k.tr, k.op, k.mode, k.trig, coqBool(o.tick), coqBool(o.ret), o.err, coqBool(o.late)),
			k.desc(), true,
			"tick", fmt.Sprintf("tick-tr%d", k.tr), fmt.Sprintf("tick-op%d", k.op), fmt.Sprintf("tick-mode%d", k.mode), fmt.Sprintf("tick-trig%d", k.trig))
	}
	doReg := func(k c09RegCase, o c09RegObs) {
		e.Add(fmt.Sprintf("RegRun %d %d %d %d %d %s %s %s %s", k.tr, k.mode, k.ncb, k.nlate, k.who, coqZList(o.cb), coqZList(o.late),
			coqBool(o.done), coqBool(o.closers)), k.desc(), true,
			"reg", fmt.Sprintf("reg-tr%d", k.tr), fmt.Sprintf("reg-mode%d", k.mode), fmt.Sprintf("reg-nlate%d", k.nlate))
	}
	doSetup := func(k c09SetupCase, o c09SetupObs) {
		e.Add(fmt.Sprintf("SetupStop %d %d %d %d %d %s %s %s %s %s %s", k.mode, k.nstop, k.nreg, k.ncb, o.nconn, coqZList(o.cb),
			coqBool(o.done), coqBool(o.ctx), coqBool(o.closers), coqBool(o.panic_), coqBool(o.serve)), k.desc(), true,
			"setup", fmt.Sprintf("setup-mode%d", k.mode), fmt.Sprintf("setup-nstop%d", k.nstop), fmt.Sprintf("setup-nreg%d", k.nreg))
	}
	runReg := func(k c09RegCase) (o c09RegObs, err error) {
		for attempt := 0; attempt < 3; attempt++ { // a failed SETUP (not an observation) is retried
			if o, err = runC09Reg(k); err == nil {
				break
			}
		}
		return o, err
	}
	runSetup := func(k c09SetupCase) (o c09SetupObs, err error) {
		for attempt := 0; attempt < 3; attempt++ {
			if o, err = runC09Setup(k); err == nil {
				break
			}
		}
		return o, err
	}
	runSrace := func(k c09SraceCase) (o c09SraceObs, err error) {
		for attempt := 0; attempt < 3; attempt++ { // a failed SETUP (not an observation) is retried
			if o, err = runC09Srace(k); err == nil {
				break
			}
		}
		return o, err
	}
	runTick := func(k c09TickCase) (o c09TickObs, err error) {
		for attempt := 0; attempt < 3; attempt++ {
			if o, err = runC09Tick(k); err == nil {
				break
			}
		}
		return o, err
	}
	runStall := func(k c09StallCase) (o c09StallObs, err error) {
		for attempt := 0; attempt < 3; attempt++ { // a failed SETUP (not an observation) is retried
			if o, err = runC09Stall(k); err == nil {
				break
			}
		}
		return o, err
	}
	runRend := func(k c09ReaderEndCase) (o c09ReaderEndObs, err error) {
		for attempt := 0; attempt < 3; attempt++ {
			if o, err = runC09ReaderEnd(k); err == nil {
				break
			}
		}
		return o, err
	}

	if a.only != "" {
		f := strings.Fields(a.only)
		atoi := func(s string) int { v, _ := strconv.Atoi(s); return v }
		switch {
		case f[0] == "op" && len(f) == 6:
			doOp(c09OpCase{atoi(f[1]), atoi(f[2]), atoi(f[3]), atoi(f[4]), atoi(f[5])})
		case f[0] == "close" && len(f) == 6:
			doClose(c09CloseCase{atoi(f[1]), f[2] == "true", atoi(f[3]), atoi(f[4]), atoi(f[5])})
		case f[0] == "stop" && len(f) == 5:
			doStop(c09StopCase{atoi(f[1]), atoi(f[2]), atoi(f[3]), atoi(f[4])})
		case f[0] == "disc" && len(f) == 4:
			doDisc(c09DiscCase{f[1] == "true", atoi(f[2]), atoi(f[3])})
		case f[0] == "stall" && len(f) == 6:
			k := c09StallCase{atoi(f[1]), atoi(f[2]), atoi(f[3]), atoi(f[4]), atoi(f[5])}
			if o, err := runStall(k); err != nil {
				setupErrs = append(setupErrs, k.desc()+": "+err.Error())
			} else {
				doStall(k, o)
			}
		case f[0] == "rend" && len(f) == 6:
			k := c09ReaderEndCase{atoi(f[1]), f[2] == "true", atoi(f[3]), atoi(f[4]), atoi(f[5])}
			if o, err := runRend(k); err != nil {
				setupErrs = append(setupErrs, k.desc()+": "+err.Error())
			} else {
				doRend(k, o)
			}
		case f[0] == "srace" && len(f) == 5:
			k := c09SraceCase{atoi(f[1]), atoi(f[2]), atoi(f[3]), atoi(f[4])}
			if o, err := runSrace(k); err != nil {
				setupErrs = append(setupErrs, k.desc()+": "+err.Error())
			} else {
				doSrace(k, o)
			}
		case f[0] == "tick" && len(f) == 5:
			k := c09TickCase{atoi(f[1]), atoi(f[2]), atoi(f[3]), atoi(f[4])}
			if o, err := runTick(k); err != nil {
				setupErrs = append(setupErrs, k.desc()+": "+err.Error())
			} else {
				doTick(k, o)
			}
		case f[0] == "reg" && len(f) == 6:
			k := c09RegCase{atoi(f[1]), atoi(f[2]), atoi(f[3]), atoi(f[4]), atoi(f[5])}
			if o, err := runReg(k); err != nil {
				setupErrs = append(setupErrs, k.desc()+": "+err.Error())
			} else {
				doReg(k, o)
			}
		case f[0] == "setup" && len(f) == 5:
			k := c09SetupCase{atoi(f[1]), atoi(f[2]), atoi(f[3]), atoi(f[4])}
			if o, err := runSetup(k); err != nil {
				setupErrs = append(setupErrs, k.desc()+": "+err.Error())
			} else {
				doSetup(k, o)
			}
		default:
			return fmt.Errorf("bad descriptor %q", a.only)
		}
		if len(setupErrs) > 0 {
			return errors.New(strings.Join(setupErrs, "; "))
		}
		return e.Flush(a.out)
	}

	// operations: the whole (applicable) product on the in-memory udp transport and on tcp; a reduced product on
	// the two other transports in the quick tier, the whole one in the thorough tier
	var ops []c09OpCase
	for _, tr := range []int{0, 1, 2, 3} {
		for op := 0; op <= 5; op++ {
			for pt := 0; pt <= 6; pt++ {
				for peer := 0; peer <= 2; peer++ {
					for trig := 0; trig <= 4; trig++ {
						k := c09OpCase{tr, op, pt, peer, trig}
						if !c09OpApplicable(k) {
							continue
						}
						if pt == 0 && peer != 0 {
							continue // nothing has been sent: the peer has nothing to react to
						}
						if !thorough {
							if (tr == 2 || tr == 3) && (peer != 0 || pt >= 3) {
								continue
							}
							if peer == 2 && trig != 0 && trig != 2 {
								continue
							}
						}
						ops = append(ops, k)
					}
				}
			}
		}
	}
	if thorough { // the same scenarios again: other goroutine interleavings, other garbage
		ops = append(append(append([]c09OpCase(nil), ops...), ops...), ops...)
	}
	// run in parallel: every scenario owns its connection
	par := 8
	var wgOps sync.WaitGroup
	sem := make(chan struct{}, par)
	var emu sync.Mutex
	type opOut struct {
		k        c09OpCase
		ret      bool
		cls      int
		err      error
		attempts int
	}
	outs := make([]opOut, len(ops))
	for i, k := range ops {
		wgOps.Add(1)
		sem <- struct{}{}
		go func(i int, k c09OpCase) {
			defer wgOps.Done()
			defer func() { <-sem }()
			var o opOut
			o.k = k
			for attempt := 0; attempt < 3; attempt++ {
				o.ret, o.cls, o.err = runC09Op(k, a.seed*1000003+uint64(i*100000+k.tr*10000+k.op*1000+k.pt*100+k.peer*10+k.trig))
				if o.err == nil {
					break
				}
			}
			emu.Lock()
			outs[i] = o
			emu.Unlock()
		}(i, k)
	}
	wgOps.Wait()
	for _, o := range outs {
		k := o.k
		if o.err != nil {
			setupErrs = append(setupErrs, k.desc()+": "+o.err.Error())
			continue
		}
		e.Add(fmt.Sprintf("Op %d %d %d %d %d %s %d", k.tr, k.op, k.pt, k.peer, k.trig, coqBool(o.ret), o.cls), k.desc(), k.op != 5,
			fmt.Sprintf("tr%d", k.tr), fmt.Sprintf("op%d", k.op), fmt.Sprintf("pt%d", k.pt), fmt.Sprintf("peer%d", k.peer), fmt.Sprintf("trig%d", k.trig),
			fmt.Sprintf("ret-%s-err%d", coqBool(o.ret), o.cls))
	}
	_ = doOp

	for _, started := range []bool{true, false} {
		for peer := 0; peer <= 1; peer++ {
			for trig := 0; trig <= 2; trig++ {
				if !started && peer != 0 {
					continue
				}
				doDisc(c09DiscCase{started, peer, trig})
			}
		}
	}

	rng := NewRng(a.seed)
	nclose := []int{2, 3, 8}
	if thorough {
		nclose = []int{2, 3, 4, 5, 6, 7, 8}
	}
	reps := 2
	if thorough {
		reps = 20
	}
	for rep := 0; rep < reps; rep++ {
		for _, tr := range []int{1, 2, 3, 4} {
			for _, sock := range []bool{true, false} {
				if (tr == 3 && !sock) || (tr == 4 && sock) {
					continue
				}
				for _, n := range nclose {
					doClose(c09CloseCase{tr, sock, n, 1 + rng.Intn(4), rng.Intn(4)})
				}
			}
		}
		for _, srv := range []int{0, 1} {
			for _, n := range nclose {
				doStop(c09StopCase{srv, n, 1 + rng.Intn(3), 1 + rng.Intn(3)})
			}
		}
	}
	// ---------- stalled writes; reader loops ended by the peer ----------
	var stalls []c09StallCase
	for _, tr := range []int{1, 2} {
		for _, op := range []int{0, 1, 2, 3, 4, 5} {
			if tr == 1 && op == 5 {
				continue // tcp has one kind of one-way write
			}
			if !thorough && tr == 2 && (op == 1 || op == 2) {
				continue
			}
			stalls = append(stalls, c09StallCase{tr, op, 2, 1 + rng.Intn(3), 1 + rng.Intn(3)})
			if thorough || op == 0 || op == 3 {
				stalls = append(stalls, c09StallCase{tr, op, 3, 0, 1 + rng.Intn(3)})
			}
			if thorough {
				stalls = append(stalls, c09StallCase{tr, op, 2, 4 + rng.Intn(5), 1 + rng.Intn(3)})
			}
		}
	}
	// the caller's context ends while the write is stalled (stream transport)
	stalls = append(stalls, c09StallCase{1, 0, 0, 0, 1})
	if thorough {
		stalls = append(stalls, c09StallCase{1, 3, 1, 0, 1}, c09StallCase{1, 1, 0, 0, 2}, c09StallCase{1, 4, 1, 0, 1})
	}
	var rends []c09ReaderEndCase
	rendReps := 1
	if thorough {
		rendReps = 4
	}
	for rep := 0; rep < rendReps; rep++ {
		for _, tr := range []int{1, 2, 3} {
			for _, sock := range []bool{true, false} {
				for cause := 0; cause <= 2; cause++ {
					if cause == 2 && tr == 3 {
						continue // a datagram peer cannot close
					}
					ninfl := 1 + rng.Intn(3)
					if rep > 0 {
						ninfl = rng.Intn(4)
					}
					rends = append(rends, c09ReaderEndCase{tr, sock, cause, ninfl, 1 + rng.Intn(3)})
				}
			}
		}
	}
	{
		stallOut := make([]c09StallObs, len(stalls))
		stallErr := make([]error, len(stalls))
		rendOut := make([]c09ReaderEndObs, len(rends))
		rendErr := make([]error, len(rends))
		var wg sync.WaitGroup
		sem2 := make(chan struct{}, 8)
		for i := range stalls {
			wg.Add(1)
			sem2 <- struct{}{}
			go func(i int) {
				defer wg.Done()
				defer func() { <-sem2 }()
				stallOut[i], stallErr[i] = runStall(stalls[i])
			}(i)
		}
		for i := range rends {
			wg.Add(1)
			sem2 <- struct{}{}
			go func(i int) {
				defer wg.Done()
				defer func() { <-sem2 }()
				rendOut[i], rendErr[i] = runRend(rends[i])
			}(i)
		}
		wg.Wait()
		for i, k := range stalls {
			if stallErr[i] != nil {
				setupErrs = append(setupErrs, k.desc()+": "+stallErr[i].Error())
				continue
			}
			doStall(k, stallOut[i])
		}
		for i, k := range rends {
			if rendErr[i] != nil {
				setupErrs = append(setupErrs, k.desc()+": "+rendErr[i].Error())
				continue
			}
			doRend(k, rendOut[i])
		}
	}
	// ---------- Stop against the exit path of Serve; housekeeping on the table of pending message IDs ----------
	{
		var sraces []c09SraceCase
		sreps := 1
		if thorough {
			sreps = 6
		}
		for rep := 0; rep < sreps; rep++ {
			for _, who := range []int{0, 1} {
				for _, nstop := range []int{1, 2, 3} {
					if !thorough && who == 1 && nstop == 3 {
						continue
					}
					sraces = append(sraces, c09SraceCase{who, nstop, 2 + rng.Intn(7), 1 + rng.Intn(3)})
				}
			}
			sraces = append(sraces, c09SraceCase{0, 1, 1, 1 + rng.Intn(2)}) // a single peer besides the late one
		}
		var ticks []c09TickCase
		for _, tr := range []int{0, 2, 3} {
			for _, op := range []int{0, 1, 2, 3, 4} {
				for mode := 0; mode <= 3; mode++ {
					for _, trig := range []int{0, 1, 2, 4} {
						k := c09TickCase{tr, op, mode, trig}
						if !c09TickApplicable(k) {
							continue
						}
						if !thorough && tr != 0 && (op == 1 || op == 2 || op == 4) {
							continue
						}
						ticks = append(ticks, k)
					}
				}
			}
		}
		if thorough {
			ticks = append(append([]c09TickCase(nil), ticks...), ticks...)
		}
		sraceOut := make([]c09SraceObs, len(sraces))
		sraceErr := make([]error, len(sraces))
		tickOut := make([]c09TickObs, len(ticks))
		tickErr := make([]error, len(ticks))
		var wg sync.WaitGroup
		sem3 := make(chan struct{}, 8)
		for i := range sraces {
			wg.Add(1)
			sem3 <- struct{}{}
			go func(i int) {
				defer wg.Done()
				defer func() { <-sem3 }()
				sraceOut[i], sraceErr[i] = runSrace(sraces[i])
			}(i)
		}
		for i := range ticks {
			wg.Add(1)
			sem3 <- struct{}{}
			go func(i int) {
				defer wg.Done()
				defer func() { <-sem3 }()
				tickOut[i], tickErr[i] = runTick(ticks[i])
			}(i)
		}
		wg.Wait()
		for i, k := range sraces {
			if sraceErr[i] != nil {
				setupErrs = append(setupErrs, k.desc()+": "+sraceErr[i].Error())
				continue
			}
			doSrace(k, sraceOut[i])
		}
		for i, k := range ticks {
			if tickErr[i] != nil {
				setupErrs = append(setupErrs, k.desc()+": "+tickErr[i].Error())
				continue
			}
			doTick(k, tickOut[i])
		}
	}
	// ---------- registration during shutdown (parallel); Stop while a connection is set up (sequential) ----------
	{
		var regs []c09RegCase
		rreps := 1
		if thorough {
			rreps = 4
		}
		for rep := 0; rep < rreps; rep++ {
			for _, tr := range []int{1, 2, 3} {
				for _, mode := range []int{0, 1} {
					// the callback that registers / is slow is the first one: everything behind it is still to run
					regs = append(regs, c09RegCase{tr, mode, 2, 2, 0}, c09RegCase{tr, mode, 3 + rng.Intn(2), 2 + rng.Intn(3), 0})
					ncb := 3 + rng.Intn(2)
					regs = append(regs, c09RegCase{tr, mode, ncb, 1 + rng.Intn(4), rng.Intn(ncb)})
					if thorough {
						regs = append(regs, c09RegCase{tr, mode, 1 + rng.Intn(4), 5 + rng.Intn(4), 0})
					}
				}
			}
		}
		regOut := make([]c09RegObs, len(regs))
		regErr := make([]error, len(regs))
		var wg sync.WaitGroup
		sem4 := make(chan struct{}, 8)
		for i := range regs {
			wg.Add(1)
			sem4 <- struct{}{}
			go func(i int) {
				defer wg.Done()
				defer func() { <-sem4 }()
				regOut[i], regErr[i] = runReg(regs[i])
			}(i)
		}
		wg.Wait()
		for i, k := range regs {
			if regErr[i] != nil {
				setupErrs = append(setupErrs, k.desc()+": "+regErr[i].Error())
				continue
			}
			doReg(k, regOut[i])
		}
		var setups []c09SetupCase
		sreps := 1
		if thorough {
			sreps = 5
		}
		for rep := 0; rep < sreps; rep++ {
			for _, mode := range []int{0, 1} {
				for _, nstop := range []int{1, 2, 3} {
					nreg := 1 + rng.Intn(3)
					if mode == 1 && nstop == 1 {
						nreg = 0 // nobody but the silent peer
					}
					setups = append(setups, c09SetupCase{mode, nstop, nreg, 1 + rng.Intn(3)})
				}
			}
		}
		for _, k := range setups {
			o, err := runSetup(k)
			if err != nil {
				setupErrs = append(setupErrs, k.desc()+": "+err.Error())
				continue
			}
			doSetup(k, o)
		}
	}
	// real loopback tcp, peer never reads: sequential (the witness is a stack snapshot of the whole process)
	realStalls := []c09StallCase{{6, 6, 2, 1, 2}, {6, 6, 2, 3, 1}, {6, 6, 3, 0, 1}}
	if thorough {
		realStalls = append(realStalls, c09StallCase{6, 6, 2, 8, 3}, c09StallCase{6, 6, 0, 0, 1}, c09StallCase{6, 6, 1, 0, 1})
	}
	for _, k := range realStalls {
		o, err := runStall(k)
		if err != nil {
			setupErrs = append(setupErrs, k.desc()+": "+err.Error())
			continue
		}
		doStall(k, o)
	}
	if len(setupErrs) > 0 {
		e.Extra["setup_errors"] = setupErrs
		if len(setupErrs) > 3 {
			return fmt.Errorf("%d scenarios could not be set up, first: %s", len(setupErrs), setupErrs[0])
		}
	}
	e.Extra["watchdog_s"] = c09Watchdog.Seconds()
	return e.Flush(a.out)
}

var _ = tcpServer.New
