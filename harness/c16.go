package main

// C16 -- parallel-request limits (net/client/limitParallelRequests).
//
// The real limiter is driven with forced histories of events
//   a<r>.<k>  request r for path k calls Do          A<r>.<k>  the same with an already cancelled context
//   c<r>      r's context is cancelled                f<r>      the wrapped function of r returns
// After every event the driver waits until every request goroutine is blocked (in the select of
// acquireEndpoint, in the select of semaphore.Acquire, inside the wrapped function) or has
// returned; that is read off an all-goroutine stack dump (a stop-the-world snapshot), never
// guessed by sleeping.  What is recorded after each event: what every request is doing, the
// gauge per path counted inside the wrapped function, and -- read with reflect+unsafe from the
// private tables -- (processedCounter, len(orderedRequest)) per path and (cur, len(waiters)) of
// the semaphore.
//
// Delayed goroutines (the order "a waiter's context is cancelled, and something else happens
// before the waiter's goroutine has reacted"): the scheduling point "ep-ctx-done" of the limiter
// (build tag verif; acquireEndpoint, after the select took <-ctx.Done(), before cancelEndpoint)
// parks the goroutine of a request that the driver marked:
//   H<r>      r's context is cancelled, r notices it and is parked at the scheduling point
//   u<r>      r's goroutine continues
// A parked goroutine is at rest; it is recognised in the stack dump like the others
// ([chan receive] inside c16HoldPoint), never by timing.

import (
	"bytes"
	"context"
	"errors"
	"fmt"
	"hash/crc64"
	"reflect"
	"runtime"
	"strconv"
	"strings"
	"sync"
	"sync/atomic"
	"time"
	"unsafe"

	"github.com/plgd-dev/go-coap/v3/message"
	"github.com/plgd-dev/go-coap/v3/message/codes"
	"github.com/plgd-dev/go-coap/v3/message/pool"
	limitparallelrequests "github.com/plgd-dev/go-coap/v3/net/client/limitParallelRequests"
)

func init() { props["C16"] = runC16 }

const (
	c16NotYet     = 0
	c16WaitEp     = 1
	c16WaitTot    = 2
	c16InFlight   = 3
	c16DoneOk     = 4
	c16ErrEp      = 5
	c16ErrTot     = 6
	c16Bad        = 7  // panic, unexpected result
	c16Hang       = 8  // goroutine never came to rest
	c16Cancelling = 10 // parked at the scheduling point "ep-ctx-done" (cancelled, noticed, not yet acted)
)

type c16Ev struct {
	kind byte // 'a' 'A' 'c' 'f' 'H' 'u'
	r, k int
}

func (e c16Ev) desc() string {
	if e.kind == 'a' || e.kind == 'A' {
		return fmt.Sprintf("%c%d.%d", e.kind, e.r, e.k)
	}
	return fmt.Sprintf("%c%d", e.kind, e.r)
}

func (e c16Ev) coq() string {
	switch e.kind {
	case 'a':
		return fmt.Sprintf("EArr %d %d", e.r, e.k)
	case 'A':
		return fmt.Sprintf("EArrC %d %d", e.r, e.k)
	case 'c':
		return fmt.Sprintf("ECan %d", e.r)
	case 'H':
		return fmt.Sprintf("ECanH %d", e.r)
	case 'u':
		return fmt.Sprintf("ERes %d", e.r)
	}
	return fmt.Sprintf("EFin %d", e.r)
}

func c16ParseEvents(s string) []c16Ev {
	var evs []c16Ev
	if s == "" || s == "-" {
		return evs
	}
	for _, p := range strings.Split(s, ",") {
		e := c16Ev{kind: p[0]}
		rest := p[1:]
		if i := strings.IndexByte(rest, '.'); i >= 0 {
			e.r, _ = strconv.Atoi(rest[:i])
			e.k, _ = strconv.Atoi(rest[i+1:])
		} else {
			e.r, _ = strconv.Atoi(rest)
		}
		evs = append(evs, e)
	}
	return evs
}

type c16Req struct {
	id, key  int
	msg      *pool.Message
	resp     *pool.Message
	cancel   context.CancelFunc
	finish   chan struct{}
	finished bool
	gid      int64
	done     atomic.Int32 // 0 = Do has not returned, else a c16Done*/c16Err*/c16Bad code
	launched bool
	hold     atomic.Bool   // park this request's goroutine at the scheduling point "ep-ctx-done"
	resume   chan struct{} // closed by the driver: the parked goroutine continues
	resumed  bool
}

type c16Obs struct {
	sts  []int
	keys [][3]int64 // gauge, counter (-1 absent), queue length
	sem  [2]int64
}

func (o c16Obs) coq() string {
	var sb strings.Builder
	sb.WriteString("Ob [")
	for i, s := range o.sts {
		if i > 0 {
			sb.WriteString(";")
		}
		fmt.Fprintf(&sb, "%d", s)
	}
	sb.WriteString("]%N [")
	for i, k := range o.keys {
		if i > 0 {
			sb.WriteString(";")
		}
		fmt.Fprintf(&sb, "(%s,%s,%s)", coqZ(k[0]), coqZ(k[1]), coqZ(k[2]))
	}
	fmt.Fprintf(&sb, "] (%s,%s)", coqZ(o.sem[0]), coqZ(o.sem[1]))
	return sb.String()
}

type c16Run struct {
	lim     *limitparallelrequests.LimitParallelRequests
	nk      int
	keyHash []uint64
	reqs    []*c16Req
	byMsg   sync.Map
	gauge   []atomic.Int64
	totalG  atomic.Int64
	maxG    []atomic.Int64
	maxTot  atomic.Int64
	yields  func() int // free-running mode: how often the wrapped function yields before returning
	extra   int        // table entries under unknown keys (must stay 0)
	byGid   sync.Map   // goroutine id -> *c16Req (forced histories)
}

// limiter -> run, for the scheduling-point callback
var c16Runs sync.Map

// c16Yield is installed as the limiter's scheduling-point callback.  Forced histories: the
// goroutine of a request marked by the driver parks here.  Free-running cases: the goroutine yields
// a few times, which widens the window between "context done" and cancelEndpoint.
func c16Yield(lim *limitparallelrequests.LimitParallelRequests, point string) {
	if point != "ep-ctx-done" {
		return
	}
	v, ok := c16Runs.Load(lim)
	if !ok {
		return
	}
	h := v.(*c16Run)
	if y := h.yields; y != nil {
		for i := y(); i > 0; i-- {
			runtime.Gosched()
		}
		return
	}
	if rv, ok := h.byGid.Load(curGid()); ok {
		if r := rv.(*c16Req); r.hold.Load() {
			c16HoldPoint(r)
		}
	}
}

//go:noinline
func c16HoldPoint(r *c16Req) {
	<-r.resume
}

func c16Path(k int) string { return "p" + strconv.Itoa(k) }

func newC16Run(tot, epl int64, nk int) *c16Run {
	h := &c16Run{nk: nk}
	h.gauge = make([]atomic.Int64, nk)
	h.maxG = make([]atomic.Int64, nk)
	tab := crc64.MakeTable(crc64.ISO)
	for k := 0; k < nk; k++ {
		h.keyHash = append(h.keyHash, crc64.Checksum([]byte(c16Path(k)), tab))
	}
	h.lim = limitparallelrequests.New(tot, epl, h.c16do, h.c16doObserve)
	c16Runs.Store(h.lim, h)
	return h
}

func atomicMax(m *atomic.Int64, v int64) {
	for {
		old := m.Load()
		if v <= old || m.CompareAndSwap(old, v) {
			return
		}
	}
}

// c16do is the wrapped function: it counts itself in, waits for the driver (or yields a few
// times in free-running mode), counts itself out.
func (h *c16Run) c16do(req *pool.Message) (*pool.Message, error) {
	v, _ := h.byMsg.Load(req)
	r := v.(*c16Req)
	atomicMax(&h.maxG[r.key], h.gauge[r.key].Add(1))
	atomicMax(&h.maxTot, h.totalG.Add(1))
	if h.yields != nil {
		for i := h.yields(); i > 0; i-- {
			runtime.Gosched()
		}
	} else {
		<-r.finish
	}
	h.totalG.Add(-1)
	h.gauge[r.key].Add(-1)
	if r.id%2 == 1 {
		return nil, errC16Do // the wrapped function fails: the limiter must clean up all the same
	}
	return r.resp, nil
}

var errC16Do = errors.New("c16: wrapped function failed")

type c16Observation struct{}

func (c16Observation) Cancel(context.Context, ...message.Option) error { return nil }
func (c16Observation) Canceled() bool                                  { return false }

// requests with id%3 == 2 go through DoObserve (same limiter calls, other wrapped function)
func (h *c16Run) c16doObserve(req *pool.Message, _ func(req *pool.Message)) (limitparallelrequests.Observation, error) {
	_, err := h.c16do(req)
	if err != nil {
		return nil, err
	}
	return c16Observation{}, nil
}

func (h *c16Run) newReq(id, key int, precancelled bool) *c16Req {
	ctx, cancel := context.WithCancel(context.Background())
	if precancelled {
		cancel()
	}
	m := pool.NewMessage(ctx)
	m.SetCode(codes.GET)
	_ = m.SetPath("/" + c16Path(key))
	r := &c16Req{id: id, key: key, msg: m, resp: pool.NewMessage(context.Background()), cancel: cancel, finish: make(chan struct{}), resume: make(chan struct{})}
	h.byMsg.Store(m, r)
	for len(h.reqs) <= id {
		h.reqs = append(h.reqs, nil)
	}
	h.reqs[id] = r
	return r
}

func curGid() int64 {
	var buf [64]byte
	n := runtime.Stack(buf[:], false)
	f := strings.Fields(string(buf[:n]))
	if len(f) < 2 {
		return -1
	}
	g, _ := strconv.ParseInt(f[1], 10, 64)
	return g
}

func (h *c16Run) call(r *c16Req) {
	defer func() {
		if p := recover(); p != nil {
			r.done.Store(c16Bad)
		}
	}()
	var resp *pool.Message
	var err error
	viaObserve := r.id%3 == 2
	if viaObserve {
		var o limitparallelrequests.Observation
		o, err = h.lim.DoObserve(r.msg, nil)
		if _, ok := o.(c16Observation); ok && err == nil {
			resp = r.resp
		}
	} else {
		resp, err = h.lim.Do(r.msg)
	}
	switch {
	case err == nil && resp == r.resp && r.id%2 == 0:
		r.done.Store(c16DoneOk)
	case err == errC16Do && resp == nil && r.id%2 == 1: // the wrapped function's own error, passed through unchanged
		r.done.Store(c16DoneOk)
	case err != nil && errors.Is(err, context.Canceled) && strings.Contains(err.Error(), "for client endpoint limit"):
		r.done.Store(c16ErrEp)
	case err != nil && errors.Is(err, context.Canceled) && strings.Contains(err.Error(), "for client limit"):
		r.done.Store(c16ErrTot)
	default:
		r.done.Store(c16Bad)
	}
}

func (h *c16Run) launch(r *c16Req) {
	started := make(chan struct{})
	r.launched = true
	go func() {
		r.gid = curGid()
		h.byGid.Store(r.gid, r)
		close(started)
		h.call(r)
	}()
	<-started
}

var c16StackBuf = make([]byte, 1<<20)

// c16Hangs counts histories in which some goroutine never came to rest; the first few get the
// generous timeout, later ones a short one (a broken limiter makes thousands of histories hang).
var c16Hangs int

// goroutine id -> (wait state, stack text) from a stop-the-world dump of all goroutines
func c16Dump() map[int64][2]string {
	n := runtime.Stack(c16StackBuf, true)
	res := map[int64][2]string{}
	for _, blk := range bytes.Split(c16StackBuf[:n], []byte("\n\n")) {
		s := string(blk)
		if !strings.HasPrefix(s, "goroutine ") {
			continue
		}
		nl := strings.IndexByte(s, '\n')
		if nl < 0 {
			nl = len(s)
		}
		head := s[:nl]
		f := strings.Fields(head)
		g, _ := strconv.ParseInt(f[1], 10, 64)
		lb, rb := strings.IndexByte(head, '['), strings.LastIndexByte(head, ']')
		state := ""
		if lb >= 0 && rb > lb {
			state = head[lb+1 : rb]
			if c := strings.IndexByte(state, ','); c >= 0 {
				state = state[:c]
			}
		}
		res[g] = [2]string{state, s[nl:]}
	}
	return res
}

// where is request r: a resting place, or -1 if its goroutine can still move
// (done is the request's result flag as read BEFORE the dump was taken: a goroutine that had
// returned by then had finished all its effects on the limiter before the snapshot)
func c16Classify(r *c16Req, done int32, dump map[int64][2]string) int {
	if done != 0 {
		return int(done)
	}
	g, ok := dump[r.gid]
	if !ok {
		return -1
	}
	state, body := g[0], g[1]
	switch {
	case state == "chan receive" && strings.Contains(body, ".c16do("):
		return c16InFlight
	case state == "chan receive" && strings.Contains(body, ".c16HoldPoint(") && strings.Contains(body, ").acquireEndpoint("):
		return c16Cancelling
	case state == "select" && strings.Contains(body, "semaphore.(*Weighted).Acquire("):
		return c16WaitTot
	case state == "select" && strings.Contains(body, ").acquireEndpoint("):
		return c16WaitEp
	}
	return -1
}

// settle waits until every launched request is at rest and returns the observation.
func (h *c16Run) settle(n int) c16Obs {
	patience := 10 * time.Second
	if c16Hangs >= 3 {
		patience = 300 * time.Millisecond
	}
	deadline := time.Now().Add(patience)
	sts := make([]int, n)
	for spin := 0; ; spin++ {
		runtime.Gosched()
		done := make([]int32, n)
		for i := 0; i < n && i < len(h.reqs); i++ {
			if h.reqs[i] != nil {
				done[i] = h.reqs[i].done.Load()
			}
		}
		dump := c16Dump()
		moving := false
		for i := 0; i < n; i++ {
			sts[i] = c16NotYet
			if i < len(h.reqs) && h.reqs[i] != nil && h.reqs[i].launched {
				c := c16Classify(h.reqs[i], done[i], dump)
				if c < 0 {
					moving = true
					c = c16Hang
				}
				sts[i] = c
			}
		}
		if !moving {
			break
		}
		if time.Now().After(deadline) {
			c16Hangs++
			break
		}
		if spin > 200 {
			time.Sleep(50 * time.Microsecond) // back off while polling; the exit condition is the snapshot above
		}
	}
	o := c16Obs{sts: sts}
	for k := 0; k < h.nk; k++ {
		o.keys = append(o.keys, [3]int64{h.gauge[k].Load(), -1, 0})
	}
	h.readTables(&o)
	return o
}

// readTables reads endpointQueues and the semaphore of the limiter (private fields; the
// goroutines are at rest, nothing is written concurrently).
func (h *c16Run) readTables(o *c16Obs) {
	lv := reflect.ValueOf(h.lim).Elem()
	mp := lv.FieldByName("endpointQueues").Elem().FieldByName("data") // map[uint64]*endpointQueue
	h.extra = 0
	it := mp.MapRange()
	for it.Next() {
		key := it.Key().Uint()
		q := it.Value().Elem()
		found := false
		for k := 0; k < h.nk; k++ {
			if h.keyHash[k] == key {
				o.keys[k][1] = q.FieldByName("processedCounter").Int()
				o.keys[k][2] = int64(q.FieldByName("orderedRequest").Len())
				found = true
			}
		}
		if !found {
			h.extra++
		}
	}
	sem := lv.FieldByName("limit").Elem()
	o.sem[0] = sem.FieldByName("cur").Int()
	wl := sem.FieldByName("waiters")
	o.sem[1] = reflect.NewAt(wl.Type(), unsafe.Pointer(wl.UnsafeAddr())).Elem().FieldByName("len").Int()
}

// apply performs one event and returns the observation after everything came to rest.
func (h *c16Run) apply(e c16Ev, n int) c16Obs {
	switch e.kind {
	case 'a', 'A':
		r := h.newReq(e.r, e.k, e.kind == 'A')
		h.launch(r)
	case 'c':
		if e.r < len(h.reqs) && h.reqs[e.r] != nil {
			h.reqs[e.r].cancel()
		}
	case 'f':
		if e.r < len(h.reqs) && h.reqs[e.r] != nil && !h.reqs[e.r].finished {
			h.reqs[e.r].finished = true
			close(h.reqs[e.r].finish)
		}
	case 'H':
		if e.r < len(h.reqs) && h.reqs[e.r] != nil {
			h.reqs[e.r].hold.Store(true)
			h.reqs[e.r].cancel()
		}
	case 'u':
		if e.r < len(h.reqs) && h.reqs[e.r] != nil && !h.reqs[e.r].resumed {
			h.reqs[e.r].hold.Store(false)
			h.reqs[e.r].resumed = true
			close(h.reqs[e.r].resume)
		}
	}
	return h.settle(n)
}

// abandon lets every goroutine of the run go (after a hang or at the end of a history).
func (h *c16Run) abandon() {
	for _, r := range h.reqs {
		if r != nil {
			r.hold.Store(false)
			r.cancel()
			if !r.finished {
				r.finished = true
				close(r.finish)
			}
			if !r.resumed {
				r.resumed = true
				close(r.resume)
			}
		}
	}
	c16Runs.Delete(h.lim)
}

type c16Step struct {
	e c16Ev
	o c16Obs
}

func c16CoqSteps(steps []c16Step) string {
	parts := make([]string, len(steps))
	for i, s := range steps {
		parts[i] = "(" + s.e.coq() + ", " + s.o.coq() + ")"
	}
	return "[" + strings.Join(parts, "; ") + "]"
}

func c16DescEvents(steps []c16Step) string {
	parts := make([]string, len(steps))
	for i, s := range steps {
		parts[i] = s.e.desc()
	}
	if len(parts) == 0 {
		return "-"
	}
	return strings.Join(parts, ",")
}

func c16Bad8(o c16Obs) bool {
	for _, s := range o.sts {
		if s >= c16Bad && s != c16Cancelling {
			return true
		}
	}
	return false
}

// chooser returns the index of the event to take among the enabled ones (or -1 to stop).
type c16Chooser func(depth int, enabled []c16Ev) int

type c16Cfg struct {
	epl, tot int64
	nk       int
	keys     []int // path of request i
	maxArrC  int   // how many requests may arrive with a cancelled context
	cancelIF bool  // also cancel requests that are inside the wrapped function
	maxHold  int   // how many cancellations of a waiter may be "delayed" (H<r> ... u<r>)
}

// runHistory drives one history; at each point the enabled events are: the next arrival (plain
// or pre-cancelled), cancel of any blocked request, finish of any request in flight, delayed
// cancel of a request that waits for its path, resume of a delayed one.
func c16RunHistory(cfg c16Cfg, choose c16Chooser) ([]c16Step, []int) {
	n := len(cfg.keys)
	h := newC16Run(cfg.tot, cfg.epl, cfg.nk)
	defer h.abandon()
	var steps []c16Step
	var counts []int
	next, arrC, holds := 0, 0, 0
	cancelled := make([]bool, n)
	o := h.settle(n)
	for depth := 0; ; depth++ {
		var en []c16Ev
		if next < n {
			en = append(en, c16Ev{'a', next, cfg.keys[next]})
			if arrC < cfg.maxArrC {
				en = append(en, c16Ev{'A', next, cfg.keys[next]})
			}
		}
		for r := 0; r < n; r++ {
			switch o.sts[r] {
			case c16WaitEp, c16WaitTot:
				en = append(en, c16Ev{'c', r, 0})
				if o.sts[r] == c16WaitEp && holds < cfg.maxHold {
					en = append(en, c16Ev{'H', r, 0})
				}
			case c16Cancelling:
				en = append(en, c16Ev{'u', r, 0})
			case c16InFlight:
				en = append(en, c16Ev{'f', r, 0})
				if cfg.cancelIF && !cancelled[r] {
					en = append(en, c16Ev{'c', r, 0})
				}
			}
		}
		if len(en) == 0 {
			break
		}
		i := choose(depth, en)
		if i < 0 {
			break
		}
		counts = append(counts, len(en))
		e := en[i]
		switch e.kind {
		case 'a':
			next++
		case 'A':
			next++
			arrC++
		case 'c':
			cancelled[e.r] = true
		case 'H':
			cancelled[e.r] = true
			holds++
		}
		o = h.apply(e, n)
		steps = append(steps, c16Step{e, o})
		if c16Bad8(o) || h.extra != 0 {
			break
		}
	}
	return steps, counts
}

// replay of a fixed event list (descriptor)
func c16Replay(epl, tot int64, n, nk int, evs []c16Ev) []c16Step {
	h := newC16Run(tot, epl, nk)
	defer h.abandon()
	var steps []c16Step
	h.settle(n)
	for _, e := range evs {
		o := h.apply(e, n)
		steps = append(steps, c16Step{e, o})
		if c16Bad8(o) {
			break
		}
	}
	return steps
}

func c16Emit(e *Emitter, epl, tot int64, n, nk int, steps []c16Step, tag string) {
	coq := fmt.Sprintf("H %s %s %d %d %s", coqZ(epl), coqZ(tot), n, nk, c16CoqSteps(steps))
	desc := fmt.Sprintf("h %d %d %d %d %s", epl, tot, n, nk, c16DescEvents(steps))
	// non-trivial: some request had to wait and a cancellation or completion happened while another waited
	waited, cancelWhileQueued, delayed, moveWhileDelayed := false, false, false, false
	var prev c16Obs
	for i, s := range steps {
		if s.e.kind == 'H' {
			delayed = true
		}
		if i > 0 && s.e.kind != 'H' && s.e.kind != 'u' {
			for _, x := range prev.sts {
				if x == c16Cancelling {
					moveWhileDelayed = true
				}
			}
		}
		for _, x := range s.o.sts {
			if x == c16WaitEp || x == c16WaitTot {
				waited = true
			}
		}
		if i > 0 && s.e.kind == 'c' && s.e.r < len(prev.sts) && (prev.sts[s.e.r] == c16WaitEp || prev.sts[s.e.r] == c16WaitTot) {
			cancelWhileQueued = true
		}
		prev = s.o
	}
	buckets := []string{tag, fmt.Sprintf("requests=%d", n), fmt.Sprintf("paths=%d", nk), fmt.Sprintf("epl=%d", epl), fmt.Sprintf("tot=%d", tot)}
	if cancelWhileQueued {
		buckets = append(buckets, "cancel-of-blocked-request")
	}
	if waited {
		buckets = append(buckets, "someone-waited")
	}
	if delayed {
		buckets = append(buckets, "cancel-of-waiter-delayed")
	}
	if moveWhileDelayed {
		buckets = append(buckets, "event-while-cancelled-waiter-delayed")
	}
	w := 1 + len(steps)/8
	e.AddW(coq, desc, waited, w, buckets...)
}

// all key assignments of n requests to at most nk paths, up to renaming of paths
func c16KeyAssignments(n, nk int) [][]int {
	var res [][]int
	var rec func(cur []int, used int)
	rec = func(cur []int, used int) {
		if len(cur) == n {
			res = append(res, append([]int(nil), cur...))
			return
		}
		for k := 0; k <= used && k < nk; k++ {
			u := used
			if k == used {
				u++
			}
			rec(append(cur, k), u)
		}
	}
	rec(nil, 0)
	return res
}

// exhaustive enumeration of the histories of one configuration (depth-first over the choice
// points, one fresh limiter per history); stops after limit histories (0 = no limit).
func c16Enumerate(e *Emitter, cfg c16Cfg, limit int, tag string) (int, bool) {
	var path []int
	count := 0
	for {
		steps, counts := c16RunHistory(cfg, func(depth int, en []c16Ev) int {
			if depth < len(path) {
				if path[depth] < len(en) {
					return path[depth]
				}
				return 0
			}
			return 0
		})
		c16Emit(e, cfg.epl, cfg.tot, len(cfg.keys), cfg.nk, steps, tag)
		count++
		// next path
		full := make([]int, len(counts))
		copy(full, path)
		d := len(counts) - 1
		for d >= 0 && full[d]+1 >= counts[d] {
			d--
		}
		if d < 0 {
			return count, true
		}
		full[d]++
		path = full[:d+1]
		if limit > 0 && count >= limit {
			return count, false
		}
	}
}

func c16Random(e *Emitter, rng *Rng, cfg c16Cfg, tag string) {
	steps, _ := c16RunHistory(cfg, func(depth int, en []c16Ev) int {
		// favour arrivals early so that queues build up
		if en[0].kind == 'a' && rng.Chance(45) {
			return 0
		}
		return rng.Intn(len(en))
	})
	c16Emit(e, cfg.epl, cfg.tot, len(cfg.keys), cfg.nk, steps, tag)
}

func c16FreePatience() time.Duration {
	if c16Hangs >= 3 {
		return time.Second
	}
	return 20 * time.Second
}

// free-running goroutines: n calls, each cancelled with probability pc at a random moment.
func c16Free(e *Emitter, epl, tot int64, n, nk int, seed uint64) {
	rng := NewRng(seed)
	h := newC16Run(tot, epl, nk)
	var mu sync.Mutex
	yr := rng.Fork()
	h.yields = func() int { mu.Lock(); defer mu.Unlock(); return yr.Intn(6) }
	var wg sync.WaitGroup
	var nok, nerr, nbad atomic.Int64
	type plan struct {
		r      *c16Req
		cancel int // yields before cancelling, -1 never
	}
	var plans []plan
	for i := 0; i < n; i++ {
		r := h.newReq(i, rng.Intn(nk), rng.Chance(5))
		c := -1
		if rng.Chance(40) {
			c = rng.Intn(40)
		}
		plans = append(plans, plan{r, c})
	}
	start := make(chan struct{})
	for _, p := range plans {
		p := p
		wg.Add(1)
		go func() {
			defer wg.Done()
			<-start
			h.call(p.r)
			switch p.r.done.Load() {
			case c16DoneOk:
				nok.Add(1)
			case c16ErrEp, c16ErrTot:
				nerr.Add(1)
			default:
				nbad.Add(1)
			}
		}()
		if p.cancel >= 0 {
			wg.Add(1)
			go func() {
				defer wg.Done()
				<-start
				for i := 0; i < p.cancel; i++ {
					runtime.Gosched()
				}
				p.r.cancel()
			}()
		}
	}
	close(start)
	fin := make(chan struct{})
	go func() { wg.Wait(); close(fin) }()
	hang := false
	select {
	case <-fin:
	case <-time.After(c16FreePatience()):
		hang = true
		c16Hangs++
	}
	maxg := make([]string, nk)
	for k := 0; k < nk; k++ {
		maxg[k] = coqZ(h.maxG[k].Load())
	}
	h.yields = nil
	h.reqs = nil
	o0 := c16Obs{}
	for k := 0; k < nk; k++ {
		o0.keys = append(o0.keys, [3]int64{h.gauge[k].Load(), -1, 0})
	}
	h.readTables(&o0)
	// forced tail on the same limiter: one probe per path, then all at once
	var steps []c16Step
	n2 := nk
	if !hang {
		for k := 0; k < nk; k++ {
			ev := c16Ev{'a', k, k}
			steps = append(steps, c16Step{ev, h.apply(ev, n2)})
		}
		for k := 0; k < nk; k++ {
			ev := c16Ev{'f', k, 0}
			steps = append(steps, c16Step{ev, h.apply(ev, n2)})
		}
	}
	h.abandon()
	// a hang or an unexpected result leaves nok+nerr < n: class 7
	coq := fmt.Sprintf("Free %s %s %d %d %d [%s] %s (%s) %d %d %s", coqZ(epl), coqZ(tot), n, nok.Load(), nerr.Load(),
		strings.Join(maxg, ";"), coqZ(h.maxTot.Load()), o0.coq(), nk, n2, c16CoqSteps(steps))
	desc := fmt.Sprintf("free %d %d %d %d %d", epl, tot, n, nk, seed)
	e.AddW(coq, desc, true, 2, "free-running", fmt.Sprintf("goroutines=%d", n))
}

func runC16(a runArgs) error {
	limitparallelrequests.VerifSetYield(c16Yield)
	defer limitparallelrequests.VerifSetYield(nil)
	e := NewEmitter("C16", "Limiter.Run")
	e.ShardSize = 400
	e.Rule = "A case is one event history (arrive / arrive-with-cancelled-context / cancel / finish / cancel of a waiter whose goroutine is then parked at the scheduling point ep-ctx-done / resume of that goroutine) forced on a fresh LimitParallelRequests, observed after every event at rest (status of every request from a stop-the-world stack snapshot, gauge inside the wrapped function per path, (processedCounter, queue length) per path and (cur, waiters) of the semaphore read reflectively); distinct = distinct (limits, paths, event list); non-trivial = at least one request had to wait. Free-running cases: n goroutines with random cancellations, maxima of the gauges, idle check and a forced probe afterwards."
	rng := NewRng(a.seed)
	atoi := func(s string) int { v, _ := strconv.Atoi(s); return v }
	if a.only != "" {
		f := strings.Fields(a.only)
		switch f[0] {
		case "h":
			evs := ""
			if len(f) > 5 {
				evs = f[5]
			}
			steps := c16Replay(int64(atoi(f[1])), int64(atoi(f[2])), atoi(f[3]), atoi(f[4]), c16ParseEvents(evs))
			c16Emit(e, int64(atoi(f[1])), int64(atoi(f[2])), atoi(f[3]), atoi(f[4]), steps, "replay")
		case "free":
			s, _ := strconv.ParseUint(f[5], 10, 64)
			c16Free(e, int64(atoi(f[1])), int64(atoi(f[2])), atoi(f[3]), atoi(f[4]), s)
		case "wire":
			s, _ := strconv.ParseUint(f[3], 10, 64)
			c16Wire(e, int64(atoi(f[1])), int64(atoi(f[2])), s, atoi(f[4]))
		}
		return e.Flush(a.out)
	}
	t0 := time.Now()
	exhaustive := map[string]int{}
	complete := true
	maxHold := 0
	enum := func(n, nk int, epls, tots []int64, maxArrC int, limit int) {
		tag, cnt := fmt.Sprintf("exhaustive-%d-requests", n), fmt.Sprintf("requests=%d", n)
		if maxHold > 0 {
			tag, cnt = fmt.Sprintf("exhaustive-delayed-cancel-%d-requests", n), fmt.Sprintf("delayed-cancel requests=%d", n)
		}
		for _, keys := range c16KeyAssignments(n, nk) {
			for _, epl := range epls {
				for _, tot := range tots {
					cfg := c16Cfg{epl: epl, tot: tot, nk: nk, keys: keys, maxArrC: maxArrC, maxHold: maxHold}
					c, done := c16Enumerate(e, cfg, limit, tag)
					exhaustive[cnt] += c
					if !done {
						complete = false
					}
				}
			}
		}
	}
	if a.tier == "thorough" {
		enum(1, 1, []int64{1, 2, 0}, []int64{1, 2, 0}, 1, 0)
		enum(2, 2, []int64{1, 2, 0}, []int64{1, 2, 3, 0}, 2, 0)
		enum(3, 2, []int64{1, 2, 0}, []int64{1, 2, 3, 0}, 1, 0)
		enum(4, 2, []int64{1, 2}, []int64{1, 2, 3}, 1, 0)
		enum(5, 2, []int64{1, 2}, []int64{1, 2, 3}, 0, 0)
	} else {
		enum(1, 1, []int64{1, 2}, []int64{1, 2}, 1, 0)
		enum(2, 2, []int64{1, 2, 0}, []int64{1, 2, 0}, 1, 0)
		enum(3, 2, []int64{1, 2}, []int64{1, 2, 3}, 1, 0)
		enum(4, 2, []int64{1, 2}, []int64{1, 2, 3}, 0, 0)
		enum(5, 2, []int64{1, 2}, []int64{1, 2, 3}, 0, 25)
	}
	// the same with cancellations of a waiter whose goroutine is delayed (H<r> ... u<r>): every
	// order of the other events in between
	if a.tier == "thorough" {
		maxHold = 2
		enum(2, 1, []int64{1, 2}, []int64{1, 0}, 0, 0)
		enum(3, 2, []int64{1, 2}, []int64{1, 2, 0}, 0, 0)
		maxHold = 1
		enum(4, 2, []int64{1, 2}, []int64{2, 0}, 0, 0)
		enum(5, 1, []int64{1, 2}, []int64{0}, 0, 0)
	} else {
		maxHold = 2
		enum(2, 1, []int64{1}, []int64{0}, 0, 0)
		enum(3, 1, []int64{1, 2}, []int64{2, 0}, 0, 0)
		maxHold = 1
		enum(3, 2, []int64{1}, []int64{0}, 0, 0)
		enum(4, 1, []int64{1}, []int64{0}, 0, 0)
		enum(4, 1, []int64{2}, []int64{0}, 0, 150)
	}
	maxHold = 0
	e.Extra["exhaustive_histories"] = exhaustive
	e.Extra["exhaustive"] = complete
	e.Extra["enumeration_s"] = time.Since(t0).Seconds()
	// random longer histories
	nrand, nfree := 400, 40
	if a.tier == "thorough" {
		nrand, nfree = 6000, 400
	}
	for i := 0; i < nrand; i++ {
		n := 4 + rng.Intn(5)
		nk := 1 + rng.Intn(3)
		keys := make([]int, n)
		for j := range keys {
			keys[j] = rng.Intn(nk)
		}
		cfg := c16Cfg{epl: int64([]int{1, 1, 2, 2, 3, 0}[rng.Intn(6)]), tot: int64([]int{1, 2, 2, 3, 4, 0}[rng.Intn(6)]), nk: nk, keys: keys, maxArrC: rng.Intn(3), cancelIF: rng.Chance(30)}
		if rng.Chance(40) {
			cfg.maxHold = 1 + rng.Intn(2)
		}
		c16Random(e, rng, cfg, "random")
	}
	for i := 0; i < nfree; i++ {
		n := []int{8, 16, 32, 64}[rng.Intn(4)]
		if a.tier == "thorough" && rng.Chance(20) {
			n = 128
		}
		c16Free(e, int64(1+rng.Intn(3)), int64(1+rng.Intn(4)), n, 1+rng.Intn(3), rng.U64())
	}
	// the limits as configured on a real connection, counted on the wire (Get, Observe, Observation.Cancel)
	nwire := 24
	if a.tier == "thorough" {
		nwire = 240
	}
	for i := 0; i < nwire; i++ {
		lims := [][2]int64{{1, 1}, {1, 2}, {2, 1}, {2, 2}, {3, 2}, {2, 3}}[i%6]
		c16Wire(e, lims[0], lims[1], rng.U64(), 24+rng.Intn(24))
	}
	e.Extra["harness_s"] = time.Since(t0).Seconds()
	return e.Flush(a.out)
}
