package main

// C12 families N (tcp client against the library's tcp server over an in-memory stream) and
// S (the library's udp server on a loopback socket, clients from udp.Dial).  One application
// (request handler, observers) and one op script serve both transports.

import (
	"bytes"
	"context"
	"errors"
	"fmt"
	"io"
	"net"
	"strconv"
	"strings"
	"sync"
	"time"

	"github.com/plgd-dev/go-coap/v3/message"
	"github.com/plgd-dev/go-coap/v3/message/codes"
	"github.com/plgd-dev/go-coap/v3/message/pool"
	"github.com/plgd-dev/go-coap/v3/mux"
	coapNet "github.com/plgd-dev/go-coap/v3/net"
	"github.com/plgd-dev/go-coap/v3/net/blockwise"
	"github.com/plgd-dev/go-coap/v3/net/responsewriter"
	"github.com/plgd-dev/go-coap/v3/options"
	"github.com/plgd-dev/go-coap/v3/options/config"
	"github.com/plgd-dev/go-coap/v3/tcp"
	tcpclient "github.com/plgd-dev/go-coap/v3/tcp/client"
	tcpcoder "github.com/plgd-dev/go-coap/v3/tcp/coder"
	"github.com/plgd-dev/go-coap/v3/udp"
	udpclient "github.com/plgd-dev/go-coap/v3/udp/client"
)

const c12Wait = 20 * time.Second

// ---------------------------------------------------------------- in-memory byte stream

type memHalf struct {
	mu     sync.Mutex
	cond   *sync.Cond
	buf    []byte
	closed bool
}

func newMemHalf() *memHalf { h := &memHalf{}; h.cond = sync.NewCond(&h.mu); return h }

type memAddr string

func (a memAddr) Network() string { return "mem" }
func (a memAddr) String() string  { return string(a) }

// memStream is one end of a buffered duplex byte stream: writes never block (so both ends may send their
// CSM before either reads), reads block until data arrives or an end is closed.
type memStream struct {
	rd, wr *memHalf
	name   string
}

func newMemStreamPair() (*memStream, *memStream) {
	a, b := newMemHalf(), newMemHalf()
	return &memStream{rd: a, wr: b, name: "mem-a"}, &memStream{rd: b, wr: a, name: "mem-b"}
}

func (m *memStream) Read(p []byte) (int, error) {
	m.rd.mu.Lock()
	defer m.rd.mu.Unlock()
	for len(m.rd.buf) == 0 && !m.rd.closed {
		m.rd.cond.Wait()
	}
	if len(m.rd.buf) == 0 {
		return 0, io.EOF
	}
	n := copy(p, m.rd.buf)
	m.rd.buf = m.rd.buf[n:]
	return n, nil
}

func (m *memStream) Write(p []byte) (int, error) {
	m.wr.mu.Lock()
	defer m.wr.mu.Unlock()
	if m.wr.closed {
		return 0, io.ErrClosedPipe
	}
	if dbgC12() {
		var mm message.Message
		mm.Options = make(message.Options, 0, 16)
		if _, err := tcpcoder.DefaultCoder.Decode(p, &mm); err == nil {
			fmt.Printf("%s -> %v\n", m.name, &mm)
		}
	}
	m.wr.buf = append(m.wr.buf, p...)
	m.wr.cond.Broadcast()
	return len(p), nil
}

func (m *memStream) Close() error {
	for _, h := range []*memHalf{m.rd, m.wr} {
		h.mu.Lock()
		h.closed = true
		h.cond.Broadcast()
		h.mu.Unlock()
	}
	return nil
}
func (m *memStream) LocalAddr() net.Addr              { return memAddr(m.name) }
func (m *memStream) RemoteAddr() net.Addr             { return memAddr(m.name + "-peer") }
func (m *memStream) SetDeadline(time.Time) error      { return nil }
func (m *memStream) SetReadDeadline(time.Time) error  { return nil }
func (m *memStream) SetWriteDeadline(time.Time) error { return nil }

// memListener hands the server the connections the scenario creates.
type memListener struct {
	ch     chan net.Conn
	closed chan struct{}
	once   sync.Once
}

func newMemListener() *memListener {
	return &memListener{ch: make(chan net.Conn, 4), closed: make(chan struct{})}
}

func (l *memListener) AcceptWithContext(ctx context.Context) (net.Conn, error) {
	select {
	case c := <-l.ch:
		return c, nil
	case <-l.closed:
		return nil, coapNet.ErrListenerIsClosed
	case <-ctx.Done():
		return nil, ctx.Err()
	}
}

func (l *memListener) Close() error { l.once.Do(func() { close(l.closed) }); return nil }

// ---------------------------------------------------------------- the application

type c12ConnLike interface {
	comparable
	AcquireMessage(ctx context.Context) *pool.Message
	ReleaseMessage(m *pool.Message)
	WriteMessage(req *pool.Message) error
	Context() context.Context
}

type c12Observer[C c12ConnLike] struct {
	cc  C
	tok message.Token
	seq uint32
	big bool
}

// c12App is the server application: it holds every request for the duration of the handler (digest at entry
// and exit) and answers by path.
type c12App[C c12ConnLike] struct {
	mu      sync.Mutex
	obs     []*c12Observer[C]
	hangs   chan struct{} // one signal per request that reached the never-answering path
	bigLen  int
	upSums  []uint64
	handled int
}

func newC12App[C c12ConnLike](bigLen int) *c12App[C] {
	return &c12App[C]{hangs: make(chan struct{}, 64), bigLen: bigLen}
}

func (a *c12App[C]) handle(w *responsewriter.ResponseWriter[C], r *pool.Message) {
	trkHold(r)
	defer trkUnhold(r)
	a.mu.Lock()
	a.handled++
	a.mu.Unlock()
	code := r.Code()
	if code < codes.GET || code > codes.DELETE {
		return
	}
	path, _ := r.Path()
	path = strings.TrimPrefix(path, "/")
	if dbgC12() {
		fmt.Printf("handler: %v\n", r)
	}
	switch path {
	case "big", "obsbig":
		if path == "obsbig" {
			if o, err := r.Observe(); err == nil && o == 0 {
				a.mu.Lock()
				a.obs = append(a.obs, &c12Observer[C]{cc: w.Conn(), tok: append(message.Token{}, r.Token()...), seq: 2, big: true})
				a.mu.Unlock()
				_ = w.SetResponse(codes.Content, message.TextPlain, bytes.NewReader([]byte("v0")), message.Option{ID: message.Observe, Value: []byte{2}})
				return
			}
		}
		_ = w.SetResponse(codes.Content, message.AppOctets, bytes.NewReader(genBody(9, a.bigLen)))
	case "up", "upbig":
		if r.Body() != nil {
			if b, err := r.ReadBody(); err == nil {
				a.mu.Lock()
				a.upSums = append(a.upSums, csum(b))
				a.mu.Unlock()
			}
		}
		if path == "upbig" {
			_ = w.SetResponse(codes.Changed, message.AppOctets, bytes.NewReader(genBody(11, a.bigLen)))
		} else {
			_ = w.SetResponse(codes.Changed, message.TextPlain, bytes.NewReader([]byte("ok")))
		}
	case "obs":
		if o, err := r.Observe(); err == nil && o == 0 {
			a.mu.Lock()
			a.obs = append(a.obs, &c12Observer[C]{cc: w.Conn(), tok: append(message.Token{}, r.Token()...), seq: 2})
			a.mu.Unlock()
			_ = w.SetResponse(codes.Content, message.TextPlain, bytes.NewReader([]byte("v0")), message.Option{ID: message.Observe, Value: []byte{2}})
			return
		}
		_ = w.SetResponse(codes.Content, message.TextPlain, bytes.NewReader([]byte("v")))
	case "h":
		a.hangs <- struct{}{}
	case "nf":
		_ = w.SetResponse(codes.NotFound, message.TextPlain, nil)
	case "set":
		// the application replaces the response: SetMessage releases the writer's message, the new one is the library's
		m := w.Conn().AcquireMessage(r.Context())
		m.SetCode(codes.Content)
		m.SetToken(r.Token())
		m.SetContentFormat(message.TextPlain)
		m.SetBody(bytes.NewReader([]byte("set")))
		w.SetMessage(m)
	case "swap":
		// Swap releases nothing: the old writer message is the application's, which releases it
		m := w.Conn().AcquireMessage(r.Context())
		m.SetCode(codes.Content)
		m.SetToken(r.Token())
		m.SetContentFormat(message.TextPlain)
		m.SetBody(bytes.NewReader([]byte("swap")))
		old := w.Swap(m)
		trkAppRel(old)
		w.Conn().ReleaseMessage(old)
	default:
		_ = w.SetResponse(codes.Content, message.TextPlain, bytes.NewReader([]byte("hello")))
	}
}

// notify sends one notification to every registered observer.
func (a *c12App[C]) notify() int {
	a.mu.Lock()
	obs := append([]*c12Observer[C]{}, a.obs...)
	a.mu.Unlock()
	n := 0
	for _, o := range obs {
		o.seq++
		m := o.cc.AcquireMessage(o.cc.Context())
		m.SetCode(codes.Content)
		m.SetToken(o.tok)
		m.SetObserve(o.seq)
		if o.big {
			m.SetContentFormat(message.AppOctets)
			m.SetBody(bytes.NewReader(genBody(9, a.bigLen)))
		} else {
			m.SetContentFormat(message.TextPlain)
			m.SetBody(bytes.NewReader([]byte("n")))
		}
		if err := o.cc.WriteMessage(m); err == nil {
			n++
		}
		trkAppRel(m)
		o.cc.ReleaseMessage(m)
	}
	return n
}

// ---------------------------------------------------------------- the client script

type c12Cli struct {
	cc    mux.Conn
	obs   []mux.Observation
	mu    sync.Mutex
	notes int
	flags []string
}

func (c *c12Cli) flag(format string, a ...interface{}) {
	c.mu.Lock()
	c.flags = append(c.flags, fmt.Sprintf(format, a...))
	c.mu.Unlock()
}

func (c *c12Cli) take(resp *pool.Message, err error, what string, wantLen int) {
	if err != nil {
		c.flag("%s: %v", what, err)
		return
	}
	trkHold(resp)
	if wantLen >= 0 {
		n := 0
		if resp.Body() != nil {
			if b, e := resp.ReadBody(); e == nil {
				n = len(b)
			}
		}
		if n != wantLen {
			c.flag("%s: body of %d bytes, want %d", what, n, wantLen)
		}
	}
	trkUnhold(resp)
	trkAppRel(resp)
	c.cc.ReleaseMessage(resp)
}

func (c *c12Cli) notesSeen() int {
	c.mu.Lock()
	defer c.mu.Unlock()
	return c.notes
}

func c12WaitFor(cond func() bool) bool {
	deadline := time.Now().Add(c12Wait)
	for !cond() {
		if time.Now().After(deadline) || (activeTracker != nil && activeTracker.bad()) {
			return false
		}
		time.Sleep(100 * time.Microsecond) // polling a state witness
	}
	return true
}

// c12Op runs one operation of the script on client c; notify and hangs are the application's.
func c12Op(c *c12Cli, op string, bigLen int, notify func() int, hangs chan struct{}) {
	f := strings.Split(op, ":")
	arg := func(i, def int) int {
		if i < len(f) {
			if v, err := strconv.Atoi(f[i]); err == nil {
				return v
			}
		}
		return def
	}
	base := context.Background()
	if activeTracker != nil {
		base = activeTracker.ctx() // cancelled once the trace contains a violation
	}
	ctx, cancel := context.WithTimeout(base, c12Wait)
	defer cancel()
	switch f[0] {
	case "get":
		r, err := c.cc.Get(ctx, "/a")
		c.take(r, err, op, 5)
	case "nf":
		r, err := c.cc.Get(ctx, "/nf")
		c.take(r, err, op, 0)
	case "getbig":
		r, err := c.cc.Get(ctx, "/big")
		c.take(r, err, op, bigLen)
	case "post":
		r, err := c.cc.Post(ctx, "/up", message.AppOctets, bytes.NewReader(genBody(3, arg(1, 200))))
		c.take(r, err, op, 2)
	case "put":
		r, err := c.cc.Put(ctx, "/up", message.AppOctets, bytes.NewReader(genBody(4, arg(1, 200))))
		c.take(r, err, op, 2)
	case "postbig":
		r, err := c.cc.Post(ctx, "/upbig", message.AppOctets, bytes.NewReader(genBody(3, arg(1, 200))))
		c.take(r, err, op, bigLen)
	case "delete":
		r, err := c.cc.Delete(ctx, "/a")
		c.take(r, err, op, 5)
	case "set":
		r, err := c.cc.Get(ctx, "/set")
		c.take(r, err, op, 3)
	case "swap":
		r, err := c.cc.Get(ctx, "/swap")
		c.take(r, err, op, 4)
	case "do":
		// the application's own request message through Do: it stays the application's
		req, err := c.cc.NewGetRequest(ctx, "/a")
		if err != nil {
			c.flag("%s: %v", op, err)
			return
		}
		r, err := c.cc.Do(req)
		c.take(r, err, op, 5)
		trkAppRel(req)
		c.cc.ReleaseMessage(req)
	case "obs", "obsbig":
		o, err := c.cc.Observe(ctx, "/"+f[0], func(n *pool.Message) {
			trkHold(n)
			if n.Body() != nil {
				_, _ = n.ReadBody()
			}
			trkUnhold(n)
			c.mu.Lock()
			c.notes++
			c.mu.Unlock()
		})
		if err != nil {
			c.flag("%s: %v", op, err)
			return
		}
		c.obs = append(c.obs, o)
	case "notify":
		for i := 0; i < arg(1, 1); i++ {
			before := c.notesSeen()
			if sent := notify(); sent > 0 {
				// every observer of the scenario belongs to some client; wait for this client's share if it has one
				if len(c.obs) > 0 && !c12WaitFor(func() bool { return c.notesSeen() > before }) {
					c.flag("%s: notification not delivered", op)
				}
			}
		}
	case "obscancel":
		if len(c.obs) > 0 {
			o := c.obs[len(c.obs)-1]
			c.obs = c.obs[:len(c.obs)-1]
			if err := o.Cancel(ctx); err != nil {
				c.flag("%s: %v", op, err)
			}
		}
	case "ping":
		if err := c.cc.Ping(ctx); err != nil {
			c.flag("%s: %v", op, err)
		}
	case "hang":
		// a request that is never answered: cancelled once the handler has seen it
		hctx, hcancel := context.WithCancel(base)
		done := make(chan error, 1)
		go func() {
			r, err := c.cc.Get(hctx, "/h")
			if err == nil {
				c.take(r, err, op, -1)
			}
			done <- err
		}()
		select {
		case <-hangs:
		case <-base.Done():
		case <-time.After(c12Wait):
			c.flag("%s: request never reached the handler", op)
		}
		hcancel()
		select {
		case err := <-done:
			if err == nil {
				c.flag("%s: answered", op)
			}
		case <-time.After(c12Wait):
			c.flag("%s: call did not return", op)
		}
	case "oneway":
		m := c.cc.AcquireMessage(ctx)
		tok, _ := message.GetToken()
		_ = m.SetupPost("/up", tok, message.TextPlain, bytes.NewReader([]byte("x")))
		m.SetType(message.NonConfirmable)
		if err := c.cc.WriteMessage(m); err != nil {
			c.flag("%s: %v", op, err)
		}
		trkAppRel(m)
		c.cc.ReleaseMessage(m)
	case "burst":
		var wg sync.WaitGroup
		for i := 0; i < arg(1, 3); i++ {
			wg.Add(1)
			go func(i int) {
				defer wg.Done()
				bctx, bcancel := context.WithTimeout(base, c12Wait)
				defer bcancel()
				if i%2 == 0 {
					r, err := c.cc.Get(bctx, "/a")
					c.take(r, err, op, 5)
				} else {
					r, err := c.cc.Post(bctx, "/up", message.AppOctets, bytes.NewReader(genBody(i, 150)))
					c.take(r, err, op, 2)
				}
			}(i)
		}
		wg.Wait()
	}
}

var c12NetOps = []string{"get", "get", "nf", "getbig", "getbig", "post:200", "post:70", "put:130", "postbig:150", "delete", "set", "swap", "do",
	"obs", "obsbig", "notify:2", "notify:1", "obscancel", "ping", "hang", "burst:4"}

func genC12NetScript(rng *Rng, n int, udp bool) []string {
	var ops []string
	nobs := 0
	for len(ops) < n {
		o := c12NetOps[rng.Intn(len(c12NetOps))]
		switch {
		case strings.HasPrefix(o, "obs") && o != "obscancel":
			nobs++
		case strings.HasPrefix(o, "notify") && nobs == 0:
			continue
		}
		ops = append(ops, o)
		if udp && rng.Chance(10) {
			ops = append(ops, "oneway")
		}
	}
	return ops
}

// hijack-wait wrappers: a message handed to a waiting caller is released by that caller before the receive
// path runs its own clean-up
func c12WaitTCP(tr *poolTracker) func(req *pool.Message, cc *tcpclient.Conn, handler tcpclient.HandlerFunc) {
	return func(req *pool.Message, cc *tcpclient.Conn, handler tcpclient.HandlerFunc) {
		defer func() {
			if r := recover(); r != nil {
				tr.notePanic(r) // a panic on the receive path is an observable, not a crash of hx
			}
		}()
		cc.ProcessReceivedMessageWithHandler(req, func(w *responsewriter.ResponseWriter[*tcpclient.Conn], r *pool.Message) {
			handler(w, r)
			if r.IsHijacked() {
				tr.waitReleased(r, c13HijackWait)
			}
		})
	}
}

func c12WaitUDP(tr *poolTracker) config.ProcessReceivedMessageFunc[*udpclient.Conn] {
	return func(req *pool.Message, cc *udpclient.Conn, handler config.HandlerFunc[*udpclient.Conn]) {
		defer func() {
			if r := recover(); r != nil {
				tr.notePanic(r) // a panic on the receive path is an observable, not a crash of hx
			}
		}()
		cc.ProcessReceivedMessageWithHandler(req, func(w *responsewriter.ResponseWriter[*udpclient.Conn], r *pool.Message) {
			handler(w, r)
			if r.IsHijacked() {
				tr.waitReleased(r, c13HijackWait)
			}
		})
	}
}

func c12NetBuckets(fam string, ops []string, flags []string, evs []lcEvent) []string {
	b := []string{fam}
	for _, o := range ops {
		o = o[strings.Index(o, "/")+1:]
		b = append(b, fam+":"+strings.Split(o, ":")[0])
	}
	if len(flags) > 0 {
		b = append(b, fam+":script-flag")
	}
	b = append(b, fmt.Sprintf("events<%d", (len(evs)/500+1)*500))
	return b
}

// ---------------------------------------------------------------- N: tcp

// descriptor: N#<clientPool>,<serverPool>,<bigLen>|<ops>
func c12TCPPair(e *c12Out, tr *poolTracker, desc, arg string) {
	i := strings.Index(arg, "|")
	if i < 0 {
		return
	}
	var cpCap, spCap, bigLen int
	fmt.Sscanf(arg[:i], "%d,%d,%d", &cpCap, &spCap, &bigLen)
	ops := strings.Fields(arg[i+1:])
	cp, sp := pool.New(uint32(cpCap), 2048), pool.New(uint32(spCap), 2048)
	tr.scenario(cp, sp)
	app := newC12App[*tcpclient.Conn](bigLen)
	noTick := options.WithPeriodicRunner(func(func(now time.Time) bool) {})
	srv := tcp.NewServer(options.WithMessagePool(sp), options.WithBlockwise(true, blockwise.SZX64, time.Hour),
		options.WithHandlerFunc(app.handle), options.WithErrors(c12Err), noTick,
		// tcp/client.NewConnWithOpts never reads Config.ProcessReceivedMessage, so the option
		// WithProcessReceivedMessageFunc has no effect on tcp: the wrapper goes in through the verif hook
		options.WithOnNewConn(func(cc *tcpclient.Conn) { cc.VerifSetProcessReceivedMessage(c12WaitTCP(tr)) }))
	l := newMemListener()
	served := make(chan error, 1)
	go func() { served <- srv.Serve(l) }()
	a, b := newMemStreamPair()
	// The library's own CSM never carries the Block-Wise-Transfer option, and a connection uses block-wise only
	// after its peer has announced it: both ends first find a CSM with that option in their stream.
	{
		buf := make([]byte, 64)
		csm := message.Message{Code: codes.CSM, Token: []byte{0xC5}, Options: message.Options{{ID: message.TCPBlockWiseTransfer, Value: []byte{}}}}
		if n, err := tcpcoder.DefaultCoder.Encode(csm, buf); err == nil {
			_, _ = a.Write(buf[:n])
			_, _ = b.Write(buf[:n])
		}
	}
	l.ch <- b
	cli := &c12Cli{}
	cc, err := tcp.Client(a, options.WithMessagePool(cp), options.WithBlockwise(true, blockwise.SZX64, time.Hour),
		options.WithErrors(c12Err), noTick,
		options.WithCSMExchangeTimeout(c12Wait), // return only after the peer's first CSM (the one announcing block-wise) was processed
		options.WithHandlerFunc(func(w *responsewriter.ResponseWriter[*tcpclient.Conn], r *pool.Message) {
			trkHold(r)
			trkUnhold(r)
		}))
	if err != nil {
		cli.flag("tcp.Client: %v", err)
	} else {
		cc.VerifSetProcessReceivedMessage(c12WaitTCP(tr)) // before the first request (only signals were received so far)
		cli.cc = cc
		for _, op := range ops {
			if tr.bad() {
				break
			}
			c12Op(cli, op, bigLen, app.notify, app.hangs)
		}
		_ = cc.Close()
		_ = a.Close()
		select {
		case <-cc.Done():
		case <-time.After(c12Wait):
			cli.flag("client did not finish")
		}
	}
	srv.Stop()
	_ = b.Close()
	select {
	case <-served:
	case <-time.After(c12Wait):
		cli.flag("server did not finish")
	}
	evs := tr.take()
	buckets := c12NetBuckets("N", ops, cli.flags, evs)
	if len(cli.flags) > 0 && dbgC12() {
		fmt.Println("N flags:", cli.flags)
	}
	c12Emit(e, desc, cpCap+spCap, evs, buckets...)
}

// ---------------------------------------------------------------- S: udp server

// descriptor: S#<clients>,<clientPool>,<serverPool>,<bigLen>|<client>/<op> ...
func c12UDPServer(e *c12Out, tr *poolTracker, desc, arg string) {
	i := strings.Index(arg, "|")
	if i < 0 {
		return
	}
	var ncli, cpCap, spCap, bigLen int
	fmt.Sscanf(arg[:i], "%d,%d,%d,%d", &ncli, &cpCap, &spCap, &bigLen)
	ops := strings.Fields(arg[i+1:])
	sp := pool.New(uint32(spCap), 2048)
	tr.scenario(sp)
	app := newC12App[*udpclient.Conn](bigLen)
	var flags []string
	l, err := coapNet.NewListenUDP("udp4", "127.0.0.1:0")
	if err != nil {
		return // no loopback socket in this environment: nothing to run
	}
	noTick := options.WithPeriodicRunner(func(func(now time.Time) bool) {})
	trans := options.WithTransmission(8, time.Hour, 2) // loopback does not lose datagrams: no retransmission timers
	srv := udp.NewServer(options.WithMessagePool(sp), options.WithBlockwise(true, blockwise.SZX64, time.Hour),
		options.WithHandlerFunc(app.handle), options.WithErrors(c12Err), noTick, trans, options.WithProcessReceivedMessageFunc(c12WaitUDP(tr)))
	served := make(chan error, 1)
	go func() { served <- srv.Serve(l) }()
	capacity := spCap
	var clis []*c12Cli
	for k := 0; k < ncli; k++ {
		cp := pool.New(uint32(cpCap), 2048)
		tr.addPool(cp)
		capacity += cpCap
		cc, err := udp.Dial(l.LocalAddr().String(), options.WithMessagePool(cp), options.WithBlockwise(true, blockwise.SZX64, time.Hour),
			options.WithErrors(c12Err), noTick, trans, options.WithProcessReceivedMessageFunc(c12WaitUDP(tr)),
			options.WithHandlerFunc(func(w *responsewriter.ResponseWriter[*udpclient.Conn], r *pool.Message) {
				trkHold(r)
				trkUnhold(r)
			}))
		if err != nil {
			flags = append(flags, "dial: "+err.Error())
			continue
		}
		clis = append(clis, &c12Cli{cc: cc})
	}
	if len(clis) > 0 {
		for _, op := range ops {
			if tr.bad() {
				break
			}
			k := 0
			if j := strings.Index(op, "/"); j > 0 {
				k, _ = strconv.Atoi(op[:j])
				op = op[j+1:]
			}
			c12Op(clis[k%len(clis)], op, bigLen, app.notify, app.hangs)
		}
	}
	for _, c := range clis {
		_ = c.cc.Close()
		select {
		case <-c.cc.Done():
		case <-time.After(c12Wait):
			flags = append(flags, "client did not finish")
		}
		flags = append(flags, c.flags...)
	}
	srv.Stop()
	select {
	case err := <-served:
		if err != nil && !errors.Is(err, net.ErrClosed) {
			flags = append(flags, "serve: "+err.Error())
		}
	case <-time.After(c12Wait):
		flags = append(flags, "server did not finish")
	}
	_ = l.Close()
	evs := tr.take()
	buckets := c12NetBuckets("S", ops, flags, evs)
	if len(flags) > 0 && dbgC12() {
		fmt.Println("S flags:", flags)
	}
	c12Emit(e, desc, capacity, evs, buckets...)
}

func c12Err(err error) {
	if dbgC12() {
		fmt.Println("lib error:", err)
	}
}
