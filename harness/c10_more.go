package main

// C10, deterministic parts: getConnKey tables, peer-table operation sequences on a
// live udp server (NewConn / Close / tick / real datagrams), scripted listeners for
// the tcp and dtls accept loops, a tcp server on loopback with adversarial peers,
// discovery with several receivers and responders.

import (
	"bytes"
	"context"
	"errors"
	"fmt"
	"io"
	"net"
	"os"
	"runtime"
	"strings"
	"sync"
	"sync/atomic"
	"time"

	dtlsServer "github.com/plgd-dev/go-coap/v3/dtls/server"
	"github.com/plgd-dev/go-coap/v3/message"
	"github.com/plgd-dev/go-coap/v3/message/codes"
	"github.com/plgd-dev/go-coap/v3/message/pool"
	coapNet "github.com/plgd-dev/go-coap/v3/net"
	"github.com/plgd-dev/go-coap/v3/options"
	"github.com/plgd-dev/go-coap/v3/options/config"
	pkgErrors "github.com/plgd-dev/go-coap/v3/pkg/errors"
	"github.com/plgd-dev/go-coap/v3/tcp"
	tcpClient "github.com/plgd-dev/go-coap/v3/tcp/client"
	tcpCoder "github.com/plgd-dev/go-coap/v3/tcp/coder"
	"github.com/plgd-dev/go-coap/v3/udp"
	udpClient "github.com/plgd-dev/go-coap/v3/udp/client"
	udpServer "github.com/plgd-dev/go-coap/v3/udp/server"
)

// ---------- getConnKey ----------

func c10AddrPool(rng *Rng) *net.UDPAddr {
	ips := []net.IP{nil, net.IPv4zero, net.IPv6unspecified, net.IPv4(224, 0, 1, 187), net.ParseIP("ff02::fd"), net.IPv4(239, 1, 2, 3),
		net.IPv4(127, 0, 0, 1), net.IPv4(127, 0, 0, 2), net.ParseIP("::1"), net.IPv4(127, 0, 0, 1).To4(), net.ParseIP("fe80::1"), net.IPv4(10, 0, 0, 7)}
	a := &net.UDPAddr{IP: ips[rng.Intn(len(ips))], Port: rng.Pick([]int{5683, 5684, 40001})}
	if rng.Chance(20) {
		a.Zone = rng.PickS([]string{"z1", "z2"})
	}
	return a
}

func c10KeyCase(rng *Rng) (string, string) {
	r1, l1 := c10AddrPool(rng), c10AddrPool(rng)
	r2, l2 := c10AddrPool(rng), c10AddrPool(rng)
	switch rng.Intn(4) {
	case 0:
		r2 = r1
	case 1:
		r2 = r1
		l2 = &net.UDPAddr{IP: l2.IP, Port: l1.Port, Zone: l2.Zone}
	case 2:
		r2 = r1
		l2 = &net.UDPAddr{Port: l1.Port}
	}
	eq := udpServer.VerifGetConnKey(r1, l1) == udpServer.VerifGetConnKey(r2, l2)
	fb := udpServer.VerifLocalAddrCanFallbackToWildcard(l1)
	w := udpServer.VerifToWildcardLocalAddr(l1)
	weq := w.String() == l2.String()
	coq := fmt.Sprintf("KeyEq %s %s %s %s %s %s %s", coqAddr(r1), coqAddr(l1), coqAddr(r2), coqAddr(l2), coqBool(eq), coqBool(fb), coqBool(weq))
	return coq, fmt.Sprintf("key:%s,%s,%s,%s", r1, l1, r2, l2)
}

// ---------- peer table operation sequences ----------

func c10TableRun(seed uint64) (string, error) {
	rng := NewRng(seed)
	app := newC10App()
	wild := rng.Bool()
	listen := "127.0.0.1:0"
	if wild {
		listen = "0.0.0.0:0"
	}
	l, err := coapNet.NewListenUDP("udp4", listen)
	if err != nil {
		return "", err
	}
	var mu sync.Mutex
	order := map[*udpClient.Conn]int{}
	s := udp.NewServer(options.WithMux(app.router()), options.WithErrors(app.onErr),
		options.WithInactivityMonitor(time.Hour, func(cc *udpClient.Conn) { _ = cc.Close() }),
		options.WithOnNewConn(func(cc *udpClient.Conn) {
			mu.Lock()
			order[cc] = len(order)
			mu.Unlock()
		}))
	ret := make(chan error, 1)
	go func() { ret <- s.Serve(l) }()
	defer func() {
		s.Stop()
		select {
		case <-ret:
		case <-time.After(c10Wait):
		}
		_ = l.Close()
	}()
	lst := l.LocalAddr().(*net.UDPAddr)
	port := lst.Port
	// wait until the server is serving: NewConn fails before
	deadline := time.Now().Add(c10Wait)
	probeAddr := &net.UDPAddr{IP: net.IPv4(127, 0, 0, 9), Port: 9}
	for {
		if _, err := s.NewConn(probeAddr); err == nil {
			break
		}
		if time.Now().After(deadline) {
			return "", errors.New("table run: server did not start")
		}
		time.Sleep(time.Millisecond)
	}
	var ops []string
	ops = append(ops, fmt.Sprintf("(ENewConn %s None %s, 0)", coqAddr(probeAddr), coqAddr(lst)))
	// real sockets for datagram events
	var socks []*net.UDPConn
	var raddrs []*net.UDPAddr
	for i := 0; i < 2; i++ {
		c, err := net.ListenUDP("udp4", &net.UDPAddr{IP: net.IPv4(127, 0, 0, byte(1+i)), Port: 0})
		if err != nil {
			return "", err
		}
		defer c.Close()
		socks = append(socks, c)
		raddrs = append(raddrs, c.LocalAddr().(*net.UDPAddr))
	}
	raddrs = append(raddrs, &net.UDPAddr{IP: net.IPv4(127, 0, 0, 3), Port: 7003})
	laddrs := []*net.UDPAddr{nil, {IP: net.IPv4(127, 0, 0, 1), Port: port}, {IP: net.IPv4zero, Port: port}, {IP: net.IPv4(224, 0, 1, 187), Port: port},
		{Port: port}, {IP: net.IPv4(127, 0, 0, 2), Port: port}, {IP: net.IPv4(239, 9, 9, 9), Port: port}}
	type made struct {
		cc  *udpClient.Conn
		key string // Coq expression of the key it was created under
	}
	var conns []made
	pingMID := 100
	n := 6 + rng.Intn(12)
	for i := 0; i < n; i++ {
		switch k := rng.Intn(10); {
		case k < 5: // NewConn
			r := raddrs[rng.Intn(len(raddrs))]
			la := laddrs[rng.Intn(len(laddrs))]
			var cc *udpClient.Conn
			var err error
			las := "None"
			if la == nil {
				cc, err = s.NewConn(r)
			} else {
				cc, err = s.NewConn(r, la)
				las = "(Some " + coqAddr(la) + ")"
			}
			obs := -1
			if err == nil {
				mu.Lock()
				obs = order[cc]
				mu.Unlock()
				eff := la
				if eff == nil {
					eff = lst
				}
				found := false
				for _, m := range conns {
					if m.cc == cc {
						found = true
					}
				}
				if !found {
					conns = append(conns, made{cc, fmt.Sprintf("(conn_key %s %s)", coqAddr(r), coqAddr(eff))})
				}
			}
			ops = append(ops, fmt.Sprintf("(ENewConn %s %s %s, %s)", coqAddr(r), las, coqAddr(lst), coqZ(int64(obs))))
		case k < 7: // close a connection obtained earlier
			if len(conns) == 0 {
				continue
			}
			mi := rng.Intn(len(conns))
			m := conns[mi]
			_ = m.cc.Close()
			// a closed connection is never picked again: the model's EClose addresses the key, and the key may
			// be taken over by a replacement later
			conns = append(conns[:mi], conns[mi+1:]...)
			ops = append(ops, fmt.Sprintf("(EClose %s, (-2))", m.key))
		case k < 8:
			s.VerifTick(time.Now())
			ops = append(ops, "(ETick, (-2))")
		default: // a real datagram (ping) from one of the sockets; its Reset is the witness
			j := rng.Intn(len(socks))
			pingMID++
			d := encodeWire(0, 0, pingMID, nil, nil, nil)
			dst := &net.UDPAddr{IP: net.IPv4(127, 0, 0, 1), Port: port}
			drops := func() int {
				app.mu.Lock()
				defer app.mu.Unlock()
				n := 0
				for _, e := range app.errAll {
					if strings.Contains(e, "cannot get client connection") {
						n++
					}
				}
				return n
			}
			before := drops()
			if _, err := socks[j].WriteToUDP(d, dst); err != nil {
				return "", err
			}
			// witness: the Reset, or the server's report that it dropped the datagram (both attempts of getConn
			// found a closed connection: exact key and wildcard twin)
			p := &c10Peer{conn: socks[j], dead: func() bool { return drops() > before }}
			mid := pingMID
			obs := "(-2)"
			if p.await(&c10Sched{}, dst, func(w wireMsg) bool { return w.Typ == 3 && w.MID == mid }, false) == nil {
				if drops() == before {
					return "", errors.New("table run: ping neither answered nor reported as dropped")
				}
				obs = "(-3)"
			}
			ops = append(ops, fmt.Sprintf("(EDgram %s %s (Some (IPhost %d)) %s, %s)", coqAddr(raddrs[j]), coqAddr(lst), ipNum(net.IPv4(127, 0, 0, 1)), coqBytes(d), obs))
		}
	}
	mu.Lock()
	news := len(order)
	mu.Unlock()
	return fmt.Sprintf("TableRun %s [%s] %d", coqAddr(lst), strings.Join(ops, "; "), news), nil
}

// ---------- accept loop over a scripted listener ----------

type c10ScriptListener struct {
	script    []int // 0 nil+conn, 1 listener closed, 2 deadline, 3 canceled, 4 other, 5 (nil, nil)
	cancelAt  int   // index before which the server context is cancelled (-1 never)
	cancel    context.CancelFunc
	calls     int32
	served    *int32
	want      int32
	closed    chan struct{}
	once      sync.Once
	pipes     []net.Conn
	inner     net.Listener
	blocked   chan struct{}
	blockOnce sync.Once
	mu        sync.Mutex
}

func (l *c10ScriptListener) Close() error {
	l.once.Do(func() { close(l.closed) })
	return nil
}

func (l *c10ScriptListener) AcceptWithContext(ctx context.Context) (net.Conn, error) {
	i := int(atomic.AddInt32(&l.calls, 1)) - 1
	// every connection handed out so far has been announced (witness, not a sleep)
	deadline := time.Now().Add(c10Wait)
	for atomic.LoadInt32(l.served) < l.want && time.Now().Before(deadline) {
		time.Sleep(200 * time.Microsecond)
	}
	if i >= len(l.script) {
		if ctx.Err() != nil {
			return nil, ctx.Err()
		}
		l.blockOnce.Do(func() { close(l.blocked) })
		select {
		case <-ctx.Done():
			return nil, ctx.Err()
		case <-l.closed:
			return nil, coapNet.ErrListenerIsClosed
		}
	}
	if l.cancelAt == i {
		l.cancel()
	}
	switch l.script[i] {
	case 0:
		// a real loopback connection (net.Pipe ends all share one RemoteAddr, which pkg/connections keys by)
		b, err := net.Dial("tcp4", l.inner.Addr().String())
		if err != nil {
			return nil, err
		}
		a, err := l.inner.Accept()
		if err != nil {
			return nil, err
		}
		l.mu.Lock()
		l.pipes = append(l.pipes, a, b)
		l.mu.Unlock()
		l.want++
		go func() { _, _ = io.Copy(io.Discard, b) }()
		return a, nil
	case 1:
		return nil, fmt.Errorf("accept: %w", coapNet.ErrListenerIsClosed)
	case 2:
		return nil, fmt.Errorf("accept: %w", context.DeadlineExceeded)
	case 3:
		return nil, fmt.Errorf("accept: %w", context.Canceled)
	case 4:
		return nil, &net.OpError{Op: "accept", Net: "tcp", Err: errors.New("too many open files")}
	default:
		return nil, nil
	}
}

func c10AcceptRun(seed uint64, dtls bool) (string, error) {
	rng := NewRng(seed)
	n := 1 + rng.Intn(7)
	script := make([]int, n)
	for i := range script {
		script[i] = rng.Pick([]int{0, 0, 2, 3, 4, 4})
	}
	if rng.Chance(35) {
		script[n-1] = 1
	}
	cancelAt := -1
	if rng.Chance(45) {
		cancelAt = rng.Intn(n)
	}
	ctx, cancel := context.WithCancel(context.Background())
	defer cancel()
	var served, reported int32
	inner, err := net.Listen("tcp4", "127.0.0.1:0")
	if err != nil {
		return "", err
	}
	defer inner.Close()
	l := &c10ScriptListener{script: script, cancelAt: cancelAt, cancel: cancel, served: &served, closed: make(chan struct{}), inner: inner, blocked: make(chan struct{})}
	onErr := func(err error) {
		if strings.Contains(err.Error(), "cannot accept connection") {
			atomic.AddInt32(&reported, 1)
		}
	}
	ret := make(chan error, 1)
	var stop func()
	if dtls {
		s := dtlsServer.New(options.WithContext(ctx), options.WithErrors(onErr), options.WithOnNewConn(func(*udpClient.Conn) { atomic.AddInt32(&served, 1) }))
		stop = s.Stop
		go func() { ret <- s.Serve(l) }()
	} else {
		s := tcp.NewServer(options.WithContext(ctx), options.WithErrors(onErr), options.WithOnNewConn(func(*tcpClient.Conn) { atomic.AddInt32(&served, 1) }))
		stop = s.Stop
		go func() { ret <- s.Serve(l) }()
	}
	// Serve returns, or it blocks in the call after the script (the listener says so)
	calls := -1
	returned := false
	select {
	case <-ret:
		returned = true
		calls = int(atomic.LoadInt32(&l.calls))
	case <-l.blocked:
	case <-time.After(c10Wait):
	}
	if !returned {
		if os.Getenv("HXDBG") != "" {
			buf := make([]byte, 1<<20)
			fmt.Fprintf(os.Stderr, "%s\n", buf[:runtime.Stack(buf, true)])
		}
		// all announced?
		dl := time.Now().Add(c10Wait)
		for atomic.LoadInt32(&served) < l.want && time.Now().Before(dl) {
			time.Sleep(200 * time.Microsecond)
		}
		stop()
		_ = l.Close()
		select {
		case <-ret:
		case <-time.After(c10Wait):
		}
	}
	l.mu.Lock()
	for _, p := range l.pipes {
		_ = p.Close()
	}
	l.mu.Unlock()
	parts := make([]string, len(script))
	done := false
	for i, k := range script {
		if cancelAt == i {
			done = true
		}
		name := map[int]string{0: "AccNil", 1: "AccListenerClosed", 2: "AccDeadline", 3: "AccCanceled", 4: "AccOther", 5: "AccNil"}[k]
		parts[i] = fmt.Sprintf("(%s, %s)", name, coqBool(done))
	}
	if cancelAt >= 0 {
		// after the script the listener behaves like net.TCPListener: with a cancelled context it returns ctx.Err()
		parts = append(parts, "(AccCanceled, true)")
	}
	// (nil, nil) results are AccNil without a connection: the model counts a served connection per AccNil,
	// so they are reported separately
	nilnil := 0
	for i, k := range script {
		if k == 5 && (calls < 0 || i < calls) {
			nilnil++
		}
	}
	return fmt.Sprintf("AcceptRun %s [%s] %s %d %d", coqBool(dtls), strings.Join(parts, "; "), coqZ(int64(calls)), int(atomic.LoadInt32(&served))+nilnil, atomic.LoadInt32(&reported)), nil
}

// ---------- tcp server on loopback ----------

func c10EncodeTCP(code int, tok []byte, opts message.Options, pay []byte) []byte {
	m := message.Message{Code: codes.Code(code), Token: tok, Options: opts, Payload: pay}
	size, _ := tcpCoder.DefaultCoder.Size(m)
	buf := make([]byte, size)
	n, err := tcpCoder.DefaultCoder.Encode(m, buf)
	if err != nil {
		panic(err)
	}
	return buf[:n]
}

// c10ReadTCP reads frames until one with a non-signal code and the given token arrives.
func c10ReadTCP(c net.Conn, acc *[]byte, tok []byte) *wireMsg {
	buf := make([]byte, 4096)
	deadline := time.Now().Add(c10Wait)
	for {
		for {
			// frame by the declared length first: Decode on a longer buffer would swallow the following frames
			var h tcpCoder.MessageHeader
			if _, err := tcpCoder.DefaultCoder.DecodeHeader(*acc, &h); err != nil || uint32(len(*acc)) < h.MessageLength {
				break
			}
			var m message.Message
			m.Options = make(message.Options, 0, 16)
			n, err := tcpCoder.DefaultCoder.Decode((*acc)[:h.MessageLength], &m)
			if err != nil {
				return nil
			}
			w := wireMsg{Code: int(m.Code), Tok: append([]byte{}, m.Token...), Opts: m.Options, Payload: append([]byte{}, m.Payload...)}
			*acc = append([]byte{}, (*acc)[n:]...)
			if m.Code < 224 && bytes.Equal(w.Tok, tok) {
				return &w
			}
		}
		_ = c.SetReadDeadline(deadline)
		n, err := c.Read(buf)
		if err != nil {
			return nil
		}
		*acc = append(*acc, buf[:n]...)
	}
}

func c10TCPMaxSize(flood bool) uint32 {
	if flood {
		return 4096
	}
	return 2048
}

// c10AwaitPongOrClose reads until a Pong signal arrives or the server closes the connection (watchdog c10Wait).
func c10AwaitPongOrClose(c net.Conn) bool {
	var acc []byte
	buf := make([]byte, 4096)
	_ = c.SetReadDeadline(time.Now().Add(c10Wait))
	for {
		for {
			var h tcpCoder.MessageHeader
			if _, err := tcpCoder.DefaultCoder.DecodeHeader(acc, &h); err != nil || uint32(len(acc)) < h.MessageLength {
				break
			}
			if h.Code == codes.Pong {
				return true
			}
			acc = acc[h.MessageLength:]
		}
		n, err := c.Read(buf)
		if err != nil {
			var ne net.Error
			if os.Getenv("HXDBG") != "" {
				fmt.Fprintf(os.Stderr, "tcpopt wait ended: %v\n", err)
			}
			return !(errors.As(err, &ne) && ne.Timeout())
		}
		acc = append(acc, buf[:n]...)
	}
}

func c10TCPRun(seed uint64, good, bad, nreq int, flood bool) (string, bool, map[string]int, error) {
	rng := NewRng(seed)
	app := newC10App()
	l, err := coapNet.NewTCPListener("tcp4", "127.0.0.1:0")
	if err != nil {
		return "", false, nil, err
	}
	var tcpErrs sync.Map
	s := tcp.NewServer(options.WithMux(app.router()),
		options.WithErrors(func(err error) {
			app.onErr(err)
			// "tcp: 127.0.0.1:1234: ..."
			f := strings.SplitN(strings.TrimPrefix(err.Error(), "tcp: "), ": ", 2)
			if len(f) == 2 {
				v, _ := tcpErrs.LoadOrStore(f[0], new(int32))
				atomic.AddInt32(v.(*int32), 1)
			}
		}),
		options.WithMaxMessageSize(c10TCPMaxSize(flood)),
		options.WithInactivityMonitor(time.Hour, func(cc *tcpClient.Conn) { _ = cc.Close() }),
		options.WithOnNewConn(func(cc *tcpClient.Conn) {
			app.mu.Lock()
			app.news[cc.RemoteAddr().String()]++
			app.mu.Unlock()
		}),
		options.WithProcessReceivedMessageFunc(func(req *pool.Message, cc *tcpClient.Conn, handler config.HandlerFunc[*tcpClient.Conn]) {
			defer app.recovered()
			cc.ProcessReceivedMessageWithHandler(req, handler)
		}))
	ret := make(chan error, 1)
	go func() {
		defer func() {
			if r := recover(); r != nil {
				app.mu.Lock()
				app.panics++
				app.mu.Unlock()
				ret <- fmt.Errorf("panic %v", r)
			}
		}()
		ret <- s.Serve(l)
	}()
	addr := l.Addr().String()
	classes := map[string]int{}
	type tgood struct {
		local string
		reqs  []*c10Send
	}
	goods := make([]*tgood, good)
	var wg sync.WaitGroup
	clean := true
	var cleanMu sync.Mutex
	for i := 0; i < good; i++ {
		g := &tgood{}
		goods[i] = g
		r := rng.Fork()
		for k := 0; k < nreq; k++ {
			q := c10Request(r, i, k, 0, 1)
			q.data = c10EncodeTCP(q.code, q.tok, c10PathOpts(q.route), q.pay)
			g.reqs = append(g.reqs, q)
		}
		wg.Add(1)
		go func(g *tgood) {
			defer wg.Done()
			c, err := net.Dial("tcp4", addr)
			if err != nil {
				cleanMu.Lock()
				clean = false
				cleanMu.Unlock()
				return
			}
			defer c.Close()
			g.local = c.LocalAddr().String()
			var acc []byte
			for _, q := range g.reqs {
				if _, err := c.Write(q.data); err != nil {
					break
				}
				q.obs = c10ReadTCP(c, &acc, q.tok)
				if q.obs == nil {
					cleanMu.Lock()
					clean = false
					cleanMu.Unlock()
					break
				}
			}
		}(g)
	}
	var stalled []net.Conn
	var stMu sync.Mutex
	for i := 0; i < bad; i++ {
		r := rng.Fork()
		wg.Add(1)
		go func() {
			defer wg.Done()
			c, err := net.Dial("tcp4", addr)
			if err != nil {
				return
			}
			kind := 7
			if !flood || r.Chance(15) {
				kind = r.Intn(7)
			}
			name := ""
			switch kind {
			case 7: // round 4 (tcpopt: runs): frames made of long runs of small options, then a Ping signal; the peer
				// waits until the server has consumed them (Pong, or the connection closed because of a malformed one)
				name = "many-options"
				nf := 1 + r.Intn(3)
				for k := 0; k < nf; k++ {
					w := c10ManyOptions(r, true, 4000, 11)
					_, _ = c.Write(w.bytes())
					if os.Getenv("HXDBG") != "" {
						fmt.Fprintf(os.Stderr, "tcpopt frame: n=%d b=%#x post=%v\n", w.n, w.b, w.post)
					}
					if len(w.post) > 0 && w.post[0] != 0xff {
						break // the server closes the connection on this one
					}
				}
				_, _ = c.Write(c10EncodeTCP(0xe2, []byte{0xF0, 0x0D}, nil, nil))
				ok := c10AwaitPongOrClose(c)
				if os.Getenv("HXDBG") != "" {
					fmt.Fprintf(os.Stderr, "tcpopt consumed: %v\n", ok)
				}
			case 0: // connect and stall
				name = "connect-stall"
			case 1: // partial frame then stall
				name = "partial-frame-stall"
				_, _ = c.Write([]byte{0xd2, 0x40})
			case 2: // oversize frame
				name = "oversize-frame"
				_, _ = c.Write(append([]byte{0xf0, 0x00, 0x10, 0x00, 0x00, 0x02}, genBody(3, 3000)...))
			case 3: // garbage
				name = "garbage"
				b := make([]byte, 5+r.Intn(60))
				for j := range b {
					b[j] = byte(r.Intn(256))
				}
				_, _ = c.Write(b)
			case 4: // abrupt close
				name = "abrupt-close"
				_, _ = c.Write(c10EncodeTCP(1, []byte{1}, c10PathOpts(1), nil)[:3])
				_ = c.Close()
			case 5: // unsolicited responses and signals
				name = "unsolicited"
				_, _ = c.Write(c10EncodeTCP(69, []byte{9, 9}, nil, []byte("x")))
				_, _ = c.Write(c10EncodeTCP(0xe5, nil, nil, nil)) // abort
			default: // valid requests, never reads
				name = "valid-never-reads"
				for k := 0; k < 20; k++ {
					_, _ = c.Write(c10EncodeTCP(2, []byte{0xA0, byte(k)}, c10PathOpts(3), genBody(k, 200)))
				}
			}
			stMu.Lock()
			classes[name]++
			stalled = append(stalled, c)
			stMu.Unlock()
		}()
	}
	wg.Wait()
	alive := true
	select {
	case err := <-ret:
		ret <- err
		alive = false
	default:
	}
	probe := false
	if c, err := net.Dial("tcp4", addr); err == nil {
		var acc []byte
		tok := []byte{0xEE, 2}
		_, _ = c.Write(c10EncodeTCP(1, tok, c10PathOpts(1), nil))
		w := c10ReadTCP(c, &acc, tok)
		probe = w != nil && w.Code == int(codes.Content)
		c.Close()
	}
	for _, c := range stalled {
		_ = c.Close()
	}
	s.Stop()
	stopped := false
	select {
	case <-ret:
		stopped = true
	case <-time.After(c10Wait):
	}
	_ = l.Close()
	app.mu.Lock()
	defer app.mu.Unlock()
	var gs []string
	for _, g := range goods {
		var xs, hl []string
		for qi, q := range g.reqs {
			xs = append(xs, fmt.Sprintf("(GReq 1 %d %d %s %d %s, %s)", q.code, qi, coqBytes(q.tok), q.route, coqBytes(q.pay), coqOWire(q.obs)))
		}
		for _, h := range app.hlog[g.local] {
			hl = append(hl, fmt.Sprintf("HC %s %d %d %d", coqBytes(h.tok), h.code, len(h.pay), csum(h.pay)))
		}
		ne := 0
		if v, ok := tcpErrs.Load(g.local); ok {
			ne = int(atomic.LoadInt32(v.(*int32)))
		}
		gs = append(gs, fmt.Sprintf("([%s], %d, %d, [%s])", strings.Join(xs, "; "), app.news[g.local], ne, strings.Join(hl, "; ")))
	}
	coq := fmt.Sprintf("TcpRun [%s] %s %s %s %d", strings.Join(gs, ";\n    "), coqBool(alive), coqBool(probe), coqBool(stopped), app.panics)
	return coq, clean, classes, nil
}

func c10PathOpts(route int) message.Options {
	segs := []string{"zz"}
	if route > 0 {
		segs = c10Routes[route-1].segs
	}
	var o message.Options
	for _, s := range segs {
		o = append(o, message.Option{ID: message.URIPath, Value: []byte(s)})
	}
	return o
}

// ---------- discovery ----------

// c10DiscRun drives DiscoveryRequest calls and responders against a live server.  With fail set, some of the
// requests cannot be sent (an IPv6 destination on the IPv4 socket of a listener opened with network "udp", or a
// datagram above the UDP limit): such a call returns the write error at once, and afterwards its token must be
// as free as before -- responses carrying it go to whoever holds it now (or to the application), and the same
// request can be issued again.  After a failed call the generator prefers its token for the following steps.
func c10DiscRun(seed uint64, fail bool, pad bool) (string, error) {
	rng := NewRng(seed)
	app := newC10App()
	network := "udp4"
	if fail {
		network = "udp" // ResolveUDPAddr(c.Network(), "[::1]:5683") succeeds, the write on the AF_INET socket does not
	}
	l, err := coapNet.NewListenUDP(network, "127.0.0.1:0")
	if err != nil {
		return "", err
	}
	s := udp.NewServer(options.WithMux(app.router()), options.WithErrors(app.onErr),
		options.WithInactivityMonitor(time.Hour, func(cc *udpClient.Conn) { _ = cc.Close() }))
	ret := make(chan error, 1)
	go func() { ret <- s.Serve(l) }()
	defer func() {
		s.Stop()
		select {
		case <-ret:
		case <-time.After(c10Wait):
		}
		_ = l.Close()
	}()
	lst := l.LocalAddr().(*net.UDPAddr)
	dstAddr := &net.UDPAddr{IP: net.IPv4(127, 0, 0, 1), Port: lst.Port}
	nresp := 2 + rng.Intn(2)
	var socks []*net.UDPConn
	for i := 0; i < nresp; i++ {
		c, err := net.ListenUDP("udp4", &net.UDPAddr{IP: net.IPv4(127, 0, 0, byte(1+i)), Port: 0})
		if err != nil {
			return "", err
		}
		defer c.Close()
		socks = append(socks, c)
	}
	type deliv struct{ rcv, port, tag int }
	var mu sync.Mutex
	var delivs []deliv
	type disc struct {
		tok    []byte
		rcv    int
		cancel context.CancelFunc
		done   chan error
	}
	active := map[string]*disc{}
	var steps []string
	mid := 3000
	tag := 0
	tokens := [][]byte{{0xD1, 1}, {0xD2, 2, 2}, {0xD3}, {0xD4, 4, 4, 4}}
	var respOnly [][]byte // tokens only responses carry (a discovery request needs a non-empty token)
	if pad {
		// one byte string with 0, 1, 2, ... zero bytes in front: different tokens (of different lengths), each of
		// which may be registered by a request of its own and carried by responses of any responder
		base := make([]byte, 1+rng.Intn(3))
		for i := range base {
			base[i] = byte(1 + rng.Intn(255))
		}
		full := append(make([]byte, 8-len(base)), base...)
		tokens = [][]byte{base, append([]byte{0}, base...), append([]byte{0, 0}, base...), full}
		if rng.Bool() {
			// ... and two more near misses of the 8-byte token: its first seven bytes, and a sibling that differs in the last bit
			sib := append([]byte{}, full...)
			sib[7] ^= 1
			tokens = append(tokens, full[:7], sib)
		}
		if rng.Bool() {
			tokens = append(tokens, []byte{0}, []byte{0, 0})
			respOnly = [][]byte{{}}
		}
	}
	appCount := func() int {
		app.mu.Lock()
		defer app.mu.Unlock()
		n := 0
		for _, v := range app.hlog {
			n += len(v)
		}
		return n
	}
	nsteps := 8 + rng.Intn(10)
	var hot []byte // token of the latest request whose datagram could not be sent
	pickTok := func() []byte {
		tok := tokens[rng.Intn(len(tokens))]
		if fail && hot != nil && rng.Chance(60) {
			tok = hot
		}
		return tok
	}
	mkRecv := func(rcv int) func(cc *udpClient.Conn, resp *pool.Message) {
		return func(cc *udpClient.Conn, resp *pool.Message) {
			body, _ := resp.ReadBody()
			t := -1
			if len(body) > 0 {
				t = int(body[0])
			}
			mu.Lock()
			delivs = append(delivs, deliv{rcv, cc.RemoteAddr().(*net.UDPAddr).Port, t})
			mu.Unlock()
		}
	}
	if fail || pad {
		nsteps += 6
	}
	for i := 0; i < nsteps; i++ {
		k := rng.Intn(10)
		if fail && (i == 1 || rng.Chance(25)) {
			k = 10
		}
		if pad && k == 4 {
			k = 9 // fewer requests end early: more responses meet a request in progress with a sibling token
		}
		switch {
		case k == 10: // a discovery request whose datagram cannot be sent
			tok := pickTok()
			rcv := 1 + rng.Intn(3)
			ctx, cancel := context.WithCancel(context.Background())
			req := pool.NewMessage(ctx)
			_ = req.SetupGet("/a", tok)
			mid++
			req.SetMessageID(int32(mid))
			req.SetType(message.NonConfirmable)
			// three ways not to get the datagram out: an IPv6 destination on the AF_INET socket (unicast branch), a
			// datagram above the UDP limit to a unicast address (unicast branch) or to a multicast group (WriteMulticast
			// branch; only where the host has an interface on which such a write is attempted and refused)
			address := "[::1]:5683"
			if k := rng.Intn(10); k >= 4 {
				address = socks[0].LocalAddr().String()
				if k >= 7 && c10OversizeMulticastFails() {
					address = "224.0.1.187:5683"
				}
				req.SetBody(bytes.NewReader(make([]byte, 65600+rng.Intn(800))))
			}
			done := make(chan error, 1)
			go func() { done <- s.DiscoveryRequest(req, address, mkRecv(rcv)) }()
			res := 0
			select {
			case err := <-done:
				switch {
				case err == nil:
				case errors.Is(err, pkgErrors.ErrKeyAlreadyExists):
					res = 1
				default:
					res = 2
				}
			case <-time.After(c10Wait):
				cancel()
				return "", errors.New("a discovery request to " + address + " did not fail on this system")
			}
			cancel()
			hot = tok
			steps = append(steps, fmt.Sprintf("(DS_StartFail %s %d %d, %s, [])", coqBytes(tok), rcv, res, coqAddr(lst)))
		case k < 3: // start a discovery
			tok := pickTok()
			rcv := 1 + rng.Intn(3)
			ctx, cancel := context.WithCancel(context.Background())
			req := pool.NewMessage(ctx)
			_ = req.SetupGet("/a", tok)
			mid++
			req.SetMessageID(int32(mid))
			req.SetType(message.NonConfirmable)
			d := &disc{tok: tok, rcv: rcv, cancel: cancel, done: make(chan error, 1)}
			target := socks[0]
			go func() {
				d.done <- s.DiscoveryRequest(req, target.LocalAddr().String(), mkRecv(rcv))
			}()
			// witness: either the request reaches the responder socket (registered) or the call fails at once
			exists := false
			got := make(chan bool, 1)
			go func() {
				buf := make([]byte, 2048)
				_ = target.SetReadDeadline(time.Now().Add(c10Wait))
				for {
					n, _, err := target.ReadFromUDP(buf)
					if err != nil {
						got <- false
						return
					}
					w := decodeWire(append([]byte{}, buf[:n]...))
					if !w.Bad && bytes.Equal(w.Tok, tok) && w.Code == 1 {
						got <- true
						return
					}
				}
			}()
			select {
			case err := <-d.done:
				exists = err != nil
				cancel()
				_ = target.SetReadDeadline(time.Now())
				<-got
			case ok := <-got:
				if !ok {
					cancel()
					return "", errors.New("discovery request not seen")
				}
				active[string(tok)] = d
			}
			steps = append(steps, fmt.Sprintf("(DS_Start %s %d %s, %s, [])", coqBytes(tok), rcv, coqBool(exists), coqAddr(lst)))
		case k < 5: // end a discovery
			if len(active) == 0 {
				continue
			}
			var keys []string
			for k := range active {
				keys = append(keys, k)
			}
			sortStrings(keys)
			d := active[keys[rng.Intn(len(keys))]]
			d.cancel()
			select {
			case <-d.done:
			case <-time.After(c10Wait):
				return "", errors.New("discovery did not return")
			}
			delete(active, string(d.tok))
			steps = append(steps, fmt.Sprintf("(DS_End %s, %s, [])", coqBytes(d.tok), coqAddr(lst)))
		default: // a responder sends a response
			j := rng.Intn(len(socks))
			tok := pickTok()
			if rng.Chance(15) {
				tok = []byte{0x77, byte(i)}
			}
			if len(respOnly) > 0 && rng.Chance(15) {
				tok = respOnly[rng.Intn(len(respOnly))]
			}
			tag++
			mid++
			typ := 1
			d := encodeWire(typ, 69, mid, tok, nil, []byte{byte(tag), 0x44})
			mu.Lock()
			nd := len(delivs)
			mu.Unlock()
			na := appCount()
			if _, err := socks[j].WriteToUDP(d, dstAddr); err != nil {
				return "", err
			}
			// witness: the response reached a receiver or the application
			deadline := time.Now().Add(c10Wait)
			for {
				mu.Lock()
				cur := len(delivs)
				mu.Unlock()
				if cur > nd || appCount() > na || time.Now().After(deadline) {
					break
				}
				time.Sleep(200 * time.Microsecond)
			}
			// a barrier ping on the same socket: when its Reset is back nothing more can come from this response
			mid++
			pm := mid
			_, _ = socks[j].WriteToUDP(encodeWire(0, 0, pm, nil, nil, nil), dstAddr)
			p := &c10Peer{conn: socks[j]}
			_ = p.await(&c10Sched{}, dstAddr, func(w wireMsg) bool { return w.Typ == 3 && w.MID == pm }, false)
			mu.Lock()
			var od []string
			for _, x := range delivs[nd:] {
				od = append(od, fmt.Sprintf("(%d, %d, %d)", x.rcv, x.port, x.tag))
			}
			mu.Unlock()
			oa := appCount() > na
			sa := socks[j].LocalAddr().(*net.UDPAddr)
			steps = append(steps, fmt.Sprintf("(DS_Resp %d %s %d [%s] %s, %s, %s)", sa.Port, coqBytes(tok), tag, strings.Join(od, "; "), coqBool(oa), coqAddr(sa), coqBytes(d)))
			// the ping is part of the traffic the model sees
			steps = append(steps, fmt.Sprintf("(DS_Ping, %s, %s)", coqAddr(sa), coqBytes(encodeWire(0, 0, pm, nil, nil, nil))))
		}
	}
	for _, d := range active {
		d.cancel()
		select {
		case <-d.done:
		case <-time.After(c10Wait):
		}
	}
	return fmt.Sprintf("DiscRun %s (Some (IPhost %d)) [%s]", coqAddr(lst), ipNum(net.IPv4(127, 0, 0, 1)), strings.Join(steps, ";\n    ")), nil
}

var c10McastProbe struct {
	once  sync.Once
	fails bool
}

// c10OversizeMulticastFails: does WriteMulticast of a datagram above the UDP limit return an error on this host?
// (It does wherever a multicast-capable interface is up; on a host without one nothing is written and nothing fails.)
func c10OversizeMulticastFails() bool {
	c10McastProbe.once.Do(func() {
		l, err := coapNet.NewListenUDP("udp4", "127.0.0.1:0")
		if err != nil {
			return
		}
		defer l.Close()
		ctx, cancel := context.WithTimeout(context.Background(), 2*time.Second)
		defer cancel()
		err = l.WriteMulticast(ctx, &net.UDPAddr{IP: net.IPv4(224, 0, 1, 187), Port: 5683}, make([]byte, 66000))
		c10McastProbe.fails = err != nil
	})
	return c10McastProbe.fails
}

func sortStrings(a []string) {
	for i := 1; i < len(a); i++ {
		for j := i; j > 0 && a[j] < a[j-1]; j-- {
			a[j], a[j-1] = a[j-1], a[j]
		}
	}
}

// ---------- closed-connection replacement while the housekeeping sweep runs ----------

func c10RaceRun(seed uint64, pairs int) (string, error) {
	rng := NewRng(seed)
	var dropped, errs, news int32
	l, err := coapNet.NewListenUDP("udp4", "127.0.0.1:0")
	if err != nil {
		return "", err
	}
	s := udp.NewServer(
		options.WithErrors(func(err error) {
			switch {
			case strings.Contains(err.Error(), "cannot get client connection"):
				atomic.AddInt32(&dropped, 1)
			case strings.Contains(err.Error(), "cannot process packet"):
				atomic.AddInt32(&errs, 1)
			}
		}),
		options.WithInactivityMonitor(time.Hour, func(cc *udpClient.Conn) { _ = cc.Close() }),
		options.WithOnNewConn(func(*udpClient.Conn) { atomic.AddInt32(&news, 1) }))
	ret := make(chan error, 1)
	go func() { ret <- s.Serve(l) }()
	stopTick := make(chan struct{})
	var tw sync.WaitGroup
	for i := 0; i < 2; i++ {
		tw.Add(1)
		go func() {
			defer tw.Done()
			for {
				select {
				case <-stopTick:
					return
				default:
					s.VerifTick(time.Now())
				}
			}
		}()
	}
	defer func() {
		close(stopTick)
		tw.Wait()
		s.Stop()
		select {
		case <-ret:
		case <-time.After(c10Wait):
		}
		_ = l.Close()
	}()
	c, err := net.ListenUDP("udp4", &net.UDPAddr{IP: net.IPv4(127, 0, 0, 1), Port: 0})
	if err != nil {
		return "", err
	}
	defer c.Close()
	lst := l.LocalAddr().(*net.UDPAddr)
	dst := &net.UDPAddr{IP: net.IPv4(127, 0, 0, 1), Port: lst.Port}
	garbage := []byte{byte(0x40 | (9 + rng.Intn(7))), 1, 0, 1, 2, 3}
	ping := encodeWire(0, 0, 4242, nil, nil, nil)
	pongs := 0
	buf := make([]byte, 2048)
	done := 0
	for ; done < pairs; done++ {
		if _, err := c.WriteToUDP(garbage, dst); err != nil {
			return "", err
		}
		if _, err := c.WriteToUDP(ping, dst); err != nil {
			return "", err
		}
		got := false
		deadline := time.Now().Add(c10Wait)
		for !got && time.Now().Before(deadline) && atomic.LoadInt32(&dropped) == 0 {
			_ = c.SetReadDeadline(time.Now().Add(50 * time.Millisecond))
			n, _, err := c.ReadFromUDP(buf)
			if err != nil {
				continue
			}
			w := decodeWire(append([]byte{}, buf[:n]...))
			if !w.Bad && w.Typ == 3 && w.MID == 4242 {
				got = true
			}
		}
		if !got {
			done++
			break
		}
		pongs++
	}
	return fmt.Sprintf("RaceRun %s %s %d%%nat %s %s %d %d %d %d", coqAddr(lst), coqAddr(c.LocalAddr().(*net.UDPAddr)), done,
		coqBytes(garbage), coqBytes(ping), atomic.LoadInt32(&news), atomic.LoadInt32(&errs), pongs, atomic.LoadInt32(&dropped)), nil
}
