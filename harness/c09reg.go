package main

// C09, round 4 -- two more families of watchdog runs:
//
//   reg    on-close callbacks are registered WHILE the connection is shutting down: from inside an on-close
//          callback (mode 0), or by another goroutine while an on-close callback is running (mode 1, forced
//          with channels: the callback signals that it runs and waits until the other goroutine has
//          registered; both waits are bounded and giving up can only hide a deviation).  Every callback
//          that was registered before Close has to run exactly once, a callback registered during the
//          shutdown at most once, Done() has to be completed, Close has to return -- on the three real
//          session types (tcp/client over a scripted conn, dtls/server over a scripted conn, udp/server
//          through udp.Dial over loopback).
//
//   setup  Server.Stop of a STREAM server while an accepted connection is still being set up and its peer is
//          silent and keeps its end open.  mode 0: the connection's OnNewConn hook is running; it is kept
//          there (bounded) until every fully registered connection of the server has completed its Done --
//          on a tree where only the table of Serve closes connections that means that Serve has taken its
//          snapshot of the table, without the late connection.  mode 1: TLS listener, the late peer opened
//          the TCP connection and never sends a ClientHello: the server sits in the handshake inside
//          createConn (witness: a goroutine with serveConnection and crypto/tls frames on its stack).
//          Every Stop call and Serve have to return, the late connection's Done has to be completed and
//          its context cancelled, every registered on-close callback ran exactly once.
//          These runs are sequential (the mode-1 witness is a stack snapshot of the whole process).

import (
	"context"
	"crypto/ecdsa"
	"crypto/elliptic"
	"crypto/rand"
	"crypto/tls"
	"crypto/x509"
	"crypto/x509/pkix"
	"errors"
	"fmt"
	"math/big"
	"net"
	"runtime"
	"strings"
	"sync"
	"sync/atomic"
	"time"

	"github.com/plgd-dev/go-coap/v3/message"
	"github.com/plgd-dev/go-coap/v3/mux"
	coapNet "github.com/plgd-dev/go-coap/v3/net"
	"github.com/plgd-dev/go-coap/v3/options"
	"github.com/plgd-dev/go-coap/v3/tcp"
	tcpClient "github.com/plgd-dev/go-coap/v3/tcp/client"
	tcpCoder "github.com/plgd-dev/go-coap/v3/tcp/coder"
)

// ---------- registration during shutdown ----------
type c09RegCase struct{ tr, mode, ncb, nlate, who int }

func (k c09RegCase) desc() string {
	return fmt.Sprintf("reg %d %d %d %d %d", k.tr, k.mode, k.ncb, k.nlate, k.who)
}

type c09RegObs struct {
	cb, late      []int64
	done, closers bool
}

func runC09Reg(k c09RegCase) (c09RegObs, error) {
	var o c09RegObs
	if k.who >= k.ncb || k.ncb < 1 {
		return o, errors.New("bad reg case")
	}
	c, err := newC09Conn(k.tr, c09Cfg{closeSocket: true, limitTotal: 16, limitEndpoint: 16, nstart: 8})
	if err != nil {
		return o, err
	}
	defer c.cleanup()
	counts := make([]atomic.Int64, k.ncb)
	lates := make([]atomic.Int64, k.nlate)
	registerLate := func() {
		for j := 0; j < k.nlate; j++ {
			j := j
			c.addOn(func() { lates[j].Add(1) })
		}
	}
	running := make(chan struct{})
	release := make(chan struct{})
	var once sync.Once
	for i := 0; i < k.ncb; i++ {
		i := i
		c.addOn(func() {
			counts[i].Add(1)
			if i != k.who {
				return
			}
			once.Do(func() {
				if k.mode == 0 {
					registerLate() // e.g. a hook that re-arms clean-up handlers
					return
				}
				close(running)
				select { // a slow callback
				case <-release:
				case <-time.After(c09Watchdog / 2):
				}
			})
		})
	}
	var wg sync.WaitGroup
	if k.mode == 1 {
		wg.Add(1)
		go func() { // application code that holds the connection registers its hooks now
			defer wg.Done()
			select {
			case <-running:
			case <-time.After(2 * c09Watchdog):
				return
			}
			registerLate()
			close(release)
		}()
	}
	closed := make(chan struct{})
	go func() {
		defer close(closed)
		defer func() { _ = recover() }()
		_ = c.closeFn()
	}()
	wd := c09After(c09Watchdog)
	o.closers = c09Within(closed, wd)
	o.done = c09Within(c.done(), wd)
	if k.mode == 1 {
		all := make(chan struct{})
		go func() { wg.Wait(); close(all) }()
		c09Within(all, c09After(2*c09Watchdog+time.Second))
	}
	if o.closers { // Close is idempotent
		func() {
			defer func() { _ = recover() }()
			_ = c.closeFn()
		}()
	}
	for i := range counts {
		o.cb = append(o.cb, counts[i].Load())
	}
	for i := range lates {
		o.late = append(o.late, lates[i].Load())
	}
	return o, nil
}

// ---------- Stop while a connection is being set up ----------
type c09SetupCase struct{ mode, nstop, nreg, ncb int }

func (k c09SetupCase) desc() string {
	return fmt.Sprintf("setup %d %d %d %d", k.mode, k.nstop, k.nreg, k.ncb)
}

type c09SetupObs struct {
	nconn                             int // connections handed to OnNewConn in the end
	cb                                []int64
	done, ctx, closers, panic_, serve bool
}

func c09SelfSigned() (*tls.Config, error) {
	key, err := ecdsa.GenerateKey(elliptic.P256(), rand.Reader)
	if err != nil {
		return nil, err
	}
	tmpl := &x509.Certificate{
		SerialNumber: big.NewInt(1),
		Subject:      pkix.Name{CommonName: "c09"},
		NotBefore:    time.Now().Add(-time.Hour),
		NotAfter:     time.Now().Add(24 * time.Hour),
		KeyUsage:     x509.KeyUsageDigitalSignature,
		ExtKeyUsage:  []x509.ExtKeyUsage{x509.ExtKeyUsageServerAuth},
		IPAddresses:  []net.IP{net.IPv4(127, 0, 0, 1)},
	}
	der, err := x509.CreateCertificate(rand.Reader, tmpl, tmpl, &key.PublicKey, key)
	if err != nil {
		return nil, err
	}
	return &tls.Config{Certificates: []tls.Certificate{{Certificate: [][]byte{der}, PrivateKey: key}}}, nil
}

// c09PingPong sends a Ping signal on a stream connection of a peer and waits for the Pong: the server-side
// connection is then inside Run, i.e. stored in the table of Serve.
func c09PingPong(p net.Conn) error {
	if _, err := p.Write([]byte{0x00, 0xE2}); err != nil {
		return err
	}
	_ = p.SetReadDeadline(time.Now().Add(10 * time.Second))
	defer func() { _ = p.SetReadDeadline(time.Time{}) }()
	var buf []byte
	tmp := make([]byte, 512)
	for {
		n, err := p.Read(tmp)
		if err != nil {
			return fmt.Errorf("setup: no pong: %w", err)
		}
		buf = append(buf, tmp[:n]...)
		for len(buf) > 0 {
			var m message.Message
			m.Options = make(message.Options, 0, 8)
			used, err := tcpCoder.DefaultCoder.Decode(buf, &m)
			if err != nil {
				break // incomplete frame
			}
			buf = buf[used:]
			if byte(m.Code) == 0xE3 {
				return nil
			}
		}
	}
}

func runC09Setup(k c09SetupCase) (c09SetupObs, error) {
	var o c09SetupObs
	var cleanup []func()
	defer func() {
		for i := len(cleanup) - 1; i >= 0; i-- {
			cleanup[i]()
		}
	}()
	var ld interface {
		Close() error
		AcceptWithContext(ctx context.Context) (net.Conn, error)
		Addr() net.Addr
	}
	if k.mode == 0 {
		l, err := coapNet.NewTCPListener("tcp4", "127.0.0.1:0")
		if err != nil {
			return o, err
		}
		ld = l
	} else {
		cfg, err := c09SelfSigned()
		if err != nil {
			return o, err
		}
		l, err := coapNet.NewTLSListener("tcp4", "127.0.0.1:0", cfg)
		if err != nil {
			return o, err
		}
		ld = l
	}
	cleanup = append(cleanup, func() { _ = ld.Close() })

	var mu sync.Mutex
	var counts []*atomic.Int64
	var dones []<-chan struct{} // Done() of the fully registered connections
	var lateCC *tcpClient.Conn
	nconn := 0
	hooked := make(chan struct{}, 16)
	lateInHook := make(chan struct{})
	s := tcp.NewServer(
		options.WithErrors(func(error) {}),
		options.WithMux(mux.NewRouter()),
		options.WithOnNewConn(func(cc *tcpClient.Conn) {
			mu.Lock()
			nconn++
			late := nconn > k.nreg
			for i := 0; i < k.ncb; i++ {
				cnt := &atomic.Int64{}
				counts = append(counts, cnt)
				cc.AddOnClose(func() { cnt.Add(1) })
			}
			var ds []<-chan struct{}
			if late {
				lateCC = cc
				ds = append(ds, dones...)
			} else {
				dones = append(dones, cc.Done())
			}
			mu.Unlock()
			if !late {
				hooked <- struct{}{}
				return
			}
			// a hook that takes a while (authorization, registration of the peer, ...)
			close(lateInHook)
			wd := c09After(c09Watchdog / 2)
			for _, d := range ds {
				c09Within(d, wd)
			}
		}),
	)
	serveErr := make(chan error, 1)
	go func() { serveErr <- s.Serve(ld) }()

	dial := func(useTLS bool) (net.Conn, error) {
		if useTLS {
			d := &net.Dialer{Timeout: 10 * time.Second}
			return tls.DialWithDialer(d, "tcp4", ld.Addr().String(), &tls.Config{InsecureSkipVerify: true}) //nolint:gosec
		}
		return net.DialTimeout("tcp4", ld.Addr().String(), 10*time.Second)
	}
	for i := 0; i < k.nreg; i++ {
		p, err := dial(k.mode == 1)
		if err != nil {
			return o, fmt.Errorf("setup: %w", err)
		}
		cleanup = append(cleanup, func() { _ = p.Close() })
		select {
		case <-hooked:
		case err := <-serveErr:
			return o, fmt.Errorf("setup: serve ended: %v", err)
		case <-time.After(10 * time.Second):
			return o, errors.New("setup: server did not see the peer")
		}
		if err := c09PingPong(p); err != nil {
			return o, err
		}
	}
	// the late peer: connects (plain TCP in both modes), never writes, keeps its end open
	late, err := net.DialTimeout("tcp4", ld.Addr().String(), 10*time.Second)
	if err != nil {
		return o, fmt.Errorf("setup: %w", err)
	}
	cleanup = append(cleanup, func() { _ = late.Close() })
	if k.mode == 0 {
		select {
		case <-lateInHook:
		case err := <-serveErr:
			return o, fmt.Errorf("setup: serve ended: %v", err)
		case <-time.After(10 * time.Second):
			return o, errors.New("setup: server did not see the late peer")
		}
	} else {
		// witness: the goroutine of the late connection is inside the TLS handshake
		deadline := time.Now().Add(10 * time.Second)
		buf := make([]byte, 4<<20)
		seen := false
		for !seen && time.Now().Before(deadline) {
			n := runtime.Stack(buf, true)
			for _, g := range strings.Split(string(buf[:n]), "\n\n") {
				if strings.Contains(g, "tcp/server.(*Server).serveConnection") && strings.Contains(g, "crypto/tls.(*Conn).") {
					seen = true
					break
				}
			}
			if !seen {
				time.Sleep(500 * time.Microsecond)
			}
		}
		if !seen {
			return o, errors.New("setup: the server did not start the handshake with the late peer")
		}
	}

	start := make(chan struct{})
	var panics atomic.Int64
	var wg sync.WaitGroup
	for i := 0; i < k.nstop; i++ {
		wg.Add(1)
		go func() {
			defer wg.Done()
			defer func() {
				if recover() != nil {
					panics.Add(1)
				}
			}()
			<-start
			s.Stop()
		}()
	}
	close(start)
	stopped := make(chan struct{})
	go func() { wg.Wait(); close(stopped) }()
	o.closers = c09Within(stopped, c09After(c09Watchdog))
	select {
	case <-serveErr:
		o.serve = true
	case <-time.After(c09Watchdog):
	}
	wd := c09After(c09Watchdog)
	mu.Lock()
	ds := append([]<-chan struct{}(nil), dones...)
	lc := lateCC
	mu.Unlock()
	o.done, o.ctx = true, true
	for _, d := range ds {
		if !c09Within(d, wd) {
			o.done = false
		}
	}
	// the late connection: in mode 1 the application sees it only when the handshake has ended (aborted)
	if lc != nil {
		if !c09Within(lc.Done(), wd) {
			o.done = false
		}
		if !c09Within(lc.Context().Done(), wd) {
			o.ctx = false
		}
	} else if k.mode == 0 {
		o.done, o.ctx = false, false
	}
	func() { // Stop after everything is down
		defer func() {
			if recover() != nil {
				panics.Add(1)
			}
		}()
		s.Stop()
	}()
	o.panic_ = panics.Load() != 0
	mu.Lock()
	o.nconn = nconn
	for _, c := range counts {
		o.cb = append(o.cb, c.Load())
	}
	mu.Unlock()
	return o, nil
}
