package main

// C20, block-wise part (hx name C20B, evaluated by NoResp/BwRun.v): histories of request datagrams on a
// real udp/client.Conn over the in-memory session WITH the real net/blockwise layer between the
// connection and the handler.  Families:
//
//	U  Block1 uploads of 2..n blocks (PUT/POST, CON/NON) whose blocks carry a No-Response option
//	   (the same on every block; on some cases only on the last / only on the first block), the handler
//	   answering with a code of a suppressed or of a passed class, without / with a small / with a
//	   block-wise (large) body; with duplicates of blocks, blocks out of order, a second token interleaved
//	D  Block2 downloads: GET/DELETE with a No-Response option whose response body needs 2..n blocks,
//	   followed by the requests for the next blocks (same / other / no No-Response option)
//	P  plain single-datagram requests (incl. the single-block Block1 form) through the layer
//	R  random mixtures of the datagrams above over two tokens
//
// Every datagram is injected with Conn.Process and followed by the barrier request of udpmem.go (no
// timing): the observation of an event is complete when the barrier has been dispatched.

import (
	"bytes"
	"fmt"
	"os"
	"sort"
	"strings"
	"time"

	"github.com/plgd-dev/go-coap/v3/message"
	"github.com/plgd-dev/go-coap/v3/message/codes"
	"github.com/plgd-dev/go-coap/v3/message/pool"
	"github.com/plgd-dev/go-coap/v3/net/blockwise"
	"github.com/plgd-dev/go-coap/v3/net/responsewriter"
	"github.com/plgd-dev/go-coap/v3/udp/client"
)

func init() { props["C20B"] = runC20B }

type c20bEv struct {
	Typ, MID int
	Tok      []byte
	Code     int
	Opts     message.Options
	PSalt    int // datagram payload = genBody(PSalt, PLen)
	PLen     int
	Beh      string // none | resp
	RCode    int
	ROpts    message.Options
	RSalt    int
	RLen     int
}

func (e c20bEv) desc() string {
	return fmt.Sprintf("%d:%d:%x:%d:%s:%d:%d:%s:%d:%s:%d:%d", e.Typ, e.MID, e.Tok, e.Code, dashOpts(e.Opts), e.PSalt, e.PLen,
		e.Beh, e.RCode, dashOpts(e.ROpts), e.RSalt, e.RLen)
}

func parseC20bEv(s string) c20bEv {
	f := strings.Split(s, ":")
	atoi := func(x string) int { var v int; fmt.Sscanf(x, "%d", &v); return v }
	var e c20bEv
	if len(f) < 12 {
		return e
	}
	e.Typ, e.MID, e.Tok, e.Code = atoi(f[0]), atoi(f[1]), c05Hex(f[2]), atoi(f[3])
	e.Opts = parseDescOpts(f[4])
	e.PSalt, e.PLen = atoi(f[5]), atoi(f[6])
	e.Beh, e.RCode = f[7], atoi(f[8])
	e.ROpts = parseDescOpts(f[9])
	e.RSalt, e.RLen = atoi(f[10]), atoi(f[11])
	return e
}

func (e c20bEv) coqBeh() string {
	if e.Beh == "resp" {
		return fmt.Sprintf("(BResp %d %s (gen_body %d %d%%nat))", e.RCode, coqOpts(e.ROpts), e.RSalt, e.RLen)
	}
	return "BNone"
}

// what the handler saw and what SetResponse returned
type c20bCall struct {
	code    int
	opts    message.Options
	body    []byte
	refused bool
}

// c20bSync is memConn.sync with a caller-chosen patience: a non-confirmable barrier request that the handler
// recognises; everything injected before it has been dispatched (and its reply written) when it arrives.
func c20bSync(m *memConn, patience time.Duration) bool {
	own := int(uint16(m.cc.VerifMsgID()))
	mid := (own + 0x4000 + m.barSeq) & 0xffff
	for m.avoidMID[mid] {
		m.barSeq++
		mid = (own + 0x4000 + m.barSeq) & 0xffff
	}
	m.barSeq++
	if m.inject(encodeWire(1, 1, mid, m.barTok, nil, nil)) != 0 {
		return false
	}
	select {
	case <-m.barrier:
		return true
	case <-time.After(patience):
		return false
	}
}

// runC20BHistory runs one history on a fresh connection. patience bounds the wait for each barrier; a
// barrier that does not arrive makes the run "not ok" (the caller repeats it with a much longer patience:
// a slow machine must not look like a dropped response).
func runC20BHistory(szx int, getMID int32, evs []c20bEv, patience time.Duration) (string, bool) {
	mc := newMemConn(memConnOpts{getMID: getMID, queueSize: 16, maxRetransmit: 4, blockwise: true, blockwiseSZX: blockwise.SZX(szx)})
	defer mc.close()
	own0 := mc.cc.VerifMsgID()
	for _, e := range evs {
		mc.avoidMID[e.MID] = true
	}
	var sb strings.Builder
	fmt.Fprintf(&sb, "BHist %d %d %d [", szx, mc.s.maxMsg, own0)
	ok := true
	for i, e := range evs {
		if i > 0 {
			sb.WriteString("; ")
		}
		ev := e
		var calls []c20bCall
		mc.mu.Lock()
		mc.behave = func(w *responsewriter.ResponseWriter[*client.Conn], r *pool.Message) {
			c := c20bCall{code: int(r.Code())}
			for _, o := range r.Options() {
				c.opts = append(c.opts, message.Option{ID: o.ID, Value: append([]byte{}, o.Value...)})
			}
			if r.Body() != nil {
				c.body, _ = r.ReadBody()
			}
			if ev.Beh == "resp" {
				var err error
				if ev.RLen > 0 {
					err = w.SetResponse(codes.Code(ev.RCode), message.TextPlain, bytes.NewReader(genBody(ev.RSalt, ev.RLen)), ev.ROpts...)
				} else {
					err = w.SetResponse(codes.Code(ev.RCode), message.TextPlain, nil, ev.ROpts...)
				}
				c.refused = err != nil
			}
			calls = append(calls, c) // the handler runs on the connection's single dispatch goroutine; read after the barrier
		}
		mc.mu.Unlock()
		var payload []byte
		if e.PLen > 0 {
			payload = genBody(e.PSalt, e.PLen)
		}
		if mc.inject(encodeWire(e.Typ, e.Code, e.MID, e.Tok, e.Opts, payload)) != 0 {
			ok = false
		}
		if !c20bSync(mc, patience) {
			ok = false
		}
		mc.takeLog()
		out := mc.takeOut()
		oc := "NoCall"
		switch len(calls) {
		case 0:
		case 1:
			c := calls[0]
			oc = fmt.Sprintf("(Call %d %s %d %d %s)", c.code, coqOpts(c.opts), len(c.body), csum(c.body), coqBool(c.refused))
		default:
			oc = "(Call 999 [] 0 0 false)" // called more than once for one datagram: never agrees
		}
		fmt.Fprintf(&sb, "BReq %d %d %s %d %s (gen_body %d %d%%nat) %s %s %s", e.Typ, e.MID, coqBytes(e.Tok), e.Code, coqOpts(e.Opts),
			e.PSalt, e.PLen, e.coqBeh(), oc, coqWireObs(out))
	}
	sb.WriteString("]")
	return sb.String(), ok
}

func c20bDesc(szx int, getMID int32, evs []c20bEv) string {
	parts := make([]string, len(evs))
	for i, e := range evs {
		parts[i] = e.desc()
	}
	return fmt.Sprintf("%d,%d|%s", szx, getMID, strings.Join(parts, " "))
}

func c20bBlockOpt(id message.OptionID, szx, num int, more bool) message.Option {
	v, err := blockwise.EncodeBlockOption(blockwise.SZX(szx), int64(num), more)
	if err != nil {
		panic(err)
	}
	buf := make([]byte, 4)
	n, _ := message.EncodeUint32(buf, v)
	return message.Option{ID: id, Value: buf[:n]}
}

func c20bSort(o message.Options) message.Options {
	sort.SliceStable(o, func(x, y int) bool { return o[x].ID < o[y].ID })
	return o
}

// No-Response option values: nil = no option.  The option definition of the message codec admits 0..1 bytes
// (a longer value never reaches the connection: the datagram parser skips the option), so the wire
// families use those; longer values are covered on the response writer itself (c20.go).
var c20bNoResp = [][]byte{nil, {}, {2}, {8}, {16}, {26}, {24}, {10}, {18}, {0}, {32}, {127}, {255}, {6}, {1}}

var c20bRespCodes = []int{68, 65, 69, 67, 95, 132, 128, 157, 160, 165, 64 + 31, 192 + 1}

var c20bRespOpts = []message.Options{
	nil,
	{{ID: message.ETag, Value: []byte{1, 2, 3}}},
	{{ID: message.MaxAge, Value: []byte{60}}},
	{{ID: message.ETag, Value: []byte{9}}, {ID: message.LocationPath, Value: []byte("a")}, {ID: message.LocationPath, Value: []byte("bc")}},
	{{ID: message.ContentFormat, Value: []byte{50}}},
}

type c20bGen struct {
	rng  *Rng
	mid  int
	szx  int // the server's configured SZX
	tier string
}

func (g *c20bGen) nextMID() int {
	g.mid = (g.mid + 1) & 0xffff
	return g.mid
}

func (g *c20bGen) token() []byte {
	t := make([]byte, []int{1, 2, 4, 8}[g.rng.Intn(4)])
	for i := range t {
		t[i] = byte(g.rng.U64())
	}
	return t
}

func (g *c20bGen) withNoResp(o message.Options, v []byte) message.Options {
	out := append(message.Options{}, o...)
	if v != nil {
		out = append(out, message.Option{ID: message.NoResponse, Value: v})
	}
	return c20bSort(out)
}

// resp fills the handler behaviour: code of a class chosen against the No-Response value, body none / small / large
func (g *c20bGen) resp(e *c20bEv, wantClass int, large int) {
	e.Beh = "resp"
	for tries := 0; ; tries++ {
		e.RCode = c20bRespCodes[g.rng.Intn(len(c20bRespCodes))]
		if wantClass == 0 || e.RCode>>5 == wantClass || tries > 40 {
			break
		}
	}
	e.ROpts = c20bRespOpts[g.rng.Intn(len(c20bRespOpts))]
	e.RSalt = g.rng.Intn(250)
	bs := 16 << uint(g.szx)
	switch large {
	case 0:
		e.RLen = 0
	case 1:
		e.RLen = 1 + g.rng.Intn(bs-1)
	default:
		e.RLen = bs*(1+g.rng.Intn(3)) + []int{0, 0, 1, bs / 2, bs - 1}[g.rng.Intn(5)]
	}
}

// classFor picks the response class: with a No-Response value v, a class it suppresses (hit) or one it lets pass
func (g *c20bGen) classFor(v []byte, hit bool) int {
	var n uint32
	for _, b := range v {
		n = n<<8 | uint32(b)
	}
	var sup, pass []int
	for _, c := range []int{2, 4, 5} {
		bit := map[int]uint32{2: 2, 4: 8, 5: 16}[c]
		if v != nil && len(v) <= 4 && n&bit != 0 {
			sup = append(sup, c)
		} else {
			pass = append(pass, c)
		}
	}
	if hit && len(sup) > 0 {
		return sup[g.rng.Intn(len(sup))]
	}
	if len(pass) > 0 {
		return pass[g.rng.Intn(len(pass))]
	}
	return 0
}

// upload: the datagrams of a Block1 transfer of n blocks
func (g *c20bGen) upload(n int, typ int, tok []byte, noresp []byte, where int, cszx int, respLarge int, hit bool) []c20bEv {
	code := 2 + g.rng.Intn(2)
	bs := 16 << uint(cszx)
	base := message.Options{{ID: message.URIPath, Value: []byte("up")}}
	var evs []c20bEv
	for i := 0; i < n; i++ {
		last := i == n-1
		o := append(message.Options{}, base...)
		o = append(o, c20bBlockOpt(message.Block1, cszx, i, !last))
		if i == 0 && g.rng.Chance(30) {
			o = append(o, message.Option{ID: message.Size1, Value: []byte{byte(n * bs)}})
		}
		v := noresp
		switch where {
		case 1: // only on the last block
			if !last {
				v = nil
			}
		case 2: // only on the first block
			if i != 0 {
				v = nil
			}
		}
		e := c20bEv{Typ: typ, MID: g.nextMID(), Tok: tok, Code: code, Opts: g.withNoResp(o, v), PSalt: g.rng.Intn(250), PLen: bs}
		if last {
			e.PLen = []int{bs, 1, bs / 2, bs - 1, 0}[g.rng.Intn(5)]
		}
		// the handler behaviour is the same on every datagram of the transfer (it only runs where the layer calls it)
		evs = append(evs, e)
	}
	var tmpl c20bEv
	g.resp(&tmpl, g.classFor(noresp, hit), respLarge)
	for i := range evs {
		evs[i].Beh, evs[i].RCode, evs[i].ROpts, evs[i].RSalt, evs[i].RLen = tmpl.Beh, tmpl.RCode, tmpl.ROpts, tmpl.RSalt, tmpl.RLen
	}
	return evs
}

// download: GET (or DELETE) whose response needs several blocks, then the requests for the following blocks
func (g *c20bGen) download(typ int, tok []byte, noresp []byte, follow int, cszx int, hit bool, firstBlock2 bool) []c20bEv {
	code := []int{1, 1, 1, 4}[g.rng.Intn(4)]
	base := message.Options{{ID: message.URIPath, Value: []byte("dn")}}
	o := append(message.Options{}, base...)
	if firstBlock2 {
		o = append(o, c20bBlockOpt(message.Block2, cszx, 0, false))
	}
	first := c20bEv{Typ: typ, MID: g.nextMID(), Tok: tok, Code: code, Opts: g.withNoResp(o, noresp)}
	cls := g.classFor(noresp, hit)
	g.resp(&first, cls, 2)
	if cls == 2 && g.rng.Chance(70) {
		first.RCode = 69
	}
	evs := []c20bEv{first}
	eff := cszx
	if g.szx < eff {
		eff = g.szx
	}
	bs := 16 << uint(eff)
	nblocks := (first.RLen + bs - 1) / bs
	for k := 1; k < nblocks+1 && k <= 5; k++ {
		v := noresp
		switch follow {
		case 1: // following requests without the option
			v = nil
		case 2: // ... with another value
			v = c20bNoResp[g.rng.Intn(len(c20bNoResp))]
		}
		oo := append(message.Options{}, base...)
		fszx := eff
		if g.rng.Chance(8) {
			fszx = eff + 1 // a following request that asks for larger blocks than the server uses (not judged, modelled)
		}
		oo = append(oo, c20bBlockOpt(message.Block2, fszx, k, false))
		e := first
		e.MID = g.nextMID()
		e.Opts = g.withNoResp(oo, v)
		evs = append(evs, e)
	}
	return evs
}

func (g *c20bGen) plain(typ int, tok []byte, noresp []byte, hit bool) c20bEv {
	code := 1 + g.rng.Intn(4)
	o := message.Options{{ID: message.URIPath, Value: []byte("p")}}
	e := c20bEv{Typ: typ, MID: g.nextMID(), Tok: tok, Code: code}
	if (code == 2 || code == 3) && g.rng.Chance(40) {
		o = append(o, c20bBlockOpt(message.Block1, g.rng.Intn(3), 0, false)) // the only block of a body
		e.PLen = 1 + g.rng.Intn(15)
		e.PSalt = g.rng.Intn(250)
	}
	e.Opts = g.withNoResp(o, noresp)
	if g.rng.Chance(85) {
		g.resp(&e, g.classFor(noresp, hit), g.rng.Intn(2))
	} else {
		e.Beh = "none"
	}
	return e
}

func runC20B(a runArgs) error {
	e := NewEmitter("C20B", "NoResp.BwRun")
	e.Preamble = "From GoCoap Require Import Base.Bytes Dedup.Model Dedup.Spec NoResp.BwModel."
	e.ShardSize = 150
	e.Rule = "histories of request datagrams on a fresh udp/client.Conn (in-memory session) with the real net/blockwise layer (configured SZX 16..128, up to 1024 in the thorough tier): Block1 uploads of 2..4 (thorough: 2..8) blocks (PUT/POST, CON/NON) carrying a No-Response option (none, empty, one byte; on all / only the last / only the first block) with a handler response of a suppressed or passed class (no / small / block-wise body), duplicated and out-of-order blocks, a second token interleaved; Block2 downloads (GET/DELETE with No-Response, following block requests with the same / another / no option); plain requests incl. single-block Block1; random mixtures. Distinct = distinct history; non-trivial = a handler call for a request that carries a No-Response option happened after at least one block-wise step (Continue or Block2 block) on the same token."
	rng := NewRng(a.seed ^ 0xc20b)

	// HX_C20B_PATIENCE_US (testing only): patience of the first attempt in microseconds, to exercise the slow path
	firstPatience := 5 * time.Second
	if v := os.Getenv("HX_C20B_PATIENCE_US"); v != "" {
		var us int
		fmt.Sscanf(v, "%d", &us)
		firstPatience = time.Duration(us) * time.Microsecond
	}
	emit := func(szx int, getMID int32, evs []c20bEv, fam string) {
		txt, ok := runC20BHistory(szx, getMID, evs, firstPatience)
		if !ok {
			e.Hist["slow_rerun"]++
			txt, ok = runC20BHistory(szx, getMID, evs, 120*time.Second)
		}
		if !ok {
			e.Hist["barrier_timeout"]++ // the connection stopped dispatching: reported as observed
		}
		buckets := []string{"family=" + fam, fmt.Sprintf("szx=%d", szx), fmt.Sprintf("len%02d", len(evs))}
		nontriv := false
		kinds := map[string]bool{}
		seenTok := map[string]bool{}
		for _, ev := range evs {
			_, _, e1 := ev.Opts.Find(message.Block1)
			_, _, e2 := ev.Opts.Find(message.Block2)
			_, _, en := ev.Opts.Find(message.NoResponse)
			if en == nil {
				kinds["no-response"] = true
				if seenTok[string(ev.Tok)] && (e1 == nil || e2 == nil) {
					nontriv = true
				}
			}
			if e1 == nil {
				kinds["block1"] = true
			}
			if e2 == nil {
				kinds["block2"] = true
			}
			if ev.Typ == 0 {
				kinds["con"] = true
			} else {
				kinds["non"] = true
			}
			seenTok[string(ev.Tok)] = true
		}
		for k := range kinds {
			buckets = append(buckets, k)
		}
		sort.Strings(buckets)
		e.Add(txt, c20bDesc(szx, getMID, evs), nontriv, buckets...)
	}

	if a.only != "" {
		parts := strings.SplitN(a.only, "|", 2)
		var szx int
		var getMID int32
		fmt.Sscanf(parts[0], "%d,%d", &szx, &getMID)
		var evs []c20bEv
		if len(parts) > 1 {
			for _, s := range strings.Fields(parts[1]) {
				evs = append(evs, parseC20bEv(s))
			}
		}
		emit(szx, getMID, evs, "replay")
		return e.Flush(a.out)
	}

	newGen := func() (*c20bGen, int32) {
		getMID := int32([]int{0x1000, 0, 0x7fff, 0xffff, 0x8123}[rng.Intn(5)])
		g := &c20bGen{rng: rng, szx: []int{0, 0, 0, 0, 1, 1, 2, 3}[rng.Intn(8)], tier: a.tier, mid: []int{0, 100, 65530, 4660, 30000}[rng.Intn(5)]}
		if a.tier == "thorough" && rng.Chance(4) {
			g.szx = 4 + rng.Intn(3) // 256..1024-byte blocks
		}
		return g, getMID
	}
	maxBlocks := 4
	nU, nD, nP, nR := 520, 280, 100, 260
	if a.tier == "thorough" {
		maxBlocks = 8
		nU, nD, nP, nR = 8000, 4000, 1000, 5000
	}

	// canonical witnesses: every (type, No-Response value from {none,2,8,16,26}, response class) for a 2-block and a 3-block upload
	for _, typ := range []int{0, 1} {
		for _, v := range [][]byte{nil, {2}, {8}, {16}, {26}} {
			for _, rc := range []int{68, 132, 160} {
				for _, n := range []int{2, 3} {
					g := &c20bGen{rng: rng, szx: 0, mid: 200}
					evs := g.upload(n, typ, []byte{0xa1, byte(n)}, v, 0, 0, 0, false)
					for i := range evs {
						evs[i].RCode, evs[i].ROpts, evs[i].RLen = rc, nil, 0
					}
					emit(0, 0x1000, evs, "U-canonical")
				}
			}
		}
	}

	// U: uploads
	for c := 0; c < nU; c++ {
		g, getMID := newGen()
		n := 2 + rng.Intn(maxBlocks-1)
		typ := rng.Intn(2)
		v := c20bNoResp[rng.Intn(len(c20bNoResp))]
		if rng.Chance(50) {
			v = [][]byte{{2}, {8}, {16}, {26}, {10}, {24}}[rng.Intn(6)]
		}
		where := []int{0, 0, 0, 0, 1, 2}[rng.Intn(6)]
		cszx := g.szx
		if rng.Chance(20) {
			cszx = rng.Intn(3) // the client's block size differs from the server's
		}
		evs := g.upload(n, typ, g.token(), v, where, cszx, []int{0, 0, 1, 2}[rng.Intn(4)], rng.Chance(65))
		fam := "U"
		switch r := rng.Intn(100); {
		case r < 15: // a block is duplicated (same datagram again)
			i := rng.Intn(len(evs))
			evs = append(evs[:i+1], append([]c20bEv{evs[i]}, evs[i+1:]...)...)
			fam = "U-dup"
		case r < 25: // the last block is retransmitted with a new message ID (no transfer state left)
			l := evs[len(evs)-1]
			l.MID = g.nextMID()
			evs = append(evs, l)
			fam = "U-replayed-last"
		case r < 35 && n > 2: // two blocks swapped
			i := 1 + rng.Intn(n-2)
			evs[i], evs[i+1] = evs[i+1], evs[i]
			fam = "U-reordered"
		case r < 50: // a plain request of another token in between
			i := 1 + rng.Intn(len(evs)-1)
			p := g.plain(rng.Intn(2), g.token(), c20bNoResp[rng.Intn(len(c20bNoResp))], rng.Bool())
			evs = append(evs[:i], append([]c20bEv{p}, evs[i:]...)...)
			fam = "U-interleaved-plain"
		case r < 62: // a second upload under another token, interleaved block by block
			o := g.upload(2+rng.Intn(2), rng.Intn(2), g.token(), c20bNoResp[rng.Intn(len(c20bNoResp))], 0, cszx, rng.Intn(2), rng.Bool())
			var m []c20bEv
			for len(evs) > 0 || len(o) > 0 {
				if len(o) == 0 || (len(evs) > 0 && rng.Bool()) {
					m, evs = append(m, evs[0]), evs[1:]
				} else {
					m, o = append(m, o[0]), o[1:]
				}
			}
			evs = m
			fam = "U-two-tokens"
		}
		emit(g.szx, getMID, evs, fam)
	}

	// D: downloads
	for c := 0; c < nD; c++ {
		g, getMID := newGen()
		v := c20bNoResp[rng.Intn(len(c20bNoResp))]
		cszx := g.szx
		if rng.Chance(20) {
			cszx = rng.Intn(3)
		}
		evs := g.download(rng.Intn(2), g.token(), v, []int{0, 0, 0, 1, 2}[rng.Intn(5)], cszx, rng.Chance(40), rng.Chance(30))
		fam := "D"
		if rng.Chance(15) && len(evs) > 1 {
			i := rng.Intn(len(evs))
			evs = append(evs[:i+1], append([]c20bEv{evs[i]}, evs[i+1:]...)...)
			fam = "D-dup"
		}
		if rng.Chance(10) {
			// an upload under the same token after the download
			evs = append(evs, g.upload(2, rng.Intn(2), evs[0].Tok, v, 0, g.szx, 0, rng.Bool())...)
			fam = "D-then-U"
		}
		emit(g.szx, getMID, evs, fam)
	}

	// P: plain requests
	for c := 0; c < nP; c++ {
		g, getMID := newGen()
		var evs []c20bEv
		for k := 1 + rng.Intn(4); k > 0; k-- {
			evs = append(evs, g.plain(rng.Intn(2), g.token(), c20bNoResp[rng.Intn(len(c20bNoResp))], rng.Bool()))
		}
		emit(g.szx, getMID, evs, "P")
	}

	// R: random mixtures of the datagrams of uploads, downloads and plain requests over two tokens
	for c := 0; c < nR; c++ {
		g, getMID := newGen()
		toks := [][]byte{g.token(), g.token()}
		var poolEvs []c20bEv
		for k := 0; k < 3; k++ {
			tok := toks[rng.Intn(2)]
			v := c20bNoResp[rng.Intn(len(c20bNoResp))]
			switch rng.Intn(3) {
			case 0:
				poolEvs = append(poolEvs, g.upload(2+rng.Intn(2), rng.Intn(2), tok, v, rng.Intn(3), rng.Intn(g.szx+1), rng.Intn(3), rng.Bool())...)
			case 1:
				poolEvs = append(poolEvs, g.download(rng.Intn(2), tok, v, rng.Intn(3), g.szx, rng.Bool(), rng.Bool())...)
			default:
				poolEvs = append(poolEvs, g.plain(rng.Intn(2), tok, v, rng.Bool()))
			}
		}
		n := 3 + rng.Intn(6)
		var evs []c20bEv
		for len(evs) < n {
			ev := poolEvs[rng.Intn(len(poolEvs))]
			if rng.Chance(75) {
				ev.MID = g.nextMID() // otherwise a duplicate of a datagram seen before (when drawn twice)
			}
			evs = append(evs, ev)
		}
		emit(g.szx, getMID, evs, "R")
	}
	return e.Flush(a.out)
}
