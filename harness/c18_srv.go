package main

// C18 driver "srv": the real udp server. Housekeeping ticks go through the
// function the server hands to its PeriodicRunner (handleInactivityMonitors);
// datagrams go through Server.NewConn (= getConn, the datagram path with its
// look-ahead) followed by Conn.Process, exactly the two calls of the Serve loop.
// getConn reads the real clock, so the idle distance of a datagram is produced
// by moving the monitor's activity stamp into the past (reflect+unsafe on the
// private atomic.Value) immediately before the call; the call is bracketed and
// repeated on a fresh server when the bracket is too wide for the distance.

import (
	"context"
	"errors"
	"fmt"
	"net"
	"reflect"
	"strings"
	"sync/atomic"
	"time"
	"unsafe"

	"github.com/plgd-dev/go-coap/v3/message"
	"github.com/plgd-dev/go-coap/v3/message/codes"
	"github.com/plgd-dev/go-coap/v3/message/pool"
	coapNet "github.com/plgd-dev/go-coap/v3/net"
	"github.com/plgd-dev/go-coap/v3/net/monitor/inactivity"
	"github.com/plgd-dev/go-coap/v3/net/responsewriter"
	"github.com/plgd-dev/go-coap/v3/options"
	"github.com/plgd-dev/go-coap/v3/udp"
	udpClient "github.com/plgd-dev/go-coap/v3/udp/client"
	udpCoder "github.com/plgd-dev/go-coap/v3/udp/coder"
	udpServer "github.com/plgd-dev/go-coap/v3/udp/server"
)

func init() {
	c18ExtraDrivers["srv"] = c18NewSrvDriver
	c18ExtraPlanList = append(c18ExtraPlanList, c18Plan{"srv", true, 110, 12}, c18Plan{"srv", false, 70, 8})
}

var errC18Bracket = errors.New("bracket too wide")

type c18SrvDriver struct {
	srv      *udpServer.Server
	ld       *coapNet.UDPConn
	peer     *net.UDPConn
	peerAddr *net.UDPAddr
	tick     func(now time.Time) bool
	cc       *udpClient.Conn
	real     *inactivity.Monitor[*udpClient.Conn]
	clk      c18Clock
	closeLog atomic.Int64
	serveErr chan error
	mids     int
	peerMid  int32
	per      int64
	slack    int64
	sendTok  int
}

func c18NewSrvDriver(h c18Hist) (c18Driver, error) {
	d := &c18SrvDriver{serveErr: make(chan error, 1), peerMid: 30000, slack: c18Lookahead()}
	ld, err := coapNet.NewListenUDP("udp4", "127.0.0.1:0")
	if err != nil {
		return nil, err
	}
	d.ld = ld
	peer, err := net.ListenUDP("udp4", &net.UDPAddr{IP: net.IPv4(127, 0, 0, 1)})
	if err != nil {
		return nil, err
	}
	d.peer = peer
	d.peerAddr = peer.LocalAddr().(*net.UDPAddr)
	got := make(chan func(now time.Time) bool, 1)
	onInactive := func(cc *udpClient.Conn) {
		d.closeLog.Add(1)
		inactivity.CloseConn(cc)
	}
	opts := []udpServer.Option{
		options.WithErrors(func(error) {}),
		options.WithPeriodicRunner(func(f func(now time.Time) bool) { got <- f }),
		options.WithTransmission(1, 1000*time.Hour, 4),
		options.WithBlockwise(false, 6, time.Second),
		options.WithHandlerFunc(func(w *responsewriter.ResponseWriter[*udpClient.Conn], r *pool.Message) {}),
	}
	if h.ka {
		opts = append(opts, options.WithKeepAlive(h.max, time.Duration(h.period*int64(h.max+1)+h.rem), onInactive))
	} else {
		opts = append(opts, options.WithInactivityMonitor(time.Duration(h.period), onInactive))
	}
	d.srv = udp.NewServer(opts...)
	go func() { d.serveErr <- d.srv.Serve(ld) }()
	select {
	case d.tick = <-got:
	case err := <-d.serveErr:
		return nil, fmt.Errorf("serve: %w", err)
	case <-time.After(10 * time.Second):
		return nil, errors.New("hang: server did not start")
	}
	cc, err := d.srv.NewConn(d.peerAddr)
	if err != nil {
		return nil, err
	}
	d.cc = cc
	real, ok := cc.InactivityMonitor().(*inactivity.Monitor[*udpClient.Conn])
	if !ok {
		return nil, fmt.Errorf("unexpected monitor type %T", cc.InactivityMonitor())
	}
	d.real = real
	d.per = c18Duration(real)
	d.clk = c18Clock{0, real.LastActivity()}
	return d, nil
}

func c18SrvSend(cc *udpClient.Conn, sub int, tok *int) error {
	*tok++
	m := cc.AcquireMessage(cc.Context())
	defer cc.ReleaseMessage(m)
	m.SetType(message.NonConfirmable)
	m.SetToken(message.Token{0x53, byte(*tok), byte(*tok >> 8)})
	if sub%2 == 0 {
		m.SetCode(codes.GET)
		_ = m.SetPath("/s")
	} else {
		m.SetCode(codes.Content)
		m.SetObserve(uint32(*tok))
		m.SetBody(strings.NewReader("notification"))
	}
	if err := cc.WriteMessage(m); err != nil {
		return fmt.Errorf("send: %w", err)
	}
	return nil
}

func (d *c18SrvDriver) period() int64 { return d.per }
func (d *c18SrvDriver) cancels() bool { return false }
func (d *c18SrvDriver) close() {
	d.srv.Stop()
	select {
	case <-d.serveErr:
	case <-time.After(10 * time.Second):
	}
	_ = d.peer.Close()
	_ = d.ld.Close()
}

// setStamp overwrites Monitor.lastActivity
func (d *c18SrvDriver) setStamp(t time.Time) {
	f := reflect.ValueOf(d.real).Elem().FieldByName("lastActivity")
	(*atomic.Value)(unsafe.Pointer(f.UnsafeAddr())).Store(t)
}

// drain reads what the server wrote to the peer up to a sentinel written
// through the same socket afterwards, and returns the pings among it
func (d *c18SrvDriver) drain() ([]c18Obs, error) {
	d.peerMid++
	sent := []byte{0x70, 0xff, byte(d.peerMid >> 8), byte(d.peerMid)} // not a CoAP message the library would send
	if err := d.ld.WriteWithContext(context.Background(), d.peerAddr, sent); err != nil {
		return nil, err
	}
	var out []c18Obs
	buf := make([]byte, 2048)
	for {
		_ = d.peer.SetReadDeadline(time.Now().Add(10 * time.Second))
		n, _, err := d.peer.ReadFromUDP(buf)
		if err != nil {
			return nil, fmt.Errorf("hang: sentinel not received: %w", err)
		}
		if n == 4 && buf[0] == 0x70 && buf[1] == 0xff && buf[2] == sent[2] && buf[3] == sent[3] {
			return out, nil
		}
		var m message.Message
		if _, err := udpCoder.DefaultCoder.Decode(buf[:n], &m); err != nil {
			continue
		}
		if m.Type == message.Confirmable && m.Code == codes.Empty {
			d.mids++
			out = append(out, c18Obs{'P', d.mids})
		}
	}
}

func (d *c18SrvDriver) apply(e c18Ev) ([]c18Obs, error) {
	if d.cc.Context().Err() != nil {
		return nil, nil
	}
	before := d.closeLog.Load()
	switch e.kind {
	case 'T':
		d.tick(d.clk.at(e.t))
	case 'S': // the server sends a NON message to the peer (a notification, a request of its own); nobody answers
		if err := c18SrvSend(d.cc, e.sub, &d.sendTok); err != nil {
			return nil, err
		}
	case 'D':
		dist := e.t - d.clk.v // idle distance the datagram path has to see
		margin := d.per - d.slack - dist
		// decision of the real code: dist + eps + slack > period, eps in [0, bracket]
		b0 := time.Now()
		d.setStamp(b0.Add(-time.Duration(dist)))
		cc2, err := d.srv.NewConn(d.peerAddr)
		bracket := time.Since(b0)
		if margin >= 0 && int64(bracket) >= margin {
			return nil, errC18Bracket
		}
		if err != nil {
			return nil, err
		}
		if cc2 == d.cc {
			d.peerMid++
			b := make([]byte, 16)
			n, err := udpCoder.DefaultCoder.Encode(message.Message{Type: message.Confirmable, Code: codes.Empty, MessageID: d.peerMid}, b)
			if err != nil {
				return nil, err
			}
			if err := d.cc.Process(nil, b[:n]); err != nil {
				return nil, err
			}
			d.clk = d.clk.rebase(e.t, d.real.LastActivity(), b0)
		}
	default:
		return nil, fmt.Errorf("event %s not supported by driver srv", e.desc())
	}
	out, err := d.drain()
	if err != nil {
		return nil, err
	}
	for i := before; i < d.closeLog.Load(); i++ {
		out = append(out, c18Obs{kind: 'X'})
	}
	return out, nil
}
