//go:build verif

package main

// C10, families added for the seeded regressions of round 2 (notes/C10.md):
//
//   discf: DiscoveryRequest calls whose datagram cannot be sent, interleaved with ordinary requests,
//          responders and retries with the same token (c10DiscRun with fail set, c10_more.go);
//   ka:    udp and tcp servers configured with options.WithKeepAlive serving several peers at once --
//          peers that answer every ping, peers that connect and stall, peers that keep sending, peers that
//          arrive after others were dropped -- on a VIRTUAL clock: the housekeeping round is called by the
//          harness with the time it chooses (udp: Server.VerifTick, tcp: the function the server hands to its
//          PeriodicRunner) and after every message of a peer the activity stamp of its connection's monitor is
//          set to the virtual time of that message (reflect+unsafe on Monitor.lastActivity, as the C18 "srv"
//          driver does).  Nothing depends on scheduling or on the speed of the machine: what a round does to a
//          connection is read back synchronously (the onInactive callback has run when the round returns; the
//          pings are delimited by a sentinel written behind them through the same socket / connection).
//          Every peer is observed twice: with the others, and ALONE on a fresh server with the same script.

import (
	"bytes"
	"context"
	"errors"
	"fmt"
	"net"
	"os"
	"reflect"
	"strconv"
	"strings"
	"sync"
	"sync/atomic"
	"time"
	"unsafe"

	"github.com/plgd-dev/go-coap/v3/message"
	"github.com/plgd-dev/go-coap/v3/message/codes"
	"github.com/plgd-dev/go-coap/v3/message/pool"
	coapNet "github.com/plgd-dev/go-coap/v3/net"
	"github.com/plgd-dev/go-coap/v3/options"
	"github.com/plgd-dev/go-coap/v3/tcp"
	tcpClient "github.com/plgd-dev/go-coap/v3/tcp/client"
	tcpCoder "github.com/plgd-dev/go-coap/v3/tcp/coder"
	tcpServer "github.com/plgd-dev/go-coap/v3/tcp/server"
	"github.com/plgd-dev/go-coap/v3/udp"
	udpClient "github.com/plgd-dev/go-coap/v3/udp/client"
	udpServer "github.com/plgd-dev/go-coap/v3/udp/server"
)

func c10RoundTwoFamilies(e *Emitter, a runArgs, mult int) error {
	rng := NewRng(a.seed ^ 0xC10D15CF)
	f := strings.Split(a.only, ":")
	var discs []uint64
	if a.only != "" && f[0] == "discf" && len(f) == 2 {
		sd, _ := strconv.ParseUint(f[1], 10, 64)
		discs = append(discs, sd)
	} else if a.only == "" {
		for i := 0; i < 8*mult; i++ {
			discs = append(discs, rng.U64()%1000000007)
		}
	}
	for _, sd := range discs {
		coq, err := c10DiscRun(sd, true, false)
		if err != nil {
			return err
		}
		e.Hist["discf:failed-sends"] += strings.Count(coq, "DS_StartFail")
		e.AddW(coq, fmt.Sprintf("discf:%d", sd), strings.Contains(coq, "DS_StartFail"), 1+len(coq)/4000, "discf-run")
	}
	type kr struct {
		sd  uint64
		tcp bool
	}
	var kas []kr
	if a.only != "" && f[0] == "ka" && len(f) == 3 {
		sd, _ := strconv.ParseUint(f[1], 10, 64)
		kas = append(kas, kr{sd, f[2] == "tcp"})
	} else if a.only == "" {
		for i := 0; i < 10*mult; i++ {
			kas = append(kas, kr{rng.U64() % 1000000007, i%5 >= 3})
		}
	}
	for _, x := range kas {
		coq, hist, err := c10KaRun(x.sd, x.tcp)
		if err != nil {
			return err
		}
		for k, v := range hist {
			e.Hist["ka:"+k] += v
		}
		tr := "udp"
		if x.tcp {
			tr = "tcp"
		}
		e.AddW(coq, fmt.Sprintf("ka:%d:%s", x.sd, tr), hist["closed-by-keepalive"] > 0 && hist["pings"] > 0, 1+len(coq)/4000, "ka-"+tr+"-run")
	}
	return nil
}

// ---------- script ----------

type c10KaEv struct {
	kind byte // 'O' connect + first request, 'Q' request, 'A' answer the latest ping, 'L' answer the ping before it, 'S' housekeeping round
	peer int
	t    int64 // virtual time in ns since the start of the run
}

// c10KaScript: 2-4 peers; at least one connects and stalls ('s': never answers a ping, never sends again) and at
// least one is well-behaved ('g' answers pings, 'c' also keeps sending requests, 'l' like 'g' but arrives after the
// first stallers were dropped).  Round times aim at the boundaries of Monitor.CheckInactivity: exactly one period
// after the latest message (no action), one nanosecond later (action), in between, far beyond.
func c10KaScript(rng *Rng) (n int, max uint32, per int64, roles string, script []c10KaEv) {
	n = 2 + rng.Intn(3)
	max = uint32(rng.Pick([]int{1, 1, 2, 2, 3, 0}))
	per = int64(time.Hour) + int64(rng.Intn(1000))*int64(time.Millisecond)
	r := make([]byte, n)
	for i := range r {
		r[i] = "gcsl"[rng.Intn(4)]
	}
	si := rng.Intn(n)
	r[si] = 's'
	gi := (si + 1 + rng.Intn(n-1)) % n
	if r[gi] == 's' {
		r[gi] = "gl"[rng.Intn(2)]
	}
	roles = string(r)
	openRound := make([]int, n)
	for i := range r {
		switch r[i] {
		case 'l':
			openRound[i] = 2 + int(max) + rng.Intn(3)
		default:
			openRound[i] = rng.Intn(2)
		}
	}
	openRound[si] = 0
	rounds := 6 + int(max) + rng.Intn(5)
	small := func() int64 { return 1 + int64(rng.Intn(int(per/20))) }
	var v, lastEv int64
	opened := make([]bool, n)
	for rd := 0; rd < rounds; rd++ {
		for i := 0; i < n; i++ {
			if !opened[i] {
				if openRound[i] == rd {
					v += small()
					script = append(script, c10KaEv{'O', i, v})
					lastEv = v
					opened[i] = true
				}
				continue
			}
			switch r[i] {
			case 'g', 'l':
				if rng.Chance(85) {
					v += small()
					k := byte('A')
					if rng.Chance(10) {
						k = 'L'
					}
					script = append(script, c10KaEv{k, i, v})
					lastEv = v
				}
			case 'c':
				if rng.Chance(60) {
					v += small()
					script = append(script, c10KaEv{'Q', i, v})
					lastEv = v
				}
				if rng.Chance(60) {
					v += small()
					script = append(script, c10KaEv{'A', i, v})
					lastEv = v
				}
			}
		}
		t := v
		switch rng.Intn(6) {
		case 0:
			t = lastEv + per
		case 1:
			t = lastEv + per + 1
		case 2:
			t = v + per/2
		case 3:
			t = v + 2*per + int64(rng.Intn(1000))
		default:
			t = v + per + 1 + int64(rng.Intn(1000000))
		}
		if t <= v {
			t = v + 1
		}
		v = t
		script = append(script, c10KaEv{'S', -1, v})
	}
	return n, max, per, roles, script
}

// ---------- transports ----------

type c10KaTransport interface {
	open(i int) bool              // connect peer i, send its first request, wait for the answer
	request(i int) bool           // one more request, wait for the answer
	answerPing(i int, gen int)    // answer the gen-th ping this peer has received
	barrier(i int) bool           // a ping of the peer's own; true when the server's answer is back
	tick(now time.Time)           // one housekeeping round at now
	droppedBy(i int) bool         // the server's onInactive callback has been called for peer i
	drain(i int, gone bool) error // read what the server has sent to peer i so far (gone: until the connection ends)
	takePings(i int) int          // pings received by peer i since the last call
	setStamp(i int, t time.Time)  // overwrite the activity stamp of the monitor of peer i's connection
	finish() (alive, stopped bool, panics int)
}

func c10KaSetStamp(mon interface{}, t time.Time) error {
	v := reflect.ValueOf(mon)
	for v.Kind() == reflect.Ptr || v.Kind() == reflect.Interface {
		if v.IsNil() {
			return errors.New("no monitor")
		}
		v = v.Elem()
	}
	if v.Kind() != reflect.Struct {
		return fmt.Errorf("unexpected monitor %T", mon)
	}
	f := v.FieldByName("lastActivity")
	if !f.IsValid() || !f.CanAddr() {
		return fmt.Errorf("monitor %T has no lastActivity", mon)
	}
	(*atomic.Value)(unsafe.Pointer(f.UnsafeAddr())).Store(t)
	return nil
}

// -- udp --

type c10KaUDPPeer struct {
	sock     *net.UDPConn
	addr     *net.UDPAddr
	mid      int
	pingMIDs []int
	fresh    int
}

type c10KaUDP struct {
	app     *c10App
	s       *udpServer.Server
	l       *coapNet.UDPConn
	ret     chan error
	dst     *net.UDPAddr
	mu      sync.Mutex
	conns   map[string]*udpClient.Conn
	dropped map[string]int
	peers   map[int]*c10KaUDPPeer
	sent    int
	err     error
	dbgBase time.Time
	dbgWant map[string]time.Duration
}

func c10KaStartUDP(max uint32, per int64) (*c10KaUDP, error) {
	l, err := coapNet.NewListenUDP("udp4", "127.0.0.1:0")
	if err != nil {
		return nil, err
	}
	tr := &c10KaUDP{app: newC10App(), l: l, ret: make(chan error, 1), conns: map[string]*udpClient.Conn{}, dropped: map[string]int{}, peers: map[int]*c10KaUDPPeer{}}
	tr.dst = &net.UDPAddr{IP: net.IPv4(127, 0, 0, 1), Port: l.LocalAddr().(*net.UDPAddr).Port}
	tr.s = udp.NewServer(
		options.WithMux(tr.app.router()),
		options.WithErrors(tr.app.onErr),
		options.WithKeepAlive(max, time.Duration(per*int64(max+1)), func(cc *udpClient.Conn) {
			tr.mu.Lock()
			tr.dropped[cc.RemoteAddr().String()]++
			tr.mu.Unlock()
			_ = cc.Close()
		}),
		// the housekeeping round runs only when the harness calls it
		options.WithPeriodicRunner(func(func(now time.Time) bool) {}),
		// no retransmission of the server's pings within the virtual horizon of a run
		options.WithTransmission(1, 100000*time.Hour, 4),
		options.WithOnNewConn(func(cc *udpClient.Conn) {
			tr.mu.Lock()
			tr.conns[cc.RemoteAddr().String()] = cc
			tr.mu.Unlock()
		}),
	)
	go func() {
		defer func() {
			if r := recover(); r != nil {
				tr.app.mu.Lock()
				tr.app.panics++
				tr.app.mu.Unlock()
				tr.ret <- fmt.Errorf("panic: %v", r)
			}
		}()
		tr.ret <- tr.s.Serve(l)
	}()
	return tr, nil
}

// read datagrams until want; the server's pings (confirmable, empty) are counted on the way
func (tr *c10KaUDP) read(p *c10KaUDPPeer, want func(w wireMsg, raw []byte) bool) bool {
	buf := make([]byte, 4096)
	deadline := time.Now().Add(c10Wait)
	for {
		_ = p.sock.SetReadDeadline(deadline)
		n, _, err := p.sock.ReadFromUDP(buf)
		if err != nil {
			return false
		}
		raw := append([]byte{}, buf[:n]...)
		w := decodeWire(raw)
		if !w.Bad && w.Typ == 0 && w.Code == 0 {
			p.pingMIDs = append(p.pingMIDs, w.MID)
			p.fresh++
			continue
		}
		if want(w, raw) {
			return true
		}
	}
}

func (tr *c10KaUDP) exchange(p *c10KaUDPPeer) bool {
	p.mid++
	tok := []byte{0xA0, byte(p.mid >> 8), byte(p.mid)}
	req := encodeWire(0, 1, p.mid, tok, c10PathOpts(1), nil)
	if _, err := p.sock.WriteToUDP(req, tr.dst); err != nil {
		return false
	}
	ok := false
	got := tr.read(p, func(w wireMsg, _ []byte) bool {
		if w.Bad || !bytes.Equal(w.Tok, tok) {
			return false
		}
		ok = w.Typ == 2 && w.MID == p.mid && w.Code == int(codes.Content) && bytes.Equal(w.Payload, []byte{c10Routes[0].tag})
		return true
	})
	return got && ok
}

func (tr *c10KaUDP) open(i int) bool {
	sock, err := net.ListenUDP("udp4", &net.UDPAddr{IP: net.IPv4(127, 0, 0, 1)})
	if err != nil {
		tr.err = err
		return false
	}
	p := &c10KaUDPPeer{sock: sock, addr: sock.LocalAddr().(*net.UDPAddr), mid: 1000 * (i + 1)}
	tr.peers[i] = p
	return tr.exchange(p)
}
func (tr *c10KaUDP) request(i int) bool { return tr.exchange(tr.peers[i]) }
func (tr *c10KaUDP) answerPing(i int, gen int) {
	p := tr.peers[i]
	// an empty acknowledgement (a Reset is accepted as well) carrying the message ID of the ping
	typ := 2
	if gen%3 == 0 {
		typ = 3
	}
	_, _ = p.sock.WriteToUDP(encodeWire(typ, 0, p.pingMIDs[gen-1], nil, nil, nil), tr.dst)
}

// barrier: a REQUEST, not a CoAP ping.  The answer to a ping that is still awaited (and every Reset) is handed to the
// connection's receive queue after the ping's handler has run, and the queue's goroutine stamps the monitor once
// more when it is done with a message (udp/client.Conn.handleReq: defer Notify) -- some time later.  The queue is
// first-in first-out and the response to a request is written after that request's own stamp, so when the response
// is back no stamp of anything sent before is still to come and the harness can set the virtual one.
func (tr *c10KaUDP) barrier(i int) bool { return tr.exchange(tr.peers[i]) }
func (tr *c10KaUDP) tick(now time.Time) {
	if os.Getenv("HXDBG") != "" {
		tr.mu.Lock()
		for a, cc := range tr.conns {
			if m, ok := cc.InactivityMonitor().(interface{ LastActivity() time.Time }); ok {
				fmt.Fprintf(os.Stderr, "tick: %s last=%v want=%v closed=%v\n", a, m.LastActivity().Sub(tr.dbgBase), tr.dbgWant[a], cc.Context().Err() != nil)
			}
		}
		tr.mu.Unlock()
	}
	tr.s.VerifTick(now)
}
func (tr *c10KaUDP) droppedBy(i int) bool {
	tr.mu.Lock()
	defer tr.mu.Unlock()
	return tr.dropped[tr.peers[i].addr.String()] > 0
}
func (tr *c10KaUDP) drain(i int, _ bool) error {
	p := tr.peers[i]
	// a datagram the library never sends, written through the listener's socket behind everything the round wrote
	tr.sent++
	sentinel := []byte{0x70, 0xff, byte(tr.sent >> 8), byte(tr.sent)}
	if err := tr.l.WriteWithContext(context.Background(), p.addr, sentinel); err != nil {
		return err
	}
	if !tr.read(p, func(_ wireMsg, raw []byte) bool { return bytes.Equal(raw, sentinel) }) {
		return errors.New("hang: sentinel datagram not received")
	}
	return nil
}
func (tr *c10KaUDP) takePings(i int) int {
	p := tr.peers[i]
	n := p.fresh
	p.fresh = 0
	return n
}
func (tr *c10KaUDP) setStamp(i int, t time.Time) {
	tr.mu.Lock()
	cc := tr.conns[tr.peers[i].addr.String()]
	tr.mu.Unlock()
	if cc == nil {
		tr.err = errors.New("no server-side connection for the peer")
		return
	}
	if err := c10KaSetStamp(cc.InactivityMonitor(), t); err != nil {
		tr.err = err
	}
	if tr.dbgWant == nil {
		tr.dbgWant = map[string]time.Duration{}
	}
	tr.dbgWant[tr.peers[i].addr.String()] = t.Sub(tr.dbgBase)
}
func (tr *c10KaUDP) finish() (bool, bool, int) {
	alive := true
	select {
	case err := <-tr.ret:
		tr.ret <- err
		alive = false
	default:
	}
	tr.s.Stop()
	stopped := false
	select {
	case <-tr.ret:
		stopped = true
	case <-time.After(c10Wait):
	}
	_ = tr.l.Close()
	for _, p := range tr.peers {
		_ = p.sock.Close()
	}
	tr.app.mu.Lock()
	defer tr.app.mu.Unlock()
	return alive, stopped, tr.app.panics
}

// -- tcp --

type c10KaTCPPeer struct {
	c        net.Conn
	acc      []byte
	addr     string
	seq      int
	pingToks [][]byte
	fresh    int
	eof      bool
}

type c10KaTCPMonOpt struct {
	rec func(tcpClient.InactivityMonitor)
}

func (o c10KaTCPMonOpt) TCPServerApply(cfg *tcpServer.Config) {
	orig := cfg.CreateInactivityMonitor
	cfg.CreateInactivityMonitor = func() tcpClient.InactivityMonitor {
		m := orig()
		o.rec(m)
		return m
	}
}

type c10KaTCP struct {
	app     *c10App
	s       *tcpServer.Server
	l       *coapNet.TCPListener
	ret     chan error
	round   func(now time.Time) bool
	mu      sync.Mutex
	conns   map[string]*tcpClient.Conn
	dropped map[string]int
	mons    []tcpClient.InactivityMonitor
	monOf   map[int]tcpClient.InactivityMonitor
	peers   map[int]*c10KaTCPPeer
	sent    int
	err     error
}

func c10KaStartTCP(max uint32, per int64) (*c10KaTCP, error) {
	l, err := coapNet.NewTCPListener("tcp4", "127.0.0.1:0")
	if err != nil {
		return nil, err
	}
	tr := &c10KaTCP{app: newC10App(), l: l, ret: make(chan error, 1), conns: map[string]*tcpClient.Conn{}, dropped: map[string]int{},
		monOf: map[int]tcpClient.InactivityMonitor{}, peers: map[int]*c10KaTCPPeer{}}
	got := make(chan func(now time.Time) bool, 1)
	tr.s = tcp.NewServer(
		options.WithMux(tr.app.router()),
		options.WithErrors(tr.app.onErr),
		options.WithKeepAlive(max, time.Duration(per*int64(max+1)), func(cc *tcpClient.Conn) {
			tr.mu.Lock()
			tr.dropped[cc.RemoteAddr().String()]++
			tr.mu.Unlock()
			_ = cc.Close()
		}),
		options.WithPeriodicRunner(func(f func(now time.Time) bool) { got <- f }),
		options.WithOnNewConn(func(cc *tcpClient.Conn) {
			tr.mu.Lock()
			tr.conns[cc.RemoteAddr().String()] = cc
			tr.mu.Unlock()
		}),
		// after WithKeepAlive: remembers every monitor the configured factory makes, in the order of the connections
		c10KaTCPMonOpt{rec: func(m tcpClient.InactivityMonitor) {
			tr.mu.Lock()
			tr.mons = append(tr.mons, m)
			tr.mu.Unlock()
		}},
	)
	go func() {
		defer func() {
			if r := recover(); r != nil {
				tr.app.mu.Lock()
				tr.app.panics++
				tr.app.mu.Unlock()
				tr.ret <- fmt.Errorf("panic: %v", r)
			}
		}()
		tr.ret <- tr.s.Serve(l)
	}()
	select {
	case tr.round = <-got:
	case err := <-tr.ret:
		return nil, fmt.Errorf("serve: %w", err)
	case <-time.After(c10Wait):
		return nil, errors.New("hang: tcp server did not start")
	}
	return tr, nil
}

// read frames until want; the server's Ping signals are counted on the way
func (tr *c10KaTCP) read(p *c10KaTCPPeer, want func(code int, tok []byte) bool) bool {
	buf := make([]byte, 4096)
	deadline := time.Now().Add(c10Wait)
	for {
		for {
			var h tcpCoder.MessageHeader
			if _, err := tcpCoder.DefaultCoder.DecodeHeader(p.acc, &h); err != nil || uint32(len(p.acc)) < h.MessageLength {
				break
			}
			var m message.Message
			m.Options = make(message.Options, 0, 16)
			n, err := tcpCoder.DefaultCoder.Decode(p.acc[:h.MessageLength], &m)
			if err != nil {
				return false
			}
			tok := append([]byte{}, m.Token...)
			p.acc = append([]byte{}, p.acc[n:]...)
			if m.Code == codes.Ping {
				p.pingToks = append(p.pingToks, tok)
				p.fresh++
				continue
			}
			if want(int(m.Code), tok) {
				return true
			}
		}
		if p.eof {
			return false
		}
		_ = p.c.SetReadDeadline(deadline)
		n, err := p.c.Read(buf)
		if n > 0 {
			p.acc = append(p.acc, buf[:n]...)
		}
		if err != nil {
			if ne, ok := err.(net.Error); ok && ne.Timeout() {
				return false
			}
			p.eof = true // end of stream (or reset): what has been received is still parsed
		}
	}
}

func (tr *c10KaTCP) exchange(p *c10KaTCPPeer) bool {
	p.seq++
	tok := []byte{0xA1, byte(p.seq >> 8), byte(p.seq)}
	if _, err := p.c.Write(c10EncodeTCP(1, tok, c10PathOpts(1), nil)); err != nil {
		return false
	}
	ok := false
	got := tr.read(p, func(code int, t []byte) bool {
		if code >= 224 || !bytes.Equal(t, tok) {
			return false
		}
		ok = code == int(codes.Content)
		return true
	})
	return got && ok
}

func (tr *c10KaTCP) open(i int) bool {
	c, err := net.Dial("tcp4", tr.l.Addr().String())
	if err != nil {
		tr.err = err
		return false
	}
	p := &c10KaTCPPeer{c: c, addr: c.LocalAddr().String()}
	tr.peers[i] = p
	ok := tr.exchange(p)
	// connections are opened one at a time: the latest monitor the factory made belongs to this one
	tr.mu.Lock()
	if len(tr.mons) == len(tr.monOf)+1 {
		tr.monOf[i] = tr.mons[len(tr.mons)-1]
	} else {
		tr.err = fmt.Errorf("%d monitors made for %d connections", len(tr.mons), len(tr.monOf)+1)
	}
	tr.mu.Unlock()
	return ok
}
func (tr *c10KaTCP) request(i int) bool { return tr.exchange(tr.peers[i]) }
func (tr *c10KaTCP) answerPing(i int, gen int) {
	p := tr.peers[i]
	_, _ = p.c.Write(c10EncodeTCP(int(codes.Pong), p.pingToks[gen-1], nil, nil))
}
func (tr *c10KaTCP) barrier(i int) bool {
	p := tr.peers[i]
	p.seq++
	tok := []byte{0xBA, byte(p.seq >> 8), byte(p.seq)}
	if _, err := p.c.Write(c10EncodeTCP(int(codes.Ping), tok, nil, nil)); err != nil {
		return false
	}
	return tr.read(p, func(code int, t []byte) bool { return code == int(codes.Pong) && bytes.Equal(t, tok) })
}
func (tr *c10KaTCP) tick(now time.Time) { tr.round(now) }
func (tr *c10KaTCP) droppedBy(i int) bool {
	tr.mu.Lock()
	defer tr.mu.Unlock()
	return tr.dropped[tr.peers[i].addr] > 0
}
func (tr *c10KaTCP) drain(i int, gone bool) error {
	p := tr.peers[i]
	if gone {
		// the server has closed the connection: everything it wrote before is in front of the end of the stream
		tr.read(p, func(int, []byte) bool { return false })
		if !p.eof {
			return errors.New("hang: the connection closed by keep-alive did not end")
		}
		return nil
	}
	tr.mu.Lock()
	cc := tr.conns[p.addr]
	tr.mu.Unlock()
	if cc == nil {
		return errors.New("no server-side connection for the peer")
	}
	// a message written through the server's own connection object behind everything the round wrote
	tr.sent++
	tok := []byte{0xFE, byte(tr.sent >> 8), byte(tr.sent)}
	m := pool.NewMessage(context.Background())
	m.SetCode(codes.Content)
	m.SetToken(tok)
	if err := cc.WriteMessage(m); err != nil {
		return fmt.Errorf("sentinel: %w", err)
	}
	if !tr.read(p, func(code int, t []byte) bool { return code == int(codes.Content) && bytes.Equal(t, tok) }) {
		return errors.New("hang: sentinel message not received")
	}
	return nil
}
func (tr *c10KaTCP) takePings(i int) int {
	p := tr.peers[i]
	n := p.fresh
	p.fresh = 0
	return n
}
func (tr *c10KaTCP) setStamp(i int, t time.Time) {
	tr.mu.Lock()
	m := tr.monOf[i]
	tr.mu.Unlock()
	if err := c10KaSetStamp(m, t); err != nil {
		tr.err = err
	}
}
func (tr *c10KaTCP) finish() (bool, bool, int) {
	alive := true
	select {
	case err := <-tr.ret:
		tr.ret <- err
		alive = false
	default:
	}
	tr.s.Stop()
	for _, p := range tr.peers {
		_ = p.c.Close()
	}
	stopped := false
	select {
	case <-tr.ret:
		stopped = true
	case <-time.After(c10Wait):
	}
	_ = tr.l.Close()
	tr.app.mu.Lock()
	defer tr.app.mu.Unlock()
	return alive, stopped, tr.app.panics
}

// ---------- one execution of a script ----------

type c10KaPeerRes struct {
	opened bool
	gone   bool // dropped by keep-alive (or lost to a failure of the harness' own exchange): no further events
	openT  int64
	gen    int
	items  []string
	ans    []bool
}

type c10KaExecRes struct {
	evs                  []string
	peers                []c10KaPeerRes
	alive, stopped       bool
	panics, pings, drops int
}

// c10KaExec runs the script against a fresh server; only >= 0: the events of that peer and the rounds only.
func c10KaExec(tcpTr bool, max uint32, per int64, n int, script []c10KaEv, only int) (c10KaExecRes, error) {
	var tr c10KaTransport
	var trErr func() error
	if tcpTr {
		t, err := c10KaStartTCP(max, per)
		if err != nil {
			return c10KaExecRes{}, err
		}
		tr, trErr = t, func() error { return t.err }
	} else {
		t, err := c10KaStartUDP(max, per)
		if err != nil {
			return c10KaExecRes{}, err
		}
		tr, trErr = t, func() error { return t.err }
	}
	res := c10KaExecRes{peers: make([]c10KaPeerRes, n)}
	base := time.Now()
	if u, ok := tr.(*c10KaUDP); ok {
		u.dbgBase = base
	}
	at := func(t int64) time.Time { return base.Add(time.Duration(t)) }
	obsOf := func(p *c10KaPeerRes, i int, closed bool) string {
		var o []string
		for k := tr.takePings(i); k > 0; k-- {
			p.gen++
			res.pings++
			o = append(o, fmt.Sprintf("KM.Ping %d", p.gen))
		}
		if closed {
			res.drops++
			o = append(o, "KM.Close")
		}
		return "[" + strings.Join(o, "; ") + "]"
	}
	var failure error
	for _, e := range script {
		if failure != nil {
			break
		}
		if e.kind != 'S' && only >= 0 && e.peer != only {
			continue
		}
		switch e.kind {
		case 'O':
			p := &res.peers[e.peer]
			ok := tr.open(e.peer)
			p.opened, p.openT = true, e.t
			p.ans = append(p.ans, ok)
			if !ok {
				p.gone = true
			} else {
				tr.setStamp(e.peer, at(e.t))
			}
			res.evs = append(res.evs, fmt.Sprintf("KeepAlive.KOpen %d%%nat %d", e.peer, e.t))
		case 'Q':
			p := &res.peers[e.peer]
			if !p.opened || p.gone {
				continue
			}
			ok := tr.request(e.peer)
			p.ans = append(p.ans, ok)
			if !ok {
				p.gone = true
			} else {
				tr.setStamp(e.peer, at(e.t))
			}
			p.items = append(p.items, fmt.Sprintf("(KM.Recv %d, %s)", e.t, obsOf(p, e.peer, false)))
			res.evs = append(res.evs, fmt.Sprintf("KeepAlive.KConn %d%%nat (KM.Recv %d)", e.peer, e.t))
		case 'A', 'L':
			p := &res.peers[e.peer]
			if !p.opened || p.gone {
				continue
			}
			g := p.gen
			if e.kind == 'L' {
				g--
			}
			if g < 1 {
				continue
			}
			tr.answerPing(e.peer, g)
			ok := tr.barrier(e.peer)
			p.ans = append(p.ans, ok)
			if !ok {
				p.gone = true
			} else {
				tr.setStamp(e.peer, at(e.t))
			}
			p.items = append(p.items, fmt.Sprintf("(KM.Pong %d %d, %s)", g, e.t, obsOf(p, e.peer, false)), fmt.Sprintf("(KM.Recv %d, [])", e.t))
			res.evs = append(res.evs, fmt.Sprintf("KeepAlive.KConn %d%%nat (KM.Pong %d %d)", e.peer, g, e.t), fmt.Sprintf("KeepAlive.KConn %d%%nat (KM.Recv %d)", e.peer, e.t))
		case 'S':
			tr.tick(at(e.t))
			for i := range res.peers {
				p := &res.peers[i]
				if !p.opened || p.gone {
					continue
				}
				closed := tr.droppedBy(i)
				if err := tr.drain(i, closed); err != nil {
					failure = fmt.Errorf("peer %d at round %d: %w", i, e.t, err)
					break
				}
				p.items = append(p.items, fmt.Sprintf("(KM.Tick %d true, %s)", e.t, obsOf(p, i, closed)))
				if closed {
					p.gone = true
				}
			}
			res.evs = append(res.evs, fmt.Sprintf("KeepAlive.KSweep %d []", e.t))
		}
		if err := trErr(); err != nil && failure == nil {
			failure = err
		}
	}
	// the virtual clock only ever runs ahead of the real one: the look-ahead check of the udp datagram path (real
	// clock) cannot have fired as long as the run took less than a period
	if time.Since(base) > time.Duration(per/2) && failure == nil {
		failure = errors.New("run took longer than half a keep-alive period of real time")
	}
	res.alive, res.stopped, res.panics = tr.finish()
	return res, failure
}

func c10KaRun(seed uint64, tcpTr bool) (string, map[string]int, error) {
	rng := NewRng(seed)
	n, max, per, roles, script := c10KaScript(rng)
	hist := map[string]int{}
	together, err := c10KaExec(tcpTr, max, per, n, script, -1)
	if err != nil {
		return "", nil, fmt.Errorf("ka run %d: %w", seed, err)
	}
	alive, stopped, panics := together.alive, together.stopped, together.panics
	var peers []string
	for i := 0; i < n; i++ {
		alone, err := c10KaExec(tcpTr, max, per, n, script, i)
		if err != nil {
			return "", nil, fmt.Errorf("ka run %d, peer %d alone: %w", seed, i, err)
		}
		alive, stopped, panics = alive && alone.alive, stopped && alone.stopped, panics+alone.panics
		tp, ap := together.peers[i], alone.peers[i]
		bl := func(bs []bool) string {
			var s []string
			for _, b := range bs {
				s = append(s, coqBool(b))
			}
			return "[" + strings.Join(s, "; ") + "]"
		}
		peers = append(peers, fmt.Sprintf("KP %d [%s] %s [%s] %s", tp.openT, strings.Join(tp.items, "; "), bl(tp.ans), strings.Join(ap.items, "; "), bl(ap.ans)))
		hist["role-"+string(roles[i])]++
	}
	hist["pings"] = together.pings
	hist["closed-by-keepalive"] = together.drops
	hist[fmt.Sprintf("peers=%d", n)]++
	hist[fmt.Sprintf("max=%d", max)]++
	coq := fmt.Sprintf("KaRun %s %d %d\n   [%s]\n   [%s]\n   %s %s %d", coqBool(tcpTr), per, max, strings.Join(together.evs, "; "),
		strings.Join(peers, ";\n    "), coqBool(alive), coqBool(stopped), panics)
	return coq, hist, nil
}
