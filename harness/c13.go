package main

// C13 -- no per-exchange state outlives the exchange.
//
// Two real udp/client.Conn (A = client role, B = server role) are cross-connected through
// in-memory sessions; one pump goroutine per direction hands every datagram to the peer's
// Process.  A direction can drop by content (Uri-Path "d..."), drop everything (outage during
// housekeeping ticks), pass the next k datagrams and then drop (transfers abandoned midway), or
// duplicate.  A history is a list of exchange-level operations; after every operation the pair
// is brought to rest (links idle + barrier request through both receive queues) and EVERY
// per-exchange table of both connections is read.  The history ends with: cancel whatever still
// hangs, age everything past its deadline, tick MAX_RETRANSMIT+1 times far in the future.
//
// For the model (Conn/Model.v) the harness writes, per operation, the abstract component events
// the operation consists of (what the script did, never what was observed) plus the datagrams
// each side dispatched to handleReq (recorded by the pumps).

import (
	"bytes"
	"context"
	"errors"
	"fmt"
	"os"
	"reflect"
	"runtime"
	"sort"
	"strconv"
	"strings"
	"sync"
	"sync/atomic"
	"time"
	"unsafe"

	"github.com/plgd-dev/go-coap/v3/message"
	"github.com/plgd-dev/go-coap/v3/message/codes"
	"github.com/plgd-dev/go-coap/v3/message/pool"
	"github.com/plgd-dev/go-coap/v3/net/blockwise"
	limitparallelrequests "github.com/plgd-dev/go-coap/v3/net/client/limitParallelRequests"
	"github.com/plgd-dev/go-coap/v3/net/responsewriter"
	"github.com/plgd-dev/go-coap/v3/options/config"
	"github.com/plgd-dev/go-coap/v3/pkg/cache"
	"github.com/plgd-dev/go-coap/v3/udp/client"
	"github.com/plgd-dev/go-coap/v3/udp/coder"
)

func init() { props["C13"] = runC13 }

// C12 runs the same histories under the pool tracker: c13PoolFor (when set) supplies the message pool of a
// side; c13HijackWait bounds the wait of the receive path for the caller's release of a handed-over message.
var (
	c13PoolFor    func(side string) *pool.Pool
	c13HijackWait = 100 * time.Millisecond
)

// watchdog for every wait; after the first history that hung, later histories give up sooner
var c13Watch = 30 * time.Second

const (
	c13AckMs   = 140000
	c13MaxRt   = 2
	c13NStart  = 16
	c13BigLen  = 300
	c13UpLen   = 200
	c13NSizes  = 11
	c13FarMs   = 7500000
	c13BwHours = 1
)

// ---------------------------------------------------------------- links

type c13In struct{ typ, code, mid int }

type c13Link struct {
	mu       sync.Mutex
	cond     *sync.Cond
	q        [][]byte
	busy     bool
	enq      int  // datagrams accepted for delivery (copies count)
	dropped  int  // datagrams dropped
	silent   bool // drop everything
	dup      bool // deliver everything twice
	passLeft int  // >= 0: pass that many more datagrams, then drop; -1: no limit
	fail     bool // transport down: WriteMessage returns an error, nothing leaves
	failed   int  // writes refused while fail was set
	lastDrop []byte
	nest     []byte // the last datagram for /nest that was passed on (opNest feeds a copy of it)
	dst      *c13Side
	stop     bool
}

func newC13Link() *c13Link {
	l := &c13Link{passLeft: -1}
	l.cond = sync.NewCond(&l.mu)
	return l
}

func c13PathOf(w wireMsg) string {
	for _, o := range w.Opts {
		if o.ID == message.URIPath {
			return string(o.Value)
		}
	}
	return ""
}

func (l *c13Link) send(d []byte) {
	w := decodeWire(d)
	l.mu.Lock()
	defer l.mu.Unlock()
	drop := l.silent
	if !drop && !w.Bad && strings.HasPrefix(c13PathOf(w), "d") {
		drop = true
	}
	if !drop && l.passLeft == 0 {
		drop = true
	}
	if drop {
		l.dropped++
		l.lastDrop = d
		l.cond.Broadcast()
		return
	}
	if l.passLeft > 0 {
		l.passLeft--
	}
	if !w.Bad && c13PathOf(w) == "nest" {
		l.nest = d
	}
	l.q = append(l.q, d)
	l.enq++
	if l.dup {
		l.q = append(l.q, append([]byte{}, d...))
		l.enq++
	}
	l.cond.Broadcast()
}

func (l *c13Link) pump() {
	for {
		l.mu.Lock()
		for len(l.q) == 0 && !l.stop {
			l.cond.Wait()
		}
		if l.stop {
			l.mu.Unlock()
			return
		}
		d := l.q[0]
		l.q = l.q[1:]
		l.busy = true
		l.mu.Unlock()
		l.dst.deliver(d)
		l.mu.Lock()
		l.busy = false
		l.cond.Broadcast()
		l.mu.Unlock()
	}
}

// waitIdle waits until the queue is empty and the pump is not delivering.
func (l *c13Link) waitIdle(d time.Duration) bool {
	deadline := time.Now().Add(d)
	l.mu.Lock()
	defer l.mu.Unlock()
	for len(l.q) > 0 || l.busy {
		if time.Now().After(deadline) {
			return false
		}
		l.mu.Unlock()
		time.Sleep(100 * time.Microsecond) // polling a state witness, not a synchronisation by delay
		l.mu.Lock()
	}
	return true
}

func (l *c13Link) counters() (int, int) {
	l.mu.Lock()
	defer l.mu.Unlock()
	return l.enq, l.dropped
}

// waitDropped waits until the number of dropped datagrams exceeds n0.
func (l *c13Link) waitDropped(n0 int, d time.Duration) bool {
	deadline := time.Now().Add(d)
	for {
		_, dr := l.counters()
		if dr > n0 {
			return true
		}
		if time.Now().After(deadline) {
			return false
		}
		time.Sleep(100 * time.Microsecond)
	}
}

type c13Sess struct {
	*memSession
	link *c13Link
}

func (s *c13Sess) WriteMessage(req *pool.Message) error {
	data, err := req.MarshalWithEncoder(coder.DefaultCoder)
	if err != nil {
		return fmt.Errorf("cannot marshal: %w", err)
	}
	cp := make([]byte, len(data))
	copy(cp, data)
	if s.link.refuse() {
		return errors.New("sendto: network is unreachable")
	}
	s.link.send(cp)
	return nil
}

// refuse reports (and counts) a write attempted while the transport is down.
func (l *c13Link) refuse() bool {
	l.mu.Lock()
	defer l.mu.Unlock()
	if l.fail {
		l.failed++
		l.cond.Broadcast()
	}
	return l.fail
}

func (l *c13Link) setFail(on bool) {
	l.mu.Lock()
	l.fail = on
	l.mu.Unlock()
}

// ---------------------------------------------------------------- sides

type c13Side struct {
	name    string
	cc      *client.Conn
	sess    *c13Sess
	mu      sync.Mutex
	in      []c13In
	seen    map[int]bool
	barrier chan struct{}
	barSeq  int
	errs    int
	handler func(w *responsewriter.ResponseWriter[*client.Conn], r *pool.Message)
	bad     []string
}

func c13ReachesHandleReq(w wireMsg) bool {
	empty := w.Code == 0 && len(w.Tok) == 0 && len(w.Opts) == 0 && len(w.Payload) == 0
	if empty && (w.Typ == 0 || w.Typ == 2) {
		return false // ping (answered in Process) / bare acknowledgement (dropped in Process)
	}
	return true
}

func (s *c13Side) deliver(d []byte) {
	w := decodeWire(d)
	if !w.Bad {
		s.mu.Lock()
		s.seen[w.MID] = true
		if c13ReachesHandleReq(w) {
			s.in = append(s.in, c13In{w.Typ, w.Code, w.MID})
		}
		s.mu.Unlock()
	}
	func() {
		defer func() {
			if r := recover(); r != nil {
				s.note(fmt.Sprintf("panic in Process: %v", r))
			}
		}()
		if err := s.cc.Process(nil, d); err != nil {
			s.note("Process error: " + err.Error())
		}
	}()
}

func (s *c13Side) note(x string) {
	s.mu.Lock()
	s.bad = append(s.bad, x)
	s.mu.Unlock()
}

func (s *c13Side) takeIn() []c13In {
	s.mu.Lock()
	defer s.mu.Unlock()
	r := s.in
	s.in = nil
	return r
}

// c13NoHandlerRunning waits until no goroutine is inside handleReq.  TryToReplaceLoop starts a second
// receive loop while the first is still inside a handler, so the barrier (taken by the new loop) does
// not prove that the old loop's message has left handleReq (its deferred Unlock may be pending).
func c13NoHandlerRunning() bool {
	deadline := time.Now().Add(c13Watch)
	buf := make([]byte, 1<<20)
	for {
		n := runtime.Stack(buf, true)
		if !bytes.Contains(buf[:n], []byte("client.(*Conn).handleReq")) {
			return true
		}
		if time.Now().After(deadline) {
			return false
		}
		time.Sleep(100 * time.Microsecond)
	}
}

// sync: a non-confirmable barrier request through the receive queue; its message ID avoids every
// ID the side has seen (a cached reply would otherwise answer it).
func (s *c13Side) sync() bool {
	s.mu.Lock()
	mid := 0xF000 + s.barSeq
	for s.seen[mid&0xffff] {
		s.barSeq++
		mid = 0xF000 + s.barSeq
	}
	s.barSeq++
	s.mu.Unlock()
	d := encodeWire(1, 1, mid&0xffff, barrierToken, nil, nil)
	if err := s.cc.Process(nil, d); err != nil {
		return false
	}
	select {
	case <-s.barrier:
	case <-time.After(c13Watch):
		return false
	}
	// the barrier's handler signals from inside handleReq: wait until the barrier's OWN per-ID lock
	// entry is gone (only that key is looked at, so a leaked entry of another ID is not waited for)
	// If it never goes (a lock map that does not delete), carry on: the sizes then show the entry.
	deadline := time.Now().Add(c13OwnLockWait)
	for s.mutexHasKey(int32(mid & 0xffff)) {
		if time.Now().After(deadline) {
			c13OwnLockWait = 20 * time.Millisecond
			break
		}
		time.Sleep(50 * time.Microsecond)
	}
	return true
}

var c13OwnLockWait = 10 * time.Second

// mutexHasKey reports whether msgIDMutex holds an entry for the message ID (private fields, read under the map's lock).
func (s *c13Side) mutexHasKey(mid int32) bool {
	mm := reflect.ValueOf(s.cc).Elem().FieldByName("msgIDMutex").Elem()
	mlf := mm.FieldByName("ml")
	ml := reflect.NewAt(mlf.Type(), unsafe.Pointer(mlf.UnsafeAddr())).Interface().(*sync.Mutex)
	ml.Lock()
	defer ml.Unlock()
	v := mm.FieldByName("ma").MapIndex(reflect.ValueOf(mid))
	return v.IsValid()
}

func c13MapLen(v reflect.Value) int { return v.Len() }

// midHasNil reports whether midHandlerContainer holds a nil element under some message ID.
func (s *c13Side) midHasNil() bool {
	mpw := reflect.ValueOf(s.cc).Elem().FieldByName("midHandlerContainer").Elem()
	r := false
	lockSyncMap(mpw, func() {
		it := mpw.FieldByName("data").MapRange()
		for it.Next() {
			if it.Value().IsNil() {
				r = true
			}
		}
	})
	return r
}

// sizes reads every per-exchange table of the connection.
func (s *c13Side) sizes() [c13NSizes]int {
	var r [c13NSizes]int
	vs := s.cc.VerifSizes()
	r[0] = vs["tokenHandlers"]
	r[1] = vs["midHandlers"]
	r[2] = vs["msgIDMutex"]
	r[3] = vs["responseCache"]
	if bw, ok := s.cc.VerifBlockWise().(*blockwise.BlockWise[*client.Conn]); ok && bw != nil {
		r[4], r[5] = bw.VerifTableSizes()
	} else {
		r[4], r[5] = -1, -1
	}
	// limiter: private fields read reflectively at rest
	lv := reflect.ValueOf(s.cc.LimitParallelRequests).Elem()
	mpw := lv.FieldByName("endpointQueues").Elem()
	lockSyncMap(mpw, func() {
		mp := mpw.FieldByName("data")
		r[6] = mp.Len()
		it := mp.MapRange()
		for it.Next() {
			r[7] += it.Value().Elem().FieldByName("orderedRequest").Len()
		}
	})
	sem := lv.FieldByName("limit").Elem()
	r[8] = int(sem.FieldByName("cur").Int())
	wl := sem.FieldByName("waiters")
	r[9] = int(reflect.NewAt(wl.Type(), unsafe.Pointer(wl.UnsafeAddr())).Elem().FieldByName("len").Int())
	// observation table
	hv := reflect.ValueOf(s.cc.VerifObservationHandler()).Elem()
	ow := hv.FieldByName("observations").Elem()
	lockSyncMap(ow, func() { r[10] = ow.FieldByName("data").Len() })
	return r
}

// lockSyncMap holds the RWMutex of a pkg/sync.Map (field "mutex") while f reads the map.
func lockSyncMap(m reflect.Value, f func()) {
	mu := m.FieldByName("mutex")
	if mu.IsValid() && mu.CanAddr() {
		if rw, ok := reflect.NewAt(mu.Type(), unsafe.Pointer(mu.UnsafeAddr())).Interface().(*sync.RWMutex); ok {
			rw.RLock()
			defer rw.RUnlock()
		}
	}
	f()
}

// ---------------------------------------------------------------- the pair

type c13Hang struct {
	id      int
	r       int // limiter request number
	path    string
	key     int
	tok     []byte
	tokZ    int
	cancel  context.CancelFunc
	done    chan error
	state   int // 0 queued in the limiter, 1 in flight, 2 returned, 3 cancelled and parked before cancelEndpoint (c13cancel.go)
	park    *c13Park
	granted bool // state 3: a releaseEndpoint has handed a slot to the parked request
	dropped bool
	acked   bool // pending entry gone (acknowledged, reset or expired)
	mid     int
}

type c13Reg struct {
	tok  []byte
	tokZ int
	obs  interface {
		Cancel(ctx context.Context, opts ...message.Option) error
	}
	live    bool
	path    string
	k       int // endpoint (path) key of the registration, for the limiter events
	seq     uint32
	got     int
	gotLock sync.Mutex
}

type c13Run struct {
	a, b   *c13Side
	ab, ba *c13Link
	le     int
	tokCtr uint64
	tokMu  sync.Mutex
	nextR  int
	hangs  map[int]*c13Hang
	order  []int // hang ids in creation order
	inUse  map[int]int
	queue  map[int][]int // path key -> queued hang ids
	regs   []*c13Reg
	pings  map[int]func()
	pingSt map[int]*c13Ping
	obsTok map[string][]byte // B: token of the registration per path
	bmu    sync.Mutex
	evs    []string // abstract events of the current step
	steps  []string
	flags  []string
	hung   bool
	dbg    bool
	liveB  int
	d0, e0 int
	// the closing ticks run with the transport down (writes fail) instead of a silent network
	downAtClose bool
	// opNest (c13race.go): B's handler announces itself on nestIn and stays busy until nestRelease is
	// closed; contMid = message IDs whose two copies contended for the per-ID lock (reported as EInCont)
	nestIn      chan struct{}
	nestRelease chan struct{}
	contMid     map[int]bool
	// c13cancel.go: requests parked at the limiter's scheduling point "ep-ctx-done"
	parks    []*c13Park
	parkNext atomic.Pointer[c13Park]
}

type c13Ping struct {
	elapsed int64
	count   int
	gone    bool
}

func (p *c13Run) newTok() ([]byte, int) {
	p.tokMu.Lock()
	defer p.tokMu.Unlock()
	p.tokCtr++
	v := p.tokCtr
	t := []byte{0xC1, 0x3A, byte(v >> 8), byte(v)}
	return t, int(v)
}

func c13Body(n int) []byte { return genBody(5, n) }

func (p *c13Run) serverHandler(w *responsewriter.ResponseWriter[*client.Conn], r *pool.Message) {
	path, _ := r.Path()
	path = strings.TrimPrefix(path, "/")
	code := r.Code()
	if code < codes.GET || code > codes.DELETE {
		return // a response or an empty message that matched nothing: ignored
	}
	switch {
	case strings.HasPrefix(path, "h") || path == "dl":
		return // acknowledged, never answered
	case path == "nest":
		p.nestHandler(w, r)
	case path == "big":
		_ = w.SetResponse(codes.Content, message.AppOctets, bytes.NewReader(c13Body(c13BigLen)))
	case path == "up":
		if r.Body() != nil {
			_, _ = r.ReadBody()
		}
		_ = w.SetResponse(codes.Changed, message.TextPlain, bytes.NewReader([]byte("ok")))
	case path == "upbig":
		_ = w.SetResponse(codes.Changed, message.AppOctets, bytes.NewReader(c13Body(c13BigLen)))
	case path == "obs":
		if o, err := r.Observe(); err == nil && o == 0 {
			p.bmu.Lock()
			p.obsTok[path] = append([]byte{}, r.Token()...)
			p.bmu.Unlock()
			_ = w.SetResponse(codes.Content, message.TextPlain, bytes.NewReader([]byte("v0")), message.Option{ID: message.Observe, Value: []byte{2}})
			return
		}
		_ = w.SetResponse(codes.Content, message.TextPlain, bytes.NewReader([]byte("v")))
	case path == "vobs":
		// the representation the ETag of the request names is still fresh: 2.03 Valid, no payload
		if o, err := r.Observe(); err == nil && o == 0 {
			p.bmu.Lock()
			p.obsTok[path] = append([]byte{}, r.Token()...)
			p.bmu.Unlock()
			_ = w.SetResponse(codes.Valid, message.TextPlain, nil, message.Option{ID: message.ETag, Value: c13ETag}, message.Option{ID: message.Observe, Value: []byte{2}})
			return
		}
		_ = w.SetResponse(codes.Valid, message.TextPlain, nil, message.Option{ID: message.ETag, Value: c13ETag})
	case path == "vno":
		// a server that validates the ETag but does not observe: 2.03 Valid without the Observe option
		_ = w.SetResponse(codes.Valid, message.TextPlain, nil, message.Option{ID: message.ETag, Value: c13ETag})
	case path == "noobs":
		_ = w.SetResponse(codes.Content, message.TextPlain, bytes.NewReader([]byte("v")))
	case path == "nf":
		_ = w.SetResponse(codes.NotFound, message.TextPlain, nil)
	case path == "bad":
		// the last block of a transfer that never started
		v, _ := blockwise.EncodeBlockOption(blockwise.SZX64, 3, false)
		buf := make([]byte, 4)
		n, _ := message.EncodeUint32(buf, v)
		_ = w.SetResponse(codes.Content, message.TextPlain, bytes.NewReader(c13Body(10)), message.Option{ID: message.Block2, Value: buf[:n]})
	default:
		_ = w.SetResponse(codes.Content, message.TextPlain, bytes.NewReader([]byte("hello")))
	}
}

func newC13Side(name string, mid0 int32, le int, link *c13Link, handler func(side *c13Side) client.HandlerFunc, getTok func() (message.Token, error)) *c13Side {
	s := &c13Side{name: name, seen: map[int]bool{}, barrier: make(chan struct{}, 64)}
	s.sess = &c13Sess{memSession: newMemSession(64 * 1024), link: link}
	cfg := client.DefaultConfig
	cfg.MessagePool = pool.New(256, 2048)
	if c13PoolFor != nil {
		cfg.MessagePool = c13PoolFor(name)
	}
	if activeTracker != nil {
		// C12: a message handed over to a waiting caller is released by that caller before the receive
		// path runs its own clean-up (the order in which a lost hijack flag shows as a double release)
		cfg.ProcessReceivedMessage = func(req *pool.Message, cc *client.Conn, handler config.HandlerFunc[*client.Conn]) {
			defer func() {
				if r := recover(); r != nil {
					activeTracker.notePanic(r) // a panic on the receive path is an observable, not a crash of hx
				}
			}()
			cc.ProcessReceivedMessageWithHandler(req, func(w *responsewriter.ResponseWriter[*client.Conn], r *pool.Message) {
				handler(w, r)
				if r.IsHijacked() {
					activeTracker.waitReleased(r, c13HijackWait)
				}
			})
		}
	}
	if activeTracker == nil {
		// a panic on the receive path (e.g. Unlock of a per-ID lock entry that is gone) is an observable
		// of the history, not a crash of hx
		cfg.ProcessReceivedMessage = func(req *pool.Message, cc *client.Conn, handler config.HandlerFunc[*client.Conn]) {
			defer func() {
				if r := recover(); r != nil {
					s.note(fmt.Sprintf("panic on the receive path: %v", r))
				}
			}()
			cc.ProcessReceivedMessageWithHandler(req, handler)
		}
	}
	cfg.GetMID = func() int32 { return mid0 }
	cfg.GetToken = getTok
	cfg.Errors = func(error) {
		s.mu.Lock()
		s.errs++
		s.mu.Unlock()
	}
	cfg.TransmissionNStart = c13NStart
	cfg.TransmissionAcknowledgeTimeout = c13AckMs * time.Millisecond
	cfg.TransmissionMaxRetransmit = c13MaxRt
	cfg.ReceivedMessageQueueSize = 16
	cfg.LimitClientParallelRequests = 0
	cfg.LimitClientEndpointParallelRequests = int64(le)
	cfg.MaxMessageSize = 64 * 1024
	cfg.BlockwiseSZX = blockwise.SZX64
	h := handler(s)
	cfg.Handler = func(w *responsewriter.ResponseWriter[*client.Conn], r *pool.Message) {
		trkHold(r) // C12: the application holds the request for the duration of the handler
		defer trkUnhold(r)
		if string(r.Token()) == string(barrierToken) {
			s.barrier <- struct{}{}
			return
		}
		h(w, r)
	}
	errFn := cfg.Errors
	s.cc = client.NewConnWithOpts(s.sess, &cfg, client.WithBlockWise(func(cc *client.Conn) *blockwise.BlockWise[*client.Conn] {
		return blockwise.New(cc, c13BwHours*time.Hour, errFn, func(token message.Token) (*pool.Message, bool) {
			return cc.GetObservationRequest(token)
		})
	}))
	return s
}

func newC13Run(le int) *c13Run {
	p := &c13Run{le: le, hangs: map[int]*c13Hang{}, inUse: map[int]int{}, queue: map[int][]int{}, pings: map[int]func(){},
		pingSt: map[int]*c13Ping{}, obsTok: map[string][]byte{}, dbg: os.Getenv("HXDBG") != "", contMid: map[int]bool{}}
	p.ab, p.ba = newC13Link(), newC13Link()
	getTok := func() (message.Token, error) { t, _ := p.newTok(); return t, nil }
	p.a = newC13Side("A", 32767+100, le, p.ab, func(*c13Side) client.HandlerFunc {
		return func(*responsewriter.ResponseWriter[*client.Conn], *pool.Message) {}
	}, getTok)
	p.b = newC13Side("B", 65535+100, 0, p.ba, func(*c13Side) client.HandlerFunc { return p.serverHandler }, getTok)
	p.ab.dst, p.ba.dst = p.b, p.a
	limitparallelrequests.VerifSetYield(p.yield)
	go p.ab.pump()
	go p.ba.pump()
	return p
}

func (p *c13Run) close() {
	p.unparkAll()
	limitparallelrequests.VerifSetYield(nil)
	for _, l := range []*c13Link{p.ab, p.ba} {
		l.mu.Lock()
		l.stop = true
		l.cond.Broadcast()
		l.mu.Unlock()
	}
	_ = p.a.cc.Close()
	_ = p.b.cc.Close()
	p.a.sess.shutdown()
	p.b.sess.shutdown()
}

// settle brings the pair to rest: links idle, both receive queues drained, nothing new sent meanwhile.
func (p *c13Run) settle() {
	for iter := 0; iter < 10000; iter++ {
		e1, _ := p.ab.counters()
		e2, _ := p.ba.counters()
		if !p.ab.waitIdle(c13Watch) || !p.ba.waitIdle(c13Watch) {
			p.hung = true
			return
		}
		if !p.a.sync() || !p.b.sync() || !c13NoHandlerRunning() {
			p.hung = true
			return
		}
		if !p.ab.waitIdle(c13Watch) || !p.ba.waitIdle(c13Watch) {
			p.hung = true
			return
		}
		f1, _ := p.ab.counters()
		f2, _ := p.ba.counters()
		if e1 == f1 && e2 == f2 {
			return
		}
	}
	p.hung = true
}

func (p *c13Run) ev(sideA bool, s string) {
	p.evs = append(p.evs, fmt.Sprintf("(%s, %s)", coqBool(sideA), s))
}

func c13Sizes(z [c13NSizes]int) string {
	parts := make([]string, len(z))
	for i, v := range z {
		parts[i] = coqZ(int64(v))
	}
	return "[" + strings.Join(parts, "; ") + "]"
}

// endStep records the datagrams dispatched during the step, reads the tables and closes the step.
func (p *c13Run) endStep(tag string, idle bool, closing bool) {
	p.endStepK(tag, idle, closing, false)
}

// swept: every call has returned, every deadline has passed and ONE housekeeping tick has run (kind 3)
func (p *c13Run) endStepK(tag string, idle bool, closing bool, swept bool) {
	p.settle()
	for _, x := range p.a.takeIn() {
		p.ev(true, fmt.Sprintf("EIn %d %d %d false", x.typ, x.code, x.mid))
	}
	first := map[int]bool{}
	for _, x := range p.b.takeIn() {
		ans := (x.typ == 0 || x.typ == 1) && x.code >= 1 && x.code <= 4
		if p.contMid[x.mid] && (x.typ == 0 || x.typ == 1) {
			// the two copies that contended for the per-ID lock (opNest) are one event of the model
			if !first[x.mid] {
				first[x.mid] = true
				continue
			}
			delete(p.contMid, x.mid)
			delete(first, x.mid)
			p.ev(false, fmt.Sprintf("EInCont %d %d %d %s", x.typ, x.code, x.mid, coqBool(ans)))
			continue
		}
		p.ev(false, fmt.Sprintf("EIn %d %d %d %s", x.typ, x.code, x.mid, coqBool(ans)))
	}
	for mid := range first {
		// the copy never made it: the first one alone
		delete(p.contMid, mid)
		p.ev(false, fmt.Sprintf("EIn 0 1 %d true", mid))
	}
	sa, sb := p.a.sizes(), p.b.sizes()
	live := 0
	for _, r := range p.regs {
		if r.live {
			live++
		}
	}
	kind := 0
	if idle {
		kind = 1
	}
	if closing {
		kind = 2
	}
	if swept {
		kind = 3
	}
	p.steps = append(p.steps, fmt.Sprintf("St %d [%s] %s %s %d", kind, strings.Join(p.evs, "; "), c13Sizes(sa), c13Sizes(sb), live))
	if p.dbg {
		fmt.Fprintf(os.Stderr, "%-14s kind=%d A=%v B=%v live=%d\n   evs=%s\n", tag, kind, sa, sb, live, strings.Join(p.evs, "; "))
	}
	p.evs = nil
}

// call runs f under a watchdog; ok=false when it did not return in time.
func (p *c13Run) call(f func() error) (error, bool) {
	ch := make(chan error, 1)
	go func() {
		defer func() {
			if r := recover(); r != nil {
				ch <- fmt.Errorf("panic: %v", r)
			}
		}()
		ch <- f()
	}()
	select {
	case err := <-ch:
		return err, true
	case <-time.After(c13Watch):
		p.hung = true
		return nil, false
	}
}

func (p *c13Run) expect(what string, err error, wantErr bool) {
	if (err != nil) != wantErr {
		p.flags = append(p.flags, fmt.Sprintf("%s: err=%v wantErr=%v", what, err, wantErr))
	}
}

const (
	kGet = iota + 1
	kBig
	kUp
	kUpBig
	kObs
	kNoObs
	kNf
	kBad
	kDl
	kDrop
	kUpD
	kH0
	kNest = kH0 + 3
	// round 5: registrations answered 2.03 Valid (conditional observe, the request carries an ETag)
	kVObs = kNest + 1 // ... with the Observe option: registered
	kVNo  = kNest + 2 // ... without it: the server did not register the client
)

var c13Paths = map[int]string{kGet: "a", kBig: "big", kUp: "up", kUpBig: "upbig", kObs: "obs", kNoObs: "noobs", kNf: "nf", kBad: "bad", kDl: "dl", kDrop: "d0", kUpD: "d1", kH0: "h0", kH0 + 1: "h1", kH0 + 2: "h2", kNest: "nest", kVObs: "vobs", kVNo: "vno"}

// limiter events of a request that finds its endpoint free
func (p *c13Run) limIn(k int) int {
	p.nextR++
	r := p.nextR
	p.ev(true, fmt.Sprintf("LmArrive %d %d", r, k))
	p.lmSettle()
	return r
}
func (p *c13Run) limOut(r int) {
	p.ev(true, fmt.Sprintf("LmFinish %d", r))
	p.lmSettle()
}

func (p *c13Run) idle() bool {
	for _, h := range p.hangs {
		if h.state != 2 {
			return false
		}
	}
	for _, st := range p.pingSt {
		if !st.gone {
			return false
		}
	}
	return true
}

// simple request/response exchange through the limiter
func (p *c13Run) opDo(k int, upload int, ctxMs int, wantErr bool, bw func()) {
	ctx, cancel := context.WithCancel(context.Background())
	if ctxMs > 0 {
		ctx, cancel = context.WithTimeout(context.Background(), time.Duration(ctxMs)*time.Millisecond)
	}
	defer cancel()
	path := "/" + c13Paths[k]
	p.tokMu.Lock()
	tokZ := int(p.tokCtr + 1)
	p.tokMu.Unlock()
	r := p.limIn(k)
	p.ev(true, fmt.Sprintf("BwPutS %d", tokZ))
	p.ev(true, fmt.Sprintf("RxSend %d", r))
	err, ok := p.call(func() error {
		var resp *pool.Message
		var err error
		if upload > 0 {
			resp, err = p.a.cc.Post(ctx, path, message.AppOctets, bytes.NewReader(c13Body(upload)))
		} else {
			resp, err = p.a.cc.Get(ctx, path)
		}
		if err == nil {
			trkHold(resp)
			if resp.Body() != nil {
				_, _ = resp.ReadBody()
			}
			trkUnhold(resp)
			trkAppRel(resp)
			p.a.cc.ReleaseMessage(resp)
		}
		return err
	})
	if ok {
		p.expect("do "+path, err, wantErr)
	}
	if bw != nil {
		bw()
	}
	if wantErr {
		p.ev(true, fmt.Sprintf("RxCancel %d", r))
	} else {
		p.ev(true, fmt.Sprintf("RxPiggy %d", r))
	}
	p.ev(true, fmt.Sprintf("BwDelS %d", tokZ))
	p.limOut(r)
}

// abandoned transfer: link passes k datagrams, then drops; the caller cancels once a datagram was lost
func (p *c13Run) opAbandon(up bool, k int) {
	ctx, cancel := context.WithCancel(context.Background())
	defer cancel()
	link := p.ba
	kk, path, upload := kBig, "/big", 0
	if up {
		link, kk, path, upload = p.ab, kUp, "/up", c13BigLen
	}
	p.tokMu.Lock()
	tokZ := int(p.tokCtr + 1)
	p.tokMu.Unlock()
	r := p.limIn(kk)
	p.ev(true, fmt.Sprintf("BwPutS %d", tokZ))
	p.ev(true, fmt.Sprintf("RxSend %d", r))
	link.mu.Lock()
	link.passLeft = k
	d0 := link.dropped
	link.mu.Unlock()
	done := make(chan error, 1)
	go func() {
		var err error
		var resp *pool.Message
		if upload > 0 {
			resp, err = p.a.cc.Post(ctx, path, message.AppOctets, bytes.NewReader(c13Body(upload)))
		} else {
			resp, err = p.a.cc.Get(ctx, path)
		}
		if err == nil {
			trkHold(resp)
			trkUnhold(resp)
			trkAppRel(resp)
			p.a.cc.ReleaseMessage(resp)
		}
		done <- err
	}()
	if !link.waitDropped(d0, c13Watch) {
		p.hung = true
	}
	p.settle()
	cancel()
	select {
	case err := <-done:
		p.expect("abandon "+path, err, true)
	case <-time.After(c13Watch):
		p.hung = true
	}
	link.mu.Lock()
	link.passLeft = -1
	link.mu.Unlock()
	if up {
		if k >= 1 {
			p.ev(false, fmt.Sprintf("BwPutR %d", tokZ))
		}
	} else {
		p.ev(false, fmt.Sprintf("BwPutS %d", tokZ))
		if k >= 1 {
			p.ev(true, fmt.Sprintf("BwPutR %d", tokZ))
		}
	}
	p.ev(true, fmt.Sprintf("RxCancel %d", r))
	p.ev(true, fmt.Sprintf("BwDelS %d", tokZ))
	p.limOut(r)
}

func (p *c13Run) grant(h *c13Hang) {
	// the request owns its endpoint slot: it enters Do
	p.inUse[h.key]++
	for _, o := range p.hangs {
		if o != h && o.state == 1 && o.tokZ == h.tokZ {
			// token already registered: refused at once
			select {
			case <-h.done:
			case <-time.After(c13Watch):
				p.hung = true
			}
			h.state = 2
			p.release(h)
			return
		}
	}
	h.state = 1
	p.ev(true, fmt.Sprintf("BwPutS %d", h.tokZ))
	p.ev(true, fmt.Sprintf("RxSend %d", h.r))
	// wait until the request is on the wire: dropped by the link, or acknowledged by B
	if h.dropped {
		if !p.ab.waitDropped(p.d0, c13Watch) {
			p.hung = true
		}
		p.ab.mu.Lock()
		if p.ab.lastDrop != nil {
			h.mid = decodeWire(p.ab.lastDrop).MID
		}
		p.d0 = p.ab.dropped
		p.ab.mu.Unlock()
	} else {
		deadline := time.Now().Add(c13Watch)
		for {
			e, _ := p.ba.counters()
			if e > p.e0 {
				p.e0 = e
				break
			}
			if time.Now().After(deadline) {
				p.hung = true
				break
			}
			time.Sleep(100 * time.Microsecond)
		}
		h.acked = true
		p.ev(true, fmt.Sprintf("RxAck %d", h.r))
	}
}

// mark samples the link counters at the start of an operation (witnesses are "one more than that")
func (p *c13Run) mark() {
	p.settle()
	_, p.d0 = p.ab.counters()
	p.e0, _ = p.ba.counters()
}

// release: the request leaves Do; the head of its endpoint queue is admitted
func (p *c13Run) release(h *c13Hang) {
	p.inUse[h.key]--
	p.limOut(h.r)
	p.handOver(h.key)
}

func (p *c13Run) opHang(id int, k int, dropped bool, share int) {
	if _, dup := p.hangs[id]; dup {
		return
	}
	p.mark()
	path := "/" + c13Paths[k]
	ctx, cancel := context.WithCancel(context.Background())
	req, err := p.a.cc.NewGetRequest(ctx, path)
	if err != nil {
		cancel()
		p.flags = append(p.flags, "NewGetRequest: "+err.Error())
		return
	}
	tok, tokZ := append([]byte{}, req.Token()...), int(p.tokCtr)
	if o, ok := p.hangs[share]; ok && share >= 0 {
		tok, tokZ = o.tok, o.tokZ
		req.SetToken(tok)
	}
	p.nextR++
	h := &c13Hang{id: id, r: p.nextR, path: path, key: k, tok: tok, tokZ: tokZ, cancel: cancel, done: make(chan error, 1), dropped: dropped}
	p.hangs[id] = h
	p.order = append(p.order, id)
	p.ev(true, fmt.Sprintf("LmArrive %d %d", h.r, k))
	p.lmSettle()
	go func() {
		resp, err := p.a.cc.Do(req)
		if err == nil {
			trkHold(resp)
			trkUnhold(resp)
			trkAppRel(resp)
			p.a.cc.ReleaseMessage(resp)
		}
		trkAppRel(req)
		p.a.cc.ReleaseMessage(req)
		h.done <- err
	}()
	if p.le > 0 && p.inUse[k] >= p.le {
		p.queue[k] = append(p.queue[k], id)
		// witness for "queued": the limiter's queue length is read in endStep
		p.waitQueued()
		return
	}
	p.grant(h)
}

// waitQueued waits until the limiter's queues hold as many channels as the script expects.
func (p *c13Run) waitQueued() {
	want := 0
	for _, q := range p.queue {
		want += len(q)
	}
	deadline := time.Now().Add(c13Watch)
	for {
		if p.a.sizes()[7] == want {
			return
		}
		if time.Now().After(deadline) {
			p.hung = true
			return
		}
		time.Sleep(100 * time.Microsecond)
	}
}

func (p *c13Run) opCancel(id int) {
	h, ok := p.hangs[id]
	if !ok || h.state == 2 || h.state == 3 {
		return
	}
	p.mark()
	h.cancel()
	select {
	case err := <-h.done:
		p.expect("cancel", err, true)
	case <-time.After(c13Watch):
		p.hung = true
	}
	if h.state == 0 {
		// withdrawn from the endpoint queue
		q := p.queue[h.key]
		for i, x := range q {
			if x == id {
				p.queue[h.key] = append(append([]int{}, q[:i]...), q[i+1:]...)
				break
			}
		}
		h.state = 2
		p.ev(true, fmt.Sprintf("LmCancel %d", h.r))
		p.lmSettle()
		return
	}
	h.state = 2
	p.ev(true, fmt.Sprintf("RxCancel %d", h.r))
	p.ev(true, fmt.Sprintf("BwDelS %d", h.tokZ))
	p.release(h)
}

func (p *c13Run) opRst(id int) {
	h, ok := p.hangs[id]
	if !ok || h.state != 1 || !h.dropped || h.acked {
		return
	}
	h.acked = true
	d := encodeWire(3, 0, h.mid, nil, nil, nil)
	p.a.deliver(d)
	p.ev(true, fmt.Sprintf("RxRst %d", h.r))
}

var c13ETag = []byte{0xE7, 0xA6, 0x13, 0x05}

func (p *c13Run) opObserve(k int, dup bool) {
	path := "/" + c13Paths[k]
	p.tokMu.Lock()
	tokZ := int(p.tokCtr + 1)
	p.tokMu.Unlock()
	reg := &c13Reg{path: path, tokZ: tokZ, k: k}
	id := len(p.regs)
	p.regs = append(p.regs, reg)
	r := p.limIn(k)
	var obs interface {
		Cancel(ctx context.Context, opts ...message.Option) error
	}
	err, ok := p.call(func() error {
		var ropts []message.Option
		if k == kVObs || k == kVNo {
			ropts = append(ropts, message.Option{ID: message.ETag, Value: c13ETag}) // conditional registration
		}
		o, err := p.a.cc.Observe(context.Background(), path, func(n *pool.Message) {
			trkHold(n) // C12: the notification belongs to the application until the callback returns
			defer trkUnhold(n)
			reg.gotLock.Lock()
			reg.got++
			reg.gotLock.Unlock()
		}, ropts...)
		obs = o
		return err
	})
	_ = id
	tb, _ := p.tokOf(tokZ)
	reg.tok = tb
	p.ev(true, fmt.Sprintf("ObReg %s", coqBytes(tb)))
	switch k {
	case kObs:
		p.ev(true, fmt.Sprintf("ObMsg %s 69 (Some [2]) 0", coqBytes(tb)))
		if ok {
			p.expect("observe", err, false)
		}
		if err == nil && obs != nil {
			reg.obs = obs
			reg.live = true
			reg.seq = 2
		}
	case kVObs:
		p.ev(true, fmt.Sprintf("ObMsg %s 67 (Some [2]) 0", coqBytes(tb)))
		if ok {
			p.expect("observe-valid", err, false)
		}
		if err == nil && obs != nil {
			reg.obs = obs
			reg.live = true
			reg.seq = 2
		}
	case kVNo:
		p.ev(true, fmt.Sprintf("ObMsg %s 67 None 0", coqBytes(tb)))
		if ok {
			p.expect("observe-valid-noobs", err, false)
		}
	case kNoObs:
		p.ev(true, fmt.Sprintf("ObMsg %s 69 None 0", coqBytes(tb)))
		if ok {
			p.expect("observe-noobs", err, false)
		}
	case kNf:
		p.ev(true, fmt.Sprintf("ObMsg %s 132 None 0", coqBytes(tb)))
		if ok {
			p.expect("observe-nf", err, true)
		}
	}
	p.limOut(r)
}

func (p *c13Run) tokOf(tokZ int) ([]byte, bool) {
	return []byte{0xC1, 0x3A, byte(tokZ >> 8), byte(tokZ)}, true
}

func (p *c13Run) opNotify(id int, n int, con bool) {
	if id < 0 || id >= len(p.regs) {
		return
	}
	reg := p.regs[id]
	if reg.tok == nil {
		return
	}
	for i := 0; i < n; i++ {
		reg.seq++
		seq := reg.seq
		_, ok := p.call(func() error {
			m := p.b.cc.AcquireMessage(context.Background())
			defer p.b.cc.ReleaseMessage(m)
			defer trkAppRel(m)
			m.SetCode(codes.Content)
			m.SetToken(reg.tok)
			m.SetObserve(seq)
			m.SetContentFormat(message.TextPlain)
			m.SetBody(bytes.NewReader([]byte("n")))
			if con {
				m.SetType(message.Confirmable)
			} else {
				m.SetType(message.NonConfirmable)
			}
			return p.b.cc.WriteMessage(m)
		})
		_ = ok
		p.ev(true, fmt.Sprintf("ObMsg %s 69 (Some [%d]) %d", coqBytes(reg.tok), seq, i+1))
		p.settle()
	}
}

func (p *c13Run) opObsCancel(id int) {
	if id < 0 || id >= len(p.regs) {
		return
	}
	reg := p.regs[id]
	if reg.obs == nil {
		return
	}
	wasLive := reg.live
	reg.live = false
	p.ev(true, fmt.Sprintf("ObCancel %d 69", id))
	var r int
	if wasLive {
		r = p.limIn(reg.k)
		p.ev(true, fmt.Sprintf("BwPutS %d", reg.tokZ))
		p.ev(true, fmt.Sprintf("RxSend %d", r))
	}
	err, ok := p.call(func() error { return reg.obs.Cancel(context.Background()) })
	if ok {
		p.expect("obs cancel", err, false)
	}
	if wasLive {
		p.ev(true, fmt.Sprintf("RxPiggy %d", r))
		p.ev(true, fmt.Sprintf("BwDelS %d", reg.tokZ))
		p.limOut(r)
	}
}

func (p *c13Run) opPing() {
	err, ok := p.call(func() error { return p.a.cc.Ping(context.Background()) })
	if ok {
		p.expect("ping", err, false)
	}
	p.ev(true, "PingStart 0")
	p.ev(true, "PingEnd 0")
}

func (p *c13Run) opPingLost(id int) {
	if _, dup := p.pingSt[id]; dup || id <= 0 {
		return
	}
	p.ab.mu.Lock()
	p.ab.passLeft = 0
	d0 := p.ab.dropped
	p.ab.mu.Unlock()
	cancel, err := p.a.cc.AsyncPing(func() {})
	if err != nil {
		p.flags = append(p.flags, "AsyncPing: "+err.Error())
	}
	if !p.ab.waitDropped(d0, c13Watch) {
		p.hung = true
	}
	p.ab.mu.Lock()
	p.ab.passLeft = -1
	p.ab.mu.Unlock()
	p.pings[id] = cancel
	p.pingSt[id] = &c13Ping{}
	p.ev(true, fmt.Sprintf("PingStart %d", id))
}

func (p *c13Run) opPingCancel(id int) {
	st, ok := p.pingSt[id]
	if !ok {
		return
	}
	if c := p.pings[id]; c != nil {
		c()
		p.pings[id] = nil
	}
	st.gone = true
	p.ev(true, fmt.Sprintf("PingEnd %d", id))
}

func (p *c13Run) opOneway(dup bool) {
	err, ok := p.call(func() error {
		m := p.a.cc.AcquireMessage(context.Background())
		defer p.a.cc.ReleaseMessage(m)
		defer trkAppRel(m)
		t, _ := p.newTok()
		_ = m.SetupPost("/a", t, message.TextPlain, bytes.NewReader([]byte("x")))
		m.SetType(message.NonConfirmable)
		return p.a.cc.WriteMessage(m)
	})
	if ok {
		p.expect("oneway", err, false)
	}
}

// tick: network outage, virtual ageing by ms on both sides, one housekeeping tick on both sides
//
// down: instead of losing the datagrams silently the transport refuses them (session.WriteMessage
// returns an error for every copy the tick retransmits)
func (p *c13Run) opTick(ms int64, far bool, down bool) {
	p.settle()
	for _, s := range []*c13Side{p.a, p.b} {
		if s.midHasNil() {
			// a message ID that holds a nil element: the tick would dereference it inside Range's callback,
			// which is fatal for the process; the history stops here, the tables read so far are reported
			p.flags = append(p.flags, "nil element in the message-ID table of "+s.name)
			p.hung = true
		}
	}
	if p.hung {
		return
	}
	p.ab.mu.Lock()
	p.ab.silent = true
	p.ab.fail = down
	p.ab.mu.Unlock()
	p.ba.mu.Lock()
	p.ba.silent = true
	p.ba.fail = down
	p.ba.mu.Unlock()
	if ms > 0 {
		d := time.Duration(ms) * time.Millisecond
		for _, s := range []*c13Side{p.a, p.b} {
			s.cc.VerifShiftResponseCache(d)
			s.cc.VerifShiftPending(d)
		}
		p.ev(true, fmt.Sprintf("AgeAll %d", ms))
		p.ev(false, fmt.Sprintf("AgeAll %d", ms))
	}
	now := time.Now()
	if far {
		now = now.Add(2 * c13BwHours * time.Hour)
	}
	p.a.cc.CheckExpirations(now)
	p.b.cc.CheckExpirations(now)
	if down {
		p.ev(true, "TickAllW true")
		p.ev(false, "TickAllW true")
	} else {
		p.ev(true, "TickAll")
		p.ev(false, "TickAll")
	}
	if far {
		p.ev(true, "BwExpire")
		p.ev(false, "BwExpire")
	}
	// script-side view of the deadline-less ping entries (same rule as checkMidHandlerContainer)
	for _, st := range p.pingSt {
		if st.gone {
			continue
		}
		st.elapsed += ms
		if st.count >= c13MaxRt {
			st.gone = true
		} else if int64(c13AckMs)*int64(st.count+1) < st.elapsed {
			st.count++
		}
	}
	p.settle()
	p.ab.mu.Lock()
	p.ab.silent = false
	p.ab.fail = false
	p.ab.mu.Unlock()
	p.ba.mu.Lock()
	p.ba.silent = false
	p.ba.fail = false
	p.ba.mu.Unlock()
}

func (p *c13Run) setDup(on bool) {
	for _, l := range []*c13Link{p.ab, p.ba} {
		l.mu.Lock()
		l.dup = on
		l.mu.Unlock()
	}
}

// apply executes one operation of the descriptor; "n*op" runs op n times within one step (many
// exchanges between two reads of the tables, e.g. more cached replies than one tick used to sweep).
func (p *c13Run) apply(op string) {
	if i := strings.Index(op, "*"); i > 0 {
		n, _ := strconv.Atoi(op[:i])
		inner := op[i+1:]
		switch strings.TrimPrefix(strings.Split(inner, ":")[0], "D") {
		case "get", "nf", "oneway", "up", "getbig", "upab", "downab", "getfail":
			for j := 0; j < n && j < 400 && !p.hung; j++ {
				p.applyOne(inner)
			}
		}
	} else {
		p.applyOne(op)
	}
	p.endStep(op, p.idle(), false)
}

func (p *c13Run) applyOne(op string) {
	f := strings.Split(op, ":")
	arg := func(i int) int {
		if i < len(f) {
			v, _ := strconv.Atoi(f[i])
			return v
		}
		return 0
	}
	name := f[0]
	dup := false
	if strings.HasPrefix(name, "D") {
		dup = true
		name = name[1:]
		p.setDup(true)
	}
	switch name {
	case "get":
		p.opDo(kGet, 0, 0, false, nil)
	case "getbig":
		p.opDo(kBig, 0, 0, false, nil)
	case "up":
		p.opDo(kUp, c13UpLen, 0, false, nil)
	case "updown":
		p.opDo(kUpBig, c13UpLen, 0, false, nil)
	case "nf":
		p.opDo(kNf, 0, 0, false, nil)
	case "bad":
		p.opDo(kBad, 0, 150, true, nil)
	case "dl":
		p.opDo(kDl, 0, 100, true, nil)
	case "dldrop":
		p.opDo(kUpD, 0, 100, true, nil) // its own lost path: never shares an endpoint slot with hdrop
	case "upab":
		p.opAbandon(true, arg(1))
	case "downab":
		p.opAbandon(false, arg(1))
	case "hack":
		share := -1
		if len(f) > 3 {
			share = arg(3)
		}
		p.opHang(arg(1), kH0+arg(2)%3, false, share)
	case "hdrop":
		share := -1
		if len(f) > 2 {
			share = arg(2)
		}
		p.opHang(arg(1), kDrop, true, share)
	case "cancel":
		p.opCancel(arg(1))
	case "rst":
		p.opRst(arg(1))
	case "obs":
		k := kObs
		if len(f) > 1 && f[1] == "no" {
			k = kNoObs
		} else if len(f) > 1 && f[1] == "nf" {
			k = kNf
		} else if len(f) > 1 && f[1] == "vok" {
			k = kVObs
		} else if len(f) > 1 && f[1] == "vno" {
			k = kVNo
		}
		p.opObserve(k, dup)
	case "notify":
		p.opNotify(arg(1), arg(2), arg(3) == 1)
	case "obscancel":
		p.opObsCancel(arg(1))
	case "ping":
		p.opPing()
	case "pinglost":
		p.opPingLost(arg(1))
	case "pingcancel":
		p.opPingCancel(arg(1))
	case "oneway":
		p.opOneway(dup)
	case "tick":
		p.opTick(int64(arg(1))*1000, false, false)
	case "tickf":
		p.opTick(int64(arg(1))*1000, false, true)
	case "linkdown":
		p.downAtClose = true
	case "getfail":
		// the transport refuses the request itself: Do returns the write error
		p.ab.setFail(true)
		p.opDo(kGet, 0, 0, true, nil)
		p.ab.setFail(false)
	case "pingfail":
		p.opPingFail(arg(1))
	case "nest":
		p.opNest()
	case "obscancelfail":
		mode := ""
		if len(f) > 2 {
			mode = f[2]
		}
		p.opObsCancelFail(arg(1), mode)
	case "cpark":
		p.opPark(arg(1))
	case "cresume":
		p.opResume(arg(1))
	}
	if dup {
		p.settle()
		p.setDup(false)
	}
}

// AsyncPing whose own write is refused: it returns the error and keeps nothing
func (p *c13Run) opPingFail(id int) {
	p.ab.setFail(true)
	cancel, err := p.a.cc.AsyncPing(func() {})
	p.ab.setFail(false)
	if err == nil {
		p.flags = append(p.flags, "AsyncPing: no error although the write was refused")
		if cancel != nil {
			cancel()
		}
	}
	p.ev(true, fmt.Sprintf("PingStart %d", 100000+id))
	p.ev(true, fmt.Sprintf("PingEnd %d", 100000+id))
}

// finish: every exchange still open is ended, then everything is aged past its deadline and ticked.
func (p *c13Run) finish() {
	for _, id := range p.order {
		if h := p.hangs[id]; h.state == 3 {
			p.opResume(id) // (an older request cancelled just before has handed its slot to this one)
		} else if h.state != 2 {
			p.opCancel(id)
		}
	}
	p.endStep("cancel-all", p.idle(), false)
	for i := 0; i <= c13MaxRt; i++ {
		ms := int64(0)
		if i == 0 {
			ms = c13FarMs
		}
		p.opTick(ms, true, p.downAtClose)
		if p.hung {
			return
		}
		if i == 0 {
			// every deadline has passed and ONE tick has run: caches and block-wise buffers must be empty now
			p.endStepK("close-1", true, false, true)
		}
	}
	for _, st := range p.pingSt {
		st.gone = true
	}
	p.endStep("close", true, true)
}

func runC13History(le int, ops []string) (string, bool, []string) {
	p := newC13Run(le)
	defer p.close()
	for _, op := range ops {
		if op == "" {
			continue
		}
		p.apply(op)
		if p.hung || (activeTracker != nil && activeTracker.bad()) {
			break // (C12: the trace already contains a violation; the corrupted pool would only make the rest hang)
		}
	}
	if !p.hung && !(activeTracker != nil && activeTracker.bad()) {
		p.finish()
	}
	bad := append([]string{}, p.flags...)
	bad = append(bad, p.a.bad...)
	bad = append(bad, p.b.bad...)
	hang := 0
	if p.hung {
		hang = 1
		c13Watch = 3 * time.Second
	}
	return fmt.Sprintf("Hist %d %d %d [%s]", le, hang, len(bad), strings.Join(p.steps, ";\n    ")), !p.hung && len(bad) == 0, bad
}

func c13Desc(le int, ops []string) string { return fmt.Sprintf("le=%d|%s", le, strings.Join(ops, " ")) }

func c13Parse(s string) (int, []string) {
	i := strings.Index(s, "|")
	if i < 0 {
		return 1, strings.Fields(s)
	}
	le := 1
	if strings.HasPrefix(s[:i], "le=") {
		le, _ = strconv.Atoi(s[3:i])
	}
	return le, strings.Fields(s[i+1:])
}

func genC13History(rng *Rng, n int) (int, []string) {
	le := rng.Pick([]int{1, 1, 2, 0})
	var ops []string
	nh, np, nreg := 0, 0, 0
	var openH []int
	var openP []int
	for len(ops) < n {
		switch rng.Intn(32) {
		case 0, 1, 2:
			ops = append(ops, rng.pickS([]string{"get", "get", "Dget", "nf"}))
		case 3, 4:
			ops = append(ops, "getbig")
		case 5, 6:
			ops = append(ops, rng.pickS([]string{"up", "updown"}))
		case 7:
			ops = append(ops, rng.pickS([]string{"oneway", "Doneway"}))
		case 8:
			ops = append(ops, rng.pickS([]string{"ping", "Dping"}))
		case 9:
			np++
			ops = append(ops, fmt.Sprintf("pinglost:%d", np))
			openP = append(openP, np)
		case 10:
			if len(openP) > 0 {
				i := rng.Intn(len(openP))
				ops = append(ops, fmt.Sprintf("pingcancel:%d", openP[i]))
				openP = append(openP[:i], openP[i+1:]...)
			}
		case 11, 12, 13:
			nh++
			if len(openH) > 0 && rng.Chance(20) {
				ops = append(ops, fmt.Sprintf("hack:%d:%d:%d", nh, rng.Intn(3), openH[rng.Intn(len(openH))]))
			} else {
				ops = append(ops, fmt.Sprintf("hack:%d:%d", nh, rng.Intn(2)))
			}
			openH = append(openH, nh)
		case 14, 15:
			nh++
			ops = append(ops, fmt.Sprintf("hdrop:%d", nh))
			openH = append(openH, nh)
		case 16, 17, 18:
			if len(openH) > 0 {
				i := rng.Intn(len(openH))
				ops = append(ops, fmt.Sprintf("cancel:%d", openH[i]))
				openH = append(openH[:i], openH[i+1:]...)
			}
		case 19:
			if len(openH) > 0 {
				ops = append(ops, fmt.Sprintf("rst:%d", openH[rng.Intn(len(openH))]))
			}
		case 20, 21:
			ops = append(ops, rng.pickS([]string{"obs:ok", "obs:ok", "Dobs:ok", "obs:no", "obs:nf"}))
			nreg++
		case 22, 23:
			if nreg > 0 {
				ops = append(ops, fmt.Sprintf("notify:%d:%d:%d", rng.Intn(nreg), 1+rng.Intn(3), rng.Intn(2)))
			}
		case 24:
			if nreg > 0 {
				ops = append(ops, fmt.Sprintf("obscancel:%d", rng.Intn(nreg)))
			}
		case 25:
			ops = append(ops, rng.pickS([]string{"bad", "dl", "dldrop"}))
		case 26:
			ops = append(ops, fmt.Sprintf("upab:%d", rng.Intn(4)))
		case 27:
			ops = append(ops, fmt.Sprintf("downab:%d", rng.Intn(4)))
		case 28, 29:
			ops = append(ops, rng.pickS([]string{"tick:100", "tick:100", "tick:300", "tickf:100", "tickf:300"}))
		case 30:
			np++
			ops = append(ops, rng.pickS([]string{"getfail", "getfail", fmt.Sprintf("pingfail:%d", np)}))
		case 31:
			ops = append(ops, rng.pickS([]string{"33*get", "36*oneway", "34*upab:1", "33*downab:1", "3*getbig", "35*nf"}))
		}
	}
	if rng.Chance(15) {
		ops = append(ops, "linkdown")
	}
	return le, ops
}

func (r *Rng) pickS(xs []string) string { return xs[r.Intn(len(xs))] }

// ---------------------------------------------------------------- the expiry cache on its own
//
// pkg/cache.Cache is the table behind the response cache and both block-wise caches.  One cache is
// filled with n entries -- x of them with a deadline before `now` (one exactly 1 ms before), z
// without deadline, the others at or after `now` (one exactly at `now`: now.After(deadline) is
// false) -- then ONE CheckExpirations(now) runs; the keys left and the onExpire calls are recorded.
// No real time is involved: the deadlines and `now` are fixed instants.

const c13SweepNow = 1000000 // ms after the base instant

func c13SweepDesc(n, x, z int, salt uint64) string {
	return fmt.Sprintf("sweep n=%d x=%d z=%d s=%d", n, x, z, salt)
}

func c13SweepParse(d string) (n, x, z int, salt uint64) {
	for _, f := range strings.Fields(d)[1:] {
		kv := strings.SplitN(f, "=", 2)
		if len(kv) != 2 {
			continue
		}
		v, _ := strconv.Atoi(kv[1])
		switch kv[0] {
		case "n":
			n = v
		case "x":
			x = v
		case "z":
			z = v
		case "s":
			salt = uint64(v)
		}
	}
	if n < 0 {
		n = 0
	}
	if n > 2000 {
		n = 2000
	}
	if x > n {
		x = n
	}
	if x < 0 {
		x = 0
	}
	if z > n-x {
		z = n - x
	}
	if z < 0 {
		z = 0
	}
	return
}

func runC13Sweep(desc string) (string, bool) {
	n, x, z, salt := c13SweepParse(desc)
	rng := NewRng(salt*2654435761 + uint64(n)*97 + uint64(x))
	base := time.Unix(1800000000, 0)
	// roles in a shuffled order of the keys 1..n
	perm := make([]int, n)
	for i := range perm {
		perm[i] = i + 1
	}
	for i := n - 1; i > 0; i-- {
		j := rng.Intn(i + 1)
		perm[i], perm[j] = perm[j], perm[i]
	}
	until := make(map[int]int64, n) // ms after base; -1 = no deadline
	for i, k := range perm {
		switch {
		case i == 0 && x > 0:
			until[k] = c13SweepNow - 1
		case i < x:
			until[k] = c13SweepNow - 1 - int64(rng.Intn(900000))
		case i < x+z:
			until[k] = -1
		case i == x+z:
			until[k] = c13SweepNow
		default:
			until[k] = c13SweepNow + int64(rng.Pick([]int{0, 1, 1000, 500000}))
		}
	}
	var mu sync.Mutex
	var fired []int
	bad := 0
	var left []int
	func() {
		defer func() {
			if r := recover(); r != nil {
				bad++
			}
		}()
		c := cache.NewCache[int, int]()
		for k := 1; k <= n; k++ {
			var t time.Time
			if until[k] >= 0 {
				t = base.Add(time.Duration(until[k]) * time.Millisecond)
			}
			c.Store(k, cache.NewElement(k, t, func(d int) {
				mu.Lock()
				fired = append(fired, d)
				mu.Unlock()
			}))
		}
		c.CheckExpirations(base.Add(c13SweepNow * time.Millisecond))
		c.Range(func(k int, _ *cache.Element[int]) bool {
			left = append(left, k)
			return true
		})
	}()
	sortInts(left)
	sortInts(fired)
	ents := make([]string, 0, n)
	for k := 1; k <= n; k++ {
		if until[k] < 0 {
			ents = append(ents, fmt.Sprintf("(%d, None)", k))
		} else {
			ents = append(ents, fmt.Sprintf("(%d, Some %d)", k, until[k]))
		}
	}
	zl := func(xs []int) string {
		parts := make([]string, len(xs))
		for i, v := range xs {
			parts[i] = strconv.Itoa(v)
		}
		return "[" + strings.Join(parts, "; ") + "]"
	}
	return fmt.Sprintf("Sweep %d [%s] %s %s %d", c13SweepNow, strings.Join(ents, "; "), zl(left), zl(fired), bad), bad == 0
}

func sortInts(xs []int) { sort.Ints(xs) }

func runC13(a runArgs) error {
	e := NewEmitter("C13", "Conn.Run")
	e.ShardSize = 40
	e.Rule = "A case is one history of exchange-level operations on a back-to-back pair of real udp/client.Conn (plain, block-wise up/down, observe + notifications + cancel, ping, one-way; ending by success, silence+cancel, deadline, reset, malformed block, duplicate token, queued in the limiter then cancelled -- also held between the select of acquireEndpoint and cancelEndpoint while a finishing request hands its slot over; Cancel of an observation whose deregistration exchange fails; duplicates per direction), all 11 table sizes of both connections read after every operation, after cancelling what still hangs, and after ageing + MAX_RETRANSMIT+1 far ticks. distinct = distinct descriptor; non-trivial = at least one operation that does not end by plain success (nest = a copy of a request contending for the per-ID lock counts). Sweep: one pkg/cache.Cache swept once; non-trivial = some but not all entries expired, or more than 32. Locks: a Lock/TryLock/Unlock script on one real MutexMap, entries + reference counts + goroutine states after every call; non-trivial = some call finds its key taken. MidRace: exchanges with message-ID continuations on one real connection, housekeeping ticks, one of them interrupted between Range's fetch and the callback with exchanges ending/starting there; non-trivial = contains an interrupted tick. KaTcp: keep-alive rounds on one real tcp/client.Conn with a scripted peer, token table length after every step; non-trivial = a ping is left unanswered while another message arrives and a further tick follows."
	rng := NewRng(a.seed)
	add := func(le int, ops []string, bucket string) {
		coq, ok, bad := runC13History(le, ops)
		nt := false
		hb := []string{bucket}
		for _, o := range ops {
			if i := strings.Index(o, "*"); i > 0 {
				o = o[i+1:]
				hb = append(hb, "op:burst")
			}
			n := strings.TrimPrefix(strings.Split(o, ":")[0], "D")
			hb = append(hb, "op:"+n)
			switch n {
			case "get", "getbig", "up", "updown", "ping", "oneway", "tick":
			default:
				nt = true
			}
		}
		if !ok {
			hb = append(hb, "harness-flag")
			if len(bad) > 0 && os.Getenv("HXDBG") != "" {
				fmt.Fprintln(os.Stderr, "flags:", bad)
			}
		}
		e.AddW(coq, c13Desc(le, ops), nt, 1+len(ops)/4, hb...)
	}
	addSweep := func(n, x, z int, salt uint64) {
		d := c13SweepDesc(n, x, z, salt)
		coq, _ := runC13Sweep(d)
		nn, xx, _, _ := c13SweepParse(d)
		hb := []string{"sweep"}
		switch {
		case xx > 32:
			hb = append(hb, "sweep:expired>32")
		case xx > 0:
			hb = append(hb, "sweep:expired<=32")
		default:
			hb = append(hb, "sweep:expired=0")
		}
		e.AddW(coq, d, xx > 0 && xx < nn || xx > 32, 1+nn/25, hb...)
	}
	addLocks := func(d string) {
		coq, _ := runC13Locks(d)
		_, cmds := c13LocksParse(d)
		nt, hb := false, []string{"locks"}
		holders := map[string]bool{}
		for _, c := range cmds {
			hb = append(hb, "locks:"+c[:1])
			// contended: a second Lock / TryLock on a key of the script (approximation for the histogram)
			if i := strings.Index(c, ":"); i > 0 && c[0] != 'U' {
				if holders[c[i+1:]] {
					nt = true
				}
				holders[c[i+1:]] = true
			}
		}
		e.AddW(coq, d, nt, 1+len(cmds)/8, hb...)
	}
	addRace := func(d string) {
		coq, _ := runC13MidRace(d)
		hb := []string{"midrace"}
		for _, c := range strings.Fields(d) {
			if strings.HasPrefix(c, "x:") {
				for _, m := range strings.Split(c[strings.LastIndex(c, ":")+1:], ",") {
					hb = append(hb, "midrace:in-tick:"+m[:1])
				}
			}
		}
		e.AddW(coq, d, strings.Contains(d, "x:"), 1, hb...)
	}
	addKa := func(d string) {
		coq, _ := runC13Ka(d)
		_, kops := c13KaParse(d)
		hb := []string{"katcp"}
		// non-trivial: some message other than the pong arrives while a ping is unanswered, and a tick follows
		nt, open, other := false, false, false
		for _, o := range kops {
			hb = append(hb, "katcp:"+strings.Split(o, ":")[0])
			switch {
			case o == "t":
				if open && other {
					nt = true
				}
				open, other = true, false
			case o == "m" || o == "q":
				other = open
			case o == "p":
				open = false
			}
		}
		e.AddW(coq, d, nt, 1, hb...)
	}
	if a.only != "" {
		if strings.HasPrefix(a.only, "katcp ") {
			addKa(a.only)
			return e.Flush(a.out)
		}
		if strings.HasPrefix(a.only, "locks ") {
			addLocks(a.only)
			return e.Flush(a.out)
		}
		if strings.HasPrefix(a.only, "midrace|") {
			addRace(a.only)
			return e.Flush(a.out)
		}
		if strings.HasPrefix(a.only, "sweep ") {
			n, x, z, salt := c13SweepParse(a.only)
			addSweep(n, x, z, salt)
			return e.Flush(a.out)
		}
		le, ops := c13Parse(a.only)
		add(le, ops, "replay")
		return e.Flush(a.out)
	}
	// fixed scenarios: one per flow / outcome
	fixed := [][]string{
		{"get"}, {"Dget"}, {"getbig"}, {"up"}, {"updown"}, {"nf"}, {"oneway"}, {"Doneway"}, {"ping"}, {"Dping"},
		{"pinglost:1"}, {"pinglost:1", "pingcancel:1"}, {"pinglost:1", "tick:300", "tick:300", "tick:300"},
		{"hack:1:0", "cancel:1"}, {"hack:1:0"}, {"hdrop:1", "cancel:1"}, {"hdrop:1", "rst:1", "cancel:1"},
		{"hdrop:1", "tick:300", "tick:300", "tick:300", "cancel:1"},
		{"hack:1:0", "hack:2:0", "cancel:2", "cancel:1"}, {"hack:1:0", "hack:2:0", "cancel:1", "cancel:2"},
		{"hack:1:0", "hack:2:1:1", "cancel:1"}, {"hack:1:0", "hack:2:0", "hack:3:0", "cancel:1"},
		{"obs:ok", "notify:0:3:1", "obscancel:0"}, {"obs:ok", "notify:0:2:0"}, {"obs:no"}, {"obs:nf"}, {"Dobs:ok", "Dnotify:0:2:1", "obscancel:0", "obscancel:0"},
		{"obs:ok", "obscancel:0", "notify:0:2:1"},
		{"bad"}, {"dl"}, {"dldrop"}, {"upab:0"}, {"upab:2"}, {"downab:0"}, {"downab:2"},
		{"get", "tick:100", "get", "tick:100", "tick:100", "get"},
		// transport faults: the retransmissions of the ticks are refused (write error), at once or after some left
		{"pinglost:1", "tickf:300", "tickf:300", "tickf:300"}, {"pinglost:1", "tick:300", "tickf:300", "tickf:300"},
		{"pinglost:1", "tickf:100", "tickf:100", "tickf:100", "tickf:100", "tickf:100"}, {"pinglost:1", "linkdown"},
		{"pinglost:1", "tickf:300", "pinglost:2", "tick:300", "tickf:300", "tickf:300"},
		{"hdrop:1", "tickf:300", "tickf:300", "tickf:300", "cancel:1"}, {"hdrop:1", "tickf:300", "linkdown"},
		{"getfail"}, {"pingfail:1"}, {"getfail", "get", "pingfail:1", "ping"},
		// more entries than one tick used to handle: cached replies, reassembly and send buffers
		{"40*get"}, {"34*upab:1"}, {"34*downab:1"}, {"20*get", "tick:300", "20*get", "tick:100", "35*Dget"},
		// a retransmitted copy reaches handleReq while the handler of the first copy is busy in a nested exchange
		{"nest"}, {"nest", "nest", "get"}, {"hack:1:0", "nest", "tick:100", "nest", "cancel:1"},
		// round 4: a Cancel whose deregistration exchange fails (peer silent + caller gives up / deadline / write refused)
		{"obs:ok", "obscancelfail:0"}, {"obs:ok", "obscancelfail:0:dl"}, {"obs:ok", "obscancelfail:0:w"}, {"obs:ok", "obscancelfail:0:pre"},
		{"obs:ok", "notify:0:2:1", "obscancelfail:0", "notify:0:2:0", "obscancel:0"}, {"obs:ok", "obs:ok", "obscancelfail:1:w", "obscancel:0", "obscancelfail:1"},
		{"obs:ok", "obscancelfail:0:dl", "obs:ok", "obscancelfail:1:pre", "get"},
		{"obs:ok", "obs:ok", "obs:ok", "obs:ok", "obscancelfail:0:pre", "obscancelfail:1:pre", "obscancelfail:2:pre", "obscancelfail:3:pre"},
		// round 4: a queued request is cancelled and delayed between the select of acquireEndpoint and cancelEndpoint;
		// the request holding the slot ends inside that window (its releaseEndpoint hands the slot to the delayed one)
		{"hack:1:0", "hack:2:0", "cpark:2", "cancel:1", "cresume:2"}, {"hack:1:0", "hack:2:0", "cpark:2", "cresume:2", "cancel:1"},
		{"hack:1:0", "hack:2:0", "cpark:2"}, {"hack:1:0", "hack:2:0", "hack:3:0", "cpark:2", "cancel:1", "cresume:2", "cancel:3"},
		{"hack:1:0", "hack:2:0", "hack:3:0", "cpark:3", "cancel:1", "cancel:2", "cresume:3"},
		{"hack:1:0", "hack:2:0", "hack:3:0", "cpark:2", "cpark:3", "cancel:1", "cresume:3", "cresume:2"},
		{"hack:1:0", "hack:2:0", "hack:3:0", "cpark:2", "cpark:3", "cancel:1", "cresume:2", "cresume:3"},
		{"hack:1:0", "hack:2:0", "cpark:2", "cancel:1", "get", "hack:3:0", "cresume:2", "cancel:3"},
		{"hack:1:0", "hack:2:0", "hack:3:1", "cpark:2", "cancel:1", "tick:100", "cresume:2", "hack:4:0"},
		// round 5: conditional registrations (ETag) answered 2.03 Valid, with and without the Observe option
		{"obs:vno"}, {"obs:vok", "notify:0:2:1", "obscancel:0"}, {"obs:vok"}, {"Dobs:vno"}, {"obs:vno", "obs:no", "obs:vno", "get"},
		{"obs:vok", "obs:vno", "obs:ok", "obscancel:0", "obscancelfail:2"}, {"obs:vno", "tick:100", "obs:vno", "obscancel:0"},
	}
	for _, le := range []int{1, 0} {
		for _, ops := range fixed {
			add(le, ops, "fixed")
		}
	}
	// the expiry cache on its own: around the sizes a bounded sweep would stop at, all / some / none expired
	for _, n := range []int{0, 1, 7, 31, 32, 33, 34, 40, 64, 65, 100, 200} {
		for i, x := range []int{n, n / 2, n - 1, 0, 33} {
			if x < 0 || x > n || (i > 0 && x == n) {
				continue
			}
			addSweep(n, x, rng.Intn(3), uint64(rng.Intn(1000)))
		}
	}
	ns := 12
	if a.tier == "thorough" {
		ns = 150
	}
	for i := 0; i < ns; i++ {
		n := rng.Pick([]int{5, 30, 33, 48, 70, 130, 300})
		addSweep(n, rng.Intn(n+1), rng.Intn(4), uint64(rng.Intn(100000)))
	}
	n := 40
	if a.tier == "thorough" {
		n = 600
	}
	for i := 0; i < n; i++ {
		le, ops := genC13History(rng.Fork(), 4+rng.Intn(14))
		// (genC13History is shared with C12: the contended duplicates are inserted here)
		if r2 := rng.Fork(); r2.Chance(30) {
			for j := 1 + r2.Intn(2); j > 0; j-- {
				at := r2.Intn(len(ops) + 1)
				ops = append(ops[:at], append([]string{"nest"}, ops[at:]...)...)
			}
		}
		if r3 := rng.Fork(); r3.Chance(45) {
			ops = c13Round4(r3, ops)
		}
		// round 5: some registrations are conditional and answered 2.03 Valid (with / without Observe)
		if r5 := rng.Fork(); r5.Chance(50) {
			for j, o := range ops {
				switch {
				case strings.HasSuffix(o, "obs:ok") && r5.Chance(40):
					ops[j] = strings.Replace(o, "obs:ok", "obs:vok", 1)
				case strings.HasSuffix(o, "obs:no") && r5.Chance(60):
					ops[j] = strings.Replace(o, "obs:no", "obs:vno", 1)
				}
			}
			if r5.Chance(40) {
				at := r5.Intn(len(ops) + 1)
				ops = append(ops[:at], append([]string{"obs:vno"}, ops[at:]...)...)
			}
		}
		add(le, ops, "random")
	}
	// the per-ID lock map on its own: Lock / TryLock / Unlock scripts of 2-4 goroutines
	for _, d := range []string{
		"locks n=2|T0:7 T1:7 U0", "locks n=2|T0:7 T1:7 L1:7 U0 U1", "locks n=2|T0:7 U0 T1:7 U1 L0:7 U0",
		"locks n=3|L0:7 L1:7 L2:7 U0", "locks n=3|T0:7 T1:7 T2:7 T1:8 L2:7 U0 T0:7 U1", "locks n=3|L0:1 T1:1 T2:1 L1:1 U0 T2:1 U1 T2:1",
		"locks n=4|T0:7 L1:7 T2:7 L3:7 T2:7 U0 T2:7", "locks n=2|L0:7 T1:7 T1:7 T1:7 U0 T1:7",
	} {
		addLocks(d)
	}
	nl := 25
	if a.tier == "thorough" {
		nl = 300
	}
	for i := 0; i < nl; i++ {
		addLocks(genC13Locks(rng.Fork()))
	}
	// message-ID continuations: exchanges ending / starting while a housekeeping tick holds an entry
	for _, d := range []string{
		"midrace|s:1:S t", "midrace|s:1:S x:0:a.1", "midrace|s:1:S x:0:c.1", "midrace|s:1:S x:0:r.1", "midrace|s:1:N x:0:a.1",
		"midrace|p:1 t t x:0:a.1", "midrace|p:1 t t x:0:c.1", "midrace|p:1 t t t", "midrace|s:1:L t t x:0:a.1", "midrace|s:1:L t t x:0:c.1",
		"midrace|s:1:S s:2:S s:3:S x:0:a.1,a.2,a.3", "midrace|s:1:S s:2:S s:3:S x:1:c.1,c.2,c.3", "midrace|s:1:S s:2:L x:1:c.1,c.2",
		"midrace|s:1:S s:2:L x:0:a.2", "midrace|s:1:S x:3:a.1", "midrace|s:1:S x:0:a.1,s.2.L.101", "midrace|s:1:S s:2:S x:0:c.1,c.2,s.3.N.101,s.4.L.102 t",
		"midrace|s:1:S s:2:L p:3 t x:0:a.1,a.2,a.3 t", "midrace|s:1:L s:2:L x:0:a.1 a:2 s:3:S:101 t",
	} {
		addRace(d)
	}
	nr := 30
	if a.tier == "thorough" {
		nr = 400
	}
	for i := 0; i < nr; i++ {
		addRace(strings.Replace(genC13MidRace(rng.Fork()), "midrace ", "midrace|", 1))
	}
	// round 5: keep-alive pings on a real tcp/client.Conn: unanswered pings, other messages in between, late pongs
	for _, d := range []string{
		"katcp mr=5|t p", "katcp mr=5|t t t p", "katcp mr=5|t m t p", "katcp mr=5|t m t m t p", "katcp mr=5|t q t q t q t p",
		"katcp mr=2|t m t m t m t m t p", "katcp mr=1|t t t", "katcp mr=1|t m t t t", "katcp mr=5|t m t po:1 p", "katcp mr=5|t po:1 m t po:7 p",
		"katcp mr=3|m t p t p m t m q t p", "katcp mr=2|t q m t t t t", "katcp mr=5|p m q t t m p t",
	} {
		addKa(d)
	}
	nk := 30
	if a.tier == "thorough" {
		nk = 300
	}
	for i := 0; i < nk; i++ {
		addKa(genC13Ka(rng.Fork()))
	}
	return e.Flush(a.out)
}
