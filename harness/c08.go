package main

// C08 -- observers only see a resource move forward in time.
//
// (i)  observation.ValidSequenceNumber on a dense grid (bit tables of 64 new values
//      around 0, 2^23, 2^24-1 and around old +- 2^23, for time differences around 128 s);
// (ii) histories (register / message from the peer / cancel) driven through the real
//      observation.Handler and Observation, either over a udp/client.Conn on an
//      in-memory session (datagrams injected with Conn.Process, written datagrams read
//      from the session) or by calling Handler.Handle directly with a fake client.
//      Cancel is driven with an answered deregistration (op C) and with a deregistration
//      exchange that fails (op X: context cancelled before / after the request is on the
//      wire or acknowledged, write error);
// (iii) wire-level histories with block-wise notifications: harness/c08bw.go.
//
// Time is "coarse virtual": before a message is injected the harness moves the
// lastEvent stamp of every observation it holds back by the virtual time that passed
// (verif hook VerifShiftLastEvent); the real time that passes in between only adds to a
// gap, a script never contains two messages whose virtual distance lies in
// [128 s - 250 ms, 128 s], and a run that took more than 200 ms of real time is repeated.

import (
	"bytes"
	"context"
	"encoding/hex"
	"errors"
	"fmt"
	"net"
	"reflect"
	"strconv"
	"strings"
	"sync"
	"time"
	"unsafe"

	"github.com/plgd-dev/go-coap/v3/message"
	"github.com/plgd-dev/go-coap/v3/message/codes"
	"github.com/plgd-dev/go-coap/v3/message/pool"
	coapNet "github.com/plgd-dev/go-coap/v3/net"
	"github.com/plgd-dev/go-coap/v3/net/blockwise"
	"github.com/plgd-dev/go-coap/v3/net/observation"
	"github.com/plgd-dev/go-coap/v3/net/responsewriter"
	"github.com/plgd-dev/go-coap/v3/options/config"
	pkgErrors "github.com/plgd-dev/go-coap/v3/pkg/errors"
	tcpclient "github.com/plgd-dev/go-coap/v3/tcp/client"
	tcpcoder "github.com/plgd-dev/go-coap/v3/tcp/coder"
	"github.com/plgd-dev/go-coap/v3/udp/client"
	"github.com/plgd-dev/go-coap/v3/udp/coder"
)

func init() { props["C08"] = runC08 }

const (
	c8T0      = int64(1800000000) * 1000000000 // virtual time of the start of a history (ns since the epoch)
	c8Timeout = 5 * time.Second                // watchdog for every wait on the implementation
)

// ---------- scripts ----------

type c8Op struct {
	kind   byte // 'R' register, 'M' message from the peer, 'C' cancel, 'X' cancel whose deregistration exchange fails
	tok    []byte
	piggy  bool   // R: first response is piggybacked on the ACK of the request (otherwise the request is ACKed at once)
	code   int    // M: code; C: code of the answer to the deregistration
	hasObs bool   // M: carries an Observe option
	obs    []byte // M: its value bytes
	con    bool   // M: confirmable
	dt     int64  // M: virtual milliseconds since the previous message
	tag    int    // M: payload tag
	id     int    // C, X: registration
	// W (message from the peer in a block-wise history, harness/c08bw.go):
	fref  int    // >= 0: the token is the one drawn for the fref-th block-wise transfer opened in this run; -1: tok
	etag  []byte // ETag option (nil = none)
	hasB2 bool   // Block2 option: szx, num, more
	szx   int
	num   int
	more  bool
	plen  int  // payload length (0 = none, otherwise >= 2: tag + filler)
	typ   byte // 'n' NON, 'c' CON, 'a' ACK of the last GET written under this token (NON when there is none)
	how   byte // X: 'c' context cancelled after the request was written, 'a' same after the request was ACKed (empty ACK),
	//               'e' context already cancelled when Cancel is called, 'w' the write of the request fails
}

type c8Script struct {
	wire bool
	bw   bool
	tcp  bool // wire over a tcp/client.Conn on a net.Pipe instead of the datagram connection
	bn   bool // block-wise history ("bhist", harness/c08bw.go): wire + bw, messages are W ops
	ops  []c8Op
}

func (s c8Script) String() string {
	if s.bn {
		return c8BString(s)
	}
	var sb strings.Builder
	m := "d"
	if s.wire {
		m = "w"
		if s.bw {
			m = "b"
		}
		if s.tcp {
			m = "t"
		}
	}
	sb.WriteString("hist " + m)
	for _, o := range s.ops {
		switch o.kind {
		case 'R':
			p := "s"
			if o.piggy {
				p = "p"
			}
			fmt.Fprintf(&sb, " R%s/%s", hex.EncodeToString(o.tok), p)
		case 'M':
			ob := "-"
			if o.hasObs {
				ob = "o" + hex.EncodeToString(o.obs)
			}
			t := "n"
			if o.con {
				t = "c"
			}
			fmt.Fprintf(&sb, " M%s/%d/%s/%s/%d/%d", hex.EncodeToString(o.tok), o.code, ob, t, o.dt, o.tag)
		case 'D':
			ob := "-"
			if o.hasObs {
				ob = "o" + hex.EncodeToString(o.obs)
			}
			fmt.Fprintf(&sb, " D%s/%d/%s/%d/%d/%d", hex.EncodeToString(o.tok), o.code, ob, o.num, o.dt, o.tag)
		case 'C':
			fmt.Fprintf(&sb, " C%d/%d", o.id, o.code)
		case 'X':
			fmt.Fprintf(&sb, " X%d/%c", o.id, o.how)
		}
	}
	return sb.String()
}

func parseC8Script(s string) (c8Script, error) {
	f := strings.Fields(s)
	var sc c8Script
	if len(f) < 2 || f[0] != "hist" {
		return sc, fmt.Errorf("not a history descriptor: %q", s)
	}
	sc.wire = f[1] != "d"
	sc.bw = f[1] == "b"
	sc.tcp = f[1] == "t"
	for _, w := range f[2:] {
		p := strings.Split(w[1:], "/")
		atoi := func(x string) int { v, _ := strconv.Atoi(x); return v }
		switch w[0] {
		case 'R':
			tok, _ := hex.DecodeString(p[0])
			sc.ops = append(sc.ops, c8Op{kind: 'R', tok: tok, piggy: len(p) > 1 && p[1] == "p"})
		case 'M':
			if len(p) != 6 {
				return sc, fmt.Errorf("bad message op %q", w)
			}
			tok, _ := hex.DecodeString(p[0])
			o := c8Op{kind: 'M', tok: tok, code: atoi(p[1]), con: p[3] == "c", dt: int64(atoi(p[4])), tag: atoi(p[5])}
			if strings.HasPrefix(p[2], "o") {
				o.hasObs = true
				o.obs, _ = hex.DecodeString(p[2][1:])
			}
			sc.ops = append(sc.ops, o)
		case 'D':
			// harness/c08conc.go: p[3] identical copies of one message handled concurrently
			if len(p) != 6 {
				return sc, fmt.Errorf("bad concurrent-copies op %q", w)
			}
			tok, _ := hex.DecodeString(p[0])
			o := c8Op{kind: 'D', tok: tok, code: atoi(p[1]), num: atoi(p[3]), dt: int64(atoi(p[4])), tag: atoi(p[5])}
			if strings.HasPrefix(p[2], "o") {
				o.hasObs = true
				o.obs, _ = hex.DecodeString(p[2][1:])
			}
			if o.num < 1 || o.num > 16 {
				return sc, fmt.Errorf("bad number of copies in %q", w)
			}
			sc.ops = append(sc.ops, o)
		case 'C':
			sc.ops = append(sc.ops, c8Op{kind: 'C', id: atoi(p[0]), code: atoi(p[1])})
		case 'X':
			if len(p) != 2 || len(p[1]) != 1 {
				return sc, fmt.Errorf("bad failing-cancel op %q", w)
			}
			sc.ops = append(sc.ops, c8Op{kind: 'X', id: atoi(p[0]), how: p[1][0]})
		default:
			return sc, fmt.Errorf("bad op %q", w)
		}
	}
	return sc, nil
}

// gapsOK: no two messages of the script are between 128 s - 250 ms and 128 s apart
// (virtual time), so the real time that passes during a run cannot change a decision.
func (s c8Script) gapsOK() bool {
	var ts []int64
	t := int64(0)
	for _, o := range s.ops {
		if o.kind == 'M' || o.kind == 'W' || o.kind == 'D' {
			t += o.dt
			ts = append(ts, t)
		}
	}
	for i := range ts {
		for j := i + 1; j < len(ts); j++ {
			g := ts[j] - ts[i]
			if g >= 128000-250 && g <= 128000 {
				return false
			}
		}
	}
	return true
}

// ---------- in-memory session ----------

type c8Session struct {
	ctx    context.Context
	cancel context.CancelFunc
	out    chan []byte
	mu     sync.Mutex
	onCl   []func()
	fail   bool // WriteMessage reports an error (nothing is written)
}

func newC8Session() *c8Session {
	ctx, cancel := context.WithCancel(context.Background())
	return &c8Session{ctx: ctx, cancel: cancel, out: make(chan []byte, 4096)}
}
func (s *c8Session) Context() context.Context { return s.ctx }
func (s *c8Session) Close() error {
	s.cancel()
	s.mu.Lock()
	fs := s.onCl
	s.onCl = nil
	s.mu.Unlock()
	for _, f := range fs {
		f()
	}
	return nil
}
func (s *c8Session) MaxMessageSize() uint32 { return 64 * 1024 }
func (s *c8Session) RemoteAddr() net.Addr {
	return &net.UDPAddr{IP: net.IPv4(127, 0, 0, 1), Port: 5683}
}
func (s *c8Session) LocalAddr() net.Addr {
	return &net.UDPAddr{IP: net.IPv4(127, 0, 0, 1), Port: 40000}
}
func (s *c8Session) NetConn() net.Conn { return nil }
func (s *c8Session) setFail(v bool) {
	s.mu.Lock()
	s.fail = v
	s.mu.Unlock()
}
func (s *c8Session) WriteMessage(req *pool.Message) error {
	s.mu.Lock()
	fail := s.fail
	s.mu.Unlock()
	if fail {
		return errors.New("network is unreachable")
	}
	data, err := req.MarshalWithEncoder(coder.DefaultCoder)
	if err != nil {
		return err
	}
	s.out <- append([]byte(nil), data...)
	return nil
}
func (s *c8Session) WriteMulticastMessage(*pool.Message, *net.UDPAddr, ...coapNet.MulticastOption) error {
	return errors.New("no multicast")
}
func (s *c8Session) Run(*client.Conn) error { <-s.ctx.Done(); return nil }
func (s *c8Session) AddOnClose(f client.EventFunc) {
	s.mu.Lock()
	s.onCl = append(s.onCl, f)
	s.mu.Unlock()
}
func (s *c8Session) SetContextValue(key interface{}, val interface{}) {
	s.ctx = context.WithValue(s.ctx, key, val)
}
func (s *c8Session) Done() <-chan struct{} { return s.ctx.Done() }

// ---------- fake client for the direct mode ----------

type c8Fake struct {
	ctx   context.Context
	wrote chan struct{}
	pl    *pool.Pool
}

func (f *c8Fake) Context() context.Context { return f.ctx }
func (f *c8Fake) WriteMessage(*pool.Message) error {
	f.wrote <- struct{}{}
	return nil
}
func (f *c8Fake) ReleaseMessage(m *pool.Message)                   { f.pl.ReleaseMessage(m) }
func (f *c8Fake) AcquireMessage(ctx context.Context) *pool.Message { return f.pl.AcquireMessage(ctx) }

// ---------- running one script ----------

type c8Obs interface {
	Cancel(ctx context.Context, opts ...message.Option) error
	Canceled() bool
	VerifShiftLastEvent(d time.Duration)
}

type c8RegRes struct {
	obs   c8Obs
	err   error
	panic bool
}

type c8Reg struct {
	tok     []byte
	done    chan c8RegRes
	cancel  context.CancelFunc
	ret     bool
	obs     c8Obs
	ackMid  int32 // >= 0: request not ACKed yet (piggy)
	waitAck bool
}

type c8Run struct {
	sc        c8Script
	mu        sync.Mutex
	log       []string
	processed chan struct{}
	regs      []*c8Reg
	tokq      [][]byte
	nextMid   int32
	// wire
	out  chan []byte // what the connection wrote (datagrams / stream frames)
	sess *c8Session
	cc   *client.Conn
	hw   *observation.Handler[*client.Conn]
	// wire over TCP
	tcc  *tcpclient.Conn
	ht   *observation.Handler[*tcpclient.Conn]
	peer net.Conn
	// direct
	fake       *c8Fake
	hd         *observation.Handler[*c8Fake]
	cancelCode int
	doErr      error // direct mode: the deregistration exchange fails with this error
	doCalls    int
	bad        string // set when the implementation hung / panicked
	features   map[string]bool
	// block-wise histories
	errs    int              // calls of the connection's / block-wise layer's error callback
	fresh   [][]byte         // tokens drawn by the block-wise layer, in the order they showed on the wire
	lastGet map[string]int32 // token -> message ID of the last confirmable GET written under it
}

func c8Bytes(b []byte) string { return coqBytes(b) }

// tokStr: a token as Coq text; a token drawn by the block-wise layer (random) is replaced by its canonical name
func (r *c8Run) tokStr(t []byte) string {
	r.mu.Lock()
	defer r.mu.Unlock()
	for k, f := range r.fresh {
		if bytes.Equal(f, t) {
			return c8Bytes(c8Canon(k))
		}
	}
	return c8Bytes(t)
}

func (r *c8Run) addLog(s string) {
	r.mu.Lock()
	r.log = append(r.log, s)
	r.mu.Unlock()
}

func (r *c8Run) takeLog() []string {
	r.mu.Lock()
	l := r.log
	r.log = nil
	r.mu.Unlock()
	return l
}

func c8Tag(m *pool.Message) int {
	b, _ := m.ReadBody()
	if len(b) >= 2 {
		return int(b[0])<<8 | int(b[1])
	}
	return -1
}

func (r *c8Run) callback(id int) func(*pool.Message) {
	return func(m *pool.Message) {
		sq := "None"
		if v, err := m.Observe(); err == nil {
			sq = fmt.Sprintf("(Some %d)", v)
		}
		r.addLog(fmt.Sprintf("Cb %d %s %s %d", id, r.tokStr(m.Token()), sq, c8Tag(m)))
	}
}

func (r *c8Run) logNext(m *pool.Message) {
	r.addLog(fmt.Sprintf("Nx %s %d", r.tokStr(m.Token()), c8Tag(m)))
}

func (r *c8Run) setup() {
	r.processed = make(chan struct{}, 4096)
	r.nextMid = 20000
	r.features = map[string]bool{}
	if !r.sc.wire {
		r.fake = &c8Fake{ctx: context.Background(), wrote: make(chan struct{}, 64), pl: pool.New(0, 0)}
		r.hd = observation.NewHandler[*c8Fake](r.fake,
			func(_ *responsewriter.ResponseWriter[*c8Fake], m *pool.Message) { r.logNext(m) },
			func(req *pool.Message) (*pool.Message, error) {
				r.doCalls++
				if r.doErr != nil {
					return nil, r.doErr
				}
				resp := r.fake.pl.AcquireMessage(req.Context())
				resp.SetCode(codes.Code(r.cancelCode))
				resp.SetToken(req.Token())
				return resp, nil
			})
		return
	}
	if r.sc.tcp {
		r.setupTCP()
		return
	}
	r.sess = newC8Session()
	r.out = r.sess.out
	cfg := client.DefaultConfig
	cfg.Handler = func(_ *responsewriter.ResponseWriter[*client.Conn], m *pool.Message) { r.logNext(m) }
	cfg.GetToken = r.getToken
	cfg.Errors = func(error) {
		r.mu.Lock()
		r.errs++
		r.mu.Unlock()
	}
	cfg.LimitClientParallelRequests = 0
	cfg.LimitClientEndpointParallelRequests = 0
	cfg.TransmissionNStart = 1000
	cfg.MessagePool = pool.New(0, 0)
	cfg.ProcessReceivedMessage = func(req *pool.Message, cc *client.Conn, h config.HandlerFunc[*client.Conn]) {
		cc.ProcessReceivedMessageWithHandler(req, h)
		r.processed <- struct{}{}
	}
	var opts []client.Option
	if r.sc.bw {
		opts = append(opts, client.WithBlockWise(func(cc *client.Conn) *blockwise.BlockWise[*client.Conn] {
			return blockwise.New(cc, time.Hour, cfg.Errors, func(token message.Token) (*pool.Message, bool) {
				return cc.GetObservationRequest(token)
			})
		}))
	}
	r.cc = client.NewConnWithOpts(r.sess, &cfg, opts...)
	f := reflect.ValueOf(r.cc).Elem().FieldByName("observationHandler")
	r.hw = *(**observation.Handler[*client.Conn])(unsafe.Pointer(f.UnsafeAddr()))
}

func (r *c8Run) getToken() (message.Token, error) {
	r.mu.Lock()
	defer r.mu.Unlock()
	if len(r.tokq) == 0 {
		return nil, errors.New("no token queued")
	}
	t := r.tokq[0]
	r.tokq = r.tokq[1:]
	return message.Token(append([]byte(nil), t...)), nil
}

// setupTCP: a tcp/client.Conn over one end of a net.Pipe; a goroutine splits what the
// connection writes into frames. tcp/client ignores Config.ProcessReceivedMessage, so the
// private field is set directly to obtain the "message processed" witness.
func (r *c8Run) setupTCP() {
	c1, c2 := net.Pipe()
	r.peer = c2
	r.out = make(chan []byte, 4096)
	go func() {
		var buf []byte
		tmp := make([]byte, 4096)
		for {
			n, err := c2.Read(tmp)
			buf = append(buf, tmp[:n]...)
			for {
				var h tcpcoder.MessageHeader
				if _, e := tcpcoder.DefaultCoder.DecodeHeader(buf, &h); e != nil || uint32(len(buf)) < h.MessageLength {
					break
				}
				r.out <- append([]byte(nil), buf[:h.MessageLength]...)
				buf = buf[h.MessageLength:]
			}
			if err != nil {
				return
			}
		}
	}()
	cfg := tcpclient.DefaultConfig
	cfg.Handler = func(_ *responsewriter.ResponseWriter[*tcpclient.Conn], m *pool.Message) { r.logNext(m) }
	cfg.GetToken = r.getToken
	cfg.Errors = func(error) {}
	cfg.LimitClientParallelRequests = 0
	cfg.LimitClientEndpointParallelRequests = 0
	cfg.MessagePool = pool.New(0, 0)
	cfg.DisableTCPSignalMessageCSM = true
	cfg.DisablePeerTCPSignalMessageCSMs = true
	r.tcc = tcpclient.NewConnWithOpts(coapNet.NewConn(c1), &cfg)
	v := reflect.ValueOf(r.tcc).Elem()
	r.ht = *(**observation.Handler[*tcpclient.Conn])(unsafe.Pointer(v.FieldByName("observationHandler").UnsafeAddr()))
	pf := (*func(*pool.Message, *tcpclient.Conn, tcpclient.HandlerFunc))(unsafe.Pointer(v.FieldByName("processReceivedMessage").UnsafeAddr()))
	*pf = func(req *pool.Message, cc *tcpclient.Conn, h tcpclient.HandlerFunc) {
		cc.ProcessReceivedMessageWithHandler(req, h)
		r.processed <- struct{}{}
	}
	go func() { _ = r.tcc.Run() }()
}

func (r *c8Run) decode(d []byte) (*pool.Message, error) {
	req := pool.NewMessage(context.Background())
	var err error
	if r.sc.tcp {
		_, err = req.UnmarshalWithDecoder(tcpcoder.DefaultCoder, d)
	} else {
		_, err = req.UnmarshalWithDecoder(coder.DefaultCoder, d)
	}
	return req, err
}

// frame: the message as a datagram or as a stream frame (an empty ACK does not exist on a stream)
func (r *c8Run) frame(typ message.Type, mid int32, tok []byte, code int, hasObs bool, obs []byte, tag int, withTag bool) []byte {
	if !r.sc.tcp {
		return c8Datagram(typ, mid, tok, code, hasObs, obs, tag, withTag)
	}
	if code == 0 {
		return nil
	}
	m := message.Message{Code: codes.Code(code)}
	if len(tok) > 0 {
		m.Token = tok
	}
	if tag%3 == 0 && withTag {
		m.Options = append(m.Options, message.Option{ID: message.ETag, Value: []byte{byte(tag), byte(tag >> 8), 0x5a}[:1+tag%3+tag%2]})
	}
	if hasObs {
		m.Options = append(m.Options, message.Option{ID: message.Observe, Value: obs})
	}
	if withTag {
		m.Payload = []byte{byte(tag >> 8), byte(tag)}
	}
	buf := make([]byte, 256)
	n, err := tcpcoder.DefaultCoder.Encode(m, buf)
	if err != nil {
		panic(err)
	}
	return buf[:n]
}

func (r *c8Run) teardown() {
	for _, g := range r.regs {
		g.cancel()
	}
	for _, g := range r.regs {
		if !g.ret {
			select {
			case <-g.done:
			case <-time.After(c8Timeout):
				r.bad = "registration did not return after its context was cancelled"
			}
		}
	}
	if r.sess != nil {
		_ = r.sess.Close()
	}
	if r.tcc != nil {
		_ = r.tcc.Close()
		_ = r.peer.Close()
	}
}

// lookup: is the token's key in the table, and does that observation still wait for its first response
func (r *c8Run) lookup(tok []byte) (bool, bool) {
	k := message.Token(tok).Hash()
	if r.sc.tcp {
		o, ok := r.ht.GetObservation(k)
		return ok, ok && o.VerifWaiting()
	}
	if r.sc.wire {
		o, ok := r.hw.GetObservation(k)
		return ok, ok && o.VerifWaiting()
	}
	o, ok := r.hd.GetObservation(k)
	return ok, ok && o.VerifWaiting()
}

func (r *c8Run) waitProcessed() {
	select {
	case <-r.processed:
	case <-time.After(c8Timeout):
		r.bad = "injected datagram was not processed"
	}
}

func (r *c8Run) drain() {
	for {
		select {
		case <-r.out:
		default:
			return
		}
	}
}

func c8Datagram(typ message.Type, mid int32, tok []byte, code int, hasObs bool, obs []byte, tag int, withTag bool) []byte {
	m := message.Message{Type: typ, MessageID: mid, Code: codes.Code(code)}
	if len(tok) > 0 {
		m.Token = tok
	}
	if tag%3 == 0 && withTag && code != 0 {
		m.Options = append(m.Options, message.Option{ID: message.ETag, Value: []byte{byte(tag), byte(tag >> 8), 0x5a}[:1+tag%3+tag%2]})
	}
	if hasObs {
		m.Options = append(m.Options, message.Option{ID: message.Observe, Value: obs})
	}
	if withTag {
		m.Payload = []byte{byte(tag >> 8), byte(tag)}
	}
	buf := make([]byte, 256)
	n, err := coder.DefaultCoder.Encode(m, buf)
	if err != nil {
		panic(err)
	}
	return buf[:n]
}

func (r *c8Run) inject(data []byte) {
	if data == nil {
		return
	}
	if r.sc.tcp {
		_ = r.peer.SetWriteDeadline(time.Now().Add(c8Timeout))
		if _, err := r.peer.Write(data); err != nil {
			r.bad = "the connection does not read: " + err.Error()
			return
		}
		r.waitProcessed()
		return
	}
	if err := r.cc.Process(nil, data); err != nil {
		r.bad = "Process refused a datagram: " + err.Error()
		return
	}
	r.waitProcessed()
}

func c8RegClass(res c8RegRes) int {
	switch {
	case res.panic:
		return 98
	case res.err == nil && res.obs == nil:
		return 97
	case res.err == nil:
		if res.obs.Canceled() {
			return 1
		}
		return 0
	case errors.Is(res.err, pkgErrors.ErrKeyAlreadyExists):
		return 3
	case strings.Contains(res.err.Error(), "unexpected return code"):
		return 2
	case strings.Contains(res.err.Error(), "empty token"):
		return 5
	case errors.Is(res.err, context.Canceled):
		return 4
	}
	return 9
}

func (r *c8Run) finishReg(id int, res c8RegRes) string {
	g := r.regs[id]
	g.ret = true
	if res.err == nil && !res.panic {
		g.obs = res.obs
	}
	return fmt.Sprintf("RegRet %d %d", id, c8RegClass(res))
}

func (r *c8Run) doReg(op c8Op) []string {
	id := len(r.regs)
	ctx, cancel := context.WithCancel(context.Background())
	g := &c8Reg{tok: op.tok, done: make(chan c8RegRes, 1), cancel: cancel, ackMid: -1}
	r.regs = append(r.regs, g)
	cb := r.callback(id)
	if r.sc.wire {
		r.mu.Lock()
		r.tokq = append(r.tokq, op.tok)
		r.mu.Unlock()
		go func() {
			defer func() {
				if recover() != nil {
					g.done <- c8RegRes{panic: true}
				}
			}()
			var o interface{}
			var err error
			if r.sc.tcp {
				o, err = r.tcc.Observe(ctx, "/r"+strconv.Itoa(id), cb)
			} else {
				o, err = r.cc.Observe(ctx, "/r"+strconv.Itoa(id), cb)
			}
			var co c8Obs
			if err == nil {
				co, _ = o.(c8Obs)
			}
			g.done <- c8RegRes{obs: co, err: err}
		}()
		select {
		case d := <-r.out:
			req, err := r.decode(d)
			if err != nil {
				r.bad = "request does not decode"
				return nil
			}
			ob, err := req.Observe()
			if err != nil || ob != 0 || !bytes.Equal(req.Token(), op.tok) || req.Code() != codes.GET {
				r.bad = "registration request is not GET+Observe:0 with the given token"
			}
			if op.piggy && !r.sc.tcp {
				g.ackMid = req.MessageID()
				g.waitAck = true
			} else {
				r.inject(r.frame(message.Acknowledgement, req.MessageID(), nil, 0, false, nil, 0, false))
			}
			return nil
		case res := <-g.done:
			return []string{r.finishReg(id, res)}
		case <-time.After(c8Timeout):
			r.bad = "Observe neither wrote a request nor returned"
			return nil
		}
	}
	req := r.fake.pl.AcquireMessage(ctx)
	req.SetCode(codes.GET)
	req.SetToken(append([]byte(nil), op.tok...))
	req.SetObserve(0)
	_ = req.SetPath("/r" + strconv.Itoa(id))
	go func() {
		defer func() {
			if recover() != nil {
				g.done <- c8RegRes{panic: true}
			}
		}()
		o, err := r.hd.NewObservation(req, cb)
		var co c8Obs
		if err == nil {
			co = o
		}
		g.done <- c8RegRes{obs: co, err: err}
	}()
	select {
	case <-r.fake.wrote:
		return nil
	case res := <-g.done:
		return []string{r.finishReg(id, res)}
	case <-time.After(c8Timeout):
		r.bad = "NewObservation neither wrote a request nor returned"
		return nil
	}
}

// directMsg builds the message of op for the direct mode (Handler.Handle called by the harness).
func (r *c8Run) directMsg(op c8Op) *pool.Message {
	m := r.fake.pl.AcquireMessage(context.Background())
	m.SetCode(codes.Code(op.code))
	m.SetToken(append([]byte(nil), op.tok...))
	if op.tag%3 == 0 {
		m.SetOptionBytes(message.ETag, []byte{byte(op.tag), 0x5a})
	}
	if op.hasObs {
		m.SetOptionBytes(message.Observe, op.obs)
	}
	m.SetBody(bytes.NewReader([]byte{byte(op.tag >> 8), byte(op.tag)}))
	return m
}

func (r *c8Run) doMsg(op c8Op) []string {
	for _, g := range r.regs {
		if g.obs != nil && op.dt != 0 {
			g.obs.VerifShiftLastEvent(-time.Duration(op.dt) * time.Millisecond)
		}
	}
	present, waiting := r.lookup(op.tok)
	if r.sc.wire {
		typ := message.NonConfirmable
		if op.con {
			typ = message.Confirmable
		}
		r.nextMid++
		mid := r.nextMid
		h := message.Token(op.tok).Hash()
		for _, g := range r.regs {
			if !g.waitAck || message.Token(g.tok).Hash() != h {
				continue
			}
			g.waitAck = false
			if bytes.Equal(g.tok, op.tok) && typ != message.Acknowledgement {
				typ, mid = message.Acknowledgement, g.ackMid
			} else {
				r.inject(r.frame(message.Acknowledgement, g.ackMid, nil, 0, false, nil, 0, false))
			}
		}
		r.inject(r.frame(typ, mid, op.tok, op.code, op.hasObs, op.obs, op.tag, true))
		r.drain()
	} else {
		m := r.directMsg(op)
		func() {
			defer func() {
				if recover() != nil {
					r.bad = "Handle panicked"
				}
			}()
			r.hd.Handle(nil, m)
		}()
	}
	outs := r.takeLog()
	if present && waiting {
		// the observation found under this key was waiting for its first response: its Observe() returns now
		var cases []reflect.SelectCase
		var ids []int
		for id, g := range r.regs {
			if !g.ret {
				cases = append(cases, reflect.SelectCase{Dir: reflect.SelectRecv, Chan: reflect.ValueOf(g.done)})
				ids = append(ids, id)
			}
		}
		cases = append(cases, reflect.SelectCase{Dir: reflect.SelectRecv, Chan: reflect.ValueOf(time.After(c8Timeout))})
		i, v, _ := reflect.Select(cases)
		if i == len(ids) {
			r.bad = "first response processed but no Observe() returned"
		} else {
			outs = append(outs, r.finishReg(ids[i], v.Interface().(c8RegRes)))
		}
	}
	return outs
}

func (r *c8Run) doCancel(op c8Op) ([]string, bool) {
	if op.id < 0 || op.id >= len(r.regs) || r.regs[op.id].obs == nil {
		return nil, false
	}
	g := r.regs[op.id]
	ctx, cancel := context.WithTimeout(context.Background(), 2*c8Timeout)
	defer cancel()
	cls := 0
	if !r.sc.wire {
		r.cancelCode = op.code
		before := r.doCalls
		err := g.obs.Cancel(ctx)
		switch {
		case err != nil:
			cls = 2
		case r.doCalls > before:
			cls = 1
		}
		return []string{fmt.Sprintf("CanRet %d %d", op.id, cls)}, true
	}
	cdone := make(chan error, 1)
	go func() {
		defer func() {
			if recover() != nil {
				cdone <- errors.New("panic")
			}
		}()
		cdone <- g.obs.Cancel(ctx)
	}()
	var err error
	select {
	case d := <-r.out:
		req, e := r.decode(d)
		if e != nil {
			r.bad = "deregistration does not decode"
			return nil, true
		}
		ob, e := req.Observe()
		if e != nil || ob != 1 || !bytes.Equal(req.Token(), g.tok) || req.Code() != codes.GET {
			r.bad = "deregistration is not GET+Observe:1 with the observation's token"
		}
		r.inject(r.frame(message.Acknowledgement, req.MessageID(), g.tok, op.code, false, nil, 999, true))
		select {
		case err = <-cdone:
		case <-time.After(c8Timeout):
			r.bad = "Cancel did not return after its answer"
			return nil, true
		}
		cls = 1
		if err != nil {
			cls = 2
		}
	case err = <-cdone:
		if err != nil {
			cls = 2
		}
	case <-time.After(c8Timeout):
		r.bad = "Cancel neither wrote a request nor returned"
		return nil, true
	}
	r.drain()
	extra := r.takeLog() // nothing is expected here; keep it visible if something was delivered
	return append(extra, fmt.Sprintf("CanRet %d %d", op.id, cls)), true
}

// c8CanClass: how Cancel returned. nil: 0 nothing was sent / 1 deregistered; error: 2 the answer had an
// unexpected code / 3 the exchange failed
func c8CanClass(err error, sent bool) int {
	switch {
	case err == nil && !sent:
		return 0
	case err == nil:
		return 1
	case strings.Contains(err.Error(), "unexpected return code"):
		return 2
	}
	return 3
}

// doCancelErr: Cancel whose deregistration request gets no answer: the exchange ends with an error
// (context cancelled while waiting for the ACK / for the response, context done beforehand, write error).
// Every step waits for a witness: the request on the wire, the return of Cancel.
func (r *c8Run) doCancelErr(op c8Op) ([]string, bool) {
	if op.id < 0 || op.id >= len(r.regs) || r.regs[op.id].obs == nil {
		return nil, false
	}
	g := r.regs[op.id]
	ctx, cancel := context.WithCancel(context.Background())
	defer cancel()
	if !r.sc.wire {
		switch op.how {
		case 'w':
			r.doErr = errors.New("cannot write request: network is unreachable")
		case 'e':
			r.doErr = context.Canceled
		default:
			r.doErr = context.DeadlineExceeded
		}
		before := r.doCalls
		err := g.obs.Cancel(ctx)
		r.doErr = nil
		return []string{fmt.Sprintf("CanRet %d %d", op.id, c8CanClass(err, r.doCalls > before))}, true
	}
	how := op.how
	if how == 'w' && r.sc.tcp {
		how = 'c' // a write on the pipe cannot be made to fail without closing the connection
	}
	switch how {
	case 'e':
		cancel()
	case 'w':
		r.sess.setFail(true)
		defer r.sess.setFail(false)
	}
	cdone := make(chan error, 1)
	go func() {
		defer func() {
			if recover() != nil {
				cdone <- errors.New("panic")
			}
		}()
		cdone <- g.obs.Cancel(ctx)
	}()
	sent := false
	var err error
	returned := false
	if how == 'c' || how == 'a' {
		select {
		case d := <-r.out:
			sent = true
			req, e := r.decode(d)
			if e != nil {
				r.bad = "deregistration does not decode"
				return nil, true
			}
			ob, e := req.Observe()
			if e != nil || ob != 1 || !bytes.Equal(req.Token(), g.tok) || req.Code() != codes.GET {
				r.bad = "deregistration is not GET+Observe:1 with the observation's token"
			}
			if how == 'a' && !r.sc.tcp {
				// the request is acknowledged (a separate response is promised) but no response follows
				r.inject(r.frame(message.Acknowledgement, req.MessageID(), nil, 0, false, nil, 0, false))
			}
			cancel()
		case err = <-cdone:
			returned = true
		case <-time.After(c8Timeout):
			r.bad = "Cancel neither wrote a request nor returned"
			return nil, true
		}
	}
	if !returned {
		select {
		case err = <-cdone:
		case <-time.After(c8Timeout):
			r.bad = "Cancel did not return although its exchange had failed"
			return nil, true
		}
	}
	if how == 'e' || how == 'w' {
		sent = err != nil // an error stands for a failed exchange; nil can only mean that nothing had to be done
	}
	r.drain()
	extra := r.takeLog()
	return append(extra, fmt.Sprintf("CanRet %d %d", op.id, c8CanClass(err, sent))), true
}

func c8ObsCoq(op c8Op) string {
	if !op.hasObs {
		return "None"
	}
	return "(Some " + c8Bytes(op.obs) + ")"
}

// runC8Script executes the script on the implementation; returns the Coq case text,
// histogram features, whether it is non-trivial, and the real time it took.
func runC8Script(sc c8Script) (string, []string, bool, time.Duration, string) {
	r := &c8Run{sc: sc}
	r.setup()
	start := time.Now()
	var evs, outs []string
	now := c8T0
	delivered, notDelivered := 0, 0
	for _, op := range sc.ops {
		var o []string
		switch op.kind {
		case 'R':
			o = r.doReg(op)
			evs = append(evs, "EReg "+c8Bytes(op.tok))
		case 'M':
			now += op.dt * 1000000
			o = r.doMsg(op)
			evs = append(evs, fmt.Sprintf("EMsg (M %s %d %s %d) %d", c8Bytes(op.tok), op.code, c8ObsCoq(op), op.tag, now))
			cb := false
			for _, x := range o {
				if strings.HasPrefix(x, "Cb ") {
					cb = true
				}
			}
			if cb {
				delivered++
			} else {
				notDelivered++
			}
		case 'D':
			// k identical copies handled at once: k events, the last one goes through the common tail below
			now += op.dt * 1000000
			os := r.doDup(op)
			for i, oi := range os {
				evs = append(evs, fmt.Sprintf("EMsg (M %s %d %s %d) %d", c8Bytes(op.tok), op.code, c8ObsCoq(op), op.tag, now))
				cb := false
				for _, x := range oi {
					if strings.HasPrefix(x, "Cb ") {
						cb = true
					}
				}
				if cb {
					delivered++
				} else {
					notDelivered++
				}
				if i < len(os)-1 {
					outs = append(outs, "["+strings.Join(oi, "; ")+"]")
				} else {
					o = oi
				}
			}
			r.features["concurrent-copies"] = true
		case 'C':
			var ok bool
			o, ok = r.doCancel(op)
			if !ok {
				continue
			}
			evs = append(evs, fmt.Sprintf("ECancel %d %d", op.id, op.code))
		case 'X':
			var ok bool
			o, ok = r.doCancelErr(op)
			if !ok {
				continue
			}
			evs = append(evs, fmt.Sprintf("ECancelErr %d", op.id))
		}
		if r.bad != "" {
			break
		}
		for _, x := range o {
			f := strings.Fields(x)
			switch f[0] {
			case "RegRet":
				r.features["reg"+f[2]] = true
			case "CanRet":
				r.features["cancel"+f[2]] = true
			case "Nx":
				r.features["to-next-handler"] = true
			}
		}
		outs = append(outs, "["+strings.Join(o, "; ")+"]")
	}
	elapsed := time.Since(start)
	var lm, pend []string
	for id, g := range r.regs {
		present := false
		if sc.tcp {
			if m, ok := r.tcc.GetObservationRequest(g.tok); ok {
				present = true
				r.tcc.ReleaseMessage(m)
			}
		} else if sc.wire {
			if m, ok := r.cc.GetObservationRequest(g.tok); ok {
				present = true
				r.cc.ReleaseMessage(m)
			}
		} else {
			_, present = r.hd.GetObservation(message.Token(g.tok).Hash())
		}
		lm = append(lm, coqBool(present))
		if !g.ret {
			pend = append(pend, strconv.Itoa(id)+"%nat")
		}
	}
	bad := r.bad
	r.teardown()
	if bad == "" {
		bad = r.bad
	}
	if bad != "" {
		// a hang / panic is an observable: the case cannot agree with the model
		outs = append(outs, "[Nx [] (-1)]")
	}
	if notDelivered > 0 {
		r.features["some-not-delivered"] = true
	}
	feats := []string{fmt.Sprintf("regs=%d", len(r.regs))}
	for k := range r.features {
		feats = append(feats, k)
	}
	mode := "direct"
	if sc.wire {
		mode = "wire"
		if sc.bw {
			mode = "wire+blockwise"
		}
		if sc.tcp {
			mode = "tcp"
		}
	}
	feats = append(feats, mode)
	text := fmt.Sprintf("Hist %s [%s] [%s] [%s] [%s]", coqBool(sc.wire), strings.Join(evs, "; "), strings.Join(outs, "; "), strings.Join(lm, "; "), strings.Join(pend, "; "))
	return text, feats, delivered > 0 && notDelivered > 0, elapsed, bad
}

// ---------- the predicate grid ----------

func c8Time(ns int64, zero bool) time.Time {
	if zero {
		return time.Time{}
	}
	return time.Unix(0, ns)
}

const c8ZeroNs = "(-62135596800000000000)"

func c8AddTab(e *Emitter, old uint32, new0 uint32, n int, last int64, zeroLast bool, now int64) {
	var bits uint64
	for i := 0; i < n; i++ {
		if observation.ValidSequenceNumber(old, new0+uint32(i), c8Time(last, zeroLast), c8Time(now, false)) {
			bits |= 1 << uint(i)
		}
	}
	ls := coqZ(last)
	zl := 0
	if zeroLast {
		ls = c8ZeroNs
		zl = 1
	}
	in24 := old < 1<<24 && uint64(new0)+uint64(n) <= 1<<24
	b := "tab-24bit"
	if !in24 {
		b = "tab-uint32"
	}
	e.AddW(fmt.Sprintf("Tab %d %d %d%%N %s %s %d", old, new0, n, ls, coqZ(now), bits),
		fmt.Sprintf("tab %d %d %d %d %d %d", old, new0, n, last, zl, now), in24, 2, b)
	e.Extra["predicate_points"] = toInt(e.Extra["predicate_points"]) + n
}

func c8Grid(e *Emitter, rng *Rng, thorough bool) {
	const H = uint32(1) << 23
	const W = uint32(1) << 24
	olds := []uint32{0, 1, 2, 5, H - 2, H - 1, H, H + 1, H + 2, W - 3, W - 2, W - 1, 1234567}
	sec := int64(1000000000)
	dts := []int64{0, 1, 127 * sec, 128*sec - 1, 128 * sec, 128*sec + 1, 129 * sec, -5 * sec}
	if thorough {
		for i := 0; i < 40; i++ {
			olds = append(olds, uint32(rng.U64())&(W-1))
		}
		dts = append(dts, 128*sec-1000000, 128*sec+1000000, 64*sec, 256*sec, 1<<62)
	}
	clip := func(v int64) uint32 {
		if v < 0 {
			return 0
		}
		if v > int64(W)-64 {
			return W - 64
		}
		return uint32(v)
	}
	base := c8T0
	for _, old := range olds {
		wins := []uint32{0, H - 32, W - 64, clip(int64(old) - 32), clip(int64(old) + int64(H) - 32), clip(int64(old) - int64(H) - 32)}
		seen := map[uint32]bool{}
		for _, w := range wins {
			if seen[w] {
				continue
			}
			seen[w] = true
			for _, dt := range dts {
				c8AddTab(e, old, w, 64, base, false, base+dt)
			}
			c8AddTab(e, old, w, 64, 0, true, base) // lastEvent = time.Time{} (nothing accepted yet)
		}
	}
	// the uint32 domain outside 24 bits (reachable only when Handle is called directly)
	for _, old := range []uint32{0, W - 1, W, W + 5, 1 << 31, 1<<32 - 1, 1<<32 - 1 - H, 1<<31 + H} {
		for _, w := range []uint32{W - 32, 1<<31 - 32, 1<<32 - 64, old + H - 32, old - H - 32, old - 32} {
			if uint64(w)+64 > 1<<32 {
				w = 1<<32 - 64 // a table never wraps around 2^32
			}
			for _, dt := range []int64{0, 128 * sec, 128*sec + 1} {
				c8AddTab(e, old, w, 64, base, false, base+dt)
			}
		}
	}
}

// ---------- script generators ----------

type c8B struct {
	ops []c8Op
	rng *Rng
	tag int
}

func (b *c8B) reg(tok []byte, piggy bool) int {
	b.ops = append(b.ops, c8Op{kind: 'R', tok: tok, piggy: piggy})
	n := 0
	for _, o := range b.ops {
		if o.kind == 'R' {
			n++
		}
	}
	return n - 1
}

func c8Enc(v uint32, pad int) []byte {
	var out []byte
	for v > 0 {
		out = append([]byte{byte(v)}, out...)
		v >>= 8
	}
	for len(out) < pad {
		out = append([]byte{0}, out...)
	}
	return out
}

func (b *c8B) raw(tok []byte, code int, hasObs bool, obs []byte, dt int64) {
	b.tag++
	b.ops = append(b.ops, c8Op{kind: 'M', tok: tok, code: code, hasObs: hasObs, obs: obs, con: b.rng.Chance(40), dt: dt, tag: b.tag})
}

func (b *c8B) note(tok []byte, seq uint32, dt int64) {
	pad := 0
	if b.rng.Chance(15) {
		pad = 3
	}
	b.raw(tok, 69, true, c8Enc(seq&(1<<24-1), pad), dt)
}

func (b *c8B) cancel(id int, code int) { b.ops = append(b.ops, c8Op{kind: 'C', id: id, code: code}) }

func (b *c8B) cancelErr(id int, how byte) { b.ops = append(b.ops, c8Op{kind: 'X', id: id, how: how}) }

var c8Dts = []int64{0, 0, 0, 1, 20, 500, 1000, 5000, 60000, 127000, 127700, 128300, 129000, 200000, 300000}

func (b *c8B) dt() int64 {
	if b.rng.Chance(55) {
		return 0
	}
	return c8Dts[b.rng.Intn(len(c8Dts))]
}

func c8Tok(rng *Rng, n int) []byte {
	t := make([]byte, n)
	for i := range t {
		t[i] = byte(rng.U64())
	}
	return t
}

// a stream of sequence numbers starting at s0: in order, then perturbed by swaps,
// duplicates, stale repeats and jumps around 2^23
func c8Stream(rng *Rng, s0 uint32, n int) []uint32 {
	const H = uint32(1) << 23
	const M = uint32(1)<<24 - 1
	var s []uint32
	for i := 0; i < n; i++ {
		s = append(s, (s0+uint32(i))&M)
	}
	for k := rng.Intn(4); k > 0; k-- {
		i, j := rng.Intn(n), rng.Intn(n)
		s[i], s[j] = s[j], s[i]
	}
	for k := rng.Intn(4); k > 0; k-- {
		i := rng.Intn(len(s))
		var v uint32
		switch rng.Intn(7) {
		case 0:
			v = s[i] // duplicate
		case 1:
			v = (s[i] - 1 - uint32(rng.Intn(3))) & M // stale
		case 2:
			v = (s[i] + H - 1) & M
		case 3:
			v = (s[i] + H) & M
		case 4:
			v = (s[i] + H + 1) & M
		case 5:
			v = (s[i] - H) & M
		default:
			v = uint32(rng.U64()) & M
		}
		s = append(s[:i+1], append([]uint32{v}, s[i+1:]...)...)
	}
	return s
}

var c8Starts = []uint32{0, 1, 5, 1<<23 - 3, 1<<23 - 1, 1 << 23, 1<<24 - 4, 1<<24 - 1, 77777}

func c8GenSingle(rng *Rng) []c8Op {
	b := &c8B{rng: rng}
	tok := c8Tok(rng, 1+rng.Intn(8))
	id := b.reg(tok, rng.Bool())
	s0 := c8Starts[rng.Intn(len(c8Starts))]
	if rng.Chance(20) {
		s0 = uint32(rng.U64()) & (1<<24 - 1)
	}
	st := c8Stream(rng, s0, 4+rng.Intn(9))
	cancelAt := -1
	if rng.Chance(35) {
		cancelAt = rng.Intn(len(st) + 1)
	}
	for i, v := range st {
		if i == cancelAt {
			if rng.Chance(25) {
				b.cancelErr(id, []byte{'c', 'a', 'e', 'w'}[rng.Intn(4)])
			} else {
				b.cancel(id, []int{69, 67, 132}[rng.Intn(3)])
			}
		}
		switch {
		case rng.Chance(4):
			b.raw(tok, 69, false, nil, b.dt()) // no Observe option
		case rng.Chance(3):
			b.raw(tok, 69, true, c8Enc(v|1<<24, 4), b.dt()) // 4-byte Observe value
		case rng.Chance(4):
			b.raw(c8Tok(rng, 1+rng.Intn(8)), 69, true, c8Enc(v, 0), b.dt()) // foreign token
		default:
			b.note(tok, v, b.dt())
		}
	}
	if cancelAt == len(st) {
		b.cancel(id, 69)
	}
	return b.ops
}

func c8GenMulti(rng *Rng) []c8Op {
	b := &c8B{rng: rng}
	k := 2 + rng.Intn(3)
	toks := make([][]byte, k)
	ids := make([]int, k)
	next := make([]uint32, k)
	pendingFirst := make([]bool, k)
	for i := range toks {
		toks[i] = c8Tok(rng, 1+rng.Intn(8))
		next[i] = c8Starts[rng.Intn(len(c8Starts))]
		ids[i] = -1
	}
	steps := 8 + rng.Intn(14)
	for s := 0; s < steps; s++ {
		i := rng.Intn(k)
		switch {
		case ids[i] < 0:
			ids[i] = b.reg(toks[i], rng.Bool())
			pendingFirst[i] = true
		case rng.Chance(8):
			if rng.Chance(25) {
				b.cancelErr(ids[i], []byte{'c', 'a', 'e', 'w'}[rng.Intn(4)])
			} else {
				b.cancel(ids[i], []int{69, 67, 160}[rng.Intn(3)])
			}
			if rng.Chance(50) {
				ids[i] = -1 // register the same token again later
			}
		case rng.Chance(6):
			b.raw(c8Tok(rng, 1+rng.Intn(8)), 69, true, c8Enc(next[i], 0), b.dt())
		default:
			const M = uint32(1)<<24 - 1
			v := next[i]
			switch rng.Intn(10) {
			case 0:
				v = (v - 1) & M // duplicate of the previous one
			case 1:
				v = (v - 2 - uint32(rng.Intn(3))) & M
			case 2:
				v = (v + 1<<23) & M
			default:
				next[i] = (v + 1) & M
			}
			code := 69
			if pendingFirst[i] && rng.Chance(15) {
				code = []int{67, 132, 160}[rng.Intn(3)]
			}
			pendingFirst[i] = false
			if code == 69 {
				b.note(toks[i], v, b.dt())
			} else {
				b.raw(toks[i], code, code == 67, c8Enc(v, 0), b.dt())
			}
		}
	}
	return b.ops
}

func c8GenRegOutcome(rng *Rng, code int, hasObs bool, piggy bool) []c8Op {
	b := &c8B{rng: rng}
	tok := c8Tok(rng, 1+rng.Intn(8))
	id := b.reg(tok, piggy)
	b.raw(tok, code, hasObs, c8Enc(10, 0), 0)
	b.note(tok, 11, 0)
	b.note(tok, 12, 1000)
	b.note(tok, 11, 0)
	b.cancel(id, 69)
	b.note(tok, 13, 0)
	return b.ops
}

func c8GenCancelAt(rng *Rng, pos int, code int, twice bool) []c8Op {
	b := &c8B{rng: rng}
	tok := c8Tok(rng, 1+rng.Intn(8))
	id := b.reg(tok, rng.Bool())
	for i := 0; i < 6; i++ {
		if i == pos {
			b.cancel(id, code)
			if twice {
				b.cancel(id, 69)
			}
		}
		b.note(tok, uint32(20+i), []int64{0, 1000, 129000}[i%3])
	}
	if pos == 6 {
		b.cancel(id, code)
	}
	b.note(tok, 40, 300000)
	return b.ops
}

// Cancel whose deregistration is never answered (the server did not get it and keeps notifying):
// Cancel returns an error, and nothing that arrives afterwards may reach the callback.
func c8GenCancelFail(rng *Rng, how byte, variant int) []c8Op {
	b := &c8B{rng: rng}
	tok := c8Tok(rng, 1+rng.Intn(8))
	switch variant {
	case 0: // in the middle of a stream; a second Cancel has nothing left to do
		id := b.reg(tok, rng.Bool())
		b.note(tok, 20, 0)
		b.note(tok, 21, 0)
		b.cancelErr(id, how)
		b.note(tok, 22, 0)
		b.note(tok, 23, 1000)
		b.cancel(id, 69)
		b.note(tok, 24, 0)
		b.note(tok, 25, 200000)
	case 1: // right after the registration completed; retried with the same failure
		id := b.reg(tok, rng.Bool())
		b.note(tok, 7, 0)
		b.cancelErr(id, how)
		b.note(tok, 8, 0)
		b.cancelErr(id, how)
		b.note(tok, 9, 0)
		b.raw(tok, 69, false, nil, 0) // without Observe option
	case 2: // two observations, one of them is cancelled that way
		t2 := c8Tok(rng, 1+rng.Intn(8))
		a := b.reg(tok, false)
		c := b.reg(t2, true)
		b.note(tok, 1, 0)
		b.note(t2, 1, 0)
		b.note(tok, 2, 0)
		b.cancelErr(a, how)
		b.note(tok, 3, 0)
		b.note(t2, 2, 0)
		b.note(tok, 4, 0)
		b.cancel(c, 69)
		b.note(t2, 3, 0)
		b.note(tok, 5, 0)
	default: // the token is registered again afterwards: only the new callback is served
		a := b.reg(tok, false)
		b.note(tok, 100, 0)
		b.cancelErr(a, how)
		b.note(tok, 101, 0)
		c := b.reg(tok, false)
		b.note(tok, 50, 0)
		b.note(tok, 51, 0)
		b.cancelErr(c, how)
		b.note(tok, 52, 0)
		b.cancel(a, 69)
	}
	return b.ops
}

func c8GenDupToken(rng *Rng, variant int) []c8Op {
	b := &c8B{rng: rng}
	tok := c8Tok(rng, 1+rng.Intn(8))
	switch variant {
	case 0: // second registration with a token in use: refused, and the first one stops receiving
		a := b.reg(tok, false)
		b.note(tok, 1, 0)
		b.note(tok, 2, 0)
		b.reg(tok, false)
		b.note(tok, 3, 0)
		b.cancel(a, 69)
	case 1: // the first one is still waiting for its answer
		b.reg(tok, false)
		b.reg(tok, false)
		b.note(tok, 1, 0)
		c := b.reg(tok, true)
		b.note(tok, 2, 0)
		b.note(tok, 3, 0)
		b.cancel(c, 69)
		b.note(tok, 4, 0)
	case 2: // cancel, register the token again: the new callback gets the notifications
		a := b.reg(tok, true)
		b.note(tok, 100, 0)
		b.note(tok, 101, 0)
		b.cancel(a, 69)
		b.note(tok, 102, 0)
		c := b.reg(tok, false)
		b.note(tok, 50, 0)
		b.note(tok, 51, 0)
		b.note(tok, 50, 1000)
		b.cancel(a, 69)
		b.cancel(c, 67)
		b.note(tok, 52, 0)
	case 3: // an old handle cancels after the token was registered again
		a := b.reg(tok, false)
		b.note(tok, 1, 0)
		b.reg(tok, false) // refused; removes a's entry
		c := b.reg(tok, false)
		b.note(tok, 9, 0)
		b.note(tok, 10, 0)
		b.cancel(a, 69) // removes c's entry
		b.note(tok, 11, 0)
		b.cancel(c, 69)
	case 5: // second registration with a token in use is refused; the first one stays registered and keeps receiving
		b.reg(tok, false)
		b.note(tok, 1, 0)
		b.reg(tok, false)
		b.note(tok, 2, 0)
		b.note(tok, 3, 0)
	case 6: // the same, the refused attempt comes while notifications are in flight and is repeated
		b.reg(tok, false)
		b.note(tok, 7, 0)
		b.note(tok, 8, 0)
		b.reg(tok, false)
		b.reg(tok, false)
		b.note(tok, 9, 0)
	default: // empty token
		b.reg(nil, false)
		b.raw(nil, 69, true, c8Enc(1, 0), 0)
		t2 := c8Tok(rng, 2)
		b.reg(t2, false)
		b.note(t2, 1, 0)
		b.raw(nil, 69, true, c8Enc(2, 0), 0)
	}
	return b.ops
}

// CRC-64 collision of two tokens (F18): 42 and 422ff4422ff442b2
func c8GenCollision(rng *Rng, variant int) []c8Op {
	b := &c8B{rng: rng}
	t1 := []byte{0x42}
	t2, _ := hex.DecodeString("422ff4422ff442b2")
	switch variant {
	case 0:
		b.reg(t1, false)
		b.note(t1, 5, 0)
		b.note(t2, 6, 0)
		b.note(t1, 7, 0)
	case 1:
		b.reg(t2, false)
		b.note(t1, 5, 0) // answer with the other token completes the registration
		b.note(t2, 6, 0)
	default:
		b.reg(t1, true)
		b.note(t2, 1, 0)
		b.note(t1, 2, 0)
		b.reg(t2, false)
	}
	return b.ops
}

func c8GenTiming(rng *Rng) []c8Op {
	b := &c8B{rng: rng}
	tok := c8Tok(rng, 1+rng.Intn(8))
	b.reg(tok, rng.Bool())
	v := c8Starts[rng.Intn(len(c8Starts))]
	const M = uint32(1)<<24 - 1
	b.note(tok, v, 0)
	for i := 0; i < 6; i++ {
		dt := []int64{127000, 127700, 128300, 129000, 200000, 1000, 0}[rng.Intn(7)]
		switch rng.Intn(4) {
		case 0:
			b.note(tok, v, dt) // duplicate
		case 1:
			b.note(tok, (v-1-uint32(rng.Intn(5)))&M, dt) // stale
		case 2:
			b.note(tok, (v+1<<23)&M, dt) // exactly half-way
		default:
			v = (v + 1) & M
			b.note(tok, v, dt)
		}
	}
	return b.ops
}

// direct mode only: Observe values of 4 and more bytes reach wantBeNotified as uint32
func c8GenUint32(rng *Rng) []c8Op {
	b := &c8B{rng: rng}
	tok := c8Tok(rng, 1+rng.Intn(8))
	b.reg(tok, false)
	v := []uint32{1<<24 - 2, 1 << 24, 1<<31 - 2, 1<<32 - 3}[rng.Intn(4)]
	for i := 0; i < 8; i++ {
		x := v + uint32(i)
		switch rng.Intn(6) {
		case 0:
			x = v + uint32(i) + 1<<23
		case 1:
			x = v + uint32(i) - 1<<23 - 1
		case 2:
			x = v
		}
		obs := c8Enc(x, 0)
		if rng.Chance(20) {
			obs = append(c8Enc(x, 4), byte(rng.U64())) // 5 bytes: the first four count
		}
		b.raw(tok, 69, true, obs, []int64{0, 0, 1000, 129000}[rng.Intn(4)])
	}
	return b.ops
}

// the scenario of DESIGN.md section 5 (scratch validation)
func c8GenScratch() []c8Op {
	b := &c8B{rng: NewRng(5)}
	tok := []byte{0xa1, 0xb2, 0xc3, 0xd4}
	id := b.reg(tok, true)
	for _, v := range []uint32{5, 6, 7, 6, 4, 7 + 1<<23 - 1, 3, 3 + 1<<23} {
		b.note(tok, v, 0)
	}
	b.raw([]byte{9, 9}, 69, true, c8Enc(8, 0), 0)
	b.cancel(id, 69)
	b.note(tok, 4, 0)
	return b.ops
}

func runC08(a runArgs) error {
	e := NewEmitter("C08", "Observe.Run")
	e.ShardSize = 120
	e.Preamble = "From GoCoap Require Import Observe.Model Observe.BwModel."
	e.Rule = "Tab = 64 values of ValidSequenceNumber(old, new0..new0+63, last, now) as a bit table (distinct = distinct table; non-trivial = inside the 24-bit domain of RFC 7641). Hist = one history of register/message/cancel events run on the real Handler/Observation (distinct = distinct script; non-trivial = at least one message reached a callback and at least one did not). BHist = one wire-level history on a connection with block-wise transfer, notifications may be block-wise (distinct = distinct script; non-trivial = a block-wise transfer was opened, at least one message reached a callback and at least one did not)."
	rng := NewRng(a.seed)
	thorough := a.tier == "thorough"
	discarded := 0
	badRetries := 0
	addScript := func(sc c8Script, fam string) {
		if !sc.gapsOK() {
			// move the clock of every message a little instead of dropping the script
			for i := range sc.ops {
				if (sc.ops[i].kind == 'M' || sc.ops[i].kind == 'W' || sc.ops[i].kind == 'D') && sc.ops[i].dt > 0 {
					sc.ops[i].dt += 7
				}
			}
			if !sc.gapsOK() {
				discarded++
				return
			}
		}
		for try := 0; try < 6; try++ {
			run := runC8Script
			if sc.bn {
				run = runC8BScript
			}
			text, feats, nontriv, el, bad := run(sc)
			if el > 200*time.Millisecond && bad == "" && try < 5 {
				continue
			}
			if bad != "" && try < 2 && badRetries < 20 {
				// a watchdog fired: on a loaded machine that can be slowness; a real hang shows again
				badRetries++
				continue
			}
			if el > 200*time.Millisecond && bad == "" {
				discarded++
				return
			}
			if bad != "" {
				feats = append(feats, "hang-or-panic")
			}
			e.AddW(text, sc.String(), nontriv, 1+len(sc.ops)/12, append(feats, fam)...)
			return
		}
	}
	if a.only != "" {
		f := strings.Fields(a.only)
		switch f[0] {
		case "tab":
			p := make([]int64, 6)
			for i := range p {
				p[i], _ = strconv.ParseInt(f[i+1], 10, 64)
			}
			// refine a table to its single points
			for i := int64(0); i < p[2]; i++ {
				c8AddTab(e, uint32(p[0]), uint32(p[1]+i), 1, p[3], p[4] == 1, p[5])
			}
		case "hist":
			sc, err := parseC8Script(a.only)
			if err != nil {
				return err
			}
			addScript(sc, "replay")
		case "bhist":
			sc, err := parseC8BScript(a.only)
			if err != nil {
				return err
			}
			addScript(sc, "replay")
		}
		return e.Flush(a.out)
	}

	c8Grid(e, rng, thorough)

	modes := []c8Script{{wire: true}, {wire: true, bw: true}, {wire: false}, {wire: true, tcp: true}}
	all := func(ops []c8Op, fam string) {
		for _, m := range modes {
			addScript(c8Script{wire: m.wire, bw: m.bw, tcp: m.tcp, ops: ops}, fam)
		}
	}
	pick := func(ops []c8Op, fam string, i int) {
		m := modes[i%4]
		addScript(c8Script{wire: m.wire, bw: m.bw, tcp: m.tcp, ops: ops}, fam)
	}
	all(c8GenScratch(), "scratch-scenario")
	for _, code := range []int{69, 67, 132, 160, 65, 68, 95, 128, 64} {
		for _, ho := range []bool{true, false} {
			for _, pg := range []bool{true, false} {
				all(c8GenRegOutcome(rng.Fork(), code, ho, pg), "register-outcome")
			}
		}
	}
	for pos := 0; pos <= 6; pos++ {
		for _, code := range []int{69, 67, 132} {
			all(c8GenCancelAt(rng.Fork(), pos, code, pos%2 == 1), "cancel-at-every-position")
		}
	}
	for v := 0; v < 7; v++ {
		all(c8GenDupToken(rng.Fork(), v), "same-token")
	}
	for _, how := range []byte{'c', 'a', 'e', 'w'} {
		for v := 0; v < 4; v++ {
			all(c8GenCancelFail(rng.Fork(), how, v), "cancel-exchange-fails")
		}
	}
	for v := 0; v < 3; v++ {
		all(c8GenCollision(rng.Fork(), v), "token-hash-collision")
	}
	nS, nM, nT, nU := 260, 160, 60, 40
	if thorough {
		nS, nM, nT, nU = 4000, 2500, 800, 400
	}
	for i := 0; i < nS; i++ {
		pick(c8GenSingle(rng.Fork()), "single-stream", i)
	}
	for i := 0; i < nM; i++ {
		pick(c8GenMulti(rng.Fork()), "several-observations", i)
	}
	for i := 0; i < nT; i++ {
		pick(c8GenTiming(rng.Fork()), "around-128s", i)
	}
	for i := 0; i < nU; i++ {
		addScript(c8Script{wire: false, ops: c8GenUint32(rng.Fork())}, "uint32-direct")
	}
	// block-wise notifications (harness/c08bw.go)
	for v := 0; v < 14; v++ {
		addScript(c8Script{wire: true, bw: true, bn: true, ops: c8GenBwFixed(rng.Fork(), v)}, "blockwise-notification-scenarios")
	}
	nB := 150
	if thorough {
		nB = 2500
	}
	for i := 0; i < nB; i++ {
		addScript(c8Script{wire: true, bw: true, bn: true, ops: c8GenBwRandom(rng.Fork())}, "blockwise-notifications")
	}
	// tokens that differ by zero bytes in front / behind, prefixes, suffixes, {} next to {00} (harness/c08tok.go);
	// added last so that the cases of the families above stay the same for a given seed
	for _, v := range []int{7, 0, 1, 2, 3, 4, 5, 6} {
		all(c8GenRelatedFixed(rng.Fork(), v), "related-tokens-scenarios")
	}
	nR := 60
	if thorough {
		nR = 1200
	}
	for i := 0; i < nR; i++ {
		pick(c8GenRelatedRandom(rng.Fork()), "related-tokens", i)
	}
	// identical copies of a notification handled by several goroutines at once (harness/c08conc.go); added last
	for v := 0; v < 6; v++ {
		addScript(c8Script{wire: false, ops: c8GenConcFixed(rng.Fork(), v)}, "concurrent-duplicates-scenarios")
	}
	nD := 24
	if thorough {
		nD = 300
	}
	for i := 0; i < nD; i++ {
		addScript(c8Script{wire: false, ops: c8GenConcRandom(rng.Fork())}, "concurrent-duplicates")
	}
	e.Extra["discarded_scripts"] = discarded
	e.Extra["watchdog_retries"] = badRetries
	return e.Flush(a.out)
}
