package main

// C15, family "own": ResetOptionsTo whose input is derived from the
// receiver's own Options() -- the list itself, a sub-slice, a filtered,
// re-ordered or repeating copy. The Value slices of the input then point into
// the receiver's value storage (pool.Message: the array behind valueBuffer),
// and with view 1 the input also shares the receiver's option array.
// What must come out is what the reference predicts from the options as they
// were BEFORE the call (Opt/ProofsAlias.v: C15_reset_own). Whether a copy of
// the loop can land on a source that is still to be read depends on the ORDER
// in which the values were stored, so the builder calls are issued in every
// order of the option numbers, not only ascending.

import (
	"github.com/plgd-dev/go-coap/v3/message"
)

// c15Own mirrors Opt/Model.v pick: the options at the positions sel of cur
// (positions outside the list are skipped). view 1 and sel a contiguous
// ascending run: the sub-slice cur[a:b] itself.
func c15Own(cur message.Options, sel []int, view int) message.Options {
	if view == 1 && len(sel) > 0 {
		run := sel[0] >= 0
		for i := 1; i < len(sel) && run; i++ {
			run = sel[i] == sel[i-1]+1
		}
		if run && sel[len(sel)-1] < len(cur) {
			return cur[sel[0] : sel[len(sel)-1]+1]
		}
	}
	in := make(message.Options, 0, len(sel))
	for _, i := range sel {
		if i >= 0 && i < len(cur) {
			in = append(in, cur[i])
		}
	}
	return in
}

func c15RandOwn(rng *Rng, mode int) c15Op {
	n := rng.Intn(7)
	sel := make([]int, n)
	switch rng.Intn(4) {
	case 0: // the first n options, as a sub-slice
		for i := range sel {
			sel[i] = i
		}
	case 1: // a run starting further in
		a := rng.Intn(3)
		for i := range sel {
			sel[i] = a + i
		}
	default:
		for i := range sel {
			sel[i] = rng.Intn(8)
		}
	}
	o := c15Op{K: "own", Sel: sel, Vw: rng.Intn(2)}
	if mode == 0 {
		o.B = []int{0, 1, 2, 4, 8, 64, 600}[rng.Intn(7)]
	}
	return o
}

func c15Seq(a, b int) []int {
	var s []int
	for i := a; i < b; i++ {
		s = append(s, i)
	}
	return s
}

func c15Perms(n int) [][]int {
	if n == 0 {
		return [][]int{{}}
	}
	var out [][]int
	for _, p := range c15Perms(n - 1) {
		for pos := 0; pos <= len(p); pos++ {
			q := append([]int{}, p[:pos]...)
			q = append(q, n-1)
			q = append(q, p[pos:]...)
			out = append(out, q)
		}
	}
	return out
}

func c15OwnFamily(e *Emitter, rng *Rng, thorough bool) {
	// the builder calls of a typical request, issued in every order
	calls := []c15Op{
		{K: "setu", ID: 6, U: 5},                         // SetObserve
		{K: "path", ID: 11, P: []c15Val{lv("/aaa/bbb")}}, // SetPath: two options
		{K: "setu", ID: 12, U: 50},                       // SetContentFormat
		{K: "addb", ID: 15, V: lv("q=1")},                // AddQuery
	}
	probes := []int{6, 11, 12, 15, 13}
	// selections of the five resulting options [6, 11, 11, 12, 15]
	type selT struct {
		sel []int
		vw  int
	}
	sels := []selT{
		{c15Seq(0, 5), 1},         // msg.ResetOptionsTo(msg.Options())
		{c15Seq(0, 5), 0},         // a copy of the Option structs
		{[]int{1, 2, 3, 4}, 0},    // filtered: Observe dropped
		{[]int{1, 2, 3, 4}, 1},    // Options()[1:]
		{[]int{0, 1, 2, 3}, 1},    // Options()[:4]
		{[]int{4, 3, 2, 1, 0}, 0}, // reversed
		{[]int{3, 0, 3, 4, 1}, 0}, // re-ordered with a repetition
		{[]int{0, 3}, 0},          // the two uint options only
	}
	perms := c15Perms(len(calls))
	n := 0
	for pi, p := range perms {
		for si, s := range sels {
			if !thorough && (pi+si)%2 == 1 && si >= 2 {
				continue // quick: every order with the two identities, half of the other pairs
			}
			ops := make([]c15Op, 0, 8)
			for _, i := range p {
				ops = append(ops, calls[i])
			}
			ops = append(ops, c15Op{K: "own", Sel: s.sel, Vw: s.vw})
			if n%3 == 0 {
				// the message stays usable: one more edit, then itself again
				ops = append(ops, c15Op{K: "add", ID: 11, V: lv("cc")}, c15Op{K: "own", Sel: c15Seq(0, 6), Vw: n / 3 % 2})
			}
			c15Emit(e, c15Case{Mode: 1, Cap: 16, Probes: probes, Ops: ops}, "own")
			n++
		}
	}
	// after the value buffer has grown (values in the first array and in the
	// reallocated one), in both storing orders, and with a selection whose total
	// exceeds what is left of the window (grow-and-retry inside ResetOptionsTo)
	for _, big := range []int{120, 200, 250, 256, 300} {
		for _, rev := range []bool{false, true} {
			pre := []c15Op{{K: "set", ID: 35, V: gv(1, big)}, {K: "add", ID: 15, V: gv(2, big)}, {K: "setb", ID: 3, V: lv("host")}}
			if rev {
				pre = []c15Op{{K: "setb", ID: 3, V: lv("host")}, {K: "add", ID: 15, V: gv(2, big)}, {K: "set", ID: 35, V: gv(1, big)}}
			}
			for _, s := range []selT{{c15Seq(0, 3), 1}, {[]int{2, 1}, 0}, {[]int{1, 1, 2, 1}, 0}, {[]int{1, 2}, 1}} {
				ops := append(append([]c15Op{}, pre...), c15Op{K: "own", Sel: s.sel, Vw: s.vw},
					c15Op{K: "setu", ID: 12, U: 50}, c15Op{K: "own", Sel: []int{2, 0, 1, 3, 7}, Vw: 0})
				c15Emit(e, c15Case{Mode: 1, Cap: 16, Probes: []int{3, 15, 35, 12}, Ops: ops}, "own")
			}
		}
	}
	// message.Options with a caller's buffer: the input shares only the option
	// array; buffer exact, one short (refused: list unchanged), generous
	for _, cp := range []int{0, 1, 16} {
		for _, b := range []int{7, 6, 0, 40} {
			for _, s := range []selT{{c15Seq(0, 4), 1}, {[]int{1, 2, 3}, 1}, {[]int{3, 1, 0, 2}, 0}} {
				c15Emit(e, c15Case{Mode: 0, Cap: cp, Probes: []int{1, 11, 15, 13}, Ops: []c15Op{
					{K: "add", ID: 15, V: lv("k=v")}, {K: "add", ID: 11, V: lv("a")}, {K: "add", ID: 1, V: lv("m")}, {K: "add", ID: 11, V: lv("bb")},
					{K: "own", Sel: s.sel, B: b, Vw: s.vw}, {K: "add", ID: 11, V: lv("c")}}}, "own")
			}
		}
	}
	// random builder histories with own-resets in between
	nRand := 40
	if thorough {
		nRand = 1500
	}
	for i := 0; i < nRand; i++ {
		r := rng.Fork()
		k := 3 + r.Intn(10)
		ops := make([]c15Op, 0, k+4)
		for j := 0; j < k; j++ {
			if j >= 2 && r.Chance(30) {
				ops = append(ops, c15RandOwn(r, 1))
				continue
			}
			o := c15RandOp(r, 1, 9000+i*13+j)
			if o.K == "rst" || o.K == "reset" {
				o = c15Op{K: "setu", ID: []int{6, 12, 17, 60}[r.Intn(4)], U: c15RandU32(r)}
			}
			ops = append(ops, o)
		}
		ops = append(ops, c15RandOwn(r, 1))
		c15Emit(e, c15Case{Mode: 1, Cap: 16, Probes: c15Probes(ops, r), Ops: ops}, "own")
	}
}
