package main

import (
	"fmt"
	"path/filepath"
	"sort"
	"strings"

	"github.com/plgd-dev/go-coap/v3/message"
	udpServer "github.com/plgd-dev/go-coap/v3/udp/server"
)

// genServerConsts prints the data the Server model (C10) reads: the option
// definition table the datagram decoder consults and the default maximal
// message size of the udp server.
func genServerConsts(out string) error {
	var sb strings.Builder
	sb.WriteString(genHeader)
	ids := make([]int, 0, len(message.CoapOptionDefs))
	for id := range message.CoapOptionDefs {
		ids = append(ids, int(id))
	}
	sort.Ints(ids)
	parts := make([]string, 0, len(ids))
	for _, id := range ids {
		d := message.CoapOptionDefs[message.OptionID(id)]
		parts = append(parts, fmt.Sprintf("(%d, (%s, %d, %d))", id, coqBool(d.ValueFormat == message.ValueUnknown), d.MinLen, d.MaxLen))
	}
	sb.WriteString("(* message.CoapOptionDefs: option number -> (ValueFormat = ValueUnknown, MinLen, MaxLen) *)\n")
	fmt.Fprintf(&sb, "Definition coap_option_defs : list (Z * (bool * Z * Z)) := [%s].\n", strings.Join(parts, "; "))
	fmt.Fprintf(&sb, "Definition max_token_size : Z := %d.\n", message.MaxTokenSize)
	fmt.Fprintf(&sb, "Definition extend_option_error : Z := %d.\n", message.ExtendOptionError)
	fmt.Fprintf(&sb, "Definition udp_server_default_max_message_size : Z := %d.\n", udpServer.DefaultConfig.MaxMessageSize)
	fmt.Fprintf(&sb, "Definition uri_path_id : Z := %d.\n", message.URIPath)
	return writeIfChanged(filepath.Join(out, "ServerConsts.v"), sb.String())
}
