package main

// C12, families G and K: accesses to a message that has been released (events `Use`, class 7).
//
// The verif hook in message/pool reports every call of an accessor of a pool.Message (pooltrack.go: Used); an
// access to a message that is in nobody's hands is an event of the trace. Two families steer the library into the
// situations in which WHEN a message is read matters:
//
// G ("give up"): a block-wise call (Do with a request of the application: upload POST/PUT larger than a block, or
// a GET/POST whose response comes in blocks) is given up by its caller exactly while the receive goroutine is at its
// n-th access to the caller's request (n = 1, 2, 3, ...: the accessor hook doubles as the scheduling point; the body
// of the request is wrapped so that Seek and Read count as accesses too). The script holds the receive goroutine
// there, cancels the call and waits for one of two witnesses: Do has returned, or the caller's goroutine is parked
// in sync.(*RWMutex).Lock (stack snapshot) - the deferred sendingMessagesCache.Delete waiting for the read lock the
// receive goroutine holds. If Do has returned the application releases the request (as Client.Post does by defer)
// BEFORE the receive goroutine goes on. No timing: every wait is for a witness.
//
// K ("ping"): the life of an AsyncPing on a udp/client.Conn: pong / reset of the peer, expiry sweeps
// (retransmissions, then expiry), the cancel function called early, late, twice, by the application or by
// inactivity.KeepAlive on its next tick, with other exchanges in between so that the pooled objects are recycled.
// Per step the lifecycle events of the goroutine that performed it are recorded (a window) and compared with the
// model (Pool/Model.v ping_step): whoever comes after the entry has gone does nothing.

import (
	"bytes"
	"context"
	"fmt"
	"io"
	"regexp"
	"runtime"
	"strconv"
	"strings"
	"sync"
	"time"

	"github.com/plgd-dev/go-coap/v3/message"
	"github.com/plgd-dev/go-coap/v3/message/codes"
	"github.com/plgd-dev/go-coap/v3/message/pool"
	"github.com/plgd-dev/go-coap/v3/net/monitor/inactivity"
	"github.com/plgd-dev/go-coap/v3/udp/client"
)

// ---------------------------------------------------------------- the gate

// useGate holds the n-th access to message m that does not come from goroutine owner until the script lets it go.
type useGate struct {
	m       *pool.Message
	owner   int64
	n       int
	mu      sync.Mutex
	count   int
	hit     bool
	where   string
	entered chan struct{}
	release chan struct{}
	expired bool
}

func (g *useGate) arrive() {
	gid := curGID()
	if gid == g.owner {
		return
	}
	g.mu.Lock()
	g.count++
	hit := g.count == g.n
	if hit {
		g.hit = true
		g.where = callerOutsideHarness()
	}
	g.mu.Unlock()
	if !hit {
		return
	}
	close(g.entered)
	select {
	case <-g.release:
	case <-time.After(c12eWait):
		g.mu.Lock()
		g.expired = true
		g.mu.Unlock()
	}
}

func (g *useGate) total() int {
	g.mu.Lock()
	defer g.mu.Unlock()
	return g.count
}

// callerOutsideHarness names the library function that made the access (for the histogram only).
func callerOutsideHarness() string {
	pcs := make([]uintptr, 24)
	n := runtime.Callers(2, pcs)
	fr := runtime.CallersFrames(pcs[:n])
	for {
		f, more := fr.Next()
		fn := f.Function
		if fn != "" && !strings.HasPrefix(fn, "main.") && !strings.Contains(fn, "message/pool.") && !strings.HasPrefix(fn, "io.") && !strings.HasPrefix(fn, "runtime.") {
			if i := strings.LastIndex(fn, "/"); i >= 0 {
				fn = fn[i+1:]
			}
			fn = typeArgs.ReplaceAllString(fn, "")
			return strings.TrimSuffix(fn, ".func1")
		}
		if !more {
			return "?"
		}
	}
}

// gatedBody is the payload of the application's request: Seek and Read are accesses to the message.
type gatedBody struct {
	r  *bytes.Reader
	tr *poolTracker
	m  *pool.Message
}

func (b *gatedBody) Read(p []byte) (int, error) {
	b.tr.Used(b.m)
	return b.r.Read(p)
}

func (b *gatedBody) Seek(off int64, whence int) (int64, error) {
	b.tr.Used(b.m)
	return b.r.Seek(off, whence)
}

var _ io.ReadSeeker = (*gatedBody)(nil)

var typeArgs = regexp.MustCompile(`\[[^\]]*\]`)

var goroutineHeader = regexp.MustCompile(`(?m)^goroutine (\d+) \[([^\]]*)\]:$`)

// parkedInRWMutexLock reports whether goroutine gid is blocked inside sync.(*RWMutex).Lock (a stack snapshot of all
// goroutines; the goroutine must be in a waiting state and have the frame).
func parkedInRWMutexLock(gid int64) bool {
	buf := make([]byte, 1<<20)
	buf = buf[:runtime.Stack(buf, true)]
	for _, blk := range strings.Split(string(buf), "\n\n") {
		m := goroutineHeader.FindStringSubmatch(blk)
		if m == nil {
			continue
		}
		if id, _ := strconv.ParseInt(m[1], 10, 64); id != gid {
			continue
		}
		state := m[2]
		waiting := strings.Contains(state, "RWMutex") || strings.Contains(state, "semacquire") || strings.Contains(state, "Mutex.Lock")
		return waiting && strings.Contains(blk, "sync.(*RWMutex).Lock")
	}
	return false
}

// parkedInFrame reports whether goroutine gid is not running and has a frame whose function name contains frame
// (a stack snapshot of all goroutines).
func parkedInFrame(gid int64, frame string) bool {
	buf := make([]byte, 1<<20)
	buf = buf[:runtime.Stack(buf, true)]
	for _, blk := range strings.Split(string(buf), "\n\n") {
		m := goroutineHeader.FindStringSubmatch(blk)
		if m == nil {
			continue
		}
		if id, _ := strconv.ParseInt(m[1], 10, 64); id != gid {
			continue
		}
		state := m[2]
		if strings.HasPrefix(state, "running") || strings.HasPrefix(state, "runnable") {
			return false
		}
		return strings.Contains(blk, frame)
	}
	return false
}

// ---------------------------------------------------------------- G

type c12gCall struct {
	*c12eCall
	req *pool.Message
	gid int64
	up  chan struct{} // closed when req and gid are set
}

// startG is c12eConn.start with the request kept, its body wrapped and the application goroutine known.
func (c *c12eConn) startG(code codes.Code, tok, bodyLen int) *c12gCall {
	c.finish()
	ctx, cancel := context.WithCancel(context.Background())
	c.nCalls++
	call := &c12eCall{serial: c.nCalls, cancel: cancel, ret: make(chan struct{}), goCh: make(chan struct{}), done: make(chan struct{}), tok: tok, mid: -1}
	g := &c12gCall{c12eCall: call, up: make(chan struct{})}
	c.call = call
	tr := c.tr
	go func() {
		defer close(call.done)
		req := c.cc.AcquireMessage(ctx)
		g.req, g.gid = req, curGID()
		close(g.up)
		req.SetCode(code)
		req.SetToken(c12eToken(tok))
		req.SetType(message.Confirmable)
		_ = req.SetPath("/e")
		if bodyLen > 0 {
			req.SetContentFormat(message.TextPlain)
			req.SetBody(&gatedBody{r: bytes.NewReader(genBody(tok, bodyLen)), tr: tr, m: req})
		}
		func() {
			defer func() {
				if r := recover(); r != nil {
					call.err = fmt.Errorf("panic: %v", r)
					tr.notePanic(r)
				}
				close(call.ret)
			}()
			call.resp, call.err = c.cc.Do(req)
		}()
		<-call.goCh
		if call.resp != nil {
			tr.Hold(call.resp)
			if call.resp.Body() != nil {
				_, _ = call.resp.ReadBody()
			}
			tr.Unhold(call.resp)
			tr.AppRel(call.resp)
			c.cc.ReleaseMessage(call.resp)
		}
		// Do has returned: the request is the application's alone. It releases it (Client.Post/Put do so by defer).
		tr.AppRel(req)
		c.cc.ReleaseMessage(req)
	}()
	<-g.up
	if !c.s.waitOut(1, c12eWait) {
		c.flag("request-not-written")
		return g
	}
	for _, w := range c.takeOut() {
		if !w.Bad && w.Typ == 0 {
			call.mid = w.MID
		}
	}
	return g
}

// descriptor: G#<capacity>|<n>|<script of family E>: the call of the script is started with startG; the LAST datagram
// of the script is the one during which the receive goroutine is held at its n-th access to the caller's request.
func c12GiveUp(e *c12Out, tr *poolTracker, desc, arg string) {
	f := strings.SplitN(arg, "|", 3)
	if len(f) != 3 {
		return
	}
	capacity, _ := strconv.Atoi(f[0])
	if capacity <= 0 {
		capacity = 256
	}
	n, _ := strconv.Atoi(f[1])
	acts := strings.Fields(f[2])
	last := -1
	for i, a := range acts {
		if st := parseC12eStep(a); st.valid {
			last = i
		}
	}
	p := pool.New(uint32(capacity), 2048)
	tr.scenario(p)
	tr.tagGoroutines()
	c := newC12eConn(tr, p)
	var g *c12gCall
	reached, returned := false, false
	where := "-"
	total := 0
	for i, a := range acts {
		fl := strings.Split(a, ":")
		tok := 0
		if len(fl) > 1 {
			tok, _ = strconv.Atoi(fl[1])
		}
		switch fl[0] {
		case "get":
			g = c.startG(codes.GET, tok, 0)
		case "post":
			g = c.startG(codes.POST, tok, 5)
		case "put", "up":
			ln := 40
			if len(fl) > 2 {
				ln, _ = strconv.Atoi(fl[2])
			}
			code := codes.POST
			if fl[0] == "put" {
				code = codes.PUT
			}
			g = c.startG(code, tok, ln)
		default:
			st := parseC12eStep(a)
			if !st.valid {
				continue
			}
			if i != last || g == nil || n <= 0 {
				if _, ok := c.step(st, a); !ok {
					goto out
				}
				break
			}
			// ---- the gated datagram
			if call := c.call; call != nil && !call.acked && call.mid >= 0 && !(st.typ == 'a' && c.lastCon == call.mid) {
				call.acked = true
				if c.lastCon == call.mid {
					c.lastCon = -1
				}
				if _, ok := c.inject(encodeWire(2, 0, call.mid, nil, nil, nil), call.tok, false, "ack"); !ok {
					goto out
				}
			}
			if c.call == nil || c.call != g.c12eCall {
				break // the call is over already: nothing to give up
			}
			d, _ := c.datagram(st)
			gate := &useGate{m: g.req, owner: g.gid, n: n, entered: make(chan struct{}), release: make(chan struct{})}
			tr.setGate(gate)
			c.win = c12eWin{}
			func() {
				defer func() {
					if r := recover(); r != nil {
						tr.notePanic(r)
					}
				}()
				if err := c.cc.Process(nil, d); err != nil {
					c.flag("process-error")
				}
			}()
			processed := false
			select {
			case <-gate.entered:
				reached = true
			case <-c.processed:
				processed = true
			case <-time.After(c12eWait):
				c.flag("neither-gate-nor-return")
			}
			if reached {
				// the receive goroutine is at its n-th access to the caller's request: the caller gives up now
				g.cancel()
				deadline := time.Now().Add(c12eWait)
				parked := false
				for !parked {
					select {
					case <-g.ret:
						returned = true
					default:
					}
					if returned {
						break
					}
					if parkedInRWMutexLock(g.gid) {
						parked = true
						break
					}
					if time.Now().After(deadline) {
						c.flag("caller-neither-returned-nor-parked")
						break
					}
					time.Sleep(200 * time.Microsecond) // polling for a witness, not a delay anything depends on
				}
				if returned {
					// Do is over while a receive path still works on the request: the application releases it first
					close(g.goCh)
					select {
					case <-g.done:
					case <-time.After(c12eWait):
						c.flag("application-stuck")
					}
					c.call = nil
				}
				where = gate.where
				close(gate.release)
				select {
				case <-c.processed:
					processed = true
				case <-time.After(c12eWait):
					c.flag("receive-function-did-not-return")
				}
			}
			tr.setGate(nil)
			total = gate.total()
			_ = processed
			c.takeOut()
		}
		if len(c.flags) > 0 {
			break
		}
	}
out:
	tr.setGate(nil)
	c.finish()
	c.close()
	evs := tr.take()
	if len(c.flags) > 0 {
		if dbgC12() {
			fmt.Println("G flags", desc, c.flags)
		}
		e.AddW(fmt.Sprintf("Hung %s", coqLc(c12Cut(evs))), desc, false, 1+len(evs)/60, "G:hang")
		return
	}
	outcome := "G:gate-not-reached"
	if reached {
		outcome = "G:caller-parked-until-receive-path-through"
		if returned {
			outcome = "G:caller-returned-while-receive-path-held"
		}
	}
	c12Emit(e, desc, capacity, evs, "G", outcome)
	e.AddW(fmt.Sprintf("GiveUp %d %s %s %s", n, coqBool(reached), coqBool(returned), coqLc(c12Cut(evs))), desc, reached, 1+len(evs)/60,
		"G:giveup", "G:held-in:"+where, fmt.Sprintf("G:accesses-of-receive-path=%d", total))
}

// ---------------------------------------------------------------- K

type c12kPing struct {
	mid    int
	cancel func()
	viaKA  bool
	obs    []string
	called bool // the cancel function has been called
}

func c12PingLife(e *c12Out, tr *poolTracker, desc, arg string) {
	f := strings.SplitN(arg, "|", 3)
	if len(f) != 3 {
		return
	}
	capacity, _ := strconv.Atoi(f[0])
	if capacity <= 0 {
		capacity = 256
	}
	ka := f[1] == "k"
	p := pool.New(uint32(capacity), 2048)
	tr.scenario(p)
	tr.tagGoroutines()
	c := newC12eConn(tr, p)
	me := curGID()
	var pings []*c12kPing
	var cur *c12kPing
	pongs := 0
	keep := inactivity.NewKeepAlive[*client.Conn](1000, func(*client.Conn) {}, func(cc *client.Conn, receivePong func()) (func(), error) {
		return cc.AsyncPing(receivePong)
	})
	window := func(fn func()) []lcEvent {
		begin := len(tr.peek())
		func() {
			defer func() {
				if r := recover(); r != nil {
					tr.notePanic(r)
				}
			}()
			fn()
		}()
		return tr.eventsOf(me, begin, len(tr.peek()))
	}
	note := func(pg *c12kPing, kind string, w []lcEvent) {
		pg.obs = append(pg.obs, fmt.Sprintf("PObs %s %s", kind, coqLc(w)))
	}
	learnMID := func(pg *c12kPing) bool {
		if !c.s.waitOut(1, c12eWait) {
			c.flag("ping-not-written")
			return false
		}
		for _, w := range c.takeOut() {
			if !w.Bad && w.Typ == 0 && w.Code == 0 {
				pg.mid = w.MID
			}
		}
		return true
	}
	holding := false
	tick := 0
	for _, a := range strings.Fields(f[2]) {
		if len(c.flags) > 0 || tr.bad() {
			break
		}
		switch a {
		case "ping", "cancel":
			if ka {
				// one tick of the keep-alive monitor: cancels the previous ping (if any), sends the next
				prev := cur
				next := &c12kPing{mid: -1, viaKA: true}
				w := window(func() { keep.OnInactive(c.cc) })
				if prev != nil {
					prev.called = true
					note(prev, "FCancel", w)
				}
				pings = append(pings, next)
				cur = next
				learnMID(next)
				break
			}
			if cur != nil && (a == "cancel" || !cur.called) {
				pg := cur
				w := window(func() { pg.cancel() })
				pg.called = true
				note(pg, "FCancel", w)
			}
			if a == "ping" {
				next := &c12kPing{mid: -1}
				cancel, err := c.cc.AsyncPing(func() { pongs++ })
				if err != nil {
					c.flag("asyncping-failed")
					break
				}
				next.cancel = cancel
				pings = append(pings, next)
				cur = next
				learnMID(next)
			}
		case "pong", "rst":
			if cur == nil || cur.mid < 0 {
				continue
			}
			typ := 2
			if a == "rst" {
				typ = 3
			}
			d := encodeWire(typ, 0, cur.mid, nil, nil, nil)
			c.win = c12eWin{}
			c.mu.Lock()
			c.doneMIDs = nil
			c.mu.Unlock()
			w := window(func() {
				if err := c.cc.Process(nil, d); err != nil {
					c.flag("process-error")
				}
			})
			// An empty ACK that finds no pending entry is dropped inside Process (IsSeparateMessage), everything else
			// travels through the receive queue. A reset with an unused message ID sent after it is the barrier: the
			// queue is FIFO, so once the receive function has returned for the barrier it has returned for the pong.
			const barrierMID = 0xFFF0
			func() {
				defer func() {
					if r := recover(); r != nil {
						tr.notePanic(r)
					}
				}()
				_ = c.cc.Process(nil, encodeWire(3, 0, barrierMID, nil, nil, nil))
			}()
			for seen := false; !seen; {
				select {
				case <-c.processed:
					c.mu.Lock()
					if len(c.doneMIDs) > 0 {
						seen = c.doneMIDs[0] == barrierMID
						c.doneMIDs = c.doneMIDs[1:]
					}
					c.mu.Unlock()
				case <-time.After(c12eWait):
					c.flag("receive-function-did-not-return")
					seen = true
				}
			}
			note(cur, "FPong", w)
			c.takeOut()
		case "tick":
			if cur == nil || holding {
				continue // the sweep would also retransmit the request that is waiting
			}
			tick++
			now := time.Now().Add(time.Duration(1000*tick) * time.Hour)
			w := window(func() { c.cc.CheckExpirations(now) })
			note(cur, "FExpiry", w)
			c.takeOut()
		case "get":
			if holding {
				continue
			}
			c.start(codes.GET, 1, 0)
			if c.call != nil {
				c.lastCon = c.call.mid
			}
			if _, ok := c.step(parseC12eStep("p:1:0:4:a"), "p:1:0:4:a"); !ok {
				c.flag("get-failed")
			}
			if c.call != nil {
				c.flag("request-not-completed-by-its-response")
			}
		case "hold":
			if holding {
				continue
			}
			c.start(codes.GET, 1, 0)
			holding = true
		case "answer":
			if !holding {
				continue
			}
			holding = false
			if c.call != nil {
				c.lastCon = c.call.mid
			}
			if _, ok := c.step(parseC12eStep("p:1:0:4:a"), "p:1:0:4:a"); !ok {
				c.flag("answer-failed")
			}
			if c.call != nil {
				c.flag("request-not-completed-by-its-response")
			}
		}
	}
	c.finish()
	c.close()
	evs := tr.take()
	if len(c.flags) > 0 {
		if dbgC12() {
			fmt.Println("K flags", desc, c.flags)
		}
		e.AddW(fmt.Sprintf("Hung %s", coqLc(c12Cut(evs))), desc, false, 1+len(evs)/60, "K:hang")
		return
	}
	c12Emit(e, desc, capacity, evs, "K")
	for _, pg := range pings {
		e.AddW(fmt.Sprintf("PingX 2 [%s]", strings.Join(pg.obs, "; ")), desc, len(pg.obs) > 1, 1, "K:ping", fmt.Sprintf("K:steps=%d", len(pg.obs)))
	}
}

var c12GiveUpFixed = []string{
	"up:1:40 k:1:0:1:a",                          // the first 2.31 of an upload
	"up:1:40 k:1:0:1:a k:1:1:1:a",                // the second
	"put:1:70 k:1:0:1:a k:1:1:1:c k:1:2:1:a",     // PUT, a separate 2.31
	"get:1 r:1:0:1:0:16:a",                       // the first block of a block-wise response (getSentRequest)
	"post:1 r:1:0:1:7:16:a",                      // ... of a POST
	"get:1 r:1:0:1:0:16:a r:1:1:1:0:16:c",        // the second block
	"up:1:40 k:1:0:1:a k:1:1:1:a r:1:0:1:3:16:a", // upload complete, response in blocks
}

var c12PingFixed = []string{
	"d|ping pong cancel", "d|ping rst cancel", "d|ping cancel pong", "d|ping cancel cancel",
	"d|ping tick tick tick cancel", "d|ping tick pong cancel tick", "d|ping tick tick tick tick pong cancel",
	"d|ping pong hold cancel answer", "d|ping pong get cancel get", "d|ping pong ping pong cancel", "d|ping ping ping",
	"d|ping pong get get hold cancel answer cancel",
	"k|ping pong ping pong ping", "k|ping ping ping", "k|ping pong hold ping answer", "k|ping tick tick tick ping pong ping",
	"k|ping rst get ping get hold ping answer",
}

func c12UseDescriptors(rng *Rng, thorough bool) []string {
	var ds []string
	// G: every access of the receive path is a gate position once
	for i, s := range c12GiveUpFixed {
		maxN := 22
		if strings.HasPrefix(s, "get") || strings.HasPrefix(s, "post") {
			maxN = 8
		}
		for n := 1; n <= maxN; n++ {
			if !thorough && i >= 1 && n%3 != i%3 && n > 2 {
				continue // quick tier: every third position for all scripts but the first
			}
			ds = append(ds, fmt.Sprintf("G#%d|%d|%s", []int{256, 4}[(i+n)%2], n, s))
		}
	}
	nG := 10
	if thorough {
		nG = 120
	}
	for i := 0; i < nG; i++ {
		ln := 33 + rng.Intn(60)
		blocks := (ln + 15) / 16
		k := 1 + rng.Intn(blocks-1)
		acts := []string{fmt.Sprintf("%s:1:%d", []string{"up", "put"}[rng.Intn(2)], ln)}
		for j := 0; j < k; j++ {
			acts = append(acts, fmt.Sprintf("k:1:%d:1:%s", j, []string{"a", "a", "c", "n"}[rng.Intn(4)]))
		}
		ds = append(ds, fmt.Sprintf("G#%d|%d|%s", rng.Pick([]int{256, 8, 2}), 1+rng.Intn(20), strings.Join(acts, " ")))
	}
	// K
	for i, s := range c12PingFixed {
		ds = append(ds, fmt.Sprintf("K#%d|%s", []int{256, 256, 3}[i%3], s))
	}
	nK := 20
	if thorough {
		nK = 200
	}
	ops := []string{"ping", "pong", "rst", "tick", "cancel", "get", "hold", "answer", "pong", "cancel", "ping"}
	for i := 0; i < nK; i++ {
		n := 3 + rng.Intn(8)
		acts := []string{"ping"}
		for j := 0; j < n; j++ {
			acts = append(acts, ops[rng.Intn(len(ops))])
		}
		ds = append(ds, fmt.Sprintf("K#%d|%s|%s", rng.Pick([]int{256, 8, 2}), []string{"d", "d", "k"}[rng.Intn(3)], strings.Join(acts, " ")))
	}
	return ds
}
