package main

// C18 component driver "ka"/"kaconns": inactivity.KeepAlive wired to
// inactivity.Monitor the way options.WithKeepAlive wires them
// (NewWithOnActive(period, ka.OnInactive, ka.OnActive)), with a scripted
// sendPing so that failing sends, cancel calls and bare pong callbacks of any
// generation are observable.

import (
	"context"
	"errors"
	"fmt"
	"time"

	"github.com/plgd-dev/go-coap/v3/net/monitor/inactivity"
	"github.com/plgd-dev/go-coap/v3/pkg/connections"
)

func init() {
	c18ExtraDrivers["ka"] = c18NewKaDriver
	c18ExtraDrivers["kaconns"] = c18NewKaDriver
	c18ExtraPlanList = append(c18ExtraPlanList, c18Plan{"ka", true, 700, 16}, c18Plan{"kaconns", true, 150, 16})
}

type c18KaDriver struct {
	mon    *inactivity.Monitor[*c18FakeConn]
	ka     *inactivity.KeepAlive[*c18FakeConn]
	cc     *c18FakeConn
	clk    c18Clock
	log    []c18Obs
	cbs    []func()
	sendOK bool
	conns  *connections.Connections
}

func c18NewKaDriver(h c18Hist) (c18Driver, error) {
	if !h.ka {
		return nil, fmt.Errorf("driver %s is keep-alive only", h.drv)
	}
	d := &c18KaDriver{sendOK: true}
	ctx, cancel := context.WithCancel(context.Background())
	d.cc = &c18FakeConn{ctx: ctx, cancel: cancel, log: &d.log}
	d.ka = inactivity.NewKeepAlive(h.max, func(cc *c18FakeConn) { inactivity.CloseConn(cc) },
		func(cc *c18FakeConn, receivePong func()) (func(), error) {
			d.cbs = append(d.cbs, receivePong)
			g := len(d.cbs)
			if !d.sendOK {
				d.log = append(d.log, c18Obs{'F', g})
				return nil, errors.New("scripted send failure")
			}
			d.log = append(d.log, c18Obs{'P', g})
			return func() { d.log = append(d.log, c18Obs{'C', g}) }, nil
		})
	d.mon = inactivity.NewWithOnActive(time.Duration(h.period), d.ka.OnInactive, d.ka.OnActive)
	d.cc.check = func(now time.Time) { d.mon.CheckInactivity(now, d.cc) }
	d.clk = c18Clock{0, d.mon.LastActivity()}
	if h.drv == "kaconns" {
		d.conns = connections.New()
		d.conns.Store(d.cc)
	}
	return d, nil
}

func (d *c18KaDriver) period() int64 { return c18Duration(d.mon) }
func (d *c18KaDriver) cancels() bool { return true }
func (d *c18KaDriver) close()        { d.cc.cancel() }
func (d *c18KaDriver) apply(e c18Ev) ([]c18Obs, error) {
	d.log = nil
	closed := d.cc.ctx.Err() != nil
	switch e.kind {
	case 'R', 'P', 'B':
		if closed {
			return nil, nil
		}
		if e.kind != 'B' {
			t0 := time.Now()
			d.mon.Notify()
			d.clk = d.clk.rebase(e.t, d.mon.LastActivity(), t0)
		}
		if e.kind != 'R' && e.g >= 1 && e.g <= len(d.cbs) {
			d.cbs[e.g-1]()
		}
	case 'T':
		d.sendOK = e.ok
		if d.conns != nil {
			d.conns.CheckExpirations(d.clk.at(e.t))
		} else if !closed {
			d.mon.CheckInactivity(d.clk.at(e.t), d.cc)
		}
	default:
		return nil, fmt.Errorf("event %s not supported by driver ka", e.desc())
	}
	return d.log, nil
}
