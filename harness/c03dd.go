package main

// C03, message-ID layer (Token/DedupModel.v): retransmitted responses and re-used tokens.
//
// On every datagram set-up (u, ub, up; not for scripts with block-wise events, which are BwCases) a received message
// is emitted with its type and message ID (DMsg) and nothing about duplicates is told to the evaluator -- Spec and
// model decide what a duplicate is; the case is a DdCase, replayed on the machine of Token/DedupModel.v. Two more
// observations per message: whether the connection's response cache had a reply for the message ID (a wrapper
// around the cache the connection was built with) and how many acknowledgements with that message ID the
// connection wrote. Script event "X": EXCHANGE_LIFETIME elapses (the deadlines of all cached replies are moved
// into the past and the cache is swept).
//
// Family "reuse": a caller numbers its requests with a token of its own and re-uses it for the next request once
// the previous one has completed; the peer answers with separate responses and sends an earlier response again
// (same message ID: its acknowledgement was lost) while a later request with the token is outstanding.

import (
	"reflect"
	"strconv"
	"sync"
	"time"
	"unsafe"

	"github.com/plgd-dev/go-coap/v3/message/pool"
	"github.com/plgd-dev/go-coap/v3/udp/client"
)

// c3CacheSpy passes everything on to the connection's own response cache and notes the keys that were found
type c3CacheSpy struct {
	inner client.MessageCache
	mu    sync.Mutex
	hits  map[string]int
}

func (s *c3CacheSpy) Load(key string, msg *pool.Message) (bool, error) {
	ok, err := s.inner.Load(key, msg)
	if ok {
		s.mu.Lock()
		s.hits[key]++
		s.mu.Unlock()
	}
	return ok, err
}
func (s *c3CacheSpy) Store(key string, msg *pool.Message) error { return s.inner.Store(key, msg) }
func (s *c3CacheSpy) CheckExpirations(now time.Time)            { s.inner.CheckExpirations(now) }

func (s *c3CacheSpy) peekHit(mid int) bool {
	s.mu.Lock()
	defer s.mu.Unlock()
	return s.hits[strconv.Itoa(mid)] > 0
}

func (s *c3CacheSpy) takeHit(mid int) bool {
	s.mu.Lock()
	defer s.mu.Unlock()
	k := strconv.Itoa(mid)
	h := s.hits[k] > 0
	delete(s.hits, k)
	return h
}

// installCacheSpy puts the wrapper in front of the response cache the connection created for itself
func (r *c3Run) installCacheSpy() {
	v := reflect.ValueOf(r.ucc).Elem().FieldByName("responseMsgCache")
	r.spyField = (*client.MessageCache)(unsafe.Pointer(v.UnsafeAddr()))
	r.spy = &c3CacheSpy{inner: *r.spyField, hits: map[string]int{}}
	*r.spyField = r.spy
}

// lifetimeElapses: EXCHANGE_LIFETIME (247 s) passes: every cached reply expires and is swept. Nothing is in
// flight (every injected message has been processed), so the field can be switched back for the verif hook, which
// wants the connection's own cache type.
func (r *c3Run) lifetimeElapses() {
	*r.spyField = r.spy.inner
	r.ucc.VerifShiftResponseCache(client.ExchangeLifetime + time.Second)
	*r.spyField = r.spy
	r.spy.inner.CheckExpirations(time.Now())
	r.slotsCON = map[int]bool{}
}

// one exchange of the reuse family: request with token t, answered with a separate response in slot (message ID)
// slot; returns the call
func (b *c3B) exchange(t []byte, con bool, kind byte, slot int, ackFirst bool) c3Start {
	s := b.start(t, 'd', con)
	b.add(c3Op{kind: 'S', st: []c3Start{s}})
	if con && ackFirst {
		b.add(c3Op{kind: 'A', cid: s.cid})
	}
	b.resp(s.cid, kind, slot)
	if con && !ackFirst {
		b.add(c3Op{kind: 'A', cid: s.cid})
	}
	return s
}

// copyOf: the peer sends response rid (produced for call forc) again
func (b *c3B) copyOf(rid, forc int, kind byte, slot int) {
	b.add(c3Op{kind: 'R', rid: rid, forc: forc, rkind: kind, slot: slot})
}

func c3GenReuse(rng *Rng, tr string, variant int) c3Script {
	b := newC3B(rng, tr)
	t := b.tok()
	con := rng.Chance(70)
	bystander := func() {
		if rng.Chance(40) {
			o := b.randStart()
			b.add(c3Op{kind: 'S', st: []c3Start{o}})
			b.answer(o.cid)
		}
	}
	switch variant % 12 {
	case 0: // the copy of response 1 arrives while request 2 (same token) is outstanding and acknowledged
		s1 := b.newSlot()
		c0 := b.exchange(t, true, 'c', s1, true)
		r1 := b.rid
		bystander()
		c1 := b.start(t, 'd', true)
		b.add(c3Op{kind: 'S', st: []c3Start{c1}})
		b.add(c3Op{kind: 'A', cid: c1.cid})
		b.copyOf(r1, c0.cid, 'c', s1)
		b.resp(c1.cid, 'c', b.newSlot())
	case 1: // ... before request 2 is acknowledged
		s1 := b.newSlot()
		c0 := b.exchange(t, con, 'c', s1, rng.Chance(50))
		r1 := b.rid
		c1 := b.start(t, 'd', true)
		b.add(c3Op{kind: 'S', st: []c3Start{c1}})
		b.copyOf(r1, c0.cid, 'c', s1)
		b.add(c3Op{kind: 'A', cid: c1.cid})
		b.resp(c1.cid, []byte{'c', 'n'}[rng.Intn(2)], b.newSlot())
	case 2: // non-confirmable requests, confirmable separate responses
		s1 := b.newSlot()
		c0 := b.exchange(t, false, 'c', s1, true)
		r1 := b.rid
		bystander()
		c1 := b.start(t, 'd', false)
		b.add(c3Op{kind: 'S', st: []c3Start{c1}})
		b.copyOf(r1, c0.cid, 'c', s1)
		b.resp(c1.cid, 'c', b.newSlot())
	case 3: // the copy arrives as a non-confirmable message with the message ID of the confirmable one
		s1 := b.newSlot()
		c0 := b.exchange(t, con, 'c', s1, true)
		r1 := b.rid
		c1 := b.start(t, 'd', con)
		b.add(c3Op{kind: 'S', st: []c3Start{c1}})
		if con {
			b.add(c3Op{kind: 'A', cid: c1.cid})
		}
		b.copyOf(r1, c0.cid, 'n', s1)
		b.resp(c1.cid, 'n', b.newSlot())
	case 4: // three rounds: during each round copies of the responses of all earlier rounds
		type sent struct{ rid, cid, slot int }
		var done []sent
		for i := 0; i < 3; i++ {
			c := b.start(t, 'd', con)
			b.add(c3Op{kind: 'S', st: []c3Start{c}})
			if con && rng.Chance(60) {
				b.add(c3Op{kind: 'A', cid: c.cid})
				b.ackd[c.cid] = true
			}
			for _, d := range done {
				if rng.Chance(70) {
					b.copyOf(d.rid, d.cid, 'c', d.slot)
				}
			}
			bystander()
			sl := b.newSlot()
			b.resp(c.cid, 'c', sl)
			if con && !b.ackd[c.cid] {
				b.add(c3Op{kind: 'A', cid: c.cid})
			}
			done = append(done, sent{b.rid, c.cid, sl})
		}
	case 5: // request 1 was given up before its response arrived (it goes to the default handler and is acknowledged)
		c0 := b.start(t, 'd', true)
		b.add(c3Op{kind: 'S', st: []c3Start{c0}})
		b.add(c3Op{kind: 'A', cid: c0.cid})
		b.add(c3Op{kind: 'C', cid: c0.cid})
		s1 := b.newSlot()
		b.resp(c0.cid, 'c', s1)
		r1 := b.rid
		c1 := b.start(t, 'd', true)
		b.add(c3Op{kind: 'S', st: []c3Start{c1}})
		b.add(c3Op{kind: 'A', cid: c1.cid})
		b.copyOf(r1, c0.cid, 'c', s1)
		b.resp(c1.cid, 'c', b.newSlot())
	case 6: // two copies, then request 2 is answered piggybacked
		s1 := b.newSlot()
		c0 := b.exchange(t, true, 'c', s1, true)
		r1 := b.rid
		c1 := b.start(t, 'd', true)
		b.add(c3Op{kind: 'S', st: []c3Start{c1}})
		b.copyOf(r1, c0.cid, 'c', s1)
		b.copyOf(r1, c0.cid, 'c', s1)
		b.resp(c1.cid, 'p', 0)
	case 7: // after EXCHANGE_LIFETIME the message ID is fresh: a new response that carries it is delivered; its copy is not
		s1 := b.newSlot()
		b.exchange(t, con, 'c', s1, true)
		b.add(c3Op{kind: 'X'})
		c1 := b.start(t, 'd', true)
		b.add(c3Op{kind: 'S', st: []c3Start{c1}})
		b.add(c3Op{kind: 'A', cid: c1.cid})
		b.resp(c1.cid, 'c', s1)
		r2 := b.rid
		c2 := b.start(t, 'd', true)
		b.add(c3Op{kind: 'S', st: []c3Start{c2}})
		b.add(c3Op{kind: 'A', cid: c2.cid})
		b.copyOf(r2, c1.cid, 'c', s1)
		b.resp(c2.cid, 'n', b.newSlot())
	case 8: // a copy while nobody waits, then the same with request 2 outstanding
		s1 := b.newSlot()
		c0 := b.exchange(t, con, 'c', s1, true)
		r1 := b.rid
		b.copyOf(r1, c0.cid, 'c', s1)
		bystander()
		c1 := b.start(t, 'd', true)
		b.add(c3Op{kind: 'S', st: []c3Start{c1}})
		b.add(c3Op{kind: 'A', cid: c1.cid})
		b.copyOf(r1, c0.cid, 'c', s1)
		b.resp(c1.cid, 'c', b.newSlot())
	case 9: // the peer uses the message ID of response 1 for response 2 within the lifetime: taken for a copy; sent again with an ID of its own
		s1 := b.newSlot()
		b.exchange(t, true, 'c', s1, true)
		c1 := b.start(t, 'd', true)
		b.add(c3Op{kind: 'S', st: []c3Start{c1}})
		b.add(c3Op{kind: 'A', cid: c1.cid})
		b.resp(c1.cid, 'c', s1)
		b.copyOf(b.rid, c1.cid, 'c', b.newSlot())
	case 10: // request 2 has another token: the copy of response 1 reaches nobody
		s1 := b.newSlot()
		c0 := b.exchange(t, true, 'c', s1, true)
		r1 := b.rid
		c1 := b.start(b.tok(), 'd', true)
		b.add(c3Op{kind: 'S', st: []c3Start{c1}})
		b.add(c3Op{kind: 'A', cid: c1.cid})
		b.copyOf(r1, c0.cid, 'c', s1)
		b.resp(c1.cid, 'c', b.newSlot())
		c2 := b.start(t, 'd', true)
		b.add(c3Op{kind: 'S', st: []c3Start{c2}})
		b.copyOf(r1, c0.cid, 'n', s1)
		b.resp(c2.cid, 'p', 0)
	default: // known finding (class 12): both copies of response 1 are NON-confirmable messages with one message ID
		s1 := b.newSlot()
		c0 := b.exchange(t, con, 'n', s1, true)
		r1 := b.rid
		c1 := b.start(t, 'd', con)
		b.add(c3Op{kind: 'S', st: []c3Start{c1}})
		if con && rng.Chance(50) {
			b.add(c3Op{kind: 'A', cid: c1.cid})
			b.ackd[c1.cid] = true
		}
		b.copyOf(r1, c0.cid, 'n', s1)
		if con && !b.ackd[c1.cid] {
			b.add(c3Op{kind: 'A', cid: c1.cid})
		}
		b.resp(c1.cid, 'c', b.newSlot())
	}
	return b.sc
}
