package main

// C10, round 4: the decode loop between a received datagram / frame and the connection
// (message/pool Message.decode, behind udp/client Conn.Process and tcp/client Session.processBuffer).
//
// pool: cases = a sequence of received messages handed to UnmarshalWithDecoder of ONE pooled message
// (pool.NewMessage, Reset before every message as ReleaseMessage/AcquireMessage do) through a decoder that
// wraps the real coder, records cap(m.Options) at every attempt of the loop and ends the loop with an error of
// its own after more attempts than the message has bytes (no wall clock involved: "does not return" is the
// cut-off being reached).  Coq replays the model (Server/OptGrow.v) on the same sequence.
//
// udpopt: / tcpopt: cases = the live servers of the UdpRun / TcpRun families with adversaries that send
// messages made of long runs of small options (c10ManyOptions).

import (
	"bytes"
	"context"
	"errors"
	"fmt"
	"io"
	"strconv"
	"strings"
	"time"

	"github.com/plgd-dev/go-coap/v3/message"
	"github.com/plgd-dev/go-coap/v3/message/pool"
	tcpCoder "github.com/plgd-dev/go-coap/v3/tcp/coder"
	"github.com/plgd-dev/go-coap/v3/udp/coder"
)

var errC10Cut = errors.New("c10: decode loop cut off by the harness")

const c10CapsKept = 40 // attempts whose capacity is written into the case (Run.pool_caps_kept)

type c10CountDecoder struct {
	inner pool.Decoder
	limit int
	n     int
	caps  []int
	cut   bool
}

func (d *c10CountDecoder) Decode(buf []byte, m *message.Message) (int, error) {
	if d.n >= d.limit {
		d.cut = true
		return -1, errC10Cut
	}
	d.n++
	if len(d.caps) < c10CapsKept {
		d.caps = append(d.caps, cap(m.Options))
	}
	return d.inner.Decode(buf, m)
}

// c10Wire is a message as bytes with its symbolic form pre ++ n*b ++ post (n = 0: literal).
type c10Wire struct {
	pre  []byte
	b    byte
	n    int
	post []byte
	hdr  int // tcp: header length
	kind string
}

func (w *c10Wire) bytes() []byte {
	d := append([]byte{}, w.pre...)
	d = append(d, bytes.Repeat([]byte{w.b}, w.n)...)
	return append(d, w.post...)
}

func (w *c10Wire) coqDg() string {
	if w.n == 0 {
		return "(DLit " + coqBytes(w.bytes()) + ")"
	}
	return fmt.Sprintf("(DRep %s %d %d %s)", coqBytes(w.pre), w.b, w.n, coqBytes(w.post))
}

// c10TCPHeader returns the header of a frame (RFC 8323 section 3.2) whose options + payload take n bytes.
func c10TCPHeader(code int, tok []byte, n int) []byte {
	var h []byte
	switch {
	case n < 13:
		h = []byte{byte(n<<4 | len(tok))}
	case n < 269:
		h = []byte{byte(13<<4 | len(tok)), byte(n - 13)}
	case n < 65805:
		h = []byte{byte(14<<4 | len(tok)), byte((n - 269) >> 8), byte(n - 269)}
	default:
		v := n - 65805
		h = []byte{byte(15<<4 | len(tok)), byte(v >> 24), byte(v >> 16), byte(v >> 8), byte(v)}
	}
	h = append(h, byte(code))
	return append(h, tok...)
}

// c10ManyOptions: a message whose options are a run of n one-byte options (delta 1 / 2 / 0, length 0), n around a
// power of two (the capacities of the option table are 16, 32, 64, ...), optionally behind a Uri-Path option (so
// that it is a request for a known resource) and followed by a payload, a truncated option or a reserved nibble.
func c10ManyOptions(rng *Rng, tcp bool, maxlen int, maxk int) *c10Wire {
	w := &c10Wire{}
	for {
		k := 3 + rng.Intn(maxk-2) // 8 .. 2^maxk
		if rng.Chance(25) {
			k = maxk - rng.Intn(2) // the large ones more often
		}
		w.n = 1<<k - 3 + rng.Intn(16)
		if rng.Chance(10) {
			w.n = 1 + rng.Intn(40)
		}
		if maxlen < 0 {
			// the largest size of this sequence, above the power of two also after the skipped options
			k, w.n = maxk, 1<<maxk+5+rng.Intn(8)
			break
		}
		if w.n+24 <= maxlen {
			break
		}
	}
	w.b = byte(rng.Pick([]int{0x10, 0x10, 0x10, 0x10, 0x20, 0x00}))
	var opts []byte
	if maxlen < 0 {
		w.b = 0x10
	} else if rng.Chance(40) {
		opts = []byte{0xb1, 'a'} // Uri-Path "a"
	}
	switch rng.Intn(6) {
	case 0:
		w.post = []byte{0xff, 1, 2, 3}
	case 1:
		w.post = []byte{0x15, 7} // value truncated
	case 2:
		w.post = []byte{0xf0}
	}
	tok := make([]byte, rng.Intn(5))
	for i := range tok {
		tok[i] = byte(rng.Intn(256))
	}
	code := 1 + rng.Intn(4)
	w.kind = fmt.Sprintf("many-options-%#02x", w.b)
	if tcp {
		h := c10TCPHeader(code, tok, len(opts)+w.n+len(w.post))
		w.hdr = len(h)
		w.pre = append(h, opts...)
	} else {
		mid := rng.Intn(65536)
		w.pre = append([]byte{byte(0x40 | rng.Pick([]int{0, 1})<<4 | len(tok)), byte(code), byte(mid >> 8), byte(mid)}, tok...)
		w.pre = append(w.pre, opts...)
	}
	return w
}

func c10PoolErrClass(err error) int {
	switch {
	case err == nil:
		return 0
	case errors.Is(err, message.ErrOptionUnexpectedExtendMarker):
		return 4
	case errors.Is(err, message.ErrOptionTruncated):
		return 5
	case errors.Is(err, message.ErrOptionNotFound):
		return 6
	case errors.Is(err, message.ErrInvalidTokenLen):
		return 3
	case errors.Is(err, coder.ErrMessageInvalidVersion):
		return 2
	case errors.Is(err, coder.ErrMessageTruncated):
		return 1
	}
	return 98
}

// c10PoolSeq runs one sequence; returned = every decode came back.
func c10PoolSeq(seed uint64, tcp bool, maxk int) (coq string, returned bool, hist []string, cost int) {
	rng := NewRng(seed)
	msg := pool.NewMessage(context.Background())
	var inner pool.Decoder = coder.DefaultCoder
	if tcp {
		inner = tcpCoder.DefaultCoder
	}
	nsteps := 4 + rng.Intn(4)
	var steps []string
	returned = true
	for i := 0; i < nsteps && returned; i++ {
		var w *c10Wire
		switch {
		case i == 0 && maxk >= 12:
			// the sequences with the large sizes start with the largest one (maxlen < 0: see c10ManyOptions)
			w = c10ManyOptions(rng, tcp, -1, maxk)
		case rng.Chance(70):
			w = c10ManyOptions(rng, tcp, 9000, maxk)
		case rng.Chance(50) || tcp:
			// a plain request
			opts := message.Options{{ID: message.URIPath, Value: []byte("b")}, {ID: message.URIPath, Value: []byte("c")}}
			pay := genBody(rng.Intn(50), rng.Intn(30))
			if tcp {
				d := c10EncodeTCP(2, []byte{byte(i), 7}, opts, pay)
				var h tcpCoder.MessageHeader
				_, _ = tcpCoder.DefaultCoder.DecodeHeader(d, &h)
				w = &c10Wire{pre: d, hdr: int(h.Length), kind: "valid-request"}
			} else {
				w = &c10Wire{pre: encodeWire(rng.Intn(2), 2, rng.Intn(65536), []byte{byte(i), 7}, opts, pay), kind: "valid-request"}
			}
		default:
			s, cls := c10Malformed(rng, 600, nil)
			w = &c10Wire{pre: s.data, kind: cls}
		}
		fresh := i > 0 && rng.Chance(50)
		if fresh {
			msg = pool.NewMessage(context.Background())
		}
		data := w.bytes()
		cost += len(data) * len(data) / 500000
		d := &c10CountDecoder{inner: inner, limit: len(data) + 4}
		res, nopts, plen := 0, 0, 0
		// the call runs in a goroutine of its own: a decoder that hangs INSIDE one attempt (where the cut-off cannot
		// reach) is observed as "did not return" after the watchdog instead of hanging hx; on a healthy tree a decode
		// takes microseconds, so the watchdog cannot fire however loaded the machine is
		fin := make(chan struct{})
		m := msg
		go func() {
			defer close(fin)
			defer func() {
				if r := recover(); r != nil {
					res = 99
				}
			}()
			m.Reset()
			_, err := m.UnmarshalWithDecoder(d, data)
			res = c10PoolErrClass(err)
			if err == nil {
				nopts = len(m.Options())
				if b := m.Body(); b != nil {
					p, _ := io.ReadAll(b)
					plen = len(p)
				}
			}
		}()
		hung := false
		select {
		case <-fin:
		case <-time.After(3 * c10Wait):
			hung = true
		}
		if hung {
			// the goroutine is lost; nothing it writes is read any more
			steps = append(steps, fmt.Sprintf("PD %s %d %s %d [] false 98 0 0", coqBool(fresh), w.hdr, w.coqDg(), d.limit))
			hist = append(hist, "pool:hung-inside-an-attempt")
			returned = false
			break
		}
		ret := !d.cut
		if d.cut || res == 99 {
			returned = false
		}
		caps := make([]string, len(d.caps))
		for j, c := range d.caps {
			caps[j] = strconv.Itoa(c)
		}
		steps = append(steps, fmt.Sprintf("PD %s %d %s %d [%s] %s %d %d %d", coqBool(fresh), w.hdr, w.coqDg(), d.limit, strings.Join(caps, "; "), coqBool(ret), res, nopts, plen))
		hist = append(hist, "pool:"+w.kind, fmt.Sprintf("pool-attempts=%d", d.n), fmt.Sprintf("pool-res=%d", res))
		if d.n > 1 {
			hist = append(hist, "pool:grown")
		}
	}
	return fmt.Sprintf("PoolSeq %s [%s]", coqBool(tcp), strings.Join(steps, ";\n    ")), returned, hist, cost
}

// c10PoolFamily emits the pool: cases; done = a decode did not return (the deviation is established, the live
// runs would only sit out their watchdogs).
func c10PoolFamily(e *Emitter, a runArgs, mult int) (done bool) {
	type ps struct {
		sd   uint64
		tcp  bool
		maxk int
	}
	var plan []ps
	if f := strings.Split(a.only, ":"); a.only != "" {
		if f[0] == "pool" && len(f) == 4 {
			sd, _ := strconv.ParseUint(f[1], 10, 64)
			mk, _ := strconv.Atoi(f[3])
			plan = append(plan, ps{sd, f[2] == "true", mk})
		}
	} else {
		prng := NewRng(a.seed ^ 0xC10B00F5)
		for i := 0; i < 16*mult; i++ {
			// option runs of up to 2^11 + 8 bytes; one sequence in sixteen up to 2^12 + 8, thorough tier: some up to 2^13 + 8
			mk := 11
			if i%16 == 5 {
				mk = 12
			}
			if mult > 1 && i%32 == 13 {
				mk = 13
			}
			plan = append(plan, ps{prng.U64() % 1000000007, i%4 == 3, mk})
		}
	}
	for _, x := range plan {
		coq, returned, hist, cost := c10PoolSeq(x.sd, x.tcp, x.maxk)
		grown := false
		for _, h := range hist {
			e.Hist[h]++
			if h == "pool:grown" {
				grown = true
			}
		}
		e.AddW(coq, fmt.Sprintf("pool:%d:%s:%d", x.sd, coqBool(x.tcp), x.maxk), grown, 1+cost, "pool-seq")
		if !returned {
			e.Hist["stopped-early"]++
			return true
		}
	}
	return false
}
