package main

// C08, block-wise notifications ("bhist" cases, Coq: Observe/BwModel.v, BwSpec.v, Run.v BHist).
//
// A wire-level history on a udp/client.Conn with block-wise transfer enabled, over the in-memory
// session of c08.go: registrations, cancellations and messages from the peer that may carry
// ETag / Observe / Block2 options. A notification whose first block says "more" makes the
// block-wise layer draw a new token and write a GET for the next block under it (RFC 7959 2.6);
// the script addresses that token as f<k> (k-th transfer opened in the run) and serves - or
// mis-serves: other ETag, wrong block number, late - the blocks. Newer notifications overtake
// transfers that are still running.
//
// Observed per event: callbacks / next-handler calls / returns of Observe() and Cancel() as in
// c08.go, plus what the block-wise layer did (GET for block NUM under token T written, error
// reported). The tokens drawn by the implementation are random; in the case text the k-th one is
// written as the canonical name c8Canon(k), so the case text is a function of the seed only.
//
// Synchronisation: every injected datagram is followed by the wait for the "processed" witness
// (the GET for the next block and the callback both happen before it); Observe() is expected to
// return exactly when the waiting flag of an observation that was waiting before the event is
// down after it. No sleeps, 5 s watchdogs recorded as an observable.

import (
	"bytes"
	"encoding/hex"
	"fmt"
	"strconv"
	"strings"
	"time"

	"github.com/plgd-dev/go-coap/v3/message"
	"github.com/plgd-dev/go-coap/v3/message/codes"
	"github.com/plgd-dev/go-coap/v3/net/blockwise"
	"github.com/plgd-dev/go-coap/v3/net/observation"
	"github.com/plgd-dev/go-coap/v3/udp/client"
	"github.com/plgd-dev/go-coap/v3/udp/coder"
)

// c8Canon: the name under which the k-th token drawn by the block-wise layer appears in case texts
func c8Canon(k int) []byte { return []byte{0xf7, 0x5e, 0, 0, 0, 0, byte(k >> 8), byte(k)} }

// c8Unopened: what is put on the wire for f<k> when the run has not opened a k-th transfer
func c8Unopened(k int) []byte { return []byte{0xf7, 0x5f, 0, 0, 0, 0, byte(k >> 8), byte(k)} }

func c8BString(s c8Script) string {
	var sb strings.Builder
	sb.WriteString("bhist")
	for _, o := range s.ops {
		switch o.kind {
		case 'R':
			fmt.Fprintf(&sb, " R%s/s", hex.EncodeToString(o.tok))
		case 'C':
			fmt.Fprintf(&sb, " C%d/%d", o.id, o.code)
		case 'X':
			fmt.Fprintf(&sb, " X%d/%c", o.id, o.how)
		case 'W':
			t := hex.EncodeToString(o.tok)
			if o.fref >= 0 {
				t = "f" + strconv.Itoa(o.fref)
			}
			ob := "-"
			if o.hasObs {
				ob = "o" + hex.EncodeToString(o.obs)
			}
			et := "-"
			if o.etag != nil {
				et = "e" + hex.EncodeToString(o.etag)
			}
			b2 := "-"
			if o.hasB2 {
				m := 0
				if o.more {
					m = 1
				}
				b2 = fmt.Sprintf("%d.%d.%d", o.szx, o.num, m)
			}
			fmt.Fprintf(&sb, " W%s/%d/%s/%s/%s/%c/%d/%d/%d", t, o.code, ob, et, b2, o.typ, o.dt, o.tag, o.plen)
		}
	}
	return sb.String()
}

func parseC8BScript(s string) (c8Script, error) {
	f := strings.Fields(s)
	sc := c8Script{wire: true, bw: true, bn: true}
	if len(f) < 1 || f[0] != "bhist" {
		return sc, fmt.Errorf("not a block-wise history descriptor: %q", s)
	}
	atoi := func(x string) int { v, _ := strconv.Atoi(x); return v }
	for _, w := range f[1:] {
		p := strings.Split(w[1:], "/")
		switch w[0] {
		case 'R':
			tok, _ := hex.DecodeString(p[0])
			sc.ops = append(sc.ops, c8Op{kind: 'R', tok: tok})
		case 'C':
			if len(p) != 2 {
				return sc, fmt.Errorf("bad op %q", w)
			}
			sc.ops = append(sc.ops, c8Op{kind: 'C', id: atoi(p[0]), code: atoi(p[1])})
		case 'X':
			if len(p) != 2 || len(p[1]) != 1 {
				return sc, fmt.Errorf("bad op %q", w)
			}
			sc.ops = append(sc.ops, c8Op{kind: 'X', id: atoi(p[0]), how: p[1][0]})
		case 'W':
			if len(p) != 9 || len(p[5]) != 1 {
				return sc, fmt.Errorf("bad op %q", w)
			}
			o := c8Op{kind: 'W', fref: -1, code: atoi(p[1]), typ: p[5][0], dt: int64(atoi(p[6])), tag: atoi(p[7]), plen: atoi(p[8])}
			if strings.HasPrefix(p[0], "f") {
				o.fref = atoi(p[0][1:])
			} else {
				o.tok, _ = hex.DecodeString(p[0])
			}
			if strings.HasPrefix(p[2], "o") {
				o.hasObs = true
				o.obs, _ = hex.DecodeString(p[2][1:])
			}
			if strings.HasPrefix(p[3], "e") {
				o.etag, _ = hex.DecodeString(p[3][1:])
				if o.etag == nil {
					o.etag = []byte{}
				}
			}
			if p[4] != "-" {
				q := strings.Split(p[4], ".")
				if len(q) != 3 {
					return sc, fmt.Errorf("bad block option in %q", w)
				}
				o.hasB2, o.szx, o.num, o.more = true, atoi(q[0]), atoi(q[1]), q[2] == "1"
			}
			sc.ops = append(sc.ops, o)
		default:
			return sc, fmt.Errorf("bad op %q", w)
		}
	}
	return sc, nil
}

func c8WDatagram(typ message.Type, mid int32, tok []byte, op c8Op) []byte {
	m := message.Message{Type: typ, MessageID: mid, Code: codes.Code(op.code)}
	if len(tok) > 0 {
		m.Token = tok
	}
	if op.etag != nil {
		m.Options = append(m.Options, message.Option{ID: message.ETag, Value: op.etag})
	}
	if op.hasObs {
		m.Options = append(m.Options, message.Option{ID: message.Observe, Value: op.obs})
	}
	if op.hasB2 {
		v, err := blockwise.EncodeBlockOption(blockwise.SZX(op.szx), int64(op.num), op.more)
		if err != nil {
			panic(err)
		}
		m.Options = append(m.Options, message.Option{ID: message.Block2, Value: c8Enc(v, 0)})
	}
	if op.plen > 0 {
		pl := bytes.Repeat([]byte{0x2e}, op.plen)
		pl[0] = byte(op.tag >> 8)
		if op.plen > 1 {
			pl[1] = byte(op.tag)
		}
		m.Payload = pl
	}
	buf := make([]byte, 2048)
	n, err := coder.DefaultCoder.Encode(m, buf)
	if err != nil {
		panic(err)
	}
	return buf[:n]
}

func c8OptCoq(b []byte, present bool) string {
	if !present {
		return "None"
	}
	return "(Some " + c8Bytes(b) + ")"
}

// doWire: one message from the peer in a block-wise history. Returns the application-level
// observations, what the block-wise layer did, and the Coq text of the event.
func (r *c8Run) doWire(op c8Op, now int64) ([]string, []string, string) {
	for _, g := range r.regs {
		if g.obs != nil && op.dt != 0 {
			g.obs.VerifShiftLastEvent(-time.Duration(op.dt) * time.Millisecond)
		}
	}
	// observations that wait for their first response now
	type waiter struct {
		id int
		o  *observation.Observation[*client.Conn]
	}
	var waiting []waiter
	for id, g := range r.regs {
		if g.ret {
			continue
		}
		if o, ok := r.hw.GetObservation(message.Token(g.tok).Hash()); ok && o.VerifWaiting() {
			waiting = append(waiting, waiter{id, o})
		}
	}
	tok, tokText := op.tok, c8Bytes(op.tok)
	if op.fref >= 0 {
		if op.fref < len(r.fresh) {
			tok, tokText = r.fresh[op.fref], c8Bytes(c8Canon(op.fref))
		} else {
			tok = c8Unopened(op.fref)
			tokText = c8Bytes(tok)
		}
	}
	r.nextMid++
	typ, mid := message.NonConfirmable, r.nextMid
	switch op.typ {
	case 'c':
		typ = message.Confirmable
	case 'a':
		if m, ok := r.lastGet[string(tok)]; ok {
			typ, mid = message.Acknowledgement, m
			delete(r.lastGet, string(tok))
		}
	}
	r.mu.Lock()
	errsBefore := r.errs
	r.mu.Unlock()
	r.inject(c8WDatagram(typ, mid, tok, op))
	// what the connection wrote while it processed the message (all of it is in the channel by now)
	var acts []string
	freshText := "[]"
	for {
		var d []byte
		select {
		case d = <-r.out:
		default:
		}
		if d == nil {
			break
		}
		w, err := r.decode(d)
		if err != nil {
			r.bad = "the connection wrote a datagram that does not decode"
			break
		}
		if w.Code() != codes.GET {
			continue // empty ACK, 4.08 of the error path
		}
		bv, err := w.GetOptionUint32(message.Block2)
		if err != nil {
			continue
		}
		szx, num, _, _ := blockwise.DecodeBlockOption(bv)
		wt := append([]byte(nil), w.Token()...)
		known := false
		for _, g := range r.regs {
			if bytes.Equal(g.tok, wt) {
				known = true
			}
		}
		r.mu.Lock()
		for _, f := range r.fresh {
			if bytes.Equal(f, wt) {
				known = true
			}
		}
		if !known && !bytes.Equal(wt, tok) {
			r.fresh = append(r.fresh, wt)
			freshText = c8Bytes(c8Canon(len(r.fresh) - 1))
		}
		r.mu.Unlock()
		if w.Type() == message.Confirmable {
			r.lastGet[string(wt)] = w.MessageID()
		}
		if _, e := w.Observe(); e == nil {
			r.bad = "the GET for a block carries an Observe option"
		}
		acts = append(acts, fmt.Sprintf("BGet %s %d %d", r.tokStr(wt), int(szx), num))
		r.features["get-next-block"] = true
	}
	r.mu.Lock()
	if r.errs > errsBefore {
		acts = append(acts, "BErr")
		r.features["blockwise-error"] = true
	}
	r.mu.Unlock()
	outs := r.takeLog()
	for _, w := range waiting {
		if w.o.VerifWaiting() {
			continue
		}
		g := r.regs[w.id]
		select {
		case res := <-g.done:
			outs = append(outs, r.finishReg(w.id, res))
		case <-time.After(c8Timeout):
			r.bad = "first response processed but Observe() did not return"
		}
	}
	b2 := "None"
	if op.hasB2 {
		b2 = fmt.Sprintf("(Some (%d, %d, %s))", op.szx, op.num, coqBool(op.more))
	}
	ev := fmt.Sprintf("BMsg (W %s %d %s %s %s %d %d) %s %d", tokText, op.code, c8OptCoq(op.obs, op.hasObs),
		c8OptCoq(op.etag, op.etag != nil), b2, op.tag, op.plen, freshText, now)
	return outs, acts, ev
}

// runC8BScript executes a block-wise history on the implementation.
func runC8BScript(sc c8Script) (string, []string, bool, time.Duration, string) {
	r := &c8Run{sc: sc, lastGet: map[string]int32{}}
	r.setup()
	start := time.Now()
	var evs, outs, acts []string
	now := c8T0
	delivered, notDelivered, completed := 0, 0, 0
	for _, op := range sc.ops {
		var o, a []string
		switch op.kind {
		case 'R':
			op.piggy = false
			o = r.doReg(op)
			evs = append(evs, "BReg "+c8Bytes(op.tok))
		case 'W':
			now += op.dt * 1000000
			var ev string
			o, a, ev = r.doWire(op, now)
			evs = append(evs, ev)
			cb := false
			for _, x := range o {
				if strings.HasPrefix(x, "Cb ") {
					cb = true
				}
			}
			if cb {
				delivered++
				if op.fref >= 0 {
					completed++
				}
			} else {
				notDelivered++
			}
		case 'C':
			var ok bool
			o, ok = r.doCancel(op)
			if !ok {
				continue
			}
			evs = append(evs, fmt.Sprintf("BCancel %d %d", op.id, op.code))
		case 'X':
			var ok bool
			o, ok = r.doCancelErr(op)
			if !ok {
				continue
			}
			evs = append(evs, fmt.Sprintf("BCancelErr %d", op.id))
		}
		if r.bad != "" {
			break
		}
		for _, x := range o {
			f := strings.Fields(x)
			switch f[0] {
			case "RegRet":
				r.features["reg"+f[2]] = true
			case "CanRet":
				r.features["cancel"+f[2]] = true
			case "Nx":
				r.features["to-next-handler"] = true
			}
		}
		outs = append(outs, "["+strings.Join(o, "; ")+"]")
		acts = append(acts, "["+strings.Join(a, "; ")+"]")
	}
	elapsed := time.Since(start)
	var lm, pend []string
	for id, g := range r.regs {
		present := false
		if m, ok := r.cc.GetObservationRequest(g.tok); ok {
			present = true
			r.cc.ReleaseMessage(m)
		}
		lm = append(lm, coqBool(present))
		if !g.ret {
			pend = append(pend, strconv.Itoa(id)+"%nat")
		}
	}
	bad := r.bad
	r.teardown()
	if bad == "" {
		bad = r.bad
	}
	if bad != "" {
		outs = append(outs, "[Nx [] (-1)]")
	}
	if completed > 0 {
		r.features["blockwise-notification-delivered"] = true
	}
	if len(r.fresh) > 1 {
		r.features["several-transfers"] = true
	}
	feats := []string{fmt.Sprintf("regs=%d", len(r.regs)), "wire+blockwise-notifications"}
	for k := range r.features {
		feats = append(feats, k)
	}
	text := fmt.Sprintf("BHist [%s] [%s] [%s] [%s] [%s]", strings.Join(evs, "; "), strings.Join(outs, "; "), strings.Join(acts, "; "),
		strings.Join(lm, "; "), strings.Join(pend, "; "))
	return text, feats, len(r.fresh) > 0 && delivered > 0 && notDelivered > 0, elapsed, bad
}

// ---------- generators ----------

type c8BB struct {
	ops []c8Op
	rng *Rng
	tag int
	nf  int // transfers opened so far (as the script expects it)
}

func (b *c8BB) reg(tok []byte) int {
	n := 0
	for _, o := range b.ops {
		if o.kind == 'R' {
			n++
		}
	}
	b.ops = append(b.ops, c8Op{kind: 'R', tok: tok})
	return n
}

func (b *c8BB) typ() byte { return []byte{'n', 'n', 'c', 'a'}[b.rng.Intn(4)] }

// small: a notification that fits into one message
func (b *c8BB) small(tok []byte, seq uint32, etag []byte, dt int64) {
	b.tag++
	b.ops = append(b.ops, c8Op{kind: 'W', fref: -1, tok: tok, code: 69, hasObs: true, obs: c8Enc(seq&(1<<24-1), 0), etag: etag,
		typ: []byte{'n', 'c'}[b.rng.Intn(2)], dt: dt, tag: b.tag, plen: 2 + b.rng.Intn(6)})
}

// first: first block of a block-wise notification; returns the index of the transfer it opens
func (b *c8BB) first(tok []byte, seq uint32, etag []byte, szx int, dt int64) int {
	b.tag++
	b.ops = append(b.ops, c8Op{kind: 'W', fref: -1, tok: tok, code: 69, hasObs: true, obs: c8Enc(seq&(1<<24-1), 0), etag: etag,
		hasB2: true, szx: szx, num: 0, more: true, typ: []byte{'n', 'c'}[b.rng.Intn(2)], dt: dt, tag: b.tag, plen: 16 << uint(szx)})
	b.nf++
	return b.nf - 1
}

// firstDead: a first block for a token under which no observation is registered (no transfer is opened)
func (b *c8BB) firstDead(tok []byte, seq uint32, etag []byte, szx int) {
	b.first(tok, seq, etag, szx, 0)
	b.nf--
}

// block: block num of transfer k (answer to the GET under the drawn token: no Observe option)
func (b *c8BB) block(k int, etag []byte, szx, num int, more bool, plen int) {
	b.tag++
	if plen < 0 {
		plen = 16 << uint(szx)
		if !more {
			plen = 2 + b.rng.Intn(plen-1)
		}
	}
	b.ops = append(b.ops, c8Op{kind: 'W', fref: k, code: 69, etag: etag, hasB2: true, szx: szx, num: num, more: more, typ: b.typ(), tag: b.tag, plen: plen})
}

func (b *c8BB) cancel(id, code int)        { b.ops = append(b.ops, c8Op{kind: 'C', id: id, code: code}) }
func (b *c8BB) cancelErr(id int, how byte) { b.ops = append(b.ops, c8Op{kind: 'X', id: id, how: how}) }

// the fixed scenarios: a block-wise notification (seq 10) is overtaken by a newer one (seq 11) while it
// is being fetched; the representation changes under the transfer (other ETag), the transfer restarts at
// block 0; when the body is complete it belongs to seq 10 and must not reach the callback.
func c8GenBwFixed(rng *Rng, v int) []c8Op {
	b := &c8BB{rng: rng}
	tok := c8Tok(rng, 1+rng.Intn(8))
	e1, e2, e3 := []byte{0xe1, 0xe1}, []byte{0xe2, 0xe2}, []byte{0xe3}
	switch v {
	case 0: // the scenario above
		b.reg(tok)
		b.small(tok, 1, nil, 0)
		k := b.first(tok, 10, e1, 0, 0)
		b.small(tok, 11, nil, 0)
		b.block(k, e2, 0, 1, false, -1)
		b.block(k, e2, 0, 0, true, -1)
		b.block(k, e2, 0, 1, false, -1)
		b.small(tok, 12, nil, 0)
	case 1: // the same without the overtaking notification: the reassembled one is the newest and is delivered
		b.reg(tok)
		b.small(tok, 1, nil, 0)
		k := b.first(tok, 10, e1, 0, 0)
		b.block(k, e2, 0, 1, false, -1)
		b.block(k, e2, 0, 0, true, -1)
		b.block(k, e2, 0, 1, false, -1)
		b.small(tok, 10, nil, 0) // duplicate of what was delivered
		b.small(tok, 11, nil, 0)
	case 2: // stable ETag, three blocks, overtaken
		b.reg(tok)
		b.small(tok, 5, e1, 0)
		k := b.first(tok, 6, e1, 0, 0)
		b.block(k, e1, 0, 1, true, -1)
		b.small(tok, 7, e2, 0)
		b.block(k, e1, 0, 2, false, -1)
		b.small(tok, 8, e2, 0)
	case 3: // two transfers at once; the older one completes last
		b.reg(tok)
		b.small(tok, 1, nil, 0)
		k1 := b.first(tok, 2, e1, 0, 0)
		k2 := b.first(tok, 3, e2, 0, 0)
		b.block(k2, e2, 0, 1, false, -1)
		b.block(k1, e1, 0, 1, false, -1)
		b.small(tok, 4, nil, 0)
	case 4: // the ETag changes twice, the second time on block 0 of the restarted transfer
		b.reg(tok)
		b.small(tok, 1, nil, 0)
		k := b.first(tok, 20, e1, 1, 0)
		b.block(k, e1, 1, 1, true, -1)
		b.small(tok, 21, nil, 0)
		b.block(k, e2, 1, 2, false, -1)
		b.block(k, e3, 1, 0, true, -1)
		b.block(k, e3, 1, 1, false, -1)
		b.small(tok, 22, nil, 0)
	case 5: // the first response of the registration is block-wise
		b.reg(tok)
		k := b.first(tok, 1, e1, 0, 0)
		b.block(k, e1, 0, 1, true, -1)
		b.block(k, e1, 0, 2, false, -1)
		b.small(tok, 2, nil, 0)
		k = b.first(tok, 3, e2, 0, 0)
		b.small(tok, 4, nil, 0)
		b.block(k, e3, 0, 1, false, -1)
		b.block(k, e3, 0, 0, true, -1)
		b.block(k, e3, 0, 1, false, -1)
	case 6: // the observation is cancelled while a transfer is under way; the body arrives afterwards
		id := b.reg(tok)
		b.small(tok, 1, nil, 0)
		k := b.first(tok, 2, e1, 0, 0)
		b.cancel(id, 69)
		b.block(k, e2, 0, 1, false, -1)
		b.block(k, e2, 0, 0, true, -1)
		b.block(k, e2, 0, 1, false, -1)
		b.small(tok, 3, nil, 0)
	case 7: // the same with a Cancel whose deregistration gets no answer
		id := b.reg(tok)
		b.small(tok, 1, nil, 0)
		k := b.first(tok, 2, e1, 0, 0)
		b.cancelErr(id, 'c')
		b.block(k, e1, 0, 1, false, -1)
		b.small(tok, 3, nil, 0)
		k = b.first(tok, 4, e1, 0, 0)
		b.block(k, e1, 0, 1, false, -1)
	case 8: // ETag only on the follow-up blocks / only on the first block; wrong and repeated block numbers
		b.reg(tok)
		b.small(tok, 1, nil, 0)
		k := b.first(tok, 2, nil, 0, 0)
		b.small(tok, 3, nil, 0)
		b.block(k, e1, 0, 1, true, -1)
		b.block(k, e2, 0, 1, true, -1) // repeated
		b.block(k, e2, 0, 3, true, -1) // skipped one
		b.block(k, e2, 0, 2, false, -1)
		k = b.first(tok, 4, e1, 0, 0)
		b.block(k, nil, 0, 1, false, -1)
	case 9: // wrap-around: the block-wise notification has a sequence number just before the wrap
		b.reg(tok)
		b.small(tok, 1<<24-2, nil, 0)
		k := b.first(tok, 1<<24-1, e1, 0, 0)
		b.small(tok, 0, nil, 0)
		b.small(tok, 1, nil, 0)
		b.block(k, e2, 0, 1, false, -1)
		b.block(k, e2, 0, 0, true, -1)
		b.block(k, e2, 0, 1, false, -1)
		b.small(tok, 2, nil, 0)
	case 10: // more than 128 s pass before the old body is complete: then it is accepted again
		b.reg(tok)
		b.small(tok, 1, nil, 0)
		k := b.first(tok, 10, e1, 0, 0)
		b.small(tok, 11, nil, 0)
		b.block(k, e2, 0, 1, false, -1)
		b.block(k, e2, 0, 0, true, -1)
		b.ops[len(b.ops)-1].dt = 129000
		b.block(k, e2, 0, 1, false, -1)
	case 11: // what the block-wise layer refuses: a first block for a token nobody observes, a last block with
		// NUM > 0 and nothing to append it to, blocks under a token that was never drawn, after the transfer is over
		b.reg(tok)
		b.small(tok, 1, nil, 0)
		b.firstDead(c8Tok(rng, 3), 2, e1, 0)
		b.tag++
		b.ops = append(b.ops, c8Op{kind: 'W', fref: -1, tok: tok, code: 69, hasObs: true, obs: []byte{3}, hasB2: true, szx: 0, num: 2, more: false, typ: 'n', tag: b.tag, plen: 5})
		b.block(3, e1, 0, 1, false, -1) // f3 is never drawn
		k := b.first(tok, 4, e1, 0, 0)
		b.block(k, e1, 0, 1, false, -1)
		b.block(k, e1, 0, 1, false, -1)
		b.block(k, e1, 0, 0, true, -1)
		b.tag++
		b.ops = append(b.ops, c8Op{kind: 'W', fref: -1, tok: tok, code: 69, hasObs: true, obs: []byte{5}, hasB2: true, szx: 0, num: 0, more: false, typ: 'c', tag: b.tag, plen: 9})
		b.small(tok, 6, nil, 0)
	case 12: // the registration is refused (4.04) while its first, block-wise, answer ... and a 2.03 first block
		b.reg(tok)
		b.tag++
		b.ops = append(b.ops, c8Op{kind: 'W', fref: -1, tok: tok, code: 132, typ: 'n', tag: b.tag, plen: 4})
		b.firstDead(tok, 2, e1, 0)
		t2 := c8Tok(rng, 1+rng.Intn(8))
		b.reg(t2)
		k := b.first(t2, 7, e1, 0, 0)
		b.ops[len(b.ops)-1].code = 67
		b.block(k, e1, 0, 1, false, -1)
		b.small(t2, 8, nil, 0)
		b.small(t2, 7, nil, 0)
	default: // two observations, each with a transfer that restarts
		t2 := c8Tok(rng, 1+rng.Intn(8))
		b.reg(tok)
		b.reg(t2)
		b.small(tok, 1, nil, 0)
		b.small(t2, 1, nil, 0)
		k1 := b.first(tok, 2, e1, 0, 0)
		k2 := b.first(t2, 2, e1, 0, 0)
		b.small(tok, 3, nil, 0)
		b.block(k1, e2, 0, 1, false, -1)
		b.block(k2, e2, 0, 1, false, -1)
		b.block(k2, e2, 0, 0, true, -1)
		b.block(k1, e2, 0, 0, true, -1)
		b.block(k2, e2, 0, 1, false, -1)
		b.block(k1, e2, 0, 1, false, -1)
		b.small(t2, 3, nil, 0)
	}
	return b.ops
}

// random: one or two observations; small notifications, block-wise ones, their blocks served in order,
// with another ETag, with a wrong number; cancels in between
func c8GenBwRandom(rng *Rng) []c8Op {
	b := &c8BB{rng: rng}
	type xfer struct {
		k, szx, n, have int
		etag            []byte
		done            bool
	}
	nobs := 1 + rng.Intn(2)
	toks := make([][]byte, nobs)
	ids := make([]int, nobs)
	seq := make([]uint32, nobs)
	dead := make([]bool, nobs) // cancelled: a first block would not open a transfer any more
	for i := range toks {
		toks[i] = c8Tok(rng, 1+rng.Intn(8))
		ids[i] = b.reg(toks[i])
		seq[i] = c8Starts[rng.Intn(len(c8Starts))]
		if rng.Chance(70) {
			b.small(toks[i], seq[i], nil, 0)
		}
	}
	etags := [][]byte{nil, {0xe1}, {0xe2, 0x02}, {0xe3, 3, 3}}
	var xs []*xfer
	steps := 6 + rng.Intn(12)
	for s := 0; s < steps; s++ {
		i := rng.Intn(nobs)
		var open []*xfer
		for _, x := range xs {
			if !x.done {
				open = append(open, x)
			}
		}
		dt := int64(0)
		if rng.Chance(6) {
			dt = []int64{1000, 129000, 200000}[rng.Intn(3)]
		}
		switch {
		case len(open) > 0 && rng.Chance(50):
			x := open[rng.Intn(len(open))]
			et := x.etag
			num := x.have
			switch rng.Intn(10) {
			case 0, 1, 2: // the representation changed
				et = etags[1+rng.Intn(3)]
				if !bytes.Equal(et, x.etag) && x.etag != nil && num != 0 {
					x.have = -1 // the client starts again at block 0
				}
				x.etag = et
			case 3: // a block nobody asked for
				num = x.have + 1 + rng.Intn(2)
			case 4:
				if num > 0 {
					num--
				}
			}
			more := num < x.n-1
			b.block(x.k, et, x.szx, num, more, -1)
			b.ops[len(b.ops)-1].dt = dt
			if num == x.have {
				x.have++
				if !more {
					x.done = true
				}
			} else if x.have < 0 {
				x.have = 0
			}
		case dead[i] && rng.Chance(15):
			seq[i] = (seq[i] + 1) & (1<<24 - 1)
			b.firstDead(toks[i], seq[i], etags[rng.Intn(4)], rng.Intn(2))
		case !dead[i] && rng.Chance(35):
			seq[i] = (seq[i] + 1) & (1<<24 - 1)
			szx := rng.Intn(2)
			et := etags[rng.Intn(4)]
			k := b.first(toks[i], seq[i], et, szx, dt)
			xs = append(xs, &xfer{k: k, szx: szx, n: 2 + rng.Intn(2), have: 1, etag: et})
		case rng.Chance(8):
			dead[i] = true
			if rng.Chance(40) {
				b.cancelErr(ids[i], []byte{'c', 'a', 'e', 'w'}[rng.Intn(4)])
			} else {
				b.cancel(ids[i], []int{69, 132}[rng.Intn(2)])
			}
		default:
			v := seq[i] + 1
			if rng.Chance(15) {
				v = seq[i] - uint32(rng.Intn(3)) // duplicate / stale
			} else {
				seq[i] = v & (1<<24 - 1)
			}
			b.small(toks[i], v, etags[rng.Intn(4)], dt)
		}
	}
	// finish what is still open, then one more small notification per observation
	for _, x := range xs {
		for !x.done && x.have >= 0 && x.have < x.n {
			more := x.have < x.n-1
			b.block(x.k, x.etag, x.szx, x.have, more, -1)
			x.have++
			x.done = !more
		}
	}
	for i := range toks {
		seq[i] = (seq[i] + 1) & (1<<24 - 1)
		b.small(toks[i], seq[i], nil, 0)
	}
	return b.ops
}
