package main

// C17, family "adapt": histories on one mux.Router like family "hist", but
// every request is dispatched through mux.ToHandler(router) -- the function the
// udp/tcp/dtls servers install -- with a responsewriter.ResponseWriter, and the
// RouteParams are recorded at the moment the first middleware / the handler is
// INVOKED (a copy of what it can read), not read from the request afterwards:
// the Message and its RouteParams are created inside the adapter.
// Model: Router/Model.v to_handler / run_adapter (a new RouteParams per request,
// Match writes into it), theorem C17_adapter.
//
// Descriptor:  adapt <mws>|<ev> <ev> ...   (same events as "hist")

import (
	"context"
	"fmt"
	"sort"
	"strings"

	"github.com/plgd-dev/go-coap/v3/message/codes"
	"github.com/plgd-dev/go-coap/v3/message/pool"
	"github.com/plgd-dev/go-coap/v3/mux"
	"github.com/plgd-dev/go-coap/v3/net/responsewriter"
)

// what is recorded while ONE request is served
type c17ARec struct {
	trace  []string
	params string // Coq text of the RouteParams as first seen; "" = nobody saw them
	keys   []string
	hd     bool
	resp   *pool.Message
}

type c17ARecorder struct{ cur *c17ARec }

func (rc *c17ARecorder) see(m *mux.Message) {
	c := rc.cur
	if c == nil || c.params != "" {
		return
	}
	rp := m.RouteParams
	if rp == nil || (len(rp.Vars) == 0 && rp.PathTemplate == "" && rp.Path == "") {
		c.params = "None"
		return
	}
	keys := make([]string, 0, len(rp.Vars))
	for k := range rp.Vars {
		keys = append(keys, k)
	}
	sort.Strings(keys)
	kv := make([]string, len(keys))
	for i, k := range keys {
		kv[i] = fmt.Sprintf("(%s, %s)", coqStr(k), coqStr(rp.Vars[k]))
	}
	c.keys = keys
	c.params = fmt.Sprintf("Some (%s, %s, [%s])", coqStr(rp.Path), coqStr(rp.PathTemplate), strings.Join(kv, "; "))
}

// the built-in default handler of NewRouter answers 4.04 through the writer;
// it is noticed when control comes back (before the enclosing middleware leaves)
func (rc *c17ARecorder) builtin() {
	c := rc.cur
	if c != nil && !c.hd && c.resp != nil && c.resp.Code() == codes.NotFound {
		c.trace = append(c.trace, "Hd 0")
		c.hd = true
	}
}

func (rc *c17ARecorder) handler(id int) mux.Handler {
	return mux.HandlerFunc(func(_ mux.ResponseWriter, m *mux.Message) {
		rc.see(m)
		rc.cur.trace = append(rc.cur.trace, fmt.Sprintf("Hd %d", id))
		rc.cur.hd = true
	})
}

func (rc *c17ARecorder) middleware(id int, pass bool) mux.MiddlewareFunc {
	return func(next mux.Handler) mux.Handler {
		return mux.HandlerFunc(func(w mux.ResponseWriter, m *mux.Message) {
			rc.see(m)
			rc.cur.trace = append(rc.cur.trace, fmt.Sprintf("MwIn %d", id))
			if pass {
				next.ServeCOAP(w, m)
				rc.builtin()
			}
			rc.cur.trace = append(rc.cur.trace, fmt.Sprintf("MwOut %d", id))
		})
	}
}

func (rc *c17ARecorder) apply(r *mux.Router, o c17Op) (code int) {
	defer func() {
		if recover() != nil {
			code = 2
		}
	}()
	var err error
	switch o.K {
	case "H":
		if o.H < 0 {
			err = r.Handle(o.P, nil)
		} else {
			err = r.Handle(o.P, rc.handler(o.H))
		}
	case "R":
		err = r.HandleRemove(o.P)
	default:
		if o.H < 0 {
			r.DefaultHandle(nil)
		} else {
			r.DefaultHandle(rc.handler(o.H))
		}
	}
	if err != nil {
		return 1
	}
	return 0
}

type c17AStats struct {
	reqs, toRoute, toDefault int
	uncovered                int // the previous request had a variable name that this request's route has not
}

func c17RunAdapt(h c17Hist) (coq string, st c17AStats) {
	r := mux.NewRouter()
	r.SetErrorHandler(func(error) {})
	rc := &c17ARecorder{}
	mws := make([]string, len(h.Mws))
	for i, m := range h.Mws {
		r.Use(rc.middleware(m.ID, m.Pass))
		mws[i] = fmt.Sprintf("(%d, %s)", m.ID, coqBool(m.Pass))
	}
	serve := mux.ToHandler[mux.Conn](r)
	ctx := context.Background()
	var prevKeys []string
	steps := make([]string, len(h.Steps))
	for i, s := range h.Steps {
		if s.op != nil {
			code := rc.apply(r, *s.op)
			steps[i] = fmt.Sprintf("HO (%s) %d", s.op.coq(), code)
			continue
		}
		req := c17Request(s.segs, c17HSalt(s.segs)).Message
		resp := pool.NewMessage(ctx)
		rec := &c17ARec{resp: resp}
		rc.cur = rec
		func() {
			defer func() {
				if recover() != nil {
					rec.trace = append(rec.trace, "Hd (-1)")
					rec.hd = true
				}
			}()
			serve(responsewriter.New[mux.Conn](resp, nil), req)
			rc.builtin()
		}()
		rc.cur = nil
		if rec.params == "" {
			rec.params = "None"
		}
		steps[i] = fmt.Sprintf("HQ (%s, [%s], %s)", coqStrList(s.segs), strings.Join(rec.trace, "; "), rec.params)
		st.reqs++
		if strings.HasPrefix(rec.params, "Some") {
			st.toRoute++
		} else {
			st.toDefault++
		}
		for _, k := range prevKeys {
			found := false
			for _, k2 := range rec.keys {
				found = found || k == k2
			}
			if !found {
				st.uncovered++
				break
			}
		}
		prevKeys = rec.keys
	}
	return fmt.Sprintf("Adapt [%s] [%s]", strings.Join(mws, "; "), strings.Join(steps, ";\n    ")), st
}

func (h c17Hist) adaptDesc() string { return "adapt " + strings.TrimPrefix(h.desc(), "hist ") }

func c17FixedAdapts() []c17Hist {
	q := func(p string) c17HStep { return c17HStep{segs: c17Segs(nil, p)} }
	hd := func(p string, h int) c17HStep { return c17HStep{op: &c17Op{K: "H", P: p, H: h}} }
	rm := func(p string) c17HStep { return c17HStep{op: &c17Op{K: "R", P: p}} }
	df := func(h int) c17HStep { return c17HStep{op: &c17Op{K: "D", H: h}} }
	base := []c17HStep{hd("/dev/{id}", 1), hd("/grp/{name:[a-z]+}/{member}", 2), hd("/static", 3), df(1000)}
	rounds := []c17HStep{q("/dev/42"), q("/grp/abc/7"), q("/static"), q("/dev/43"), q("/nothing/here"), q("/grp/x/y"), q("/dev/42")}
	var a []c17HStep
	a = append(a, base...)
	for i := 0; i < 3; i++ {
		a = append(a, rounds...)
	}
	return []c17Hist{
		{Steps: a},
		// the built-in default handler and a middleware that sees the RouteParams first
		{Mws: []c17Mw{{1, true}}, Steps: []c17HStep{hd("/a/{x}/{y}", 1), q("/a/1/2"), q("/zzz"), q("/a/1/2"), hd("/zzz", 2), q("/zzz"), hd("/{x}", 3), q("/q"), q("/zzz"),
			rm("/zzz"), q("/zzz"), q("/a/3/4"), q("/q")}},
		// same variable name in different routes, a route without variables in between, a blocking middleware
		{Mws: []c17Mw{{1, true}, {2, false}}, Steps: []c17HStep{hd("/u/{v}", 1), hd("/w/{v}/{v2}", 2), hd("/lit", 3), q("/w/a/b"), q("/u/c"), q("/lit"), q("/w/d/e"), q("/none"), q("/u/f")}},
		// variables with the same name twice in one pattern, then fewer variables
		{Steps: []c17HStep{hd("/{v}/{v}", 1), hd("/{w}", 2), hd("/", 3), q("/a/b"), q("/c"), q("/"), q(""), q("/a/b"), df(-1), q("/x/y/z"), df(1001), q("/x/y/z"), q("/c")}},
	}
}

func c17AddAdaptFamily(e *Emitter, rng *Rng, thorough bool) {
	add := func(h c17Hist, tag string) {
		coq, st := c17RunAdapt(h)
		e.Extra["adapt_dispatches"] = toInt(e.Extra["adapt_dispatches"]) + st.reqs
		e.Extra["adapt_previous_request_had_other_variables"] = toInt(e.Extra["adapt_previous_request_had_other_variables"]) + st.uncovered
		e.AddW(coq, h.adaptDesc(), st.uncovered > 0 && st.toRoute > 0, 1+st.reqs/3, tag, fmt.Sprintf("adapt-uncovered-%d", min(st.uncovered, 5)))
	}
	for _, h := range c17FixedAdapts() {
		add(h, "adapt-fixed")
	}
	for _, h := range c17FixedHists() {
		add(h, "adapt-fixed")
	}
	step := 4
	if thorough {
		step = 1
	}
	for i := range c17SmallT {
		for j := i + 1; j < len(c17SmallT); j++ {
			if (i+j)%step == 0 {
				add(c17PairHist(c17SmallT[i], c17SmallT[j], thorough), "adapt-pairs")
			}
		}
	}
	n := 40
	if thorough {
		n = 1000
	}
	for i := 0; i < n; i++ {
		add(c17GenHist(rng), "adapt-random")
	}
}
