package main

// C17, family "excl": the lock discipline of mux.Router, WITNESSED instead of
// raced for.  One request is dispatched; the hook verifScanPoint (build tag
// verif, first statement of pathMatch) reports every route the longest-match
// scan of Router.Match visits, on the scanning goroutine.  At every visit the
// router's lock is probed (Router.VerifLockFree: TryLock succeeds = nobody
// holds it, so the scan reads the route table unguarded).  At the k-th visit
// the scanning goroutine is parked and another goroutine calls Handle /
// HandleRemove / DefaultHandle; the harness waits for one of two witnesses:
// the call has returned (it ran to completion in the middle of the scan), or a
// writer is announced on the lock (Router.VerifWriterPending: TryRLock is
// refused) -- which, while the scanning goroutine holds the read lock, can only
// mean that the caller is waiting.  Then the scan goes on, both finish, and the
// same request is sent once more.  No sleeps; no outcome depends on how long
// anything takes (a wait that expires drops the case, it never fails it).
// Model: Router/Model.v fstep / frun (fine-grained locking), theorems
// C17_fine_exclusion, C17_fine_atomic.
//
// Descriptor:  excl <k>|<ev> ... Q:<segs> ... M<op>
//   <ev> as in "hist" (H<h>:<pat>, R:<pat>, D<h>) = operations before the request,
//   exactly one Q (the request) and exactly one M-event (MH<h>:<pat>, MR:<pat>,
//   MD<h>) = the operation issued during the scan.

import (
	"fmt"
	"runtime"
	"strconv"
	"strings"
	"time"

	"github.com/plgd-dev/go-coap/v3/mux"
)

type c17Excl struct {
	K    int
	Pre  []c17Op
	Segs []string
	HasQ bool
	Op   *c17Op
}

func (x c17Excl) desc() string {
	h := c17Hist{}
	for i := range x.Pre {
		h.Steps = append(h.Steps, c17HStep{op: &x.Pre[i]})
	}
	h.Steps = append(h.Steps, c17HStep{segs: x.Segs})
	d := strings.TrimPrefix(h.desc(), "hist -|")
	m := c17Hist{Steps: []c17HStep{{op: x.Op}}}
	return fmt.Sprintf("excl %d|%s M%s", x.K, d, strings.TrimPrefix(m.desc(), "hist -|"))
}

func c17ParseExcl(desc string) (x c17Excl, err error) {
	body := strings.TrimPrefix(desc, "excl ")
	parts := strings.SplitN(body, "|", 2)
	if len(parts) != 2 {
		return x, fmt.Errorf("excl descriptor without '|': %q", desc)
	}
	if x.K, err = strconv.Atoi(strings.TrimSpace(parts[0])); err != nil {
		return x, err
	}
	for _, ev := range strings.Fields(parts[1]) {
		isM := ev[0] == 'M'
		if isM {
			ev = ev[1:]
		}
		h, e := c17ParseHist("hist -|" + ev)
		if e != nil || len(h.Steps) != 1 {
			return x, fmt.Errorf("bad event %q", ev)
		}
		s := h.Steps[0]
		switch {
		case isM && s.op != nil && x.Op == nil:
			x.Op = s.op
		case isM:
			return x, fmt.Errorf("bad M event %q", ev)
		case s.op != nil && !x.HasQ:
			x.Pre = append(x.Pre, *s.op)
		case s.op == nil && !x.HasQ:
			x.Segs, x.HasQ = s.segs, true
		default:
			return x, fmt.Errorf("event %q after the request", ev)
		}
	}
	return x, nil
}

// c17RunExcl returns "" when the scenario is not applicable (no request, no
// operation, no live route to park at) or a wait expired.
func c17RunExcl(x c17Excl, patience time.Duration) (coq string, note string, unguarded bool) {
	if !x.HasQ || x.Op == nil {
		return "", "incomplete", false
	}
	r := mux.NewRouter()
	r.SetErrorHandler(func(error) {})
	pre := make([]string, len(x.Pre))
	for i, o := range x.Pre {
		pre[i] = fmt.Sprintf("(%s, %d)", o.coq(), o.apply(r))
	}
	n := len(r.GetRoutes())
	if n == 0 {
		return "", "no-route", false
	}
	k := x.K % n
	var visited []string
	var held []string
	inside := false
	expired := false
	code := -1
	mDone := make(chan struct{})
	launched := false
	hook := func(pattern, _ string) {
		free := r.VerifLockFree()
		unguarded = unguarded || free
		held = append(held, coqBool(!free))
		idx := len(visited)
		visited = append(visited, pattern)
		if idx != k || launched {
			return
		}
		launched = true
		go func() {
			code = x.Op.apply(r)
			close(mDone)
		}()
		deadline := time.Now().Add(patience)
		if free {
			// nobody holds the lock, so nothing can keep the operation from finishing; let it
			// finish before the scan goes on (the scan must not iterate a map that is being written)
			select {
			case <-mDone:
				inside = true
			case <-time.After(patience):
				expired = true
			}
			return
		}
		for {
			select {
			case <-mDone:
				inside = true
				return
			default:
			}
			if r.VerifWriterPending() {
				return // announced and, since this goroutine holds the lock for reading, waiting
			}
			if time.Now().After(deadline) {
				expired = true
				return
			}
			runtime.Gosched()
		}
	}
	mux.VerifSetScanHook(hook)
	obs, _ := c17Serve(r, x.Segs, c17HSalt(x.Segs))
	mux.VerifSetScanHook(nil)
	if !launched {
		return "", "not-reached", false
	}
	select {
	case <-mDone:
	case <-time.After(patience):
		return "", "expired", false
	}
	if expired {
		return "", "expired", false
	}
	post, _ := c17Serve(r, x.Segs, c17HSalt(x.Segs))
	return fmt.Sprintf("Excl [%s] %s %s %d [%s]\n    (%s) %s %d\n    %s\n    %s", strings.Join(pre, "; "), coqStrList(x.Segs), coqStrList(visited), k,
		strings.Join(held, "; "), x.Op.coq(), coqBool(inside), code, obs, post), "", unguarded
}

// operations that take effect, operations that fail under the lock, operations that return before the lock
func c17ExclOps(rng *Rng, live []string, hid *int) []c17Op {
	var ops []c17Op
	nh := func() int { *hid++; return *hid }
	ops = append(ops, c17Op{K: "H", P: "/n/{z}", H: nh()}, c17Op{K: "D", H: 1000 + rng.Intn(3)})
	if len(live) > 0 {
		p := live[rng.Intn(len(live))]
		ops = append(ops, c17Op{K: "R", P: p}, c17Op{K: "H", P: p, H: nh()})
	}
	if rng.Chance(30) {
		ops = append(ops, c17Op{K: "R", P: "/never"})
	}
	if rng.Chance(20) {
		ops = append(ops, c17Op{K: "H", P: "/a/{v:[a}", H: nh()}, c17Op{K: "H", P: "/ok", H: -1})
	}
	return ops
}

func c17AddExclFamily(e *Emitter, rng *Rng, thorough bool) (violated bool) {
	patience := 120 * time.Second
	add := func(x c17Excl, tag string) {
		coq, note, unguarded := c17RunExcl(x, patience)
		if coq == "" {
			e.Extra["excl_dropped_"+note] = toInt(e.Extra["excl_dropped_"+note]) + 1
			return
		}
		e.Extra["excl_cases"] = toInt(e.Extra["excl_cases"]) + 1
		violated = violated || unguarded
		e.AddW(coq, x.desc(), true, 2, tag, "excl-op-"+x.Op.K)
	}
	q := func(p string) []string { return c17Segs(nil, p) }
	// spelled out: the stable routes of the concurrent run, every kind of operation at every visit
	var pre []c17Op
	for _, s := range c17Stable {
		pre = append(pre, c17Op{K: "H", P: s.P, H: s.H})
	}
	for k := 0; k < len(c17Stable); k++ {
		for i, o := range []c17Op{{K: "H", P: "/c/{v:[a-z]+}", H: 10}, {K: "R", P: "/c/a"}, {K: "D", H: 1001}, {K: "H", P: "/c/a", H: 20}, {K: "R", P: "/never"}, {K: "H", P: "/x", H: -1}} {
			o := o
			add(c17Excl{K: k, Pre: pre, Segs: q([]string{"/c/a", "/c/1", "/zzz/q", "/"}[(k+i)%4]), HasQ: true, Op: &o}, "excl-fixed")
		}
	}
	n := 25
	if thorough {
		n = 600
	}
	for i := 0; i < n; i++ {
		d := c17GenDisp(rng)
		var live []string
		for _, o := range d.Ops {
			if o.K == "H" && o.H >= 0 {
				live = append(live, o.P)
			}
		}
		hid := 700
		ops := c17ExclOps(rng, live, &hid)
		for j := 0; j < 2 && j < len(d.Reqs); j++ {
			o := ops[rng.Intn(len(ops))]
			add(c17Excl{K: rng.Intn(8), Pre: d.Ops, Segs: d.Reqs[rng.Intn(len(d.Reqs))], HasQ: true, Op: &o}, "excl-random")
		}
	}
	return violated
}
