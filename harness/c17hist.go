package main

// C17, family "hist": HISTORIES on one mux.Router. Operations (Handle /
// HandleRemove / DefaultHandle) and requests are interleaved, and the same
// paths are sent again after later operations: a dispatch must depend on the
// routes registered at that moment only, never on what was dispatched before
// (Router/Model.v run_hist, theorems C17_history / C17_takeover).
//
// Descriptor:  hist <mws>|<ev> <ev> ...      (bin/check shrinks it by dropping events)
//   <mws>  "-" or comma separated <id>p (calls next) / <id>b (answers itself)
//   <ev>   H<h>:<pattern>   Handle, h = -1: nil handler
//          R:<pattern>      HandleRemove
//          D<h>             DefaultHandle, h = -1: nil
//          Q                request without Uri-Path option
//          Q:<seg>,<seg>..  request with these Uri-Path options
// patterns and segments are %XX-escaped (space , | % and non-printables).

import (
	"fmt"
	"strconv"
	"strings"

	"github.com/plgd-dev/go-coap/v3/mux"
)

type c17HStep struct {
	op   *c17Op
	segs []string // request (op == nil); nil = no Uri-Path option
}

type c17Hist struct {
	Mws   []c17Mw
	Steps []c17HStep
}

func c17Esc(s string) string {
	var sb strings.Builder
	for i := 0; i < len(s); i++ {
		c := s[i]
		if c <= 0x20 || c >= 0x7f || c == '%' || c == ',' || c == '|' {
			fmt.Fprintf(&sb, "%%%02X", c)
		} else {
			sb.WriteByte(c)
		}
	}
	return sb.String()
}

func c17Unesc(s string) (string, error) {
	var sb strings.Builder
	for i := 0; i < len(s); i++ {
		if s[i] != '%' {
			sb.WriteByte(s[i])
			continue
		}
		if i+3 > len(s) {
			return "", fmt.Errorf("bad escape in %q", s)
		}
		v, err := strconv.ParseUint(s[i+1:i+3], 16, 8)
		if err != nil {
			return "", err
		}
		sb.WriteByte(byte(v))
		i += 2
	}
	return sb.String(), nil
}

func (h c17Hist) desc() string {
	mw := "-"
	if len(h.Mws) > 0 {
		p := make([]string, len(h.Mws))
		for i, m := range h.Mws {
			p[i] = fmt.Sprintf("%d%s", m.ID, map[bool]string{true: "p", false: "b"}[m.Pass])
		}
		mw = strings.Join(p, ",")
	}
	evs := make([]string, len(h.Steps))
	for i, s := range h.Steps {
		switch {
		case s.op == nil && s.segs == nil:
			evs[i] = "Q"
		case s.op == nil:
			p := make([]string, len(s.segs))
			for j, g := range s.segs {
				p[j] = c17Esc(g)
			}
			evs[i] = "Q:" + strings.Join(p, ",")
		case s.op.K == "H":
			evs[i] = fmt.Sprintf("H%d:%s", s.op.H, c17Esc(s.op.P))
		case s.op.K == "R":
			evs[i] = "R:" + c17Esc(s.op.P)
		default:
			evs[i] = fmt.Sprintf("D%d", s.op.H)
		}
	}
	return "hist " + mw + "|" + strings.Join(evs, " ")
}

func c17ParseHist(desc string) (h c17Hist, err error) {
	body := strings.TrimPrefix(desc, "hist ")
	parts := strings.SplitN(body, "|", 2)
	if len(parts) != 2 {
		return h, fmt.Errorf("hist descriptor without '|': %q", desc)
	}
	if mw := strings.TrimSpace(parts[0]); mw != "-" && mw != "" {
		for _, m := range strings.Split(mw, ",") {
			if len(m) < 2 {
				return h, fmt.Errorf("bad middleware %q", m)
			}
			id, e := strconv.Atoi(m[:len(m)-1])
			if e != nil {
				return h, e
			}
			h.Mws = append(h.Mws, c17Mw{ID: id, Pass: m[len(m)-1] == 'p'})
		}
	}
	for _, ev := range strings.Fields(parts[1]) {
		switch ev[0] {
		case 'Q':
			if ev == "Q" {
				h.Steps = append(h.Steps, c17HStep{})
				continue
			}
			if !strings.HasPrefix(ev, "Q:") {
				return h, fmt.Errorf("bad event %q", ev)
			}
			segs := []string{}
			for _, g := range strings.Split(ev[2:], ",") {
				u, e := c17Unesc(g)
				if e != nil {
					return h, e
				}
				segs = append(segs, u)
			}
			h.Steps = append(h.Steps, c17HStep{segs: segs})
		case 'H', 'R':
			kv := strings.SplitN(ev[1:], ":", 2)
			if len(kv) != 2 {
				return h, fmt.Errorf("bad event %q", ev)
			}
			p, e := c17Unesc(kv[1])
			if e != nil {
				return h, e
			}
			o := &c17Op{K: string(ev[0]), P: p}
			if ev[0] == 'H' {
				if o.H, e = strconv.Atoi(kv[0]); e != nil {
					return h, e
				}
			}
			h.Steps = append(h.Steps, c17HStep{op: o})
		case 'D':
			id, e := strconv.Atoi(ev[1:])
			if e != nil {
				return h, e
			}
			h.Steps = append(h.Steps, c17HStep{op: &c17Op{K: "D", H: id}})
		default:
			return h, fmt.Errorf("bad event %q", ev)
		}
	}
	return h, nil
}

type c17HStats struct {
	reqs, toRoute, toDefault int
	revisits                 int // a path dispatched again after a successful Handle/HandleRemove/DefaultHandle in between
	switches                 int // ... and answered by another route / by the default instead of a route (or vice versa)
}

// the other options around the Uri-Path run depend on the request only, so
// that dropping events (shrinking) does not change the remaining requests
func c17HSalt(segs []string) int {
	n := 7 * len(segs)
	for _, s := range segs {
		n += len(s)
	}
	return n
}

func c17RunHist(h c17Hist) (coq string, st c17HStats) {
	r := mux.NewRouter()
	r.SetErrorHandler(func(error) {})
	mws := make([]string, len(h.Mws))
	for i, m := range h.Mws {
		r.Use(c17Middleware(m.ID, m.Pass))
		mws[i] = fmt.Sprintf("(%d, %s)", m.ID, coqBool(m.Pass))
	}
	type seen struct {
		epoch int
		tmpl  string
	}
	last := map[string]seen{}
	epoch := 0
	steps := make([]string, len(h.Steps))
	for i, s := range h.Steps {
		if s.op != nil {
			code := s.op.apply(r)
			if code == 0 {
				epoch++
			}
			steps[i] = fmt.Sprintf("HO (%s) %d", s.op.coq(), code)
			continue
		}
		obs, tmpl := c17Serve(r, s.segs, c17HSalt(s.segs))
		steps[i] = "HQ " + obs
		st.reqs++
		if tmpl != "" {
			st.toRoute++
		} else {
			st.toDefault++
		}
		key := "-"
		if s.segs != nil {
			key = strings.Join(s.segs, "\x00")
		}
		if p, ok := last[key]; ok && p.epoch != epoch {
			st.revisits++
			if p.tmpl != tmpl {
				st.switches++
			}
		}
		last[key] = seen{epoch, tmpl}
	}
	return fmt.Sprintf("Hist [%s] [%s]", strings.Join(mws, "; "), strings.Join(steps, ";\n    ")), st
}

// ---- generators ----

func c17Q(paths []string) []c17HStep {
	out := make([]c17HStep, len(paths))
	for i, p := range paths {
		out[i] = c17HStep{segs: c17Segs(nil, p)}
	}
	return out
}

// paths of the small catalogue that reach a route when only the templates [ts]
// are registered (input selection only: the verdict never depends on it), plus
// one path that reaches none
func c17RelevantPaths(ts []string, all bool) []string {
	if all {
		return c17SmallP
	}
	var rel []string
	miss := ""
	for _, p := range c17SmallP {
		hit := false
		for _, t := range ts {
			r := mux.NewRouter()
			if r.Handle(t, c17Handler(1)) != nil {
				continue
			}
			if _, tmpl := c17Serve(r, c17Segs(nil, p), 0); tmpl != "" {
				hit = true
			}
		}
		if hit {
			rel = append(rel, p)
		} else if miss == "" && p != "" {
			miss = p
		}
	}
	if miss != "" {
		rel = append(rel, miss)
	}
	return rel
}

// systematic: for two templates A, B every way in which one of them appears or
// disappears while the other one is registered, the same paths after every step
func c17PairHist(a, b string, allPaths bool) c17Hist {
	q := c17Q(c17RelevantPaths([]string{a, b}, allPaths))
	op := func(k, p string, h int) []c17HStep { return []c17HStep{{op: &c17Op{K: k, P: p, H: h}}} }
	var s []c17HStep
	add := func(x []c17HStep) { s = append(s, x...); s = append(s, q...) }
	s = append(s, q...) // nothing registered: everything to the built-in default
	add(op("H", a, 1))  // A alone
	add(op("H", b, 2))  // B registered after the paths were served by A / the default
	add(op("R", a, 0))  // A removed: B alone
	add(op("H", a, 3))  // A registered after the paths were served by B, new handler
	add(op("R", b, 0))  // A alone again
	add(op("R", a, 0))  // nothing registered
	return c17Hist{Mws: []c17Mw{{1, true}}, Steps: s}
}

// random: the operations of a random dispatch case (overlapping variants,
// malformed templates, removals, default changes, re-registrations), a pool of
// paths instantiated from its templates; after every operation some of the pool
// paths are sent (again)
func c17GenHist(rng *Rng) c17Hist {
	d := c17GenDisp(rng)
	pool := d.Reqs
	var h c17Hist
	h.Mws = d.Mws
	send := func(n int) {
		for i := 0; i < n; i++ {
			h.Steps = append(h.Steps, c17HStep{segs: pool[rng.Intn(len(pool))]})
		}
	}
	// a few paths that are sent after EVERY operation
	hot := []int{rng.Intn(len(pool)), rng.Intn(len(pool))}
	sendHot := func() {
		for _, i := range hot {
			h.Steps = append(h.Steps, c17HStep{segs: pool[i]})
		}
	}
	var pats []string
	sendHot()
	for i := range d.Ops {
		o := d.Ops[i]
		h.Steps = append(h.Steps, c17HStep{op: &o})
		if o.K == "H" && o.H >= 0 {
			pats = append(pats, o.P)
		}
		sendHot()
		send(rng.Intn(3))
	}
	// tail: remove / re-register / switch the default, the pool after each
	hid := 500
	for i, n := 0, 2+rng.Intn(4); i < n && len(pats) > 0; i++ {
		p := pats[rng.Intn(len(pats))]
		var o c17Op
		switch rng.Intn(5) {
		case 0, 1:
			o = c17Op{K: "R", P: p}
		case 2, 3:
			hid++
			o = c17Op{K: "H", P: p, H: hid}
		default:
			o = c17Op{K: "D", H: 1000 + rng.Intn(3)}
			if rng.Chance(20) {
				o.H = -1
			}
		}
		h.Steps = append(h.Steps, c17HStep{op: &o})
		sendHot()
		send(rng.Intn(3))
	}
	return h
}

// the scenarios of the round-2 seeds, spelled out
func c17FixedHists() []c17Hist {
	q := func(p string) c17HStep { return c17HStep{segs: c17Segs(nil, p)} }
	hd := func(p string, h int) c17HStep { return c17HStep{op: &c17Op{K: "H", P: p, H: h}} }
	rm := func(p string) c17HStep { return c17HStep{op: &c17Op{K: "R", P: p}} }
	return []c17Hist{
		{Steps: []c17HStep{hd("/dev/{id}", 1), q("/dev/42"), hd("/dev/{id:[0-9]+}", 2), q("/dev/7"), q("/dev/42"), q("/dev/x"),
			rm("/dev/{id:[0-9]+}"), q("/dev/42"), rm("/dev/{id}"), q("/dev/42")}},
		{Mws: []c17Mw{{1, true}, {2, true}}, Steps: []c17HStep{q("/status"), hd("/status", 1), q("/status"), hd("/{a}", 2), q("/status"), q("/other"),
			rm("/{a}"), q("/status"), q("/other"), hd("/{a}", 3), q("/status"), rm("/status"), q("/status"), rm("/{a}"), q("/status")}},
		// the longer route is registered, served, removed and registered again with another handler
		{Steps: []c17HStep{hd("/{v}", 1), hd("/{v:[a-z]+}", 2), q("/ab"), rm("/{v:[a-z]+}"), q("/ab"), hd("/{v:[a-z]+}", 3), q("/ab"),
			{op: &c17Op{K: "D", H: 1001}}, q("/ab"), q("/a/b"), rm("/{v}"), rm("/{v:[a-z]+}"), q("/ab"), q("/a/b")}},
		// handler of a served route replaced without removal; default handler switched (also to nil) between two requests of an unmatched path
		{Mws: []c17Mw{{1, true}}, Steps: []c17HStep{hd("/x/{v}", 1), q("/x/1"), q("/y"), hd("/x/{v}", 2), q("/x/1"), {op: &c17Op{K: "D", H: 1001}}, q("/y"), q("/x/1"),
			{op: &c17Op{K: "D", H: -1}}, q("/y"), q("/x/1"), {op: &c17Op{K: "D", H: 1002}}, q("/y"), hd("/y", 3), q("/y")}},
	}
}

func c17AddHistFamily(e *Emitter, rng *Rng, thorough bool) {
	add := func(h c17Hist, tag string) {
		coq, st := c17RunHist(h)
		e.Extra["hist_dispatches"] = toInt(e.Extra["hist_dispatches"]) + st.reqs
		e.Extra["hist_revisits_after_change"] = toInt(e.Extra["hist_revisits_after_change"]) + st.revisits
		e.Extra["hist_revisits_switched_route"] = toInt(e.Extra["hist_revisits_switched_route"]) + st.switches
		e.AddW(coq, h.desc(), st.switches > 0 && st.toRoute > 0, 1+st.reqs/3, tag, fmt.Sprintf("hist-switches-%d", min(st.switches, 5)))
	}
	for _, h := range c17FixedHists() {
		add(h, "hist-fixed")
	}
	for i := range c17SmallT {
		for j := i + 1; j < len(c17SmallT); j++ {
			add(c17PairHist(c17SmallT[i], c17SmallT[j], thorough), "hist-pairs")
		}
	}
	n := 70
	if thorough {
		n = 2000
	}
	for i := 0; i < n; i++ {
		add(c17GenHist(rng), "hist-random")
	}
}
