package main

import (
	"fmt"
	"path/filepath"
	"strings"

	udpClient "github.com/plgd-dev/go-coap/v3/udp/client"
)

// genDedupConsts writes Gen/DedupConsts.v: the validity of an entry of the response cache of
// udp/client.Conn (messageCache.Store: time.Now().Add(ExchangeLifetime)), in nanoseconds
// (time.Duration). Dedup/Model.v derives LIFETIME (milliseconds) from it; Dedup/Proofs.v proves that it
// equals the 247 s of RFC 7252 section 4.8.2 that the specification (Dedup/Spec.v) is written with.
func genDedupConsts(out string) error {
	var sb strings.Builder
	sb.WriteString(genHeader)
	sb.WriteString("(* udp/client/conn.go: const ExchangeLifetime (time.Duration, nanoseconds) *)\n")
	fmt.Fprintf(&sb, "Definition ExchangeLifetime : Z := %d.\n", int64(udpClient.ExchangeLifetime))
	return writeIfChanged(filepath.Join(out, "DedupConsts.v"), sb.String())
}
