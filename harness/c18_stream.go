package main

// C18 family "tcps": byte-level histories on a stream connection. The peer's
// messages are encoded by the real tcp coder and handed to a tcp client Conn in
// reads of scripted lengths (one scripted chunk = one return of net.Conn.Read),
// with housekeeping ticks in between. The point of the family: bytes that do not
// complete a message (part of a header, a header announcing a body that has not
// arrived, a peer dribbling single bytes) are not "a message received from the
// peer" and must not postpone the monitor.
//
// Synchronisation without sleeping: Session.Run is
//     for { processBuffer(buffer); n := conn.Read(readBuf); buffer.Write(readBuf[:n]) }
// and coapNet.Conn.ReadWithContext calls net.Conn.Read exactly once per
// iteration, so the moment the connection ENTERS Read call number k+1 everything
// it does with the bytes of read k (buffering, decoding, Notify, hand-off to the
// receive queue) has happened. The scripted net.Conn reports every entry; the
// driver waits for that report before it moves on. A tick can therefore never be
// too early, however loaded the machine is.
//
// Virtual clock as in c18.go: the clock follows the monitor's activity stamp
// (read back through LastActivity()) only when an event actually moved the stamp;
// a fragment that wrongly refreshes the stamp thus shows up as a tick at which
// the monitor does nothing although no message arrived for a full period.

import (
	"errors"
	"fmt"
	"net"
	"strconv"
	"strings"
	"sync"
	"sync/atomic"
	"time"

	"github.com/plgd-dev/go-coap/v3/message/pool"
	coapNet "github.com/plgd-dev/go-coap/v3/net"
	"github.com/plgd-dev/go-coap/v3/net/monitor/inactivity"
	"github.com/plgd-dev/go-coap/v3/net/responsewriter"
	"github.com/plgd-dev/go-coap/v3/options"
	tcpClient "github.com/plgd-dev/go-coap/v3/tcp/client"
)

// ---- scripted net.Conn -------------------------------------------------------

type c18ScriptConn struct {
	in      chan []byte   // one element = the bytes one Read returns
	entered chan int      // Read call number k has been entered
	closed  chan struct{} // closed by Close
	once    sync.Once
	mu      sync.Mutex
	calls   int
	frames  [][]byte
	short   atomic.Int64 // Read buffers smaller than the scripted chunk (never expected)
}

func c18NewScriptConn() *c18ScriptConn {
	return &c18ScriptConn{in: make(chan []byte), entered: make(chan int, 1<<14), closed: make(chan struct{})}
}

func (c *c18ScriptConn) Read(p []byte) (int, error) {
	select {
	case <-c.closed:
		return 0, net.ErrClosed
	default:
	}
	c.mu.Lock()
	c.calls++
	k := c.calls
	c.mu.Unlock()
	select {
	case c.entered <- k:
	default: // 16384 unread reports: the driver is gone
	}
	select {
	case b := <-c.in:
		if len(b) > len(p) {
			c.short.Add(1)
			b = b[:len(p)]
		}
		copy(p, b)
		return len(b), nil
	case <-c.closed:
		return 0, net.ErrClosed
	}
}

func (c *c18ScriptConn) Write(b []byte) (int, error) {
	select {
	case <-c.closed:
		return 0, net.ErrClosed
	default:
	}
	c.mu.Lock()
	c.frames = append(c.frames, append([]byte(nil), b...))
	c.mu.Unlock()
	return len(b), nil
}
func (c *c18ScriptConn) take() [][]byte {
	c.mu.Lock()
	defer c.mu.Unlock()
	f := c.frames
	c.frames = nil
	return f
}
func (c *c18ScriptConn) Close() error { c.once.Do(func() { close(c.closed) }); return nil }
func (c *c18ScriptConn) LocalAddr() net.Addr {
	return &net.TCPAddr{IP: net.IPv4(127, 0, 0, 1), Port: 5684}
}
func (c *c18ScriptConn) RemoteAddr() net.Addr {
	return &net.TCPAddr{IP: net.IPv4(127, 0, 0, 1), Port: 5683}
}
func (c *c18ScriptConn) SetDeadline(time.Time) error      { return nil }
func (c *c18ScriptConn) SetReadDeadline(time.Time) error  { return nil }
func (c *c18ScriptConn) SetWriteDeadline(time.Time) error { return nil }

// ---- byte-level histories ------------------------------------------------------

type c18BEv struct {
	read bool
	t    int64 // virtual ns
	n    int   // read: number of bytes
}

func (e c18BEv) desc() string {
	if e.read {
		return fmt.Sprintf("r%d:%d", e.t, e.n)
	}
	return fmt.Sprintf("T%d", e.t)
}

func (e c18BEv) coq() string {
	if e.read {
		return fmt.Sprintf("BRead %s %d", coqZ(e.t), e.n)
	}
	return fmt.Sprintf("BTick %s true", coqZ(e.t))
}

type c18SHist struct {
	period int64
	rem    int64
	max    uint32
	ka     bool
	items  []c07Item
	evs    []c18BEv
}

func (h c18SHist) desc() string {
	is := make([]string, len(h.items))
	for i, it := range h.items {
		is[i] = it.desc()
	}
	es := make([]string, len(h.evs))
	for i, e := range h.evs {
		es[i] = e.desc()
	}
	return fmt.Sprintf("shist tcps %d %d %d %s %s %s", h.period, h.rem, h.max, coqBool(h.ka), strings.Join(is, ";"), strings.Join(es, ","))
}

func c18ParseSHist(f []string) (c18SHist, error) {
	if len(f) < 7 {
		return c18SHist{}, fmt.Errorf("bad shist descriptor")
	}
	var h c18SHist
	h.period, _ = strconv.ParseInt(f[2], 10, 64)
	h.rem, _ = strconv.ParseInt(f[3], 10, 64)
	m, _ := strconv.ParseUint(f[4], 10, 32)
	h.max = uint32(m)
	h.ka = f[5] == "true"
	for _, s := range strings.Split(f[6], ";") {
		it, err := c07ParseItem(s)
		if err != nil {
			return h, err
		}
		if it.raw {
			return h, fmt.Errorf("raw items are not part of the tcps family")
		}
		h.items = append(h.items, it)
	}
	if len(f) > 7 && f[7] != "" {
		for _, s := range strings.Split(f[7], ",") {
			switch {
			case strings.HasPrefix(s, "r"):
				p := strings.SplitN(s[1:], ":", 2)
				if len(p) != 2 {
					return h, fmt.Errorf("bad event %q", s)
				}
				t, _ := strconv.ParseInt(p[0], 10, 64)
				n, _ := strconv.Atoi(p[1])
				h.evs = append(h.evs, c18BEv{read: true, t: t, n: n})
			case strings.HasPrefix(s, "T"):
				t, _ := strconv.ParseInt(s[1:], 10, 64)
				h.evs = append(h.evs, c18BEv{t: t})
			default:
				return h, fmt.Errorf("bad event %q", s)
			}
		}
	}
	return h, nil
}

func c18ItemCoq(it c07Item) string {
	os := make([]string, 0, len(it.opts))
	for _, o := range it.opts {
		os = append(os, fmt.Sprintf("(%d,%s)", o.delta, coqBytes(o.val)))
	}
	return fmt.Sprintf("Fr %d %s [%s] %d %d", it.code, coqBytes(it.tok), strings.Join(os, ";"), it.psalt, it.plen)
}

// ---- driver ----------------------------------------------------------------------

const c18BarrierTimeout = 120 * time.Second

// size of the buffer Session.Run reads into (tcp/client.DefaultConfig.ConnectionCacheSize);
// a scripted chunk is never longer (the driver reports it if the buffer turns out smaller)
var c18ReadBuf = int(tcpClient.DefaultConfig.ConnectionCacheSize)

type c18StreamDriver struct {
	nc       *c18ScriptConn
	cc       *tcpClient.Conn
	real     *inactivity.Monitor[*tcpClient.Conn]
	clk      c18Clock
	closeLog atomic.Int64
	runDone  chan struct{}
	stream   []byte
	pos      int
	inRead   int // the connection is known to have entered Read call number inRead
	pings    int
	maxMsg   uint32
}

func c18NewStreamDriver(h c18SHist) (*c18StreamDriver, error) {
	d := &c18StreamDriver{nc: c18NewScriptConn(), runDone: make(chan struct{})}
	for _, it := range h.items {
		b, err := it.bytes()
		if err != nil {
			return nil, fmt.Errorf("encode %s: %w", it.desc(), err)
		}
		d.stream = append(d.stream, b...)
	}
	cfg := tcpClient.DefaultConfig
	cfg.Errors = func(error) {}
	cfg.DisableTCPSignalMessageCSM = true
	cfg.DisablePeerTCPSignalMessageCSMs = true
	cfg.Handler = func(w *responsewriter.ResponseWriter[*tcpClient.Conn], r *pool.Message) {}
	onInactive := func(cc *tcpClient.Conn) {
		d.closeLog.Add(1)
		inactivity.CloseConn(cc)
	}
	if h.ka {
		options.WithKeepAlive(h.max, time.Duration(h.period*int64(h.max+1)+h.rem), onInactive).TCPClientApply(&cfg)
	} else {
		options.WithInactivityMonitor(time.Duration(h.period), onInactive).TCPClientApply(&cfg)
	}
	d.maxMsg = cfg.MaxMessageSize
	inner := cfg.CreateInactivityMonitor()
	real, ok := inner.(*inactivity.Monitor[*tcpClient.Conn])
	if !ok {
		return nil, fmt.Errorf("unexpected monitor type %T", inner)
	}
	d.real = real
	d.cc = tcpClient.NewConnWithOpts(coapNet.NewConn(d.nc), &cfg, tcpClient.WithInactivityMonitor(inner))
	go func() { _ = d.cc.Run(); close(d.runDone) }()
	d.clk = c18Clock{0, real.LastActivity()}
	if err := d.waitEntered(1); err != nil {
		d.close()
		return nil, err
	}
	return d, nil
}

// waitEntered returns once the connection has entered Read call number k
func (d *c18StreamDriver) waitEntered(k int) error {
	deadline := time.NewTimer(c18BarrierTimeout)
	defer deadline.Stop()
	for d.inRead < k {
		select {
		case n := <-d.nc.entered:
			if n > d.inRead {
				d.inRead = n
			}
		case <-d.runDone:
			return errors.New("Session.Run returned while the peer was still sending")
		case <-deadline.C:
			return fmt.Errorf("hang: the connection did not come back to Read (call %d) within %v", k, c18BarrierTimeout)
		}
	}
	return nil
}

func (d *c18StreamDriver) close() {
	_ = d.cc.Close()
	_ = d.nc.Close()
	select {
	case <-d.runDone:
	case <-time.After(c18BarrierTimeout):
	}
}

func (d *c18StreamDriver) apply(e c18BEv) ([]c18Obs, error) {
	if d.cc.Context().Err() != nil {
		return nil, nil // closed connections are skipped by the drivers of the library and read nothing
	}
	var out []c18Obs
	before := d.closeLog.Load()
	d.nc.take()
	if e.read {
		n := e.n
		if n > len(d.stream)-d.pos {
			n = len(d.stream) - d.pos
		}
		if n <= 0 {
			return nil, nil
		}
		chunk := d.stream[d.pos : d.pos+n]
		d.pos += n
		t0 := time.Now()
		select {
		case d.nc.in <- chunk:
		case <-d.runDone:
			return nil, errors.New("Session.Run returned while the peer was still sending")
		case <-time.After(c18BarrierTimeout):
			return nil, errors.New("hang: the connection does not read")
		}
		if err := d.waitEntered(d.inRead + 1); err != nil {
			return nil, err
		}
		if d.nc.short.Load() != 0 {
			return nil, errors.New("read buffer smaller than the scripted chunk")
		}
		d.clk = d.clk.rebase(e.t, d.real.LastActivity(), t0)
	} else {
		d.cc.CheckExpirations(d.clk.at(e.t))
	}
	for _, f := range d.nc.take() {
		if c18TCPCode(f) == 0xE2 {
			d.pings++
			out = append(out, c18Obs{'P', d.pings})
		}
	}
	for i := before; i < d.closeLog.Load(); i++ {
		out = append(out, c18Obs{kind: 'X'})
	}
	return out, nil
}

type c18SResult struct {
	period int64
	maxMsg uint32
	obs    [][]c18Obs
}

func c18RunSHist(h c18SHist) (res c18SResult, err error) {
	defer func() {
		if r := recover(); r != nil {
			err = fmt.Errorf("panic in %s: %v", h.desc(), r)
		}
	}()
	d, err := c18NewStreamDriver(h)
	if err != nil {
		return res, fmt.Errorf("%s: %w", h.desc(), err)
	}
	defer d.close()
	res.period = c18Duration(d.real)
	res.maxMsg = d.maxMsg
	for _, e := range h.evs {
		o, err := d.apply(e)
		if err != nil {
			return res, fmt.Errorf("%s: %w", h.desc(), err)
		}
		res.obs = append(res.obs, o)
	}
	return res, nil
}

func c18EmitS(e *Emitter, h c18SHist) error {
	res, err := c18RunSHist(h)
	if err != nil {
		return err
	}
	var sb strings.Builder
	is := make([]string, len(h.items))
	sizes := make([]int, len(h.items))
	for i, it := range h.items {
		is[i] = c18ItemCoq(it)
		b, _ := it.bytes()
		sizes[i] = len(b)
	}
	fmt.Fprintf(&sb, "SHist 0 %s %d %s %d [%s] [", coqZ(res.period), h.max, coqBool(h.ka), res.maxMsg, strings.Join(is, "; "))
	strikes, closes, frags, msgs := 0, 0, 0, 0
	got, done := 0, 0 // bytes read, messages complete (by the sender's framing)
	total := 0
	for _, s := range sizes {
		total += s
	}
	for i, ev := range h.evs {
		if i > 0 {
			sb.WriteString("; ")
		}
		parts := make([]string, len(res.obs[i]))
		for j, o := range res.obs[i] {
			parts[j] = o.coq()
			switch o.kind {
			case 'P', 'F':
				strikes++
			case 'X':
				closes++
			}
		}
		if ev.read {
			got += ev.n
			if got > total {
				got = total
			}
			k, acc := 0, 0
			for _, s := range sizes {
				acc += s
				if acc <= got {
					k++
				}
			}
			if k == done {
				frags++
			} else {
				msgs += k - done
			}
			done = k
		}
		fmt.Fprintf(&sb, "(%s, [%s])", ev.coq(), strings.Join(parts, "; "))
	}
	sb.WriteString("]")
	buckets := []string{"drv:tcps", fmt.Sprintf("max:%d", h.max), fmt.Sprintf("len:%d", (len(h.evs)+3)/4*4),
		fmt.Sprintf("fragment-reads:%d", min(frags, 6)), fmt.Sprintf("messages-completed:%d", min(msgs, 4))}
	if h.ka {
		buckets = append(buckets, "keepalive")
	} else {
		buckets = append(buckets, "plain")
	}
	if closes > 0 {
		buckets = append(buckets, "closed")
	} else {
		buckets = append(buckets, "not-closed")
	}
	buckets = append(buckets, fmt.Sprintf("pings:%d", min(strikes, 6)))
	e.Add(sb.String(), h.desc(), (strikes+closes) > 0 && frags > 0, buckets...)
	return nil
}

// ---- generator -----------------------------------------------------------------

var c18SCodes = []int{1, 2, 3, 65, 68, 69, 132, 226, 227}

// body lengths that put the Len nibble / extended length on its boundaries
var c18SBodies = []int{0, 0, 1, 5, 12, 13, 14, 40, 100, 268, 269, 300}

func c18GenItem(r *Rng) c07Item {
	it := c07Item{code: c18SCodes[r.Intn(len(c18SCodes))], tok: genBody(r.Intn(250), r.Pick([]int{0, 0, 1, 2, 4, 8})), psalt: r.Intn(250)}
	L := c18SBodies[r.Intn(len(c18SBodies))]
	if r.Chance(6) { // a message that needs several full read buffers
		L = r.Pick([]int{2047, 2100, 4200})
	}
	if it.code < 32 && it.code != 0 && r.Chance(50) {
		it.opts = []c07Opt{{11, []byte("a")}} // Uri-Path a
	}
	ol := c07OptsLen(it.opts)
	if L < ol+2 {
		it.opts = nil
		ol = 0
	}
	if L-ol-1 > 0 {
		it.plen = L - ol - 1
	}
	return it
}

func c18GenS(r *Rng, ka bool, maxLen int) (c18SHist, error) {
	h := c18SHist{ka: ka}
	h.period = int64(r.Pick([]int{1, 2, 3, 5})) * c18Sec
	if r.Chance(10) {
		h.period = int64(r.Pick([]int{1500, 2500, 700})) * c18Ms
	}
	if r.Chance(2) {
		h.period = 0
	}
	if ka {
		h.max = uint32(r.Intn(4))
		if r.Chance(10) {
			h.rem = int64(r.Intn(int(h.max) + 1))
		}
	}
	P := h.period
	if P == 0 {
		P = c18Sec
	}
	nItems := 1 + r.Intn(4)
	var ends []int // stream offset of the end of each frame
	var hdrs []int // stream offset just after the first byte of each frame
	total := 0
	for i := 0; i < nItems; i++ {
		it := c18GenItem(r)
		b, err := it.bytes()
		if err != nil {
			return h, err
		}
		h.items = append(h.items, it)
		hdrs = append(hdrs, total+1)
		total += len(b)
		ends = append(ends, total)
	}
	n := 3 + r.Intn(maxLen-2)
	now, lastRx, pos := int64(0), int64(0), 0
	deltas := []int64{-200 * c18Ms, -1, 0, 1, 200 * c18Ms, c18Sec}
	fragPending := false // the latest read completed no message
	for i := 0; i < n; i++ {
		doRead := pos < total && r.Chance(45)
		if fragPending && r.Chance(55) {
			doRead = false
		}
		if doRead {
			// next frame end after pos
			next, nextHdr := total, total
			for j, e := range ends {
				if e > pos {
					next, nextHdr = e, hdrs[j]
					break
				}
			}
			var to int
			switch r.Intn(9) {
			case 0:
				to = pos + 1 // dribble
				if next-pos > c18ReadBuf {
					to = pos + c18ReadBuf // a full read buffer that still completes nothing
				}
			case 1:
				to = nextHdr // first byte of the header only
			case 2:
				to = nextHdr + 1
			case 3, 4:
				to = next - 1 // everything but the last byte
			case 5:
				to = next // exactly the frame
			case 6:
				to = next + 1 // the frame and the first byte of the next
			case 7:
				to = pos + (next-pos)/2
			default:
				to = pos + 1 + r.Intn(total-pos)
			}
			if to <= pos {
				to = pos + 1
			}
			if to > total {
				to = total
			}
			if to-pos > c18ReadBuf {
				to = pos + c18ReadBuf
			}
			switch r.Intn(6) {
			case 0: // just before the expiry of the latest message
				if t := lastRx + P - 1; t > now {
					now = t
				} else {
					now += c18Step(r, P)
				}
			default:
				now += c18Step(r, P)
			}
			done := func(p int) int {
				k := 0
				for _, e := range ends {
					if e <= p {
						k++
					}
				}
				return k
			}
			if done(to) > done(pos) {
				lastRx = now
				fragPending = false
			} else {
				fragPending = true
			}
			h.evs = append(h.evs, c18BEv{read: true, t: now, n: to - pos})
			pos = to
			continue
		}
		var t int64
		switch r.Intn(6) {
		case 0, 1, 2: // around the expiry of the latest complete message
			t = lastRx + P + deltas[r.Intn(len(deltas))]
		case 3: // several ticks per period
			t = now + P/int64(2+r.Intn(3))
		case 4:
			t = now + P + deltas[r.Intn(len(deltas))]
		default:
			t = now + int64(r.Intn(3))*c18Sec + int64(r.Intn(2))*200*c18Ms
		}
		if fragPending && r.Chance(60) { // the tick a fragment must not postpone
			t = lastRx + P + []int64{1, 200 * c18Ms}[r.Intn(2)]
		}
		if t < now {
			t = now
		}
		now = t
		fragPending = false
		h.evs = append(h.evs, c18BEv{t: t})
	}
	return h, nil
}

// byte-level histories kept from development. The first three are the shapes of
// the seeded regression "every socket read counts as activity": a header that
// announces a body which never arrives; a peer dribbling single bytes; keep-alive.
var c18SCorpus = []string{
	"shist tcps 10000000000 0 0 false M,1,,11:61,7,100 r300000000:8,T9000000000,T10100000000",
	"shist tcps 1000000000 0 0 false M,69,,,0,0;M,2,0102,,3,40 r100000000:2,r400000000:1,r700000000:1,r1000000000:1,T1100000001,r1300000000:1,T2100000002",
	"shist tcps 1000000000 0 1 true M,226,07,,0,0;M,1,0102,11:61,5,300 r500000000:3,T1500000001,r1600000000:2,T2500000001,r2600000000:100,T2600000002,T3500000001",
	"shist tcps 2000000000 0 0 false M,69,,,0,0;M,69,,,0,0;M,68,01,,9,13 r1000000000:5,T3000000000,T3000000001",
	"shist tcps 1000000000 0 2 true M,1,,,4,269 r999999999:273,T1000000001,r1500000000:1,T2500000000,T2500000001",
	"shist tcps 1000000000 0 0 false M,69,,,0,0;M,2,01,,9,4200 r100000000:2,r500000000:2048,T1100000001,r1200000000:2048,r1300000000:200,T2299999999,T2300000001",
}

func init() {
	c18SRun = func(e *Emitter, rng *Rng, scale int) error {
		for _, s := range c18SCorpus {
			h, err := c18ParseSHist(strings.Fields(s))
			if err != nil {
				return fmt.Errorf("corpus %q: %w", s, err)
			}
			if err := c18EmitS(e, h); err != nil {
				return err
			}
		}
		for _, p := range []struct {
			ka     bool
			n, len int
		}{{false, 260, 12}, {true, 300, 14}} {
			for i := 0; i < p.n*scale; i++ {
				h, err := c18GenS(rng.Fork(), p.ka, p.len)
				if err != nil {
					return err
				}
				if err := c18EmitS(e, h); err != nil {
					return err
				}
			}
		}
		return nil
	}
	c18SOnly = func(e *Emitter, f []string) error {
		h, err := c18ParseSHist(f)
		if err != nil {
			return err
		}
		return c18EmitS(e, h)
	}
}
