package main

// C03, round 4: three families for state that outlives a request.
//
//	expire   (ub, tb; BwCase)   a Do whose block-wise response stalls gives up, time passes beyond the validity of
//	                            the reassembly state it leaves behind (script event T: VerifShiftDeadlines, no
//	                            sweep), a later Do uses the token again and gets a block-wise response: it must
//	                            return the whole body the peer produced for IT (Token/ReasmModel.v)
//	empty    (tp1, tp, t, up, u) sequential exchanges on a connection with the message pool on, the callers release
//	                            their responses at once; some responses carry a payload, some have none (script
//	                            event E: 2.04 Changed, the tag travels in the ETag option): a payload-less response
//	                            must come back without a body
//	recycle  (RcCase)           ONE real pool.Message through several lives: UnmarshalWithDecoder of frames /
//	                            datagrams the real coders encoded, Reset (what Pool.ReleaseMessage does), SetBody;
//	                            after every decode Token(), Code(), ReadBody() (Token/RecycleModel.v)

import (
	"bytes"
	"context"
	"fmt"
	"strconv"
	"strings"

	"github.com/plgd-dev/go-coap/v3/message"
	"github.com/plgd-dev/go-coap/v3/message/codes"
	"github.com/plgd-dev/go-coap/v3/message/pool"
	tcpcoder "github.com/plgd-dev/go-coap/v3/tcp/coder"
	"github.com/plgd-dev/go-coap/v3/udp/coder"
)

// blockOps appends blocks from..to-1 of the total blocks of response rid to call cid
func (b *c3B) blockOps(cid, rid, total, from, to int) {
	for i := from; i < to; i++ {
		kind := byte('c')
		if b.udp() {
			kind = []byte{'c', 'n'}[b.rng.Intn(2)]
			if i == 0 && b.con[cid] && !b.ackd[cid] {
				if b.rng.Chance(50) {
					kind = 'p'
				} else {
					b.add(c3Op{kind: 'A', cid: cid})
				}
				b.ackd[cid] = true
			}
		}
		b.add(c3Op{kind: 'K', rid: rid, forc: cid, rkind: kind, slot: b.newSlot(), num: i, total: total})
	}
}

// a block-wise transfer that is given up after `have` blocks, time passing, and the token used again
func c3GenExpire(rng *Rng, tr string, variant int) c3Script {
	b := newC3B(rng, tr)
	t := b.tok()
	giveUp := func(have, total int) {
		s := b.start(t, 'd', rng.Chance(60))
		b.add(c3Op{kind: 'S', st: []c3Start{s}})
		b.rid++
		b.blockOps(s.cid, b.rid, total, 0, have)
		b.add(c3Op{kind: 'C', cid: s.cid})
		delete(b.live, s.cid)
	}
	again := func(total int) {
		s := b.start(t, 'd', rng.Chance(60))
		b.add(c3Op{kind: 'S', st: []c3Start{s}})
		b.blocks(s.cid, total, nil)
	}
	switch variant % 6 {
	case 0: // one block received, then the deadline; the next transfer has 2-4 blocks
		giveUp(1, 3)
		b.add(c3Op{kind: 'T'})
		again(2 + rng.Intn(3))
	case 1: // two blocks received
		giveUp(2, 4)
		b.add(c3Op{kind: 'T'})
		again(3 + rng.Intn(2))
	case 2: // a bystander with another token completes a block-wise transfer meanwhile
		o := b.start(b.tok(), 'd', rng.Chance(60))
		b.add(c3Op{kind: 'S', st: []c3Start{o}})
		giveUp(1+rng.Intn(2), 4)
		b.blocks(o.cid, 2+rng.Intn(2), nil)
		b.add(c3Op{kind: 'T'})
		again(3 + rng.Intn(2))
	case 3: // twice in a row
		giveUp(1, 3)
		b.add(c3Op{kind: 'T'})
		giveUp(2, 4)
		b.add(c3Op{kind: 'T'})
		again(3 + rng.Intn(2))
	case 4: // the next request is answered with a single response, the one after it block-wise
		giveUp(1+rng.Intn(2), 4)
		b.add(c3Op{kind: 'T'})
		s := b.start(t, 'd', rng.Chance(60))
		b.add(c3Op{kind: 'S', st: []c3Start{s}})
		b.answer(s.cid)
		again(3 + rng.Intn(2))
	default: // time passes twice; the late blocks of the transfer that was given up arrive before the token is used again
		giveUp(1, 3)
		b.add(c3Op{kind: 'T'})
		last := b.sc.ops[len(b.sc.ops)-3]
		if last.kind == 'K' {
			late := last
			late.num, late.slot = 1, b.newSlot()
			if late.rkind == 'p' {
				late.rkind = 'n'
			}
			b.add(late) // nobody holds the token: answered 4.08
		}
		b.add(c3Op{kind: 'T'})
		again(2 + rng.Intn(3))
	}
	return b.sc
}

// sequential exchanges, message pool on, responses released at once; payload-less responses among the others
func c3GenEmpty(rng *Rng, tr string, n int) c3Script {
	b := newC3B(rng, tr)
	for i := 0; i < n; i++ {
		how := byte('d')
		if rng.Chance(15) {
			how = 'g'
		}
		s := b.start(b.tok(), how, true)
		b.add(c3Op{kind: 'S', st: []c3Start{s}})
		at := len(b.sc.ops)
		b.answer(s.cid)
		// the first exchanges carry a payload (so that the pooled messages have carried one), then mixed
		if i >= 3 && rng.Chance(60) {
			for j := at; j < len(b.sc.ops); j++ {
				if b.sc.ops[j].kind == 'R' {
					b.sc.ops[j].empty = true
				}
			}
		}
	}
	return b.sc
}

// ---------- recycle: one pool.Message through several lives ----------

type c3RcOp struct {
	kind byte // 'U' unmarshal, 'Z' reset, 'B' set body
	tcp  bool
	tok  []byte
	code int
	pl   []byte
}

func (o c3RcOp) String() string {
	switch o.kind {
	case 'U':
		tr := "u"
		if o.tcp {
			tr = "t"
		}
		return fmt.Sprintf("U%s:%s:%d:%s", tr, c3Hex(o.tok), o.code, c3Hex(o.pl))
	case 'B':
		return "B" + c3Hex(o.pl)
	}
	return "Z"
}

func c3RcDesc(ops []c3RcOp) string {
	parts := make([]string, len(ops))
	for i, o := range ops {
		parts[i] = o.String()
	}
	return "rc|" + strings.Join(parts, " ")
}

func parseC3Rc(txt string) ([]c3RcOp, error) {
	var ops []c3RcOp
	for _, w := range strings.Fields(strings.TrimPrefix(txt, "rc|")) {
		switch w[0] {
		case 'Z':
			ops = append(ops, c3RcOp{kind: 'Z'})
		case 'B':
			ops = append(ops, c3RcOp{kind: 'B', pl: c3Unhex(w[1:])})
		case 'U':
			q := strings.Split(w[1:], ":")
			if len(q) != 4 {
				return nil, fmt.Errorf("bad recycle op %q", w)
			}
			code, _ := strconv.Atoi(q[2])
			ops = append(ops, c3RcOp{kind: 'U', tcp: q[0] == "t", tok: c3Unhex(q[1]), code: code, pl: c3Unhex(q[3])})
		default:
			return nil, fmt.Errorf("bad recycle op %q", w)
		}
	}
	return ops, nil
}

// runC3Rc runs the operations on one real message and returns the case
func runC3Rc(ops []c3RcOp) (txt string) {
	m := pool.NewMessage(context.Background())
	items := make([]string, 0, len(ops))
	defer func() {
		if x := recover(); x != nil {
			items = append(items, fmt.Sprintf("RcUnm true [] 0 [] ([], -1, []) (* panic: %v *)", x))
			txt = "RcCase [" + strings.Join(items, "; ") + "]"
		}
	}()
	for _, o := range ops {
		switch o.kind {
		case 'Z':
			m.Reset()
			items = append(items, "RcReset")
		case 'B':
			m.SetBody(bytes.NewReader(o.pl))
			items = append(items, "RcBody "+coqBytes(o.pl))
		case 'U':
			w := message.Message{Code: codes.Code(o.code), Token: o.tok, Payload: o.pl}
			buf := make([]byte, 64+len(o.pl))
			var n int
			var err error
			if o.tcp {
				n, err = tcpcoder.DefaultCoder.Encode(w, buf)
			} else {
				w.Type, w.MessageID = message.NonConfirmable, 0x1234
				n, err = coder.DefaultCoder.Encode(w, buf)
			}
			if err != nil {
				panic(err)
			}
			obsTok, obsCode, obsBody := []byte{}, -1, []byte{}
			if o.tcp {
				_, err = m.UnmarshalWithDecoder(tcpcoder.DefaultCoder, buf[:n])
			} else {
				_, err = m.UnmarshalWithDecoder(coder.DefaultCoder, buf[:n])
			}
			if err == nil {
				obsTok = append(obsTok, m.Token()...)
				obsCode = int(m.Code())
				if m.Body() != nil {
					obsBody, _ = m.ReadBody()
				}
			}
			items = append(items, fmt.Sprintf("RcUnm %s %s %d %s (%s, %d, %s)", coqBool(o.tcp), coqBytes(o.tok), o.code, coqBytes(o.pl),
				coqBytes(obsTok), obsCode, coqBytes(obsBody)))
		}
	}
	return "RcCase [" + strings.Join(items, "; ") + "]"
}

// lives of a message: decodes with either coder (with and without payload), always after a release except for the
// first use; now and then a life as a request (SetBody)
func c3GenRecycle(rng *Rng, n int) []c3RcOp {
	var ops []c3RcOp
	codesSeen := []int{int(codes.Content), int(codes.Changed), int(codes.Deleted), int(codes.Created), int(codes.NotFound)}
	for i := 0; i < n; i++ {
		if i > 0 {
			ops = append(ops, c3RcOp{kind: 'Z'})
		}
		if rng.Chance(20) {
			pl := make([]byte, 1+rng.Intn(12))
			for j := range pl {
				pl[j] = byte(rng.U64())
			}
			ops = append(ops, c3RcOp{kind: 'B', pl: pl}, c3RcOp{kind: 'Z'})
		}
		tok := make([]byte, 1+rng.Intn(8))
		for j := range tok {
			tok[j] = byte(rng.U64())
		}
		var pl []byte
		if rng.Chance(55) {
			pl = make([]byte, 1+rng.Intn(20))
			for j := range pl {
				pl[j] = byte(rng.U64())
			}
		}
		ops = append(ops, c3RcOp{kind: 'U', tcp: rng.Chance(60), tok: tok, code: codesSeen[rng.Intn(len(codesSeen))], pl: pl})
	}
	return ops
}
