package main

// C20, requests the handler edits before it sets the response (hx name C20E, evaluated by NoResp/EditRun.v).
//
// The response writer is created from req.Options()... : a slice header over the option array of the request
// message.  The handler owns that message while it runs and may edit it (a gateway annotating a request before
// it passes it on); message.Options.Set/Add/Remove work in place while the capacity of the array suffices.
// Families:
//
//	RWE   a real pool.Message (fresh, or used before so that its array has stale contents; filled by the datagram
//	      decoder or through the setters; 0..17 options so that len == cap and the doubled array occur),
//	      responsewriter.New(resp, client, req.Options()...), then 0..4 edits of the request through the
//	      pool.Message API (AddQuery, Set/AddOptionString/Bytes/Uint32, SetAccept, SetContentFormat, SetObserve,
//	      Remove, SetPath, ResetOptionsTo), then SetResponse(code)
//	WH    histories of 1..4 request datagrams (CON/NON, with retransmitted copies) on a real udp/client.Conn over
//	      the in-memory session whose handler edits the request it was given and then sets the response
//
// Observed: the whole option array of the request before the edits (cap slots), its options after the edits, what a
// slice header taken before the edits shows afterwards, SetResponse's refusal, the response code / the datagrams
// written.  No timing: every datagram is followed by the barrier request (c20bSync); a barrier that does not arrive
// within the first patience makes the history re-run with 120 s patience.

import (
	"bytes"
	"context"
	"fmt"
	"os"
	"sort"
	"strings"
	"time"

	"github.com/plgd-dev/go-coap/v3/message"
	"github.com/plgd-dev/go-coap/v3/message/codes"
	"github.com/plgd-dev/go-coap/v3/message/pool"
	"github.com/plgd-dev/go-coap/v3/net/responsewriter"
	"github.com/plgd-dev/go-coap/v3/udp/client"
	"github.com/plgd-dev/go-coap/v3/udp/coder"
)

func init() { props["C20E"] = runC20E }

// one edit of the request message
//
//	set/sets/setu  SetOptionBytes / SetOptionString / SetOptionUint32        (setu: Val = big-endian uint32)
//	add/adds/addu  AddOptionBytes / AddOptionString / AddOptionUint32
//	aq             AddQuery(Val)
//	acc/cf/obs     SetAccept / SetContentFormat / SetObserve                 (Val = big-endian uint32)
//	rm             Remove(ID)
//	path           SetPath(Val), non-empty
//	reset          ResetOptionsTo(Opts)
type c20Edit struct {
	Kind string
	ID   int
	Val  []byte
	Opts message.Options
}

func (e c20Edit) u32() uint32 {
	var v uint32
	for _, b := range e.Val {
		v = v<<8 | uint32(b)
	}
	return v
}

func (e c20Edit) desc() string {
	if e.Kind == "reset" {
		return "reset~0~" + dashOpts(e.Opts)
	}
	return fmt.Sprintf("%s~%d~%x", e.Kind, e.ID, e.Val)
}

func c20EditsDesc(es []c20Edit) string {
	if len(es) == 0 {
		return "-"
	}
	p := make([]string, len(es))
	for i, e := range es {
		p[i] = e.desc()
	}
	return strings.Join(p, "+")
}

func parseC20Edits(s string) []c20Edit {
	if s == "-" || s == "" {
		return nil
	}
	var es []c20Edit
	for _, p := range strings.Split(s, "+") {
		f := strings.SplitN(p, "~", 3)
		if len(f) < 3 {
			continue
		}
		var e c20Edit
		e.Kind = f[0]
		fmt.Sscanf(f[1], "%d", &e.ID)
		if e.Kind == "reset" {
			e.Opts = parseDescOpts(f[2])
		} else {
			e.Val = c05Hex(f[2])
		}
		es = append(es, e)
	}
	return es
}

func c20Enc(v uint32) []byte {
	buf := make([]byte, 4)
	n, _ := message.EncodeUint32(buf, v)
	return buf[:n]
}

// the edit in the alphabet of NoResp/EditModel.v
func (e c20Edit) coq() string {
	switch e.Kind {
	case "set", "sets":
		return fmt.Sprintf("ESet %d %s", e.ID, coqBytes(e.Val))
	case "setu":
		return fmt.Sprintf("ESet %d %s", e.ID, coqBytes(c20Enc(e.u32())))
	case "acc":
		return fmt.Sprintf("ESet %d %s", int(message.Accept), coqBytes(c20Enc(e.u32()&0xffff)))
	case "cf":
		return fmt.Sprintf("ESet %d %s", int(message.ContentFormat), coqBytes(c20Enc(e.u32()&0xffff)))
	case "obs":
		return fmt.Sprintf("ESet %d %s", int(message.Observe), coqBytes(c20Enc(e.u32())))
	case "add", "adds":
		return fmt.Sprintf("EAdd %d %s", e.ID, coqBytes(e.Val))
	case "addu":
		return fmt.Sprintf("EAdd %d %s", e.ID, coqBytes(c20Enc(e.u32())))
	case "aq":
		return fmt.Sprintf("EAdd %d %s", int(message.URIQuery), coqBytes(e.Val))
	case "rm":
		return fmt.Sprintf("ERemove %d", e.ID)
	case "path":
		p := string(e.Val)
		p = strings.TrimPrefix(p, "/")
		var segs []string
		for _, s := range strings.Split(p, "/") {
			if s != "" {
				segs = append(segs, coqBytes([]byte(s)))
			}
		}
		return "ESetPath [" + strings.Join(segs, "; ") + "]"
	case "reset":
		return "EResetTo " + coqOpts(e.Opts)
	}
	return "ERemove 0"
}

func c20EditsCoq(es []c20Edit) string {
	p := make([]string, len(es))
	for i, e := range es {
		p[i] = e.coq()
	}
	return "[" + strings.Join(p, "; ") + "]"
}

// apply performs the edit on the real message; a panic of the builder method is reported
func (e c20Edit) apply(r *pool.Message) (panicked bool) {
	defer func() {
		if recover() != nil {
			panicked = true
		}
	}()
	id := message.OptionID(e.ID)
	switch e.Kind {
	case "set":
		r.SetOptionBytes(id, e.Val)
	case "sets":
		r.SetOptionString(id, string(e.Val))
	case "setu":
		r.SetOptionUint32(id, e.u32())
	case "acc":
		r.SetAccept(message.MediaType(e.u32() & 0xffff))
	case "cf":
		r.SetContentFormat(message.MediaType(e.u32() & 0xffff))
	case "obs":
		r.SetObserve(e.u32())
	case "add":
		r.AddOptionBytes(id, e.Val)
	case "adds":
		r.AddOptionString(id, string(e.Val))
	case "addu":
		r.AddOptionUint32(id, e.u32())
	case "aq":
		r.AddQuery(string(e.Val))
	case "rm":
		r.Remove(id)
	case "path":
		if err := r.SetPath(string(e.Val)); err != nil {
			return true
		}
	case "reset":
		r.ResetOptionsTo(e.Opts)
	}
	return false
}

func c20CopyOpts(o message.Options) message.Options {
	out := make(message.Options, len(o))
	for i, x := range o {
		out[i] = message.Option{ID: x.ID, Value: append([]byte{}, x.Value...)}
	}
	return out
}

// what is observed around the edits of one request message
type c20EditObs struct {
	arr      message.Options // all cap slots of the option array before the edits
	n        int             // len(r.Options()) before the edits
	live     message.Options // r.Options() after the edits
	alias    message.Options // the slice header taken before the edits, read after them
	panicked bool
}

// c20EditRequest observes the array, applies the edits, observes again.  hdr is r.Options() taken by the caller
// BEFORE anything else (the same header the connection handed to responsewriter.New).
func c20EditRequest(r *pool.Message, es []c20Edit) c20EditObs {
	hdr := r.Options()
	var o c20EditObs
	o.n = len(hdr)
	o.arr = c20CopyOpts(hdr[:cap(hdr)])
	for _, e := range es {
		if e.apply(r) {
			o.panicked = true
		}
	}
	o.live = c20CopyOpts(r.Options())
	o.alias = c20CopyOpts(hdr)
	if o.panicked {
		o.live = message.Options{{ID: 65535, Value: []byte("panic")}} // never agrees
	}
	return o
}

// ---- family RWE ----

type c20RWE struct {
	Stale int    // options the message held in an earlier use (then Reset): stale contents of the array
	Mode  string // dg: filled by the datagram decoder; set: through ResetOptionsTo
	Code  int
	Opts  message.Options
	Edits []c20Edit
}

func (c c20RWE) desc() string {
	return fmt.Sprintf("rwe %d %s %d %s %s", c.Stale, c.Mode, c.Code, dashOpts(c.Opts), c20EditsDesc(c.Edits))
}

func parseC20RWE(f []string) c20RWE {
	var c c20RWE
	if len(f) < 6 {
		return c
	}
	fmt.Sscanf(f[1], "%d", &c.Stale)
	c.Mode = f[2]
	fmt.Sscanf(f[3], "%d", &c.Code)
	c.Opts = parseDescOpts(f[4])
	c.Edits = parseC20Edits(f[5])
	return c
}

func c20StaleOpt(i int) message.Option {
	return message.Option{ID: message.OptionID(2000 + 7*i), Value: []byte{byte(0xe0 + i)}}
}

func runC20RWE(c c20RWE) (coq string, nontrivial bool, buckets []string) {
	req := pool.NewMessage(context.Background())
	if c.Stale > 0 {
		var st message.Options
		for i := 0; i < c.Stale; i++ {
			st = append(st, c20StaleOpt(i))
		}
		req.ResetOptionsTo(st)
		req.Reset()
	}
	if c.Mode == "dg" {
		dg := encodeWire(0, 1, 0x1234, []byte{0xc2, 0x0e}, c.Opts, nil)
		if _, err := req.UnmarshalWithDecoder(coder.DefaultCoder, dg); err != nil {
			req.Reset()
		}
	} else {
		req.SetCode(codes.GET)
		req.ResetOptionsTo(c.Opts)
	}
	resp := pool.NewMessage(context.Background())
	resp.SetCode(codes.Empty)
	w := responsewriter.New[nopClient](resp, nopClient{}, req.Options()...)
	before := c20CopyOpts(req.Options())
	o := c20EditRequest(req, c.Edits)
	err := w.SetResponse(codes.Code(c.Code), message.TextPlain, nil)
	coq = fmt.Sprintf("RWE %s %d %s %d %s %d %s %s", coqOpts(o.arr), o.n, c20EditsCoq(c.Edits), c.Code, coqBool(err != nil), resp.Code(),
		coqOpts(o.live), coqOpts(o.alias))
	_, _, ferr := before.Find(message.NoResponse)
	changed := descOpts(before) != descOpts(o.alias) || descOpts(before) != descOpts(o.live)
	nontrivial = ferr == nil && changed
	buckets = []string{"family=RWE", "mode=" + c.Mode, fmt.Sprintf("edits=%d", len(c.Edits)), fmt.Sprintf("cap=%d", len(o.arr))}
	if o.n == len(o.arr) {
		buckets = append(buckets, "len==cap")
	}
	if c.Stale > 0 {
		buckets = append(buckets, "stale-array")
	}
	if ferr == nil {
		buckets = append(buckets, "no-response")
		if descOpts(before) != descOpts(o.alias) {
			buckets = append(buckets, "alias-view-changed")
		}
		if _, _, e2 := o.alias.Find(message.NoResponse); e2 != nil || !sort.SliceIsSorted(o.alias, func(x, y int) bool { return o.alias[x].ID < o.alias[y].ID }) {
			buckets = append(buckets, "alias-view-lost-no-response")
		}
	}
	for _, e := range c.Edits {
		buckets = append(buckets, "edit="+e.Kind)
	}
	sort.Strings(buckets)
	buckets = c20Uniq(buckets)
	return coq, nontrivial, buckets
}

func c20Uniq(s []string) []string {
	var out []string
	for i, x := range s {
		if i == 0 || x != s[i-1] {
			out = append(out, x)
		}
	}
	return out
}

// ---- family WH ----

type c20WEv struct {
	Typ, MID int
	Tok      []byte
	Code     int
	Opts     message.Options
	Edits    []c20Edit
	Beh      string // none | resp
	RCode    int
	ROpts    message.Options
	RSalt    int
	RLen     int
}

func (e c20WEv) desc() string {
	return fmt.Sprintf("%d:%d:%x:%d:%s:%s:%s:%d:%s:%d:%d", e.Typ, e.MID, e.Tok, e.Code, dashOpts(e.Opts), c20EditsDesc(e.Edits),
		e.Beh, e.RCode, dashOpts(e.ROpts), e.RSalt, e.RLen)
}

func parseC20WEv(s string) c20WEv {
	f := strings.Split(s, ":")
	atoi := func(x string) int { var v int; fmt.Sscanf(x, "%d", &v); return v }
	var e c20WEv
	if len(f) < 11 {
		return e
	}
	e.Typ, e.MID, e.Tok, e.Code = atoi(f[0]), atoi(f[1]), c05Hex(f[2]), atoi(f[3])
	e.Opts = parseDescOpts(f[4])
	e.Edits = parseC20Edits(f[5])
	e.Beh, e.RCode = f[6], atoi(f[7])
	e.ROpts = parseDescOpts(f[8])
	e.RSalt, e.RLen = atoi(f[9]), atoi(f[10])
	return e
}

func (e c20WEv) coqBeh() string {
	if e.Beh == "resp" {
		return fmt.Sprintf("(BResp %d %s (gen_body %d %d%%nat))", e.RCode, coqOpts(e.ROpts), e.RSalt, e.RLen)
	}
	return "BNone"
}

func c20WDesc(getMID int32, evs []c20WEv) string {
	parts := make([]string, len(evs))
	for i, e := range evs {
		parts[i] = e.desc()
	}
	return fmt.Sprintf("wh %d|%s", getMID, strings.Join(parts, " "))
}

func runC20WHistory(getMID int32, evs []c20WEv, patience time.Duration) (string, bool, map[string]bool) {
	mc := newMemConn(memConnOpts{getMID: getMID, queueSize: 16, maxRetransmit: 4})
	defer mc.close()
	own0 := mc.cc.VerifMsgID()
	for _, e := range evs {
		mc.avoidMID[e.MID] = true
	}
	kinds := map[string]bool{}
	var sb strings.Builder
	fmt.Fprintf(&sb, "WHist %d [", own0)
	ok := true
	for i, e := range evs {
		if i > 0 {
			sb.WriteString("; ")
		}
		ev := e
		type call struct {
			obs     c20EditObs
			refused bool
		}
		var calls []call
		mc.mu.Lock()
		mc.behave = func(w *responsewriter.ResponseWriter[*client.Conn], r *pool.Message) {
			var c call
			c.obs = c20EditRequest(r, ev.Edits)
			if ev.Beh == "resp" {
				var err error
				if ev.RLen > 0 {
					err = w.SetResponse(codes.Code(ev.RCode), message.TextPlain, bytes.NewReader(genBody(ev.RSalt, ev.RLen)), ev.ROpts...)
				} else {
					err = w.SetResponse(codes.Code(ev.RCode), message.TextPlain, nil, ev.ROpts...)
				}
				c.refused = err != nil
			}
			calls = append(calls, c) // single dispatch goroutine; read after the barrier
		}
		mc.mu.Unlock()
		if mc.inject(encodeWire(e.Typ, e.Code, e.MID, e.Tok, e.Opts, nil)) != 0 {
			ok = false
		}
		if !c20bSync(mc, patience) {
			ok = false
		}
		mc.takeLog()
		out := mc.takeOut()
		// the request as the connection parsed it when no handler call shows it (a copy answered from the cache):
		// the options of the datagram; the model does not look at the array then
		arr, n, live, alias := c20CopyOpts(e.Opts), len(e.Opts), message.Options(nil), message.Options(nil)
		called, refused := false, false
		switch len(calls) {
		case 0:
		case 1:
			called, refused = true, calls[0].refused
			arr, n, live, alias = calls[0].obs.arr, calls[0].obs.n, calls[0].obs.live, calls[0].obs.alias
			if descOpts(alias) != descOpts(arr[:n]) {
				kinds["alias-view-changed"] = true
			}
			if len(arr) > 16 {
				kinds["cap>16"] = true
			}
			for _, x := range arr[n:] {
				if x.ID != 0 {
					kinds["stale-array"] = true
				}
			}
		default:
			called, live = true, message.Options{{ID: 65535, Value: []byte("twice")}} // never agrees
			arr, n = calls[0].obs.arr, calls[0].obs.n
		}
		fmt.Fprintf(&sb, "WReq %d %d %s %d %s %d %s %s %s %s %s %s %s", e.Typ, e.MID, coqBytes(e.Tok), e.Code, coqOpts(arr), n,
			c20EditsCoq(e.Edits), e.coqBeh(), coqBool(called), coqBool(refused), coqOpts(live), coqOpts(alias), coqWireObs(out))
	}
	sb.WriteString("]")
	return sb.String(), ok, kinds
}

// ---- generators ----

var c20eLowIDs = []int{1, 3, 4, 5, 6, 7, 8, 11, 11, 12, 14, 15, 15, 17, 20, 23, 27, 28, 35, 39, 60, 252}
var c20eHighIDs = []int{258, 259, 300, 2048, 65000}

type c20eGen struct {
	rng *Rng
}

func (g *c20eGen) bytes(n int) []byte {
	b := make([]byte, n)
	for i := range b {
		b[i] = byte('a' + g.rng.Intn(26))
	}
	return b
}

// known: option numbers the datagram decoder keeps (option definitions), with value lengths it accepts
func (g *c20eGen) wireOpt() message.Option {
	switch g.rng.Intn(9) {
	case 0:
		return message.Option{ID: message.URIHost, Value: g.bytes(1 + g.rng.Intn(6))}
	case 1:
		return message.Option{ID: message.ETag, Value: g.bytes(1 + g.rng.Intn(4))}
	case 2:
		return message.Option{ID: message.URIPort, Value: []byte{0x16, 0x33}}
	case 3, 4:
		return message.Option{ID: message.URIPath, Value: g.bytes(1 + g.rng.Intn(5))}
	case 5:
		return message.Option{ID: message.ContentFormat, Value: []byte{byte(g.rng.Intn(60))}}
	case 6, 7:
		return message.Option{ID: message.URIQuery, Value: g.bytes(1 + g.rng.Intn(5))}
	default:
		return message.Option{ID: message.Accept, Value: []byte{byte(g.rng.Intn(60))}}
	}
}

func (g *c20eGen) anyOpt() message.Option {
	if g.rng.Chance(70) {
		return g.wireOpt()
	}
	ids := c20eLowIDs
	if g.rng.Chance(30) {
		ids = c20eHighIDs[1:]
	}
	return message.Option{ID: message.OptionID(ids[g.rng.Intn(len(ids))]), Value: g.bytes(g.rng.Intn(3))}
}

// request options: k others + (mostly) a No-Response option; wire = only what the datagram decoder keeps
func (g *c20eGen) reqOpts(k int, wire bool) (message.Options, []byte) {
	var o message.Options
	for i := 0; i < k; i++ {
		if wire {
			o = append(o, g.wireOpt())
		} else {
			o = append(o, g.anyOpt())
		}
	}
	var nr []byte
	if g.rng.Chance(88) {
		if wire || g.rng.Chance(70) {
			nr = [][]byte{{2}, {8}, {16}, {26}, {10}, {24}, {18}, {}, {0}, {32}, {127}, {255}, {6}}[g.rng.Intn(13)]
		} else {
			nr = make([]byte, 2+g.rng.Intn(4))
			for i := range nr {
				nr[i] = byte(g.rng.U64())
			}
			nr[len(nr)-1] = byte(g.rng.Intn(32))
		}
		o = append(o, message.Option{ID: message.NoResponse, Value: nr})
		if !wire && g.rng.Chance(6) {
			o = append(o, message.Option{ID: message.NoResponse, Value: []byte{byte(g.rng.Intn(32))}}) // repeated: the first counts
		}
	} else {
		nr = nil
	}
	sort.SliceStable(o, func(x, y int) bool { return o[x].ID < o[y].ID })
	return o, nr
}

func (g *c20eGen) edit() c20Edit {
	be := func(v uint32) []byte { return []byte{byte(v >> 24), byte(v >> 16), byte(v >> 8), byte(v)} }
	low := func() int { return c20eLowIDs[g.rng.Intn(len(c20eLowIDs))] }
	anyID := func() int {
		if g.rng.Chance(75) {
			return low()
		}
		return c20eHighIDs[g.rng.Intn(len(c20eHighIDs))]
	}
	switch g.rng.Intn(16) {
	case 0, 1:
		return c20Edit{Kind: "aq", Val: g.bytes(1 + g.rng.Intn(6))}
	case 2:
		return c20Edit{Kind: "sets", ID: int(message.URIHost), Val: g.bytes(1 + g.rng.Intn(8))}
	case 3:
		return c20Edit{Kind: "acc", Val: be(uint32(g.rng.Intn(70)))}
	case 4:
		return c20Edit{Kind: "path", Val: []byte([]string{"/a", "a/b", "/gw/x/y", "/", "//p//q/", "seed"}[g.rng.Intn(6)])}
	case 5:
		return c20Edit{Kind: "rm", ID: int(message.NoResponse)}
	case 6:
		return c20Edit{Kind: "rm", ID: anyID()}
	case 7:
		return c20Edit{Kind: "setu", ID: int(message.NoResponse), Val: be(uint32([]int{0, 2, 8, 16, 26, 24, 127}[g.rng.Intn(7)]))}
	case 8:
		return c20Edit{Kind: "set", ID: anyID(), Val: g.bytes(g.rng.Intn(4))}
	case 9:
		return c20Edit{Kind: "add", ID: anyID(), Val: g.bytes(g.rng.Intn(4))}
	case 10:
		return c20Edit{Kind: "adds", ID: anyID(), Val: g.bytes(1 + g.rng.Intn(4))}
	case 11:
		return c20Edit{Kind: "addu", ID: anyID(), Val: be(uint32(g.rng.U64()) >> uint(8*g.rng.Intn(4)))}
	case 12:
		return c20Edit{Kind: []string{"cf", "obs"}[g.rng.Intn(2)], Val: be(uint32(g.rng.Intn(300)))}
	case 13:
		var o message.Options
		for k := g.rng.Intn(4); k > 0; k-- {
			o = append(o, g.anyOpt())
		}
		if g.rng.Chance(40) {
			o = append(o, message.Option{ID: message.NoResponse, Value: []byte{byte(g.rng.Intn(32))}})
		}
		return c20Edit{Kind: "reset", Opts: o} // in any order: ResetOptionsTo sorts by adding
	case 14:
		return c20Edit{Kind: "setu", ID: anyID(), Val: be(uint32(g.rng.Intn(70000)))}
	default:
		return c20Edit{Kind: "adds", ID: int(message.URIPath), Val: g.bytes(1 + g.rng.Intn(4))}
	}
}

func (g *c20eGen) edits() []c20Edit {
	var es []c20Edit
	for k := []int{0, 1, 1, 1, 2, 2, 3, 4}[g.rng.Intn(8)]; k > 0; k-- {
		es = append(es, g.edit())
	}
	return es
}

// a response code: of a class the value suppresses (hit) or lets pass
func (g *c20eGen) code(nr []byte, hit bool) int {
	var n uint32
	for _, b := range nr {
		n = n<<8 | uint32(b)
	}
	var sup, pass []int
	for _, c := range []int{2, 4, 5} {
		bit := map[int]uint32{2: 2, 4: 8, 5: 16}[c]
		if nr != nil && len(nr) <= 4 && n&bit != 0 {
			sup = append(sup, c)
		} else {
			pass = append(pass, c)
		}
	}
	cls := 0
	if hit && len(sup) > 0 {
		cls = sup[g.rng.Intn(len(sup))]
	} else if len(pass) > 0 {
		cls = pass[g.rng.Intn(len(pass))]
	} else {
		cls = []int{3, 6, 7}[g.rng.Intn(3)]
	}
	return cls<<5 + []int{0, 1, 4, 5, 31, 3, 29}[g.rng.Intn(7)]
}

func runC20E(a runArgs) error {
	e := NewEmitter("C20E", "NoResp.EditRun")
	e.Preamble = "From GoCoap Require Import Base.Bytes Opt.Model Dedup.Model Dedup.Spec NoResp.EditModel."
	e.ShardSize = 150
	e.Rule = "response writers created over the options of a real pool.Message (fresh or with stale array contents, filled by the datagram decoder or the setters, 0..17 options) whose request is then edited through the pool.Message API (0..4 edits: AddQuery, Set/Add of string/bytes/uint options, SetAccept/ContentFormat/Observe, Remove, SetPath, ResetOptionsTo) before SetResponse; histories of 1..4 request datagrams (CON/NON, retransmitted copies) on a real udp/client.Conn whose handler edits the request and then sets a response of a suppressed or passed class. Distinct = distinct case; non-trivial = the request carries a No-Response option and the edits changed the request's options or what the slice header taken at writer creation shows."
	rng := NewRng(a.seed ^ 0xc20e)
	g := &c20eGen{rng: rng}

	firstPatience := 5 * time.Second
	if v := os.Getenv("HX_C20B_PATIENCE_US"); v != "" {
		var us int
		fmt.Sscanf(v, "%d", &us)
		firstPatience = time.Duration(us) * time.Microsecond
	}
	emitRWE := func(c c20RWE) {
		coq, nontriv, buckets := runC20RWE(c)
		e.Add(coq, c.desc(), nontriv, buckets...)
	}
	emitWH := func(getMID int32, evs []c20WEv, fam string) {
		txt, ok, kinds := runC20WHistory(getMID, evs, firstPatience)
		if !ok {
			e.Hist["slow_rerun"]++
			txt, ok, kinds = runC20WHistory(getMID, evs, 120*time.Second)
		}
		if !ok {
			e.Hist["barrier_timeout"]++ // the connection stopped dispatching: reported as observed
		}
		buckets := []string{"family=" + fam, fmt.Sprintf("len%02d", len(evs))}
		nontriv := false
		for _, ev := range evs {
			_, _, en := ev.Opts.Find(message.NoResponse)
			if en == nil && len(ev.Edits) > 0 && kinds["alias-view-changed"] {
				nontriv = true
			}
			if ev.Typ == 0 {
				kinds["con"] = true
			} else {
				kinds["non"] = true
			}
		}
		for k := range kinds {
			buckets = append(buckets, k)
		}
		sort.Strings(buckets)
		e.Add(txt, c20WDesc(getMID, evs), nontriv, buckets...)
	}

	if a.only != "" {
		switch {
		case strings.HasPrefix(a.only, "rwe "):
			emitRWE(parseC20RWE(strings.Fields(a.only)))
		case strings.HasPrefix(a.only, "wh "):
			parts := strings.SplitN(strings.TrimPrefix(a.only, "wh "), "|", 2)
			var getMID int32
			fmt.Sscanf(parts[0], "%d", &getMID)
			var evs []c20WEv
			if len(parts) > 1 {
				for _, s := range strings.Fields(parts[1]) {
					evs = append(evs, parseC20WEv(s))
				}
			}
			emitWH(getMID, evs, "replay")
		}
		return e.Flush(a.out)
	}

	nRWE, nWH := 1200, 200
	if a.tier == "thorough" {
		nRWE, nWH = 24000, 4000
	}

	// canonical witnesses: GET /seed with No-Response v; one edit that inserts in front of / replaces / removes /
	// follows the option; a code of the suppressed class and one of a passed class
	seedPath := message.Option{ID: message.URIPath, Value: []byte("seed")}
	canonEdits := [][]c20Edit{
		{{Kind: "aq", Val: []byte("via=gw")}},
		{{Kind: "sets", ID: int(message.URIHost), Val: []byte("gw.local")}},
		{{Kind: "acc", Val: []byte{0, 0, 0, 50}}},
		{{Kind: "path", Val: []byte("/gw/seed")}},
		{{Kind: "rm", ID: int(message.NoResponse)}},
		{{Kind: "rm", ID: int(message.NoResponse)}, {Kind: "aq", Val: []byte("fwd=1")}},
		{{Kind: "rm", ID: int(message.URIPath)}},
		{{Kind: "setu", ID: int(message.NoResponse), Val: []byte{0, 0, 0, 0}}},
		{{Kind: "adds", ID: 2048, Val: []byte("x")}},
		{{Kind: "reset", Opts: message.Options{seedPath}}},
		nil,
	}
	for _, v := range []byte{2, 8, 16, 26} {
		for _, es := range canonEdits {
			for _, code := range []int{69, 132, 160} {
				for _, mode := range []string{"dg", "set"} {
					emitRWE(c20RWE{Mode: mode, Code: code, Opts: message.Options{seedPath, {ID: message.NoResponse, Value: []byte{v}}}, Edits: es})
				}
			}
		}
	}
	for _, typ := range []int{0, 1} {
		for _, v := range []byte{2, 8, 16, 26} {
			for _, es := range canonEdits[:6] {
				for _, code := range []int{69, 132, 160} {
					emitWH(0x1000, []c20WEv{{Typ: typ, MID: 0x1234, Tok: []byte{0xc2, 0x00, byte(v)}, Code: 1,
						Opts: message.Options{seedPath, {ID: message.NoResponse, Value: []byte{v}}}, Edits: es, Beh: "resp", RCode: code, RSalt: 5, RLen: 5}}, "WH-canonical")
				}
			}
		}
	}

	// RWE
	for c := 0; c < nRWE; c++ {
		k := []int{0, 1, 1, 2, 2, 3, 4, 5}[rng.Intn(8)]
		switch r := rng.Intn(100); {
		case r < 6:
			k = 13 + rng.Intn(2) // one or two free slots left after the No-Response option
		case r < 10:
			k = 15 // with No-Response: len == cap == 16
		case r < 13:
			k = 16 + rng.Intn(2) // more than 16 options: the decoder doubles the array
		}
		mode := []string{"dg", "dg", "set"}[rng.Intn(3)]
		opts, nr := g.reqOpts(k, mode == "dg")
		stale := 0
		if rng.Chance(35) {
			stale = 1 + rng.Intn(16)
		}
		emitRWE(c20RWE{Stale: stale, Mode: mode, Code: g.code(nr, rng.Chance(70)), Opts: opts, Edits: g.edits()})
	}

	// WH
	for c := 0; c < nWH; c++ {
		getMID := int32([]int{0x1000, 0, 0x7fff, 0xffff, 0x8123}[rng.Intn(5)])
		mid := []int{0, 100, 65530, 4660, 30000}[rng.Intn(5)]
		var evs []c20WEv
		for k := 1 + rng.Intn(4); k > 0; k-- {
			if len(evs) > 0 && rng.Chance(20) {
				evs = append(evs, evs[rng.Intn(len(evs))]) // a retransmitted copy
				continue
			}
			mid = (mid + 1) & 0xffff
			nopts := []int{0, 1, 1, 2, 3, 4}[rng.Intn(6)]
			if rng.Chance(8) {
				nopts = 14 + rng.Intn(3)
			}
			opts, nr := g.reqOpts(nopts, true)
			tok := make([]byte, []int{1, 2, 4, 8}[rng.Intn(4)])
			for i := range tok {
				tok[i] = byte(rng.U64())
			}
			tok[0] = 0xc2 // never the barrier token
			ev := c20WEv{Typ: rng.Intn(2), MID: mid, Tok: tok, Code: 1 + rng.Intn(4), Opts: opts, Edits: g.edits()}
			if rng.Chance(90) {
				ev.Beh = "resp"
				ev.RCode = g.code(nr, rng.Chance(70))
				ev.ROpts = c20bRespOpts[rng.Intn(len(c20bRespOpts))]
				ev.RSalt = rng.Intn(250)
				ev.RLen = []int{0, 0, 3, 40}[rng.Intn(4)]
			} else {
				ev.Beh = "none"
			}
			evs = append(evs, ev)
		}
		emitWH(getMID, evs, "WH")
	}
	return e.Flush(a.out)
}
