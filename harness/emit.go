package main

import (
	"encoding/json"
	"fmt"
	"os"
	"path/filepath"
	"sort"
	"strings"
)

// splitmix64: every random choice of a run derives from one state.
type Rng struct{ s uint64 }

func NewRng(seed uint64) *Rng { return &Rng{s: seed*0x9E3779B97F4A7C15 + 0x1234567} }
func (r *Rng) U64() uint64 {
	r.s += 0x9E3779B97F4A7C15
	z := r.s
	z = (z ^ (z >> 30)) * 0xBF58476D1CE4E5B9
	z = (z ^ (z >> 27)) * 0x94D049BB133111EB
	return z ^ (z >> 31)
}
func (r *Rng) Intn(n int) int {
	if n <= 0 {
		return 0
	}
	return int(r.U64() % uint64(n))
}
func (r *Rng) Bool() bool          { return r.U64()&1 == 1 }
func (r *Rng) Pick(xs []int) int   { return xs[r.Intn(len(xs))] }
func (r *Rng) Chance(pct int) bool { return r.Intn(100) < pct }
func (r *Rng) Fork() *Rng          { return NewRng(r.U64()) }

type caseRec struct {
	coq    string
	desc   string
	weight int
}

// Emitter collects correspondence cases and writes them as Coq shards.
type Emitter struct {
	Prop      string
	RunModule string // e.g. "Block.Run"
	Preamble  string // extra Coq text after imports
	ShardSize int
	MaxBytes  int
	cases     []caseRec
	seen      map[string]bool
	Evals     int
	Nontriv   int
	Hist      map[string]int
	Samples   []string
	Rule      string
	Extra     map[string]interface{}
	Only      string // replay: only the case whose descriptor equals this
}

func NewEmitter(prop, runModule string) *Emitter {
	return &Emitter{Prop: prop, RunModule: runModule, ShardSize: 150, MaxBytes: 90000, seen: map[string]bool{}, Hist: map[string]int{}, Extra: map[string]interface{}{}}
}

// Add records one case. desc is a one-line, re-parsable descriptor of the
// input (used for replay); nontrivial says whether the case counts as
// non-trivial by the property's rule; hist are histogram buckets.
func (e *Emitter) Add(coq, desc string, nontrivial bool, hist ...string) {
	e.AddW(coq, desc, nontrivial, 1, hist...)
}

// AddW is Add with an evaluation weight (1 = an ordinary small case); a shard
// holds at most ShardSize weight units.
func (e *Emitter) AddW(coq, desc string, nontrivial bool, weight int, hist ...string) {
	e.Evals++
	for _, h := range hist {
		e.Hist[h]++
	}
	if !e.seen[desc] {
		e.seen[desc] = true
		if nontrivial {
			e.Nontriv++
		}
	}
	if len(e.Samples) < 6 && (nontrivial || len(e.cases)%97 == 0) {
		e.Samples = append(e.Samples, desc)
	}
	e.cases = append(e.cases, caseRec{coq, desc, weight})
}

func (e *Emitter) Flush(outdir string) error {
	if err := os.MkdirAll(outdir, 0o755); err != nil {
		return err
	}
	old, _ := filepath.Glob(filepath.Join(outdir, "cases_*"))
	for _, f := range old {
		os.Remove(f)
	}
	shard := 0
	i := 0
	for i < len(e.cases) {
		var sb, tb strings.Builder
		n := 0
		w := 0
		bytes := 0
		sb.WriteString("From Coq Require Import ZArith NArith List Bool String.\nImport ListNotations.\n")
		sb.WriteString("From GoCoap Require Import " + e.RunModule + ".\n")
		sb.WriteString("Open Scope Z_scope.\n" + e.Preamble + "\n")
		sb.WriteString("Definition cases : list case := [\n")
		for i < len(e.cases) && (n == 0 || (w+e.cases[i].weight <= e.ShardSize && bytes+len(e.cases[i].coq) < e.MaxBytes)) {
			if n > 0 {
				sb.WriteString(";\n")
			}
			sb.WriteString("  " + e.cases[i].coq)
			tb.WriteString(e.cases[i].desc + "\n")
			bytes += len(e.cases[i].coq)
			w += e.cases[i].weight
			n++
			i++
		}
		sb.WriteString("\n].\n")
		sb.WriteString("Definition MM := Eval vm_compute in mismatches cases.\n")
		sb.WriteString("Definition PF := Eval vm_compute in property_failures cases.\n")
		sb.WriteString("Print MM.\nPrint PF.\n")
		base := filepath.Join(outdir, fmt.Sprintf("cases_%03d", shard))
		if err := os.WriteFile(base+".v", []byte(sb.String()), 0o644); err != nil {
			return err
		}
		if err := os.WriteFile(base+".txt", []byte(tb.String()), 0o644); err != nil {
			return err
		}
		shard++
	}
	keys := make([]string, 0, len(e.Hist))
	for k := range e.Hist {
		keys = append(keys, k)
	}
	sort.Strings(keys)
	st := map[string]interface{}{
		"property": e.Prop, "evaluations": e.Evals, "distinct_nontrivial": e.Nontriv,
		"histogram": e.Hist, "samples": e.Samples, "rule": e.Rule, "shards": shard, "extra": e.Extra,
	}
	b, _ := json.MarshalIndent(st, "", " ")
	return os.WriteFile(filepath.Join(outdir, "stats.json"), b, 0o644)
}

func coqBool(b bool) string {
	if b {
		return "true"
	}
	return "false"
}

// coqZ prints an integer as a Coq Z literal (parenthesised when negative).
func coqZ(v int64) string {
	if v < 0 {
		return fmt.Sprintf("(%d)", v)
	}
	return fmt.Sprintf("%d", v)
}

func coqZu(v uint64) string { return fmt.Sprintf("%d", v) }

// writeIfChanged keeps timestamps stable so make does not rebuild needlessly.
func writeIfChanged(path string, content string) error {
	old, err := os.ReadFile(path)
	if err == nil && string(old) == content {
		return nil
	}
	if err := os.MkdirAll(filepath.Dir(path), 0o755); err != nil {
		return err
	}
	return os.WriteFile(path, []byte(content), 0o644)
}

// genBody mirrors Base/Bytes.v gen_body: byte i = (7*i + salt) mod 251.
func genBody(salt int, n int) []byte {
	b := make([]byte, n)
	for i := range b {
		b[i] = byte((7*i + salt) % 251)
	}
	return b
}

// csum mirrors Base/Bytes.v csum.
func csum(b []byte) uint64 {
	h := uint64(0)
	for _, x := range b {
		h = (h*131 + uint64(x) + 1) & (1<<48 - 1)
	}
	return h
}
