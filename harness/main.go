// hx: verification harness for /repo (plgd-dev/go-coap). Built with -tags verif
// from the current working tree of /repo. Sub-commands:
//
//	hx gen --out DIR                      regenerate coq/theories/Gen/*.v
//	hx <Cxx> --tier T --seed S --out DIR [--only DESC]   run the implementation and write Coq case shards
package main

import (
	"flag"
	"fmt"
	"os"
)

type runArgs struct {
	tier string
	seed uint64
	out  string
	only string
}

var props = map[string]func(a runArgs) error{}

func main() {
	if len(os.Args) < 2 {
		fmt.Fprintln(os.Stderr, "usage: hx gen|Cxx ...")
		os.Exit(2)
	}
	cmd := os.Args[1]
	fs := flag.NewFlagSet(cmd, flag.ExitOnError)
	tier := fs.String("tier", "quick", "quick|thorough")
	seed := fs.Uint64("seed", 1, "seed")
	out := fs.String("out", "", "output directory")
	only := fs.String("only", "", "replay only the case with this descriptor")
	_ = fs.Parse(os.Args[2:])
	if *out == "" {
		fmt.Fprintln(os.Stderr, "--out required")
		os.Exit(2)
	}
	if cmd == "gen" {
		if err := runGen(*out); err != nil {
			fmt.Fprintln(os.Stderr, "gen:", err)
			os.Exit(3)
		}
		return
	}
	f, ok := props[cmd]
	if !ok {
		fmt.Fprintln(os.Stderr, "unknown property", cmd)
		os.Exit(2)
	}
	if err := f(runArgs{*tier, *seed, *out, *only}); err != nil {
		fmt.Fprintln(os.Stderr, cmd+":", err)
		os.Exit(3)
	}
}
