package main

// C15: option list and message builder vs. the sorted-multiset model.
// Runs message.Options methods (mode 0) and pool.Message builder methods
// (mode 1) on operation sequences and records, after every step, the return
// values, a hash of the option list and hashes of every getter's answer.

import (
	"context"
	"encoding/hex"
	"encoding/json"
	"errors"
	"fmt"
	"reflect"
	"strings"

	"github.com/plgd-dev/go-coap/v3/message"
	"github.com/plgd-dev/go-coap/v3/message/pool"
)

func init() { props["C15"] = runC15 }

// ---- symbolic values ----

type c15Val struct {
	Gen  bool     `json:"g,omitempty"`
	Salt int      `json:"s,omitempty"`
	N    int      `json:"n,omitempty"`
	Lit  hexBytes `json:"l,omitempty"`
}

// hexBytes prints literal bytes as a hex string in descriptors.
type hexBytes []byte

func (h hexBytes) MarshalJSON() ([]byte, error) { return json.Marshal(hex.EncodeToString(h)) }
func (h *hexBytes) UnmarshalJSON(b []byte) error {
	var s string
	if err := json.Unmarshal(b, &s); err != nil {
		return err
	}
	d, err := hex.DecodeString(s)
	*h = d
	return err
}

// genVal mirrors Opt/Run.v gen_val: gen_body with '/' replaced by '0'.
func genVal(salt, n int) []byte {
	b := genBody(salt, n)
	for i := range b {
		if b[i] == 47 {
			b[i] = 48
		}
	}
	return b
}

func (v c15Val) bytes() []byte {
	if v.Gen {
		return genVal(v.Salt, v.N)
	}
	return append([]byte{}, v.Lit...)
}

func (v c15Val) coq() string {
	if v.Gen {
		return fmt.Sprintf("(G %d %d)", v.Salt, v.N)
	}
	return "(L " + coqBytes(v.Lit) + ")"
}

func gv(salt, n int) c15Val { return c15Val{Gen: true, Salt: salt, N: n} }
func lv(s string) c15Val    { return c15Val{Lit: []byte(s)} }
func pathBytes(p []c15Val) []byte {
	var b []byte
	for _, x := range p {
		b = append(b, x.bytes()...)
	}
	return b
}

type c15In struct {
	ID int    `json:"id"`
	V  c15Val `json:"v"`
}

type c15Op struct {
	K   string   `json:"k"` // set add rm setb addb setu addu path reset clone rst own
	ID  int      `json:"id,omitempty"`
	V   c15Val   `json:"v,omitempty"`
	U   uint32   `json:"u,omitempty"`
	B   int      `json:"b,omitempty"`
	P   []c15Val `json:"p,omitempty"`
	Ins []c15In  `json:"ins,omitempty"`
	Sel []int    `json:"sel,omitempty"` // own: positions of the receiver's current options
	Vw  int      `json:"vw,omitempty"`  // own: 1 = pass Options() / a sub-slice of it when sel is a contiguous run
}

type c15Case struct {
	Mode   int     `json:"mode"`
	Cap    int     `json:"cap"`
	Probes []int   `json:"probes"`
	Ops    []c15Op `json:"ops"`
}

func (o c15Op) coq() string {
	switch o.K {
	case "set":
		return fmt.Sprintf("CSet %d %s", o.ID, o.V.coq())
	case "add":
		return fmt.Sprintf("CAdd %d %s", o.ID, o.V.coq())
	case "rm":
		return fmt.Sprintf("CRemove %d", o.ID)
	case "setb":
		return fmt.Sprintf("CSetBytes %d %s %d", o.ID, o.V.coq(), o.B)
	case "addb":
		return fmt.Sprintf("CAddBytes %d %s %d", o.ID, o.V.coq(), o.B)
	case "setu":
		return fmt.Sprintf("CSetU32 %d %d %d", o.ID, o.U, o.B)
	case "addu":
		return fmt.Sprintf("CAddU32 %d %d %d", o.ID, o.U, o.B)
	case "path":
		parts := make([]string, len(o.P))
		for i, x := range o.P {
			parts[i] = strings.Trim(x.coq(), "()")
		}
		return fmt.Sprintf("CSetPath %d [%s] %d", o.ID, strings.Join(parts, "; "), o.B)
	case "reset":
		parts := make([]string, len(o.Ins))
		for i, x := range o.Ins {
			parts[i] = fmt.Sprintf("(%d, %s)", x.ID, strings.Trim(x.V.coq(), "()"))
		}
		return fmt.Sprintf("CResetTo [%s] %d", strings.Join(parts, "; "), o.B)
	case "clone":
		return "CClone"
	case "own":
		parts := make([]string, len(o.Sel))
		for i, x := range o.Sel {
			parts[i] = fmt.Sprint(x)
		}
		return fmt.Sprintf("CResetOwn [%s] %d %d", strings.Join(parts, "; "), o.B, o.Vw)
	default:
		return "CReset"
	}
}

// ---- hashing (mirrors Opt/Run.v mix/hwords/vsum/lhash) ----

const c15M48 = uint64(1)<<48 - 1

func c15Hash(ws []int64) uint64 {
	h := uint64(0)
	for _, x := range ws {
		h = (h*1000003 + uint64(x) + 1) & c15M48
	}
	return h
}

func vsum(b []byte) []int64 { return []int64{int64(len(b)), int64(csum(b))} }

func c15ListHash(opts message.Options) uint64 {
	ws := []int64{int64(len(opts))}
	for _, o := range opts {
		ws = append(ws, int64(o.ID))
		ws = append(ws, vsum(o.Value)...)
	}
	return c15Hash(ws)
}

func c15Err(err error) int64 {
	switch {
	case err == nil:
		return 0
	case errors.Is(err, message.ErrTooSmall):
		return 1
	case errors.Is(err, message.ErrInvalidValueLength):
		return 2
	case errors.Is(err, message.ErrOptionNotFound):
		return 3
	}
	return 9
}

// safe runs one getter; a panic is the observable [777777].
func safe(f func() []int64) (ws []int64) {
	defer func() {
		if recover() != nil {
			ws = []int64{777777}
		}
	}()
	return f()
}

func rlens(cnt int) []int {
	if cnt > 0 {
		return []int{cnt, cnt + 1, cnt - 1}
	}
	return []int{cnt, cnt + 1}
}

func clampN(n, l int) int {
	if n > l {
		return l
	}
	if n < 0 {
		return 0
	}
	return n
}

// c15Getters returns the nine getter-kind hashes; msg != nil: use the
// pool.Message wrappers where they exist.
func c15Getters(opts message.Options, msg *pool.Message, probes []int) []uint64 {
	kinds := make([][]int64, 9)
	add := func(k int, ws []int64) { kinds[k] = append(kinds[k], ws...) }
	for _, p := range probes {
		id := message.OptionID(p)
		cnt := 0
		for _, o := range opts {
			if o.ID == id {
				cnt++
			}
		}
		add(0, safe(func() []int64 {
			f, l, err := opts.Find(id)
			if err != nil {
				return []int64{1, 0, 0}
			}
			return []int64{0, int64(f) + 1, int64(l) + 1}
		}))
		add(0, safe(func() []int64 {
			var h bool
			if msg != nil {
				h = msg.HasOption(id)
			} else {
				h = opts.HasOption(id)
			}
			if h {
				return []int64{1}
			}
			return []int64{0}
		}))
		add(1, safe(func() []int64 {
			var v []byte
			var err error
			if msg != nil {
				v, err = msg.GetOptionBytes(id)
			} else {
				v, err = opts.GetBytes(id)
			}
			return append([]int64{c15Err(err)}, vsum(v)...)
		}))
		add(1, safe(func() []int64 {
			v, err := opts.GetString(id)
			return append([]int64{c15Err(err)}, vsum([]byte(v))...)
		}))
		add(2, safe(func() []int64 {
			var v uint32
			var err error
			if msg != nil {
				v, err = msg.GetOptionUint32(id)
			} else {
				v, err = opts.GetUint32(id)
			}
			return []int64{c15Err(err), int64(v)}
		}))
		for _, n := range rlens(cnt) {
			n := n
			add(3, safe(func() []int64 {
				r := make([]uint32, n)
				k, err := opts.GetUint32s(id, r)
				ws := []int64{int64(k), c15Err(err)}
				if err == nil {
					for _, x := range r[:clampN(k, len(r))] {
						ws = append(ws, int64(x))
					}
				}
				return ws
			}))
			add(4, safe(func() []int64 {
				r := make([]string, n)
				k, err := opts.GetStrings(id, r)
				ws := []int64{int64(k), c15Err(err)}
				if err == nil {
					for _, x := range r[:clampN(k, len(r))] {
						ws = append(ws, vsum([]byte(x))...)
					}
				}
				return ws
			}))
			add(5, safe(func() []int64 {
				r := make([][]byte, n)
				var k int
				var err error
				if msg != nil {
					k, err = msg.GetOptionAllBytes(id, r)
				} else {
					k, err = opts.GetBytess(id, r)
				}
				ws := []int64{int64(k), c15Err(err)}
				if err == nil {
					for _, x := range r[:clampN(k, len(r))] {
						ws = append(ws, vsum(x)...)
					}
				}
				return ws
			}))
		}
	}
	add(2, safe(func() []int64 {
		var v message.MediaType
		var err error
		if msg != nil {
			v, err = msg.ContentFormat()
		} else {
			v, err = opts.ContentFormat()
		}
		return []int64{c15Err(err), int64(v)}
	}))
	add(2, safe(func() []int64 {
		var v uint32
		var err error
		if msg != nil {
			v, err = msg.Observe()
		} else {
			v, err = opts.Observe()
		}
		return []int64{c15Err(err), int64(v)}
	}))
	add(2, safe(func() []int64 {
		var v message.MediaType
		var err error
		if msg != nil {
			v, err = msg.Accept()
		} else {
			v, err = opts.Accept()
		}
		return []int64{c15Err(err), int64(v)}
	}))
	add(6, safe(func() []int64 {
		var s string
		var err error
		if msg != nil {
			s, err = msg.Path()
		} else {
			s, err = opts.Path()
		}
		return append([]int64{c15Err(err)}, vsum([]byte(s))...)
	}))
	add(7, safe(func() []int64 {
		s, err := opts.LocationPath()
		return append([]int64{c15Err(err)}, vsum([]byte(s))...)
	}))
	add(8, safe(func() []int64 {
		var q []string
		var err error
		if msg != nil {
			q, err = msg.Queries()
		} else {
			q, err = opts.Queries()
		}
		ws := []int64{c15Err(err), int64(len(q))}
		for _, x := range q {
			ws = append(ws, vsum([]byte(x))...)
		}
		return ws
	}))
	out := make([]uint64, 9)
	for i := range kinds {
		out[i] = c15Hash(kinds[i])
	}
	return out
}

// ---- running one case on the real code ----

type c15Arena struct {
	buf []byte
	off int
}

// get returns a window of n bytes whose capacity extends into the rest of the
// arena (as a caller passing buf[used:] would); regions are never reused.
func (a *c15Arena) get(n int) []byte {
	if a.off+n > len(a.buf) {
		sz := 8192
		if n > sz {
			sz = 2 * n
		}
		a.buf = make([]byte, sz)
		for i := range a.buf {
			a.buf[i] = 0xAA
		}
		a.off = 0
	}
	b := a.buf[a.off : a.off+n]
	a.off += n
	return b
}

type c15Obs struct {
	err, used, vb int64
	lh            uint64
	gh            []uint64
	nOpts         int
	repeated      bool
}

func c15Repeated(opts message.Options) bool {
	for i := 1; i < len(opts); i++ {
		if opts[i].ID == opts[i-1].ID {
			return true
		}
	}
	return false
}

func toOptions(ins []c15In, ar *c15Arena) message.Options {
	in := make(message.Options, 0, len(ins))
	for _, x := range ins {
		b := x.V.bytes()
		w := ar.get(len(b))
		copy(w, b)
		in = append(in, message.Option{ID: message.OptionID(x.ID), Value: w})
	}
	return in
}

func c15RunOptions(c c15Case) []c15Obs {
	opts := make(message.Options, 0, c.Cap)
	ar := &c15Arena{}
	var out []c15Obs
	for _, o := range c.Ops {
		var used int
		var err error
		ec := int64(-1)
		func() {
			defer func() {
				if recover() != nil {
					ec = 7
				}
			}()
			id := message.OptionID(o.ID)
			switch o.K {
			case "set", "add":
				b := o.V.bytes()
				w := ar.get(len(b))
				copy(w, b)
				if o.K == "set" {
					opts = opts.Set(message.Option{ID: id, Value: w})
				} else {
					opts = opts.Add(message.Option{ID: id, Value: w})
				}
			case "rm":
				opts = opts.Remove(id)
			case "setb":
				b := o.V.bytes()
				if o.V.Salt%2 == 0 {
					opts, used, err = opts.SetBytes(ar.get(o.B), id, b)
				} else {
					opts, used, err = opts.SetString(ar.get(o.B), id, string(b))
				}
			case "addb":
				b := o.V.bytes()
				if o.V.Salt%2 == 0 {
					opts, used, err = opts.AddBytes(ar.get(o.B), id, b)
				} else {
					opts, used, err = opts.AddString(ar.get(o.B), id, string(b))
				}
			case "setu":
				switch {
				case id == message.ContentFormat && o.U <= 65535:
					opts, used, err = opts.SetContentFormat(ar.get(o.B), message.MediaType(o.U))
				case id == message.Accept && o.U <= 65535:
					opts, used, err = opts.SetAccept(ar.get(o.B), message.MediaType(o.U))
				case id == message.Observe:
					opts, used, err = opts.SetObserve(ar.get(o.B), o.U)
				default:
					opts, used, err = opts.SetUint32(ar.get(o.B), id, o.U)
				}
			case "addu":
				opts, used, err = opts.AddUint32(ar.get(o.B), id, o.U)
			case "path":
				p := string(pathBytes(o.P))
				if id == message.LocationPath {
					opts, used, err = opts.SetLocationPath(ar.get(o.B), p)
				} else {
					opts, used, err = opts.SetPath(ar.get(o.B), p)
				}
			case "reset":
				in := toOptions(o.Ins, ar)
				opts, used, err = opts.ResetOptionsTo(ar.get(o.B), in)
			case "own":
				opts, used, err = opts.ResetOptionsTo(ar.get(o.B), c15Own(opts, o.Sel, o.Vw))
			case "clone":
				var cl message.Options
				cl, err = opts.Clone()
				if err == nil {
					// later edits of the original must not reach the copy
					for i := range opts {
						for j := range opts[i].Value {
							opts[i].Value[j] = 0xEE
						}
						opts[i] = message.Option{}
					}
					opts = cl
				}
			case "rst":
				opts = opts[:0]
			}
		}()
		if ec < 0 {
			ec = c15Err(err)
		}
		out = append(out, c15Obs{err: ec, used: int64(used), lh: c15ListHash(opts), gh: c15Getters(opts, nil, c.Probes), nOpts: len(opts), repeated: c15Repeated(opts)})
	}
	return out
}

func c15VB(m *pool.Message) int64 {
	return int64(reflect.ValueOf(m).Elem().FieldByName("valueBuffer").Len())
}

func c15RunMessage(c c15Case) []c15Obs {
	msg := pool.NewMessage(context.Background())
	ar := &c15Arena{}
	var out []c15Obs
	for _, o := range c.Ops {
		var err error
		ec := int64(-1)
		func() {
			defer func() {
				if recover() != nil {
					ec = 7
				}
			}()
			id := message.OptionID(o.ID)
			switch o.K {
			case "set":
				msg.SetOptionBytes(id, o.V.bytes())
			case "add":
				msg.AddOptionBytes(id, o.V.bytes())
			case "rm":
				msg.Remove(id)
			case "setb":
				msg.SetOptionString(id, string(o.V.bytes()))
			case "addb":
				if id == message.URIQuery {
					msg.AddQuery(string(o.V.bytes()))
				} else {
					msg.AddOptionString(id, string(o.V.bytes()))
				}
			case "setu":
				switch {
				case id == message.ContentFormat && o.U <= 65535:
					msg.SetContentFormat(message.MediaType(o.U))
				case id == message.Accept && o.U <= 65535:
					msg.SetAccept(message.MediaType(o.U))
				case id == message.Observe:
					msg.SetObserve(o.U)
				default:
					msg.SetOptionUint32(id, o.U)
				}
			case "addu":
				msg.AddOptionUint32(id, o.U)
			case "path":
				err = msg.SetPath(string(pathBytes(o.P)))
			case "reset":
				msg.ResetOptionsTo(toOptions(o.Ins, ar))
			case "own":
				msg.ResetOptionsTo(c15Own(msg.Options(), o.Sel, o.Vw))
			case "clone":
				m2 := pool.NewMessage(context.Background())
				err = msg.Clone(m2)
				if err == nil {
					// reuse the original: its buffer is overwritten
					msg.Reset()
					junk := make([]byte, 300)
					for i := range junk {
						junk[i] = 0xEE
					}
					msg.SetOptionBytes(1, junk[:256])
					msg.AddOptionBytes(2, junk)
					msg = m2
				}
			case "rst":
				msg.Reset()
			}
		}()
		if ec < 0 {
			ec = c15Err(err)
		}
		opts := msg.Options()
		out = append(out, c15Obs{err: ec, vb: c15VB(msg), lh: c15ListHash(opts), gh: c15Getters(opts, msg, c.Probes), nOpts: len(opts), repeated: c15Repeated(opts)})
	}
	return out
}

func c15Emit(e *Emitter, c c15Case, tag string) {
	var obs []c15Obs
	if c.Mode == 0 {
		obs = c15RunOptions(c)
	} else {
		obs = c15RunMessage(c)
	}
	steps := make([]string, len(c.Ops))
	nontriv := false
	hist := []string{tag, fmt.Sprintf("mode%d", c.Mode), fmt.Sprintf("cap%d", c.Cap), fmt.Sprintf("steps%02d", (len(c.Ops)+4)/5*5)}
	maxOpts := 0
	for i, o := range c.Ops {
		ob := obs[i]
		gs := make([]string, len(ob.gh))
		for j, g := range ob.gh {
			gs[j] = fmt.Sprint(g)
		}
		steps[i] = fmt.Sprintf("St (%s) %d %s %d %d [%s]", o.coq(), ob.err, coqZ(ob.used), ob.vb, ob.lh, strings.Join(gs, "; "))
		hist = append(hist, "op:"+o.K, fmt.Sprintf("err%d", ob.err))
		if ob.err != 0 || ob.repeated || (c.Mode == 1 && ob.vb > 256) || (o.K == "own" && ob.nOpts > 0) {
			nontriv = true
		}
		if ob.nOpts > maxOpts {
			maxOpts = ob.nOpts
		}
	}
	hist = append(hist, fmt.Sprintf("maxlen%02d", (maxOpts+3)/4*4))
	ps := make([]string, len(c.Probes))
	for i, p := range c.Probes {
		ps[i] = fmt.Sprint(p)
	}
	coq := fmt.Sprintf("Case %d %d [%s] [\n    %s]", c.Mode, c.Cap, strings.Join(ps, "; "), strings.Join(steps, ";\n    "))
	d, _ := json.Marshal(c)
	w := 1 + len(c.Ops)/3
	e.AddW(coq, string(d), nontriv, w, hist...)
}

// ---- generators ----

var c15IDs = []int{1, 4, 6, 8, 11, 11, 11, 12, 15, 15, 17, 60, 65000}

func c15Probes(ops []c15Op, rng *Rng) []int {
	seen := map[int]bool{}
	var ps []int
	addp := func(p int) {
		if !seen[p] && len(ps) < 5 {
			seen[p] = true
			ps = append(ps, p)
		}
	}
	for _, o := range ops {
		if o.K != "clone" && o.K != "rst" && o.K != "reset" {
			addp(o.ID)
		}
		for _, x := range o.Ins {
			addp(x.ID)
		}
	}
	// one number that is usually absent, between used ones
	for _, p := range []int{10, 13, 3, 0, 65535} {
		if !seen[p] {
			ps = append(ps, p)
			break
		}
	}
	return ps
}

func c15RandVal(rng *Rng, salt int) c15Val {
	lens := []int{0, 0, 1, 1, 1, 2, 2, 3, 4, 4, 5, 8, 13, 60, 100, 200, 254, 255, 256, 257, 300}
	n := lens[rng.Intn(len(lens))]
	if n <= 5 && rng.Chance(50) {
		b := make([]byte, n)
		for i := range b {
			b[i] = byte(rng.U64())
		}
		return c15Val{Lit: b}
	}
	return gv(salt, n)
}

func c15RandU32(rng *Rng) uint32 {
	switch rng.Intn(8) {
	case 0:
		return 0
	case 1:
		return uint32([]int{1, 255, 256, 65535, 65536, 16777215, 16777216, 4294967295}[rng.Intn(8)])
	case 2:
		return uint32(rng.Intn(256))
	case 3:
		return uint32(rng.Intn(65536))
	}
	return uint32(rng.U64())
}

func c15RandPath(rng *Rng, salt int) []c15Val {
	var p []c15Val
	n := rng.Intn(6)
	if rng.Chance(70) {
		p = append(p, lv("/"))
	}
	for i := 0; i < n; i++ {
		switch rng.Intn(12) {
		case 0:
			p = append(p, lv("/"))
		case 1:
			p = append(p, gv(salt+i, 255))
		case 2:
			p = append(p, gv(salt+i, 256))
		case 3:
			p = append(p, gv(salt+i, []int{254, 257, 30, 31, 32, 33, 100}[rng.Intn(7)]))
		case 4:
			p = append(p, lv("a//b"))
		default:
			p = append(p, gv(salt+i, 1+rng.Intn(8)))
		}
		if rng.Chance(85) {
			p = append(p, lv("/"))
		}
	}
	return p
}

func c15PathNeed(p []c15Val) int {
	n := 0
	for _, c := range pathBytes(p) {
		if c != '/' {
			n++
		}
	}
	return n
}

func c15Buf(rng *Rng, need int) int {
	switch rng.Intn(10) {
	case 0:
		if need > 0 {
			return need - 1
		}
		return 0
	case 1:
		return need
	case 2:
		return need + 1
	case 3:
		return need / 2
	}
	return need + rng.Intn(64)
}

func c15RandOp(rng *Rng, mode, salt int) c15Op {
	id := c15IDs[rng.Intn(len(c15IDs))]
	switch k := rng.Intn(100); {
	case k < 14:
		return c15Op{K: "set", ID: id, V: c15RandVal(rng, salt)}
	case k < 30:
		return c15Op{K: "add", ID: id, V: c15RandVal(rng, salt)}
	case k < 42:
		return c15Op{K: "rm", ID: id}
	case k < 50:
		v := c15RandVal(rng, salt)
		if mode == 1 && id == 11 && len(v.bytes()) > 255 && rng.Chance(70) {
			id = 15 // SetOptionString(URIPath, >255) panics by design: keep it rare
		}
		return c15Op{K: "setb", ID: id, V: v, B: c15Buf(rng, len(v.bytes()))}
	case k < 60:
		v := c15RandVal(rng, salt)
		if mode == 1 && id == 11 && len(v.bytes()) > 255 && rng.Chance(70) {
			id = 15
		}
		return c15Op{K: "addb", ID: id, V: v, B: c15Buf(rng, len(v.bytes()))}
	case k < 67:
		return c15Op{K: "setu", ID: []int{12, 12, 6, 17, 60, 14, id}[rng.Intn(7)], U: c15RandU32(rng), B: []int{0, 1, 2, 3, 4, 5, 8}[rng.Intn(7)]}
	case k < 73:
		return c15Op{K: "addu", ID: id, U: c15RandU32(rng), B: []int{0, 1, 2, 3, 4, 5, 8}[rng.Intn(7)]}
	case k < 88:
		p := c15RandPath(rng, salt)
		pid := 11
		if mode == 0 && rng.Chance(35) {
			pid = 8
		}
		return c15Op{K: "path", ID: pid, P: p, B: c15Buf(rng, c15PathNeed(p))}
	case k < 93:
		n := rng.Intn(6)
		var ins []c15In
		tot := 0
		for i := 0; i < n; i++ {
			v := c15RandVal(rng, salt+i)
			tot += len(v.bytes())
			ins = append(ins, c15In{ID: c15IDs[rng.Intn(len(c15IDs))], V: v})
		}
		return c15Op{K: "reset", Ins: ins, B: c15Buf(rng, tot)}
	case k < 97:
		return c15Op{K: "clone"}
	case k < 99:
		return c15RandOwn(rng, mode)
	}
	return c15Op{K: "rst"}
}

func runC15(a runArgs) error {
	e := NewEmitter("C15", "Opt.Run")
	e.ShardSize = 110
	e.Rule = "A case is an operation sequence applied to a fresh message.Options (mode 0, capacities 0/1/16) or pool.Message (mode 1), observed after every step (return values, list, all getters for the probe numbers with result slices of exact/+1/-1 length, Path/LocationPath/Queries). Distinct = distinct sequence; non-trivial = some step left a repeated option number in the list, or was refused, or grew the pool value buffer beyond 256 bytes, or reset the receiver to a non-empty selection of its own options (input aliasing the receiver's value storage)."
	if a.only != "" {
		var c c15Case
		if err := json.Unmarshal([]byte(a.only), &c); err != nil {
			return err
		}
		c15Emit(e, c, "replay")
		return e.Flush(a.out)
	}
	rng := NewRng(a.seed)
	thorough := a.tier == "thorough"
	caps := []int{0, 1, 16}

	// 1. exhaustive: all sequences of set/add/remove over four numbers
	exIDs := []int{1, 11, 12, 15}
	type sop struct {
		k  string
		id int
	}
	var alpha []sop
	for _, k := range []string{"set", "add", "rm"} {
		for _, id := range exIDs {
			alpha = append(alpha, sop{k, id})
		}
	}
	depth := 3
	if thorough {
		depth = 4
	}
	nEx := 0
	exProbes := []int{11, 12, 13}
	if thorough {
		exProbes = []int{1, 11, 12, 15, 13}
	}
	var rec func(prefix []c15Op, d int)
	build := func(prefix []c15Op, mode, cp int, tag string) {
		ops := append([]c15Op{}, prefix...)
		c15Emit(e, c15Case{Mode: mode, Cap: cp, Probes: exProbes, Ops: ops}, tag)
	}
	rec = func(prefix []c15Op, d int) {
		if d == 0 {
			if thorough {
				for _, cp := range caps {
					build(prefix, 0, cp, "exhaustive")
				}
				build(prefix, 1, 16, "exhaustive")
			} else {
				// capacities and the two modes alternate over the enumeration
				if nEx%4 == 3 {
					build(prefix, 1, 16, "exhaustive")
				} else {
					build(prefix, 0, caps[nEx%4], "exhaustive")
				}
			}
			nEx++
			return
		}
		for _, s := range alpha {
			o := c15Op{K: s.k, ID: s.id}
			if s.k != "rm" {
				o.V = c15Val{Lit: []byte{byte(len(prefix) + 1)}}
			}
			rec(append(prefix, o), d-1)
		}
	}
	rec(nil, depth)
	// from a populated list: every pair of operations
	pre := c15Op{K: "reset", B: 64, Ins: []c15In{{15, lv("q")}, {11, lv("a")}, {1, lv("m")}, {11, lv("b")}, {12, lv("")}, {11, lv("c")}}}
	d2 := 2
	if thorough {
		d2 = 3
	}
	rec([]c15Op{pre}, d2)
	e.Extra["exhaustive"] = false
	e.Extra["exhaustive_domain"] = fmt.Sprintf("all %d^%d sequences of set/add/remove over numbers {1,11,12,15} from the empty list and all %d^%d from [1,11,11,11,12,15]", len(alpha), depth, len(alpha), d2)

	// 2. directed: end-of-list multi getters, path boundaries, buffer growth
	for _, mode := range []int{0, 1} {
		for _, cp := range caps {
			if mode == 1 && cp != 16 {
				continue
			}
			// multi-valued option at the end and in the middle of the list
			c15Emit(e, c15Case{Mode: mode, Cap: cp, Probes: []int{4, 15, 60, 13}, Ops: []c15Op{
				{K: "addu", ID: 60, U: 70000, B: 8}, {K: "addu", ID: 60, U: 5, B: 8}, {K: "add", ID: 4, V: lv("et")},
				{K: "add", ID: 4, V: lv("ag")}, {K: "addb", ID: 15, V: lv("q=1"), B: 8}, {K: "rm", ID: 60}, {K: "rm", ID: 15}}}, "directed")
			// path boundaries
			for _, p := range [][]c15Val{
				{lv("/")}, {lv("//")}, {lv("a")}, {lv("/a/b/")}, {lv("a//b///c")},
				{lv("/"), gv(1, 255)}, {lv("/"), gv(1, 256)}, {lv("/x/"), gv(2, 255), lv("/"), gv(3, 255), lv("/")},
				{lv("/x/"), gv(2, 255), lv("/"), gv(3, 256), lv("/y")}, {gv(5, 31)}, {lv("/"), gv(5, 32)}, {gv(5, 300)},
			} {
				need := c15PathNeed(p)
				for _, b := range []int{need, need - 1, need + 40} {
					if b < 0 || (mode == 1 && b != need) {
						continue
					}
					c15Emit(e, c15Case{Mode: mode, Cap: cp, Probes: []int{11, 15, 8}, Ops: []c15Op{
						{K: "add", ID: 11, V: lv("old")}, {K: "add", ID: 15, V: lv("k=v")}, {K: "add", ID: 11, V: lv("er")}, {K: "add", ID: 8, V: lv("loc")},
						{K: "path", ID: 11, P: p, B: b}, {K: "path", ID: 8 + 3*mode, P: p, B: b}}}, "directed")
				}
			}
		}
	}
	// refused ResetOptionsTo (buffer too small for the second value) on a populated list
	for _, cp := range caps {
		for _, b := range []int{0, 1, 3, 4, 11, 12} {
			c15Emit(e, c15Case{Mode: 0, Cap: cp, Probes: []int{1, 2, 5, 6}, Ops: []c15Op{
				{K: "add", ID: 1, V: lv("m")}, {K: "add", ID: 2, V: lv("b")},
				{K: "reset", B: b, Ins: []c15In{{5, lv("x")}, {6, lv("0123456789")}, {5, lv("y")}}}, {K: "add", ID: 2, V: lv("c")}}}, "directed")
		}
	}
	// pool.Message: value buffer nearly full, then a path / a string / a reset that needs growth
	for _, fill := range []int{200, 250, 255, 256} {
		for _, p := range [][]c15Val{{lv("/abcdefghij/k")}, {lv("/"), gv(7, 255), lv("/"), gv(8, 200)}, {lv("/a/"), gv(9, 256)}} {
			c15Emit(e, c15Case{Mode: 1, Cap: 16, Probes: []int{11, 15, 4}, Ops: []c15Op{
				{K: "add", ID: 11, V: lv("x")}, {K: "add", ID: 11, V: lv("y")}, {K: "add", ID: 15, V: lv("q")},
				{K: "add", ID: 4, V: gv(3, fill)}, {K: "path", ID: 11, P: p}, {K: "setb", ID: 15, V: gv(4, 100)},
				{K: "reset", Ins: []c15In{{15, gv(1, 300)}, {11, lv("z")}, {11, gv(2, 10)}}}, {K: "clone"}, {K: "addu", ID: 60, U: 1 << 24}}}, "directed")
		}
	}

	// 3. ResetOptionsTo with (selections of) the receiver's own options
	c15OwnFamily(e, rng, thorough)

	// 3b. the scratch-and-retry wrappers Queries() (> 4 queries) and Clone() (> 64 bytes of values)
	c15RetryFamily(e, thorough)

	// 4. random sequences
	nRand, maxLen := 150, 20
	if thorough {
		nRand, maxLen = 4000, 40
	}
	for i := 0; i < nRand; i++ {
		r := rng.Fork()
		mode := r.Intn(2)
		cp := caps[r.Intn(3)]
		if mode == 1 {
			cp = 16
		}
		n := 1 + r.Intn(maxLen)
		ops := make([]c15Op, n)
		for j := range ops {
			ops[j] = c15RandOp(r, mode, i*7+j)
		}
		c15Emit(e, c15Case{Mode: mode, Cap: cp, Probes: c15Probes(ops, r), Ops: ops}, "random")
	}

	return e.Flush(a.out)
}
