package main

// C10, round 4: "messages from one remote address are handled ... in arrival order" when a peer has more messages
// in flight than the received-message queue of its connection holds (Server/Queue.v).
//
// burst: cases = a live udp server (the application of the other families) with a small or the default
// ReceivedMessageQueueSize; 1-3 peers send, back to back, more NON requests than the queue has slots while the
// handler of the very first request is held.  The harness lets the handler go once the server has taken from the
// socket what it is going to take -- witnessed, not slept for: either a goroutine stands in the send at the end of
// udp/client.(*Conn).Process (the read loop waits for a slot), or the socket's receive queue is empty
// (/proc/net/udp) and the Serve goroutine is back in its read.  Without a witness within the watchdog the handler is
// released anyway: that can hide a deviation, it cannot make one.  Observed: the order in which the requests of each
// remote address reached the application.

import (
	"fmt"
	"net"
	"os"
	"runtime"
	"strconv"
	"strings"
	"time"

	"github.com/plgd-dev/go-coap/v3/message"
	"github.com/plgd-dev/go-coap/v3/message/codes"
	"github.com/plgd-dev/go-coap/v3/options"
	udpServer "github.com/plgd-dev/go-coap/v3/udp/server"
)

func c10AllStacks() []string {
	buf := make([]byte, 1<<20)
	for {
		n := runtime.Stack(buf, true)
		if n < len(buf) {
			return strings.Split(string(buf[:n]), "\n\n")
		}
		buf = make([]byte, 2*len(buf))
	}
}

// c10ReadLoopWaitsInProcess: a goroutine whose innermost frame is udp/client.(*Conn).Process stands in a send/select.
func c10ReadLoopWaitsInProcess(stacks []string) bool {
	for _, g := range stacks {
		lines := strings.SplitN(g, "\n", 3)
		if len(lines) < 2 {
			continue
		}
		if !(strings.Contains(lines[0], "[select") || strings.Contains(lines[0], "[chan send")) {
			continue
		}
		if strings.HasPrefix(lines[1], "github.com/plgd-dev/go-coap/v3/udp/client.(*Conn).Process(") {
			return true
		}
	}
	return false
}

func c10ServeInRead(stacks []string) bool {
	for _, g := range stacks {
		if strings.Contains(g, "udp/server.(*Server).Serve(") && strings.Contains(strings.SplitN(g, "\n", 2)[0], "[IO wait") {
			return true
		}
	}
	return false
}

// c10RxQueue returns the bytes waiting in the receive queue of the udp4 socket bound to port (-1 = unknown).
func c10RxQueue(port int) int64 {
	b, err := os.ReadFile("/proc/net/udp")
	if err != nil {
		return -1
	}
	want := fmt.Sprintf(":%04X", port)
	for _, line := range strings.Split(string(b), "\n")[1:] {
		f := strings.Fields(line)
		if len(f) < 5 || !strings.HasSuffix(f[1], want) {
			continue
		}
		q := strings.Split(f[4], ":")
		if len(q) != 2 {
			return -1
		}
		v, err := strconv.ParseInt(q[1], 16, 64)
		if err != nil {
			return -1
		}
		return v
	}
	return -1
}

type c10BurstParams struct {
	seed  uint64
	qsize int // 0 = the default of the library
	peers int
}

func (q c10BurstParams) desc() string { return fmt.Sprintf("burst:%d:%d:%d", q.seed, q.qsize, q.peers) }

func c10BurstRun(q c10BurstParams) (coq string, clean bool, hist []string, err error) {
	rng := NewRng(q.seed)
	app := newC10App()
	release := make(chan struct{})
	held := make(chan struct{})
	app.hold = func(remote string, tok []byte) {
		if len(tok) == 3 && tok[0] == 0 && tok[1] == 0 && tok[2] == 0 {
			close(held)
			select {
			case <-release:
			case <-time.After(6 * c10Wait):
			}
		}
	}
	var extra []udpServer.Option
	if q.qsize > 0 {
		extra = append(extra, options.WithReceivedMessageQueueSize(q.qsize))
	}
	srv, err := c10StartUDPOpts(app, "127.0.0.1:0", 0, extra...)
	if err != nil {
		return "", false, nil, err
	}
	qsize := q.qsize
	if qsize == 0 {
		qsize = udpServer.DefaultConfig.ReceivedMessageQueueSize
	}
	dst := &net.UDPAddr{IP: net.IPv4(127, 0, 0, 1), Port: srv.port}
	type bp struct {
		c    *net.UDPConn
		addr string
		n    int
		next int
	}
	var peers []*bp
	total := 0
	for i := 0; i < q.peers; i++ {
		c, e := net.ListenUDP("udp4", &net.UDPAddr{IP: net.IPv4(127, 0, 0, byte(1+i%3)), Port: 0})
		if e != nil {
			return "", false, nil, e
		}
		p := &bp{c: c, addr: c.LocalAddr().String(), n: qsize + 3 + rng.Intn(20)}
		if i > 0 && rng.Bool() {
			p.n = 1 + rng.Intn(qsize+1) // a peer that stays below the queue size
		}
		if p.n > 200 {
			p.n = 200
		}
		total += p.n
		peers = append(peers, p)
	}
	send := func(i int) {
		p := peers[i]
		seq := p.next
		p.next++
		mid := (1000*(i+1) + seq) & 0xffff
		d := encodeWire(1, int(codes.GET), mid, []byte{byte(i), byte(seq >> 8), byte(seq)}, message.Options{{ID: message.URIPath, Value: []byte("a")}}, nil)
		_, _ = p.c.WriteToUDP(d, dst)
	}
	// the first request of peer 0 occupies the handler
	send(0)
	clean = true
	select {
	case <-held:
	case <-time.After(c10Wait):
		clean = false
	}
	// the rest, back to back, the peers interleaved at random
	for left := total - 1; left > 0; {
		i := rng.Intn(len(peers))
		if peers[i].next < peers[i].n {
			send(i)
			left--
		}
	}
	// witness that the server has taken what it is going to take
	witness := 0
	deadline := time.Now().Add(c10Wait)
	for time.Now().Before(deadline) && clean {
		rx := c10RxQueue(srv.port)
		st := c10AllStacks()
		if c10ReadLoopWaitsInProcess(st) {
			witness = 1
			if os.Getenv("HXDBG") != "" {
				fmt.Fprintf(os.Stderr, "burst: read loop waits, rx_queue=%d bytes, %d requests sent\n", rx, total)
			}
			break
		}
		if rx == 0 && c10ServeInRead(st) {
			witness = 2
			break
		}
		time.Sleep(2 * time.Millisecond) // polling interval, not a synchronisation
	}
	close(release)
	// every request reaches the application
	deadline = time.Now().Add(c10Wait)
	for {
		app.mu.Lock()
		n := 0
		for _, p := range peers {
			n += len(app.hlog[p.addr])
		}
		app.mu.Unlock()
		if n >= total || !srv.alive() {
			break
		}
		if time.Now().After(deadline) {
			clean = false
			break
		}
		time.Sleep(2 * time.Millisecond)
	}
	alive := srv.alive()
	probe := false
	if pc, e := net.ListenUDP("udp4", &net.UDPAddr{IP: net.IPv4(127, 0, 0, 1), Port: 0}); e == nil {
		pp := &c10Peer{idx: -1, conn: pc, dead: func() bool { return !srv.alive() }}
		tok := []byte{0xEE, 0x03}
		_, _ = pc.WriteToUDP(encodeWire(0, 1, 9, tok, message.Options{{ID: message.URIPath, Value: []byte("a")}}, nil), dst)
		w := pp.await(&c10Sched{}, dst, func(w wireMsg) bool { return string(w.Tok) == string(tok) }, false)
		probe = w != nil && w.Code == int(codes.Content)
		pc.Close()
	}
	stopped := srv.stop()
	for _, p := range peers {
		p.c.Close()
	}
	app.mu.Lock()
	defer app.mu.Unlock()
	var ps []string
	for i, p := range peers {
		var order []string
		for _, h := range app.hlog[p.addr] {
			v := -1
			if len(h.tok) == 3 && int(h.tok[0]) == i {
				v = int(h.tok[1])<<8 | int(h.tok[2])
			}
			order = append(order, strconv.Itoa(v))
		}
		ps = append(ps, fmt.Sprintf("BP %d [%s]", p.n, strings.Join(order, "; ")))
		if p.n > qsize+2 {
			hist = append(hist, "burst:peer-above-queue")
		} else {
			hist = append(hist, "burst:peer-within-queue")
		}
	}
	hist = append(hist, fmt.Sprintf("burst-witness=%d", witness), fmt.Sprintf("burst-qsize=%d", qsize))
	coq = fmt.Sprintf("BurstRun %d [%s] %d %s %s %s %d", qsize, strings.Join(ps, "; "), witness, coqBool(alive), coqBool(probe), coqBool(stopped), app.panics)
	return coq, clean, hist, nil
}

func c10BurstFamily(e *Emitter, a runArgs, mult int) error {
	var plan []c10BurstParams
	if f := strings.Split(a.only, ":"); a.only != "" {
		if f[0] == "burst" && len(f) == 4 {
			sd, _ := strconv.ParseUint(f[1], 10, 64)
			qs, _ := strconv.Atoi(f[2])
			np, _ := strconv.Atoi(f[3])
			plan = append(plan, c10BurstParams{sd, qs, np})
		}
	} else {
		brng := NewRng(a.seed ^ 0xC10B0857)
		for i := 0; i < 6*mult; i++ {
			plan = append(plan, c10BurstParams{brng.U64() % 1000000007, brng.Pick([]int{0, 0, 1, 4, 32}), 1 + brng.Intn(3)})
		}
	}
	for _, q := range plan {
		var coq string
		var hist []string
		clean := false
		for attempt := 0; attempt < 2 && !clean; attempt++ {
			var err error
			coq, clean, hist, err = c10BurstRun(q)
			if err != nil {
				return err
			}
			if !clean {
				e.Hist["rerun-after-watchdog"]++
			}
		}
		for _, h := range hist {
			e.Hist[h]++
		}
		e.AddW(coq, q.desc(), true, 1+len(coq)/4000, "burst-run")
		if !clean {
			e.Hist["stopped-early"]++
			break
		}
	}
	return nil
}
