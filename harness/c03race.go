package main

// Diagnostic (not part of bin/check): replays the schedule of Coq's
// C03_unregister_own_refuted on a real udp/client.Conn. It is a race between
// goroutines and therefore probabilistic: `hx C03race --out DIR` prints how
// often the window was hit. See notes/C03.md.

import (
	"context"
	"errors"
	"fmt"
	"os"
	"time"

	"github.com/plgd-dev/go-coap/v3/message"
	"github.com/plgd-dev/go-coap/v3/message/codes"
	coapErrors "github.com/plgd-dev/go-coap/v3/pkg/errors"
)

func init() { props["C03race"] = runC03Race }

func runC03Race(a runArgs) error {
	iters := 300
	if a.tier == "thorough" {
		iters = 3000
	}
	tok := []byte{7}
	lost, accepted := 0, 0
	for it := 0; it < iters; it++ {
		r := &c3Run{sc: c3Script{tr: "u"}}
		r.setup()
		ctxA, cancelA := context.WithCancel(context.Background())
		ctxB, cancelB := context.WithTimeout(context.Background(), 2*time.Second)
		doneA := make(chan error, 1)
		doneB := make(chan error, 1)
		go func() {
			req := r.conn.AcquireMessage(ctxA)
			req.SetCode(codes.GET)
			req.SetToken(tok)
			req.SetType(message.NonConfirmable)
			_ = req.SetPath("/c0")
			_, err := r.conn.Do(req)
			doneA <- err
		}()
		// A is registered and on the wire
		for len(r.sess.take()) == 0 {
			time.Sleep(20 * time.Microsecond)
		}
		// B: the same token, retried until it is accepted
		bAccepted := make(chan struct{})
		go func() {
			for {
				req := r.conn.AcquireMessage(ctxB)
				req.SetCode(codes.GET)
				req.SetToken(tok)
				req.SetType(message.NonConfirmable)
				_ = req.SetPath("/c1")
				_, err := r.conn.Do(req)
				if err != nil && errors.Is(err, coapErrors.ErrKeyAlreadyExists) {
					continue
				}
				doneB <- err
				return
			}
		}()
		// the response for A
		r.inject(r.encode(message.NonConfirmable, 0x7001, tok, 0, 1), true)
		<-doneA
		// wait until B's request is on the wire (it was accepted), then answer it
		go func() {
			for len(r.sess.take()) == 0 {
				time.Sleep(20 * time.Microsecond)
			}
			close(bAccepted)
		}()
		select {
		case <-bAccepted:
			accepted++
			r.inject(r.encode(message.NonConfirmable, 0x7002, tok, 1, 2), true)
		case <-time.After(3 * time.Second):
		}
		if err := <-doneB; err != nil {
			lost++ // B was accepted and answered, but its registration was gone: the response went to the default handler
		}
		cancelA()
		cancelB()
		_ = r.ucc.Close()
		r.sess.shutdown()
	}
	fmt.Fprintf(os.Stderr, "C03race: %d iterations, B accepted and answered %d times, B's response lost %d times\n", iters, accepted, lost)
	return nil
}
