package main

// C18 -- inactivity / keep-alive monitors. The real monitors are driven with a
// virtual clock: every activity stamp is the real time.Now() taken inside
// Monitor.Notify, read back exactly through Monitor.LastActivity(); a tick at
// virtual time tau is CheckInactivity(L + (tau - v)) where (v, L) is the latest
// (virtual, real) stamp pair. The monitor's only time state is that latest
// stamp, so this reproduces any spacing exactly, down to one nanosecond.

import (
	"context"
	"errors"
	"fmt"
	"net"
	"reflect"
	"strconv"
	"strings"
	"sync"
	"sync/atomic"
	"time"

	"github.com/plgd-dev/go-coap/v3/message"
	"github.com/plgd-dev/go-coap/v3/message/codes"
	"github.com/plgd-dev/go-coap/v3/message/pool"
	coapNet "github.com/plgd-dev/go-coap/v3/net"
	"github.com/plgd-dev/go-coap/v3/net/monitor/inactivity"
	"github.com/plgd-dev/go-coap/v3/net/responsewriter"
	"github.com/plgd-dev/go-coap/v3/options"
	"github.com/plgd-dev/go-coap/v3/options/config"
	"github.com/plgd-dev/go-coap/v3/pkg/connections"
	udpClient "github.com/plgd-dev/go-coap/v3/udp/client"
	udpCoder "github.com/plgd-dev/go-coap/v3/udp/coder"
)

func init() { props["C18"] = runC18 }

// ---- events, observations, cases ------------------------------------------

type c18Ev struct {
	kind byte  // 'R' recv, 'P' pong g@t, 'B' pong callback g, 'T' tick, 'D' server datagram, 'S' message sent by the local side
	t    int64 // virtual ns
	g    int
	ok   bool // sendPing succeeds (T, D)
	sub  int  // flavour of a received message (conn drivers): 0 peer ping, 1 empty ACK, 2 GET, 3 RST unknown mid;
	// of a sent message (S): 0 NON request, 1 NON notification, 2 CON request never acknowledged, 3 NON request through Do
	c int // connection index (histories over several connections, c18_multi.go); -1 = housekeeping round over all of them
}

func (e c18Ev) desc() string {
	switch e.kind {
	case 'R':
		return fmt.Sprintf("R%d.%d", e.t, e.sub)
	case 'P':
		return fmt.Sprintf("P%d@%d.%d", e.g, e.t, e.sub)
	case 'B':
		return fmt.Sprintf("B%d", e.g)
	case 'S':
		return fmt.Sprintf("S%d.%d", e.t, e.sub)
	case 'T':
		if e.ok {
			return fmt.Sprintf("T%d", e.t)
		}
		return fmt.Sprintf("t%d", e.t)
	case 'D':
		if e.ok {
			return fmt.Sprintf("D%d", e.t)
		}
		return fmt.Sprintf("d%d", e.t)
	}
	return "?"
}

func c18ParseEv(s string) (c18Ev, error) {
	if len(s) < 2 {
		return c18Ev{}, fmt.Errorf("bad event %q", s)
	}
	num := func(x string) int64 { v, _ := strconv.ParseInt(x, 10, 64); return v }
	body := s[1:]
	sub := 0
	if i := strings.IndexByte(body, '.'); i >= 0 {
		sub = int(num(body[i+1:]))
		body = body[:i]
	}
	switch s[0] {
	case 'R':
		return c18Ev{kind: 'R', t: num(body), sub: sub}, nil
	case 'P':
		p := strings.SplitN(body, "@", 2)
		if len(p) != 2 {
			return c18Ev{}, fmt.Errorf("bad event %q", s)
		}
		return c18Ev{kind: 'P', g: int(num(p[0])), t: num(p[1]), sub: sub}, nil
	case 'B':
		return c18Ev{kind: 'B', g: int(num(body))}, nil
	case 'S':
		return c18Ev{kind: 'S', t: num(body), sub: sub}, nil
	case 'T', 't':
		return c18Ev{kind: 'T', t: num(body), ok: s[0] == 'T'}, nil
	case 'D', 'd':
		return c18Ev{kind: 'D', t: num(body), ok: s[0] == 'D'}, nil
	}
	return c18Ev{}, fmt.Errorf("bad event %q", s)
}

func (e c18Ev) coq() string {
	switch e.kind {
	case 'R':
		return fmt.Sprintf("Recv %s", coqZ(e.t))
	case 'P':
		return fmt.Sprintf("Pong %d %s", e.g, coqZ(e.t))
	case 'B':
		return fmt.Sprintf("PongCb %d", e.g)
	case 'S':
		return fmt.Sprintf("Sent %s", coqZ(e.t))
	case 'T':
		return fmt.Sprintf("Tick %s %s", coqZ(e.t), coqBool(e.ok))
	default:
		return fmt.Sprintf("Dgram %s %s", coqZ(e.t), coqBool(e.ok))
	}
}

type c18Obs struct {
	kind byte // 'C' cancel g, 'P' ping g, 'F' ping attempt failed g, 'X' close
	g    int
}

func (o c18Obs) coq() string {
	switch o.kind {
	case 'C':
		return fmt.Sprintf("Cancel %d", o.g)
	case 'P':
		return fmt.Sprintf("Ping %d", o.g)
	case 'F':
		return fmt.Sprintf("PingFail %d", o.g)
	}
	return "Close"
}

type c18Hist struct {
	drv    string // mon | conns | ka | udp | udpconns | srv
	period int64  // ns (for keep-alive drivers through options: timeout = period*(max+1) + rem)
	rem    int64
	max    uint32
	ka     bool
	evs    []c18Ev
}

func (h c18Hist) desc() string {
	parts := make([]string, len(h.evs))
	for i, e := range h.evs {
		parts[i] = e.desc()
	}
	return fmt.Sprintf("hist %s %d %d %d %s %s", h.drv, h.period, h.rem, h.max, coqBool(h.ka), strings.Join(parts, ","))
}

func c18ParseHist(f []string) (c18Hist, error) {
	if len(f) < 6 {
		return c18Hist{}, fmt.Errorf("bad descriptor")
	}
	h := c18Hist{drv: f[1]}
	h.period, _ = strconv.ParseInt(f[2], 10, 64)
	h.rem, _ = strconv.ParseInt(f[3], 10, 64)
	m, _ := strconv.ParseUint(f[4], 10, 32)
	h.max = uint32(m)
	h.ka = f[5] == "true"
	if len(f) > 6 && f[6] != "" {
		for _, s := range strings.Split(f[6], ",") {
			e, err := c18ParseEv(s)
			if err != nil {
				return h, err
			}
			h.evs = append(h.evs, e)
		}
	}
	return h, nil
}

// ---- drivers ---------------------------------------------------------------

// c18Driver applies one event to the real object and returns what it did.
type c18Driver interface {
	period() int64 // Monitor.duration as the real object holds it
	apply(e c18Ev) ([]c18Obs, error)
	cancels() bool // are Cancel observations visible through this driver
	close()
}

// virtual clock shared by the drivers
type c18Clock struct {
	v int64     // virtual time of the latest stamp
	l time.Time // the stamp itself
}

func (c *c18Clock) at(tau int64) time.Time { return c.l.Add(time.Duration(tau - c.v)) }

// rebase: an event at virtual time t has just been delivered; la is the monitor's stamp read back afterwards and
// before the real time taken just before the event. The clock follows the stamp only if the stamp was actually
// refreshed by this event; otherwise the old (virtual, real) pair stays, so that an activity which failed to
// refresh the stamp shows up as a close that comes too early in virtual time.
func (c c18Clock) rebase(t int64, la time.Time, before time.Time) c18Clock {
	if la.Before(before) {
		return c
	}
	return c18Clock{t, la}
}

// fake connection for the component-level drivers
type c18FakeConn struct {
	ctx    context.Context
	cancel context.CancelFunc
	log    *[]c18Obs
	check  func(now time.Time)
}

func (c *c18FakeConn) Context() context.Context { return c.ctx }
func (c *c18FakeConn) Close() error {
	*c.log = append(*c.log, c18Obs{kind: 'X'})
	c.cancel()
	return nil
}
func (c *c18FakeConn) CheckExpirations(now time.Time) { c.check(now) }
func (c *c18FakeConn) RemoteAddr() net.Addr {
	return &net.UDPAddr{IP: net.IPv4(127, 0, 0, 1), Port: 5683}
}

func c18Duration(m interface{}) int64 {
	v := reflect.ValueOf(m)
	for v.Kind() == reflect.Ptr || v.Kind() == reflect.Interface {
		v = v.Elem()
	}
	f := v.FieldByName("duration")
	if !f.IsValid() {
		return -2
	}
	return f.Int()
}

// component driver: inactivity.Monitor with onInactive = close, ticked directly
// or through pkg/connections.Connections
type c18MonDriver struct {
	mon   *inactivity.Monitor[*c18FakeConn]
	cc    *c18FakeConn
	clk   c18Clock
	log   []c18Obs
	conns *connections.Connections
}

func c18NewMonDriver(h c18Hist) *c18MonDriver {
	d := &c18MonDriver{}
	ctx, cancel := context.WithCancel(context.Background())
	d.cc = &c18FakeConn{ctx: ctx, cancel: cancel, log: &d.log}
	d.mon = inactivity.New(time.Duration(h.period), func(cc *c18FakeConn) { inactivity.CloseConn(cc) })
	d.cc.check = func(now time.Time) { d.mon.CheckInactivity(now, d.cc) }
	d.clk = c18Clock{0, d.mon.LastActivity()}
	if h.drv == "conns" {
		d.conns = connections.New()
		d.conns.Store(d.cc)
	}
	return d
}
func (d *c18MonDriver) period() int64 { return c18Duration(d.mon) }
func (d *c18MonDriver) cancels() bool { return true }
func (d *c18MonDriver) close()        { d.cc.cancel() }
func (d *c18MonDriver) apply(e c18Ev) ([]c18Obs, error) {
	d.log = nil
	closed := d.cc.ctx.Err() != nil
	switch e.kind {
	case 'R', 'P':
		if closed {
			return nil, nil
		}
		t0 := time.Now()
		d.mon.Notify()
		d.clk = d.clk.rebase(e.t, d.mon.LastActivity(), t0)
	case 'T':
		if d.conns != nil {
			d.conns.CheckExpirations(d.clk.at(e.t))
		} else if !closed { // the drivers of the library skip closed connections
			d.mon.CheckInactivity(d.clk.at(e.t), d.cc)
		}
	default:
		return nil, fmt.Errorf("event %s not supported by driver mon", e.desc())
	}
	return d.log, nil
}

// in-memory udp/client.Session
type c18Session struct {
	ctx     context.Context
	cancel  context.CancelFunc
	mu      sync.Mutex
	onClose []func()
	closed  bool
	written []c18Written
	failPng bool   // next empty CON write fails
	port    int    // remote port (distinct per connection when several share one pkg/connections table)
	onWrite func() // called (outside the lock) after every successful write: the witness "the datagram is out"
}

type c18Written struct {
	typ  message.Type
	code codes.Code
	mid  int32
	fail bool
}

func c18NewSession() *c18Session {
	ctx, cancel := context.WithCancel(context.Background())
	return &c18Session{ctx: ctx, cancel: cancel}
}
func (s *c18Session) Context() context.Context { return s.ctx }
func (s *c18Session) Close() error {
	s.mu.Lock()
	if s.closed {
		s.mu.Unlock()
		return nil
	}
	s.closed = true
	fs := s.onClose
	s.mu.Unlock()
	s.cancel()
	for _, f := range fs {
		f()
	}
	return nil
}
func (s *c18Session) MaxMessageSize() uint32 { return 64 * 1024 }
func (s *c18Session) RemoteAddr() net.Addr {
	return &net.UDPAddr{IP: net.IPv4(127, 0, 0, 1), Port: 5683 + s.port}
}
func (s *c18Session) LocalAddr() net.Addr {
	return &net.UDPAddr{IP: net.IPv4(127, 0, 0, 1), Port: 5684}
}
func (s *c18Session) NetConn() net.Conn { return nil }
func (s *c18Session) WriteMessage(req *pool.Message) error {
	s.mu.Lock()
	w := c18Written{typ: req.Type(), code: req.Code(), mid: req.MessageID()}
	if s.closed {
		s.mu.Unlock()
		return net.ErrClosed
	}
	if s.failPng && w.typ == message.Confirmable && w.code == codes.Empty {
		w.fail = true
		s.written = append(s.written, w)
		s.mu.Unlock()
		return errors.New("scripted write failure")
	}
	s.written = append(s.written, w)
	f := s.onWrite
	s.mu.Unlock()
	if f != nil {
		f()
	}
	return nil
}
func (s *c18Session) setOnWrite(f func()) {
	s.mu.Lock()
	s.onWrite = f
	s.mu.Unlock()
}
func (s *c18Session) WriteMulticastMessage(*pool.Message, *net.UDPAddr, ...coapNet.MulticastOption) error {
	return errors.New("not supported")
}
func (s *c18Session) Run(*udpClient.Conn) error { <-s.ctx.Done(); return nil }
func (s *c18Session) AddOnClose(f udpClient.EventFunc) {
	s.mu.Lock()
	s.onClose = append(s.onClose, f)
	s.mu.Unlock()
}
func (s *c18Session) SetContextValue(key interface{}, val interface{}) {
	s.mu.Lock()
	s.ctx = context.WithValue(s.ctx, key, val)
	s.mu.Unlock()
}
func (s *c18Session) Done() <-chan struct{} { return s.ctx.Done() }
func (s *c18Session) take() []c18Written {
	s.mu.Lock()
	defer s.mu.Unlock()
	w := s.written
	s.written = nil
	return w
}

// counts Notify calls of the real monitor it wraps (nothing else)
type c18CountingMonitor struct {
	inner udpClient.InactivityMonitor
	n     atomic.Int64
}

func (m *c18CountingMonitor) Notify() { m.inner.Notify(); m.n.Add(1) }
func (m *c18CountingMonitor) CheckInactivity(now time.Time, cc *udpClient.Conn) {
	m.inner.CheckInactivity(now, cc)
}

// udp client Conn over the in-memory session, monitor wired by the options package
type c18UDPDriver struct {
	sess *c18Session
	cc   *udpClient.Conn
	mon  *c18CountingMonitor
	real *inactivity.Monitor[*udpClient.Conn]
	clk  c18Clock
	// stampMoved: the last injected datagram refreshed the activity stamp
	stampMoved bool
	closeLog   atomic.Int64
	done       chan struct{}
	mids       []int32 // message id of ping generation i+1
	peerMid    int32
	waitG      int // ping generation whose handler is still registered (0: none)
	conns      *connections.Connections
	sendTok    int
	before     int64
}

func c18NewUDPDriver(h c18Hist) (*c18UDPDriver, error) { return c18NewUDPDriverSh(h, nil, 0) }

// sh != nil: the inactivity monitor comes from a factory (cfg.CreateInactivityMonitor) that was produced by ONE
// application of the option and is shared by several connections (c18_multi.go)
func c18NewUDPDriverSh(h c18Hist, sh *c18Shared, port int) (*c18UDPDriver, error) {
	d := &c18UDPDriver{sess: c18NewSession(), done: make(chan struct{}, 64), peerMid: 20000}
	d.sess.port = port
	cfg := udpClient.DefaultConfig
	cfg.Errors = func(error) {}
	cfg.TransmissionAcknowledgeTimeout = 1000 * time.Hour // no retransmission of pings inside a history
	cfg.BlockwiseEnable = false
	cfg.Handler = func(w *responsewriter.ResponseWriter[*udpClient.Conn], r *pool.Message) {}
	cfg.ProcessReceivedMessage = func(req *pool.Message, cc *udpClient.Conn, handler config.HandlerFunc[*udpClient.Conn]) {
		cc.ProcessReceivedMessageWithHandler(req, handler)
		d.done <- struct{}{}
	}
	onInactive := func(cc *udpClient.Conn) {
		d.closeLog.Add(1)
		inactivity.CloseConn(cc)
	}
	var inner udpClient.InactivityMonitor
	switch {
	case sh != nil:
		inner = sh.udpFactory()
	case h.ka:
		options.WithKeepAlive(h.max, time.Duration(h.period*int64(h.max+1)+h.rem), onInactive).UDPClientApply(&cfg)
		inner = cfg.CreateInactivityMonitor()
	default:
		options.WithInactivityMonitor(time.Duration(h.period), onInactive).UDPClientApply(&cfg)
		inner = cfg.CreateInactivityMonitor()
	}
	real, ok := inner.(*inactivity.Monitor[*udpClient.Conn])
	if !ok {
		return nil, fmt.Errorf("unexpected monitor type %T", inner)
	}
	d.real = real
	d.mon = &c18CountingMonitor{inner: inner}
	d.cc = udpClient.NewConnWithOpts(d.sess, &cfg, udpClient.WithInactivityMonitor(d.mon))
	if sh != nil {
		sh.closes.Store(d.cc, &d.closeLog)
	}
	d.clk = c18Clock{0, real.LastActivity()}
	if h.drv == "udpconns" {
		d.conns = connections.New()
		d.conns.Store(d.cc)
	}
	return d, nil
}
func (d *c18UDPDriver) period() int64 { return c18Duration(d.real) }
func (d *c18UDPDriver) cancels() bool { return false }
func (d *c18UDPDriver) close()        { _ = d.cc.Close() }

func (d *c18UDPDriver) datagram(typ message.Type, code codes.Code, mid int32, token []byte, path string) []byte {
	m := message.Message{Type: typ, Code: code, MessageID: mid, Token: token}
	if path != "" {
		buf := make([]byte, 32)
		opts, _, _ := message.Options{}.SetPath(buf, path)
		m.Options = opts
	}
	b := make([]byte, 256)
	n, err := udpCoder.DefaultCoder.Encode(m, b)
	if err != nil {
		panic(err)
	}
	return b[:n]
}

func (d *c18UDPDriver) inject(dg []byte, queued bool) error {
	t0 := time.Now()
	d.stampMoved = false
	if err := d.cc.Process(nil, dg); err != nil {
		return fmt.Errorf("process: %w", err)
	}
	if queued {
		select {
		case <-d.done:
		case <-time.After(10 * time.Second):
			return errors.New("hang: queued message was not processed within 10 s")
		}
	}
	select {
	case <-d.done:
		return errors.New("unexpected second processing signal")
	default:
	}
	if la := d.real.LastActivity(); !la.Before(t0) {
		d.clk = c18Clock{0, la}
		d.stampMoved = true
	}
	return nil
}

// send: the local side transmits a message through the public API of the connection. The call returns (or has been
// made to return) before send does, so whatever the write path does to the monitor has been done.
func (d *c18UDPDriver) send(sub int) error {
	d.sendTok++
	ctx, cancel := context.WithCancel(context.Background())
	defer cancel()
	m := d.cc.AcquireMessage(ctx)
	defer d.cc.ReleaseMessage(m)
	m.SetToken(message.Token{0x53, byte(d.sendTok), byte(d.sendTok >> 8)})
	blocking := false
	call := func() error { return d.cc.WriteMessage(m) }
	switch sub % 4 {
	case 0: // NON request (writeMessageAsync)
		m.SetType(message.NonConfirmable)
		m.SetCode(codes.GET)
		_ = m.SetPath("/s")
	case 1: // NON notification to an observer that went away
		m.SetType(message.NonConfirmable)
		m.SetCode(codes.Content)
		m.SetObserve(uint32(d.sendTok))
		m.SetBody(strings.NewReader("notification"))
	case 2: // CON request that is never acknowledged: the call waits for the ACK until its context is cancelled
		m.SetType(message.Confirmable)
		m.SetCode(codes.GET)
		_ = m.SetPath("/s")
		blocking = true
	default: // NON request through Do: the call waits for a response until its context is cancelled
		m.SetType(message.NonConfirmable)
		m.SetCode(codes.GET)
		_ = m.SetPath("/s")
		blocking = true
		call = func() error {
			resp, err := d.cc.Do(m)
			if err == nil {
				d.cc.ReleaseMessage(resp)
			}
			return err
		}
	}
	if !blocking {
		if err := call(); err != nil {
			return fmt.Errorf("send: %w", err)
		}
		return nil
	}
	wrote := make(chan struct{}, 1)
	d.sess.setOnWrite(func() {
		select {
		case wrote <- struct{}{}:
		default:
		}
	})
	defer d.sess.setOnWrite(nil)
	errc := make(chan error, 1)
	go func() { errc <- call() }()
	select {
	case <-wrote: // the datagram is out; the call now waits for the peer, which stays silent
	case err := <-errc:
		return fmt.Errorf("send returned before writing: %v", err)
	case <-time.After(60 * time.Second):
		return errors.New("hang: send did not reach the session within 60 s")
	}
	cancel()
	select {
	case <-errc:
	case <-time.After(60 * time.Second):
		return errors.New("hang: send did not return within 60 s after its context was cancelled")
	}
	return nil
}

// pre / post bracket one event: post returns the pings written and the closes seen since pre
func (d *c18UDPDriver) pre() {
	d.before = d.closeLog.Load()
	d.sess.take()
}

func (d *c18UDPDriver) post() []c18Obs {
	var out []c18Obs
	for _, w := range d.sess.take() {
		if w.typ == message.Confirmable && w.code == codes.Empty {
			d.mids = append(d.mids, w.mid)
			if w.fail {
				out = append(out, c18Obs{'F', len(d.mids)})
				d.waitG = 0
			} else {
				out = append(out, c18Obs{'P', len(d.mids)})
				d.waitG = len(d.mids)
			}
		}
	}
	for i := d.before; i < d.closeLog.Load(); i++ {
		out = append(out, c18Obs{kind: 'X'})
		d.waitG = 0
	}
	return out
}

func (d *c18UDPDriver) setFail(fail bool) {
	d.sess.mu.Lock()
	d.sess.failPng = fail
	d.sess.mu.Unlock()
}

func (d *c18UDPDriver) apply(e c18Ev) ([]c18Obs, error) {
	closed := d.cc.Context().Err() != nil
	d.pre()
	switch e.kind {
	case 'S':
		if closed {
			return nil, nil
		}
		if err := d.send(e.sub); err != nil {
			return nil, err
		}
	case 'R', 'P':
		if closed {
			return nil, nil
		}
		d.peerMid++
		var dg []byte
		queued := true
		if e.kind == 'P' && e.g >= 1 && e.g <= len(d.mids) {
			typ := message.Reset
			if e.sub%2 == 1 {
				typ = message.Acknowledgement
			}
			dg = d.datagram(typ, codes.Empty, d.mids[e.g-1], nil, "")
			// an empty ACK for a mid nobody waits for is dropped inside Process
			if typ == message.Acknowledgement && !d.waiting(e.g) {
				queued = false
			}
		} else {
			switch e.sub % 4 {
			case 0: // CoAP ping from the peer: answered inside Process
				dg = d.datagram(message.Confirmable, codes.Empty, d.peerMid, nil, "")
				queued = false
			case 1: // empty ACK for an unknown message id: dropped inside Process
				dg = d.datagram(message.Acknowledgement, codes.Empty, d.peerMid, nil, "")
				queued = false
			case 2:
				dg = d.datagram(message.NonConfirmable, codes.GET, d.peerMid, []byte{byte(d.peerMid), 7}, "/a")
			default:
				dg = d.datagram(message.Reset, codes.Empty, d.peerMid, nil, "")
			}
		}
		if err := d.inject(dg, queued); err != nil {
			return nil, err
		}
		if e.kind == 'P' && e.g == d.waitG {
			d.waitG = 0
		}
		if d.stampMoved {
			d.clk.v = e.t
		}
	case 'T':
		d.setFail(!e.ok)
		if d.conns != nil {
			d.conns.CheckExpirations(d.clk.at(e.t))
		} else if !closed {
			d.cc.CheckExpirations(d.clk.at(e.t))
		}
	default:
		return nil, fmt.Errorf("event %s not supported by driver udp", e.desc())
	}
	return d.post(), nil
}

// waiting reports whether ping generation g can still be waited for: it is the
// latest ping and was written successfully (used only to know whether an empty
// ACK goes through the receive queue; a wrong guess is reported as a hang or a
// stray signal, never silently)
func (d *c18UDPDriver) waiting(g int) bool {
	return d.waitG == g
}

// ---- running one history ---------------------------------------------------

func c18NewDriver(h c18Hist) (c18Driver, error) {
	switch h.drv {
	case "mon", "conns":
		if h.ka {
			return nil, fmt.Errorf("driver %s has no keep-alive", h.drv)
		}
		return c18NewMonDriver(h), nil
	case "udp", "udpconns":
		return c18NewUDPDriver(h)
	}
	if f, ok := c18ExtraDrivers[h.drv]; ok {
		return f(h)
	}
	return nil, fmt.Errorf("unknown driver %s", h.drv)
}

var c18ExtraDrivers = map[string]func(h c18Hist) (c18Driver, error){}

type c18Result struct {
	period   int64
	cancels  bool
	obs      [][]c18Obs
	panicked bool
}

func c18RunHist(h c18Hist) (res c18Result, err error) {
	defer func() {
		if r := recover(); r != nil {
			err = fmt.Errorf("panic in %s: %v", h.desc(), r)
		}
	}()
	d, err := c18NewDriver(h)
	if err != nil {
		return res, err
	}
	defer d.close()
	res.period = d.period()
	res.cancels = d.cancels()
	for _, e := range h.evs {
		o, err := d.apply(e)
		if err != nil {
			return res, fmt.Errorf("%s: %w", h.desc(), err)
		}
		res.obs = append(res.obs, o)
	}
	return res, nil
}

func c18Emit(e *Emitter, h c18Hist) error {
	res, err := c18RunHist(h)
	for try := 0; err != nil && errors.Is(err, errC18Bracket) && try < 8; try++ {
		e.Extra["bracket_retries"] = toInt(e.Extra["bracket_retries"]) + 1
		res, err = c18RunHist(h)
	}
	if err != nil {
		return err
	}
	var sb strings.Builder
	strikes, rx, closes, sent := 0, 0, 0, 0
	fmt.Fprintf(&sb, "Hist 0 %s %d %s %s [", coqZ(res.period), h.max, coqBool(h.ka), coqBool(res.cancels))
	for i, ev := range h.evs {
		if i > 0 {
			sb.WriteString("; ")
		}
		parts := make([]string, len(res.obs[i]))
		for j, o := range res.obs[i] {
			parts[j] = o.coq()
			switch o.kind {
			case 'P', 'F':
				strikes++
			case 'X':
				closes++
			}
		}
		if ev.kind == 'R' || ev.kind == 'P' || ev.kind == 'B' {
			rx++
		}
		if ev.kind == 'S' {
			sent++
		}
		fmt.Fprintf(&sb, "(%s, [%s])", ev.coq(), strings.Join(parts, "; "))
	}
	sb.WriteString("]")
	buckets := []string{"drv:" + h.drv, fmt.Sprintf("max:%d", h.max), fmt.Sprintf("len:%d", (len(h.evs)+3)/4*4)}
	if h.ka {
		buckets = append(buckets, "keepalive")
	} else {
		buckets = append(buckets, "plain")
	}
	if closes > 0 {
		buckets = append(buckets, "closed")
	} else {
		buckets = append(buckets, "not-closed")
	}
	buckets = append(buckets, fmt.Sprintf("pings:%d", min(strikes, 6)))
	if sent > 0 {
		buckets = append(buckets, "with-sends")
	}
	e.Add(sb.String(), h.desc(), (strikes+closes) > 0 && rx > 0, buckets...)
	return nil
}

// ---- generators --------------------------------------------------------------

const (
	c18Sec = int64(time.Second)
	c18Ms  = int64(time.Millisecond)
)

// c18Gen draws a history whose spacings sit on the boundaries of the period.
func c18Gen(r *Rng, drv string, ka bool, maxLen int) c18Hist {
	h := c18Hist{drv: drv, ka: ka}
	h.period = int64(r.Pick([]int{1, 2, 3, 5})) * c18Sec
	if r.Chance(10) {
		h.period = int64(r.Pick([]int{1500, 2500, 700})) * c18Ms
	}
	if r.Chance(3) {
		h.period = 0
	}
	if ka {
		h.max = uint32(r.Intn(4))
		if r.Chance(10) {
			h.rem = int64(r.Intn(int(h.max) + 1))
		}
	}
	n := 3 + r.Intn(maxLen-2)
	now := int64(0)    // virtual time of the latest event
	lastRx := int64(0) // virtual time of the latest message
	gens := 0          // pings seen so far (upper bound, the generator does not run the model)
	P := h.period
	if P == 0 {
		P = c18Sec
	}
	deltas := []int64{-200 * c18Ms, -1, 0, 1, 200 * c18Ms, c18Sec}
	sends := drv == "udp" || drv == "udpconns" || drv == "tcp" || drv == "srv"
	for i := 0; i < n; i++ {
		// the local side sends something to the (possibly silent) peer: not a reception, `lastRx` stays
		if sends && r.Chance(14) {
			now += c18Step(r, P)
			h.evs = append(h.evs, c18Ev{kind: 'S', t: now, sub: r.Intn(4)})
			continue
		}
		k := r.Intn(100)
		switch {
		case k < 58: // tick
			var t int64
			switch r.Intn(6) {
			case 0, 1, 2: // around the expiry of the latest message
				t = lastRx + P + deltas[r.Intn(len(deltas))]
			case 3: // several ticks per period
				t = now + P/int64(2+r.Intn(3))
			case 4:
				t = now + P + deltas[r.Intn(len(deltas))]
			default:
				t = now + int64(r.Intn(3))*c18Sec + int64(r.Intn(2))*200*c18Ms
			}
			if t < now {
				t = now
			}
			now = t
			ok := true
			if ka && drv != "srv" && drv != "tcp" && r.Chance(7) {
				ok = false
			}
			h.evs = append(h.evs, c18Ev{kind: 'T', t: t, ok: ok})
			if ka {
				gens++
			}
		case drv == "srv": // datagram path of the server: distances around period - look-ahead
			look := c18Lookahead()
			var t int64
			if r.Chance(60) {
				t = lastRx + P - look + []int64{-200 * c18Ms, -3 * c18Ms, 1, c18Ms, 200 * c18Ms, look, look + 1}[r.Intn(7)]
			} else {
				t = now + c18Step(r, P)
			}
			if t < now {
				t = now
			}
			if m := P - look - (t - lastRx); m >= 0 && m < 3*c18Ms {
				t = lastRx + P - look + 1
			}
			now, lastRx = t, t
			h.evs = append(h.evs, c18Ev{kind: 'D', t: t, ok: true})
		case k < 78: // other message
			now += c18Step(r, P)
			lastRx = now
			h.evs = append(h.evs, c18Ev{kind: 'R', t: now, sub: r.Intn(4)})
		case k < 90 && ka && gens > 0: // answer to some ping, mostly the latest or the one before
			g := gens - r.Intn(2)
			if r.Chance(15) {
				g = 1 + r.Intn(gens)
			}
			if g < 1 {
				g = 1
			}
			if (drv == "ka" || drv == "kaconns") && r.Chance(50) {
				h.evs = append(h.evs, c18Ev{kind: 'B', g: g})
			} else {
				now += c18Step(r, P)
				lastRx = now
				h.evs = append(h.evs, c18Ev{kind: 'P', g: g, t: now, sub: r.Intn(2)})
			}
		default:
			now += c18Step(r, P)
			lastRx = now
			h.evs = append(h.evs, c18Ev{kind: 'R', t: now, sub: r.Intn(4)})
		}
	}
	return h
}

func c18Step(r *Rng, P int64) int64 {
	switch r.Intn(5) {
	case 0:
		return 0
	case 1:
		return 1
	case 2:
		return P / 2
	case 3:
		return 200 * c18Ms
	}
	return P
}

func c18PeriodCase(e *Emitter, timeout int64, max uint32) {
	obs := int64(-1)
	func() {
		defer func() { _ = recover() }()
		cfg := udpClient.DefaultConfig
		options.WithKeepAlive(max, time.Duration(timeout), func(cc *udpClient.Conn) {}).UDPClientApply(&cfg)
		obs = c18Duration(cfg.CreateInactivityMonitor())
	}()
	e.Add(fmt.Sprintf("Period %s %d %s", coqZ(timeout), max, coqZ(obs)), fmt.Sprintf("period %d %d", timeout, max), max > 0, "period")
}

func runC18(a runArgs) error {
	e := NewEmitter("C18", "Monitor.Run")
	e.ShardSize = 120
	e.Preamble = "From GoCoap Require Import Monitor.Model."
	e.Rule = "event histories (message received / pong for generation g / tick at virtual time t, spacings at the period -200ms,-1ns,0,+1ns,+200ms, several ticks per period, retry limits 0-3) applied to the real inactivity.Monitor / KeepAlive (component drivers mon, conns, ka, kaconns), to a udp client Conn over an in-memory session (udp, udpconns), to a tcp client Conn over a pipe (tcp) and to the udp server (srv: handleInactivityMonitors + datagram path getConn), all wired by options.WithInactivityMonitor / WithKeepAlive; plus byte-level histories on a tcp client Conn over a scripted socket (tcps: 1-4 messages encoded by the real tcp coder, handed over in reads cut inside the header / one byte before the end of a frame / across frame ends / byte by byte, ticks around the expiry of the latest COMPLETE message and right after fragments); plus messages SENT by the local side to a possibly silent peer (udp: NON request, NON notification, CON request that is never acknowledged, Do; srv, tcp: WriteMessage) between the receptions and ticks; plus system histories over 2-4 connections whose monitors come from ONE cfg.CreateInactivityMonitor factory (mudp: udp client Conns, mtcp: tcp client Conns, msrv: the peers of a real udp server; talkative and silent peers, housekeeping rounds over all of them, per-connection pongs/ticks/sends), judged per connection; distinct = distinct history; non-trivial = the monitor acted at least once (ping or close) and at least one message or pong was received (tcps: and at least one read completed no message; mudp/mtcp/msrv: the monitors of at least two connections acted)"
	if a.only != "" {
		f := strings.Fields(a.only)
		switch f[0] {
		case "hist":
			if len(f) == 6 {
				f = append(f, "")
			}
			h, err := c18ParseHist(f)
			if err != nil {
				return err
			}
			if err := c18Emit(e, h); err != nil {
				return err
			}
		case "mhist":
			if c18MOnly == nil {
				return fmt.Errorf("families mudp/mtcp/msrv are not built in")
			}
			if err := c18MOnly(e, f); err != nil {
				return err
			}
		case "shist":
			if c18SOnly == nil {
				return fmt.Errorf("family tcps is not built in")
			}
			if err := c18SOnly(e, f); err != nil {
				return err
			}
		case "period":
			t, _ := strconv.ParseInt(f[1], 10, 64)
			m, _ := strconv.ParseUint(f[2], 10, 32)
			c18PeriodCase(e, t, uint32(m))
		}
		return e.Flush(a.out)
	}
	rng := NewRng(a.seed)
	scale := 1
	if a.tier == "thorough" {
		scale = 12
	}
	// corpus: histories named in the design / kept from development
	for _, s := range c18Corpus {
		f := strings.Fields(s)
		if len(f) == 6 {
			f = append(f, "")
		}
		h, err := c18ParseHist(f)
		if err != nil {
			return fmt.Errorf("corpus %q: %w", s, err)
		}
		if _, ok := c18ExtraDrivers[h.drv]; !ok && (h.drv != "mon" && h.drv != "conns" && h.drv != "udp" && h.drv != "udpconns") {
			continue
		}
		if err := c18Emit(e, h); err != nil {
			return err
		}
	}
	plans := []c18Plan{
		{"mon", false, 150, 10}, {"conns", false, 100, 10},
		{"udp", false, 120, 10}, {"udp", true, 420, 14}, {"udpconns", true, 120, 14}, {"udpconns", false, 60, 10},
	}
	plans = append(plans, c18ExtraPlanList...)
	for _, p := range plans {
		for i := 0; i < p.n*scale; i++ {
			h := c18Gen(rng.Fork(), p.drv, p.ka, p.len)
			if err := c18Emit(e, h); err != nil {
				return err
			}
		}
	}
	// byte-level histories on a stream connection (c18_stream.go)
	if c18SRun != nil {
		if err := c18SRun(e, rng, scale); err != nil {
			return err
		}
	}
	// several connections from one option value (c18_multi.go)
	if c18MRun != nil {
		if err := c18MRun(e, rng, scale); err != nil {
			return err
		}
	}
	for _, m := range []uint32{0, 1, 2, 3, 6, 9, 4294967294, 4294967295} {
		for _, t := range []int64{0, 1, 999999999, 4 * c18Sec, 10 * c18Sec, -3 * c18Sec} {
			c18PeriodCase(e, t, m)
		}
	}
	return e.Flush(a.out)
}

type c18Plan struct {
	drv    string
	ka     bool
	n, len int
}

var c18ExtraPlanList []c18Plan

// family tcps (byte-level histories on a stream connection), set by c18_stream.go
var (
	c18SRun  func(e *Emitter, rng *Rng, scale int) error
	c18SOnly func(e *Emitter, f []string) error
)

// families mudp / mtcp / msrv (several connections from one option value), set by c18_multi.go
var (
	c18MRun  func(e *Emitter, rng *Rng, scale int) error
	c18MOnly func(e *Emitter, f []string) error
)

// histories kept from development; the first is the F12 witness of DESIGN.md
var c18Corpus = []string{
	"hist udp 1000000000 0 1 true T1000000001,R1500000000.0,T2500000001",
	"hist udp 1000000000 0 1 true T1000000001,T2000000002",
	"hist udp 1000000000 0 2 true T1000000001,P1@1200000000.0,T2200000001,T2300000000,T2400000000",
	"hist tcp 1000000000 0 1 true T1000000001,R1500000000.0,T2500000001,P2@2600000000.0,T3600000001,P1@3600000002.0,T4600000003,T4600000004",
	"hist srv 1000000000 0 1 true T1000000001,D1500000000,T2500000001",
	"hist srv 1000000000 0 0 false D987000000,D1977000001",
	"hist ka 1000000000 0 1 true T1000000001,R1500000000.0,T2500000001,B1,T2600000000,T2700000000",
	"hist mon 1000000000 0 0 false T1000000000,T1000000001",
	"hist conns 1000000000 0 0 false T999999999,R999999999.0,T1999999999,T2000000000,T3000000000",
	// the local side keeps sending to a silent peer (seed C18-7): sends are not receptions
	"hist udp 1000000000 0 0 false R100000000.2,S400000000.1,T600000000,T1100000001",
	"hist udp 1000000000 0 0 false S500000000.0,S900000000.2,T1000000001",
	"hist udp 1000000000 0 0 false R100000000.2,S700000000.3,T1100000001",
	"hist udpconns 2000000000 0 0 false S1500000000.2,T2000000001",
	"hist udp 1000000000 0 1 true T1000000001,S1500000000.0,T2000000002",
	"hist udp 1000000000 0 2 true T1000000001,S1500000000.2,T2000000002,S2500000000.1,T3000000003,T4000000004",
	"hist srv 1000000000 0 0 false S500000000.1,T1000000001",
	"hist srv 2000000000 0 1 true D300000000,S1200000000.0,T2300000001,S2500000000.1,T3300000002,T4300000003",
	"hist tcp 1000000000 0 0 false S500000000.0,T1000000001",
	"hist tcp 1000000000 0 1 true T1000000001,S1500000000.0,T2000000002",
}
