package main

// C03 -- every response reaches exactly the request that carries its token.
//
// A script of events is run against a real udp/client.Conn (in-memory session,
// datagrams handed to Conn.Process) or tcp/client.Conn (net.Pipe), with or
// without block-wise transfer: calls are issued on goroutines (Do / Get / Post,
// alone or as a burst released together), the scripted peer acknowledges,
// answers (piggybacked, separate CON/NON, duplicated with the same or a new
// message ID, with foreign or colliding tokens) and the harness cancels.
// Observables after every event: the calls that returned (error class, token
// of the response, payload tag = request it was produced for + response
// number) and whether the message reached the connection's default handler.
//
// Responses may also arrive in blocks (Block2) or back to back: c03bw.go has the script events and the
// families; such a case is emitted as BwCase and replayed on the block-wise layer machine (Token/BwModel.v).
//
// Synchronisation is by witnesses only: a call counts as issued when its
// request is on the wire or it returned; an injected message is waited for
// through a wrapper around the connection's processReceivedMessage; the calls
// that have to return after an event are known from simple bookkeeping and are
// waited for with a watchdog (a call that does not come back is an observable).

import (
	"bytes"
	"context"
	"errors"
	"fmt"
	"io"
	"net"
	"reflect"
	"runtime"
	"sort"
	"strconv"
	"strings"
	"sync"
	"sync/atomic"
	"time"
	"unsafe"

	"github.com/plgd-dev/go-coap/v3/message"
	"github.com/plgd-dev/go-coap/v3/message/codes"
	"github.com/plgd-dev/go-coap/v3/message/pool"
	coapNet "github.com/plgd-dev/go-coap/v3/net"
	"github.com/plgd-dev/go-coap/v3/net/blockwise"
	"github.com/plgd-dev/go-coap/v3/net/responsewriter"
	"github.com/plgd-dev/go-coap/v3/options/config"
	coapErrors "github.com/plgd-dev/go-coap/v3/pkg/errors"
	tcpclient "github.com/plgd-dev/go-coap/v3/tcp/client"
	tcpcoder "github.com/plgd-dev/go-coap/v3/tcp/coder"
	"github.com/plgd-dev/go-coap/v3/udp/client"
	"github.com/plgd-dev/go-coap/v3/udp/coder"
)

func init() { props["C03"] = runC03 }

const c3Timeout = 5 * time.Second

// limit for witnesses that are certain to arrive (bytes written are cut into frames, a caller that was told to
// look at its response again does so): never reached unless the process is starved
const c3SureTimeout = 60 * time.Second

// time the in-memory session needs to write an empty ACK on the pooled set-up (a slow link)
const c3AckWrite = 300 * time.Microsecond

var c3TokA = []byte{0x42}
var c3TokB = []byte{0x42, 0x2f, 0xf4, 0x42, 0x2f, 0xf4, 0x42, 0xb2} // same CRC-64/ISO as c3TokA

// ---------- scripts ----------

type c3Start struct {
	cid int
	tok []byte // nil: library-chosen (random) token
	how byte   // 'd' Do, 'g' Get, 'p' Post (g/p use the library's GetToken)
	con bool
}

type c3Op struct {
	kind  byte // 'N' num calls of the library's token source made elsewhere in the process (c03tk.go), 'T' time passes beyond the validity of what the block-wise layer has stored (no sweep; only while no call is outstanding), 'X' EXCHANGE_LIFETIME elapses (the cached replies expire), 'S' start, 'G' burst of starts, 'B' burst released through the token-table barrier, 'A' empty ack, 'R' response, 'F' foreign-token response, 'C' cancel, 'K' one block of a block-wise (Block2) response, 'W' responses arriving back to back
	st    []c3Start
	cid   int
	rid   int
	forc  int
	rkind byte // 'p' piggybacked, 'c' separate CON, 'n' separate NON, 'a' ACK with an unrelated message ID
	slot  int  // message-ID slot of a separate response: same slot = same message ID
	tok   []byte
	num   int    // 'K': block number
	total int    // 'K': number of blocks of the response (block num is the last one iff num == total-1)
	sub   []c3Op // 'W': responses ('R') that reach the connection back to back (one write on a stream)
	empty bool   // 'R' written 'E': the response has no payload (2.04 Changed; its tag travels in the ETag option)
}

type c3Script struct {
	tr  string // u | ub | t | tb | up (udp, message pool on, slow empty-ACK writes, responses released at once); on every udp set-up the message-ID layer is observed (c03dd.go)
	ops []c3Op
}

func c3Hex(b []byte) string { return fmt.Sprintf("%x", b) }
func c3Unhex(s string) []byte {
	b := make([]byte, 0, len(s)/2)
	for i := 0; i+1 < len(s); i += 2 {
		v, _ := strconv.ParseUint(s[i:i+2], 16, 8)
		b = append(b, byte(v))
	}
	return b
}

func (s c3Start) String() string {
	t := "r"
	if s.tok != nil {
		t = c3Hex(s.tok)
	}
	c := "n"
	if s.con {
		c = "c"
	}
	return fmt.Sprintf("%d:%s:%c%s", s.cid, t, s.how, c)
}

func (o c3Op) String() string {
	switch o.kind {
	case 'S', 'G', 'B':
		parts := make([]string, len(o.st))
		for i, s := range o.st {
			parts[i] = s.String()
		}
		return string(o.kind) + strings.Join(parts, "+")
	case 'A':
		return fmt.Sprintf("A%d", o.cid)
	case 'C':
		return fmt.Sprintf("C%d", o.cid)
	case 'R':
		if o.empty {
			return fmt.Sprintf("E%d:%d:%c:%d", o.rid, o.forc, o.rkind, o.slot)
		}
		return fmt.Sprintf("R%d:%d:%c:%d", o.rid, o.forc, o.rkind, o.slot)
	case 'F':
		return fmt.Sprintf("F%d:%s:%c:%d", o.rid, c3Hex(o.tok), o.rkind, o.slot)
	case 'K':
		return fmt.Sprintf("K%d:%d:%c:%d:%d/%d", o.rid, o.forc, o.rkind, o.slot, o.num, o.total)
	case 'X':
		return "X"
	case 'T':
		return "T"
	case 'N':
		return fmt.Sprintf("N%d", o.num)
	case 'W':
		parts := make([]string, len(o.sub))
		for i, x := range o.sub {
			parts[i] = x.String()[1:]
		}
		return "W" + strings.Join(parts, "+")
	}
	return "?"
}

// descriptor "tr|ev ev ev": bin/check shrinks a history written this way by dropping events
// (the older form "tr ev ev ev" is still accepted by the parser)
func (s c3Script) String() string {
	parts := make([]string, 0, len(s.ops))
	for _, o := range s.ops {
		parts = append(parts, o.String())
	}
	return s.tr + "|" + strings.Join(parts, " ")
}

func parseC3Script(txt string) (c3Script, error) {
	f := strings.Fields(strings.Replace(txt, "|", " ", 1))
	if len(f) == 0 {
		return c3Script{}, errors.New("empty script")
	}
	sc := c3Script{tr: f[0]}
	atoi := func(s string) int { v, _ := strconv.Atoi(s); return v }
	for _, w := range f[1:] {
		o := c3Op{kind: w[0]}
		body := w[1:]
		switch o.kind {
		case 'S', 'G', 'B':
			for _, p := range strings.Split(body, "+") {
				q := strings.Split(p, ":")
				if len(q) != 3 || len(q[2]) != 2 {
					return sc, fmt.Errorf("bad start %q", p)
				}
				s := c3Start{cid: atoi(q[0]), how: q[2][0], con: q[2][1] == 'c'}
				if q[1] != "r" {
					s.tok = c3Unhex(q[1])
				}
				o.st = append(o.st, s)
			}
		case 'A', 'C':
			o.cid = atoi(body)
		case 'X', 'T':
		case 'N':
			o.num = atoi(body)
		case 'R', 'E':
			q := strings.Split(body, ":")
			if len(q) != 4 {
				return sc, fmt.Errorf("bad response %q", w)
			}
			o.rid, o.forc, o.rkind, o.slot = atoi(q[0]), atoi(q[1]), q[2][0], atoi(q[3])
			o.empty = o.kind == 'E'
			o.kind = 'R'
		case 'K':
			q := strings.Split(body, ":")
			if len(q) != 5 || !strings.Contains(q[4], "/") {
				return sc, fmt.Errorf("bad block %q", w)
			}
			nt := strings.Split(q[4], "/")
			o.rid, o.forc, o.rkind, o.slot, o.num, o.total = atoi(q[0]), atoi(q[1]), q[2][0], atoi(q[3]), atoi(nt[0]), atoi(nt[1])
		case 'W':
			for _, p := range strings.Split(body, "+") {
				q := strings.Split(p, ":")
				if len(q) != 4 {
					return sc, fmt.Errorf("bad response %q in %q", p, w)
				}
				o.sub = append(o.sub, c3Op{kind: 'R', rid: atoi(q[0]), forc: atoi(q[1]), rkind: q[2][0], slot: atoi(q[3])})
			}
		case 'F':
			q := strings.Split(body, ":")
			if len(q) != 4 {
				return sc, fmt.Errorf("bad foreign response %q", w)
			}
			o.rid, o.tok, o.rkind, o.slot, o.forc = atoi(q[0]), c3Unhex(q[1]), q[2][0], atoi(q[3]), 999
		default:
			return sc, fmt.Errorf("bad op %q", w)
		}
		sc.ops = append(sc.ops, o)
	}
	return sc, nil
}

// ---------- running ----------

type c3Conn interface {
	Do(req *pool.Message) (*pool.Message, error)
	Get(ctx context.Context, path string, opts ...message.Option) (*pool.Message, error)
	Post(ctx context.Context, path string, contentFormat message.MediaType, payload io.ReadSeeker, opts ...message.Option) (*pool.Message, error)
	AcquireMessage(ctx context.Context) *pool.Message
	ReleaseMessage(m *pool.Message)
}

type c3Ret struct {
	cid  int
	cls  int
	tok  []byte
	forc int
	rid  int
}

type c3Call struct {
	c3Start
	cancel   context.CancelFunc
	done     chan c3Ret
	recheck  chan struct{} // held response: closed when the caller may look at its response again and release it
	again    chan c3Ret    // held response: what the caller reads the second time
	held     bool
	onWire   bool
	wireTok  []byte
	mid      int
	returned bool
	acked    bool
	filled   bool
	canceled bool
	emit     int // number under which the call appears in the emitted case (-1: not yet)
}

type c3Run struct {
	sc         c3Script
	tcp, bw    bool
	pooled     bool        // message pool on (pool.New(1024, 2048)); "up": empty ACKs take c3AckWrite to write, callers release their response at once
	dd         bool        // message-ID layer case (c03dd.go): emitted as DdCase, every received message with its type and message ID, cache hits and acknowledgements observed
	spy        *c3CacheSpy // dd: wrapper around the connection's response cache
	spyField   *client.MessageCache
	curMid     int    // dd: message ID of the message injected in the current event (-1: none)
	evAcks     int    // dd: acknowledgements with that message ID the connection wrote during the event
	lastDedup  bool   // dd: the bookkeeping took the last prepared message for a duplicate
	lastKey    uint64 // dd: token key of the last prepared message
	bwcase     bool   // block-wise layer case (c03bw.go): emitted as BwCase, every event with what the connection wrote (block requests, 4.08)
	single     bool   // the script runs with GOMAXPROCS(1)
	holdAll    bool   // pooled, and the callers keep their responses until the script is over (they release them then)
	free       chan struct{}
	holders    sync.WaitGroup // callers that keep a response
	obsWriter  bool           // the releases of the receive path are observed (callers hold their responses, so nobody else releases in between)
	winMu      sync.Mutex
	wins       []*c3Window    // received messages being handled right now
	lastFilled int            // bookkeeping: the call the last prepared message is expected to complete (-1: none)
	evWr       []string       // per handled message since the last emitted event: (tcp, hijacked, replaced, releases)
	sreg       map[uint64]int // bookkeeping: accepted calls that have not returned (blockwise.Do's sending cache)
	have       map[uint64]int // bookkeeping: blocks reassembled so far per token key (blockwise receiving cache)
	evAsked    []int          // block numbers the connection asked for since the last emitted event
	evInc      int            // 4.08 (Request Entity Incomplete) messages the connection wrote since the last emitted event
	written    *atomic.Int64  // tcp: bytes the connection wrote
	framed     *atomic.Int64  // tcp: bytes of them the scripted peer has cut into frames
	piled      int            // barrier bursts whose callers were all seen queued on the token table's lock (or back)
	unpiled    int            // ... released after the time limit instead
	skipped    int            // starts not run: the token has valid reassembly state of an abandoned transfer (see doStart)
	sess       *memSession
	ubw        *blockwise.BlockWise[*client.Conn]    // the block-wise layer of the connection (event T)
	tbw        *blockwise.BlockWise[*tcpclient.Conn] // ...
	ucc        *client.Conn
	tcc        *tcpclient.Conn
	peer       net.Conn
	frames     chan []byte
	conn       c3Conn
	processed  chan struct{}
	mu         sync.Mutex
	fell       int
	panicked   string // a panic of the library on the receive path (guarded by mu)
	calls      map[int]*c3Call
	reg        map[uint64]int // bookkeeping used only to know which calls to wait for
	slotsCON   map[int]bool
	nextEmit   int
	bad        string
	hung       bool // a witness did not arrive within the watchdog time: the rest of the script is skipped
	items      []string
}

// number of cases of this run in which something hung; generation stops early after a few
var c3Hangs int

func (r *c3Run) setup() {
	r.tcp = r.sc.tr[0] == 't'
	r.bw = strings.Contains(r.sc.tr[1:], "b")
	r.pooled = strings.Contains(r.sc.tr[1:], "p") || strings.Contains(r.sc.tr[1:], "h")
	r.holdAll = strings.Contains(r.sc.tr[1:], "h")
	r.single = strings.HasSuffix(r.sc.tr, "1")
	r.dd = !r.tcp // every datagram set-up; a script with block-wise events (K, W) is emitted as BwCase all the same
	r.curMid = -1
	r.sreg = map[uint64]int{}
	r.have = map[uint64]int{}
	r.written, r.framed = &atomic.Int64{}, &atomic.Int64{}
	r.free = make(chan struct{})
	if !r.holdAll {
		close(r.free)
	}
	r.processed = make(chan struct{}, 4096)
	r.calls = map[int]*c3Call{}
	r.reg = map[uint64]int{}
	r.slotsCON = map[int]bool{}
	if r.tcp {
		r.setupTCP()
		return
	}
	r.sess = newMemSession(64 * 1024)
	if r.sc.tr == "up" {
		r.sess.emptyAckDelay = c3AckWrite
	}
	cfg := client.DefaultConfig
	cfg.Handler = func(_ *responsewriter.ResponseWriter[*client.Conn], _ *pool.Message) {
		r.mu.Lock()
		r.fell++
		r.mu.Unlock()
	}
	cfg.Errors = func(error) {}
	cfg.LimitClientParallelRequests = 0
	cfg.LimitClientEndpointParallelRequests = 0
	cfg.TransmissionNStart = 1000
	cfg.TransmissionAcknowledgeTimeout = time.Hour
	cfg.MessagePool = pool.New(0, 0)
	if r.pooled {
		cfg.MessagePool = pool.New(1024, 2048)
	}
	cfg.GetMID = func() int32 { return 0x2000 }
	cfg.ProcessReceivedMessage = func(req *pool.Message, cc *client.Conn, h config.HandlerFunc[*client.Conn]) {
		defer r.receivePathDone()
		if r.obsWriter {
			win := r.openWindow(req)
			cc.ProcessReceivedMessageWithHandler(req, func(w *responsewriter.ResponseWriter[*client.Conn], m *pool.Message) {
				r.enterHandler(win, w.Message())
				h(w, m)
				r.leaveHandler(win, w.Message(), m.IsHijacked())
			})
			r.closeWindow(win)
		} else {
			cc.ProcessReceivedMessageWithHandler(req, h)
		}
	}
	var opts []client.Option
	if r.bw {
		opts = append(opts, client.WithBlockWise(func(cc *client.Conn) *blockwise.BlockWise[*client.Conn] {
			r.ubw = blockwise.New(cc, time.Hour, cfg.Errors, func(token message.Token) (*pool.Message, bool) {
				return cc.GetObservationRequest(token)
			})
			return r.ubw
		}))
	}
	r.ucc = client.NewConnWithOpts(r.sess, &cfg, opts...)
	r.conn = r.ucc
	if r.dd {
		r.installCacheSpy()
	}
}

func (r *c3Run) setupTCP() {
	c1, c2 := net.Pipe()
	r.peer = c2
	r.frames = make(chan []byte, 4096)
	go func() {
		var buf []byte
		tmp := make([]byte, 4096)
		for {
			n, err := c2.Read(tmp)
			buf = append(buf, tmp[:n]...)
			for {
				var h tcpcoder.MessageHeader
				if _, e := tcpcoder.DefaultCoder.DecodeHeader(buf, &h); e != nil || uint32(len(buf)) < h.MessageLength {
					break
				}
				r.frames <- append([]byte(nil), buf[:h.MessageLength]...)
				r.framed.Add(int64(h.MessageLength))
				buf = buf[h.MessageLength:]
			}
			if err != nil {
				return
			}
		}
	}()
	cfg := tcpclient.DefaultConfig
	cfg.Handler = func(_ *responsewriter.ResponseWriter[*tcpclient.Conn], _ *pool.Message) {
		r.mu.Lock()
		r.fell++
		r.mu.Unlock()
	}
	cfg.Errors = func(error) {}
	cfg.LimitClientParallelRequests = 0
	cfg.LimitClientEndpointParallelRequests = 0
	cfg.MessagePool = pool.New(0, 0)
	if r.pooled {
		cfg.MessagePool = pool.New(1024, 2048) // the default configuration
	}
	cfg.DisableTCPSignalMessageCSM = true
	cfg.DisablePeerTCPSignalMessageCSMs = !r.bw
	var opts []tcpclient.Option
	if r.bw {
		opts = append(opts, tcpclient.WithBlockWise(func(cc *tcpclient.Conn) *blockwise.BlockWise[*tcpclient.Conn] {
			r.tbw = blockwise.New(cc, time.Hour, cfg.Errors, func(token message.Token) (*pool.Message, bool) {
				return cc.GetObservationRequest(token)
			})
			return r.tbw
		}))
	}
	r.tcc = tcpclient.NewConnWithOpts(coapNet.NewConn(&c3CountConn{Conn: c1, n: r.written}), &cfg, opts...)
	r.conn = r.tcc
	v := reflect.ValueOf(r.tcc).Elem()
	pf := (*func(*pool.Message, *tcpclient.Conn, tcpclient.HandlerFunc))(unsafe.Pointer(v.FieldByName("processReceivedMessage").UnsafeAddr()))
	*pf = func(req *pool.Message, cc *tcpclient.Conn, h tcpclient.HandlerFunc) {
		defer r.receivePathDone()
		if r.obsWriter {
			win := r.openWindow(req)
			cc.ProcessReceivedMessageWithHandler(req, func(w *responsewriter.ResponseWriter[*tcpclient.Conn], m *pool.Message) {
				r.enterHandler(win, w.Message())
				h(w, m)
				r.leaveHandler(win, w.Message(), m.IsHijacked())
			})
			r.closeWindow(win)
		} else {
			cc.ProcessReceivedMessageWithHandler(req, h)
		}
	}
	csm := make(chan struct{}, 4)
	r.tcc.SetTCPSignalReceivedHandler(func(c codes.Code) {
		if c == codes.CSM {
			csm <- struct{}{}
		}
	})
	go func() { _ = r.tcc.Run() }()
	if r.bw {
		// the peer announces block-wise transfer: from now on the connection dispatches through blockwiseHandle
		m := message.Message{Code: codes.CSM, Options: message.Options{{ID: message.TCPBlockWiseTransfer, Value: []byte{}}}}
		buf := make([]byte, 64)
		n, err := tcpcoder.DefaultCoder.Encode(m, buf)
		if err != nil {
			panic(err)
		}
		_ = r.peer.SetWriteDeadline(time.Now().Add(c3Timeout))
		if _, err := r.peer.Write(buf[:n]); err != nil {
			r.bad = "the connection does not read"
			return
		}
		select {
		case <-csm:
		case <-time.After(c3Timeout):
			r.bad = "CSM not processed"
		}
	}
}

// c3Window: one received message on its way through ProcessReceivedMessageWithHandler, with the messages
// released to the pool meanwhile (Token/WriterModel.v)
type c3Window struct {
	req, orig, final *pool.Message
	hij              bool
	rels             []*pool.Message // released; nil entry followed by a message: that message was handed out again
	origAt, finalAt  int             // length of rels when the handler was entered / left
}

// the run whose receive path is being observed (the pool's verif hook is process-wide)
var c3Observed atomic.Pointer[c3Run]

type c3RelTracker struct{}

func (c3RelTracker) Released(_ *pool.Pool, m *pool.Message) {
	if r := c3Observed.Load(); r != nil {
		r.winMu.Lock()
		for _, w := range r.wins {
			w.rels = append(w.rels, m)
		}
		r.winMu.Unlock()
	}
}
func (c3RelTracker) Recycled(*pool.Pool, *pool.Message) {}
func (c3RelTracker) Reacquired(_ *pool.Pool, m *pool.Message) {
	if r := c3Observed.Load(); r != nil {
		r.winMu.Lock()
		for _, w := range r.wins {
			w.rels = append(w.rels, nil, m)
		}
		r.winMu.Unlock()
	}
}

// receivePathDone: the receive path has finished with one message (witness). A panic of the library on the
// receive path is an observable of the case (class hang/panic), not a crash of the harness.
func (r *c3Run) receivePathDone() {
	if x := recover(); x != nil {
		r.mu.Lock()
		r.panicked = fmt.Sprintf("the receive path panicked: %v", x)
		r.mu.Unlock()
	}
	r.processed <- struct{}{}
}

func (r *c3Run) openWindow(req *pool.Message) *c3Window {
	w := &c3Window{req: req}
	r.winMu.Lock()
	r.wins = append(r.wins, w)
	r.winMu.Unlock()
	return w
}

func (r *c3Run) enterHandler(w *c3Window, orig *pool.Message) {
	r.winMu.Lock()
	w.orig, w.origAt = orig, len(w.rels)
	r.winMu.Unlock()
}

func (r *c3Run) leaveHandler(w *c3Window, final *pool.Message, hij bool) {
	r.winMu.Lock()
	w.final, w.hij, w.finalAt = final, hij, len(w.rels)
	r.winMu.Unlock()
}

func (r *c3Run) closeWindow(w *c3Window) {
	r.winMu.Lock()
	defer r.winMu.Unlock()
	for i, x := range r.wins {
		if x == w {
			r.wins = append(r.wins[:i], r.wins[i+1:]...)
			break
		}
	}
	// releases of the writer's messages and of the received message: 0 = the message acquired for the
	// writer, 1 = the received message, 2 = the message the writer holds at the end (if it was replaced)
	// (a message that the pool hands out again after it was noted as the writer's / the received one is
	// another message from then on)
	var codes []string
	origGone, reqGone, finalGone := false, false, false
	for i := 0; i < len(w.rels); i++ {
		m := w.rels[i]
		if m == nil {
			i++
			m = w.rels[i]
			if m == w.orig && i > w.origAt {
				origGone = true
			}
			if m == w.req {
				reqGone = true
			}
			if m == w.final && i > w.finalAt {
				finalGone = true
			}
			continue
		}
		switch {
		case m == w.orig && i >= w.origAt && !origGone:
			codes = append(codes, "0%nat")
		case m == w.req && !reqGone:
			codes = append(codes, "1%nat")
		case m == w.final && w.final != w.orig && i >= w.finalAt && !finalGone:
			codes = append(codes, "2%nat")
		}
	}
	r.evWr = append(r.evWr, fmt.Sprintf("(%s, %s, %s, [%s])", coqBool(r.tcp), coqBool(w.hij), coqBool(w.final != w.orig), strings.Join(codes, "; ")))
}

// c3CountConn counts the bytes the connection has written (witness for "the peer has seen everything written so far")
type c3CountConn struct {
	net.Conn
	n *atomic.Int64
}

func (c *c3CountConn) Write(b []byte) (int, error) {
	n, err := c.Conn.Write(b)
	c.n.Add(int64(n))
	return n, err
}

func (r *c3Run) teardown() {
	for _, c := range r.calls {
		if c.held {
			c.held = false
			close(c.recheck)
		}
	}
	if r.holdAll {
		close(r.free)
	}
	for _, c := range r.calls {
		c.cancel()
	}
	for _, c := range r.calls {
		if !c.returned {
			select {
			case <-c.done:
			case <-time.After(time.Second):
			}
		}
	}
	if r.tcp {
		_ = r.tcc.Close()
		_ = r.peer.Close()
	} else {
		_ = r.ucc.Close()
		r.sess.shutdown()
	}
	// the callers that kept a response have released it (nobody of this run touches the pool afterwards)
	gone := make(chan struct{})
	go func() { r.holders.Wait(); close(gone) }()
	select {
	case <-gone:
	case <-time.After(c3Timeout):
	}
}

func c3PathCid(opts message.Options) int {
	p, err := opts.Path()
	if err != nil || len(p) < 3 || p[:2] != "/c" {
		return -1
	}
	v, err := strconv.Atoi(p[2:])
	if err != nil {
		return -1
	}
	return v
}

// drainWire notes the requests that appeared on the wire
func (r *c3Run) drainWire() {
	note := func(code codes.Code, tok []byte, mid int, opts message.Options) {
		if code == codes.RequestEntityIncomplete {
			r.evInc++
		}
		if code < codes.GET || code > codes.DELETE {
			return
		}
		if v, err := opts.GetUint32(message.Block2); err == nil {
			if _, num, _, errD := blockwise.DecodeBlockOption(v); errD == nil {
				r.evAsked = append(r.evAsked, int(num))
				return
			}
		}
		cid := c3PathCid(opts)
		if c := r.calls[cid]; c != nil && !c.onWire {
			c.onWire = true
			c.wireTok = append([]byte(nil), tok...)
			c.mid = mid
		}
	}
	if r.tcp {
		for {
			select {
			case f := <-r.frames:
				var m message.Message
				m.Options = make(message.Options, 0, 16)
				if _, err := tcpcoder.DefaultCoder.Decode(f, &m); err == nil {
					note(m.Code, m.Token, 0, m.Options)
				}
			default:
				return
			}
		}
	}
	for _, d := range r.sess.take() {
		w := decodeWire(d)
		if !w.Bad {
			if r.curMid >= 0 && w.Typ == int(message.Acknowledgement) && w.MID == r.curMid {
				r.evAcks++
			}
			note(codes.Code(w.Code), w.Tok, w.MID, w.Opts)
		}
	}
}

func c3ErrClass(err error) int {
	switch {
	case errors.Is(err, coapErrors.ErrKeyAlreadyExists):
		return 1
	case err.Error() == "invalid token":
		// net/blockwise.Do refuses a token that is in its sending cache with this text (no sentinel)
		return 1
	case errors.Is(err, context.Canceled), errors.Is(err, context.DeadlineExceeded):
		return 2
	}
	return 3
}

func (r *c3Run) launch(s c3Start, gate chan struct{}) {
	ctx, cancel := context.WithCancel(context.Background())
	c := &c3Call{c3Start: s, cancel: cancel, done: make(chan c3Ret, 1), recheck: make(chan struct{}), again: make(chan c3Ret, 1), emit: -1}
	r.calls[s.cid] = c
	path := fmt.Sprintf("/c%d", s.cid)
	var req *pool.Message
	if s.how == 'd' {
		if r.pooled {
			// a fresh message: the pool serves the receive path only
			req = pool.NewMessage(ctx)
		} else {
			req = r.conn.AcquireMessage(ctx)
		}
		req.SetCode(codes.GET)
		req.SetToken(s.tok)
		if s.con {
			req.SetType(message.Confirmable)
		} else {
			req.SetType(message.NonConfirmable)
		}
		_ = req.SetPath(path)
	}
	hold := r.pooled && r.bwcase
	if hold {
		r.holders.Add(1)
	}
	go func() {
		if hold {
			defer r.holders.Done()
		}
		ret := c3Ret{cid: s.cid}
		stage := 0 // 0: nothing reported yet, 1: the first reading of a held response reported, 2: both
		defer func() {
			if recover() != nil {
				ret.cls = 9
			}
			switch stage {
			case 0:
				c.done <- ret
			case 1:
				c.again <- ret
			}
		}()
		<-gate
		var resp *pool.Message
		var err error
		switch s.how {
		case 'd':
			resp, err = r.conn.Do(req)
		case 'g':
			resp, err = r.conn.Get(ctx, path)
		default:
			resp, err = r.conn.Post(ctx, path, message.TextPlain, bytes.NewReader([]byte{byte(s.cid)}))
		}
		if err != nil {
			ret.cls = c3ErrClass(err)
			return
		}
		ret.tok, ret.forc, ret.rid = c3ReadResp(resp)
		if hold {
			// the caller keeps its response while the receive path finishes with the message that carried
			// it, then looks at it once more (it is still the caller's) and releases it
			c.held = true
			c.done <- ret
			stage = 1
			<-c.recheck
			ret.tok, ret.forc, ret.rid = c3ReadResp(resp)
			c.again <- ret
			stage = 2
			<-r.free
			r.conn.ReleaseMessage(resp)
			return
		}
		if r.pooled {
			// "caller is responsible to release request and response": done as soon as the response is read
			r.conn.ReleaseMessage(resp)
		}
	}()
}

// c3ReadResp reads token and payload tag (request the response was produced for, response number) of a
// response. A single-block payload is the 4-byte tag; a block-wise body consists of 16-byte pieces
// tag(4) num(1) total(1) filler, the last one 6..16 bytes long: all pieces of one response, in order, complete.
func c3ReadResp(resp *pool.Message) (tok []byte, forc, rid int) {
	tok = append([]byte{}, resp.Token()...)
	var body []byte
	if resp.Body() != nil {
		body, _ = resp.ReadBody()
	}
	forc, rid = 9999, 9999
	if et, err := resp.GetOptionBytes(message.ETag); err == nil {
		// a response the peer produced WITHOUT payload: its tag is the ETag, and it has no body
		if len(et) == 4 && len(body) == 0 {
			return tok, int(et[0])<<8 | int(et[1]), int(et[2])<<8 | int(et[3])
		}
		return
	}
	if len(body) == 4 {
		return tok, int(body[0])<<8 | int(body[1]), int(body[2])<<8 | int(body[3])
	}
	if len(body) < 6 {
		return
	}
	total := int(body[5])
	if total < 1 || len(body) <= 16*(total-1) || len(body) > 16*total {
		return
	}
	for k := 0; k < total; k++ {
		p := body[16*k:]
		if len(p) < 6 || !bytes.Equal(p[:4], body[:4]) || int(p[4]) != k || int(p[5]) != total {
			return
		}
	}
	return tok, int(body[0])<<8 | int(body[1]), int(body[2])<<8 | int(body[3])
}

// c3BlockPayload is piece num of total of the body of response rid produced for call forc
func c3BlockPayload(forc, rid, num, total int) []byte {
	n := 16
	if num == total-1 {
		n = 6 + (rid+num)%11
	}
	b := make([]byte, n)
	b[0], b[1], b[2], b[3], b[4], b[5] = byte(forc>>8), byte(forc), byte(rid>>8), byte(rid), byte(num), byte(total)
	for i := 6; i < n; i++ {
		b[i] = byte(0xB0 + i)
	}
	return b
}

// collect takes the calls that have returned by now
func (r *c3Run) collect(into *[]c3Ret) {
	for _, c := range r.calls {
		if c.returned {
			continue
		}
		select {
		case x := <-c.done:
			c.returned = true
			// what the code does on return: LoadAndDelete of the token's key
			if c.onWire {
				delete(r.reg, message.Token(c.wireTok).Hash())
				delete(r.sreg, message.Token(c.wireTok).Hash())
			}
			*into = append(*into, x)
		default:
		}
	}
}

// waitFor waits until pred holds (a state-change witness), polling the wire and the returns
func (r *c3Run) waitFor(into *[]c3Ret, pred func() bool) bool {
	deadline := time.Now().Add(c3Timeout)
	if r.hung {
		deadline = time.Now().Add(500 * time.Millisecond)
	}
	for {
		r.drainWire()
		r.collect(into)
		if pred() {
			return true
		}
		if time.Now().After(deadline) {
			if !r.hung {
				r.hung = true
				c3Hangs++
			}
			return false
		}
		time.Sleep(50 * time.Microsecond)
	}
}

func (r *c3Run) encode(typ message.Type, mid int, tok []byte, forc, rid int) []byte {
	return r.encodeBlock(typ, mid, tok, []byte{byte(forc >> 8), byte(forc), byte(rid >> 8), byte(rid)}, -1, false)
}

// encodeEmpty: a 2.04 response without payload; the tag (request it was produced for, response number) is its ETag
func (r *c3Run) encodeEmpty(typ message.Type, mid int, tok []byte, forc, rid int) []byte {
	m := message.Message{Code: codes.Changed, Token: tok}
	m.Options = message.Options{{ID: message.ETag, Value: []byte{byte(forc >> 8), byte(forc), byte(rid >> 8), byte(rid)}}}
	buf := make([]byte, 256)
	if r.tcp {
		n, err := tcpcoder.DefaultCoder.Encode(m, buf)
		if err != nil {
			panic(err)
		}
		return buf[:n]
	}
	m.Type = typ
	m.MessageID = int32(mid)
	n, err := coder.DefaultCoder.Encode(m, buf)
	if err != nil {
		panic(err)
	}
	return buf[:n]
}

// encodeBlock: a 2.05 response; num >= 0: with the option Block2 = (num, more, SZX 16)
func (r *c3Run) encodeBlock(typ message.Type, mid int, tok []byte, payload []byte, num int, more bool) []byte {
	m := message.Message{Code: codes.Content, Token: tok, Payload: payload}
	m.Options = message.Options{{ID: message.ContentFormat, Value: []byte{}}}
	if num >= 0 {
		v, err := blockwise.EncodeBlockOption(blockwise.SZX16, int64(num), more)
		if err != nil {
			panic(err)
		}
		ob := make([]byte, 4)
		n, _ := message.EncodeUint32(ob, v)
		m.Options = append(m.Options, message.Option{ID: message.Block2, Value: ob[:n]})
	}
	buf := make([]byte, 256)
	if r.tcp {
		n, err := tcpcoder.DefaultCoder.Encode(m, buf)
		if err != nil {
			panic(err)
		}
		return buf[:n]
	}
	m.Type = typ
	m.MessageID = int32(mid)
	n, err := coder.DefaultCoder.Encode(m, buf)
	if err != nil {
		panic(err)
	}
	return buf[:n]
}

func (r *c3Run) inject(data []byte, queued bool) {
	if r.tcp {
		_ = r.peer.SetWriteDeadline(time.Now().Add(c3Timeout))
		if _, err := r.peer.Write(data); err != nil {
			r.bad = "the connection does not read: " + err.Error()
			return
		}
	} else if err := r.ucc.Process(nil, data); err != nil {
		r.bad = "Process refused a datagram: " + err.Error()
		return
	}
	if queued {
		select {
		case <-r.processed:
		case <-time.After(c3Timeout):
			r.bad = "injected message was not processed"
		}
	}
}

func (r *c3Run) emitID(cid int) int {
	if c := r.calls[cid]; c != nil {
		if c.emit < 0 {
			c.emit = r.nextEmit
			r.nextEmit++
		}
		return c.emit
	}
	return cid
}

func (r *c3Run) retsCoq(rets []c3Ret) string {
	sort.Slice(rets, func(i, j int) bool { return r.emitID(rets[i].cid) < r.emitID(rets[j].cid) })
	parts := make([]string, len(rets))
	for i, x := range rets {
		if x.cls == 0 {
			parts[i] = fmt.Sprintf("mkRet %d 0 %s %d %d", r.emitID(x.cid), coqBytes(x.tok), r.emitID(x.forc), x.rid)
		} else {
			parts[i] = fmt.Sprintf("mkRet %d %d [] 0 0", r.emitID(x.cid), x.cls)
		}
	}
	return "[" + strings.Join(parts, "; ") + "]"
}

func (r *c3Run) takeFell() bool {
	r.mu.Lock()
	defer r.mu.Unlock()
	f := r.fell > 0
	r.fell = 0
	return f
}

// expected: calls that have to come back now (acknowledged, channel filled, or cancelled)
func (r *c3Run) waitExpected(rets *[]c3Ret) {
	r.waitFor(rets, func() bool {
		for _, c := range r.calls {
			if !c.returned && c.onWire && ((c.acked && c.filled) || c.canceled) {
				return false
			}
		}
		return true
	})
}

func (r *c3Run) item(kind string, rets []c3Ret, fell bool) {
	if r.dd && !r.bwcase {
		// message-ID layer case: the event with the cache hit and the acknowledgements written for the message
		hit := false
		if r.curMid >= 0 {
			r.drainWire()
			hit = r.spy.takeHit(r.curMid)
		}
		r.items = append(r.items, fmt.Sprintf("mkDev (%s) %s %s %s %d", kind, r.retsCoq(rets), coqBool(fell), coqBool(hit), r.evAcks))
		r.curMid, r.evAcks = -1, 0
		return
	}
	if !r.bwcase {
		r.items = append(r.items, fmt.Sprintf("mkOev (%s) %s %s", kind, r.retsCoq(rets), coqBool(fell)))
		return
	}
	// block-wise layer case: the event with everything the connection wrote during it
	r.syncWire()
	r.recheckHeld(rets)
	asked := make([]string, len(r.evAsked))
	for i, n := range r.evAsked {
		asked[i] = fmt.Sprintf("%d%%nat", n)
	}
	r.winMu.Lock()
	wr := strings.Join(r.evWr, "; ")
	r.evWr = nil
	r.winMu.Unlock()
	r.items = append(r.items, fmt.Sprintf("mkBev (%s) %s %s [%s] %d [%s]", kind, r.retsCoq(rets), coqBool(fell), strings.Join(asked, "; "), r.evInc, wr))
	r.evAsked, r.evInc = nil, 0
}

// syncWire: everything the connection has written so far has been looked at (witness on a stream: the
// scripted peer has cut as many bytes into frames as the connection wrote)
func (r *c3Run) syncWire() {
	if r.tcp {
		deadline := time.Now().Add(c3SureTimeout)
		for r.framed.Load() < r.written.Load() && time.Now().Before(deadline) {
			time.Sleep(50 * time.Microsecond)
		}
	}
	r.drainWire()
}

// recheckHeld: the callers that returned a response during this event and still hold it look at it a second
// time, now that the receive path has finished with the message that carried it, and release it; what they
// read now replaces what they read at once if it differs
func (r *c3Run) recheckHeld(rets []c3Ret) {
	for i := range rets {
		c := r.calls[rets[i].cid]
		if c == nil || !c.held {
			continue
		}
		c.held = false
		close(c.recheck)
		select {
		case x := <-c.again:
			if x.cls != 0 || !bytes.Equal(x.tok, rets[i].tok) || x.forc != rets[i].forc || x.rid != rets[i].rid {
				rets[i] = x
			}
		case <-time.After(c3SureTimeout):
			rets[i].cls = 9
		}
	}
}

func (r *c3Run) doStart(o c3Op) {
	if r.bw {
		// Not generated (and skipped when a shrunk or hand-written script asks for it): a Do that re-uses a token
		// while VALID reassembly state of an abandoned transfer is still stored under it (the transfer was given up
		// without a deadline and its validity -- the transfer timeout -- has not passed: no event T in between). The
		// library continues the old reassembly then (observation O4 of notes/C04.md, recorded there as the
		// cross-request form of "versions of a resource without ETag cannot be told apart"; see notes/C03.md).
		keep := o.st[:0:0]
		for _, s := range o.st {
			if s.tok != nil {
				h := message.Token(s.tok).Hash()
				_, stale := r.have[h]
				if _, held := r.sreg[h]; stale && !held {
					r.skipped++
					continue
				}
			}
			keep = append(keep, s)
		}
		if len(keep) == 0 {
			return
		}
		o.st = keep
	}
	gate := make(chan struct{})
	var rets []c3Ret
	var release func()
	if o.kind == 'B' {
		if release = r.holdTable(); release == nil {
			return
		}
	}
	for _, s := range o.st {
		r.launch(s, gate)
	}
	close(gate)
	if release != nil {
		// every caller is queued on the table's lock inside LoadOrStore, or has already come back
		// (block-wise refuses an equal token before the table is reached)
		deadline := time.Now().Add(2 * time.Second)
		buf := make([]byte, 1<<20)
		ok := false
		for !ok && time.Now().Before(deadline) {
			r.collect(&rets)
			back := 0
			for _, s := range o.st {
				if r.calls[s.cid].returned {
					back++
				}
			}
			if back+c3QueuedOnTable(buf) >= len(o.st) {
				ok = true
			} else {
				runtime.Gosched()
			}
		}
		if ok {
			r.piled++
		} else {
			r.unpiled++
		}
		release()
	}
	r.waitFor(&rets, func() bool {
		for _, s := range o.st {
			c := r.calls[s.cid]
			if !c.onWire && !c.returned {
				return false
			}
		}
		return true
	})
	// accepted calls first (they hold the table entry), in the order of their cids; then the refused ones
	var acc, rej []c3Start
	for _, s := range o.st {
		if r.calls[s.cid].onWire {
			acc = append(acc, s)
		} else {
			rej = append(rej, s)
		}
	}
	for _, s := range append(acc, rej...) {
		c := r.calls[s.cid]
		tok := s.tok
		if c.onWire {
			tok = c.wireTok
			r.reg[message.Token(tok).Hash()] = s.cid
			r.sreg[message.Token(tok).Hash()] = s.cid
			c.acked = r.tcp || !s.con
		}
		var mine []c3Ret
		for _, x := range rets {
			if x.cid == s.cid {
				mine = append(mine, x)
			}
		}
		if !c.onWire && !c.returned {
			mine = append(mine, c3Ret{cid: s.cid, cls: 9})
		}
		r.item(fmt.Sprintf("%sStart %d %s %s", r.kp(), r.emitID(s.cid), coqBytes(tok), coqBool(r.tcp || !s.con)), mine, false)
	}
}

// holdTable parks a goroutine inside the token table's write-locked section (verif hook
// VerifTokenTableBarrier: ReplaceWithFunc on a key nobody uses, table left unchanged); the returned
// function lets it go.
func (r *c3Run) holdTable() func() {
	entered := make(chan struct{})
	rel := make(chan struct{})
	done := make(chan struct{})
	const key = 0x0BADBA770BADBA77
	go func() {
		defer close(done)
		defer func() { _ = recover() }()
		if r.tcp {
			r.tcc.VerifTokenTableBarrier(key, func() { close(entered) }, rel)
		} else {
			r.ucc.VerifTokenTableBarrier(key, func() { close(entered) }, rel)
		}
	}()
	select {
	case <-entered:
	case <-time.After(c3Timeout):
		r.bad = "the token table's lock was not obtained"
		close(rel)
		return nil
	}
	return func() { close(rel); <-done }
}

// c3QueuedOnTable counts the goroutines that wait for a lock inside pkg/sync.Map.LoadOrStore called from doInternal
func c3QueuedOnTable(buf []byte) int {
	n := runtime.Stack(buf, true)
	cnt := 0
	for _, g := range strings.Split(string(buf[:n]), "\n\n") {
		nl := strings.IndexByte(g, '\n')
		if nl < 0 {
			continue
		}
		h := g[:nl]
		if (strings.Contains(h, "[sync.") || strings.Contains(h, "[semacquire")) &&
			strings.Contains(g, ").LoadOrStore(") && strings.Contains(g, ").doInternal(") {
			cnt++
		}
	}
	return cnt
}

// prepResp builds the datagram / frame of one response event ('R', 'F', 'K') and does the bookkeeping (which
// call has to come back); msg is the event's description for the case: the arguments of KResp, or for a
// block-wise layer case the 7-tuple of a BMsg
func (r *c3Run) prepResp(o c3Op) (data []byte, msg string, ok bool) {
	var tok []byte
	ackfor := "None"
	typ := message.Confirmable
	mid := 0x7000 + o.slot
	dedup := false
	if o.kind == 'R' || o.kind == 'K' {
		c := r.calls[o.forc]
		if c == nil || !c.onWire {
			return nil, "", false
		}
		tok = c.wireTok
		if o.rkind == 'p' && !r.tcp {
			typ, mid = message.Acknowledgement, c.mid
			ackfor = fmt.Sprintf("(Some %d%%nat)", r.emitID(o.forc))
			c.acked = true
		}
	} else {
		tok = o.tok
	}
	switch o.rkind {
	case 'n':
		typ = message.NonConfirmable
		// the response cache (filled by the ACK sent for a confirmable message) is consulted for CON and NON
		dedup = !r.tcp && r.slotsCON[o.slot]
	case 'a':
		typ = message.Acknowledgement
	case 'c':
		if !r.tcp {
			dedup = r.slotsCON[o.slot]
			r.slotsCON[o.slot] = true
		}
	}
	del := !(r.tcp && r.bw)
	h := message.Token(tok).Hash()
	deliver := !dedup
	blk := "None"
	if o.kind == 'K' {
		more := o.num < o.total-1
		blk = fmt.Sprintf("(Some (%d%%nat, %s))", o.num, coqBool(more))
		if deliver {
			// what net/blockwise does with a block of a response (bookkeeping only: which call to wait for)
			deliver = false
			if _, paired := r.sreg[h]; paired {
				n, cached := r.have[h]
				switch {
				case !cached && !more:
					deliver = o.num == 0
				case o.num == n:
					if more {
						r.have[h] = n + 1
					} else {
						delete(r.have, h)
						deliver = true
					}
				case !cached:
					r.have[h] = 0
				}
			}
		}
		data = r.encodeBlock(typ, mid, tok, c3BlockPayload(o.forc, o.rid, o.num, o.total), o.num, more)
	} else if o.empty {
		data = r.encodeEmpty(typ, mid, tok, o.forc, o.rid)
	} else {
		data = r.encode(typ, mid, tok, o.forc, o.rid)
	}
	r.lastFilled = -1
	r.lastDedup, r.lastKey = dedup, h
	if deliver {
		r.markDelivered(h, del)
	}
	if r.dd && !r.bwcase {
		r.curMid, r.evAcks = mid, 0
		r.spy.takeHit(mid)
		msg = fmt.Sprintf("%d %d %s %d%%nat %s %d%%nat %s", int(typ), mid, coqBool(del), o.rid, coqBytes(tok), r.emitID(o.forc), ackfor)
		return data, msg, true
	}
	if r.bwcase {
		msg = fmt.Sprintf("(%s, %s, %d%%nat, %s, %d%%nat, %s, %s)", coqBool(del), coqBool(dedup), o.rid, coqBytes(tok), r.emitID(o.forc), ackfor, blk)
	} else {
		msg = fmt.Sprintf("%s %s %d %s %d %s", coqBool(del), coqBool(dedup), o.rid, coqBytes(tok), r.emitID(o.forc), ackfor)
	}
	return data, msg, true
}

// markDelivered: bookkeeping for a message that is handed to the token table (which call has to come back)
func (r *c3Run) markDelivered(h uint64, del bool) {
	if cid, ok := r.reg[h]; ok {
		if del {
			delete(r.reg, h)
		}
		r.calls[cid].filled = true
		r.lastFilled = cid
	}
}

func (r *c3Run) doResp(o c3Op) {
	data, msg, ok := r.prepResp(o)
	if !ok {
		return
	}
	incBefore := r.evInc
	r.inject(data, true)
	if r.dd && !r.bwcase && r.lastDedup && !r.spy.peekHit(r.curMid) {
		// the bookkeeping took the message for a duplicate but the response cache had no reply for its ID (or was
		// not asked): the message was handled, so the call registered for its token has to come back
		r.markDelivered(r.lastKey, true)
	}
	if r.bwcase && r.lastFilled >= 0 {
		// a message the connection answered with 4.08 was not handed to anybody: no return to wait for
		if r.syncWire(); r.evInc > incBefore {
			r.calls[r.lastFilled].filled = false
		}
	}
	var rets []c3Ret
	r.waitExpected(&rets)
	switch {
	case r.bwcase:
		r.item("BMsg "+msg, rets, r.takeFell())
	case r.dd:
		r.item("DMsg "+msg, rets, r.takeFell())
	default:
		r.item("KResp "+msg, rets, r.takeFell())
	}
}

// doBurst: several responses reach the connection back to back (a stream: in one write), before the first
// of them has been dispatched
func (r *c3Run) doBurst(o c3Op) {
	var all []byte
	var datas [][]byte
	var msgs []string
	for _, x := range o.sub {
		data, msg, ok := r.prepResp(x)
		if !ok {
			continue
		}
		all = append(all, data...)
		datas = append(datas, data)
		msgs = append(msgs, msg)
	}
	if len(msgs) == 0 {
		return
	}
	if r.tcp {
		r.inject(all, false)
	} else {
		for _, d := range datas {
			r.inject(d, false)
		}
	}
	for range msgs {
		select {
		case <-r.processed:
		case <-time.After(c3Timeout):
			r.bad = "injected message was not processed"
		}
	}
	var rets []c3Ret
	r.waitExpected(&rets)
	r.item("BBurst ["+strings.Join(msgs, "; ")+"]", rets, r.takeFell())
}

func (r *c3Run) run() string {
	for _, o := range r.sc.ops {
		if o.kind == 'K' || o.kind == 'W' {
			r.bwcase = true
		}
	}
	if strings.HasSuffix(r.sc.tr, "1") {
		// one P: the order in which sync.Pool hands messages out is that of the releases
		defer runtime.GOMAXPROCS(runtime.GOMAXPROCS(1))
	}
	r.obsWriter = r.bwcase && (strings.Contains(r.sc.tr[1:], "p") || strings.Contains(r.sc.tr[1:], "h"))
	if r.obsWriter {
		c3Observed.Store(r)
		defer c3Observed.Store(nil)
	}
	r.setup()
	defer r.teardown()
	for _, o := range r.sc.ops {
		r.mu.Lock()
		if r.panicked != "" && r.bad == "" {
			r.bad = r.panicked
		}
		r.mu.Unlock()
		if r.bad != "" || r.hung {
			break
		}
		switch o.kind {
		case 'S', 'G', 'B':
			r.doStart(o)
		case 'A':
			c := r.calls[o.cid]
			if c == nil || !c.onWire || r.tcp {
				continue
			}
			// an empty ACK that finds the pending entry of its message ID wakes the writer and is then
			// passed through the queue (and dropped there); otherwise it is dropped at once
			queued := !c.acked && !c.returned
			c.acked = true
			m := message.Message{Type: message.Acknowledgement, Code: codes.Empty, MessageID: int32(c.mid)}
			buf := make([]byte, 16)
			n, err := coder.DefaultCoder.Encode(m, buf)
			if err != nil {
				panic(err)
			}
			r.inject(buf[:n], queued)
			var rets []c3Ret
			r.waitExpected(&rets)
			r.item(fmt.Sprintf("%sAck %d", r.kp(), r.emitID(o.cid)), rets, r.takeFell())
		case 'R', 'F', 'K':
			r.doResp(o)
		case 'W':
			r.doBurst(o)
		case 'N':
			// o.num requests with library-chosen tokens are made elsewhere in the process (other connections share
			// the token source): the source is asked o.num times. Nothing happens on this connection: no item.
			c3Burn(o.num)
		case 'X':
			if r.dd && !r.bwcase {
				r.lifetimeElapses()
				var rets []c3Ret
				r.waitExpected(&rets)
				r.item("DLifetime", rets, r.takeFell())
			}
		case 'T':
			// time passes beyond the validity of everything the block-wise layer has stored; the periodic sweep does
			// not run. Only while no call is outstanding (the entries of the sending cache would expire as well):
			// what is left is the reassembly state of transfers that were given up -- the state a request with a
			// context deadline leaves behind when the deadline passes between two sweeps (validUntil = the deadline)
			if !r.bwcase || !r.bw {
				continue
			}
			idle := true
			for _, c := range r.calls {
				if !c.returned {
					idle = false
				}
			}
			if !idle {
				continue
			}
			if r.tcp {
				r.tbw.VerifShiftDeadlines(2 * time.Hour)
			} else {
				r.ubw.VerifShiftDeadlines(2 * time.Hour)
			}
			r.have = map[uint64]int{}
			var rets []c3Ret
			r.waitExpected(&rets)
			r.item("BElapse", rets, r.takeFell())
		case 'C':
			c := r.calls[o.cid]
			if c == nil || !c.onWire {
				continue
			}
			if !c.returned {
				c.canceled = true
			}
			c.cancel()
			var rets []c3Ret
			r.waitExpected(&rets)
			r.item(fmt.Sprintf("%sCancel %d", r.kp(), r.emitID(o.cid)), rets, r.takeFell())
		}
	}
	// the calls still waiting are cancelled one by one
	var ids []int
	for cid, c := range r.calls {
		if c.onWire && !c.returned {
			ids = append(ids, cid)
		}
	}
	sort.Slice(ids, func(i, j int) bool { return r.emitID(ids[i]) < r.emitID(ids[j]) })
	for _, cid := range ids {
		c := r.calls[cid]
		var rets []c3Ret
		r.collect(&rets)
		if !c.returned {
			c.canceled = true
			c.cancel()
			r.waitExpected(&rets)
		}
		r.item(fmt.Sprintf("%sCancel %d", r.kp(), r.emitID(cid)), rets, r.takeFell())
	}
	r.mu.Lock()
	if r.panicked != "" && r.bad == "" {
		r.bad = r.panicked
	}
	r.mu.Unlock()
	if r.bad != "" {
		if r.bwcase {
			r.items = append(r.items, fmt.Sprintf("mkBev (BCancel 0) [mkRet 0 9 [] 0 0] false [] 0 [] (* %s *)", r.bad))
		} else if r.dd {
			r.items = append(r.items, fmt.Sprintf("mkDev (DCancel 0) [mkRet 0 9 [] 0 0] false false 0 (* %s *)", r.bad))
		} else {
			r.items = append(r.items, fmt.Sprintf("mkOev (KCancel 0) [mkRet 0 9 [] 0 0] false (* %s *)", r.bad))
		}
	}
	if r.bwcase {
		return "BwCase [" + strings.Join(r.items, "; ") + "]"
	}
	if r.dd {
		return "DdCase [" + strings.Join(r.items, "; ") + "]"
	}
	return "Case [" + strings.Join(r.items, "; ") + "]"
}

// prefix of the event constructors: K... in Token/Spec.v, B... in Token/BwSpec.v
func (r *c3Run) kp() string {
	if r.bwcase {
		return "B"
	}
	if r.dd {
		return "D"
	}
	return "K"
}

func runC3Script(sc c3Script) (string, *c3Run) {
	r := &c3Run{sc: sc}
	return r.run(), r
}

// ---------- generators ----------

type c3B struct {
	sc      c3Script
	rid     int
	slot    int
	ncall   int
	live    map[int]bool // started, believed outstanding
	con     map[int]bool
	ackd    map[int]bool
	rng     *Rng
	usedTok map[string]bool
}

func newC3B(rng *Rng, tr string) *c3B {
	return &c3B{sc: c3Script{tr: tr}, rng: rng, live: map[int]bool{}, con: map[int]bool{}, ackd: map[int]bool{}, usedTok: map[string]bool{}}
}

func (b *c3B) tok() []byte {
	for {
		n := 1 + b.rng.Intn(8)
		t := make([]byte, n)
		for i := range t {
			t[i] = byte(b.rng.U64())
		}
		if !b.usedTok[string(t)] && !bytes.Equal(t, c3TokA) && !bytes.Equal(t, c3TokB) {
			b.usedTok[string(t)] = true
			return t
		}
	}
}

func (b *c3B) start(tok []byte, how byte, con bool) c3Start {
	s := c3Start{cid: b.ncall, tok: tok, how: how, con: con}
	if how != 'd' {
		s.tok = nil
		s.con = true
	}
	b.ncall++
	b.live[s.cid] = true
	b.con[s.cid] = s.con
	return s
}

func (b *c3B) randStart() c3Start {
	how := []byte{'d', 'd', 'd', 'g', 'p'}[b.rng.Intn(5)]
	return b.start(b.tok(), how, b.rng.Chance(70))
}

func (b *c3B) add(o c3Op) { b.sc.ops = append(b.sc.ops, o) }

func (b *c3B) resp(forc int, kind byte, slot int) {
	b.rid++
	b.add(c3Op{kind: 'R', rid: b.rid, forc: forc, rkind: kind, slot: slot})
}

func (b *c3B) newSlot() int { b.slot++; return b.slot }

func (b *c3B) udp() bool { return b.sc.tr[0] == 'u' }

// answer call cid in one of the ways the transport offers; returns the (rid, kind, slot) used
func (b *c3B) answer(cid int) (byte, int) {
	kind := byte('c')
	if b.udp() {
		if b.con[cid] && !b.ackd[cid] {
			switch b.rng.Intn(4) {
			case 0, 1:
				kind = 'p'
			case 2:
				b.add(c3Op{kind: 'A', cid: cid})
				kind = []byte{'c', 'n'}[b.rng.Intn(2)]
			default:
				// the response overtakes the acknowledgement
				kind = []byte{'c', 'n'}[b.rng.Intn(2)]
				slot := b.newSlot()
				b.resp(cid, kind, slot)
				if b.rng.Chance(50) {
					// a second copy with a new message ID: nobody waits for it
					b.add(c3Op{kind: 'R', rid: b.rid, forc: cid, rkind: kind, slot: b.newSlot()})
				}
				b.add(c3Op{kind: 'A', cid: cid})
				b.ackd[cid] = true
				delete(b.live, cid)
				return kind, slot
			}
			b.ackd[cid] = true
		} else {
			kind = []byte{'c', 'n'}[b.rng.Intn(2)]
		}
	}
	slot := b.newSlot()
	b.resp(cid, kind, slot)
	delete(b.live, cid)
	return kind, slot
}

// N concurrent calls with distinct tokens, answered in a random order with duplicates, foreign tokens and cancels
func c3GenPerm(rng *Rng, tr string, n int, burst bool) c3Script {
	b := newC3B(rng, tr)
	var st []c3Start
	for i := 0; i < n; i++ {
		st = append(st, b.randStart())
	}
	if burst {
		b.add(c3Op{kind: 'G', st: st})
	} else {
		for _, s := range st {
			b.add(c3Op{kind: 'S', st: []c3Start{s}})
		}
	}
	order := make([]int, n)
	for i := range order {
		order[i] = i
	}
	for i := n - 1; i > 0; i-- {
		j := rng.Intn(i + 1)
		order[i], order[j] = order[j], order[i]
	}
	type sent struct {
		cid, rid, slot int
		kind           byte
	}
	var done []sent
	for _, cid := range order {
		switch rng.Intn(10) {
		case 0:
			b.add(c3Op{kind: 'C', cid: cid})
			delete(b.live, cid)
			if rng.Chance(50) {
				b.resp(cid, 'n', b.newSlot()) // answer to a cancelled call
			}
			continue
		case 1:
			b.rid++
			b.add(c3Op{kind: 'F', rid: b.rid, tok: b.tok(), rkind: []byte{'c', 'n', 'a'}[rng.Intn(3)], slot: b.newSlot()})
		}
		kind, slot := b.answer(cid)
		done = append(done, sent{cid, b.rid, slot, kind})
		if len(done) > 0 && rng.Chance(35) {
			// a duplicate of an earlier answer: retransmission (same message ID) or a fresh copy
			d := done[rng.Intn(len(done))]
			k := d.kind
			sl := d.slot
			if rng.Chance(50) || k == 'p' {
				sl = b.newSlot()
				if k == 'p' {
					k = 'n'
				}
			}
			b.add(c3Op{kind: 'R', rid: d.rid, forc: d.cid, rkind: k, slot: sl})
		}
	}
	return b.sc
}

// equal tokens: a second call with a token that is outstanding, then re-use after completion
func c3GenEqual(rng *Rng, tr string, variant int) c3Script {
	b := newC3B(rng, tr)
	t := b.tok()
	how := byte('d')
	switch variant % 4 {
	case 0: // second call while the first waits: refused, the first completes
		s0 := b.start(t, how, rng.Chance(70))
		b.add(c3Op{kind: 'S', st: []c3Start{s0}})
		s1 := b.start(t, how, rng.Chance(70))
		b.add(c3Op{kind: 'S', st: []c3Start{s1}})
		delete(b.live, s1.cid)
		if rng.Chance(50) {
			o := b.randStart()
			b.add(c3Op{kind: 'S', st: []c3Start{o}})
			b.answer(o.cid)
		}
		b.answer(s0.cid)
		// after completion the token is free again
		s2 := b.start(t, how, rng.Chance(70))
		b.add(c3Op{kind: 'S', st: []c3Start{s2}})
		b.answer(s2.cid)
	case 1: // burst of calls with one token: exactly one is accepted
		k := 2 + rng.Intn(4)
		var st []c3Start
		for i := 0; i < k; i++ {
			st = append(st, b.start(t, how, true))
		}
		if rng.Chance(50) {
			st = append(st, b.randStart())
		}
		b.add(c3Op{kind: 'G', st: st})
		// every member is answered; only the accepted one is on the wire, the others are skipped by the runner
		for _, s := range st {
			b.resp(s.cid, 'p', 0)
		}
	case 2: // refused while unacknowledged / after cancel accepted
		s0 := b.start(t, how, true)
		b.add(c3Op{kind: 'S', st: []c3Start{s0}})
		s1 := b.start(t, how, true)
		b.add(c3Op{kind: 'S', st: []c3Start{s1}})
		b.add(c3Op{kind: 'C', cid: s0.cid})
		s2 := b.start(t, how, true)
		b.add(c3Op{kind: 'S', st: []c3Start{s2}})
		b.answer(s2.cid)
	default: // three rounds of re-use, each answered
		for i := 0; i < 3; i++ {
			s := b.start(t, how, rng.Chance(60))
			b.add(c3Op{kind: 'S', st: []c3Start{s}})
			if rng.Chance(40) {
				x := b.start(t, how, true)
				b.add(c3Op{kind: 'S', st: []c3Start{x}})
			}
			b.answer(s.cid)
		}
	}
	return b.sc
}

// the colliding pair (F18)
func c3GenCollision(rng *Rng, tr string, variant int) c3Script {
	b := newC3B(rng, tr)
	x, y := c3TokA, c3TokB
	if variant&1 == 1 {
		x, y = y, x
	}
	s0 := b.start(x, 'd', rng.Chance(50))
	b.add(c3Op{kind: 'S', st: []c3Start{s0}})
	switch (variant >> 1) % 3 {
	case 0: // a response with the other token reaches the call
		if s0.con && b.udp() {
			b.add(c3Op{kind: 'A', cid: s0.cid})
		}
		b.rid++
		b.add(c3Op{kind: 'F', rid: b.rid, tok: y, rkind: 'n', slot: b.newSlot()})
	case 1: // a call with the other token is refused
		s1 := b.start(y, 'd', true)
		b.add(c3Op{kind: 'S', st: []c3Start{s1}})
		b.answer(s0.cid)
	default: // one after the other: fine
		b.answer(s0.cid)
		s1 := b.start(y, 'd', true)
		b.add(c3Op{kind: 'S', st: []c3Start{s1}})
		b.answer(s1.cid)
	}
	return b.sc
}

// distinct tokens that a careless table key could take for equal: they differ by trailing / leading
// zero bytes, by length only, by one byte, by byte order, or one is a prefix of the other
var c3NearPairs = [][2]string{
	{"01", "0100"},
	{"01", "0100000000000000"},
	{"01", "0001"},
	{"0000000000000001", "01"},
	{"00", "0000"},
	{"00", "0000000000000000"},
	{"7f", "7f7f"},
	{"0102", "010203"},
	{"0102", "0201"},
	{"01", "02"},
	{"0102030405060708", "0102030405060709"},
	{"8102030405060708", "0102030405060708"},
	{"ffffffffffffff", "ffffffffffffffff"},
	{"a5", "a500a5"},
}

// two distinct but similar tokens: both outstanding and answered in the reverse order, a response with the
// one while only the other is outstanding, one after the other, a late response for a cancelled call
func c3GenNear(rng *Rng, tr string, pair int, variant int) c3Script {
	b := newC3B(rng, tr)
	x, y := c3Unhex(c3NearPairs[pair][0]), c3Unhex(c3NearPairs[pair][1])
	if variant&1 == 1 {
		x, y = y, x
	}
	switch (variant >> 1) % 4 {
	case 0: // both outstanding, answered in the reverse order: both complete with their own response
		s0 := b.start(x, 'd', rng.Chance(50))
		b.add(c3Op{kind: 'S', st: []c3Start{s0}})
		s1 := b.start(y, 'd', rng.Chance(50))
		b.add(c3Op{kind: 'S', st: []c3Start{s1}})
		b.answer(s1.cid)
		b.answer(s0.cid)
	case 1: // a response carrying y while only x is outstanding goes to the default handler; x then completes
		s0 := b.start(x, 'd', rng.Chance(50))
		b.add(c3Op{kind: 'S', st: []c3Start{s0}})
		if s0.con && b.udp() {
			b.add(c3Op{kind: 'A', cid: s0.cid})
			b.ackd[s0.cid] = true
		}
		b.rid++
		b.add(c3Op{kind: 'F', rid: b.rid, tok: y, rkind: 'n', slot: b.newSlot()})
		b.answer(s0.cid)
	case 2: // the call with y gives up; its late response arrives while x is outstanding
		s0 := b.start(y, 'd', true)
		b.add(c3Op{kind: 'S', st: []c3Start{s0}})
		if b.udp() {
			b.add(c3Op{kind: 'A', cid: s0.cid})
		}
		b.add(c3Op{kind: 'C', cid: s0.cid})
		s1 := b.start(x, 'd', rng.Chance(50))
		b.add(c3Op{kind: 'S', st: []c3Start{s1}})
		b.resp(s0.cid, 'n', b.newSlot())
		b.answer(s1.cid)
	default: // both tokens, each twice, reach the token table together: one call of each is accepted
		st := []c3Start{b.start(x, 'd', true), b.start(y, 'd', true), b.start(x, 'd', true), b.start(y, 'd', true)}
		b.add(c3Op{kind: 'B', st: st})
		for i := len(st) - 1; i >= 0; i-- {
			b.resp(st[i].cid, 'p', 0)
		}
	}
	return b.sc
}

// calls with one token that reach the token table at the same instant: a goroutine holds the table's lock
// while 2-4 callers (and sometimes a bystander with another token) queue up inside LoadOrStore
func c3GenBarrier(rng *Rng, tr string, k int, variant int) c3Script {
	b := newC3B(rng, tr)
	t := b.tok()
	var st []c3Start
	for i := 0; i < k; i++ {
		st = append(st, b.start(t, 'd', variant%2 == 0))
	}
	switch variant % 3 {
	case 1:
		st = append(st, b.randStart())
	case 2:
		// a second group with another token in the same burst
		t2 := b.tok()
		st = append(st, b.start(t2, 'd', true), b.start(t2, 'd', true))
	}
	b.add(c3Op{kind: 'B', st: st})
	// every member is answered; only the accepted ones are on the wire, the others are skipped by the runner
	for _, s := range st {
		if b.udp() && b.con[s.cid] {
			b.resp(s.cid, 'p', 0)
		} else {
			b.resp(s.cid, 'n', b.newSlot())
		}
	}
	// the token is free again: a second round through the barrier
	if variant%4 == 3 {
		st2 := []c3Start{b.start(t, 'd', true), b.start(t, 'd', true)}
		b.add(c3Op{kind: 'B', st: st2})
		for _, s := range st2 {
			b.resp(s.cid, 'n', b.newSlot())
		}
	}
	return b.sc
}

// sequential exchanges on a connection with the message pool on, a slow write of the empty ACK and
// callers that release the response at once; mostly separate responses (empty ACK, then a confirmable
// response which the receive path acknowledges)
func c3GenSeparate(rng *Rng, n int) c3Script {
	b := newC3B(rng, "up")
	for i := 0; i < n; i++ {
		how := byte('d')
		if rng.Chance(15) {
			how = 'g'
		}
		s := b.start(b.tok(), how, true)
		b.add(c3Op{kind: 'S', st: []c3Start{s}})
		switch v := rng.Intn(10); {
		case v < 7:
			b.add(c3Op{kind: 'A', cid: s.cid})
			b.resp(s.cid, 'c', b.newSlot())
		case v == 7:
			b.resp(s.cid, 'c', b.newSlot()) // the response overtakes the acknowledgement
			b.add(c3Op{kind: 'A', cid: s.cid})
		case v == 8:
			b.resp(s.cid, 'p', 0)
		default:
			b.add(c3Op{kind: 'A', cid: s.cid})
			b.resp(s.cid, 'n', b.newSlot())
		}
	}
	return b.sc
}

func runC03(a runArgs) error {
	pool.VerifSetTracker(c3RelTracker{})
	defer pool.VerifSetTracker(nil)
	e := NewEmitter("C03", "Token.DedupRun")
	e.Preamble = "From GoCoap Require Import Token.Model Token.Spec Token.BwSpec Token.DedupModel Token.DedupSpec."
	e.ShardSize = 120
	e.Rule = "event scripts on a real udp/client.Conn (in-memory session) and tcp/client.Conn (net.Pipe), block-wise on/off: 1-8 calls (Do with caller-chosen tokens, Get/Post with library tokens; CON/NON) issued one by one or as a burst of goroutines released together, answered in a random order piggybacked / after an empty ACK / before the ACK / as separate CON or NON, with retransmitted and re-sent duplicates, foreign tokens, cancellations, equal tokens (second call while the first is outstanding, bursts with one token, re-use after completion), the CRC-64-colliding token pair, 14 pairs of similar but distinct tokens (differing by trailing / leading zero bytes, length, one byte, byte order; both outstanding, foreign response, late response of a cancelled call, mixed burst), bursts of 2-4 calls with one token released together at the token table (a goroutine holds the table's lock until every caller is queued inside LoadOrStore), and sequential separate-response exchanges on a pooled connection whose empty-ACK write takes 300 us while the caller releases its response at once. Block-wise layer (cases replayed on Token/BwModel.v): a Do whose response arrives in 2-4 Block2 blocks with a second Do with its token before / between the blocks, bystanders, two interleaved transfers, duplicated and stale blocks, cancellation mid-transfer, re-use of the token (ub, tb, ubh1, tbh1), and on connections with the message pool on a block-wise download followed by 3-5 calls with distinct tokens answered in another order or all back to back while the callers keep their responses (tbh1, tbh, tbp, ubh1, ubp); these cases also record the block numbers asked for, the 4.08 written and the messages the receive path released. Message-ID layer (every datagram case is replayed on Token/DedupModel.v from the type and message ID of each received message; per message the response-cache hit and the acknowledgements written are recorded): a caller re-uses its token for the next request after the previous one completed, the peer answers with separate responses and sends an earlier response again with the same message ID while the later request is outstanding (acknowledged or not, CON/NON requests, the copy as CON or NON, two copies, three rounds, an earlier request given up, a copy while nobody waits, bystanders, a message ID re-used by the peer for another response within EXCHANGE_LIFETIME and after it has elapsed (event X), two NON copies). Round 4 (state that outlives a request): a Do whose block-wise response stalls gives up after 1-2 blocks, time passes beyond the validity of the reassembly state it leaves behind (event T: the cached elements' deadlines are moved into the past, no sweep), a later Do re-uses the token and is answered block-wise (also: twice in a row, a bystander transfer, a single response first, late blocks of the abandoned transfer) on ub and tb, replayed on Token/BwModel.v and Token/ReasmModel.v; sequential exchanges on pooled connections (tp1, tp, up; also t, u) where the callers release their responses at once and some responses have no payload (event E: 2.04 with the tag in the ETag option); and ONE real pool.Message through 3-8 lives (UnmarshalWithDecoder of frames / datagrams from the real coders with and without payload, Reset, SetBody; Token(), Code(), ReadBody() after every decode; Token/RecycleModel.v). Distinct = distinct script; non-trivial = at least two calls or one duplicate / foreign / cancel / equal-token / block / back-to-back / lifetime event."
	emit := func(sc c3Script, fam string) {
		if c3Hangs >= 3 && a.only == "" {
			return // enough hung cases to report; do not spend the watchdog time on every further case
		}
		txt, run := runC3Script(sc)
		nt := false
		ncalls := 0
		for _, o := range sc.ops {
			if o.kind == 'S' || o.kind == 'G' || o.kind == 'B' {
				ncalls += len(o.st)
			}
			if o.kind == 'F' || o.kind == 'C' || o.kind == 'K' || o.kind == 'W' || o.kind == 'X' || o.kind == 'T' {
				nt = true
			}
		}
		if ncalls >= 2 {
			nt = true
		}
		hist := []string{"fam-" + fam, "tr-" + sc.tr, fmt.Sprintf("calls%d", ncalls)}
		for i := 0; i < run.piled; i++ {
			hist = append(hist, "barrier-all-callers-queued")
		}
		for i := 0; i < run.unpiled; i++ {
			hist = append(hist, "barrier-released-after-time-limit")
		}
		for i := 0; i < run.skipped; i++ {
			hist = append(hist, "start-skipped-valid-reassembly-state-of-abandoned-transfer")
		}
		e.Add(txt, sc.String(), nt, hist...)
	}
	if strings.HasPrefix(a.only, "tk|") {
		salt, n, err := parseC3Tk(a.only)
		if err != nil {
			return err
		}
		txt, _ := runC3Tk(salt, n)
		e.AddW(txt, c3TkDesc(salt, n), true, 60, "fam-replay")
		return e.Flush(a.out)
	}
	if strings.HasPrefix(a.only, "rc|") {
		ops, err := parseC3Rc(a.only)
		if err != nil {
			return err
		}
		e.Add(runC3Rc(ops), c3RcDesc(ops), true, "fam-replay")
		return e.Flush(a.out)
	}
	if a.only != "" {
		sc, err := parseC3Script(a.only)
		if err != nil {
			return err
		}
		emit(sc, "replay")
		return e.Flush(a.out)
	}
	rng := NewRng(a.seed)
	trs := []string{"u", "ub", "t", "tb"}
	nPerm, nEq, nBar, nSep := 14, 4, 4, 16
	if a.tier == "thorough" {
		nPerm, nEq, nBar, nSep = 600, 100, 40, 200
	}
	// Round 5 families first, on a stream of their own (c03tk.go): the library's token source. The source is probed
	// first (n calls on known random bytes); the scripts come first in the output.
	rng6 := NewRng(a.seed ^ 0x70CE570CE)
	nTk, nFreshV := 1100, 4
	ks := []int{511, 255, 1023, 63, 4095}
	if a.tier == "thorough" {
		nTk, nFreshV = 2200, 8
		ks = append(ks, 0, 1, 3, 7, 15, 31, 127, 2047, 8191, 16383, 2+rng6.Intn(3000), 2+rng6.Intn(3000))
	}
	tkSalt := 1 + rng6.U64()%100000
	tkTxt, tkPeriod := runC3Tk(tkSalt, nTk)
	tkSalt2 := 1 + rng6.U64()%100000
	tkTxt2, _ := runC3Tk(tkSalt2, 300)
	if tkPeriod > 0 {
		// a token came back after tkPeriod calls: aim the scripts at it
		ks = []int{tkPeriod - 1, 2*tkPeriod - 1}
	}
	for _, tr := range trs {
		for ki, k := range ks {
			for v := 0; v < nFreshV; v++ {
				emit(c3GenFresh(rng6.Fork(), tr, v+4*(ki%2), k), "fresh")
			}
		}
	}
	tkHist := "token-source-all-tokens-differ"
	if tkPeriod > 0 {
		tkHist = fmt.Sprintf("token-source-token-came-back-after-%d-calls", tkPeriod)
	}
	e.AddW(tkTxt, c3TkDesc(tkSalt, nTk), true, 60, "fam-source", tkHist)
	e.AddW(tkTxt2, c3TkDesc(tkSalt2, 300), true, 20, "fam-source")
	// Round 4 families next, on a stream of their own (c03x.go): state that outlives a request.
	rng5 := NewRng(a.seed ^ 0x57A1E57A1E)
	nExp, nEmp, nRc := 2, 3, 40
	if a.tier == "thorough" {
		nExp, nEmp, nRc = 30, 30, 1500
	}
	for i := 0; i < nRc; i++ {
		ops := c3GenRecycle(rng5.Fork(), 3+i%6)
		e.Add(runC3Rc(ops), c3RcDesc(ops), true, "fam-recycle", fmt.Sprintf("lives%d", 3+i%6))
	}
	for _, tr := range []string{"ub", "tb"} {
		for v := 0; v < 6*nExp; v++ {
			emit(c3GenExpire(rng5.Fork(), tr, v), "expire")
		}
	}
	for _, tr := range []string{"tp1", "tp", "t", "up", "u"} {
		for i := 0; i < nEmp; i++ {
			emit(c3GenEmpty(rng5.Fork(), tr, 8+4*(i%3)), "empty")
		}
	}
	// The message-ID layer family comes next (a failure found there is the one reported), on a stream of its own:
	// re-used tokens and retransmitted responses, udp and udp + block-wise (c03dd.go).
	rng4 := NewRng(a.seed ^ 0xDED0DED0)
	nReuse := 2
	if a.tier == "thorough" {
		nReuse = 30
	}
	for _, tr := range []string{"u", "ub"} {
		for v := 0; v < 12*nReuse; v++ {
			emit(c3GenReuse(rng4.Fork(), tr, v), "reuse")
		}
	}
	// The block-wise layer families come next, on a stream of their own.
	rng3 := NewRng(a.seed ^ 0xB10CB10C)
	nDis, nPool := 2, 2
	if a.tier == "thorough" {
		nDis, nPool = 40, 30
	}
	// a Do whose response comes in blocks and a second Do with its token meanwhile ...
	for _, tr := range []string{"ub", "tb", "ubh1", "tbh1"} {
		for v := 0; v < 8*nDis; v++ {
			emit(c3GenDisplace(rng3.Fork(), tr, v), "displace")
		}
	}
	// ... and, with the message pool on, a block-wise download followed by calls answered out of order / back to back
	for _, tr := range []string{"tbh1", "tbh", "tbp", "ubh1", "ubp"} {
		for v := 0; v < 2*nPool; v++ {
			emit(c3GenPooled(rng3.Fork(), tr, v), "pooled")
		}
	}
	// The deterministic families come next, on a stream of their own.
	rng2 := NewRng(a.seed ^ 0xC03C03C03)
	// always run, both tiers: calls with one token released together at the token table ...
	for _, tr := range trs {
		for k := 2; k <= 4; k++ {
			for v := 0; v < nBar; v++ {
				emit(c3GenBarrier(rng2.Fork(), tr, k, v), "barrier")
			}
		}
	}
	// ... similar-but-distinct token pairs ...
	for ti, tr := range trs {
		for p := range c3NearPairs {
			for v := 0; v < 8; v++ {
				if a.tier != "thorough" && len(tr) == 2 && (v>>1)%2 != (p+ti)%2 {
					continue // block-wise set-ups: half of the variants per pair in the quick tier
				}
				emit(c3GenNear(rng2.Fork(), tr, p, v), "near")
			}
		}
	}
	// ... and sequential separate-response exchanges with pooling, a slow ACK write and prompt release
	for i := 0; i < nSep; i++ {
		emit(c3GenSeparate(rng2.Fork(), 6+4*(i%4)), "separate")
	}
	for _, tr := range trs {
		for n := 1; n <= 8; n++ {
			for k := 0; k < nPerm/2+1; k++ {
				emit(c3GenPerm(rng.Fork(), tr, n, k%2 == 0), "perm")
			}
		}
		for v := 0; v < 4*nEq; v++ {
			emit(c3GenEqual(rng.Fork(), tr, v), "equal")
		}
		for v := 0; v < 6; v++ {
			emit(c3GenCollision(rng.Fork(), tr, v), "collision")
		}
	}
	return e.Flush(a.out)
}
