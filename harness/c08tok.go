package main

// C08, "each registration receives notifications for its own token only": histories whose tokens are
// RELATED byte strings -- the same bytes with zero bytes in front or behind, a prefix, a suffix, the
// empty token next to {00}.  Tokens are opaque strings of 0..8 bytes (RFC 7252 3, 5.3.1): {2a}, {00 2a}
// and {2a 00} are three tokens.  The random foreign tokens of the other families are unrelated to the
// registered ones, so a table key that ignores the length (or the position of the bytes) would not be
// noticed there.  Model side: the key is CRC-64 of the token, theorems C08_hash_leading_zeros /
// C08_own_token_zero_padded (Observe/Hash.v).

func c8Cat(parts ...[]byte) []byte {
	var out []byte
	for _, p := range parts {
		out = append(out, p...)
	}
	if len(out) > 8 {
		out = out[len(out)-8:]
	}
	return out
}

func c8Zeros(n int) []byte { return make([]byte, n) }

// fixed scenarios
func c8GenRelatedFixed(rng *Rng, variant int) []c8Op {
	b := &c8B{rng: rng}
	switch variant {
	case 7: // the smallest one: a notification for {00 2a} while {2a} is observed
		A := []byte{0x2a}
		b.reg(A, false)
		b.note(A, 1, 0)
		b.note([]byte{0x00, 0x2a}, 2, 0)
		b.note(A, 3, 0)
	case 0: // one observation {2a}; notifications of tokens that differ by zero bytes only; then {00 2a} next to it
		A := []byte{0x2a}
		B := []byte{0x00, 0x2a}
		a := b.reg(A, false)
		b.note(A, 1, 0)
		b.note(B, 10, 0)
		b.note([]byte{0x2a, 0x00}, 11, 0)
		b.note([]byte{0x00, 0x00, 0x2a}, 12, 0)
		b.note(c8Cat(A, c8Zeros(7)), 13, 0)
		b.note(c8Cat(c8Zeros(7), A), 14, 0)
		b.note(A, 2, 0)
		c := b.reg(B, false)
		b.note(B, 20, 0)
		b.note(A, 3, 0)
		b.note(B, 21, 0)
		b.cancel(c, 69)
		b.note(B, 22, 0)
		b.note(A, 4, 0)
		b.cancel(a, 69)
		b.note(A, 5, 0)
		b.note(B, 23, 0)
	case 1: // {00} and the empty token
		Z := []byte{0x00}
		a := b.reg(Z, false)
		b.raw(nil, 69, true, c8Enc(1, 0), 0) // must not complete the registration of {00}
		b.note(Z, 2, 0)
		b.raw(nil, 69, true, c8Enc(3, 0), 0)
		b.note([]byte{0, 0}, 4, 0)
		b.note(c8Zeros(8), 5, 0)
		b.note(Z, 6, 0)
		b.reg(nil, false) // refused: empty token
		b.note(Z, 7, 0)
		b.cancel(a, 69)
		b.note(Z, 8, 0)
	case 2: // a registration is not completed by the answer for the zero-padded token; both registered; cancel of one keeps the other
		A := []byte{0x2a}
		B := []byte{0x00, 0x2a}
		a := b.reg(A, false)
		b.note(B, 1, 0)
		b.raw(B, 132, false, nil, 0)
		b.note(A, 2, 0)
		c := b.reg(B, true)
		b.note(A, 3, 0)
		b.note(B, 7, 0)
		b.note(A, 4, 0)
		b.cancel(a, 69)
		b.note(B, 8, 0)
		b.note(A, 5, 0)
		b.cancel(c, 69)
		b.note(B, 9, 0)
	case 3: // full-length token with leading zeros first, the short ones afterwards
		L := c8Cat(c8Zeros(7), []byte{0x01})
		S := []byte{0x01}
		M := []byte{0x00, 0x00, 0x00, 0x01}
		l := b.reg(L, false)
		b.note(S, 1, 0)
		b.note(M, 2, 0)
		b.note(L, 3, 0)
		s := b.reg(S, false)
		m := b.reg(M, true)
		b.note(M, 30, 0)
		b.note(S, 20, 0)
		b.note(L, 4, 0)
		b.note(S, 21, 0)
		b.cancel(l, 69)
		b.note(L, 5, 0)
		b.note(S, 22, 0)
		b.note(M, 31, 0)
		b.cancelErr(m, 'c')
		b.note(M, 32, 0)
		b.note(S, 23, 0)
		b.cancel(s, 67)
		b.note(S, 24, 0)
	case 4: // answers with other codes under the padded token must not end the registration either
		A := []byte{0x80, 0x01}
		B := c8Cat([]byte{0}, A)
		b.reg(A, true)
		b.raw(B, 132, false, nil, 0)
		b.raw(B, 69, false, nil, 0)
		b.note(A, 9, 0)
		b.raw(B, 160, false, nil, 0)
		b.note(A, 10, 0)
		b.note(B, 11, 0)
		b.note(A, 11, 0)
	case 5: // zero bytes behind, prefix, suffix
		A := []byte{0x12, 0x34}
		a := b.reg(A, false)
		b.note(A, 1, 0)
		b.note([]byte{0x12, 0x34, 0x00}, 2, 0)
		b.note([]byte{0x12}, 3, 0)
		b.note([]byte{0x34}, 4, 0)
		b.note([]byte{0x34, 0x12}, 5, 0)
		b.note([]byte{0x00, 0x12, 0x34, 0x00}, 6, 0)
		c := b.reg([]byte{0x12, 0x34, 0x00}, false)
		b.note([]byte{0x12, 0x34, 0x00}, 7, 0)
		b.note(A, 2, 0)
		b.cancel(a, 69)
		b.note([]byte{0x12, 0x34, 0x00}, 8, 0)
		b.cancel(c, 69)
	default: // random base token; the base and two zero-padded variants registered side by side
		t := c8Tok(rng, 1+rng.Intn(4))
		toks := [][]byte{t, c8Cat(c8Zeros(1+rng.Intn(2)), t), c8Cat(c8Zeros(8), t)}
		ids := make([]int, 3)
		for i := range toks {
			ids[i] = b.reg(toks[i], i == 1)
			b.note(toks[(i+1)%3], uint32(40+i), 0) // not its answer
			b.note(toks[i], uint32(1+10*i), 0)
		}
		for s := 0; s < 3; s++ {
			for i := range toks {
				b.note(toks[i], uint32(2+s+10*i), 0)
			}
		}
		b.cancel(ids[1], 69)
		for i := range toks {
			b.note(toks[i], uint32(6+10*i), 0)
		}
	}
	return b.ops
}

// the tokens related to t the random family draws from
func c8RelatedPool(rng *Rng, t []byte) [][]byte {
	pool := [][]byte{
		t,
		c8Cat([]byte{0}, t),
		c8Cat([]byte{0, 0}, t),
		c8Cat(c8Zeros(8), t), // padded to the full 8 bytes (t has at most 5)
		append(append([]byte(nil), t...), 0),
		append(append([]byte(nil), t...), 0, 0),
		append(append([]byte(nil), t...), c8Zeros(8-len(t))...),
		append(c8Cat([]byte{0}, t), 0),
		nil,
		{0},
	}
	if len(t) > 1 {
		pool = append(pool, t[1:], t[:len(t)-1])
		rev := make([]byte, len(t))
		for i := range t {
			rev[len(t)-1-i] = t[i]
		}
		pool = append(pool, rev)
	}
	return pool
}

// random histories over a pool of related tokens: up to three of them registered, notifications for all of them
func c8GenRelatedRandom(rng *Rng) []c8Op {
	b := &c8B{rng: rng}
	t := c8Tok(rng, 1+rng.Intn(5))
	if rng.Chance(25) {
		t[0] = 0
	}
	if rng.Chance(15) {
		t[len(t)-1] = 0
	}
	pool := c8RelatedPool(rng, t)
	// the first few entries (zero bytes in front) are drawn more often
	draw := func() int {
		if rng.Chance(60) {
			return rng.Intn(4)
		}
		return rng.Intn(len(pool))
	}
	ids := make([]int, len(pool))
	next := make([]uint32, len(pool))
	for i := range ids {
		ids[i] = -1
		next[i] = uint32(1 + 16*i)
	}
	live := 0
	steps := 10 + rng.Intn(12)
	for s := 0; s < steps; s++ {
		i := draw()
		switch {
		case ids[i] < 0 && len(pool[i]) > 0 && live < 3 && rng.Chance(45):
			ids[i] = b.reg(pool[i], rng.Bool())
			live++
			if rng.Chance(50) {
				j := draw() // something else arrives before the answer
				b.note(pool[j], next[j], 0)
				next[j]++
			}
			b.note(pool[i], next[i], 0)
			next[i]++
		case ids[i] >= 0 && rng.Chance(12):
			if rng.Chance(25) {
				b.cancelErr(ids[i], []byte{'c', 'a', 'e', 'w'}[rng.Intn(4)])
			} else {
				b.cancel(ids[i], []int{69, 67, 132}[rng.Intn(3)])
			}
			ids[i] = -1
			live--
		default:
			v := next[i]
			switch rng.Intn(8) {
			case 0:
				v-- // duplicate of the previous one
			case 1:
				v -= 2
			default:
				next[i]++
			}
			if rng.Chance(6) {
				b.raw(pool[i], []int{132, 160, 67}[rng.Intn(3)], false, nil, 0)
			} else {
				b.note(pool[i], v&(1<<24-1), b.dt())
			}
		}
	}
	return b.ops
}
