package main

// C11 layer (c): the ordered hand-off from the socket reader into the receive queue
// (tcp pushToReceivedMessageQueue / udp Conn.Process = the producer "Push m" of Reader/Model.v) on REAL
// connections, under bursts.
//
//   layer T: a real tcp/client.Conn over a scripted net.Conn (c11Stream). The peer's burst of k frames is
//            handed to the connection's reader in ONE write (w=1), in writes of j frames (w=f<j>) or of j bytes
//            (w=b<j>, frame boundaries and write boundaries differ); the next write is available as soon as the
//            reader asks for it (back to back). tcp/client ignores Config.ProcessReceivedMessage, so the
//            private field processReceivedMessage is set (as harness/c03.go, c08.go do) to log every dispatch.
//   layer D: a real udp/client.Conn over the in-memory session; ONE goroutine (the datagram reader) calls
//            Conn.Process for the k datagrams back to back.
//
// Messages are numbered 1..k in arrival order. Handler modes (field h, '/'-separated, "I" = none):
//   H<m>      the handler of message m blocks on a harness channel. It is released when the reader is seen
//             parked on the full queue (goroutine in "select" inside pushToReceivedMessageQueue / Conn.Process)
//             or has handed over everything it was given (stream idle / feeder returned). Several H are released
//             one at a time, each after its own witness.
//   N<m>.<r>  the handler of message m issues a real blocking nested request (Conn.Do, own token); frame r of
//             the same burst (r > m) is its response.
// Without H and N every handler returns at once and the arrival-order clause of the property applies.
//
// Observables: the dispatch log (message numbers in the order of the processReceivedMessage calls) and, per
// nested request, whether it returned. A response that reaches the APPLICATION handler (nobody was waiting for
// its token when it was dispatched) settles its nested request as "never returns" without waiting for a watchdog.
// After everything is settled one more message (a barrier, not logged) is sent through the same path and awaited,
// so a second dispatch of an earlier message would be in the log.
//
// Descriptor: "B:l=<T|D>,n=<queue size>,k=<messages>,w=<1|f<j>|b<j>>,h=<modes>".

import (
	"context"
	"fmt"
	"io"
	"net"
	"os"
	"reflect"
	"runtime"
	"sort"
	"strconv"
	"strings"
	"sync"
	"time"
	"unsafe"

	"github.com/plgd-dev/go-coap/v3/message"
	"github.com/plgd-dev/go-coap/v3/message/codes"
	"github.com/plgd-dev/go-coap/v3/message/pool"
	coapNet "github.com/plgd-dev/go-coap/v3/net"
	"github.com/plgd-dev/go-coap/v3/net/responsewriter"
	"github.com/plgd-dev/go-coap/v3/options/config"
	tcpclient "github.com/plgd-dev/go-coap/v3/tcp/client"
	tcpcoder "github.com/plgd-dev/go-coap/v3/tcp/coder"
	"github.com/plgd-dev/go-coap/v3/udp/client"
)

// ---------- spec ----------

type c11Burst struct {
	layer  byte // 'T' tcp, 'D' udp
	n      int  // ReceivedMessageQueueSize
	k      int  // messages 1..k
	w      string
	held   []int       // ascending
	nested map[int]int // request m -> response r
}

func (b c11Burst) modes() string {
	var parts []string
	for _, m := range b.held {
		parts = append(parts, fmt.Sprintf("H%d", m))
	}
	var ms []int
	for m := range b.nested {
		ms = append(ms, m)
	}
	sort.Ints(ms)
	for _, m := range ms {
		parts = append(parts, fmt.Sprintf("N%d.%d", m, b.nested[m]))
	}
	if len(parts) == 0 {
		return "I"
	}
	return strings.Join(parts, "/")
}

func (b c11Burst) desc() string {
	return fmt.Sprintf("B:l=%c,n=%d,k=%d,w=%s,h=%s", b.layer, b.n, b.k, b.w, b.modes())
}

func parseC11Burst(s string) (c11Burst, error) {
	b := c11Burst{w: "1", nested: map[int]int{}}
	s = strings.TrimPrefix(s, "B:")
	for _, kv := range strings.Split(s, ",") {
		f := strings.SplitN(kv, "=", 2)
		if len(f) != 2 {
			return b, fmt.Errorf("bad field %q", kv)
		}
		switch f[0] {
		case "l":
			if f[1] != "T" && f[1] != "D" {
				return b, fmt.Errorf("bad layer %q", f[1])
			}
			b.layer = f[1][0]
		case "n":
			b.n, _ = strconv.Atoi(f[1])
		case "k":
			b.k, _ = strconv.Atoi(f[1])
		case "w":
			b.w = f[1]
		case "h":
			if f[1] == "I" {
				continue
			}
			for _, p := range strings.Split(f[1], "/") {
				switch {
				case strings.HasPrefix(p, "H"):
					m, err := strconv.Atoi(p[1:])
					if err != nil {
						return b, fmt.Errorf("bad mode %q", p)
					}
					b.held = append(b.held, m)
				case strings.HasPrefix(p, "N"):
					g := strings.SplitN(p[1:], ".", 2)
					if len(g) != 2 {
						return b, fmt.Errorf("bad mode %q", p)
					}
					m, e1 := strconv.Atoi(g[0])
					r, e2 := strconv.Atoi(g[1])
					if e1 != nil || e2 != nil {
						return b, fmt.Errorf("bad mode %q", p)
					}
					b.nested[m] = r
				default:
					return b, fmt.Errorf("bad mode %q", p)
				}
			}
		}
	}
	sort.Ints(b.held)
	return b, b.check()
}

func (b c11Burst) check() error {
	if b.layer != 'T' && b.layer != 'D' {
		return fmt.Errorf("no layer")
	}
	if b.k < 1 || b.k > 400 || b.n < 0 || b.n > 64 {
		return fmt.Errorf("k or n out of range")
	}
	if _, _, err := c11Chunking(b.w); err != nil {
		return err
	}
	isResp := map[int]bool{}
	for m, r := range b.nested {
		if m < 1 || r <= m || r > b.k || isResp[r] {
			return fmt.Errorf("bad nested pair %d.%d", m, r)
		}
		isResp[r] = true
	}
	for m := range b.nested {
		if isResp[m] {
			return fmt.Errorf("message %d is a response and cannot issue a request", m)
		}
	}
	for i, m := range b.held {
		if m < 1 || m > b.k || isResp[m] || (i > 0 && b.held[i-1] == m) {
			return fmt.Errorf("bad held message %d", m)
		}
	}
	return nil
}

// c11Chunking: "1" -> one write; "f<j>" -> j frames per write; "b<j>" -> j bytes per write.
func c11Chunking(w string) (frames, bytes int, err error) {
	switch {
	case w == "1":
		return 0, 0, nil
	case strings.HasPrefix(w, "f"):
		frames, err = strconv.Atoi(w[1:])
	case strings.HasPrefix(w, "b"):
		bytes, err = strconv.Atoi(w[1:])
	default:
		err = fmt.Errorf("bad chunking %q", w)
	}
	if err == nil && frames <= 0 && bytes <= 0 {
		err = fmt.Errorf("bad chunking %q", w)
	}
	return
}

func (b c11Burst) cfg() c11Cfg {
	c := c11Cfg{n: b.n, msgs: b.k, progs: map[int][]c11Op{}}
	for m, r := range b.nested {
		c.progs[m] = []c11Op{{nested: true, r: r}}
	}
	return c
}

// ---------- scripted stream ----------

type c11Addr struct{}

func (c11Addr) Network() string { return "c11" }
func (c11Addr) String() string  { return "c11-peer" }

// c11Stream is the connection's socket. Read hands out the peer's writes one after the other (one Read never
// crosses a write boundary); when nothing is pending the reader waits and the stream is "idle": everything
// given to the reader before has been through processBuffer, i.e. every complete frame was handed over.
type c11Stream struct {
	mu      sync.Mutex
	cond    *sync.Cond
	pending [][]byte
	closed  bool
	waiting int // Reads waiting with nothing pending
	reads   int
	outLen  int
	out     []byte // everything the connection wrote (c11x.go parses the frames)
	note    func()
}

func newC11Stream(note func()) *c11Stream {
	s := &c11Stream{note: note}
	s.cond = sync.NewCond(&s.mu)
	return s
}

func (s *c11Stream) Read(p []byte) (int, error) {
	s.mu.Lock()
	defer s.mu.Unlock()
	for len(s.pending) == 0 && !s.closed {
		s.waiting++
		s.note()
		s.cond.Wait()
		s.waiting--
	}
	if len(s.pending) == 0 {
		return 0, io.EOF
	}
	n := copy(p, s.pending[0])
	if n == len(s.pending[0]) {
		s.pending = s.pending[1:]
	} else {
		s.pending[0] = s.pending[0][n:]
	}
	s.reads++
	return n, nil
}

// peerWrite makes the chunks available to the reader, in order, without any pause between them.
func (s *c11Stream) peerWrite(chunks ...[]byte) {
	s.mu.Lock()
	s.pending = append(s.pending, chunks...)
	s.mu.Unlock()
	s.cond.Broadcast()
}

func (s *c11Stream) idle() bool {
	s.mu.Lock()
	defer s.mu.Unlock()
	return len(s.pending) == 0 && s.waiting > 0
}

func (s *c11Stream) Write(p []byte) (int, error) {
	s.mu.Lock()
	closed := s.closed
	s.outLen += len(p)
	if !closed {
		s.out = append(s.out, p...)
	}
	s.mu.Unlock()
	if closed {
		return 0, net.ErrClosed
	}
	s.note()
	return len(p), nil
}

func (s *c11Stream) Close() error {
	s.mu.Lock()
	s.closed = true
	s.mu.Unlock()
	s.cond.Broadcast()
	return nil
}
func (s *c11Stream) LocalAddr() net.Addr              { return c11Addr{} }
func (s *c11Stream) RemoteAddr() net.Addr             { return c11Addr{} }
func (s *c11Stream) SetDeadline(time.Time) error      { return nil }
func (s *c11Stream) SetReadDeadline(time.Time) error  { return nil }
func (s *c11Stream) SetWriteDeadline(time.Time) error { return nil }

// c11ParkedIn: some goroutine is blocked in a select / channel send with a frame of the named function on its
// stack (the socket reader parked on the full receive queue).
func c11ParkedIn(fn string) bool {
	buf := make([]byte, 1<<20)
	n := runtime.Stack(buf, true)
	for _, g := range strings.Split(string(buf[:n]), "\n\n") {
		hdr, _, _ := strings.Cut(g, "\n")
		if (strings.Contains(hdr, "[select") || strings.Contains(hdr, "[chan send")) && strings.Contains(g, fn) {
			return true
		}
	}
	return false
}

// ---------- execution ----------

type c11BurstState struct {
	mu      sync.Mutex
	note    chan struct{}
	log     []int
	post    map[int]int  // dispatches of m that have returned
	entered map[int]bool // held handler of m is blocked on its channel
	started map[int]bool // nested request of m issued
	ret     map[int]bool // nested request of m returned with its response
	stray   map[int]bool // response r reached the application handler
	barrier int          // 1 dispatched, 2 dispatch returned
	active  int
	errs    []string
}

func (st *c11BurstState) signal() {
	select {
	case st.note <- struct{}{}:
	default:
	}
}

func (st *c11BurstState) errf(f string, a ...any) {
	st.mu.Lock()
	st.errs = append(st.errs, fmt.Sprintf(f, a...))
	st.mu.Unlock()
}

var c11BarrierToken = []byte{0xBA, 0x11, 0xBA, 0x11, 0x7E}

func c11TCPFrame(code codes.Code, tok []byte, payload []byte) []byte {
	m := message.Message{Code: code, Token: tok, Payload: payload}
	size, err := tcpcoder.DefaultCoder.Size(m)
	if err != nil {
		panic(err)
	}
	buf := make([]byte, size)
	n, err := tcpcoder.DefaultCoder.Encode(m, buf)
	if err != nil {
		panic(err)
	}
	return buf[:n]
}

// runC11Burst executes one burst; returns the Coq case text and whether a watchdog expired.
func runC11Burst(b c11Burst) (string, bool) {
	if err := b.check(); err != nil {
		panic("c11burst: invalid spec: " + err.Error())
	}
	dbg := os.Getenv("HXDBG") != ""
	st := &c11BurstState{note: make(chan struct{}, 1), post: map[int]int{}, entered: map[int]bool{}, started: map[int]bool{}, ret: map[int]bool{}, stray: map[int]bool{}}
	respOf := map[int]int{} // response r -> request m
	for m, r := range b.nested {
		respOf[r] = m
	}
	num := map[string]int{} // token -> message number (complete before the first message is handed over)
	toks := make([][]byte, b.k+1)
	for i := 1; i <= b.k; i++ {
		if m, ok := respOf[i]; ok {
			toks[i] = c11NestToken(m, 0)
		} else {
			toks[i] = c11ReqToken(i)
		}
		num[string(toks[i])] = i
	}
	rel := map[int]chan struct{}{}
	for _, m := range b.held {
		rel[m] = make(chan struct{})
	}
	ctx, cancel := context.WithCancel(context.Background())

	// dispatch hook (both layers): log, run the connection's own dispatch, note the return
	dispatched := func(tok []byte, run func()) {
		isBar := string(tok) == string(c11BarrierToken)
		m := num[string(tok)] // 0 = a message the harness did not send
		st.mu.Lock()
		if isBar {
			st.barrier = 1
		} else {
			st.log = append(st.log, m)
		}
		st.mu.Unlock()
		st.signal()
		run()
		st.mu.Lock()
		if isBar {
			st.barrier = 2
		} else {
			st.post[m]++
		}
		st.mu.Unlock()
		st.signal()
	}
	// application handler (both layers); do issues the nested request of message m and reports success
	handle := func(tok []byte, do func(m int) error) {
		m := num[string(tok)]
		st.mu.Lock()
		st.active++
		st.mu.Unlock()
		defer func() {
			st.mu.Lock()
			st.active--
			st.mu.Unlock()
			st.signal()
		}()
		if m == 0 {
			return
		}
		if _, isResp := respOf[m]; isResp {
			st.mu.Lock()
			st.stray[m] = true
			st.mu.Unlock()
			st.signal()
			return
		}
		if ch, ok := rel[m]; ok {
			st.mu.Lock()
			st.entered[m] = true
			st.mu.Unlock()
			st.signal()
			<-ch
		}
		if _, ok := b.nested[m]; ok {
			st.mu.Lock()
			st.started[m] = true
			st.mu.Unlock()
			st.signal()
			if err := do(m); err != nil {
				// expected only when the response was consumed before the request existed, or at tear-down
				st.errf("nested %d: %v", m, err)
				return
			}
			st.mu.Lock()
			st.ret[m] = true
			st.mu.Unlock()
			st.signal()
		}
	}

	// layer-specific: start the connection; feed() hands the burst over, fedAll() = the reader has handed over
	// everything it was given, parked() = the reader is blocked on the full queue, bar() sends the barrier
	var feed func()
	var fedAll, parked func() bool
	var bar func()
	var teardown func()

	switch b.layer {
	case 'T':
		stream := newC11Stream(st.signal)
		cfg := tcpclient.DefaultConfig
		cfg.Ctx = context.Background()
		cfg.Errors = func(err error) { st.errf("conn: %v", err) }
		cfg.LimitClientParallelRequests = 64
		cfg.LimitClientEndpointParallelRequests = 64
		cfg.MessagePool = pool.New(64, 2048)
		cfg.DisableTCPSignalMessageCSM = true
		cfg.DisablePeerTCPSignalMessageCSMs = true
		cfg.ReceivedMessageQueueSize = b.n
		var cc *tcpclient.Conn
		cfg.Handler = func(_ *responsewriter.ResponseWriter[*tcpclient.Conn], r *pool.Message) {
			handle(r.Token(), func(m int) error {
				tok := c11NestToken(m, 0)
				req := cc.AcquireMessage(ctx)
				defer cc.ReleaseMessage(req)
				req.SetCode(codes.GET)
				req.SetToken(tok)
				_ = req.SetPath("/nested")
				resp, err := cc.Do(req)
				if err != nil {
					return err
				}
				defer cc.ReleaseMessage(resp)
				if resp.Code() != codes.Content || string(resp.Token()) != string(tok) {
					return fmt.Errorf("wrong response")
				}
				return nil
			})
		}
		cc = tcpclient.NewConnWithOpts(coapNet.NewConn(stream), &cfg)
		v := reflect.ValueOf(cc).Elem()
		pf := (*func(*pool.Message, *tcpclient.Conn, tcpclient.HandlerFunc))(unsafe.Pointer(v.FieldByName("processReceivedMessage").UnsafeAddr()))
		*pf = func(req *pool.Message, c *tcpclient.Conn, h tcpclient.HandlerFunc) {
			tok := append([]byte(nil), req.Token()...)
			dispatched(tok, func() { c.ProcessReceivedMessageWithHandler(req, h) })
		}
		runDone := make(chan struct{})
		go func() { _ = cc.Run(); close(runDone) }()

		var frames [][]byte
		for i := 1; i <= b.k; i++ {
			if _, ok := respOf[i]; ok {
				frames = append(frames, c11TCPFrame(codes.Content, toks[i], []byte("ok")))
			} else {
				frames = append(frames, c11TCPFrame(codes.POST, toks[i], []byte{byte(i >> 8), byte(i)}))
			}
		}
		fj, bj, _ := c11Chunking(b.w)
		var chunks [][]byte
		switch {
		case fj > 0:
			for i := 0; i < len(frames); i += fj {
				var c []byte
				for j := i; j < i+fj && j < len(frames); j++ {
					c = append(c, frames[j]...)
				}
				chunks = append(chunks, c)
			}
		default:
			var all []byte
			for _, f := range frames {
				all = append(all, f...)
			}
			if bj > 0 {
				for i := 0; i < len(all); i += bj {
					e := i + bj
					if e > len(all) {
						e = len(all)
					}
					chunks = append(chunks, all[i:e])
				}
			} else {
				chunks = [][]byte{all}
			}
		}
		feed = func() { stream.peerWrite(chunks...) }
		fedAll = stream.idle
		parked = func() bool { return c11ParkedIn("tcp/client.(*Conn).pushToReceivedMessageQueue") }
		bar = func() { stream.peerWrite(c11TCPFrame(codes.POST, c11BarrierToken, nil)) }
		teardown = func() {
			_ = cc.Close()
			_ = stream.Close()
			select {
			case <-runDone:
			case <-time.After(c11WD()):
				fmt.Fprintf(os.Stderr, "c11burst: Run did not return after close (%s)\n", b.desc())
			}
		}
	case 'D':
		hook := config.ProcessReceivedMessageFunc[*client.Conn](func(req *pool.Message, cc *client.Conn, handler config.HandlerFunc[*client.Conn]) {
			tok := append([]byte(nil), req.Token()...)
			dispatched(tok, func() { cc.ProcessReceivedMessageWithHandler(req, handler) })
		})
		mc := newMemConn(memConnOpts{getMID: 0x2000, queueSize: b.n, nstart: 64, limitTotal: 64, limitEndpoint: 64, maxRetransmit: 4, processReceived: hook})
		mc.behave = func(_ *responsewriter.ResponseWriter[*client.Conn], r *pool.Message) {
			handle(r.Token(), func(m int) error {
				tok := c11NestToken(m, 0)
				req := mc.cc.AcquireMessage(ctx)
				defer mc.cc.ReleaseMessage(req)
				req.SetCode(codes.GET)
				req.SetType(message.NonConfirmable)
				req.SetToken(tok)
				_ = req.SetPath("/nested")
				resp, err := mc.cc.Do(req)
				if err != nil {
					return err
				}
				defer mc.cc.ReleaseMessage(resp)
				if resp.Code() != codes.Content || string(resp.Token()) != string(tok) {
					return fmt.Errorf("wrong response")
				}
				return nil
			})
		}
		// message IDs: distinct, at least 0x3fff above the connection's own counter for the whole run
		own := int(uint16(mc.cc.VerifMsgID()))
		var dgrams [][]byte
		for i := 1; i <= b.k; i++ {
			mid := (own + 0x5000 + i) & 0xffff
			if _, ok := respOf[i]; ok {
				dgrams = append(dgrams, encodeWire(int(message.NonConfirmable), int(codes.Content), mid, toks[i], nil, []byte("ok")))
			} else {
				typ := message.NonConfirmable
				if i%4 == 0 {
					typ = message.Confirmable
				}
				dgrams = append(dgrams, encodeWire(int(typ), int(codes.GET), mid, toks[i], nil, nil))
			}
		}
		barD := encodeWire(int(message.NonConfirmable), int(codes.GET), (own+0x5000+b.k+1)&0xffff, c11BarrierToken, nil, nil)
		var fedMu sync.Mutex
		fedDone := false
		feederGone := make(chan struct{})
		feed = func() {
			// the datagram reader: ONE goroutine calls Process for every datagram, back to back
			go func() {
				defer close(feederGone)
				for i, d := range dgrams {
					if res := mc.inject(d); res != 0 {
						st.errf("Process of %d: result %d", i+1, res)
					}
				}
				fedMu.Lock()
				fedDone = true
				fedMu.Unlock()
				st.signal()
			}()
		}
		fedAll = func() bool { fedMu.Lock(); defer fedMu.Unlock(); return fedDone }
		parked = func() bool { return c11ParkedIn("udp/client.(*Conn).Process(") }
		barGone := make(chan struct{})
		barStarted := false
		bar = func() {
			barStarted = true
			go func() { defer close(barGone); _ = mc.inject(barD) }() // after the feeder returned: still one producer at a time
		}
		teardown = func() {
			mc.close()
			for _, ch := range []chan struct{}{feederGone, barGone} {
				if ch == barGone && !barStarted {
					continue
				}
				select {
				case <-ch:
				case <-time.After(c11WD()):
					fmt.Fprintf(os.Stderr, "c11burst: Process did not return after close (%s)\n", b.desc())
				}
			}
		}
	}

	// wait: cond is evaluated under st.mu; woken by state changes, and polls (the stack witness has no notifier)
	wait := func(what string, cond func() bool) bool {
		deadline := time.Now().Add(c11WD())
		for {
			st.mu.Lock()
			ok := cond()
			st.mu.Unlock()
			if ok {
				return true
			}
			if time.Now().After(deadline) {
				c11Hangs.Add(1)
				if dbg {
					fmt.Fprintf(os.Stderr, "c11burst: watchdog: %s (%s)\n", what, b.desc())
				}
				return false
			}
			select {
			case <-st.note:
			case <-time.After(300 * time.Microsecond):
			}
		}
	}

	feed()
	hang := false
	sawParked := 0
	// release the held handlers one at a time, whichever is blocked (on an intact tree: in ascending order),
	// each after its own witness
	released := map[int]bool{} // rel itself is read by the handlers: it is not written after the burst has started
	for left := len(b.held); left > 0 && !hang; left-- {
		how, which := 0, 0
		ok := wait("a held handler blocked and the reader parked or through", func() bool {
			which = 0
			for _, m := range b.held {
				if !released[m] && st.entered[m] {
					which = m
					break
				}
			}
			if which == 0 {
				return false
			}
			if fedAll() {
				how = 1
				return true
			}
			if parked() {
				how = 2
				return true
			}
			return false
		})
		if !ok {
			hang = true
			break
		}
		if how == 2 {
			sawParked++
		}
		close(rel[which])
		released[which] = true
	}
	for m, ch := range rel {
		if !released[m] {
			close(ch)
		}
	}
	if !hang {
		// everything dispatched (and the dispatch returned, unless its handler waits in a nested request that
		// is already settled as lost), every nested request returned or lost for good
		hang = !wait("all dispatched and settled", func() bool {
			seen := map[int]bool{}
			for _, m := range st.log {
				seen[m] = true
			}
			for i := 1; i <= b.k; i++ {
				if !seen[i] {
					return false
				}
				if r, ok := b.nested[i]; ok {
					if !st.ret[i] && !st.stray[r] {
						return false
					}
					if !st.ret[i] {
						continue // blocked for ever in its nested request
					}
				}
				if st.post[i] == 0 {
					return false
				}
			}
			return true
		})
	}
	if !hang {
		bar()
		hang = !wait("barrier dispatched", func() bool { return st.barrier == 2 })
	}

	// observation (before the tear-down releases blocked calls)
	st.mu.Lock()
	var ol, on []string
	for _, m := range st.log {
		ol = append(ol, strconv.Itoa(m))
	}
	var ms []int
	for m := range b.nested {
		if st.started[m] {
			ms = append(ms, m)
		}
	}
	sort.Ints(ms)
	for _, m := range ms {
		on = append(on, fmt.Sprintf("(%d, %d, %s)", m, b.nested[m], coqBool(st.ret[m])))
	}
	if dbg && (hang || len(st.errs) > 0) {
		fmt.Fprintf(os.Stderr, "c11burst: %s: hang=%v log=%v errs=%v\n", b.desc(), hang, st.log, st.errs)
	}
	st.mu.Unlock()

	cancel()
	teardown()
	if !wait("handlers released", func() bool { return st.active == 0 }) {
		fmt.Fprintf(os.Stderr, "c11burst: handlers still running after close (%s)\n", b.desc())
	}
	var hl []string
	for _, m := range b.held {
		hl = append(hl, strconv.Itoa(m))
	}
	layer := 1
	if b.layer == 'D' {
		layer = 2
	}
	txt := fmt.Sprintf("Burst %d %d%%nat %s %d%%nat [%s] [%s] [%s] %s", layer, b.n, b.cfg().coqProgs(), b.k,
		strings.Join(hl, "; "), strings.Join(ol, "; "), strings.Join(on, "; "), coqBool(hang))
	c11BurstParked += sawParked
	return txt, hang
}

var c11BurstParked int // held handlers that were released on the "reader parked on the full queue" witness

// ---------- generators ----------

// c11BurstModes: the handler modes tried for a burst of k messages.
func c11BurstModes(k int) []c11Burst {
	out := []c11Burst{{nested: map[int]int{}}, {held: []int{1}, nested: map[int]int{}}}
	if k >= 5 {
		out = append(out, c11Burst{held: []int{1, k / 2}, nested: map[int]int{}})
	} else {
		out = append(out, c11Burst{held: []int{2}, nested: map[int]int{}})
	}
	switch {
	case k >= 8:
		// two handlers blocked at once, responses in LIFO order, more traffic behind them
		out = append(out, c11Burst{nested: map[int]int{2: k - 1, 4: k - 3}})
		out = append(out, c11Burst{held: []int{1}, nested: map[int]int{3: k/2 + 1, 5: k / 2}})
	case k >= 5:
		out = append(out, c11Burst{nested: map[int]int{1: 4, 2: 5}})
	default:
		out = append(out, c11Burst{nested: map[int]int{1: k}})
	}
	return out
}

func c11BurstRandom(rng *Rng) c11Burst {
	b := c11Burst{nested: map[int]int{}, w: "1"}
	b.layer = "TD"[rng.Intn(2)]
	b.n = []int{0, 1, 16, 2}[rng.Intn(4)]
	b.k = 3 + rng.Intn(38)
	if rng.Chance(25) {
		b.k = 17 + rng.Intn(184)
	}
	if b.layer == 'T' {
		switch rng.Intn(3) {
		case 1:
			b.w = fmt.Sprintf("f%d", 1+rng.Intn(9))
		case 2:
			b.w = fmt.Sprintf("b%d", 1+rng.Intn(40))
		}
	}
	used := map[int]bool{}
	pick := func(lo, hi int) int {
		for t := 0; t < 20 && lo <= hi; t++ {
			x := lo + rng.Intn(hi-lo+1)
			if !used[x] {
				used[x] = true
				return x
			}
		}
		return 0
	}
	if rng.Chance(55) {
		for i, np := 0, 1+rng.Intn(3); i < np; i++ {
			m := pick(1, b.k-1)
			if m == 0 {
				break
			}
			r := pick(m+1, b.k)
			if r == 0 {
				break
			}
			b.nested[m] = r
		}
	}
	if rng.Chance(50) {
		for i, nh := 0, 1+rng.Intn(2); i < nh; i++ {
			if m := pick(1, b.k); m != 0 {
				b.held = append(b.held, m)
			}
		}
		sort.Ints(b.held)
	}
	if b.check() != nil {
		return c11Burst{layer: b.layer, n: b.n, k: b.k, w: b.w, nested: map[int]int{}}
	}
	return b
}

func c11BurstEmit(e *Emitter, b c11Burst, tag string) bool {
	txt, hang := runC11Burst(b)
	mode := "immediate"
	switch {
	case len(b.held) > 0 && len(b.nested) > 0:
		mode = "held+nested"
	case len(b.held) > 0:
		mode = "held"
	case len(b.nested) > 0:
		mode = "nested"
	}
	kb := "k<=n+1"
	if b.k > b.n+1 {
		kb = "k>n+1"
	}
	e.AddW(txt, b.desc(), b.k > b.n+1, 1+b.k/40, "burst-"+tag, fmt.Sprintf("burst-%c", b.layer), fmt.Sprintf("queue%d", b.n), "burst-"+mode, "burst-"+kb, "burst-w"+b.w[:1])
	return hang
}

func c11BurstCases(e *Emitter, rng *Rng, thorough bool) {
	t0 := time.Now()
	count, hangs := 0, 0
	run := func(b c11Burst, tag string) {
		if c11BurstEmit(e, b, tag) {
			hangs++
		}
		count++
	}
	sizes := []int{3, 5, 17, 18, 40, 200}
	wi := 0
	for _, layer := range []byte{'T', 'D'} {
		for _, n := range []int{0, 1, 16} {
			for _, k := range sizes {
				for mi, mode := range c11BurstModes(k) {
					b := mode
					b.layer, b.n, b.k = layer, n, k
					ws := []string{"1"}
					if layer == 'T' {
						alt := []string{fmt.Sprintf("f%d", 1+(k+n)%7), fmt.Sprintf("b%d", 3+(k+2*n)%11), "f1", "b1"}
						if mi == 0 {
							ws = append(ws, alt[0], alt[1])
						} else {
							wi++
							ws = []string{append([]string{"1"}, alt...)[wi%5]}
						}
					}
					for _, w := range ws {
						b.w = w
						run(b, "fixed")
					}
				}
			}
		}
	}
	fixed := count
	nrand := 40
	if thorough {
		nrand = 1500
	}
	for i := 0; i < nrand; i++ {
		run(c11BurstRandom(rng), "rand")
	}
	e.Extra["burst_cases"] = fmt.Sprintf("%d bursts (%d fixed: tcp+udp x queue 0/1/16 x 3..200 messages x immediate/held/nested handlers, %d random), held handlers released on the reader-parked witness %d, watchdog expiries %d, %.2fs", count, fixed, nrand, c11BurstParked, hangs, time.Since(t0).Seconds())
}

func c11BurstOnly(e *Emitter, only string) {
	b, err := parseC11Burst(only)
	if err != nil {
		fmt.Fprintf(os.Stderr, "C11: cannot replay %q: %v\n", only, err)
		return
	}
	for i := 0; i < 8; i++ {
		txt, _ := runC11Burst(b)
		e.Add(txt, only, true, "burst-replay")
	}
}
