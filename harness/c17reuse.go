package main

// C17, family "reuse": histories on one mux.Router like family "hist", but ALL
// requests of a history are ONE *mux.Message with ONE RouteParams object; only
// the Uri-Path options of the message are replaced between two dispatches (what
// glue code that recycles the mux.Message does, and what an inner router sees
// when it is called from a handler of an outer router that rewrote the path).
// The dispatch must go by the path the message has NOW: Router.ServeCOAP reads
// "req.Options().Path()", nothing that an earlier Match left in the RouteParams.
// Model: Router/Model.v run_reuse / serve_into (the RouteParams handed in is a
// parameter), theorems C17_reuse / C17_reuse_vars.
//
// Descriptors (events as in "hist", shrinkable):
//   reuse <mws>|<ev> <ev> ...   the RouteParams starts as new(RouteParams)
//   nest <mws>|<ev> <ev> ...    the FIRST request enters through an outer router
//        with the single route /o/{rest:.*} whose handler strips the first
//        Uri-Path option and calls router.ServeCOAP(w, r) with the same message
//        (RouteParams as the outer Match left them = p0 of the case); the later
//        requests re-dispatch the same message on the router directly.

import (
	"fmt"
	"strings"

	"github.com/plgd-dev/go-coap/v3/message"
	"github.com/plgd-dev/go-coap/v3/mux"
)

type c17RStats struct {
	reqs, toRoute, toDefault int
	afterMatch               int // dispatches handed a RouteParams in which an earlier Match had recorded a path
	pathChanged              int // ... a path different from the one the message has now
}

// replace the Uri-Path run of the message, keep the other options around it
func c17SetSegs(m *mux.Message, segs []string, salt int) {
	fresh := c17Request(segs, salt)
	opts := append(message.Options(nil), fresh.Options()...)
	m.ResetOptionsTo(opts)
}

func c17RunReuse(h c17Hist, nested bool) (coq string, st c17RStats) {
	r := mux.NewRouter()
	r.SetErrorHandler(func(error) {})
	mws := make([]string, len(h.Mws))
	for i, m := range h.Mws {
		r.Use(c17Middleware(m.ID, m.Pass))
		mws[i] = fmt.Sprintf("(%d, %s)", m.ID, coqBool(m.Pass))
	}
	req := c17Request(nil, 0) // THE message, with its new(RouteParams)
	p0 := "None"
	first := true
	steps := make([]string, len(h.Steps))
	for i, s := range h.Steps {
		if s.op != nil {
			code := s.op.apply(r)
			steps[i] = fmt.Sprintf("HO (%s) %d", s.op.coq(), code)
			continue
		}
		w := &c17Writer{}
		before := *req.RouteParams
		viaOuter := nested && first && len(s.segs) > 0
		first = false
		func() {
			defer func() {
				if recover() != nil {
					w.trace = append(w.trace, "Hd (-1)")
				}
			}()
			if !viaOuter {
				c17SetSegs(req, s.segs, c17HSalt(s.segs))
				r.ServeCOAP(w, req)
				return
			}
			outer := mux.NewRouter()
			outer.SetErrorHandler(func(error) {})
			outer.DefaultHandle(c17Handler(-3))
			_ = outer.Handle("/o/{rest:.*}", mux.HandlerFunc(func(w2 mux.ResponseWriter, m *mux.Message) {
				// strip the prefix: the message now carries the inner path
				c17SetSegs(m, s.segs, c17HSalt(s.segs))
				p0 = c17Params(m.RouteParams)
				before = *m.RouteParams
				r.ServeCOAP(w2, m)
			}))
			c17SetSegs(req, append([]string{"o"}, s.segs...), c17HSalt(s.segs))
			outer.ServeCOAP(w, req)
		}()
		steps[i] = fmt.Sprintf("HQ (%s, [%s], %s)", coqStrList(s.segs), strings.Join(w.trace, "; "), c17Params(req.RouteParams))
		st.reqs++
		routed := false
		for _, t := range w.trace {
			var id int
			if n, _ := fmt.Sscanf(t, "Hd %d", &id); n == 1 && id >= 1 && id < 1000 { // 0 and 1000.. are default handlers
				routed = true
			}
		}
		if routed {
			st.toRoute++
		} else {
			st.toDefault++
		}
		if before.Path != "" {
			st.afterMatch++
			now, _ := req.Options().Path()
			if mux.FilterPath(now) != before.Path {
				st.pathChanged++
			}
		}
	}
	return fmt.Sprintf("Reuse [%s] (%s) [%s]", strings.Join(mws, "; "), p0, strings.Join(steps, ";\n    ")), st
}

func (h c17Hist) reuseDesc(nested bool) string {
	fam := "reuse "
	if nested {
		fam = "nest "
	}
	return fam + strings.TrimPrefix(h.desc(), "hist ")
}

// only middlewares that call next: with one that answers itself no handler runs
// and the history would say nothing about the dispatch
func c17PassingMws(h c17Hist) c17Hist {
	var m []c17Mw
	for _, x := range h.Mws {
		if x.Pass {
			m = append(m, x)
		}
	}
	h.Mws = m
	return h
}

func c17FixedReuses() []c17Hist {
	q := func(p string) c17HStep { return c17HStep{segs: c17Segs(nil, p)} }
	hd := func(p string, h int) c17HStep { return c17HStep{op: &c17Op{K: "H", P: p, H: h}} }
	rm := func(p string) c17HStep { return c17HStep{op: &c17Op{K: "R", P: p}} }
	df := func(h int) c17HStep { return c17HStep{op: &c17Op{K: "D", H: h}} }
	return []c17Hist{
		// one message, three paths: two routes with the same variable name, then nothing matches
		{Steps: []c17HStep{df(1000), hd("/a/{id}", 1), hd("/b/{id}", 2), q("/a/1"), q("/b/2"), q("/zzz"), q("/a/3"), q("/a/3"), q("/b/2")}},
		// the inner router of the nested scenario: /dev/{id}, default
		{Steps: []c17HStep{df(1000), hd("/dev/{id}", 1), q("/dev/42"), q("/dev/43"), q("/nothing"), q("/dev/42")}},
		// a matched literal route, then paths only the built-in default answers, behind middlewares
		{Mws: []c17Mw{{1, true}, {2, true}}, Steps: []c17HStep{hd("/static", 1), hd("/{v}/x", 2), q("/static"), q("/q/x"), q("/static/y"), q(""), q("/static"), rm("/static"), q("/static"), q("/r/x")}},
		// routes come and go while the same message is re-sent; shorter and longer patterns; different variable names
		{Steps: []c17HStep{hd("/{v}", 1), q("/ab"), hd("/{w:[a-z]+}", 2), q("/ab"), q("/12"), q("/ab"), rm("/{w:[a-z]+}"), q("/ab"), df(1001), q("/a/b"), hd("/a/{x}", 3), q("/a/b"), q("/ab")}},
		// a blocking middleware: only the trace is judged
		{Mws: []c17Mw{{1, true}, {2, false}}, Steps: []c17HStep{hd("/u/{v}", 1), q("/u/c"), q("/none"), q("/u/d")}},
		// ... and no default handler at all: for a path that nothing matches nothing runs, not even the middlewares
		{Mws: []c17Mw{{1, true}, {2, false}}, Steps: []c17HStep{hd("/u/{v}", 1), q("/u/c"), df(-1), q("/none"), q("/u/d"), q("/none")}},
		{Mws: []c17Mw{{1, true}}, Steps: []c17HStep{hd("/u/{v}", 1), q("/u/c"), df(-1), q("/none"), q("/u/d"), q("/none")}},
	}
}

func c17AddReuseFamily(e *Emitter, rng *Rng, thorough bool) {
	add := func(h c17Hist, nested bool, tag string) {
		coq, st := c17RunReuse(h, nested)
		e.Extra["reuse_dispatches"] = toInt(e.Extra["reuse_dispatches"]) + st.reqs
		e.Extra["reuse_dispatches_after_a_match"] = toInt(e.Extra["reuse_dispatches_after_a_match"]) + st.afterMatch
		e.Extra["reuse_dispatches_after_a_match_on_another_path"] = toInt(e.Extra["reuse_dispatches_after_a_match_on_another_path"]) + st.pathChanged
		e.AddW(coq, h.reuseDesc(nested), st.pathChanged > 0 && st.toRoute > 0, 1+st.reqs/3, tag, fmt.Sprintf("reuse-path-changed-%d", min(st.pathChanged, 5)))
	}
	for _, h := range c17FixedReuses() {
		add(h, false, "reuse-fixed")
		add(h, true, "nest-fixed")
	}
	for _, h := range c17FixedHists() {
		add(c17PassingMws(h), false, "reuse-fixed")
	}
	for _, h := range c17FixedAdapts() {
		add(c17PassingMws(h), true, "nest-fixed")
	}
	step := 4
	if thorough {
		step = 1
	}
	for i := range c17SmallT {
		for j := i + 1; j < len(c17SmallT); j++ {
			if (i+j)%step == 1%step {
				add(c17PairHist(c17SmallT[i], c17SmallT[j], thorough), (i+j)%3 == 0, "reuse-pairs")
			}
		}
	}
	n := 40
	if thorough {
		n = 1000
	}
	for i := 0; i < n; i++ {
		h := c17GenHist(rng)
		if i%4 != 0 {
			h = c17PassingMws(h)
		}
		add(h, i%3 == 0, "reuse-random")
	}
}
