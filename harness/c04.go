package main

// C04: two real blockwise.BlockWise instances (A = client side, B = server side)
// joined by an in-memory relay. Every hop is marshalled and unmarshalled through
// the stream coder, so nothing is shared by reference. A scenario is a
// configuration plus an explicit event script (start / deliver / dup / drop /
// replay / bump / timeout / expire); after every event the harness records what
// was observable: the message handed to Handle, the message left in the response
// writer, the messages handed to the application, error callbacks, returns of
// Do / WriteMessage and the sizes of the four caches. Coq replays the same script
// on the model (Blockwise/Model.v) and evaluates the property (Blockwise/Spec.v)
// on the observed trace.

import (
	"bytes"
	"context"
	"errors"
	"fmt"
	"io"
	"sort"
	"strconv"
	"strings"
	"time"

	"github.com/plgd-dev/go-coap/v3/message"
	"github.com/plgd-dev/go-coap/v3/message/codes"
	"github.com/plgd-dev/go-coap/v3/message/pool"
	"github.com/plgd-dev/go-coap/v3/net/blockwise"
	"github.com/plgd-dev/go-coap/v3/net/responsewriter"
	tcpcoder "github.com/plgd-dev/go-coap/v3/tcp/coder"
)

func init() { props["C04"] = runC04 }

// ---- configuration (mirrors Blockwise/Config.v) ----

type c04Res struct {
	salt, length int
	etag         bool
	cf           int
}
type c04Exch struct {
	kind, code, tok, path, salt, length int
	obs                                 int // -1 = none
	dl                                  int // > 0: the application gives the request a context with this timeout (seconds of virtual time)
}
type c04Cfg struct {
	szxA, maxA, szxB, maxB int
	exch                   []c04Exch
	res                    []c04Res
	outside                [][2]int // token, path
	// how the scenario is driven (invisible to a correct implementation, not part of the Coq configuration):
	// lazy: the wire QUEUES messages as objects - a message produced by Handle / handed to the callback of Do is
	// serialised only when the network first touches it (deliver / dup / drop / replay) or at the end of the run,
	// so block messages of several transfers exist side by side before any of their bodies is read;
	// split: the peer A runs the transfer of every token in a BlockWise of its own (a peer is free to use any
	// tokens at the same time; B - one BlockWise, one connection - is what is examined)
	lazy, split bool
	// page > 0: the applications supply every body (request bodies, representations) as an io.ReadSeeker
	// that keeps its data in pages of that many bytes - one Read never crosses a page boundary, so it may
	// return fewer bytes than asked for with a nil error, as the io.Reader contract allows (Blockwise/Reader.v
	// proves the model independent of how a reader cuts its data: not part of the Coq configuration)
	page int
}
type c04Ev struct {
	op  byte // S D U X R B T E, and virtual time: A (arg seconds pass, nothing is swept) W (CheckExpirations now at side arg)
	arg int
}

func (r c04Res) body(v int) []byte { return genBody(r.salt+v, r.length+3*v) }

// ---- projected messages ----

type c04Blk struct {
	szx, num int64
	more     bool
}
type c04PM struct {
	code, tok      int64
	b1, b2         *c04Blk
	s1, s2, et, ob *int64
	other          [][2]int64
	length         int
	sum            uint64
}

func optZ(p *int64) string {
	if p == nil {
		return "None"
	}
	return fmt.Sprintf("(Some %s)", coqZ(*p))
}
func (b *c04Blk) coq() string {
	if b == nil {
		return "None"
	}
	return fmt.Sprintf("(Some (%d,%d,%s))", b.szx, b.num, coqBool(b.more))
}
func (p *c04PM) coq() string {
	var o []string
	for _, x := range p.other {
		o = append(o, fmt.Sprintf("(%d,%d)", x[0], x[1]))
	}
	return fmt.Sprintf("(PM %d %s %s %s %s %s %s %s [%s] %d %d)", p.code, coqZ(p.tok), p.b1.coq(), p.b2.coq(),
		optZ(p.s1), optZ(p.s2), optZ(p.et), optZ(p.ob), strings.Join(o, ";"), p.length, p.sum)
}

type c04Obs struct {
	side  int
	in    *c04PM
	wire  *c04PM
	toB   bool
	deliv []*c04PM
	nerr  int
	ret   [][2]int
	sizes [4]int
	bad   int
}

func (o *c04Obs) coq() string {
	in := "None"
	if o.in != nil {
		in = "(Some " + o.in.coq() + ")"
	}
	wire := "None"
	if o.wire != nil {
		wire = fmt.Sprintf("(Some (%s,%s))", coqBool(o.toB), o.wire.coq())
	}
	var d, r []string
	for _, x := range o.deliv {
		d = append(d, x.coq())
	}
	for _, x := range o.ret {
		r = append(r, fmt.Sprintf("(%d,%d)", x[0], x[1]))
	}
	return fmt.Sprintf("Ob %d %s %s [%s] %d [%s] [%d;%d;%d;%d] %d", o.side, in, wire, strings.Join(d, ";"), o.nerr,
		strings.Join(r, ";"), o.sizes[0], o.sizes[1], o.sizes[2], o.sizes[3], o.bad)
}

// ---- the two endpoints ----

type c04Client struct{ p *pool.Pool }

func (c *c04Client) AcquireMessage(ctx context.Context) *pool.Message { return c.p.AcquireMessage(ctx) }
func (c *c04Client) ReleaseMessage(m *pool.Message)                   { c.p.ReleaseMessage(m) }

type c04Side struct {
	bw  *blockwise.BlockWise[*c04Client]
	cl  *c04Client
	szx blockwise.SZX
	max uint32
}

type c04Flight struct {
	toB  bool
	data []byte
	// queued wire (cfg.lazy): the message object, not yet serialised; pm is the projection the observation
	// of the emitting event points to (filled in when the message is serialised); owner is the pending Do
	// whose callback holds the message (it has to be serialised before that callback returns)
	msg   *pool.Message
	pm    *c04PM
	owner *c04Pending
}
type c04First struct {
	data []byte
	msg  *pool.Message
}
type c04DoResult struct {
	msg *pool.Message
	err error
}
type c04Pending struct {
	idx   int
	tok   int
	first chan c04First
	resp  chan c04DoResult
	done  chan error
}

const c04Expiration = time.Hour

var errC04Timeout = errors.New("timeout")

type c04World struct {
	cfg     *c04Cfg
	a, b    *c04Side
	as      []*c04Side // the BlockWise instances of peer A (one unless cfg.split); a = as[0]
	toks    []int      // distinct tokens of the configuration, in order of first use
	flight  []*c04Flight
	hist    []*c04Flight
	vers    map[int]int
	pending []*c04Pending
	fresh   map[string]int64
	aged    time.Duration // virtual time that has passed ('A' events)
	// collected while one event runs
	curDeliv  []*c04PM
	curErr    int
	curDone   []*c04Pending
	curResp   map[int]*pool.Message
	blockSeen bool
}

// c04Ctx: the context of a request the application started with context.WithTimeout(d), under the virtual
// clock: 'A' events move what the caches hold into the past (VerifShiftDeadlines), so a deadline read NOW is
// the real instant start+d moved back by the virtual time that has passed since the start. It never fires
// (the harness ends a Do by its 'T' event).
type c04Ctx struct {
	w           *c04World
	base        time.Time
	agedAtStart time.Duration
}

func (c *c04Ctx) Deadline() (time.Time, bool) { return c.base.Add(-(c.w.aged - c.agedAtStart)), true }
func (c *c04Ctx) Done() <-chan struct{}       { return nil }
func (c *c04Ctx) Err() error                  { return nil }
func (c *c04Ctx) Value(any) any               { return nil }

// c04Paged: an io.ReadSeeker over data kept in fixed-size pages; a Read stops at the page boundary
type c04Paged struct {
	data []byte
	page int
	pos  int64
}

func (p *c04Paged) Read(b []byte) (int, error) {
	if p.pos >= int64(len(p.data)) {
		return 0, io.EOF
	}
	end := (p.pos/int64(p.page) + 1) * int64(p.page)
	if end > int64(len(p.data)) {
		end = int64(len(p.data))
	}
	n := copy(b, p.data[p.pos:end])
	p.pos += int64(n)
	return n, nil
}

func (p *c04Paged) Seek(offset int64, whence int) (int64, error) {
	var abs int64
	switch whence {
	case io.SeekStart:
		abs = offset
	case io.SeekCurrent:
		abs = p.pos + offset
	case io.SeekEnd:
		abs = int64(len(p.data)) + offset
	default:
		return 0, errors.New("invalid whence")
	}
	if abs < 0 {
		return 0, errors.New("negative position")
	}
	p.pos = abs
	return abs, nil
}

// body: how an application hands a body to the library
func (w *c04World) body(data []byte) io.ReadSeeker {
	if w.cfg.page > 0 {
		return &c04Paged{data: data, page: w.cfg.page}
	}
	return bytes.NewReader(data)
}

func newC04World(cfg *c04Cfg) *c04World {
	w := &c04World{cfg: cfg, vers: map[int]int{}, fresh: map[string]int64{}}
	mk := func(szx, max int, outside func(message.Token) (*pool.Message, bool)) *c04Side {
		cl := &c04Client{p: pool.New(100, 2048)}
		s := &c04Side{cl: cl, szx: blockwise.SZX(szx), max: uint32(max)}
		s.bw = blockwise.New(cl, c04Expiration, func(error) { w.curErr++ }, outside)
		return s
	}
	for _, x := range cfg.exch {
		known := false
		for _, t := range w.toks {
			known = known || t == x.tok
		}
		if !known {
			w.toks = append(w.toks, x.tok)
		}
	}
	outsideA := func(tok message.Token) (*pool.Message, bool) {
		name, ok := c04TokName(tok)
		if !ok {
			return nil, false
		}
		for _, o := range cfg.outside {
			if o[0] == name {
				m := w.a.cl.AcquireMessage(context.Background())
				m.SetCode(codes.GET)
				m.SetToken(tok)
				m.SetObserve(0)
				m.SetOptionBytes(message.URIPath, []byte{byte(o[1])})
				return m, true
			}
		}
		return nil, false
	}
	na := 1
	if cfg.split && len(w.toks) > 1 {
		na = len(w.toks)
	}
	for i := 0; i < na; i++ {
		w.as = append(w.as, mk(cfg.szxA, cfg.maxA, outsideA))
	}
	w.a = w.as[0]
	w.b = mk(cfg.szxB, cfg.maxB, nil)
	return w
}

// aFor: the BlockWise of peer A that runs the transfers of this token
func (w *c04World) aFor(tok message.Token) *c04Side {
	if len(w.as) == 1 {
		return w.a
	}
	if name, ok := c04TokName(tok); ok {
		for i, t := range w.toks {
			if t == name {
				return w.as[i%len(w.as)]
			}
		}
	}
	return w.a
}

func (w *c04World) tokName(t message.Token) int64 {
	if name, ok := c04TokName(t); ok {
		return int64(name)
	}
	k := string(t)
	if v, ok := w.fresh[k]; ok {
		return v
	}
	v := int64(1000 + len(w.fresh))
	w.fresh[k] = v
	return v
}

func beVal(b []byte) int64 {
	v := int64(0)
	for _, x := range b {
		v = v*256 + int64(x)
	}
	return v
}

func (w *c04World) project(m *pool.Message) *c04PM {
	p := &c04PM{code: int64(m.Code()), tok: w.tokName(m.Token())}
	for _, o := range m.Options() {
		v := beVal(o.Value)
		switch o.ID {
		case message.Block1, message.Block2:
			szx, num, more, err := blockwise.DecodeBlockOption(uint32(v))
			b := &c04Blk{int64(szx), num, more}
			if err != nil {
				b = &c04Blk{-1, v, false}
			}
			if o.ID == message.Block1 {
				p.b1 = b
			} else {
				p.b2 = b
			}
			w.blockSeen = true
		case message.Size1:
			x := v
			p.s1 = &x
		case message.Size2:
			x := v
			p.s2 = &x
		case message.ETag:
			x := v
			p.et = &x
		case message.Observe:
			x := v
			p.ob = &x
		default:
			p.other = append(p.other, [2]int64{int64(o.ID), v})
		}
	}
	body, err := m.ReadBody()
	if err != nil {
		p.length = -1
	} else {
		p.length = len(body)
		p.sum = csum(body)
	}
	return p
}

func c04Marshal(m *pool.Message) ([]byte, error) {
	d, err := m.MarshalWithEncoder(tcpcoder.DefaultCoder)
	if err != nil {
		return nil, err
	}
	return append([]byte(nil), d...), nil
}

func c04Unmarshal(data []byte) (*pool.Message, error) {
	m := pool.NewMessage(context.Background())
	_, err := m.UnmarshalWithDecoder(tcpcoder.DefaultCoder, append([]byte(nil), data...))
	return m, err
}

func (w *c04World) emit(toB bool, data []byte) *c04PM {
	f := &c04Flight{toB: toB, data: data}
	w.flight = append(w.flight, f)
	w.hist = append(w.hist, f)
	m, err := c04Unmarshal(data)
	if err != nil {
		return &c04PM{code: -1, length: -1}
	}
	return w.project(m)
}

// emitLazy queues the message object; its bytes are taken when the network first touches it
func (w *c04World) emitLazy(toB bool, m *pool.Message, owner *c04Pending) *c04PM {
	f := &c04Flight{toB: toB, msg: m, pm: &c04PM{}, owner: owner}
	w.flight = append(w.flight, f)
	w.hist = append(w.hist, f)
	// private tokens are named in the order in which they are drawn, not in the order of serialisation
	w.tokName(m.Token())
	return f.pm
}

func (w *c04World) materialise(f *c04Flight) {
	if f.msg == nil {
		return
	}
	m := f.msg
	f.msg, f.owner = nil, nil
	var d []byte
	var err error
	if c04Guarded(func() { d, err = c04Marshal(m) }) != 0 || err != nil {
		*f.pm = c04PM{code: -1, length: -1}
		return
	}
	f.data = d
	um, errU := c04Unmarshal(d)
	if errU != nil {
		*f.pm = c04PM{code: -1, length: -1}
		return
	}
	*f.pm = *w.project(um)
}

// materialiseOwned serialises what the callback of a pending Do still holds, before that callback returns
func (w *c04World) materialiseOwned(pd *c04Pending) {
	for _, f := range w.hist {
		if f.owner == pd {
			w.materialise(f)
		}
	}
}

func (w *c04World) materialiseAll() {
	for _, f := range w.hist {
		w.materialise(f)
	}
}

func (w *c04World) sizes() [4]int {
	sa, ra := 0, 0
	for _, s := range w.as {
		x, y := s.bw.VerifTableSizes()
		sa, ra = sa+x, ra+y
	}
	sb, rb := w.b.bw.VerifTableSizes()
	return [4]int{sa, ra, sb, rb}
}

// guarded runs f under recover and a watchdog: 0 ok, 1 panic, 2 hang
func c04Guarded(f func()) int {
	done := make(chan int, 1)
	go func() {
		defer func() {
			if r := recover(); r != nil {
				done <- 1
			}
		}()
		f()
		done <- 0
	}()
	select {
	case r := <-done:
		return r
	case <-time.After(20 * time.Second):
		return 2
	}
}

func c04RespCode(c codes.Code) codes.Code {
	switch c {
	case codes.GET:
		return codes.Content
	case codes.POST:
		return codes.Changed
	case codes.PUT:
		return codes.Created
	}
	return codes.Deleted
}

// application of B: answers requests for a known resource with its current representation
func (w *c04World) appB(rw *responsewriter.ResponseWriter[*c04Client], r *pool.Message) {
	w.curDeliv = append(w.curDeliv, w.project(r))
	if r.Code() < codes.GET || r.Code() > codes.DELETE {
		return
	}
	pv, err := r.GetOptionBytes(message.URIPath)
	if err != nil || len(pv) != 1 || int(pv[0]) >= len(w.cfg.res) {
		return
	}
	k := int(pv[0])
	res := w.cfg.res[k]
	v := w.vers[k]
	var opts []message.Option
	if res.etag {
		opts = append(opts, message.Option{ID: message.ETag, Value: []byte{byte(v + 1)}})
	}
	_ = rw.SetResponse(c04RespCode(r.Code()), message.MediaType(res.cf), w.body(res.body(v)), opts...)
}

// application of A: consumes; a pending Do waiting for this token gets its response
func (w *c04World) appA(_ *responsewriter.ResponseWriter[*c04Client], r *pool.Message) {
	p := w.project(r)
	w.curDeliv = append(w.curDeliv, p)
	for _, pd := range w.pending {
		if int64(pd.tok) == p.tok {
			already := false
			for _, d := range w.curDone {
				if d == pd {
					already = true
				}
			}
			if !already {
				w.curDone = append(w.curDone, pd)
				body, _ := r.ReadBody()
				cp := pool.NewMessage(context.Background())
				cp.SetCode(r.Code())
				cp.SetToken(r.Token())
				cp.ResetOptionsTo(r.Options())
				if len(body) > 0 {
					cp.SetBody(bytes.NewReader(append([]byte(nil), body...)))
				}
				w.curResp[pd.idx] = cp
			}
		}
	}
}

// arrive hands one wire message to Handle of its destination
func (w *c04World) arrive(f *c04Flight) *c04Obs {
	o := &c04Obs{side: 0}
	w.materialise(f)
	s := w.a
	next := w.appA
	if f.toB {
		o.side = 1
		s = w.b
		next = w.appB
	}
	w.curDeliv, w.curErr, w.curDone, w.curResp = nil, 0, nil, map[int]*pool.Message{}
	r, err := c04Unmarshal(f.data)
	if err != nil {
		o.bad = 1
		return o
	}
	o.in = w.project(r)
	if !f.toB {
		s = w.aFor(r.Token())
	}
	var out []byte
	var outMsg *pool.Message
	o.bad = c04Guarded(func() {
		orig := s.cl.AcquireMessage(context.Background())
		orig.SetToken(r.Token())
		rw := responsewriter.New(orig, s.cl, r.Options()...)
		s.bw.Handle(rw, r, s.szx, s.max, next)
		if rw.Message().IsModified() {
			if w.cfg.lazy {
				outMsg = rw.Message()
				return
			}
			d, errM := c04Marshal(rw.Message())
			if errM != nil {
				panic(errM)
			}
			out = d
		}
	})
	o.deliv = w.curDeliv
	o.nerr = w.curErr
	if o.bad != 0 {
		return o
	}
	// pending Do calls whose response arrived return now (in the order they were started)
	var still []*c04Pending
	for _, pd := range w.pending {
		hit := false
		for _, d := range w.curDone {
			if d == pd {
				hit = true
			}
		}
		if !hit {
			still = append(still, pd)
			continue
		}
		w.materialiseOwned(pd)
		pd.resp <- c04DoResult{w.curResp[pd.idx], nil}
		select {
		case <-pd.done:
			o.ret = append(o.ret, [2]int{pd.idx, 0})
		case <-time.After(20 * time.Second):
			o.bad = 2
			return o
		}
	}
	w.pending = still
	if outMsg != nil {
		o.toB = !f.toB
		o.wire = w.emitLazy(o.toB, outMsg, nil)
	} else if out != nil {
		o.toB = !f.toB
		o.wire = w.emit(o.toB, out)
	}
	o.sizes = w.sizes()
	return o
}

func (w *c04World) request(x c04Exch) *pool.Message {
	var ctx context.Context = context.Background()
	if x.dl > 0 {
		ctx = &c04Ctx{w: w, base: time.Now().Add(time.Duration(x.dl) * time.Second), agedAtStart: w.aged}
	}
	m := pool.NewMessage(ctx)
	m.SetCode(codes.Code(x.code))
	m.SetToken(c04TokBytes(x.tok))
	m.SetOptionBytes(message.URIPath, []byte{byte(x.path)})
	if x.length > 0 {
		m.SetBody(w.body(genBody(x.salt, x.length)))
	}
	return m
}

func (w *c04World) notification(x c04Exch) *pool.Message {
	res := c04Res{}
	if x.path < len(w.cfg.res) {
		res = w.cfg.res[x.path]
	}
	v := w.vers[x.path]
	m := pool.NewMessage(context.Background())
	m.SetCode(codes.Code(x.code))
	m.SetToken(c04TokBytes(x.tok))
	if res.etag {
		m.SetOptionBytes(message.ETag, []byte{byte(v + 1)})
	}
	if x.obs >= 0 {
		m.SetObserve(uint32(x.obs))
	}
	m.SetContentFormat(message.MediaType(res.cf))
	m.SetBody(w.body(res.body(v)))
	return m
}

func (w *c04World) start(i int) *c04Obs {
	o := &c04Obs{side: 2}
	if i < 0 || i >= len(w.cfg.exch) {
		o.sizes = w.sizes()
		return o
	}
	x := w.cfg.exch[i]
	w.curErr = 0
	switch x.kind {
	case 0:
		pd := &c04Pending{idx: i, tok: x.tok, first: make(chan c04First, 1), resp: make(chan c04DoResult, 1), done: make(chan error, 1)}
		req := w.request(x)
		sa := w.aFor(req.Token())
		go func() {
			defer func() {
				if r := recover(); r != nil {
					pd.done <- fmt.Errorf("panic: %v", r)
				}
			}()
			_, err := sa.bw.Do(req, sa.szx, sa.max, func(bwReq *pool.Message) (*pool.Message, error) {
				if w.cfg.lazy {
					// the request stays with this callback until the response (or the time-out) arrives;
					// the wire takes its bytes when it first touches it, at the latest before this returns
					pd.first <- c04First{msg: bwReq}
				} else {
					d, errM := c04Marshal(bwReq)
					if errM != nil {
						return nil, errM
					}
					pd.first <- c04First{data: d}
				}
				r := <-pd.resp
				return r.msg, r.err
			})
			pd.done <- err
		}()
		select {
		case d := <-pd.first:
			w.pending = append(w.pending, pd)
			o.toB = true
			if d.msg != nil {
				o.wire = w.emitLazy(true, d.msg, pd)
			} else {
				o.wire = w.emit(true, d.data)
			}
		case err := <-pd.done:
			if err != nil && strings.HasPrefix(err.Error(), "panic:") {
				o.bad = 1
			}
			o.ret = append(o.ret, [2]int{i, 1})
		case <-time.After(20 * time.Second):
			o.bad = 2
		}
	default:
		s, toB := w.a, true
		var req *pool.Message
		if x.kind == 1 {
			req = w.request(x)
			s = w.aFor(req.Token())
		} else {
			s, toB = w.b, false
			req = w.notification(x)
		}
		var out []byte
		var err error
		o.bad = c04Guarded(func() {
			err = s.bw.WriteMessage(req, s.szx, s.max, func(r *pool.Message) error {
				d, errM := c04Marshal(r)
				out = d
				return errM
			})
		})
		if err != nil {
			o.ret = append(o.ret, [2]int{i, 1})
		} else {
			o.ret = append(o.ret, [2]int{i, 0})
			if out != nil {
				o.toB = toB
				o.wire = w.emit(toB, out)
			}
		}
	}
	o.nerr = w.curErr
	o.sizes = w.sizes()
	return o
}

func (w *c04World) timeout(i int) *c04Obs {
	o := &c04Obs{side: 2}
	var still []*c04Pending
	for _, pd := range w.pending {
		if pd.idx != i {
			still = append(still, pd)
			continue
		}
		w.materialiseOwned(pd)
		pd.resp <- c04DoResult{nil, errC04Timeout}
		select {
		case <-pd.done:
			o.ret = append(o.ret, [2]int{i, 2})
		case <-time.After(20 * time.Second):
			o.bad = 2
		}
	}
	w.pending = still
	o.sizes = w.sizes()
	return o
}

func removeAt(f []*c04Flight, j int) []*c04Flight {
	r := append([]*c04Flight(nil), f[:j]...)
	return append(r, f[j+1:]...)
}

func (w *c04World) apply(e c04Ev) *c04Obs {
	quiet := func() *c04Obs { return &c04Obs{side: 2, sizes: w.sizes()} }
	switch e.op {
	case 'S':
		return w.start(e.arg)
	case 'D':
		if e.arg >= len(w.flight) {
			return quiet()
		}
		f := w.flight[e.arg]
		w.flight = removeAt(w.flight, e.arg)
		return w.arrive(f)
	case 'U':
		if e.arg >= len(w.flight) {
			return quiet()
		}
		return w.arrive(w.flight[e.arg])
	case 'X':
		if e.arg < len(w.flight) {
			w.materialise(w.flight[e.arg])
			w.flight = removeAt(w.flight, e.arg)
		}
		return quiet()
	case 'R':
		if e.arg >= len(w.hist) {
			return quiet()
		}
		return w.arrive(w.hist[e.arg])
	case 'B':
		w.vers[e.arg]++
		return quiet()
	case 'T':
		return w.timeout(e.arg)
	case 'E':
		for _, s := range w.sidesOf(e.arg) {
			s.bw.CheckExpirations(time.Now().Add(2 * c04Expiration))
		}
		return quiet()
	case 'A':
		// virtual time: instead of waiting, the deadlines of everything both endpoints hold move into the past
		d := time.Duration(e.arg) * time.Second
		if d > 0 {
			w.aged += d
			for _, s := range w.as {
				s.bw.VerifShiftDeadlines(d)
			}
			w.b.bw.VerifShiftDeadlines(d)
		}
		return quiet()
	case 'W':
		for _, s := range w.sidesOf(e.arg) {
			s.bw.CheckExpirations(time.Now())
		}
		return quiet()
	}
	return quiet()
}

func (w *c04World) sidesOf(arg int) []*c04Side {
	if arg == 1 {
		return []*c04Side{w.b}
	}
	return w.as
}

// release lets goroutines of Do calls that are still pending end
func (w *c04World) release() {
	w.materialiseAll()
	for _, pd := range w.pending {
		pd.resp <- c04DoResult{nil, errC04Timeout}
	}
	w.pending = nil
}

// ---- scenario text ----

func (e c04Ev) coq() string {
	switch e.op {
	case 'S':
		return fmt.Sprintf("Ev (Start %d)", e.arg)
	case 'D':
		return fmt.Sprintf("Ev (Deliver %d)", e.arg)
	case 'U':
		return fmt.Sprintf("Ev (Dup %d)", e.arg)
	case 'X':
		return fmt.Sprintf("Ev (Drop %d)", e.arg)
	case 'R':
		return fmt.Sprintf("Ev (Replay %d)", e.arg)
	case 'B':
		return fmt.Sprintf("Ev (Bump %d)", e.arg)
	case 'T':
		return fmt.Sprintf("Ev (Timeout %d)", e.arg)
	case 'A':
		return fmt.Sprintf("Age %d", e.arg)
	case 'W':
		return fmt.Sprintf("Sweep %s", coqBool(e.arg == 1))
	}
	return fmt.Sprintf("Ev (Expire %s)", coqBool(e.arg == 1))
}

func (c *c04Cfg) coq() string {
	var xs, rs, os []string
	for _, x := range c.exch {
		ob := "None"
		if x.obs >= 0 {
			ob = fmt.Sprintf("(Some %d)", x.obs)
		}
		xs = append(xs, fmt.Sprintf("X %d %d %d %d %d %d %s", x.kind, x.code, x.tok, x.path, x.salt, x.length, ob))
	}
	for _, r := range c.res {
		rs = append(rs, fmt.Sprintf("R %d %d %s %d", r.salt, r.length, coqBool(r.etag), r.cf))
	}
	for _, o := range c.outside {
		os = append(os, fmt.Sprintf("(%d,%d)", o[0], o[1]))
	}
	return fmt.Sprintf("(Cfg %d %d %d %d [%s] [%s] [%s])", c.szxA, c.maxA, c.szxB, c.maxB,
		strings.Join(xs, "; "), strings.Join(rs, "; "), strings.Join(os, "; "))
}

// descriptor: re-parsable one-line form of configuration + script
func c04Desc(c *c04Cfg, evs []c04Ev) string {
	var sb strings.Builder
	head := "c04"
	if c.lazy {
		head += "q"
	}
	if c.split {
		head += "s"
	}
	fmt.Fprintf(&sb, "%s %d %d %d %d", head, c.szxA, c.maxA, c.szxB, c.maxB)
	if c.page > 0 {
		fmt.Fprintf(&sb, " pg%d", c.page)
	}
	sb.WriteString(" |")
	for _, x := range c.exch {
		fmt.Fprintf(&sb, " x%d,%d,%d,%d,%d,%d,%d", x.kind, x.code, x.tok, x.path, x.salt, x.length, x.obs)
		if x.dl > 0 {
			fmt.Fprintf(&sb, ",%d", x.dl)
		}
	}
	sb.WriteString(" |")
	for _, r := range c.res {
		e := 0
		if r.etag {
			e = 1
		}
		fmt.Fprintf(&sb, " r%d,%d,%d,%d", r.salt, r.length, e, r.cf)
	}
	sb.WriteString(" |")
	for _, o := range c.outside {
		fmt.Fprintf(&sb, " o%d,%d", o[0], o[1])
	}
	sb.WriteString(" |")
	for _, e := range evs {
		fmt.Fprintf(&sb, " %c%d", e.op, e.arg)
	}
	return sb.String()
}

func c04ParseDesc(s string) (*c04Cfg, []c04Ev, error) {
	parts := strings.Split(s, "|")
	if len(parts) != 5 {
		return nil, nil, fmt.Errorf("bad descriptor")
	}
	ints := func(t string) []int {
		var r []int
		for _, f := range strings.Split(t, ",") {
			v, _ := strconv.Atoi(f)
			r = append(r, v)
		}
		return r
	}
	h := strings.Fields(parts[0])
	if len(h) != 5 && len(h) != 6 {
		return nil, nil, fmt.Errorf("bad descriptor head")
	}
	c := &c04Cfg{}
	if len(h) == 6 {
		if !strings.HasPrefix(h[5], "pg") {
			return nil, nil, fmt.Errorf("bad descriptor head")
		}
		c.page, _ = strconv.Atoi(h[5][2:])
	}
	switch h[0] {
	case "c04":
	case "c04q":
		c.lazy = true
	case "c04s":
		c.split = true
	case "c04qs":
		c.lazy, c.split = true, true
	default:
		return nil, nil, fmt.Errorf("bad descriptor head")
	}
	c.szxA, _ = strconv.Atoi(h[1])
	c.maxA, _ = strconv.Atoi(h[2])
	c.szxB, _ = strconv.Atoi(h[3])
	c.maxB, _ = strconv.Atoi(h[4])
	for _, f := range strings.Fields(parts[1]) {
		v := ints(f[1:])
		if len(v) < 7 {
			return nil, nil, fmt.Errorf("bad exchange in descriptor")
		}
		x := c04Exch{kind: v[0], code: v[1], tok: v[2], path: v[3], salt: v[4], length: v[5], obs: v[6]}
		if len(v) > 7 {
			x.dl = v[7]
		}
		c.exch = append(c.exch, x)
	}
	for _, f := range strings.Fields(parts[2]) {
		v := ints(f[1:])
		c.res = append(c.res, c04Res{v[0], v[1], v[2] == 1, v[3]})
	}
	for _, f := range strings.Fields(parts[3]) {
		v := ints(f[1:])
		c.outside = append(c.outside, [2]int{v[0], v[1]})
	}
	var evs []c04Ev
	for _, f := range strings.Fields(parts[4]) {
		a, _ := strconv.Atoi(f[1:])
		evs = append(evs, c04Ev{f[0], a})
	}
	return c, evs, nil
}

// ---- running a scenario ----

// a policy picks the next event from what is visible; ok=false ends the script
type c04Policy func(w *c04World, step int) (c04Ev, bool)

var c04OneP bool

type c04Result struct {
	evs       []c04Ev
	obs       []*c04Obs
	blockwise bool
	completed int
	failed    bool
}

func c04Run(cfg *c04Cfg, pol c04Policy) *c04Result {
	if cfg.lazy && !c04OneP {
		// queued wire: one scheduler context (see c04WithOneP), also when a single case is replayed
		var r *c04Result
		c04OneP = true
		c04WithOneP(func() { r = c04Run(cfg, pol) })
		c04OneP = false
		return r
	}
	w := newC04World(cfg)
	res := &c04Result{}
	for step := 0; step < 400; step++ {
		e, ok := pol(w, step)
		if !ok {
			break
		}
		o := w.apply(e)
		res.evs = append(res.evs, e)
		res.obs = append(res.obs, o)
		for _, r := range o.ret {
			if r[1] == 0 {
				res.completed++
			}
		}
		if o.bad != 0 {
			res.failed = true
			break
		}
	}
	w.release()
	res.blockwise = w.blockSeen
	return res
}

func c04Explicit(evs []c04Ev) c04Policy {
	return func(_ *c04World, step int) (c04Ev, bool) {
		if step < len(evs) {
			return evs[step], true
		}
		return c04Ev{}, false
	}
}

// fault kinds of the scripted network
const (
	fDup = iota
	fDrop
	fReorder
	fReplay0 // replay the most recent message
	fReplay1
	fReplay2
	fReplay3
	fBump
	fExpireA
	fExpireB
	nFaultKinds
)

var c04FaultNames = []string{"dup", "drop", "reorder", "replay0", "replay1", "replay2", "replay3", "bump", "expireA", "expireB"}

type c04Fault struct{ pos, kind int }

// c04Scripted: start all exchanges, then deliver in FIFO order, applying fault
// f.kind instead of the f.pos-th network step; when nothing is in flight the
// remaining faults are applied at once; the epilogue times out every pending Do
// and sweeps both sides.
func c04Scripted(cfg *c04Cfg, faults []c04Fault) c04Policy {
	phase, netStep, epi := 0, 0, 0
	fs := append([]c04Fault(nil), faults...)
	sort.SliceStable(fs, func(i, j int) bool { return fs[i].pos < fs[j].pos })
	var epilogue []c04Ev
	return func(w *c04World, _ int) (c04Ev, bool) {
		if phase < len(cfg.exch) {
			phase++
			return c04Ev{'S', phase - 1}, true
		}
		for netStep < 120 {
			var f *c04Fault
			if len(fs) > 0 && (fs[0].pos <= netStep || len(w.flight) == 0) {
				f = &fs[0]
				fs = fs[1:]
			}
			if f == nil && len(w.flight) == 0 {
				break
			}
			netStep++
			if f == nil {
				return c04Ev{'D', 0}, true
			}
			switch f.kind {
			case fDup:
				if len(w.flight) > 0 {
					return c04Ev{'U', 0}, true
				}
			case fDrop:
				if len(w.flight) > 0 {
					return c04Ev{'X', 0}, true
				}
			case fReorder:
				if len(w.flight) > 1 {
					return c04Ev{'D', 1}, true
				}
			case fReplay0, fReplay1, fReplay2, fReplay3:
				h := len(w.hist) - 1 - (f.kind - fReplay0)
				if h >= 0 {
					return c04Ev{'R', h}, true
				}
			case fBump:
				return c04Ev{'B', 0}, true
			case fExpireA:
				return c04Ev{'E', 0}, true
			case fExpireB:
				return c04Ev{'E', 1}, true
			}
			netStep-- // fault not applicable here: skip it
		}
		if epilogue == nil {
			for i, x := range cfg.exch {
				if x.kind == 0 {
					epilogue = append(epilogue, c04Ev{'T', i})
				}
			}
			epilogue = append(epilogue, c04Ev{'E', 0}, c04Ev{'E', 1})
		}
		if epi < len(epilogue) {
			epi++
			return epilogue[epi-1], true
		}
		return c04Ev{}, false
	}
}

// c04Random: random interleaving of starts, deliveries (any in-flight index) and faults
func c04Random(cfg *c04Cfg, rng *Rng, faultPct int, canBump bool) c04Policy {
	started, n, epi := 0, 0, 0
	// time passes only in scenarios without B-initiated Observe notifications: when the state of the private
	// re-fetch of a block-wise notification expires half-way, a late block is still paired with the expired
	// request (getSentRequest does not look at deadlines) and the re-assembled notification is handed over
	// under the private token (observation O5 in notes/C04.md, replayable history there)
	allowTime := true
	for _, x := range cfg.exch {
		if x.kind == 2 {
			allowTime = false
		}
	}
	var epilogue []c04Ev
	return func(w *c04World, _ int) (c04Ev, bool) {
		for n < 90 {
			n++
			if started < len(cfg.exch) && (len(w.flight) == 0 || rng.Chance(35)) {
				started++
				return c04Ev{'S', started - 1}, true
			}
			if len(w.flight) == 0 {
				if len(w.hist) > 0 && rng.Chance(faultPct) {
					return c04Ev{'R', rng.Intn(len(w.hist))}, true
				}
				if started >= len(cfg.exch) {
					break
				}
				continue
			}
			j := 0
			if rng.Chance(40) {
				j = rng.Intn(len(w.flight))
			}
			if !rng.Chance(faultPct) {
				return c04Ev{'D', j}, true
			}
			switch rng.Intn(7) {
			case 6:
				// virtual time: age (short of / beyond the deadline) or sweep now
				if !allowTime {
					return c04Ev{'D', j}, true
				}
				if rng.Chance(60) {
					return c04Ev{'A', c04AgeSteps[rng.Intn(len(c04AgeSteps))]}, true
				}
				return c04Ev{'W', rng.Intn(2)}, true
			case 0:
				return c04Ev{'U', j}, true
			case 1:
				return c04Ev{'X', j}, true
			case 2, 3:
				return c04Ev{'R', rng.Intn(len(w.hist))}, true
			case 4:
				if canBump {
					return c04Ev{'B', 0}, true
				}
				return c04Ev{'D', len(w.flight) - 1}, true
			default:
				if rng.Chance(50) {
					return c04Ev{'E', rng.Intn(2)}, true
				}
				return c04Ev{'D', len(w.flight) - 1}, true
			}
		}
		if epilogue == nil {
			for i, x := range cfg.exch {
				if x.kind == 0 {
					epilogue = append(epilogue, c04Ev{'T', i})
				}
			}
			epilogue = append(epilogue, c04Ev{'E', 0}, c04Ev{'E', 1})
		}
		if epi < len(epilogue) {
			epi++
			return epilogue[epi-1], true
		}
		return c04Ev{}, false
	}
}

func c04Emit(e *Emitter, cfg *c04Cfg, r *c04Result, buckets ...string) {
	var es, os []string
	for _, x := range r.evs {
		es = append(es, x.coq())
	}
	bytesMoved := 0
	for _, o := range r.obs {
		os = append(os, o.coq())
		if o.in != nil && o.in.length > 0 {
			bytesMoved += o.in.length
		}
		if o.wire != nil && o.wire.length > 0 {
			bytesMoved += o.wire.length
		}
		for _, d := range o.deliv {
			if d.length > 0 {
				bytesMoved += d.length
			}
		}
	}
	coq := fmt.Sprintf("Case %s\n   [%s]\n   [%s]", cfg.coq(), strings.Join(es, "; "), strings.Join(os, ";\n    "))
	var dls []string
	for i, x := range cfg.exch {
		if x.dl > 0 {
			dls = append(dls, fmt.Sprintf("(%d%%nat,%d)", i, x.dl))
		}
	}
	if len(dls) > 0 {
		coq = fmt.Sprintf("CaseD %s [%s]\n   [%s]\n   [%s]", cfg.coq(), strings.Join(dls, ";"), strings.Join(es, "; "), strings.Join(os, ";\n    "))
		buckets = append(buckets, "request-deadline")
	}
	if cfg.page > 0 {
		buckets = append(buckets, "paged-bodies")
	}
	if r.completed > 0 {
		buckets = append(buckets, "some-call-returned-ok")
	} else {
		buckets = append(buckets, "no-call-returned-ok")
	}
	if r.blockwise {
		buckets = append(buckets, "blockwise")
	}
	weight := 1 + len(r.evs)/6 + bytesMoved/800
	e.AddW(coq, c04Desc(cfg, r.evs), r.blockwise, weight, buckets...)
}

// ---- generators ----

func c04Sizes(s int) []int { return []int{0, 1, s - 1, s, s + 1, 2*s - 1, 2 * s, 2*s + 1, 3*s + 5} }

func c04SzxSize(szx int) int {
	if szx >= 6 {
		return 1024
	}
	return 16 << uint(szx)
}

func min2(a, b int) int {
	if a < b {
		return a
	}
	return b
}

// c04Base builds a one-exchange configuration. flavour: 0 Do POST (upload n, small
// response), 1 Do GET (download n), 2 Do PUT (upload n and download n), 3 one-way
// write of a POST by A, 4 one-way notification by B (Observe, ETag, A has the
// observation registered), 5 one-way Content without Observe for a token A knows,
// 6 one-way notification for a token A does not know
func c04Base(flavour, szxA, maxA, szxB, maxB, n int) *c04Cfg {
	c := &c04Cfg{szxA: szxA, maxA: maxA, szxB: szxB, maxB: maxB}
	switch flavour {
	case 0:
		c.exch = []c04Exch{{0, 2, 7, 0, 5, n, -1, 0}}
		c.res = []c04Res{{11, 5, false, 42}}
	case 1:
		c.exch = []c04Exch{{0, 1, 8, 0, 0, 0, -1, 0}}
		c.res = []c04Res{{13, n, true, 50}}
	case 2:
		c.exch = []c04Exch{{0, 3, 9, 0, 6, n, -1, 0}}
		c.res = []c04Res{{17, n, true, 60}}
	case 3:
		c.exch = []c04Exch{{1, 2, 10, 0, 9, n, -1, 0}}
		c.res = []c04Res{{19, 3, false, 42}}
	case 4:
		c.exch = []c04Exch{{2, 69, 11, 0, 0, 0, 12, 0}}
		c.res = []c04Res{{23, n, true, 50}}
		c.outside = [][2]int{{11, 0}}
	case 5:
		c.exch = []c04Exch{{2, 69, 12, 0, 0, 0, -1, 0}}
		c.res = []c04Res{{29, n, true, 50}}
		c.outside = [][2]int{{12, 0}}
	default:
		c.exch = []c04Exch{{2, 69, 13, 0, 0, 0, 5, 0}}
		c.res = []c04Res{{31, n, false, 50}}
	}
	return c
}

var c04FlavourNames = []string{"do-post-upload", "do-get-download", "do-put-both", "write-request", "notify-observe", "write-response", "notify-unknown"}

func runC04(a runArgs) error {
	e := NewEmitter("C04", "Blockwise.Run")
	e.ShardSize = 260
	e.MaxBytes = 300000
	e.Rule = "a case = configuration (SZX/max message size of both sides, exchanges - a Do optionally with a request context deadline -, resources) + explicit event script (start/deliver/dup/drop/replay/bump/timeout/expire/age/sweep) run on two real blockwise.BlockWise instances joined by a marshalling relay (c04q: the relay queues message objects and serialises them when the network first touches them; c04s: peer A runs each token in a BlockWise of its own; pg<n>: the applications supply every body through an io.ReadSeeker with pages of n bytes, whose Read stops at page boundaries); distinct = distinct configuration+script; non-trivial = at least one wire message carried a Block1/Block2 option (a block-wise transfer actually took place)."
	if err := c04CheckTokTable(); err != nil {
		return err
	}
	if a.only != "" {
		cfg, evs, err := c04ParseDesc(a.only)
		if err != nil {
			return err
		}
		r := c04Run(cfg, c04Explicit(evs))
		c04Emit(e, cfg, r, "replay")
		return e.Flush(a.out)
	}
	rng := NewRng(a.seed)
	thorough := a.tier == "thorough"

	type pair struct{ a, ma, b, mb int }
	var pairs []pair
	small := []int{0, 1, 2}
	for _, x := range small {
		for _, y := range small {
			pairs = append(pairs, pair{x, 1152, y, 1152})
		}
	}
	pairs = append(pairs, pair{6, 1152, 6, 1152}, pair{5, 1152, 6, 1152}, pair{6, 1152, 3, 1152}, pair{3, 1152, 4, 1152},
		pair{7, 1152, 7, 1152}, pair{7, 2048, 7, 2048}, pair{7, 4096, 7, 4096}, pair{7, 2048, 6, 1152}, pair{6, 1152, 7, 4096})
	if thorough {
		pairs = append(pairs, pair{7, 4096, 7, 1152})
	}
	if thorough {
		for x := 0; x <= 7; x++ {
			for y := 0; y <= 7; y++ {
				if x <= 2 && y <= 2 {
					continue
				}
				pairs = append(pairs, pair{x, 1152, y, 1152})
				if x == 7 || y == 7 {
					pairs = append(pairs, pair{x, 2048, y, 2048}, pair{x, 4096, y, 4096})
				}
			}
		}
	}
	// (0) canonical histories of the findings (always run, both tiers)
	for _, d := range c04Canonical {
		cfg, evs, err := c04ParseDesc(d)
		if err != nil {
			return err
		}
		r := c04Run(cfg, c04Explicit(evs))
		c04Emit(e, cfg, r, "canonical")
	}
	// (1) fault-free grid: every flavour x size around the block boundaries x SZX pair
	for _, p := range pairs {
		s := c04SzxSize(min2(p.a, p.b))
		sizes := c04Sizes(s)
		if p.a != p.b {
			s2 := c04SzxSize(p.a)
			if s2 != s {
				sizes = append(sizes, s2-1, s2, s2+1)
			}
			s2 = c04SzxSize(p.b)
			if s2 != s {
				sizes = append(sizes, s2-1, s2, s2+1)
			}
		}
		if p.a == 7 || p.b == 7 {
			for _, m := range []int{p.ma, p.mb} {
				buf := m / 1024 * 1024
				sizes = append(sizes, buf-1, buf, buf+1, 2*buf, 2*buf+1, 3*buf+5)
			}
		}
		if s >= 512 && !thorough || s >= 256 && thorough {
			// the block boundaries only
			sizes = []int{0, s, s + 1, 2*s + 1, 3*s + 5}
			if p.a == 7 && p.b == 7 {
				buf := min2(p.ma, p.mb) / 1024 * 1024
				if buf > 1024 {
					sizes = []int{s, s + 1, buf, buf + 1, 2*buf + 1}
				}
			}
		}
		for fl := 0; fl <= 6; fl++ {
			if s >= 512 && fl >= 5 {
				continue
			}
			for _, n := range sizes {
				cfg := c04Base(fl, p.a, p.ma, p.b, p.mb, n)
				r := c04Run(cfg, c04Scripted(cfg, nil))
				c04Emit(e, cfg, r, "grid", c04FlavourNames[fl], fmt.Sprintf("szx-%d-%d", p.a, p.b), "faults-0")
			}
		}
	}
	// (2) one and two faults, exhaustively over (position, kind), on small bases
	type base struct{ fl, a, b, n int }
	single := []base{{0, 0, 0, 33}, {1, 0, 0, 33}, {2, 0, 0, 33}, {3, 0, 0, 33}, {4, 0, 0, 33}, {5, 0, 0, 37}, {6, 0, 0, 33},
		{0, 1, 0, 70}, {2, 0, 1, 53}, {1, 1, 0, 48}, {4, 0, 1, 40}, {0, 0, 0, 16}, {1, 0, 0, 16}, {2, 0, 0, 17}}
	double := []base{{2, 0, 0, 17}}
	if thorough {
		double = append(double, base{0, 0, 0, 37})
		single = append(single, base{0, 6, 6, 2049}, base{2, 7, 7, 3000}, base{1, 7, 6, 2500}, base{2, 1, 0, 50}, base{3, 0, 0, 40})
	}
	for _, b := range single {
		cfg := c04Base(b.fl, b.a, 1152, b.b, 1152, b.n)
		L := 1
		for _, ev := range c04Run(cfg, c04Scripted(cfg, nil)).evs {
			if ev.op == 'D' {
				L++
			}
		}
		for pos := 0; pos <= L; pos++ {
			for k := 0; k < nFaultKinds; k++ {
				r := c04Run(cfg, c04Scripted(cfg, []c04Fault{{pos, k}}))
				c04Emit(e, cfg, r, "faults-1", c04FlavourNames[b.fl], "fault-"+c04FaultNames[k])
			}
		}
	}
	for _, b := range double {
		cfg := c04Base(b.fl, b.a, 1152, b.b, 1152, b.n)
		L := 0 // number of network steps of the fault-free run
		for _, ev := range c04Run(cfg, c04Scripted(cfg, nil)).evs {
			if ev.op == 'D' {
				L++
			}
		}
		kinds := fBump // the seven network faults
		if thorough && b.n == 17 {
			kinds = nFaultKinds
		}
		for p1 := 0; p1 <= L; p1++ {
			for k1 := 0; k1 < kinds; k1++ {
				for p2 := p1; p2 <= L+1; p2++ {
					for k2 := 0; k2 < kinds; k2++ {
						if p1 == p2 && k2 < k1 {
							continue
						}
						r := c04Run(cfg, c04Scripted(cfg, []c04Fault{{p1, k1}, {p2, k2}}))
						c04Emit(e, cfg, r, "faults-2", c04FlavourNames[b.fl], "fault-"+c04FaultNames[k1], "fault-"+c04FaultNames[k2])
					}
				}
			}
		}
	}
	// (3) after a completed transfer, every message ever sent is replayed (one scenario each)
	for _, p := range pairs {
		if p.a > 1 || p.b > 1 {
			if !thorough || p.ma != 1152 {
				continue
			}
		}
		s := c04SzxSize(min2(p.a, p.b))
		for fl := 0; fl <= 4; fl++ {
			for _, n := range []int{s, 2*s + 1} {
				cfg := c04Base(fl, p.a, p.ma, p.b, p.mb, n)
				base := c04Run(cfg, c04Scripted(cfg, nil))
				nh := 0
				for _, o := range base.obs {
					if o.wire != nil {
						nh++
					}
				}
				net := 0
				for _, ev := range base.evs {
					if ev.op == 'D' {
						net++
					}
				}
				for h := 0; h < nh; h++ {
					hh := h
					inner := c04Scripted(cfg, nil)
					done := false
					pol := func(w *c04World, step int) (c04Ev, bool) {
						if !done && len(w.flight) == 0 && step > len(cfg.exch) {
							done = true
							if hh < len(w.hist) {
								return c04Ev{'R', hh}, true
							}
						}
						return inner(w, step)
					}
					r := c04Run(cfg, pol)
					c04Emit(e, cfg, r, "replay-after-completion", c04FlavourNames[fl], fmt.Sprintf("szx-%d-%d", p.a, p.b))
				}
			}
		}
	}
	// (4) random: 1..3 concurrent tokens, random interleaving and faults
	nrand := 400
	if thorough {
		nrand = 2000
	}
	for i := 0; i < nrand; i++ {
		g := rng.Fork()
		szxs := []int{0, 0, 0, 1, 1, 2, 3}
		if thorough && g.Chance(15) {
			szxs = []int{5, 6, 7}
		}
		cfg := &c04Cfg{szxA: szxs[g.Intn(len(szxs))], szxB: szxs[g.Intn(len(szxs))]}
		cfg.maxA = []int{1152, 2048, 4096}[g.Intn(3)]
		cfg.maxB = []int{1152, 2048, 4096}[g.Intn(3)]
		s := c04SzxSize(min2(cfg.szxA, cfg.szxB))
		sizes := c04Sizes(s)
		nx := 1 + g.Intn(3)
		canBump := true
		for j := 0; j < nx; j++ {
			n := sizes[g.Intn(len(sizes))]
			if g.Chance(30) {
				n = g.Intn(4*s + 2)
			}
			rn := sizes[g.Intn(len(sizes))]
			tok := 20 + j
			etag := true
			switch g.Intn(6) {
			case 0:
				cfg.exch = append(cfg.exch, c04Exch{0, 2, tok, j, 40 + 7*j, n, -1, 0})
				rn = g.Intn(s)
				etag = g.Bool()
			case 1:
				cfg.exch = append(cfg.exch, c04Exch{0, 1, tok, j, 0, 0, -1, 0})
			case 2:
				cfg.exch = append(cfg.exch, c04Exch{0, 3, tok, j, 40 + 7*j, n, -1, 0})
			case 3:
				cfg.exch = append(cfg.exch, c04Exch{1, 2 + g.Intn(2), tok, j, 40 + 7*j, n, -1, 0})
				rn = g.Intn(s)
			case 4:
				cfg.exch = append(cfg.exch, c04Exch{2, 69, tok, j, 0, 0, 3 + j, 0})
				cfg.outside = append(cfg.outside, [2]int{tok, j})
			default:
				cfg.exch = append(cfg.exch, c04Exch{2, 69, tok, j, 0, 0, -1, 0})
				if g.Chance(70) {
					cfg.outside = append(cfg.outside, [2]int{tok, j})
				}
			}
			if j == 0 && !etag {
				canBump = false
			}
			cfg.res = append(cfg.res, c04Res{100 + 30*j, rn, etag, 40 + j})
		}
		fp := []int{0, 10, 25, 40}[g.Intn(4)]
		r := c04Run(cfg, c04Random(cfg, g, fp, canBump))
		c04Emit(e, cfg, r, "random", fmt.Sprintf("tokens-%d", nx), fmt.Sprintf("fault-pct-%d", fp))
	}
	c04RestartFamily(e, thorough)
	c04ExpiryFamily(e, thorough)
	// concurrent transfers with different tokens never mix: similar-but-distinct tokens, queued wire
	c04SimilarTokensFamily(e, thorough)
	c04QueuedWireFamily(e, rng.Fork(), thorough)
	// the clock and the shape of the script: request deadlines (slow, loss-free exchanges), bodies supplied
	// through readers with short reads in loss-free runs beyond the livelock bound
	c04DeadlineFamily(e, thorough)
	c04DeadlineRandom(e, NewRng(a.seed*1000003+17), thorough)
	c04PagedFamily(e, thorough)
	// state of an exchange that is still under way: a further Do with the token in flight, a stale request
	// with the token of a response that is still being fetched (c04flight.go)
	c04SecondDoFamily(e, thorough)
	c04StaleRequestFamily(e, thorough)
	// blocks that do not continue what the receiver holds: stale blocks of an earlier transfer with the same
	// token, offsets strictly inside the bytes held (c04stale.go)
	c04StaleBlockFamily(e, thorough)
	return e.Flush(a.out)
}

// c04Canonical: the histories of the findings recorded in notes/C04.md.
var c04Canonical = []string{
	// F15: complete transfer, the last block replayed
	"c04 0 1152 0 1152 | x0,2,7,0,5,33,-1 | r11,5,0,42 | | S0 D0 D0 D0 D0 D0 D0 R4 D0 T0 E0 E1",
	// one-way POST of exactly one block
	"c04 0 1152 0 1152 | x1,2,10,0,9,16,-1 | r19,3,0,42 | | S0 D0 D0 E0 E1",
	// finding 3, witness 1: the token of a finished POST with a block-wise response is used by a later Do,
	// an old block (NUM > 0) of the first response arrives: the reassembly has to start again at block 0
	"c04 0 1152 0 1152 | x0,2,7,0,5,5,-1 | r11,40,0,42 | | S0 D0 D0 D0 D0 D0 D0 S0 R3 D1",
	// finding 3, witness 2: one Do; the resource changes, the first request is duplicated
	"c04 0 1152 0 1152 | x0,2,7,0,5,5,-1 | r11,20,1,42 | | S0 D0 D0 D0 B0 R0 R2 D2 D2",
	// known class do-returned-continue-after-its-state-was-lost (notes/C04.md, O7): an upload without a request
	// deadline is slower than the transfer timeout: the element Do stored has expired, the next 2.31 Continue is
	// handed to the application and the Do returns it without error
	"c04 0 1152 0 1152 | x0,2,7,0,5,64,-1 | r11,5,0,42 | | S0 D0 D0 D0 D0 A3700 D0 D0 T0 E0 E1",
	// ... the same upload inside a request deadline of 9000 s goes on (the slow link of seeded regression C04-6)
	"c04 0 1152 0 1152 | x0,2,7,0,5,64,-1,9000 | r11,5,0,42 | | S0 D0 D0 D0 D0 A3700 D0 D0 D0 D0 D0 D0 T0 E0 E1",
	// ... O2 (BERT upload of 1024 < n < buffer: the sender fails on the first 2.31) followed by a duplicate of that
	// 2.31: the element is gone, the duplicate is handed over and the Do returns it (class 11 as well)
	"c04 7 2048 7 2048 | x0,2,7,0,5,1500,-1 | r11,5,0,42 | | S0 D0 U0 D0 T0 E0 E1",
	// a download of a body supplied through a paged reader (pages of 100 bytes, blocks of 16), loss-free, 100 deliveries
	"c04 0 1152 0 1152 pg100 | x0,1,8,0,0,0,-1 | r13,300,1,50 | | S0" + strings.Repeat(" D0", 100),
	// a further Do with the token of an upload in flight (Properties/C04.v C04_second_do_history; seeded regression C04-8)
	"c04 0 1152 0 1152 | x0,2,7,0,5,64,-1 | r11,5,0,42 | | S0 D0 D0 D0 S0 D0 D0 D0 D0 D0",
	// a stale copy of the first request reaches B while the download is under way, after the resource (no ETag) got new
	// content; B's answer to it is lost (C04_stale_request_history; seeded regression C04-9)
	"c04 0 1152 0 1152 | x0,1,7,0,5,0,-1 | r11,75,0,42 | | S0 D0 D0 D0 D0 B0 R0 X1 D0 D0 D0 D0 D0 D0",
}

// c04RestartFamily: histories in which the reassembly of a block-wise RESPONSE has to start again at
// block 0: (a) the exchange is started again with the token already used and blocks of the earlier
// response are replayed; (b) the resource (with ETag) changes while its representation is fetched and
// earlier messages (the first request, blocks) are replayed. Bases: Do POST / PUT / GET whose response
// is block-wise, request small or block-wise.
func c04RestartFamily(e *Emitter, thorough bool) {
	type base struct {
		code, reqLen, resLen int
		etag                 bool
	}
	bases := []base{{2, 5, 40, false}, {3, 5, 20, true}, {1, 0, 40, true}}
	if thorough {
		bases = append(bases, base{2, 20, 40, true}, base{3, 5, 40, false}, base{2, 5, 33, true}, base{1, 0, 20, false})
	}
	drain := func(inner []c04Ev, lifo bool) c04Policy {
		i, n, epi := 0, 0, 0
		epilogue := []c04Ev{{'T', 0}, {'E', 0}, {'E', 1}}
		return func(w *c04World, _ int) (c04Ev, bool) {
			if i < len(inner) {
				i++
				return inner[i-1], true
			}
			if len(w.flight) > 0 && n < 40 {
				n++
				if lifo {
					return c04Ev{'D', len(w.flight) - 1}, true
				}
				return c04Ev{'D', 0}, true
			}
			if epi < len(epilogue) {
				epi++
				return epilogue[epi-1], true
			}
			return c04Ev{}, false
		}
	}
	for _, b := range bases {
		cfg := &c04Cfg{szxA: 0, maxA: 1152, szxB: 0, maxB: 1152}
		cfg.exch = []c04Exch{{0, b.code, 7, 0, 5, b.reqLen, -1, 0}}
		cfg.res = []c04Res{{11, b.resLen, b.etag, 42}}
		name := fmt.Sprintf("restart-code%d-req%d-res%d", b.code, b.reqLen, b.resLen)
		// the fault-free run: its length and its wire history
		ff := c04Run(cfg, c04Scripted(cfg, nil))
		var run []c04Ev // S0 D0 ... D0 (without the epilogue)
		nh := 0
		for i, ev := range ff.evs {
			if ev.op == 'S' || ev.op == 'D' {
				run = append(run, ev)
			}
			if ff.obs[i].wire != nil {
				nh++
			}
		}
		// (a) complete, start again with the same token, replay one or two old messages, let everything arrive
		for h1 := 0; h1 < nh; h1++ {
			evs := append(append([]c04Ev(nil), run...), c04Ev{'S', 0}, c04Ev{'R', h1})
			for _, lifo := range []bool{false, true} {
				r := c04Run(cfg, drain(evs, lifo))
				c04Emit(e, cfg, r, "restart", name, "token-reused")
			}
			for h2 := 0; h2 < nh; h2++ {
				if !thorough && h2 != h1+1 && h2 != 0 {
					continue
				}
				evs2 := append(append([]c04Ev(nil), evs...), c04Ev{'R', h2})
				for _, lifo := range []bool{false, true} {
					r := c04Run(cfg, drain(evs2, lifo))
					c04Emit(e, cfg, r, "restart", name, "token-reused")
				}
			}
		}
		// (b) after p steps the resource changes; one or two earlier messages are replayed
		if b.etag {
			for p := 1; p <= len(run); p++ {
				for h1 := 0; h1 < nh; h1++ {
					evs := append(append([]c04Ev(nil), run[:p]...), c04Ev{'B', 0}, c04Ev{'R', h1})
					for _, lifo := range []bool{false, true} {
						r := c04Run(cfg, drain(evs, lifo))
						c04Emit(e, cfg, r, "restart", name, "resource-changed")
					}
					for h2 := 0; h2 < nh; h2++ {
						if !thorough && h2 > 2 {
							continue
						}
						evs2 := append(append([]c04Ev(nil), evs...), c04Ev{'R', h2})
						for _, lifo := range []bool{false, true} {
							r := c04Run(cfg, drain(evs2, lifo))
							c04Emit(e, cfg, r, "restart", name, "resource-changed")
						}
					}
				}
			}
		}
	}
}

// c04AgeSteps: amounts of virtual time (seconds; the expiration of both endpoints is 3600 s). No sum of
// them is a multiple of 3600, so no deadline is ever met exactly (real time moves by milliseconds meanwhile).
var c04AgeSteps = []int{1700, 3700}

// c04ExpiryFamily: an exchange dies after at least one block (everything in flight is lost, the Do gives
// up), time passes (short of / beyond the deadline of what the endpoints still hold), the endpoints are
// swept or not, the resource gets new content of at least the same length, and a new exchange with the
// SAME token runs to completion. The stale reassembly / sending state of the dead exchange is still in
// the caches unless swept; the new exchange must deliver exactly its own body.
func c04ExpiryFamily(e *Emitter, thorough bool) {
	type base struct {
		name                 string
		code, reqLen, resLen int
		etag                 bool
		szxA, szxB           int
	}
	bases := []base{
		{"download", 1, 0, 75, false, 0, 0},
		{"download-etag", 1, 0, 40, true, 0, 0},
		{"upload", 3, 75, 5, false, 0, 0},
		{"post-big-response", 2, 5, 40, false, 0, 0},
	}
	if thorough {
		bases = append(bases, base{"download-szx", 1, 0, 100, false, 1, 0}, base{"upload-szx", 2, 100, 5, false, 0, 1},
			base{"both", 3, 40, 40, false, 0, 0}, base{"both-etag", 3, 40, 40, true, 0, 0})
	}
	sweeps := [][]c04Ev{nil, {{'W', 0}}, {{'W', 1}}, {{'W', 0}, {'W', 1}}}
	ages := [][]c04Ev{{{'A', 3700}}, {{'A', 1700}}, {{'A', 1700}, {'A', 1700}, {'A', 1700}}}
	if thorough {
		sweeps = append(sweeps, []c04Ev{{'E', 0}}, []c04Ev{{'E', 1}})
		ages = append(ages, []c04Ev{{'A', 1700}, {'A', 1700}}, nil)
	}
	for _, b := range bases {
		cfg := &c04Cfg{szxA: b.szxA, maxA: 1152, szxB: b.szxB, maxB: 1152}
		cfg.exch = []c04Exch{{0, b.code, 7, 0, 5, b.reqLen, -1, 0}}
		cfg.res = []c04Res{{11, b.resLen, b.etag, 42}}
		ff := c04Run(cfg, c04Scripted(cfg, nil))
		nd := 0
		for _, ev := range ff.evs {
			if ev.op == 'D' {
				nd++
			}
		}
		for p := 1; p < nd; p++ {
			for ai, age := range ages {
				for si, sw := range sweeps {
					for _, variant := range []int{0, 1, 2} {
						bump, late := variant != 1, variant == 2
						if !bump && (!thorough || b.code != 1) {
							continue
						}
						if late && (len(sw) != 1 || (!thorough && ai != 0)) {
							continue
						}
						total := 0
						for _, a := range age {
							total += a.arg
						}
						if bump && !b.etag && total <= 3600 {
							// Short of the deadline the reassembly state of the dead exchange is still valid and a
							// new exchange with the same token continues it, like a late block within one exchange:
							// without ETag the versions of a resource that changes meanwhile cannot be told apart
							// (RFC 7959; observation O4 in notes/C04.md). The content changes only with an ETag here.
							continue
						}
						// the first exchange: p messages arrive, the rest is lost, the Do gives up
						pre := []c04Ev{{'S', 0}}
						for i := 0; i < p; i++ {
							pre = append(pre, c04Ev{'D', 0})
						}
						mid := append([]c04Ev{{'T', 0}}, age...)
						if !late {
							mid = append(mid, sw...)
						}
						if bump {
							mid = append(mid, c04Ev{'B', 0})
						}
						mid = append(mid, c04Ev{'S', 0})
						if late {
							// the sweep runs when the new exchange is already under way (its onExpire callbacks
							// meet the state of the new exchange)
							mid = append(mid, sw...)
						}
						stage, i, n, epi := 0, 0, 0, 0
						epilogue := []c04Ev{{'T', 0}, {'E', 0}, {'E', 1}}
						pol := func(w *c04World, _ int) (c04Ev, bool) {
							if stage == 0 {
								if i < len(pre) {
									i++
									return pre[i-1], true
								}
								stage, i = 1, 0
							}
							if stage == 1 {
								if len(w.flight) > 0 {
									return c04Ev{'X', 0}, true
								}
								stage = 2
							}
							if stage == 2 {
								if i < len(mid) {
									i++
									return mid[i-1], true
								}
								stage = 3
							}
							if len(w.flight) > 0 && n < 60 {
								n++
								return c04Ev{'D', 0}, true
							}
							if epi < len(epilogue) {
								epi++
								return epilogue[epi-1], true
							}
							return c04Ev{}, false
						}
						r := c04Run(cfg, pol)
						lateTag := "sweep-before-restart"
						if late {
							lateTag = "sweep-after-restart"
						}
						c04Emit(e, cfg, r, "expiry", "expiry-"+b.name, fmt.Sprintf("age-%d", ai), fmt.Sprintf("sweep-%d", si), lateTag)
					}
				}
			}
		}
	}
}
