package main

// C12, family H: the hand-over of a response to the caller that waits for it, with the CALLER scheduled first.
//
// On the family-E connection (a real udp/client.Conn on the in-memory session, block-wise SZX16) the application
// calls Do with its own request; the scripted peer answers - in one piece (piggybacked, separate confirmable,
// separate non-confirmable), in two or more Block2 blocks, after a block-wise upload. The receive path hands the
// response (the received message itself, or the message reassembled from the blocks) to the waiting caller through
// doInternal's token handler (`r.Hijack(); respChan <- r`). Unlike in family E the application of this family uses
// and RELEASES the response as soon as Do has returned, concurrently with what the receive path still has to do.
//
// From the channel send on the message is the caller's; the receive path must not touch it again (Pool/HandOverModel.v:
// handover_code = no access after the send; Pool/HandOver.v handover_safe / handover_late_read_refuted). To make "the
// caller is scheduled first" deterministic the accessor hook of message/pool is used as the scheduling point: an access
// to a message that carries the hijack flag (set by the token handler immediately before the send; the flag of an
// object recycled from an earlier life is told apart at its re-acquisition) from a goroutine that is neither the
// caller's nor the script's is an access of the library AFTER the hand-over; it is counted (`late`) and held until the
// application goroutine is through (witness: its `done` channel - response used and released, request released), then
// let go: the tracker records it as a Use of a released message. On the tree as it is no such access exists, the gate
// is never entered and nothing waits. No timing: the only bound (handOverWait) turns a caller that never comes back
// into "the access goes on unrecorded" - it can hide a violation, never create one.
//
// Emitted per scenario: the complete trace (monitor) and `HandOver <kind> <late> <trace>`: late must be the model's
// number of accesses after the send (0).
//
// Descriptor: H#<capacity>|<script of family E>.

import (
	"fmt"
	"strconv"
	"strings"
	"sync"
	"time"

	"github.com/plgd-dev/go-coap/v3/message/codes"
	"github.com/plgd-dev/go-coap/v3/message/pool"
)

const handOverWait = 30 * time.Second

type handoverGate struct {
	owner   int64 // the script's goroutine
	mu      sync.Mutex
	caller  int64           // the application goroutine of the call in progress
	done    <-chan struct{} // closed when that goroutine is through
	stale   map[*pool.Message]bool
	late    int
	where   []string
	expired bool
}

func newHandoverGate() *handoverGate {
	return &handoverGate{owner: curGID(), stale: map[*pool.Message]bool{}}
}

func (h *handoverGate) setCaller(gid int64, done <-chan struct{}) {
	h.mu.Lock()
	h.caller, h.done = gid, done
	h.mu.Unlock()
}

// reacquired: a recycled object is handed out again; a hijack flag it still carries belongs to an earlier life.
func (h *handoverGate) reacquired(m *pool.Message) {
	if m.IsHijacked() {
		h.mu.Lock()
		h.stale[m] = true
		h.mu.Unlock()
	}
}

// arrive is called (through poolTracker.Used) at the beginning of every accessor of every pool message.
func (h *handoverGate) arrive(m *pool.Message) {
	if !m.IsHijacked() {
		return
	}
	gid := curGID()
	h.mu.Lock()
	if gid == h.owner || gid == h.caller || h.stale[m] || h.done == nil {
		h.mu.Unlock()
		return
	}
	h.late++
	if len(h.where) < 4 {
		h.where = append(h.where, callerOutsideHarness())
	}
	done := h.done
	h.mu.Unlock()
	select {
	case <-done: // the caller has used and released what it got
	case <-time.After(handOverWait):
		h.mu.Lock()
		h.expired = true
		h.mu.Unlock()
	}
}

func c12HandOver(e *c12Out, tr *poolTracker, desc, arg string) {
	i := strings.Index(arg, "|")
	if i < 0 {
		return
	}
	capacity, _ := strconv.Atoi(arg[:i])
	if capacity <= 0 {
		capacity = 256
	}
	p := pool.New(uint32(capacity), 2048)
	tr.scenario(p)
	tr.tagGoroutines()
	c := newC12eConn(tr, p)
	hg := newHandoverGate()
	c.hg, c.eager = hg, true
	tr.hgate.Store(hg)
	defer tr.hgate.Store(nil)
	kind, blocks := "", 0
	for _, a := range strings.Fields(arg[i+1:]) {
		f := strings.Split(a, ":")
		tok := 0
		if len(f) > 1 {
			tok, _ = strconv.Atoi(f[1])
		}
		switch f[0] {
		case "get":
			c.start(codes.GET, tok, 0)
		case "del":
			c.start(codes.DELETE, tok, 0)
		case "post":
			c.start(codes.POST, tok, 5)
		case "put":
			c.start(codes.PUT, tok, 5)
		case "fetch":
			c.start(codes.Code(5), tok, 5)
		case "up":
			n := 40
			if len(f) > 2 {
				n, _ = strconv.Atoi(f[2])
			}
			c.start(codes.POST, tok, n)
		default:
			st := parseC12eStep(a)
			if !st.valid {
				continue
			}
			call := c.call
			if st.kind == 'r' {
				blocks++
			}
			if _, ok := c.step(st, a); !ok {
				goto out
			}
			if call != nil {
				select {
				case <-call.ret:
					if call.resp != nil {
						if call.resp == c.win.m {
							kind = "HoDirect"
						} else {
							kind = "HoReassembled"
						}
					}
				default:
				}
			}
		}
		if len(c.flags) > 0 {
			break
		}
	}
out:
	c.finish()
	c.close()
	tr.hgate.Store(nil)
	evs := tr.take()
	hg.mu.Lock()
	late, where, expired := hg.late, strings.Join(hg.where, ","), hg.expired
	hg.mu.Unlock()
	if expired {
		c.flag("caller-did-not-come-back")
	}
	if len(c.flags) > 0 {
		if dbgC12() {
			fmt.Println("H flags", desc, c.flags)
		}
		e.AddW(fmt.Sprintf("Hung %s", coqLc(c12Cut(evs))), desc, false, 1+len(evs)/60, "H:hang")
		return
	}
	outcome := "H:no-response-handed-over"
	if kind != "" {
		outcome = "H:" + kind
	}
	c12Emit(e, desc, capacity, evs, "H", outcome)
	if kind == "" {
		return
	}
	if where == "" {
		where = "-"
	}
	e.AddW(fmt.Sprintf("HandOver %s %d %s", kind, late, coqLc(c12Cut(evs))), desc, true, 1+len(evs)/60,
		"H:handover", fmt.Sprintf("H:late-accesses=%d", late), "H:late-in:"+where, fmt.Sprintf("H:blocks=%d", blocks))
}

var c12HandOverFixed = []string{
	"get:1 p:1:0:5:a",                    // a response in one piece, piggybacked
	"get:1 r:1:0:1:0:16:a r:1:1:0:0:5:a", // ... in two blocks: the caller gets the reassembled message
	"get:1 p:1:0:5:c",                    // a separate confirmable response (the receive path still has to acknowledge it)
	"get:1 p:1:0:5:n",                    // a separate non-confirmable response
	"post:1 r:1:0:1:7:16:a r:1:1:1:7:16:c r:1:2:0:7:3:n", // three blocks, mixed types
	"put:1 p:1:3:0:a",                                          // an empty piggybacked response
	"up:1:40 k:1:0:1:a k:1:1:1:a p:1:0:2:a",                    // block-wise upload, response in one piece
	"up:1:40 k:1:0:1:a k:1:1:1:a r:1:0:1:3:16:a r:1:1:0:3:6:a", // ... answered in blocks
	"get:1 p:1:0:5:a get:2 p:2:0:3:c",                          // two calls one after the other (recycled objects)
	"get:1 r:1:0:1:0:16:a r:1:1:0:0:5:c get:2 r:2:0:1:0:16:a r:2:1:0:0:1:a",
	"del:1 r:1:0:1:1:16:a r:1:1:1:2:16:n r:1:0:1:2:16:c r:1:1:0:2:16:c", // the transfer restarts (ETag), then completes
	"fetch:1 r:1:0:0:0:9:a",                                             // a single block with a Block2 option
}

func c12HandOverDescriptors(rng *Rng, thorough bool) []string {
	var ds []string
	for i, s := range c12HandOverFixed {
		ds = append(ds, fmt.Sprintf("H#%d|%s", []int{256, 4}[i%2], s))
		if i < 4 {
			ds = append(ds, fmt.Sprintf("H#%d|%s", []int{2, 256}[i%2], s))
		}
	}
	n := 8
	if thorough {
		n = 150
	}
	typ := func() string { return []string{"a", "a", "c", "n"}[rng.Intn(4)] }
	for i := 0; i < n; i++ {
		var acts []string
		calls := 1 + rng.Intn(2)
		for k := 1; k <= calls; k++ {
			op := []string{"get", "post", "put", "fetch", "del", "up"}[rng.Intn(6)]
			if op == "up" {
				ln := 33 + rng.Intn(40)
				acts = append(acts, fmt.Sprintf("up:%d:%d", k, ln))
				for j := 0; j < (ln+15)/16-1; j++ {
					acts = append(acts, fmt.Sprintf("k:%d:%d:1:%s", k, j, typ()))
				}
			} else {
				acts = append(acts, fmt.Sprintf("%s:%d", op, k))
			}
			blocks := rng.Intn(4) // 0: in one piece
			etag := rng.Pick([]int{0, 0, 5})
			if blocks == 0 {
				acts = append(acts, fmt.Sprintf("p:%d:%d:%d:%s", k, etag, rng.Intn(9), typ()))
				continue
			}
			for j := 0; j <= blocks; j++ {
				more, plen := j < blocks, 16
				if !more {
					plen = 1 + rng.Intn(16)
				}
				acts = append(acts, fmt.Sprintf("r:%d:%d:%d:%d:%d:%s", k, j, c12b2i(more), etag, plen, typ()))
			}
		}
		ds = append(ds, fmt.Sprintf("H#%d|%s", rng.Pick([]int{256, 8, 2}), strings.Join(acts, " ")))
	}
	return ds
}
